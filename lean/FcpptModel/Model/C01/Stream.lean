import FcpptModel.Model.C01
/-!
# C01 — the io helpers on streams in *every* state

Mirrors `io/read_chars.cpp` (with the buffer it fills: `container/buffer/read_from_opt.hpp`,
`append_from_opt.hpp`, `object_impl.hpp` `resize_write_area` / `written`, `to_raw_vector.hpp`),
`io/stream_to_string.hpp`, `io/get.hpp`, `io/peek.hpp`, `io/read.hpp`, `io/write_chars.cpp`.

Library code underneath (libstdc++ 12), modelled as a validated **assumption**:
`basic_istream::sentry(noskipws)`, `read`, `get`, `peek`, `basic_ostream::operator<<(streambuf*)`,
`basic_ostream::sentry`, `write`.  A stream is what its streambuf can still deliver plus its state
bits; the streambuf may *throw* instead of reporting end-of-file (an `ifstream` opened on a directory
does exactly that: `basic_filebuf::underflow` throws on `EISDIR`).  The istream members catch the
exception and set `badbit`.
-/
namespace Fcppt.C01

structure IStream where
  /-- characters the streambuf still delivers -/
  buf : List Nat
  eof : Bool := false
  fail : Bool := false
  bad : Bool := false
  /-- once `buf` is used up the streambuf throws from `underflow` instead of returning `eof()` -/
  throwsAtEnd : Bool := false
  deriving Repr, DecidableEq

namespace IStream
def good (s : IStream) : Bool := !s.eof && !s.fail && !s.bad
/-- `basic_ios::fail()` -/
def failed (s : IStream) : Bool := s.fail || s.bad
/-- "efbg" -/
def bits (s : IStream) : String :=
  (if s.eof then "e" else "") ++ (if s.fail && !s.bad then "f" else "") ++ (if s.bad then "b" else "") ++ (if s.good then "g" else "")
end IStream

/-- `istream::sentry(in, true)`: a stream that is not good gets `failbit` and the operation does nothing -/
def sentryNoskip (s : IStream) : IStream × Bool :=
  if s.good then (s, true) else ({ s with fail := true }, false)

/-- `istream::read(dest, n)`: the characters stored at `dest[0..]`, `gcount()`, the stream afterwards -/
def IStream.read (s : IStream) (n : Nat) : IStream × List Nat × Nat :=
  let (s, ok) := sentryNoskip s
  if !ok then (s, [], 0)
  else if n ≤ s.buf.length then ({ s with buf := s.buf.drop n }, s.buf.take n, n)
  else if s.throwsAtEnd then
    -- sgetn copied what there was, then underflow threw: caught, badbit; the assignment to _M_gcount never happened
    ({ s with buf := [], bad := true }, s.buf, 0)
  else ({ s with buf := [], eof := true, fail := true }, s.buf, s.buf.length)

/-- `istream::get()`; `none` = `traits::eof()` -/
def IStream.get (s : IStream) : IStream × Option Nat :=
  let (s, ok) := sentryNoskip s
  if !ok then (s, none)
  else match s.buf with
    | c :: r => ({ s with buf := r }, some c)
    | [] => if s.throwsAtEnd then ({ s with bad := true }, none) else ({ s with eof := true, fail := true }, none)

/-- `istream::peek()` -/
def IStream.peek (s : IStream) : IStream × Option Nat :=
  let (s, ok) := sentryNoskip s
  if !ok then (s, none)
  else match s.buf with
    | c :: _ => (s, some c)
    | [] => if s.throwsAtEnd then ({ s with bad := true }, none) else ({ s with eof := true }, none)

/-! ## container::buffer::object, as far as read_chars uses it -/

/-- `first_ .. cap_` is `cells` (`none` = uninitialised storage), `read_end_`, `write_end_` as offsets -/
structure Buf where
  cells : List (Option Nat)
  readEnd : Nat
  writeEnd : Nat
  deriving Repr, DecidableEq

/-- `Buffer{0U}` -/
def Buf.empty : Buf := ⟨[], 0, 0⟩

/-- `resize_write_area(sz)`: enough room behind `read_end_` → move `write_end_`; otherwise a new block of
`max(2 * capacity, sz + read_size)` cells, the read area copied -/
def Buf.resizeWriteArea (b : Buf) (sz : Nat) : Buf :=
  if b.cells.length - b.readEnd ≥ sz then { b with writeEnd := b.readEnd + sz }
  else
    let newSize := max (b.cells.length * 2) (sz + b.readEnd)
    { cells := b.cells.take b.readEnd ++ List.replicate (newSize - b.readEnd) none,
      readEnd := b.readEnd, writeEnd := b.readEnd + sz }

/-- `dest[i] = c` through the pointer handed to the reader: outside the block is a fault -/
def writeCell (cells : List (Option Nat)) (i : Nat) (c : Nat) : M (List (Option Nat)) :=
  if i < cells.length then .ok (cells.set i (some c)) else .error .oob

/-- the reader stores `cs` at `pos, pos+1, …` -/
def writeCells (cells : List (Option Nat)) (pos : Nat) : List Nat → M (List (Option Nat))
  | [] => .ok cells
  | c :: cs => do let cells ← writeCell cells pos c; writeCells cells (pos + 1) cs

/-- reading an element of the finished vector: outside the block `oob`, never written `uninit` -/
def readCell (cells : List (Option Nat)) (i : Nat) : M Nat :=
  match cells[i]? with
  | some (some c) => .ok c
  | some none => .error .uninit
  | none => .error .oob

/-- `to_raw_vector(std::move(buffer))`: the elements `[first_, read_end_)` as the caller sees them -/
def Buf.toRawVector (b : Buf) : M (List Nat) := (List.range b.readEnd).mapM (readCell b.cells)

/-- `fcppt::io::read_chars(stream, count)`:
`read_from_opt(count, λ (data, size). make_if(stream.read(data, size).good(), gcount))` then `to_raw_vector` -/
def readChars (s : IStream) (count : Nat) : M (IStream × Option (List Nat)) :=
  -- append_from_opt(Buffer{0U}, count, f): resize_write_area(count); f(write_data(), count)
  let b := Buf.empty.resizeWriteArea count
  -- stream.read(data, size): (stream afterwards, characters stored through `data`, gcount)
  let r := s.read count
  (writeCells b.cells b.readEnd r.2.1).bind fun cells =>
    if r.1.good then
      -- _buffer.written(gcount): read_end_ += gcount;  to_raw_vector(std::move(buffer))
      (Buf.toRawVector { b with cells := cells, readEnd := b.readEnd + r.2.2 }).bind fun v => pure (r.1, some v)
    else pure (r.1, none)

/-! ## stream_to_string -/

structure OStream where
  content : List Nat := []
  eof : Bool := false
  fail : Bool := false
  bad : Bool := false
  /-- characters the streambuf still accepts (`none`: unlimited) -/
  room : Option Nat := none
  /-- a full streambuf throws from `overflow` instead of returning `eof()` -/
  throwsWhenFull : Bool := false
  deriving Repr, DecidableEq

namespace OStream
def good (o : OStream) : Bool := !o.eof && !o.fail && !o.bad
def bits (o : OStream) : String :=
  (if o.eof then "e" else "") ++ (if o.fail && !o.bad then "f" else "") ++ (if o.bad then "b" else "") ++ (if o.good then "g" else "")
end OStream

/-- `output << input.rdbuf()` on a fresh `ostringstream`: everything the streambuf delivers is inserted whatever
the *input stream's* state bits say; `failbit` if nothing was inserted or the streambuf threw; a null streambuf
pointer gives `badbit` -/
def insertStreambuf (nullbuf : Bool) (s : IStream) : OStream :=
  if nullbuf then { bad := true }
  else { content := s.buf, fail := s.buf.isEmpty || s.throwsAtEnd }

/-- `fcppt::io::stream_to_string`: `make_if(!input.fail() && (output.str().empty() || output.good()), output.str())` -/
def streamToString (nullbuf : Bool) (s : IStream) : Option (List Nat) :=
  let output := insertStreambuf nullbuf s
  if !s.failed && (output.content.isEmpty || output.good) then some output.content else none

/-! ## io::get, io::peek, io::read -/

/-- `fcppt::io::get`: `result == eof() ? nothing : to_char_type(result)` -/
def ioGet (s : IStream) : IStream × Option Nat := s.get
def ioPeek (s : IStream) : IStream × Option Nat := s.peek

/-- the value of `bytes` (object representation, first byte first) under the given byte order -/
def decodeBytes (big : Bool) (bytes : List Nat) : Nat :=
  (if big then bytes else bytes.reverse).foldl (fun acc b => acc * 256 + b) 0

/-- `fcppt::io::read<T>(stream, endian)` for an unsigned or two's complement `T` of `size` bytes:
`stream.read(&result, sizeof(T)) ? some(convert(result, endian)) : nothing` (`operator bool` is `!fail()`) -/
def ioRead (size : Nat) (signed big : Bool) (s : IStream) : IStream × Option Int :=
  let (s, stored, _) := s.read size
  if !s.failed then
    let u := decodeBytes big stored
    (s, some (if signed ∧ u ≥ 2 ^ (8 * size - 1) then (u : Int) - 2 ^ (8 * size) else u))
  else (s, none)

/-! ## io::write_chars -/

/-- `ostream::write(data, n)`: sentry (a stream that is not good does nothing), `sputn`, `badbit` when the
streambuf took fewer characters or threw -/
def OStream.write (o : OStream) (data : List Nat) : OStream :=
  if !o.good then o
  else match o.room with
    | none => { o with content := o.content ++ data }
    | some k =>
      if data.length ≤ k then { o with content := o.content ++ data, room := some (k - data.length) }
      else { o with content := o.content ++ data.take k, room := some 0, bad := true }

/-- `fcppt::io::write_chars`: `stream.write(data, count); return stream.good();` -/
def writeChars (o : OStream) (data : List Nat) : OStream × Bool :=
  let o := o.write data
  (o, o.good)

end Fcppt.C01
