import FcpptModel.Model.C01
/-!
# C01 — helpers whose input comes from the environment

Mirrors `args.cpp`, `args_from_second.cpp`, `getenv.cpp`, `make_optional_error_code.cpp`,
`filesystem/create_directory.cpp`, `create_directories_recursive.cpp`, `impl/make_range.hpp`
(`make_directory_range`, `make_recursive_directory_range`), `filesystem/open.hpp`, `open_exn.hpp`,
`system.cpp`, `options/impl/flag_name.cpp`, `cast/detail/dynamic.hpp` (+ `dynamic_any`, `dynamic_cross`,
`dynamic_pointer_cast`, `unique_ptr_dynamic_cast`), `time/gmtime.cpp`, `time/localtime.cpp`.

What the operating system / the C library answers is an *oracle argument* of each model (an error
code, "the stream is open", a null pointer from `gmtime_r`); the models are the fcppt logic on top:
which answers become an empty optional, an either failure or the documented exception.
-/
namespace Fcppt.C01

/-! ## argc / argv -/

/-- `fcppt::args(argc, argv)`: `map(make_range(argv, argv + argc), λ p. string(p))`; forming `argv + argc`
with a negative count or reading behind the array is undefined -/
def args (argc : Int) (argv : List Str) : M (List Str) :=
  if argc < 0 then .error .oob
  else (List.range argc.toNat).mapM (readAt argv)

/-- `fcppt::args_from_second`: `argc == 0 ? {} : args(argc - 1, argv + 1)` -/
def argsFromSecond (argc : Int) (argv : List Str) : M (List Str) :=
  if argc = 0 then pure [] else args (argc - 1) (argv.drop 1)

/-! ## getenv -/

/-- `fcppt::getenv`: `std::getenv(string(name).c_str())`, a null pointer becomes the empty optional.
`env` is the environment as the list of its `NAME=value` entries split at the first `=`; `c_str()` stops
at an embedded NUL -/
def getenv (env : List (Str × Str)) (name : Str) : Option Str :=
  let cname := name.takeWhile (· != '\x00')
  -- getenv(3): names that are empty or contain '=' match nothing
  if cname.isEmpty || cname.contains '=' then none
  else (env.find? (fun e => e.1 == cname)).map (·.2)

/-! ## error codes -/

/-- `fcppt::make_optional_error_code`: `make_if(error != error_code{}, error)`; an error code is its value,
0 = success -/
def makeOptionalErrorCode (ec : Nat) : Option Nat := if ec ≠ 0 then some ec else none

/-- `fcppt::filesystem::create_directory` / `create_directories_recursive`: the `error_code` overload of the
standard function, then `make_optional_error_code` -/
def createDirectory (osError : Nat) : Option Nat := makeOptionalErrorCode osError

/-- `filesystem::impl::make_range`: the range is constructed with the `error_code` overload,
`either::map(error_from_optional(make_optional_error_code(error)), λ _. result)`.  `Sum.inl` = failure. -/
def makeRange {ρ} (osError : Nat) (range : ρ) : Sum Nat ρ :=
  match makeOptionalErrorCode osError with
  | some e => .inl e
  | none => .inr range

/-- `fcppt::filesystem::open<Stream>`: `make_if(result.is_open(), result)` -/
def fsOpen (isOpen : Bool) : Option Unit := if isOpen then some () else none

/-- `fcppt::filesystem::open_exn`: `to_exception(open(...), fcppt::exception{...})` — the documented exception -/
def fsOpenExn (isOpen : Bool) : M Unit :=
  match fsOpen isOpen with
  | some u => .ok u
  | none => .error (.exception (.other "fcppt"))

/-! ## system -/

/-- `fcppt::system` (POSIX): `make_if(WIFEXITED(status), WEXITSTATUS(status))` of the wait status `std::system`
returns: a command that was killed by a signal has no exit status -/
def systemResult (status : Nat) : Option Nat :=
  if status % 128 = 0 then some (status / 256 % 256) else none

/-! ## options::impl::flag_name -/

/-- `flag_name(name, is_short)`: `(is_short ? "-" : "--") + name` -/
def flagName (name : Str) (isShort : Bool) : Str := (if isShort then ['-'] else ['-', '-']) ++ name

/-! ## the dynamic casts -/

/-- the classes of the harness: `d1, d2 : base`, `d3 : d1`, `m : d1, iface` -/
inductive Cls where
  | base | d1 | d2 | d3 | m | iface
  deriving Repr, DecidableEq

/-- direct base classes -/
def Cls.bases : Cls → List Cls
  | .base => [] | .iface => []
  | .d1 => [.base] | .d2 => [.base]
  | .d3 => [.d1]
  | .m => [.d1, .iface]

/-- `dyn` is `target` or derives from it (three levels suffice for this hierarchy) -/
def Cls.isA (dyn target : Cls) : Bool :=
  dyn == target || dyn.bases.any (fun b => b == target || b.bases.any (fun c => c == target || c.bases.contains target))

/-- `cast::detail::dynamic<Derived>(base)`: `p = dynamic_cast<Derived*>(&base); p != nullptr ? some(*p) : nothing`.
The result names the object found (its dynamic class), never a null reference. -/
def dynamicCast (dyn target : Cls) : Option Cls := if dyn.isA target then some dyn else none

/-! ## smart pointers -/

/-- `fcppt::unique_ptr_from_std`: `make_if(ptr != nullptr, unique_ptr(move(ptr)))` — the result is never a null fcppt::unique_ptr -/
def uniquePtrFromStd (nonNull : Bool) : Option Unit := if nonNull then some () else none

/-- `fcppt::weak_ptr::lock`: `result = impl_.lock(); result ? some(shared_ptr(result)) : nothing`; `owners` = live owners before the
call; the answer carries the use count afterwards -/
def weakLock (owners : Nat) : Option Nat := if owners = 0 then none else some (owners + 1)

/-! ## math::vector::atan2 -/

inductive FClass where
  | zero | nonzero | nan
  deriving Repr, DecidableEq

/-- `atan2(v)`: `make_if(!(is_zero(v.x()) && is_zero(v.y())), std::atan2(v.y(), v.x()))`; a NaN is not zero -/
def vectorAtan2 (x y : FClass) : Option FClass :=
  if x = .zero ∧ y = .zero then none
  else some (if x = .nan ∨ y = .nan then .nan else .nonzero)

/-! ## time -/

structure Tm where
  year : Int      -- tm_year + 1900
  mon : Int       -- tm_mon + 1
  mday : Int
  hour : Int
  min : Int
  sec : Int
  deriving Repr, DecidableEq

/-- the civil date of day number `z` (days since 1970-01-01) in the proleptic Gregorian calendar -/
def civilFromDays (z : Int) : Int × Int × Int :=
  let z := z + 719468
  let era := z / 146097                       -- floor division (`Int./`)
  let doe := z - era * 146097                 -- [0, 146096]
  let yoe := (doe - doe / 1460 + doe / 36524 - doe / 146096) / 365   -- [0, 399]
  let y := yoe + era * 400
  let doy := doe - (365 * yoe + yoe / 4 - yoe / 100)                 -- [0, 365]
  let mp := (5 * doy + 2) / 153                                      -- [0, 11]
  let d := doy - (153 * mp + 2) / 5 + 1
  let m := if mp < 10 then mp + 3 else mp - 9
  (if m ≤ 2 then y + 1 else y, m, d)

/-- what `gmtime_r` answers (glibc, 64-bit `time_t`): a null pointer iff `tm_year` does not fit an `int` -/
def gmtimeR (t : Int) : Option Tm :=
  let days := t / 86400
  let rem := t - days * 86400
  let (y, m, d) := civilFromDays days
  if y - 1900 < -(2 : Int) ^ 31 ∨ y - 1900 > (2 : Int) ^ 31 - 1 then none
  else some ⟨y, m, d, rem / 3600, rem % 3600 / 60, rem % 60⟩

/-- `fcppt::time::gmtime` / `localtime`: `if (gmtime_r(&t, &result) == nullptr) throw std::runtime_error{…}` — the
documented exception -/
def timeGmtime (answer : Option Tm) : M Tm :=
  match answer with
  | some r => .ok r
  | none => .error (.exception (.other "runtime_error"))

end Fcppt.C01
