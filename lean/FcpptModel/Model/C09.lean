import FcpptModel.Prelude.Fault
import FcpptModel.Spec.C09
/-!
# C09 — executable model of `fcppt::container::tree::object<int>` at pointer level

Mirrors `libs/core/include/fcppt/container/tree/object_impl.hpp` (after fix 05c8c12) member by member,
and the traversals `pre_order.hpp`, `to_root.hpp`, `depth.hpp`, `level.hpp`, `child_position.hpp`,
`map.hpp`, `comparison.hpp`.

An object is `PT.node id val parent kids`:
* `id`     — the address of the object (every construction takes a fresh one from `St.next`);
* `parent` — the member `parent_` (`none` = `nullptr`, `some i` = address of an object);
* `kids`   — the member `children_`, a `std::list<object>`: the children are *held by value*, list nodes have
             stable addresses, so moving a list keeps the ids of its elements, copying constructs new objects.

The only non-owning pointer of the class is `parent_`; it is the thing the property is about.  The model
performs the same writes to it as the code: constructors set it to `nullptr`, `insert` sets it to `this`,
`copy_children`/`move_children`/`swap` loop over the new child list and set it to `this`, nothing else
touches it.  Whether the resulting links are consistent is a *theorem* (`Props/C09.lean`), not built in.

| definition | mirrors |
|---|---|
| `mkLeaf` | `object(T const&)` |
| `moveCtor` | `object(object&&)` with `move_children` / `move_clear` |
| `copyT`, `copyL` | `object(object const&)` with `copy_children` |
| `reparent` | the `for (auto &child : result) child.parent_ = this;` loops |
| `step` | `operator=` (both), `release`, `pop_back`, `pop_front`, `push_*`, `insert` (value and tree), `erase` (both), `clear`, `swap`, `sort` (both), `object(T&&, child_list&&)`, destructor |
| `front`, `back`, `fwd`, `rev`, `sizeK`, `emptyK` | `front()`, `back()`, `begin()/end()`, `rbegin()/rend()`, `size()`, `empty()` |
| `printT`, `render`, `output` | `detail/print.hpp`, `output.hpp` |
| `preLoop`, `pushRest`, `preNodes`, `preOrder` | `pre_order::iterator::increment` (explicit stack), `make_pre_order` |
| `toRootLoop`, `toRootNodes`, `toRoot`, `level` | `to_root::iterator::increment`, `make_to_root`, `level.hpp` |
| `depth` | `depth.hpp` (`fold` with `std::max`) |
| `childPosition` | `child_position.hpp` (`find_if_opt` comparing addresses) |
| `mapT` | `map.hpp` with `object(T&&, child_list&&)` |
| `eqT` | `comparison.hpp` (`value == value && children == children`, `std::list::operator==`) |
-/
namespace Fcppt.C09

inductive PT where
  | node (id : Nat) (val : Int) (parent : Option Nat) (kids : List PT)
  deriving Repr, Inhabited

namespace PT
def id : PT → Nat | node i _ _ _ => i
def val : PT → Int | node _ v _ _ => v
def parent : PT → Option Nat | node _ _ p _ => p
def kids : PT → List PT | node _ _ _ k => k
def setParent (p : Option Nat) : PT → PT | node i v _ ks => node i v p ks
def setVal (v : Int) : PT → PT | node i _ p ks => node i v p ks
def setKids (ks : List PT) : PT → PT | node i v p _ => node i v p ks

@[simp] theorem id_node (i v p ks) : (node i v p ks).id = i := rfl
@[simp] theorem val_node (i v p ks) : (node i v p ks).val = v := rfl
@[simp] theorem parent_node (i v p ks) : (node i v p ks).parent = p := rfl
@[simp] theorem kids_node (i v p ks) : (node i v p ks).kids = ks := rfl
@[simp] theorem setParent_node (q i v p ks) : (node i v p ks).setParent q = node i v q ks := rfl
@[simp] theorem setVal_node (w i v p ks) : (node i v p ks).setVal w = node i w p ks := rfl
@[simp] theorem setKids_node (ls i v p ks) : (node i v p ks).setKids ls = node i v p ls := rfl
@[simp] theorem id_setParent (q) (t : PT) : (t.setParent q).id = t.id := by cases t; rfl
@[simp] theorem id_setVal (w) (t : PT) : (t.setVal w).id = t.id := by cases t; rfl
@[simp] theorem id_setKids (ls) (t : PT) : (t.setKids ls).id = t.id := by cases t; rfl
@[simp] theorem parent_setParent (q) (t : PT) : (t.setParent q).parent = q := by cases t; rfl
@[simp] theorem parent_setVal (w) (t : PT) : (t.setVal w).parent = t.parent := by cases t; rfl
@[simp] theorem parent_setKids (ls) (t : PT) : (t.setKids ls).parent = t.parent := by cases t; rfl
@[simp] theorem kids_setParent (q) (t : PT) : (t.setParent q).kids = t.kids := by cases t; rfl
@[simp] theorem kids_setVal (w) (t : PT) : (t.setVal w).kids = t.kids := by cases t; rfl
@[simp] theorem kids_setKids (ls) (t : PT) : (t.setKids ls).kids = ls := by cases t; rfl
@[simp] theorem val_setParent (q) (t : PT) : (t.setParent q).val = t.val := by cases t; rfl
@[simp] theorem val_setVal (w) (t : PT) : (t.setVal w).val = w := by cases t; rfl
@[simp] theorem val_setKids (ls) (t : PT) : (t.setKids ls).val = t.val := by cases t; rfl

/-- number of objects in a tree -/
def size : PT → Nat
  | node _ _ _ ks => 1 + (ks.map size).sum

/-- the object at a path below `t` (`[]` = `t` itself) -/
def getT : Path → PT → Option PT
  | [], t => some t
  | j :: q, t => match t.kids[j]? with
    | some k => getT q k
    | none => none

/-- write the object at a path (memory update of one sub-object) -/
def putT (new : PT) : Path → PT → PT
  | [], _ => new
  | j :: q, node i v p ks => match ks[j]? with
    | some k => node i v p (ks.set j (putT new q k))
    | none => node i v p ks

def getF : Path → List PT → Option PT
  | [], _ => none
  | r :: q, F => match F[r]? with
    | some t => getT q t
    | none => none

def putF (new : PT) : Path → List PT → List PT
  | [], F => F
  | r :: q, F => match F[r]? with
    | some t => F.set r (putT new q t)
    | none => F
end PT

open PT

/-- `object(T const&)` at address `n` -/
def mkLeaf (n : Nat) (v : Int) : PT := .node n v none []

/-- `for (auto &child : list) child.parent_ = this;` -/
def reparent (self : Nat) (ks : List PT) : List PT := ks.map (PT.setParent (some self))

/-- `object(object&&)` at address `n`: the new object (parent `nullptr`, children taken over and re-parented)
and what is left of the source (`move_clear` leaves an empty list; an `int` value stays). -/
def moveCtor (n : Nat) (src : PT) : PT × PT :=
  (.node n src.val none (reparent n src.kids), src.setKids [])

mutual
/-- `object(object const&)` at address `n`; the copies of the sub-objects take the following addresses -/
def copyT (n : Nat) : PT → PT
  | .node _ v _ ks => .node n v none (copyLp (n + 1) (some n) ks)
/-- `copy_children`: `child_list result(_children)` (element-wise copy construction), then `parent_ = this` for each -/
def copyLp (n : Nat) (p : Option Nat) : List PT → List PT
  | [] => []
  | k :: ks => (copyT n k).setParent p :: copyLp (n + k.size) p ks
end

/-- the list copy without the re-parenting loop is never observable; `copyL n self ks` = `self.copy_children(ks)` -/
def copyL (n : Nat) (self : Nat) (ks : List PT) : List PT := copyLp n (some self) ks

def sizeL (ks : List PT) : Nat := (ks.map PT.size).sum

/-- `std::list::sort` with `_left.value() < _right.value()`: stable, list nodes are relinked (addresses kept) -/
def sortKids (ks : List PT) : List PT := ks.mergeSort (fun x y => decide (x.val ≤ y.val))

/-- `sort(Predicate)`: `std::list::sort` with `_predicate(_left.value(), _right.value())`; a stable sort keeps `x` in
front of `y` unless `y < x` -/
def sortKidsBy (lt : Int → Int → Bool) (ks : List PT) : List PT := ks.mergeSort (fun x y => !lt y.val x.val)

structure St where
  forest : List PT       -- the heap-allocated roots
  next : Nat             -- next unused address
  deriving Repr, Inhabited

def St.init : St := ⟨[], 0⟩

def nodeAt (F : List PT) (p : Path) : Except Fault PT :=
  match getF p F with
  | some t => .ok t
  | none => .error .oob

def optE {α} : Option α → Except Fault α
  | some a => .ok a
  | none => .error .oob

/-- one operation on the heap -/
def step (s : St) : Op → Except Fault St
  | .new v => .ok ⟨s.forest ++ [mkLeaf s.next v], s.next + 1⟩
  | .del r => if r < s.forest.length then .ok ⟨s.forest.eraseIdx r, s.next⟩ else .error .oob
  | .setVal a v => do
      let t ← nodeAt s.forest a
      .ok ⟨putF (t.setVal v) a s.forest, s.next⟩
  | .insV a pos v => do
      -- insert(it, object(v)): temporary at `next`, list node move-constructed from it at `next+1`
      let t ← nodeAt s.forest a
      let i ← optE (pos.insIdx t.kids.length)
      let tmp := mkLeaf s.next v
      let nd := (moveCtor (s.next + 1) tmp).1
      .ok ⟨putF (t.setKids (t.kids.insertIdx i (nd.setParent (some t.id)))) a s.forest, s.next + 2⟩
  | .insT a pos b => do
      -- children_.insert(it, std::move(tree))->parent_ = this
      let tb ← nodeAt s.forest b
      let (nd, husk) := moveCtor s.next tb
      let F1 := putF husk b s.forest
      let t ← nodeAt F1 a
      let i ← optE (pos.insIdx t.kids.length)
      .ok ⟨putF (t.setKids (t.kids.insertIdx i (nd.setParent (some t.id)))) a F1, s.next + 1⟩
  | .pop a pos keep => do
      let t ← nodeAt s.forest a
      match ← optE (pos.popIdx t.kids.length) with
      | none => .ok s                                   -- empty optional, nothing happens
      | some i =>
        let c ← optE t.kids[i]?
        -- object ret(std::move(child)); erase the husk; ret.parent_ = nullptr
        let ret := ((moveCtor s.next c).1).setParent none
        let F1 := putF (t.setKids (t.kids.eraseIdx i)) a s.forest
        if keep then
          -- the harness moves the result into a new heap root
          .ok ⟨F1 ++ [(moveCtor (s.next + 1) ret).1], s.next + 2⟩
        else .ok ⟨F1, s.next + 1⟩
  | .erase a i => do
      let t ← nodeAt s.forest a
      if i < t.kids.length then .ok ⟨putF (t.setKids (t.kids.take i ++ t.kids.drop (i + 1))) a s.forest, s.next⟩
      else .error .oob
  | .eraseRange a i j => do
      let t ← nodeAt s.forest a
      if i ≤ j ∧ j ≤ t.kids.length then .ok ⟨putF (t.setKids (t.kids.take i ++ t.kids.drop j)) a s.forest, s.next⟩
      else .error .oob
  | .clear a => do
      let t ← nodeAt s.forest a
      .ok ⟨putF (t.setKids []) a s.forest, s.next⟩
  | .sort a => do
      let t ← nodeAt s.forest a
      .ok ⟨putF (t.setKids (sortKids t.kids)) a s.forest, s.next⟩
  | .swap a b => do
      -- swap(value_, other.value_); children_.swap(other.children_); two re-parenting loops; own parent_ untouched
      let ta ← nodeAt s.forest a
      let tb ← nodeAt s.forest b
      let F1 := putF (.node ta.id tb.val ta.parent (reparent ta.id tb.kids)) a s.forest
      let tb1 ← nodeAt F1 b
      .ok ⟨putF (.node tb1.id ta.val tb1.parent (reparent tb1.id ta.kids)) b F1, s.next⟩
  | .copyCtor b => do
      let t ← nodeAt s.forest b
      .ok ⟨s.forest ++ [copyT s.next t], s.next + t.size⟩
  | .moveCtor b => do
      let t ← nodeAt s.forest b
      let (nd, husk) := moveCtor s.next t
      .ok ⟨putF husk b s.forest ++ [nd], s.next + 1⟩
  | .copyAssign a b =>
      if a = b then do
        let _ ← nodeAt s.forest a
        .ok s                                            -- this == &other
      else do
      let ta ← nodeAt s.forest a
      let tb ← nodeAt s.forest b
      let F1 := putF (ta.setVal tb.val) a s.forest        -- value_ = other.value_
      let tb1 ← nodeAt F1 b                               -- other.children_ read after that write
      let ta1 ← nodeAt F1 a
      let copies := copyL s.next ta1.id tb1.kids          -- copy_children
      .ok ⟨putF (ta1.setKids copies) a F1, s.next + sizeL tb1.kids⟩   -- old children destroyed by the list assignment
  | .moveAssign a b => do
      let ta ← nodeAt s.forest a
      let tb ← nodeAt s.forest b
      let F1 := putF (ta.setVal tb.val) a s.forest        -- value_ = std::move(other.value_)
      let tb1 ← nodeAt F1 b
      let F2 := putF (tb1.setKids []) b F1                -- move_clear(other.children_)
      let ta2 ← nodeAt F2 a
      .ok ⟨putF (ta2.setKids (reparent ta2.id tb1.kids)) a F2, s.next⟩
  | .sortBy a k => do
      let t ← nodeAt s.forest a
      .ok ⟨putF (t.setKids (sortKidsBy (predOf k) t.kids)) a s.forest, s.next⟩
  | .mkFrom b v => do
      -- child_list l(b.children()): element-wise copy construction (every copy has parent_ == nullptr);
      -- object(T&&, child_list&&) at the next address: move_children takes the list nodes over and re-parents them
      let t ← nodeAt s.forest b
      let l := copyLp s.next none t.kids
      let self := s.next + sizeL t.kids
      .ok ⟨s.forest ++ [.node self v none (reparent self l)], self + 1⟩

/-! ## Observers -/

/-- the loop `for (element : make_range(rbegin(), prev(rend()))) positions_.push(element)`: every child but the first is
pushed, the last child first, so the second child ends on top -/
def pushRest (kids : List PT) (st : List PT) : List PT := (kids.reverse.dropLast).foldl (fun s e => e :: s) st

/-- `pre_order::iterator`: `cur` = `current_`, `st` = `positions_` (top first).  One call = dereference + increment.
The result is the sequence of *objects* the iterator refers to. -/
def preLoop : Nat → PT → List PT → List PT → Except Fault (List PT)
  | 0, _, _, _ => .error .fuel
  | f + 1, cur, st, acc =>
    let acc := acc ++ [cur]
    match cur.kids with
    | c :: rest =>
      -- `!cur_deref.empty()`: push the other children, `current_ = cur_deref.front()`
      preLoop f c (pushRest (c :: rest) st) acc
    | [] =>
      match st with
      | [] => .ok acc
      | t :: st' => preLoop f t st' acc

/-- the objects visited by `pre_order` (also what `make_pre_order` yields: it only calls the constructor) -/
def preNodes (t : PT) : Except Fault (List PT) := preLoop t.size t [] []

def preOrder (t : PT) : Except Fault (List Int) := (preNodes t).map (fun l => l.map PT.val)

def findT (i : Nat) : PT → Option PT
  | .node j v p ks => if i = j then some (.node j v p ks) else (ks.map (findT i)).findSome? (fun x => x)

/-- dereference an address: the live object with that id -/
def findF (i : Nat) (F : List PT) : Option PT := (F.map (findT i)).findSome? (fun x => x)

/-- `to_root::iterator`: dereference, then `current_ = parent()`; a parent link to a dead object is `oob`.
The result is the sequence of objects the iterator refers to. -/
def toRootLoop (F : List PT) : Nat → PT → List PT → Except Fault (List PT)
  | 0, _, _ => .error .fuel
  | f + 1, cur, acc =>
    let acc := acc ++ [cur]
    match cur.parent with
    | none => .ok acc
    | some p =>
      match findF p F with
      | some n => toRootLoop F f n acc
      | none => .error .oob

/-- the objects visited by `to_root` (and by `make_to_root`) -/
def toRootNodes (F : List PT) (t : PT) : Except Fault (List PT) := toRootLoop F (sizeL F + 1) t []

def toRoot (F : List PT) (t : PT) : Except Fault (List Int) := (toRootNodes F t).map (fun l => l.map PT.val)

/-- `level.hpp`: `size(to_root(tree)) - 1` -/
def level (F : List PT) (t : PT) : Except Fault Nat := (toRoot F t).map (fun l => l.length - 1)

/-- `depth.hpp`: `fold(children, 0, max(result, depth(child))) + 1` -/
def depth : PT → Nat
  | .node _ _ _ ks => (ks.map depth).foldl max 0 + 1

/-- `child_position(parent, child)`: first element of `parent` whose address is `&child` -/
def childPosition (parent child : PT) : Option Nat := parent.kids.findIdx? (fun k => k.id == child.id)

mutual
/-- `tree::map`: `Result{f(value), algorithm::map(children, recurse)}`; the constructor `object(T&&, child_list&&)`
takes the list over and re-parents its elements -/
def mapT (f : Int → Int) (n : Nat) : PT → PT
  | .node _ v _ ks => .node n (f v) none (mapLp f (n + 1) (some n) ks)
def mapLp (f : Int → Int) (n : Nat) (p : Option Nat) : List PT → List PT
  | [] => []
  | k :: ks => (mapT f n k).setParent p :: mapLp f (n + k.size) p ks
end

mutual
/-- `operator==` -/
def eqT : PT → PT → Bool
  | .node _ v _ ks, .node _ w _ ls => v == w && eqL ks ls
/-- `std::list::operator==` -/
def eqL : List PT → List PT → Bool
  | [], [] => true
  | k :: ks, l :: ls => eqT k l && eqL ks ls
  | _, _ => false
end

/-! ## the child list seen through the member functions -/

/-- `front()`: `maybe_front(children_)` -/
def front (t : PT) : Option PT := t.kids.head?
/-- `back()`: `maybe_back(children_)` -/
def back (t : PT) : Option PT := t.kids.getLast?
/-- `begin() … end()` -/
def fwd (t : PT) : List PT := t.kids
/-- `rbegin() … rend()` -/
def rev (t : PT) : List PT := t.kids.reverse
def sizeK (t : PT) : Nat := t.kids.length
def emptyK (t : PT) : Bool := t.kids.isEmpty

/-- `detail::print`: `_indent` tabs, the value, a newline, then every child with `_indent + 1`; as `(indentation, value)` lines -/
def printT (d : Nat) : PT → List (Nat × Int)
  | .node _ v _ ks => (d, v) :: (ks.map (printT (d + 1))).flatten

/-- the characters written to the stream for one line / for the whole output (`tab` = `widen('\t')`, `nl` = `widen('\n')`) -/
def renderLine (tab nl : Char) (l : Nat × Int) : List Char := List.replicate l.1 tab ++ (toString l.2).toList ++ [nl]
def render (tab nl : Char) (ls : List (Nat × Int)) : List Char := (ls.map (renderLine tab nl)).flatten

/-- `operator<<` -/
def output (tab nl : Char) (t : PT) : List Char := render tab nl (printT 0 t)

/-- is every parent link below (and at) `t` what the owner expects?  `exp` = expected `parent_` of `t` -/
def PT.flagOk (exp : Option Nat) (t : PT) : Bool := t.parent == exp

end Fcppt.C09
