import FcpptModel.Spec.C19
/-!
# C19 — concurrent part: small-step interleaving model of the lock / atomic discipline

Transcribed from `libs/log/src/log/context.cpp`, `object.cpp`, `detail/context_tree_node.cpp`:

* `context::set`            : `lock_guard` · `find_location_impl` (plain read/write of the tree structure,
                              new nodes constructed and linked) · for every node of the subtree in pre-order one
                              **atomic store** of the level · unlock
* `context::get`            : `lock_guard` · descend (plain reads of the structure) · **atomic load** of the last
                              node reached · unlock
* `object::object`          : `context::find_location` / `context::find_child`: `lock_guard` · find or create
                              (plain read/write of the structure) · unlock; then, **without the lock**,
                              `tree_formatter` walks node → root reading `name_` and `parent_` (fields that are
                              written once, when the node is constructed under the lock, and never again)
* `object::level/enabled/log` : one **atomic load** of the object's own node, no lock

The shared state is the context tree of the sequential model (`Tree`), the mutex owner, and (ghost) the list
`done` of `set` calls in the order of their critical sections.  Every step of a thread is labelled with the
memory accesses it performs.  A system state is a tree plus, per thread, the phase of the call it is in.
Real schedulers, the C++ memory model and libstdc++'s mutex/atomic are *not* modelled: the mutex is "at most
one owner", an atomic is a cell that is read/written in one step (single-copy atomicity).
-/
namespace Fcppt.C19.Conc
open Fcppt.C19

abbrev Tid := Nat

inductive Access where
  | acquire | release
  | treePlain (write : Bool)            -- plain access to the tree structure (child lists, construction of nodes)
  | frozenRead (p : Loc)                -- plain read of `name_` / `parent_` of the node at `p`
  | atomicLoad (p : Loc) (val : Nat)    -- `atomic_level_.load()` of the node at `p`
  | atomicStore (p : Loc) (val : Nat)   -- `atomic_level_ = val` of the node at `p`

inductive Call where
  | set (l : Loc) (v : Level)
  | get (l : Loc)
  | create (l : Loc)                    -- any of the three constructors; `l` = the new object's location

/-- where a thread is inside the call it executes -/
inductive Phase where
  | idle
  | wantLock (c : Call)                            -- entered set/get/constructor, `lock_guard` not yet acquired
  | setFind (l : Loc) (v : Level)                  -- owns the mutex; `find_location_impl` is next
  | setStore (l : Loc) (v : Level) (todo : List Loc) -- owns the mutex; nodes still to be stored, in visiting order
  | getRead (l : Loc)                              -- owns the mutex; descend + load is next
  | createFind (l : Loc)                           -- owns the mutex; find-or-create is next
  | unlock (after : Phase)                         -- owns the mutex; `~lock_guard` is next
  | format (l : Loc)                               -- constructor, after the unlock: `tree_formatter`

def Phase.holds : Phase → Bool
  | .setFind .. | .setStore .. | .getRead .. | .createFind .. | .unlock .. => true
  | _ => false

/-- the phase right after `lock_guard` -/
def Call.locked : Call → Phase
  | .set l v => .setFind l v
  | .get l => .getRead l
  | .create l => .createFind l

/-- `node.value().level(v)` on one node -/
def setLvl (v : Nat) : Tree → Tree
  | .node n _ ks => .node n v ks

def storeAt (t : Tree) (p : Loc) (v : Nat) : Tree := updateAt t p (setLvl v)

/-- the nodes `make_pre_order(subtree at l)` visits, as absolute locations, in visiting order -/
def todoOf (t : Tree) (l : Loc) : List Loc :=
  match nodeAt t l with
  | some sub => (preOrder sub).map (l ++ ·)
  | none => []

/-- the node `context::get`'s `fold_break` stops at -/
def deepest : Tree → Loc → Loc
  | _, [] => []
  | t, x :: xs =>
    match findChild t.kids x with
    | none => []
    | some c => x :: deepest c xs

structure Sys where
  tree : Tree
  holder : Option Tid
  done : List (Loc × Level)          -- ghost: completed `set`s in lock order
  ph : Tid → Phase
  objs : Tid → List Loc              -- nodes of the log objects each thread owns

def Sys.init (root : Level) : Sys := ⟨mkRoot root, none, [], fun _ => .idle, fun _ => []⟩

def upd {α : Type} (f : Tid → α) (i : Tid) (a : α) : Tid → α := fun j => if j = i then a else f j

/-- all prefixes of a location, shortest first (the nodes `make_to_root` visits, reversed) -/
def prefixes (l : Loc) : List Loc := (List.range (l.length + 1)).map (l.take ·)

/-- one step of thread `i`, labelled with the accesses it performs -/
inductive Step : Sys → Tid → List Access → Sys → Prop where
  /-- a thread enters `set` / `get` / a constructor -/
  | call (s : Sys) (i : Tid) (c : Call) (hi : s.ph i = .idle)
      (hv : ∀ l v, c = .set l v → Level.Valid v) :
      Step s i [] { s with ph := upd s.ph i (.wantLock c) }
  /-- `lock_guard`: only when the mutex is free -/
  | acquire (s : Sys) (i : Tid) (c : Call) (hi : s.ph i = .wantLock c) (hfree : s.holder = none) :
      Step s i [.acquire] { s with holder := some i, ph := upd s.ph i c.locked }
  /-- `set`: `find_location_impl` -/
  | setFind (s : Sys) (i : Tid) (l : Loc) (v : Level) (hi : s.ph i = .setFind l v) :
      Step s i [.treePlain true]
        { s with tree := ensure s.tree l, ph := upd s.ph i (.setStore l v (todoOf (ensure s.tree l) l)) }
  /-- `set`: one iteration of the pre-order loop -/
  | setStore (s : Sys) (i : Tid) (l : Loc) (v : Level) (q : Loc) (todo : List Loc) (hi : s.ph i = .setStore l v (q :: todo)) :
      Step s i [.treePlain false, .atomicStore q (convertLevel v)]
        { s with tree := storeAt s.tree q (convertLevel v), ph := upd s.ph i (.setStore l v todo) }
  /-- `set`: loop finished, `~lock_guard`; the call takes its place in the linearisation -/
  | setDone (s : Sys) (i : Tid) (l : Loc) (v : Level) (hi : s.ph i = .setStore l v []) :
      Step s i [.release] { s with holder := none, done := s.done ++ [(l, v)], ph := upd s.ph i .idle }
  /-- `get`: descend, load the level of the node reached; the value is what `get` returns -/
  | getRead (s : Sys) (i : Tid) (l : Loc) (hi : s.ph i = .getRead l) :
      Step s i [.treePlain false, .atomicLoad (deepest s.tree l) (getInt s.tree l)]
        { s with ph := upd s.ph i (.unlock .idle) }
  /-- constructor: find or create the object's node -/
  | createFind (s : Sys) (i : Tid) (l : Loc) (hi : s.ph i = .createFind l) :
      Step s i [.treePlain true] { s with tree := ensure s.tree l, ph := upd s.ph i (.unlock (.format l)) }
  /-- `~lock_guard` of `get` and of the constructors' `find_location` / `find_child` -/
  | unlock (s : Sys) (i : Tid) (after : Phase) (hi : s.ph i = .unlock after)
      (hna : after = .idle ∨ ∃ l, after = .format l) :
      Step s i [.release] { s with holder := none, ph := upd s.ph i after }
  /-- constructor, unlocked: `tree_formatter` reads `name_`/`parent_` from the node up to the root -/
  | format (s : Sys) (i : Tid) (l : Loc) (hi : s.ph i = .format l) :
      Step s i ((prefixes l).map .frozenRead) { s with ph := upd s.ph i .idle, objs := upd s.objs i (s.objs i ++ [l]) }
  /-- `object::level` / `enabled` / `log` on an own object: unlocked atomic load -/
  | load (s : Sys) (i : Tid) (p : Loc) (val : Nat) (hi : s.ph i = .idle) (ho : p ∈ s.objs i)
      (hl : lvlAt s.tree p = some val) :
      Step s i [.atomicLoad p val] s

inductive Reachable (root : Level) : Sys → Prop where
  | init : Reachable root (Sys.init root)
  | step {s s' : Sys} {i : Tid} {acc : List Access} : Reachable root s → Step s i acc s' → Reachable root s'

end Fcppt.C19.Conc
