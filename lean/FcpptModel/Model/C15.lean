import FcpptModel.Model.C15.Bytes
import FcpptModel.Model.C15.Text
import FcpptModel.Model.C15.Codecvt
import FcpptModel.Model.C15.Stream
import FcpptModel.Model.C15.TextExt
import FcpptModel.Model.C15.Toy
/-! C15 model: see the sub-modules `Model/C15/*.lean` (each lists the C++ files it mirrors). -/
