import FcpptModel.Model.C15.Bytes
import FcpptModel.Model.C15.Text
/-! C15 model: see the sub-modules `Model/C15/*.lean` (each lists the C++ files it mirrors). -/
