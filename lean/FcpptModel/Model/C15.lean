import FcpptModel.Model.C15.Bytes
/-! C15 model: see the sub-modules `Model/C15/*.lean` (each lists the C++ files it mirrors). -/
