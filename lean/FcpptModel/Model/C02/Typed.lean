import FcpptModel.Model.C02
/-!
# C02 — the typed result plumbing of fcppt.parse

The parsers of fcppt.parse are statically typed: every combinator computes its `result_type` from the
result types of its operands and builds its success value with a handful of `detail::` function
templates that drop `fcppt::unit`s, splice tuples and merge variants.  `Model/C02.lean` abstracts from
that with a universal value (`Val`: a sequence is a `pair`, an alternative `inl`/`inr`, a repetition a
cons list).  This file models the plumbing itself:

| definition | mirrors |
|---|---|
| `Ty` | the result types that occur: `fcppt::unit`, `Ch`, `unsigned short`, `short`, `double`, `std::basic_string<Ch>`, `std::vector<T>`, `fcppt::optional::object<T>`, `fcppt::tuple::object<Ts...>`, `fcppt::variant::object<Ts...>`, a struct / strong typedef `k` |
| `toTup`, `seqTy`, `toTupV`, `seqVal` | sequence_result.hpp, detail/sequence_result.hpp (the four overloads), detail/combine_tuples.hpp, detail/flatten_tuples.hpp, detail/make_tuple.hpp (`tuple::concat` of `make_tuple` of both sides) |
| `toVar`, `uniq`, `altList`, `altTy` | alternative_result.hpp (`mpl::list::unique<append<alternative_list<L>, alternative_list<R>>>`: fold from the left, `set::insert_relaxed` appends a type not yet present), detail/alternative_list_impl.hpp, detail/alternative_result.hpp (a single type stays bare, otherwise `variant::from_list`) |
| `altInj` | detail/make_alternative.hpp (three overloads: bare result / `Result{arg}` / `variant::apply` re-wrapping the active alternative; the index in the result variant is the position of the value's *type*) |
| `repTy`, `repNil`, `repCons` | repetition_result.hpp (`is_char` ⇒ `std::basic_string`, else `std::vector`), `result.push_back` in repetition_impl.hpp |
| `plusT` | repetition_plus_impl.hpp: the `if constexpr` on `unit` (`push_back(unit{})`) / `join(result_type{get<0>}, get<1>)` |
| `typeOf` | the `result_type` member of every parser class (`*_decl.hpp`), `none` where the template does not instantiate (`static_assert`s of separator / list / convert_const, `enable_if` of as_struct, the `static_assert` in `make_alternative`) |
| `flat` | what the statically typed parse returns, computed from the universal value of `M.run` by re-applying the plumbing bottom-up |

`FcpptProofs/C02/Typed.lean` proves that `flat` is defined on every value the model produces for a
well-typed parser and that the result inhabits `typeOf` (`HasTy`).
Type lists are a mutual inductive (`TyL`) so that `DecidableEq` can be derived.  Core Lean only.
-/
namespace Fcppt.C02

mutual
inductive Ty where
  | unit | ch | uint | int | flt | str
  | vec (t : Ty) | opt (t : Ty) | tup (ts : TyL) | var (ts : TyL) | named (k : Nat)
  deriving Repr, DecidableEq
inductive TyL where
  | nil | cons (t : Ty) (ts : TyL)
  deriving Repr, DecidableEq
end

instance : Inhabited Ty := ⟨.unit⟩
instance : Inhabited TyL := ⟨.nil⟩

mutual
inductive TVal where
  | unit | ch (c : Nat) | uint (n : Nat) | int (i : Int) | flt (bits : Nat) | str (cs : List Nat)
  | vec (vs : TValL) | none | some (v : TVal) | tup (vs : TValL) | inj (i : Nat) (v : TVal)
  | struct (k : Nat) (v : TVal)
  deriving Repr, DecidableEq
inductive TValL where
  | nil | cons (v : TVal) (vs : TValL)
  deriving Repr, DecidableEq
end

instance : Inhabited TVal := ⟨.unit⟩
instance : Inhabited TValL := ⟨.nil⟩

namespace TyL
def append : TyL → TyL → TyL
  | .nil, l => l
  | .cons t ts, l => .cons t (append ts l)
def contains (x : Ty) : TyL → Bool
  | .nil => false
  | .cons t ts => decide (t = x) || contains x ts
def snoc : TyL → Ty → TyL
  | .nil, x => .cons x .nil
  | .cons t ts, x => .cons t (snoc ts x)
def get? : TyL → Nat → Option Ty
  | .nil, _ => none
  | .cons t _, 0 => some t
  | .cons _ ts, n + 1 => get? ts n
def idxOf (x : Ty) : TyL → Nat
  | .nil => 0
  | .cons t ts => if t = x then 0 else idxOf x ts + 1
def length : TyL → Nat
  | .nil => 0
  | .cons _ ts => length ts + 1
def toList : TyL → List Ty
  | .nil => []
  | .cons t ts => t :: toList ts
end TyL

namespace TValL
def append : TValL → TValL → TValL
  | .nil, l => l
  | .cons t ts, l => .cons t (append ts l)
def snoc : TValL → TVal → TValL
  | .nil, x => .cons x .nil
  | .cons t ts, x => .cons t (snoc ts x)
def toList : TValL → List TVal
  | .nil => []
  | .cons t ts => t :: toList ts
end TValL

/-! ## sequence: `sequence_result` -/

/-- detail/make_tuple.hpp on types: a tuple stays, anything else becomes a 1-tuple -/
def toTup : Ty → TyL
  | .tup ts => ts
  | t => .cons t .nil

/-- sequence_result.hpp: `unit` on either side is dropped, otherwise the tuples are concatenated -/
def seqTy (l r : Ty) : Ty :=
  if l = .unit then r else if r = .unit then l else .tup ((toTup l).append (toTup r))

/-- detail/make_tuple.hpp on values (the overload is chosen by the *type*) -/
def toTupV : Ty → TVal → Option TValL
  | .tup _, .tup vs => some vs
  | .tup _, _ => none
  | _, v => some (.cons v .nil)

/-- detail/sequence_result.hpp: `(unit, unit)`, `(Left, unit)`, `(unit, Right)`, `combine_tuples` -/
def seqVal (l r : Ty) (a b : TVal) : Option TVal :=
  if l = .unit then some b else if r = .unit then some a else
  match toTupV l a, toTupV r b with
  | some xs, some ys => some (.tup (xs.append ys))
  | _, _ => none

/-! ## alternative: `alternative_result`, `make_alternative` -/

/-- detail/alternative_list_impl.hpp: the alternatives of a variant, or the type itself -/
def toVar : Ty → TyL
  | .var ts => ts
  | t => .cons t .nil

/-- `mpl::set::from_list_relaxed` + `to_list`: a fold from the left that appends every type not yet present -/
def uniqInto : TyL → TyL → TyL
  | acc, .nil => acc
  | acc, .cons t ts => uniqInto (if acc.contains t then acc else acc.snoc t) ts

def uniq (l : TyL) : TyL := uniqInto .nil l

def altList (l r : Ty) : TyL := uniq ((toVar l).append (toVar r))

/-- the list holds exactly one type -/
def single : TyL → Option Ty
  | .cons t .nil => some t
  | _ => none

/-- detail/alternative_result.hpp: a list of one type is that type, otherwise the variant over the list -/
def altTy (l r : Ty) : Ty :=
  match single (altList l r) with
  | some t => t
  | none => .var (altList l r)

/-- detail/make_alternative.hpp, `rs` = `altList l r` (the alternatives of `Result`), `arg` = the branch's own
result type -/
def altInj (rs : TyL) (arg : Ty) (v : TVal) : Option TVal :=
  match single rs with
  | some t => if arg = t then some v else none      -- bare result: static_assert(is_same<Arg, Result>)
  | none =>
    match arg with
    | .var as =>
      -- variant::apply: the active alternative's value is re-wrapped; its index is where its type sits in `rs`
      match v with
      | .inj i w => match as.get? i with
        | some t => if rs.contains t then some (.inj (rs.idxOf t) w) else none
        | none => none
      | _ => none
    | t => if rs.contains t then some (.inj (rs.idxOf t) v) else none

/-! ## repetition: `repetition_result` -/

def repTy (t : Ty) : Ty := if t = .ch then .str else .vec t

/-- `result_type result{}` -/
def repNil (t : Ty) : TVal := if t = .ch then .str [] else .vec .nil

/-- one more element in front (the loop `push_back`s at the end; the model's repetition is a recursion
on the rest, see Model/C02.lean) -/
def repCons (x : TVal) : TVal → Option TVal
  | .str cs => match x with
    | .ch c => some (.str (c :: cs))
    | _ => none
  | .vec xs => some (.vec (.cons x xs))
  | _ => none

/-- repetition_plus_impl.hpp: the value of `p >> *p` turned into the `repetition_result`: for `unit`
the sequence has dropped the first element, so one `unit` is `push_back`ed; otherwise
`join(result_type{get<0>(r)}, get<1>(r))` -/
def plusT (t : Ty) (r : TVal) : Option TVal :=
  if t = .unit then
    match r with
    | .vec us => some (.vec (us.snoc .unit))
    | _ => none
  else
    match r with
    | .tup (.cons x (.cons rest .nil)) => repCons x rest
    | _ => none

/-! ## result types -/

/-- declared result types of the rules (`base<T,Ch,Skipper>`) and the payload of every struct /
strong typedef `k` (`defs k`: the type `construct<Result>` wraps, the tuple `as_struct<Result>` unpacks) -/
structure TEnv where
  ruleTy : Nat → Ty
  defs : Nat → Ty

/-- the typed constant of a `convert_const` -/
def chars : Val → Option (List Nat)
  | .nil => some []
  | .cons (.ch c) t => (chars t).map (c :: ·)
  | _ => none

def constTV : Val → Option (TVal × Ty)
  | .unit => some (.unit, .unit)
  | .ch c => some (.ch c, .ch)
  | .int i => some (.int i, .int)
  | .nil => some (.str [], .str)                                 -- a std::basic_string<Ch> constant
  | .cons h t => (chars (.cons h t)).map fun cs => (.str cs, .str)
  | _ => none

def isTup : Ty → Bool
  | .tup _ => true
  | _ => false

/-- `result_type` of a parser; `none` = the C++ does not compile (or the parser's type is an arbitrary
user type: `convert` / `convert_if` with a user function are outside the typed layer) -/
def typeOf (E : TEnv) : P → Option Ty
  | .eps => some .unit
  | .fail => some .unit                 -- `fail<fcppt::unit>`
  | .any => some .ch
  | .lit _ => some .unit
  | .cset _ => some .ch
  | .compl _ => some .ch
  | .str _ => some .unit
  | .seq a b => match typeOf E a, typeOf E b with
    | some ta, some tb => some (seqTy ta tb)
    | _, _ => none
  | .alt a b => match typeOf E a, typeOf E b with
    | some ta, some tb =>
      -- make_alternative<Result>: a bare result must be the type of *both* branches
      (match single (altList ta tb) with
       | some t => if ta = t ∧ tb = t then some t else none
       | none => some (.var (altList ta tb)))
    | _, _ => none
  | .rep a => (typeOf E a).map repTy
  | .opt a => (typeOf E a).map .opt
  | .not a => match typeOf E a with
    | some .unit => some .unit                                                  -- static_assert(result_of<Parser> == unit)
    | _ => none
  | .fatal a => typeOf E a
  | .lexeme a => typeOf E a
  | .conv _ _ => none
  | .convIf _ _ => none
  | .ignore a => (typeOf E a).map fun _ => .unit
  | .named a => typeOf E a
  | .ref i => some (E.ruleTy i)
  | .map (.construct k) a => match typeOf E a with
    | some ta => if E.defs k = ta then some (.named k) else none
    | none => none
  | .map (.asStruct k) a => match typeOf E a with
    | some ta => if isTup ta ∧ E.defs k = ta then some (.named k) else none     -- enable_if<tuple::is_object<…>>
    | none => none
  | .map (.const c) a => match typeOf E a, constTV c with
    | some .unit, some (_, t) => some t                                         -- static_assert(result_of<Parser> == unit)
    | _, _ => none
  | .plus a => match typeOf E a with
    -- `result_type{get<0>(r)}` needs `p >> *p` to be the 2-tuple (T, repetition_result<T>): not for a tuple-typed `p`
    | some ta => if isTup ta then none else some (repTy ta)
    | none => none
  | .sep a s => match typeOf E a, typeOf E s with
    | some ta, some .unit => some (.vec ta)                                     -- std::vector<result_of<Inner>>, never a string
    | _, _ => none
  | .list o a s c => match typeOf E o, typeOf E a, typeOf E s, typeOf E c with
    | some .unit, some ta, some .unit, some .unit => some (.vec ta)
    | _, _, _, _ => none
  | .uint _ => some .uint
  | .int _ => some .int
  | .float => some .flt

/-! ## the typed value -/

/-- a cons list of the universal value, element by element -/
def mapCons (h : Val → Option TVal) : Val → Option TValL
  | .nil => some .nil
  | .cons x xs => match h x, mapCons h xs with
    | some y, some ys => some (.cons y ys)
    | _, _ => none
  | _ => none

/-- The statically typed result: the plumbing re-applied bottom-up to the universal value `v` that
`M.run` produced for `p`.  Fuel only because `ref` leads into the rule table; `none` = `v` is not a
value of `p`, `p` is not well-typed, or out of fuel. -/
def flat (E : TEnv) (g : G) : Nat → P → Val → Option TVal
  | 0, _, _ => none
  | f+1, p, v =>
    match p with
    | .eps | .lit _ | .str _ | .not _ | .ignore _ => if v = .unit then some .unit else none
    | .any | .cset _ | .compl _ => (match v with
      | .ch c => some (.ch c)
      | _ => none)
    | .seq a b => (match v with
      | .pair va vb =>
        (match typeOf E a, typeOf E b, flat E g f a va, flat E g f b vb with
         | some ta, some tb, some x, some y => seqVal ta tb x y
         | _, _, _, _ => none)
      | _ => none)
    | .alt a b => (match v with
      | .inl va =>
        (match typeOf E a, typeOf E b, flat E g f a va with
         | some ta, some tb, some x => altInj (altList ta tb) ta x
         | _, _, _ => none)
      | .inr vb =>
        (match typeOf E a, typeOf E b, flat E g f b vb with
         | some ta, some tb, some y => altInj (altList ta tb) tb y
         | _, _, _ => none)
      | _ => none)
    | .rep a => (match v with
      | .nil => (typeOf E a).map repNil
      | .cons w ws =>
        (match flat E g f a w, flat E g f (.rep a) ws with
         | some x, some xs => repCons x xs
         | _, _ => none)
      | _ => none)
    | .opt a => (match v with
      | .none => some .none
      | .some w => (flat E g f a w).map .some
      | _ => none)
    | .fatal a | .lexeme a | .named a => flat E g f a v
    | .ref i => flat E g f (g.rules i) v
    | .map (.construct k) a | .map (.asStruct k) a => (match v with
      | .tag k' w => if k' = k then (flat E g f a w).map (.struct k) else none
      | _ => none)
    | .map (.const c) _ => if v = c then (constTV c).map (·.1) else none
    | .plus a => (match v with
      | .cons w ws =>
        -- repetition_plus: the typed value of `a >> *a`, then `plusT`
        (match typeOf E a, flat E g f a w, flat E g f (.rep a) ws with
         | some ta, some x, some xs => (seqVal ta (repTy ta) x xs).bind (plusT ta)
         | _, _, _ => none)
      | _ => none)
    | .sep a _ | .list _ a _ _ => (mapCons (flat E g f a) v).map .vec
    | .uint _ => (match v with
      | .int i => if 0 ≤ i then some (.uint i.toNat) else none
      | _ => none)
    | .int _ => (match v with
      | .int i => some (.int i)
      | _ => none)
    | .float => (match v with
      | .flt b => some (.flt b)
      | _ => none)
    | .fail | .conv _ _ | .convIf _ _ => none

/-! ## inhabitation -/

mutual
inductive HasTy (defs : Nat → Ty) : TVal → Ty → Prop where
  | unit : HasTy defs .unit .unit
  | ch (c : Nat) : HasTy defs (.ch c) .ch
  | uint (n : Nat) : HasTy defs (.uint n) .uint
  | int (i : Int) : HasTy defs (.int i) .int
  | flt (b : Nat) : HasTy defs (.flt b) .flt
  | str (cs : List Nat) : HasTy defs (.str cs) .str
  | vec {vs : TValL} {t : Ty} : AllTy defs vs t → HasTy defs (.vec vs) (.vec t)
  | none {t : Ty} : HasTy defs .none (.opt t)
  | some {v : TVal} {t : Ty} : HasTy defs v t → HasTy defs (.some v) (.opt t)
  | tup {vs : TValL} {ts : TyL} : HasTys defs vs ts → HasTy defs (.tup vs) (.tup ts)
  | inj {i : Nat} {v : TVal} {t : Ty} {ts : TyL} : ts.get? i = some t → HasTy defs v t → HasTy defs (.inj i v) (.var ts)
  | struct {k : Nat} {v : TVal} : HasTy defs v (defs k) → HasTy defs (.struct k v) (.named k)
inductive AllTy (defs : Nat → Ty) : TValL → Ty → Prop where
  | nil {t : Ty} : AllTy defs .nil t
  | cons {v : TVal} {vs : TValL} {t : Ty} : HasTy defs v t → AllTy defs vs t → AllTy defs (.cons v vs) t
inductive HasTys (defs : Nat → Ty) : TValL → TyL → Prop where
  | nil : HasTys defs .nil .nil
  | cons {v : TVal} {vs : TValL} {t : Ty} {ts : TyL} : HasTy defs v t → HasTys defs vs ts → HasTys defs (.cons v vs) (.cons t ts)
end

/-- a grammar whose rules have the declared result types -/
def WT (E : TEnv) (g : G) : Prop := ∀ i, typeOf E (g.rules i) = some (E.ruleTy i)

end Fcppt.C02
