import FcpptModel.Model.C12
/-!
# C12 — the clients of `get_position` / `set_position`: backtracking combinators over the stream model

Every parser and skipper of libs/parse that saves and restores stream positions, and the
character-level parsers under them, run over the stream model of `Model/C12.lean`.  The stream is
wrapped in a *traced* stream `TS` that records every call of the `basic_stream` interface together
with its result, the istream state bits and the stored location after it (the harness wraps the real
`detail::stream` in a `basic_stream` that records the same), so model and code are compared after
EVERY step a combinator takes, not only on its result.

Mirrors, path by path,

* `fcppt/parse/basic_char_impl.hpp`, `get_char_error.hpp`                  : `TS.anyChar`
* `basic_literal_impl.hpp`, `basic_char_set_impl.hpp`,
  `skipper/basic_literal_impl.hpp`, `skipper/basic_char_set_impl.hpp`,
  `detail/expected.hpp`                                                     : `TS.charPred`
* `basic_string_impl.hpp` (loop over the string; "Expected <string>" without location; the
  offending character stays consumed)                                       : `strLoop`
* `sequence_impl.hpp` (left; skipper; right)                                : `P.parse (.seq ..)`
* `alternative_impl.hpp` (get_position; left; on failure set_position, fatal ⇒ left error,
  else right; both fail ⇒ right fatal ? right : `{ L OR R }`)               : `P.parse (.alt ..)`
* `optional_impl.hpp` (get_position; on failure set_position; fatal ⇒ failure) : `P.parse (.opt ..)`
* `repetition_impl.hpp` + `either/loop.hpp` (get_position; loop { element; skipper;
  get_position }; set_position(last); fatal ⇒ failure)                      : `repCore`, `repLoop`
* `repetition_plus_impl.hpp` (`p >> *p`)                                    : `P.parse (.plus ..)`
* `not_impl.hpp` (get_position; has_success; set_position; "NOT")           : `P.parse (.not ..)`
* `fatal_impl.hpp`                                                          : `P.parse (.fatal ..)`
* `skipper/epsilon_impl.hpp`, `skipper/sequence_impl.hpp`,
  `skipper/repetition_impl.hpp`                                             : `Sk.skip`
* `skipper/basic_space.hpp`, `space_set.hpp`                                : `Sk.space`
* `error_add.hpp` (`operator+`: concatenation, fatal if either is)          : `PError.add`
* `phrase_parse.hpp` (skipper first; function-try-block)                    : `TS.phrase`
* `phrase_parse_stream.hpp`, `parse_stream.hpp`, `grammar_parse_stream.hpp`
  (a fresh `detail::stream` — location 1:1 — over the caller's istream, whatever its state) : `IStream.phraseStream`

Parser results are `unit` throughout (the harness wraps every node in `ignore`); result values are
C02's business.  An error is the skeleton of its message: which kind of message, which location.
`either::loop` has no bound in C++: a repetition whose body succeeds without consuming does not
return.  The model loops with fuel `length of the text + 1` and reports `Fault.fuel`; for bodies that
consume (`P.consumes`) the fuel is never exhausted (`FcpptProofs/C12/Grammar*.lean`).
-/
namespace Fcppt.C12

/-- a call of the `basic_stream` interface -/
inductive EvOp where
  | get
  | pos
  | set (p : Pos)
  deriving Repr, DecidableEq, Inhabited

/-- a recorded call: what was called, what it answered, the stream right after it -/
structure Ev where
  op : EvOp
  obs : Obs
  s : Stream
  deriving Repr, DecidableEq, Inhabited

/-- traced stream: the stream and the calls so far (newest first) -/
structure TS where
  s : Stream
  log : List Ev
  deriving Repr, DecidableEq, Inhabited

namespace TS

def getChar (x : TS) : TS × Except Fault (Option Ch) :=
  let r := x.s.getChar
  ({ s := r.1, log := ⟨.get, (match r.2 with | .ok c => .ch c | .error _ => .exc), r.1⟩ :: x.log }, r.2)

def getPosition (x : TS) : TS × Except Fault Pos :=
  let r := x.s.getPosition
  ({ s := r.1, log := ⟨.pos, (match r.2 with | .ok p => .pos p | .error _ => .exc), r.1⟩ :: x.log }, r.2)

def setPosition (x : TS) (p : Pos) : TS × Except Fault Unit :=
  let r := x.s.setPosition p
  ({ s := r.1, log := ⟨.set p, (match r.2 with | .ok () => .ok | .error _ => .exc), r.1⟩ :: x.log }, r.2)

end TS

/-- the pieces an error message is made of -/
inductive Atom where
  | eof                       -- "EOF"
  | exp (l : Option Loc)      -- "[Line l:c: ]Expected …"
  | not                       -- "NOT"
  | lb | or | rb              -- "{ ", " OR ", " }"
  | exc                       -- "Parsing failed: …"
  deriving Repr, DecidableEq, Inhabited

/-- `fcppt::parse::error<Ch>`: message (skeleton) and the fatal bit -/
structure PError where
  atoms : List Atom
  fatal : Bool
  deriving Repr, DecidableEq, Inhabited

/-- `operator+(error &&, error &&)` -/
def PError.add (a b : PError) : PError := ⟨a.atoms ++ b.atoms, a.fatal || b.fatal⟩

def PError.plain (a : Atom) : PError := ⟨[a], false⟩

/-- `fcppt::parse::result<Ch, unit>` -/
abbrev R := Except PError Unit

/-- what a parser call yields: the stream after it, and an exception or a result -/
abbrev Out := TS × Except Fault R

namespace TS

/-- `basic_char::parse` = `get_char_error` -/
def anyChar (x : TS) : TS × Except Fault (Except PError Ch) :=
  match x.getChar with
  | (x, .error f) => (x, .error f)
  | (x, .ok none) => (x, .ok (.error (.plain .eof)))
  | (x, .ok (some c)) => (x, .ok (.ok c))

/-- `basic_literal` / `basic_char_set` and the skippers of the same names -/
def charPred (pred : Ch → Bool) (x : TS) : Out :=
  match x.anyChar with
  | (x, .error f) => (x, .error f)
  | (x, .ok (.error e)) => (x, .ok (.error e))
  | (x, .ok (.ok c)) =>
    if pred c then (x, .ok (.ok ()))
    else
      match x.getPosition with
      | (x, .error f) => (x, .error f)
      | (x, .ok p) => (x, .ok (.error (.plain (.exp p.loc))))

end TS

/-- `basic_string::parse`: one `basic_char` per element; anything but that element ⇒ "Expected <string>" -/
def strLoop : List Ch → TS → Out
  | [], x => (x, .ok (.ok ()))
  | e :: rest, x =>
    match x.anyChar with
    | (x, .error f) => (x, .error f)
    | (x, .ok (.ok c)) => if c = e then strLoop rest x else (x, .ok (.error (.plain (.exp none))))
    | (x, .ok (.error _)) => (x, .ok (.error (.plain (.exp none))))

/-- `either::loop` inside the two repetitions: `body` until it fails; after every success the
    position is taken again.  Returns the last position and the error that ended the loop. -/
def repLoop (body : TS → Out) : Nat → TS → Pos → TS × Except Fault (Pos × PError)
  | 0, x, _ => (x, .error .fuel)
  | n + 1, x, pos =>
    match body x with
    | (x, .error f) => (x, .error f)
    | (x, .ok (.error e)) => (x, .ok (pos, e))
    | (x, .ok (.ok ())) =>
      match x.getPosition with
      | (x, .error f) => (x, .error f)
      | (x, .ok p) => repLoop body n x p

/-- `repetition::parse` / `skipper::repetition::skip` around `body` -/
def repCore (body : TS → Out) (x : TS) : Out :=
  match x.getPosition with
  | (x, .error f) => (x, .error f)
  | (x, .ok pos) =>
    match repLoop body (x.s.is.buf.length + 1) x pos with
    | (x, .error f) => (x, .error f)
    | (x, .ok (pos, e)) =>
      match x.setPosition pos with
      | (x, .error f) => (x, .error f)
      | (x, .ok ()) => (x, .ok (if e.fatal then .error e else .ok ()))

/-- skippers -/
inductive Sk where
  | eps
  | lit (c : Ch)
  | cset (cs : List Ch)
  | seq (l r : Sk)
  | rep (s : Sk)
  deriving Repr, DecidableEq, Inhabited

/-- `skipper::basic_space<Ch>()` = `*basic_char_set{space_set<Ch>()}` (space, newline, tab) -/
def Sk.space : Sk := .rep (.cset [32, 10, 9])

def Sk.skip : Sk → TS → Out
  | .eps, x => (x, .ok (.ok ()))
  | .lit c, x => x.charPred (· == c)
  | .cset cs, x => x.charPred (cs.contains ·)
  | .seq l r, x =>
    match l.skip x with
    | (x, .ok (.ok ())) => r.skip x
    | o => o
  | .rep s, x => repCore s.skip x

/-- parsers -/
inductive P where
  | any
  | lit (c : Ch)
  | cset (cs : List Ch)
  | str (s : List Ch)
  | seq (l r : P)
  | alt (l r : P)
  | opt (p : P)
  | rep (p : P)
  | plus (p : P)
  | not (p : P)
  | fatal (p : P)
  deriving Repr, DecidableEq, Inhabited

/-- "a success has consumed at least one character" (syntactic).  Repetition bodies must satisfy it:
    `either::loop` does not end otherwise. -/
def Sk.consumes : Sk → Bool
  | .eps => false
  | .lit _ => true
  | .cset _ => true
  | .seq l r => l.consumes || r.consumes
  | .rep _ => false

def Sk.wf : Sk → Bool
  | .seq l r => l.wf && r.wf
  | .rep s => s.consumes && s.wf
  | _ => true

def P.consumes : P → Bool
  | .any => true
  | .lit _ => true
  | .cset _ => true
  | .str s => !s.isEmpty
  | .seq l r => l.consumes || r.consumes
  | .alt l r => l.consumes && r.consumes
  | .opt _ => false
  | .rep _ => false
  | .plus p => p.consumes
  | .not _ => false
  | .fatal p => p.consumes

def P.wf : P → Bool
  | .seq l r => l.wf && r.wf
  | .alt l r => l.wf && r.wf
  | .opt p => p.wf
  | .rep p => p.consumes && p.wf
  | .plus p => p.consumes && p.wf
  | .not p => p.wf
  | .fatal p => p.wf
  | _ => true

/-- then: run `g` after a success of the first -/
@[inline] def Out.andThen (o : Out) (g : TS → Out) : Out :=
  match o with
  | (x, .ok (.ok ())) => g x
  | o => o

/-- the body of a repetition: element, then the skipper -/
def elemThenSkip (elem : TS → Out) (sk : Sk) (x : TS) : Out := (elem x).andThen sk.skip

def P.parse (sk : Sk) : P → TS → Out
  | .any, x =>
    match x.anyChar with
    | (x, .error f) => (x, .error f)
    | (x, .ok (.error e)) => (x, .ok (.error e))
    | (x, .ok (.ok _)) => (x, .ok (.ok ()))
  | .lit c, x => x.charPred (· == c)
  | .cset cs, x => x.charPred (cs.contains ·)
  | .str s, x => strLoop s x
  | .seq l r, x => ((l.parse sk x).andThen sk.skip).andThen (r.parse sk)
  | .alt l r, x =>
    match x.getPosition with
    | (x, .error f) => (x, .error f)
    | (x, .ok old) =>
      match l.parse sk x with
      | (x, .error f) => (x, .error f)
      | (x, .ok (.ok ())) => (x, .ok (.ok ()))
      | (x, .ok (.error le)) =>
        match x.setPosition old with
        | (x, .error f) => (x, .error f)
        | (x, .ok ()) =>
          if le.fatal then (x, .ok (.error le))
          else
            match r.parse sk x with
            | (x, .error f) => (x, .error f)
            | (x, .ok (.ok ())) => (x, .ok (.ok ()))
            | (x, .ok (.error re)) =>
              if re.fatal then (x, .ok (.error re))
              else (x, .ok (.error (((((PError.plain .lb).add le).add (.plain .or)).add re).add (.plain .rb))))
  | .opt p, x =>
    match x.getPosition with
    | (x, .error f) => (x, .error f)
    | (x, .ok pos) =>
      match p.parse sk x with
      | (x, .error f) => (x, .error f)
      | (x, .ok (.ok ())) => (x, .ok (.ok ()))
      | (x, .ok (.error e)) =>
        match x.setPosition pos with
        | (x, .error f) => (x, .error f)
        | (x, .ok ()) => (x, .ok (if e.fatal then .error e else .ok ()))
  | .rep p, x => repCore (elemThenSkip (p.parse sk) sk) x
  | .plus p, x => ((p.parse sk x).andThen sk.skip).andThen (repCore (elemThenSkip (p.parse sk) sk))
  | .not p, x =>
    match x.getPosition with
    | (x, .error f) => (x, .error f)
    | (x, .ok pos) =>
      match p.parse sk x with
      | (x, .error f) => (x, .error f)
      | (x, .ok r) =>
        match x.setPosition pos with
        | (x, .error f) => (x, .error f)
        | (x, .ok ()) =>
          match r with
          | .ok () => (x, .ok (.error (.plain .not)))
          | .error _ => (x, .ok (.ok ()))
  | .fatal p, x =>
    match p.parse sk x with
    | (x, .ok (.error e)) => (x, .ok (.error ⟨e.atoms, true⟩))
    | o => o

/-- `phrase_parse(parser, stream, skipper)`: the skipper, then the parser; a stream exception
    becomes the failure "Parsing failed: …" -/
def TS.phrase (p : P) (sk : Sk) (x : TS) : TS × R :=
  match (sk.skip x).andThen (p.parse sk) with
  | (x, .ok r) => (x, r)
  | (x, .error (.exception _)) => (x, .error (.plain .exc))
  | (x, .error _) => (x, .error ⟨[], true⟩)       -- fuel: no counterpart in C++ (it does not return)

/-- a `phrase_parse` in the middle of a history: the saved positions stay, the stream moves on;
    answers the result and the recorded calls (oldest first) -/
def HState.phrase (h : HState) (p : P) (sk : Sk) : HState × R × List Ev :=
  let o := TS.phrase p sk { s := h.s, log := [] }
  ({ h with s := o.1.s }, o.2, o.1.log.reverse)

/-- histories that interleave the three stream operations with whole parses -/
inductive XOp where
  | op (o : Op)
  | parse (sk : Sk) (p : P)
  deriving Repr, DecidableEq, Inhabited

def xstep (h : HState) : XOp → HState
  | .op o => (step h o).1
  | .parse sk p => (h.phrase p sk).1

def xrun (h : HState) : List XOp → HState
  | [] => h
  | o :: os => xrun (xstep h o) os

/-- does the outcome say that the C++ call returns at all -/
def Out.diverged (o : Out) : Bool :=
  match o.2 with
  | .error .fuel => true
  | _ => false

/-- `phrase_parse_stream(parser, istream, skipper)`: a new `detail::stream` over the caller's
    istream (whatever has been read from it before; the location starts at 1:1 regardless). -/
def IStream.phraseStream (p : P) (sk : Sk) (is : IStream) : TS × R :=
  TS.phrase p sk { s := { is := is, loc := ⟨1, 1⟩ }, log := [] }

/-! ### `location` / `position`: comparison and output -/

/-- `operator==(location, location)` (location_equal.hpp) -/
def Loc.eq (a b : Loc) : Bool := a.line == b.line && a.col == b.col

/-- `operator==(position, position)` (position_equal.hpp): stream offsets, then the optional locations -/
def Pos.eq (a b : Pos) : Bool :=
  a.off == b.off &&
    (match a.loc, b.loc with
     | none, none => true
     | some x, some y => x.eq y
     | _, _ => false)

/-- `operator<<(ostream, location)` (location_output.hpp): `line:column` -/
def Loc.out (l : Loc) : String := toString l.line ++ ":" ++ toString l.col

/-- `operator<<(ostream, position)` (position_output.hpp): the offset, `", "`, the optional location
    (`fcppt/optional/output.hpp`: `N` or `J <value>`) -/
def Pos.out (p : Pos) : String :=
  toString p.off ++ ", " ++ (match p.loc with | none => "N" | some l => "J " ++ l.out)

end Fcppt.C12
