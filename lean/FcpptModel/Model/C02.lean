/-!
# C02 — executable model of fcppt.parse (implementation level)

A deep embedding of the parsers (`P`) and skippers (`Sk`) and an interpreter `M.run` that threads a
*mutable stream position* through the parse exactly as the headers do: `get_position` /
`set_position` at the places where `alternative_impl.hpp`, `optional_impl.hpp`, `not_impl.hpp`,
`repetition_impl.hpp` and `skipper/repetition_impl.hpp` have them, the skipper calls of
`phrase_parse.hpp`, `sequence_impl.hpp`, `repetition_impl.hpp`, the `is_fatal()` tests, and the
position after a *failure* left wherever the code leaves it.

| definition | mirrors |
|---|---|
| `M.skip` `.eps/.cset/.lit/.rep/.seq` | skipper/epsilon_impl.hpp, skipper/basic_char_set_impl.hpp, skipper/basic_literal_impl.hpp, skipper/repetition_impl.hpp (+ either/loop.hpp), skipper/sequence_impl.hpp |
| `M.run` `.eps .fail .any .lit .cset .compl` | epsilon_impl.hpp, fail_impl.hpp, basic_char_impl.hpp + get_char_error.hpp, basic_literal_impl.hpp, basic_char_set_impl.hpp, complement_impl.hpp |
| `M.strLoop` | basic_string_impl.hpp (the `for` loop: one `get_char` per element, stop at the first mismatch / EOF) |
| `.seq` | sequence_impl.hpp (either/bind.hpp: left, skipper, right) |
| `.alt` | alternative_impl.hpp (save, left, restore, `is_fatal`, right; error_add.hpp: fatal-or) |
| `.rep` | repetition_impl.hpp + either/loop.hpp (element, skipper, `pos` updated only after both; restore; `is_fatal`) |
| `.opt` `.not` `.fatal` `.lexeme` | optional_impl.hpp, not_impl.hpp, fatal_impl.hpp, lexeme_impl.hpp |
| `.conv` `.convIf` `.ignore` `.named` | convert_impl.hpp, convert_if_impl.hpp, ignore_impl.hpp, named_impl.hpp (a new error that keeps the fatal flag, af6c285) |
| `.map` + `Mapper.apply` | construct.hpp (`Result{v}`), as_struct.hpp (`Result{t_1,…,t_n}`), convert_const_impl.hpp (`this->result_`) |
| `.float`, `decToDouble` | float_impl.hpp (`lexeme(-lit('-') >> +digits >> lit('.') >> +digits)`, `extract_from_string`, negation) |
| `M.parseStream` | phrase_parse_stream.hpp, parse_stream.hpp, grammar_parse_stream.hpp (no `consume_remaining`) |
| `.ref` | base_decl.hpp / detail/concrete_impl.hpp / grammar_impl.hpp / recursive_impl.hpp (indirection through a rule) |
| `desugar`/`post` for `.plus .sep .list .uint .int` | repetition_plus_impl.hpp (`p >> *p`), separator_impl.hpp (`-(p >> *(sep >> p))`), list_impl.hpp (`start >> (end | (separator >> end))`), uint_impl.hpp (`lexeme(+digits)`), int_impl.hpp (`lexeme(-lit('-') >> +digits)`) — the code builds exactly these composite parsers and post-processes their value |
| `M.parseString` | phrase_parse.hpp (skipper first), phrase_parse_string.hpp, parse_string.hpp, grammar_parse_string.hpp, detail/consume_remaining.hpp |

The loop of `either::loop` is written as recursion on the remaining input (`.rep a` calls itself
after a successful element + skipper): the state of the C++ loop is (`pos`, `result`), `pos` is the
position the recursive call starts from and `result` is prepended on return.

Fuel: every call consumes one unit; `none` = fuel exhausted (reported as `diverge`).
Core Lean only.
-/
namespace Fcppt.C02

/-- universal value; lists are cons cells so that the type is a plain inductive -/
inductive Val where
  | unit | ch (c : Nat) | int (i : Int) | nil | cons (h t : Val) | pair (a b : Val)
  | none | some (v : Val) | inl (v : Val) | inr (v : Val) | tag (k : Nat) (v : Val)
  | flt (bits : Nat)
  deriving Repr, DecidableEq, Inhabited

/-- the three "replace the success value" combinators that need no user function:
`construct<Result>(p)` (`Result{v}`), `as_struct<Result>(p)` (`Result{t_1,…,t_n}` from a tuple) and
`convert_const{p, c}` (the stored constant, whatever `p` produced) -/
inductive Mapper where
  | construct (k : Nat) | asStruct (k : Nat) | const (c : Val)
  deriving Repr, DecidableEq, Inhabited

/-- construct.hpp / as_struct.hpp: the value wrapped into the struct `k`; convert_const_impl.hpp: `this->result_` -/
def Mapper.apply : Mapper → Val → Val
  | .construct k, v => .tag k v
  | .asStruct k, v => .tag k v
  | .const c, _ => c

inductive P where
  | eps | fail | any | lit (c : Nat) | cset (cs : List Nat) | compl (cs : List Nat) | str (s : List Nat)
  | seq (a b : P) | alt (a b : P) | rep (a : P) | opt (a : P) | not (a : P)
  | fatal (a : P) | lexeme (a : P)
  | conv (k : Nat) (a : P) | convIf (k : Nat) (a : P) | ignore (a : P) | named (a : P) | ref (i : Nat)
  | map (m : Mapper) (a : P)
  | plus (a : P) | sep (a s : P) | list (o a s c : P) | uint (max : Nat) | int (max : Nat) | float
  deriving Repr, DecidableEq, Inhabited

inductive Sk where
  | eps | cset (cs : List Nat) | lit (c : Nat) | rep (a : Sk) | seq (a b : Sk)
  deriving Repr, DecidableEq, Inhabited

/-- rule table and the (arbitrary) functions used by `convert` / `convert_if`;
`fnIf` returns `.error fatal` for a failure -/
structure G where
  rules : Nat → P
  fn : Nat → Val → Val
  fnIf : Nat → Val → Except Bool Val

def digits : List Nat := [48, 49, 50, 51, 52, 53, 54, 55, 56, 57]

/-- the composite parser the code builds for the derived combinators -/
def desugar : P → P
  | .plus a => .seq a (.rep a)
  | .sep a s => .opt (.seq a (.rep (.seq s a)))
  | .list o a s c => .seq o (.alt c (.seq (.sep a s) c))
  | .uint _ => .lexeme (.plus (.cset digits))
  | .int _ => .lexeme (.seq (.opt (.lit 45)) (.plus (.cset digits)))
  | .float => .lexeme (.seq (.seq (.seq (.opt (.lit 45)) (.plus (.cset digits))) (.lit 46)) (.plus (.cset digits)))
  | p => p

def mapSnd : Val → Val
  | .cons (.pair _ b) t => .cons b (mapSnd t)
  | _ => .nil

def digitsVal : Nat → Val → Nat
  | acc, .cons (.ch c) t => digitsVal (acc * 10 + (c - 48)) t
  | acc, _ => acc

def listLenV : Val → Nat
  | .cons _ t => listLenV t + 1
  | _ => 0

/-- `extract_from_string<double>` on a string `digits '.' digits` (`istream >> double`, i.e. glibc `strtod` in
round-to-nearest): the binary64 bit pattern of `n / 10^k` rounded to nearest, ties to even, subnormals included;
`none` = the result overflows (`HUGE_VAL`, the stream sets `failbit`).  Assumption validated by the correspondence. -/
def decToDouble (n k : Nat) : Option Nat :=
  if n = 0 then some 0 else
  let b := 10 ^ k
  let e0 : Int := (Nat.log2 n : Int) - (Nat.log2 b : Int) - 52
  let qAt (e : Int) : Nat := if e ≥ 0 then n / (b * 2 ^ e.toNat) else (n * 2 ^ (-e).toNat) / b
  let e1 : Int := if qAt e0 < 2 ^ 52 then e0 - 1 else e0
  let e : Int := if e1 < -1074 then -1074 else e1
  let num := if e ≥ 0 then n else n * 2 ^ (-e).toNat
  let den := if e ≥ 0 then b * 2 ^ e.toNat else b
  let q0 := num / den
  let r := num % den
  let q := if 2 * r > den ∨ (2 * r = den ∧ q0 % 2 = 1) then q0 + 1 else q0
  let bits := if q ≥ 2 ^ 52 then (e + 1075).toNat * 2 ^ 52 + (q - 2 ^ 52) else q
  if bits ≥ 2047 * 2 ^ 52 then none else some bits

/-- value post-processing of the derived combinators (`container::join`, `optional::maybe`,
`extract_from_string` + range check); `none` = conversion failed (non-fatal error) -/
def post : P → Val → Option Val
  | .plus _, .pair v l => some (.cons v l)
  | .sep _ _, .none => some .nil
  | .sep _ _, .some (.pair v l) => some (.cons v (mapSnd l))
  | .list _ _ _ _, .pair _ (.inl _) => some .nil
  | .list _ _ _ _, .pair _ (.inr (.pair l _)) => some l
  | .uint m, l => if digitsVal 0 l ≤ m then some (.int (digitsVal 0 l)) else none
  | .int m, .pair sg l =>
      if digitsVal 0 l ≤ m then some (.int (if sg = .none then (digitsVal 0 l : Int) else - (digitsVal 0 l : Int))) else none
  | .float, .pair (.pair (.pair sg l1) _) l2 =>
      -- float_impl.hpp: get<1> + "." + get<2> through extract_from_string, negated (sign bit) if the '-' was there
      match decToDouble (digitsVal (digitsVal 0 l1) l2) (listLenV l2) with
      | some bits => some (.flt (if sg = .none then bits else bits + 2 ^ 63))
      | none => none
  | _, v => some v

/-! ## implementation level: positions -/

inductive MRes where
  | ok (v : Val) (pos : Nat) | err (fatal : Bool) (pos : Nat)
  deriving Repr, DecidableEq, Inhabited

inductive MSkRes where
  | ok (pos : Nat) | err (fatal : Bool) (pos : Nat)
  deriving Repr, DecidableEq, Inhabited

namespace M

def skip (s : List Nat) : Nat → Sk → Nat → Option MSkRes
  | 0, _, _ => none
  | _+1, .eps, pos => some (.ok pos)
  | _+1, .cset cs, pos =>
    match s[pos]? with
    | none => some (.err false pos)
    | some c => if cs.contains c then some (.ok (pos + 1)) else some (.err false (pos + 1))
  | _+1, .lit d, pos =>
    match s[pos]? with
    | none => some (.err false pos)
    | some c => if c = d then some (.ok (pos + 1)) else some (.err false (pos + 1))
  | f+1, .rep a, pos =>                       -- pos = get_position
    match skip s f a pos with
    | none => none
    | some (.err ft _) => if ft then some (.err true pos) else some (.ok pos)   -- set_position(pos)
    | some (.ok p1) => skip s f (.rep a) p1   -- pos = get_position; next iteration
  | f+1, .seq a b, pos =>
    match skip s f a pos with
    | none => none
    | some (.err ft p) => some (.err ft p)
    | some (.ok p1) => skip s f b p1

def strLoop (s : List Nat) : List Nat → Nat → MRes
  | [], pos => .ok .unit pos
  | e :: es, pos =>
    match s[pos]? with
    | none => .err false pos
    | some c => if c = e then strLoop s es (pos + 1) else .err false (pos + 1)

def sugar (p : P) : Option MRes → Option MRes
  | some (.ok v pos) => match post p v with
    | some v' => some (.ok v' pos)
    | none => some (.err false pos)
  | r => r

def run (g : G) (s : List Nat) : Nat → P → Sk → Nat → Option MRes
  | 0, _, _, _ => none
  | _+1, .eps, _, pos => some (.ok .unit pos)
  | _+1, .fail, _, pos => some (.err false pos)
  | _+1, .any, _, pos =>
    match s[pos]? with
    | none => some (.err false pos)
    | some c => some (.ok (.ch c) (pos + 1))
  | _+1, .lit d, _, pos =>
    match s[pos]? with
    | none => some (.err false pos)
    | some c => if c = d then some (.ok .unit (pos + 1)) else some (.err false (pos + 1))
  | _+1, .cset cs, _, pos =>
    match s[pos]? with
    | none => some (.err false pos)
    | some c => if cs.contains c then some (.ok (.ch c) (pos + 1)) else some (.err false (pos + 1))
  | _+1, .compl cs, _, pos =>
    match s[pos]? with
    | none => some (.err false pos)
    | some c => if cs.contains c then some (.err false (pos + 1)) else some (.ok (.ch c) (pos + 1))
  | _+1, .str cs, _, pos => some (strLoop s cs pos)
  | f+1, .seq a b, sk, pos =>
    match run g s f a sk pos with
    | none => none
    | some (.err ft p) => some (.err ft p)
    | some (.ok va p1) =>
      match skip s f sk p1 with
      | none => none
      | some (.err ft p) => some (.err ft p)
      | some (.ok p2) =>
        match run g s f b sk p2 with
        | none => none
        | some (.err ft p) => some (.err ft p)
        | some (.ok vb p3) => some (.ok (.pair va vb) p3)
  | f+1, .alt a b, sk, pos =>                 -- old_pos = get_position
    match run g s f a sk pos with
    | none => none
    | some (.ok v p) => some (.ok (.inl v) p)
    | some (.err ft _) =>                     -- set_position(old_pos)
      if ft then some (.err true pos) else
      match run g s f b sk pos with
      | none => none
      | some (.ok v p) => some (.ok (.inr v) p)
      | some (.err ftb p) => some (.err ftb p)
  | f+1, .rep a, sk, pos =>                   -- pos = get_position
    match run g s f a sk pos with
    | none => none
    | some (.err ft _) => if ft then some (.err true pos) else some (.ok .nil pos)   -- set_position(pos)
    | some (.ok v p1) =>
      match skip s f sk p1 with
      | none => none
      | some (.err ft _) => if ft then some (.err true pos) else some (.ok .nil pos)
      | some (.ok p2) =>                      -- pos = get_position; push_back
        match run g s f (.rep a) sk p2 with
        | none => none
        | some (.err ft p) => some (.err ft p)
        | some (.ok vs p3) => some (.ok (.cons v vs) p3)
  | f+1, .opt a, sk, pos =>
    match run g s f a sk pos with
    | none => none
    | some (.ok v p) => some (.ok (.some v) p)
    | some (.err ft _) => if ft then some (.err true pos) else some (.ok .none pos)
  | f+1, .not a, sk, pos =>
    match run g s f a sk pos with
    | none => none
    | some (.ok _ _) => some (.err false pos)
    | some (.err _ _) => some (.ok .unit pos)
  | f+1, .fatal a, sk, pos =>
    match run g s f a sk pos with
    | none => none
    | some (.ok v p) => some (.ok v p)
    | some (.err _ p) => some (.err true p)
  | f+1, .lexeme a, _, pos => run g s f a .eps pos
  | f+1, .conv k a, sk, pos =>
    match run g s f a sk pos with
    | none => none
    | some (.ok v p) => some (.ok (g.fn k v) p)
    | some (.err ft p) => some (.err ft p)
  | f+1, .convIf k a, sk, pos =>
    match run g s f a sk pos with
    | none => none
    | some (.ok v p) => (match g.fnIf k v with
      | .ok v' => some (.ok v' p)
      | .error ft => some (.err ft p))
    | some (.err ft p) => some (.err ft p)
  | f+1, .ignore a, sk, pos =>
    match run g s f a sk pos with
    | none => none
    | some (.ok _ p) => some (.ok .unit p)
    | some (.err ft p) => some (.err ft p)
  | f+1, .named a, sk, pos =>
    match run g s f a sk pos with
    | none => none
    | some (.ok v p) => some (.ok v p)
    | some (.err ft p) => some (.err ft p)  -- error{"Expected " + name}, the fatal flag is kept (repaired in af6c285)
  | f+1, .ref i, sk, pos => run g s f (g.rules i) sk pos
  | f+1, .map m a, sk, pos =>
    match run g s f a sk pos with
    | none => none
    | some (.ok v p) => some (.ok (m.apply v) p)
    | some (.err ft p) => some (.err ft p)
  | f+1, .plus a, sk, pos => sugar (.plus a) (run g s f (desugar (.plus a)) sk pos)
  | f+1, .sep a b, sk, pos => sugar (.sep a b) (run g s f (desugar (.sep a b)) sk pos)
  | f+1, .list o a b c, sk, pos => sugar (.list o a b c) (run g s f (desugar (.list o a b c)) sk pos)
  | f+1, .uint m, sk, pos => sugar (.uint m) (run g s f (desugar (.uint m)) sk pos)
  | f+1, .int m, sk, pos => sugar (.int m) (run g s f (desugar (.int m)) sk pos)
  | f+1, .float, sk, pos => sugar .float (run g s f (desugar .float) sk pos)

end M

/-- what `parse_string` / `phrase_parse_string` / `grammar_parse_string` return -/
inductive Top where
  | ok (v : Val) | err (fatal : Bool)
  deriving Repr, DecidableEq, Inhabited

/-- phrase_parse (skipper, then the parser) followed by consume_remaining -/
def M.parseString (g : G) (f : Nat) (p : P) (sk : Sk) (s : List Nat) : Option Top :=
  match M.skip s f sk 0 with
  | none => none
  | some (.err ft _) => some (.err ft)
  | some (.ok p0) =>
    match M.run g s f p sk p0 with
    | none => none
    | some (.err ft _) => some (.err ft)
    | some (.ok v p1) => if (s.drop p1).isEmpty then some (.ok v) else some (.err false)

/-- `phrase_parse_stream` / `parse_stream` / `grammar_parse_stream` (phrase_parse.hpp on a `detail::stream`): skipper,
then the parser, **no** `consume_remaining`; the second component is the offset the `std::istream` is left at — after a
success (the rest of the input can be read from there) and after a failure (wherever the failing parser left it) -/
def M.parseStream (g : G) (f : Nat) (p : P) (sk : Sk) (s : List Nat) : Option (Top × Nat) :=
  match M.skip s f sk 0 with
  | none => none
  | some (.err ft q) => some (.err ft, q)
  | some (.ok p0) =>
    match M.run g s f p sk p0 with
    | none => none
    | some (.err ft q) => some (.err ft, q)
    | some (.ok v p1) => some (.ok v, p1)

end Fcppt.C02
