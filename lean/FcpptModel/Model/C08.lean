import FcpptModel.Prelude.Fault
/-!
# C08 — model of `fcppt::container::grid` positions, offsets, ranges and cell-wise helpers

A position / dimension / min / sup of static size `N` is a `List Int` of length `N`, index 0 is
the fastest-running coordinate (`x`).  One numeric domain (`Int`) serves both the unsigned
instantiations (`std::size_t`, all components `≥ 0`) and the signed ones (`int`, `long`);
the C++ arithmetic is assumed not to wrap (all quantities far below 2^31), see notes/C08.md.

Mirrors, definition by definition,

* `math/dim/contents.hpp`                 : `contents` — left fold `1 * d0 * d1 * …`
* `container/grid/offset.hpp`             : `offset` — the fold over `Index = 1 .. N-1` on the pair
                                            `(result, stacked_dim)`: `stacked_dim *= size[Index-1]`,
                                            `result += pos[Index] * stacked_dim`, start `(pos.x, 1)`
* `container/grid/min_less_sup.hpp`       : `minLessSup` — `all_of` over the indices of `min[i] < sup[i]`
* `container/grid/range_dim.hpp`          : `rangeDim` — `min_less_sup ? sup - min : null`
* `container/grid/range_size.hpp`         : `rangeSize` — `contents (range_dim)`
* `container/grid/in_range_dim.hpp`       : `inRangeDim` — `all_of` over the indices of `pos[i] < dim[i]`
                                            (no test against 0: the same template serves signed types)
* `container/grid/next_position.hpp`      : `next` — `++result.x`, then the fold over *all* indices
                                            `0 .. N-2`: `if result[i] == sup[i] { result[i] = min[i]; ++result[i+1]; }`
                                            (`carry`; the test is made at every index, also when the
                                            previous index did not carry)
* `container/grid/end_position.hpp`       : `endPos` — `min_less_sup ? (min_0 … min_{N-2}, sup_{N-1}) : min`
* `container/grid/pos_iterator_impl.hpp`,
  `pos_range_impl.hpp`                    : `posRange` — `for (it = begin(); it != end(); ++it)` with
                                            `begin = min`, `end = end_position`, `equal` = equality of the
                                            current positions, `increment` = `next_position`; `size()` = `range_size`
* `container/grid/object_impl.hpp`        : `Grid` (`size_`, `container_`), `mkConst` (dim, value),
                                            `mkFn` (dim, function: `algorithm::map` over `make_pos_range(size)`),
                                            `getUnsafe` (`container_[offset(pos, size_)]`), `content`, `empty`
* `container/grid/pos_ref_iterator_impl.hpp`,
  `pos_ref_range_impl.hpp`                : `posRefRange` — the pos range, each position dereferenced as
                                            `*(grid.begin() + offset(current, grid.size()))`
* `container/grid/at_optional.hpp`        : `atOptional` — `in_range ? get_unsafe : nothing`
* `container/grid/resize.hpp`             : `resize` — `object(new_size, p ↦ maybe(at_optional(grid, p), init p, id))`
* `container/grid/map.hpp`                : `map` — `object(source.size, p ↦ f (source.get_unsafe p))`
* `container/grid/apply.hpp`              : `apply` — all other sizes equal to the first ? `object(size, p ↦ f (g1[p], gs[p]…))` : `object()`
* `container/grid/fill.hpp`               : `fill` — for every element of `make_pos_ref_range(grid)`: `value = f pos`
* `container/grid/next_position.hpp`      : `nextFold`/`nextStep` — the same fold read literally (indexed reads and writes)
* `container/grid/offset.hpp`, `contents` : `offsetW`, `contentsW` — the `std::size_t` instantiation, arithmetic modulo `2^w`
* `container/grid/pos_ref_range_impl.hpp` : `fillRange` — assignment through every `pos_reference::value()` of a sub-range
* `container/grid/object_impl.hpp`        : `mkRows` (static_row constructor), `copy`, `moveOut`, `swap`; `regStep` — one
                                            special-member call (copy/move constructor, copy/move assignment incl. self,
                                            member/free swap) between numbered objects
* `container/grid/comparison.hpp`         : `Grid.eq` (size, then three-iterator `std::equal`), `ne`, `lt` (size
                                            lexicographically, then `std::lexicographical_compare` of the cells), `gt`, `le`, `ge`
* `container/grid/output.hpp`,
  `detail/print_recurse.hpp`              : `Grid.output`, `printRec` — nested parentheses, last coordinate outermost
* `container/grid/interpolate.hpp`,
  `detail/interpolate.hpp`, `math/vector/bit_strings.hpp` : `Grid.interpolate`, `interpRec`, `bitStrings`
* `container/grid/clamped_min.hpp`        : `clampedMin` — `max(p_i, 0)`
* `container/grid/clamped_sup.hpp`        : `clampedSup` — `min(p_i, size_i)`
* `container/grid/clamped_sup_signed.hpp` : `clampedSupSigned` — `math::clamp(p_i, 0, size_i).get_unsafe()`,
                                            `clamp v lo hi = make_if(lo <= hi, max(min(v, hi), lo))`
-/
namespace Fcppt.C08

abbrev Pos := List Int

/-- `fcppt::math::dim::contents`: `fold(indices, 1, λ i v → v * dim[i])` -/
def contents (d : List Int) : Int := d.foldl (· * ·) 1

/-- one step of the fold in `grid::offset`; `pd = (pos[Index], size[Index-1])`, `acc = (result, stacked_dim)` -/
def offsetStep (acc : Int × Int) (pd : Int × Int) : Int × Int :=
  let stacked := acc.2 * pd.2
  (acc.1 + pd.1 * stacked, stacked)

/-- `grid::offset(pos, size)`; `xs.zip d` pairs `pos[i]` with `size[i-1]` for `i = 1 .. N-1` -/
def offset (p d : List Int) : Int :=
  match p with
  | [] => 0            -- N = 0 is rejected by a static_assert
  | x :: xs => ((xs.zip d).foldl offsetStep (x, 1)).1

/-- `grid::min_less_sup` -/
def minLessSup (mn sp : Pos) : Bool := (mn.zip sp).all fun ms => decide (ms.1 < ms.2)

/-- `grid::range_dim` -/
def rangeDim (mn sp : Pos) : List Int :=
  if minLessSup mn sp then List.zipWith (fun m s => s - m) mn sp else mn.map fun _ => 0

/-- `grid::range_size` = `pos_range::size()` -/
def rangeSize (mn sp : Pos) : Int := contents (rangeDim mn sp)

/-- `grid::in_range_dim(dim, pos)` -/
def inRangeDim (d : List Int) (p : Pos) : Bool := (p.zip d).all fun pd => decide (pd.1 < pd.2)

/-- the fold of `next_position` from some index on: `r` = remaining components of the result
    (the head is the component at the current index), `mn`, `sp` the remaining components of min, sup.
    There is a step only while a next index exists (`Index` runs to `N-2`). -/
def carry : Pos → Pos → Pos → Pos
  | r0 :: r1 :: rs, m0 :: ms, s0 :: ss =>
    if r0 == s0 then m0 :: carry ((r1 + 1) :: rs) ms ss else r0 :: carry (r1 :: rs) ms ss
  | r, _, _ => r

/-- `grid::next_position(current, min, sup)` -/
def next (cur mn sp : Pos) : Pos :=
  match cur with
  | [] => []
  | x :: xs => carry ((x + 1) :: xs) mn sp

/-- one step of the fold in `next_position`, read literally: `Index = i`, reads of `result[i]`, `sup[i]`,
    writes of `result[i] = min[i]` and `++result[i+1]`.  The indices are compile-time constants below the
    static size, so there is no out-of-range case in C++; on lists of other lengths the step does nothing. -/
def nextStep (mn sp : Pos) (r : Pos) (i : Nat) : Pos :=
  match r[i]?, sp[i]?, mn[i]?, r[i + 1]? with
  | some ri, some si, some mi, some rj => if ri == si then (r.set i mi).set (i + 1) (rj + 1) else r
  | _, _, _, _ => r

/-- `grid::next_position` as the literal `fcppt::algorithm::fold` over `int_range_count<Size - 1>`
    (`nextFold_eq_next`: the same function as `next`) -/
def nextFold (cur mn sp : Pos) : Pos :=
  match cur with
  | [] => []
  | x :: xs => (List.range (cur.length - 1)).foldl (nextStep mn sp) ((x + 1) :: xs)

/-! ### the unsigned instantiation: arithmetic modulo `2^w` (`std::size_t`: `w = 64`) -/

/-- reduction of a mathematical result into the value range of a `w`-bit unsigned type -/
def wrap (w : Nat) (x : Int) : Int := x % (2 : Int) ^ w

/-- `dim::contents` with every multiplication reduced modulo `2^w` -/
def contentsW (w : Nat) (d : List Int) : Int := d.foldl (fun v x => wrap w (v * x)) (wrap w 1)

/-- the fold step of `offset` with every multiplication / addition reduced modulo `2^w` -/
def offsetStepW (w : Nat) (acc : Int × Int) (pd : Int × Int) : Int × Int :=
  let stacked := wrap w (acc.2 * pd.2)
  (wrap w (acc.1 + wrap w (pd.1 * stacked)), stacked)

/-- `grid::offset` for a `w`-bit unsigned `SizeType` -/
def offsetW (w : Nat) (p d : List Int) : Int :=
  match p with
  | [] => 0
  | x :: xs => ((xs.zip d).foldl (offsetStepW w) (wrap w x, wrap w 1)).1

/-- the `vector::init` of `end_position`: `Index < Size-1 ? min[Index] : sup[Index]` -/
def endInit : Pos → Pos → Pos
  | [_], [s] => [s]
  | m :: ms, _ :: ss => m :: endInit ms ss
  | _, _ => []

/-- `grid::end_position(min, sup)` -/
def endPos (mn sp : Pos) : Pos := if minLessSup mn sp then endInit mn sp else mn

/-- the loop `for (it = begin; it != end; ++it) visit *it`; `fuel` bounds the number of iterations
    (`Fault.fuel` = the loop would not stop) -/
def iterate (mn sp stop : Pos) : Nat → Pos → Except Fault (List Pos)
  | 0, _ => .error .fuel
  | fuel + 1, cur =>
    if cur == stop then .ok [] else (cur :: ·) <$> iterate mn sp stop fuel (next cur mn sp)

/-- iterating `pos_range(min, sup)` from `begin()` to `end()` -/
def posRange (mn sp : Pos) : Except Fault (List Pos) :=
  iterate mn sp (endPos mn sp) ((rangeSize mn sp).toNat + 1) mn

/-- `vector::null` of the same static size -/
def zeros (d : List Int) : Pos := d.map fun _ => 0

/-- `make_pos_range(size)`: from all zeroes to `size` -/
def posRangeAll (d : List Int) : Except Fault (List Pos) := posRange (zeros d) d

/-- `grid::object`: `size_` and `container_` (a `std::vector`) -/
structure Grid (α : Type) where
  size : List Int
  cells : List α
  deriving Repr, BEq, DecidableEq

namespace Grid
variable {α β : Type}

/-- `object()` of static size `n`: empty container, null dimension -/
def empty (n : Nat) : Grid α := ⟨List.replicate n 0, []⟩

/-- `object(dim, value)` -/
def mkConst (d : List Int) (v : α) : Grid α := ⟨d, List.replicate (contents d).toNat v⟩

/-- `object(dim, function)`: `algorithm::map<container>(make_pos_range(dim), function)` -/
def mkFn (d : List Int) (f : Pos → Except Fault α) : Except Fault (Grid α) := do
  let ps ← posRangeAll d
  let cs ← ps.mapM f
  pure ⟨d, cs⟩

/-- `content()` -/
def content (g : Grid α) : Int := contents g.size

/-- `empty()` -/
def isEmpty (g : Grid α) : Bool := g.content == 0

/-- index into the `std::vector`: outside `[0, size())` is undefined behaviour -/
def cellIndex (g : Grid α) (p : Pos) : Except Fault Nat :=
  let o := offset p g.size
  if 0 ≤ o ∧ o.toNat < g.cells.length then .ok o.toNat else .error .oob

/-- `get_unsafe(pos)` (read) -/
def getUnsafe (g : Grid α) (p : Pos) : Except Fault α := do
  let i ← g.cellIndex p
  match g.cells[i]? with
  | some v => pure v
  | none => .error .oob

/-- assignment through the reference returned by `get_unsafe(pos)` / `pos_reference::value()` -/
def setUnsafe (g : Grid α) (p : Pos) (v : α) : Except Fault (Grid α) := do
  let i ← g.cellIndex p
  pure ⟨g.size, g.cells.set i v⟩

/-- `grid::in_range(grid, pos)` -/
def inRange (g : Grid α) (p : Pos) : Bool := inRangeDim g.size p

/-- `grid::at_optional(grid, pos)` -/
def atOptional (g : Grid α) (p : Pos) : Except Fault (Option α) :=
  if g.inRange p then some <$> g.getUnsafe p else pure none

/-- iterating `make_pos_ref_range_start_end(grid, min, sup)`: `(element.pos(), element.value())` -/
def posRefRange (g : Grid α) (mn sp : Pos) : Except Fault (List (Pos × α)) := do
  let ps ← posRange mn sp
  ps.mapM fun p => (fun v => (p, v)) <$> g.getUnsafe p

/-- `make_pos_ref_range(grid)` -/
def posRefRangeAll (g : Grid α) : Except Fault (List (Pos × α)) := g.posRefRange (zeros g.size) g.size

/-- `grid::resize(grid, new_size, init)` -/
def resize (g : Grid α) (newSize : List Int) (init : Pos → α) : Except Fault (Grid α) :=
  mkFn newSize fun p => do
    match ← g.atOptional p with
    | some v => pure v
    | none => pure (init p)

/-- `grid::map(source, function)` -/
def map (g : Grid α) (f : α → β) : Except Fault (Grid β) :=
  mkFn g.size fun p => f <$> g.getUnsafe p

/-- `grid::apply(function, grid1, grids...)` -/
def apply (f : α → List α → β) (g1 : Grid α) (gs : List (Grid α)) : Except Fault (Grid β) :=
  if gs.all (fun g => g.size == g1.size) then
    mkFn g1.size fun p => do
      let a ← g1.getUnsafe p
      let bs ← gs.mapM fun g => g.getUnsafe p
      pure (f a bs)
  else pure (empty g1.size.length)

/-- `grid::fill(grid, function)` -/
def fill (g : Grid α) (f : Pos → α) : Except Fault (Grid α) := do
  let ps ← posRange (zeros g.size) g.size
  ps.foldlM (fun g p => g.setUnsafe p (f p)) g

/-- writing through the references of `make_pos_ref_range_start_end(grid, min, sup)`:
    `for (auto const &e : range) e.value() = f(e.pos())` (`fill` is the case of the whole grid) -/
def fillRange (g : Grid α) (mn sp : Pos) (f : Pos → α) : Except Fault (Grid α) := do
  let ps ← posRange mn sp
  ps.foldlM (fun g p => g.setUnsafe p (f p)) g

/-- `grid::fill(grid, function)` with a function that reads the grid being filled (a reference to one of its own
    cells): every call sees the cells already overwritten by the earlier iterations -/
def fillDep (g : Grid α) (f : Grid α → Pos → Except Fault α) : Except Fault (Grid α) := do
  let ps ← posRange (zeros g.size) g.size
  ps.foldlM (fun g p => do
    let x ← f g p
    g.setUnsafe p x) g

/-- `object(static_row(…), static_row(…)…)` (two-dimensional grids only): the cells are `array::join` of the rows in
    the order given, `size_ = (row length of the first row, number of rows)`; equal row lengths are a `static_assert` -/
def mkRows (r1 : List α) (rs : List (List α)) : Grid α :=
  ⟨[(r1.length : Int), ((rs.length + 1 : Nat) : Int)], (r1 :: rs).flatten⟩

/-! ### special members (`object_impl.hpp`): both members travel together -/

/-- copy constructor / copy assignment (`= default`): `container_` and `size_` copied -/
def copy (g : Grid α) : Grid α := ⟨g.size, g.cells⟩

/-- move constructor / move assignment from another object: `container_` is moved (the source vector is left
    empty), `size_` — a `dim` of integers — is copied.  Result: (new object, moved-from source) -/
def moveOut (g : Grid α) : Grid α × Grid α := (⟨g.size, g.cells⟩, ⟨g.size, []⟩)

/-- `a.swap(b)`: `container_.swap(other.container_); std::swap(size_, other.size_)`.  Result: (a, b) afterwards -/
def swap (a b : Grid α) : Grid α × Grid α := (⟨b.size, b.cells⟩, ⟨a.size, a.cells⟩)

end Grid

/-- an object in a history of special-member calls; `moved`: it has been moved from and not assigned since
    (its cells are unspecified by the standard; only `size()` is still what the code left there) -/
structure Slot (α : Type) where
  g : Grid α
  moved : Bool
  deriving Repr, BEq, DecidableEq

/-- special-member operations between numbered objects -/
inductive RegOp where
  | defaultCtor (dst : Nat)     -- a new empty object `object()` replaces slot `dst`
  | copyCtor (dst src : Nat)    -- a new object `object(slot[src])` replaces slot `dst`
  | moveCtor (dst src : Nat)    -- a new object `object(std::move(slot[src]))` replaces slot `dst`
  | copyAssign (dst src : Nat)  -- `slot[dst] = slot[src]`, also with `dst = src`
  | moveAssign (dst src : Nat)  -- `slot[dst] = std::move(slot[src])`, also with `dst = src` (`if (this == &other) return *this`)
  | swapMember (a b : Nat)      -- `slot[a].swap(slot[b])`, also with `a = b`
  | swapFree (a b : Nat)        -- `swap(slot[a], slot[b])`
  deriving Repr, DecidableEq

/-- one special-member call between objects of static size `n`.  `none`: not a legal line (an index without object, a constructor from the object itself,
    or a read of a moved-from object, whose value is unspecified) -/
def regStep {α : Type} (n : Nat) (st : List (Slot α)) : RegOp → Option (List (Slot α))
  | .defaultCtor d =>
    match st[d]? with
    | some _ => some (st.set d ⟨Grid.empty n, false⟩)
    | none => none
  | .copyCtor d s =>
    if d == s then none else
    match st[s]?, st[d]? with
    | some x, some _ => if x.moved then none else some (st.set d ⟨x.g.copy, false⟩)
    | _, _ => none
  | .copyAssign d s =>
    match st[s]?, st[d]? with
    | some x, some _ => if x.moved then none else some (st.set d ⟨x.g.copy, false⟩)
    | _, _ => none
  | .moveCtor d s =>
    if d == s then none else
    match st[s]?, st[d]? with
    | some x, some _ => if x.moved then none else some ((st.set d ⟨x.g.moveOut.1, false⟩).set s ⟨x.g.moveOut.2, true⟩)
    | _, _ => none
  | .moveAssign d s =>
    match st[s]?, st[d]? with
    | some x, some _ =>
      if d == s then some st       -- the self-assignment guard
      else if x.moved then none else some ((st.set d ⟨x.g.moveOut.1, false⟩).set s ⟨x.g.moveOut.2, true⟩)
    | _, _ => none
  | .swapMember a b | .swapFree a b =>
    match st[a]?, st[b]? with
    | some x, some y => some ((st.set a ⟨(x.g.swap y.g).1, y.moved⟩).set b ⟨(x.g.swap y.g).2, x.moved⟩)
    | _, _ => none

/-- a history of special-member calls -/
def regRun {α : Type} (n : Nat) (st : List (Slot α)) : List RegOp → Option (List (Slot α))
  | [] => some st
  | op :: ops => (regStep n st op).bind fun st' => regRun n st' ops

/-! ### comparison (`comparison.hpp`) -/

/-- `std::equal(first1, last1, first2)` — the three-iterator form used by `fcppt::detail::equal`: it reads as many
    elements of the second range as the first one has (past its end: `Fault.oob`) and stops at the first mismatch -/
def equalPrefix {α : Type} [BEq α] : List α → List α → Except Fault Bool
  | [], _ => .ok true
  | _ :: _, [] => .error .oob
  | x :: xs, y :: ys => if x == y then equalPrefix xs ys else .ok false

/-- `std::lexicographical_compare(first1, last1, first2, last2)` with `operator<` -/
def lexLess : List Int → List Int → Bool
  | [], [] => false
  | [], _ :: _ => true
  | _ :: _, [] => false
  | x :: xs, y :: ys => if x < y then true else if y < x then false else lexLess xs ys

namespace Grid

/-- `operator==`: `a.size() == b.size() && equal(a.begin(), a.end(), b.begin())` (short-circuit) -/
def eq {α : Type} [BEq α] (a b : Grid α) : Except Fault Bool :=
  if a.size == b.size then equalPrefix a.cells b.cells else .ok false

/-- `operator!=` = `!(a == b)` -/
def ne {α : Type} [BEq α] (a b : Grid α) : Except Fault Bool := (!·) <$> a.eq b

/-- `operator<`: `a.size() != b.size() ? a.size() < b.size() : lexicographical_compare(cells)`;
    `dim < dim` is `lexicographical_compare` over the components, `x` first -/
def lt (a b : Grid Int) : Bool :=
  if a.size != b.size then lexLess a.size b.size else lexLess a.cells b.cells

/-- `operator>` = `b < a`, `operator<=` = `!(a > b)`, `operator>=` = `!(a < b)` -/
def gt (a b : Grid Int) : Bool := b.lt a
def le (a b : Grid Int) : Bool := !(a.gt b)
def ge (a b : Grid Int) : Bool := !(a.lt b)

end Grid

namespace Grid

/-- `detail::print_recurse<Level>(stream, grid, pos)` (`output.hpp`): `Level = 0` prints the cell at `pos`; otherwise
    `index = Level - 1`, `(`, then for `i = 0 … size[index] - 1`: `pos[index] = i`, the print of `Level - 1`, and a `,`
    unless `i` is the last one, then `)`.  The index is a compile-time constant below the static size. -/
def printRec {α : Type} (g : Grid α) (sh : α → String) : Nat → Pos → Except Fault String
  | 0, pos => sh <$> g.getUnsafe pos
  | level + 1, pos =>
    match g.size[level]? with
    | none => .error .oob
    | some sz => do
      let parts ← (List.range sz.toNat).mapM fun (i : Nat) => printRec g sh level (pos.set level (i : Int))
      pure ("(" ++ ",".intercalate parts ++ ")")

/-- `operator<<(stream, grid)`: `print_recurse<N>(stream, grid, null position)` -/
def output {α : Type} (g : Grid α) (sh : α → String) : Except Fault String :=
  g.printRec sh g.size.length (zeros g.size)

end Grid

/-! ### interpolation (`interpolate.hpp`, `detail/interpolate.hpp`) -/

/-- `math::vector::bit_strings<T, N>()`: the `2^N` vectors of zeros and ones, coordinate 0 running fastest -/
def bitStrings : Nat → List Pos
  | 0 => [[]]
  | n + 1 => (bitStrings n).map (· ++ [0]) ++ (bitStrings n).map (· ++ [1])

namespace Grid

/-- `detail::interpolate<N>(grid, indices, value_index, pos, interpolator)`: for `N ≠ 1`
    `interpolator(pos[N-1], interpolate<N-1>(…, value_index), interpolate<N-1>(…, value_index + (1 << (N-1))))`;
    the base `N = 1` is `interpolator(pos.x, grid[indices[vi]], grid[indices[vi + 1]])`, written here as level 1 over the
    level 0 "cell at `indices[vi]`" (`1 << 0 = 1`).  `indices.get_unsafe` outside the array: `Fault.oob`. -/
def interpRec {α φ : Type} (g : Grid α) (idx : List Pos) (ip : φ → α → α → α) (fr : List φ) :
    Nat → Nat → Except Fault α
  | 0, vi =>
    match idx[vi]? with
    | some p => g.getUnsafe p
    | none => .error .oob
  | n + 1, vi =>
    match fr[n]? with
    | none => .error .oob
    | some f => do
      let a ← interpRec g idx ip fr n vi
      let b ← interpRec g idx ip fr n (vi + 2 ^ n)
      pure (ip f a b)

/-- `grid::interpolate(grid, floating_point_position, interpolator)` with the position given as its integral part
    `fl` (`floored`: `float_to_int` of every component, the position is not negative) and its fractional parts `fr`
    (`mod(position, 1)`): the corner array is `bit_strings + floored`. -/
def interpolate {α φ : Type} (g : Grid α) (fl : Pos) (fr : List φ) (ip : φ → α → α → α) : Except Fault α :=
  g.interpRec ((bitStrings g.size.length).map fun b => List.zipWith (· + ·) b fl) ip fr g.size.length 0

end Grid

/-- `grid::clamped_min(pos)` -/
def clampedMin (p : Pos) : Pos := p.map fun x => max x 0

/-- `grid::clamped_sup(pos, size)` -/
def clampedSup (p d : List Int) : Pos := List.zipWith (fun x s => min x s) p d

/-- `fcppt::math::clamp(value, vmin, vmax).get_unsafe()` -/
def clampUnsafe (v lo hi : Int) : Except Fault Int :=
  if lo ≤ hi then .ok (max (min v hi) lo) else .error .emptyDeref

/-- `grid::clamped_sup_signed(pos, size)` -/
def clampedSupSigned (p d : List Int) : Except Fault Pos :=
  (p.zip d).mapM fun xs => clampUnsafe xs.1 0 xs.2

end Fcppt.C08
