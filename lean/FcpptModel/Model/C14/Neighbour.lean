import FcpptModel.Model.C14
/-!
# C14 — neighbouring public API of the anchored headers (same directories, used together with them)

| definition                                   | mirrors                                                              |
|----------------------------------------------|----------------------------------------------------------------------|
| `dimMap`, `addD subD mulD divD`              | `vector/detail/dim_map.hpp`, `vector/dim.hpp` (`vector ∘ dim`)        |
| `contents`, `isQuadratic`                    | `dim/contents.hpp`, `dim/is_quadratic.hpp`                           |
| `toDifferent` (`to_dim`, `to_vector`)        | `detail/to_different.hpp`, `vector/to_dim.hpp`, `dim/to_vector.hpp`  |
| `unit`                                       | `vector/unit.hpp`                                                    |
| `Mat.transformPoint`, `Mat.transformDirection` | `matrix/transform_point.hpp`, `matrix/transform_direction.hpp`      |
| `mod`, `modS`, `modV`                        | `math/mod.hpp` + `detail/mod.hpp` (`%`), `vector/mod.hpp` (both overloads) |
| `ceilDivSigned`, `ceilDivSignedV`            | `math/ceil_div_signed.hpp`, `vector/ceil_div_signed.hpp`             |
| `longMin`, `Mat.infinityNorm`                | `matrix/infinity_norm.hpp` (`T = long`: the fold starts at `numeric_limits<long>::min()`) |
-/
namespace Fcppt.C14

/-- `vector::detail::dim_map(left, right, f)`: `binary_map<static_<…>>(left, right, f)` with a vector and a dim -/
def dimMap {n : Nat} (f : Int → Int → Int) (l : Vec n) (r : Vec n) : Vec n := binaryMap f l r

/-- `vector + dim`, `vector - dim`, `vector * dim` -/
def addD {n : Nat} (l r : Vec n) : Vec n := dimMap (fun a b => a + b) l r
def subD {n : Nat} (l r : Vec n) : Vec n := dimMap (fun a b => a - b) l r
def mulD {n : Nat} (l r : Vec n) : Vec n := dimMap (fun a b => a * b) l r

/-- `vector / dim`: `vector::sequence(dim_map(left, right, math::div))` -/
def divD {n : Nat} (l r : Vec n) : Option (Vec n) :=
  let a1 := toArray l
  let a2 := toArray r
  sequence (Vector.ofFn fun i => div a1[i] a2[i])

/-- `dim::contents(d)`: `fold(int_range_count<N>, 1, value * linear_access<Index>(d.storage()))` -/
def contents {n : Nat} (d : Vec n) : Int := fold (n := n) 1 fun i value => value * d.get i

/-- `dim::is_quadratic(d)`: `all_of(int_range_count<N>, at<Index>(d) == at<0>(d))` (`at<0>` needs `N ≥ 1`) -/
def isQuadratic {n : Nat} (d : Vec (n + 1)) : Bool :=
  let first := atI d ⟨0, Nat.succ_pos n⟩
  allOf (n := n + 1) fun i => atI d i == first

/-- `detail::to_different<Dest>(source)`: `init<Dest>(checked_access<Index>(source))` — `vector::to_dim`, `dim::to_vector` -/
def toDifferent {n : Nat} (source : Vec n) : Vec n := init fun i => atI source i

/-- `vector::unit<Vec>(axis)`: `init(index == axis ? 1 : 0)` (an axis outside the vector gives the null vector) -/
def unit (n : Nat) (axis : Nat) : Vec n := init fun i => if i.val = axis then 1 else 0

/-- `matrix::transform_point(m, v)`: `narrow_cast<static_<T, 3>>(m * push_back(v, 1))` -/
def Mat.transformPoint (m : Mat 4 4) (v : Vec 3) : Vec 3 := narrowCast (by decide) (m.mulVec (pushBack v 1))

/-- `matrix::transform_direction(m, v)`: `narrow_cast<static_<T, 3>>(m * push_back(v, 0))` -/
def Mat.transformDirection (m : Mat 4 4) (v : Vec 3) : Vec 3 := narrowCast (by decide) (m.mulVec (pushBack v 0))

/-- `fcppt::math::mod(a, b)`: nothing for a zero divisor, otherwise C++ `%`.  `detail::mod` exists for unsigned (and
    floating-point) types only — a signed `T` does not compile — so the code only ever reaches non-negative operands,
    where truncating and flooring `%` agree. -/
def mod (a b : Int) : Option Int := if b = 0 then none else some (Int.tmod a b)

/-- `vector::mod(v, div)`: `sequence(init(mod(at<Index>(v), div)))` -/
def modS {n : Nat} (v : Vec n) (d : Int) : Option (Vec n) := sequence (Vector.ofFn fun i => mod (atI v i) d)

/-- `vector::mod(v0, v1)`: `sequence(init(mod(at<Index>(v0), at<Index>(v1))))` -/
def modV {n : Nat} (v0 v1 : Vec n) : Option (Vec n) := sequence (Vector.ofFn fun i => mod (atI v0 i) (atI v1 i))

/-- `fcppt::math::ceil_div_signed(a, b)`: nothing for `b == 0`; otherwise `quotient = a / b`, `remainder = a % b` and
    `remainder != 0 && ((remainder < 0) == (b < 0)) ? quotient + 1 : quotient` -/
def ceilDivSigned (a b : Int) : Option Int :=
  if b ≠ 0 then
    let quotient := Int.tdiv a b
    let remainder := Int.tmod a b
    some (if remainder ≠ 0 ∧ (decide (remainder < 0) = decide (b < 0)) then quotient + 1 else quotient)
  else none

/-- `vector::ceil_div_signed(v, d)`: `sequence(map(v, ceil_div_signed(·, d)))` -/
def ceilDivSignedV {n : Nat} (v : Vec n) (d : Int) : Option (Vec n) :=
  let a := toArray v
  sequence (Vector.ofFn fun i => ceilDivSigned a[i] d)

/-- `std::numeric_limits<long>::min()` -/
def longMin : Int := -9223372036854775808

/-- `matrix::infinity_norm(m)`: `fold(rows, numeric_limits<T>::min(), max(maximum_row, fold(columns, 0, sum + abs(at_r_c<Row, Col>(m)))))` -/
def Mat.infinityNorm {r c : Nat} (m : Mat r c) : Int :=
  fold (n := r) longMin fun row maximumRow =>
    max maximumRow (fold (n := c) 0 fun col currentRowSum => currentRowSum + (m.atRC row col).natAbs)

end Fcppt.C14
