import FcpptModel.Model.C14
/-!
# C14 — the member operators of `vector::object`, `dim::object`, `matrix::object`: in-place updates and aliasing

`Model/C14.lean` treats a math object as a *value* (its storage).  The member operators
`operator+=`, `-=`, `*=(object)`, `*=(value_type const &)`, the converting `operator=` and the
reference-returning accessors (`get_unsafe`, `x() … w()`, `at<I>`, `at_r<R>`, `at_r_c<R, C>`, `m00() …`)
work on *objects in memory*: they take references, read through them while they write, and their
operands may alias the target (`v *= v.x()`, `v += v`, `at_r<0>(m) += at_r<1>(m)`, `m *= at_r_c<1,1>(m)`).
To say what the code does under aliasing the model has a memory:

* `Mem len` — the cells of all objects one scenario works on (every static storage and every caller-owned
  buffer is a range of cells),
* `Ref len n` — a storage *as an lvalue*: how `storage[i]` becomes a cell address.  It has the same three
  constructors as `Storage`: a `static_storage<T, N>` object that lives at `base`, a buffer view (a pointer),
  and `row_view{impl, index, columns}` whose `operator[](i)` is `impl[offset + i]`
  (`matrix/detail/row_view_impl.hpp`; it returns a *reference*, i.e. an address),
* `Ref.load mem r : Storage n` — the value the object has at the moment `mem` (the link to `Model/C14.lean`).

Every operator is written index by index in the order the code writes (`fcppt::algorithm::loop` over
`int_range_count<N>` = `Fin.foldl`), and every operand is read from the memory *of that moment*.

| definition                                   | mirrors                                                                  |
|----------------------------------------------|--------------------------------------------------------------------------|
| `Ref.addr`, `Ref.read`, `Ref.write`          | `detail/linear_access.hpp`, `detail/index_at.hpp`, `row_view::operator[]` (references) |
| `loop`                                       | `fcppt::algorithm::loop(int_range_count<N>{}, body)`                     |
| `elemAdd elemSub elemMul`                    | the lambdas `[](T &l, T const &r) { l += r; }` … of `object_impl.hpp`     |
| `memberOperator`                             | `detail/member_operator.hpp`                                             |
| `addAssign subAssign mulAssign`              | `operator+=`, `-=`, `*=(object const &)` of `vector/dim/matrix/object_impl.hpp` |
| `Scalar`, `multiplyScalar`, `mulAssignScalar`| `value_type const &` argument, `detail/multiply_scalar.hpp` (factor taken **by value**), `operator*=(value_type const &)` |
| `assign`, `assignConv`                       | `detail/assign.hpp`, the converting `operator=(object<T, N, OtherStorage> const &)` |
| `copyAssign`                                 | the implicit copy assignment (same storage type): array copy for static storage, *rebinding* for views |
| `copy`                                       | `detail/copy.hpp` (converting constructor into static storage)           |
| `assignValue`                                | `dest = static_<T, N>(src)`: assignment from a temporary                 |
| `Ref.getUnsafe`, `Ref.atI`, `setElem`        | `get_unsafe(i)` (non-const, returns a reference), `at<I>`, `x() = …`      |
| `MatRef`, `MatRef.atR`, `MatRef.getUnsafe`, `MatRef.atRC` | `matrix::object::get_unsafe` (non-const), `at_r`, `at_r_c` as lvalues |
-/
namespace Fcppt.C14

/-- the cells of all objects of one scenario -/
abbrev Mem (len : Nat) := Vector Int len

/-- a storage as an lvalue -/
inductive Ref (len : Nat) : Nat → Type where
  /-- a `detail::static_storage<T, N>` object whose array occupies the cells `base … base + n - 1` -/
  | static {n : Nat} (base : Nat) (h : base + n ≤ len) : Ref len n
  /-- a view of the `n` cells starting at `ptr` of a caller-owned buffer -/
  | buffer {n : Nat} (ptr : Nat) (h : ptr + n ≤ len) : Ref len n
  /-- `matrix::detail::row_view<T, C, S>{impl, index, columns}`, `offset_ = index * columns` -/
  | rowView {n m : Nat} (impl : Ref len m) (offset : Nat) (h : offset + n ≤ m) : Ref len n

/-- `storage[i]` as a reference: the address of the cell -/
def Ref.addr {len : Nat} : {n : Nat} → Ref len n → Fin n → Fin len
  | _, .static base h, i => ⟨base + i.val, by have := i.isLt; omega⟩
  | _, .buffer ptr h, i => ⟨ptr + i.val, by have := i.isLt; omega⟩
  | _, .rowView impl offset h, i => impl.addr ⟨offset + i.val, by have := i.isLt; omega⟩

/-- reading through the reference `storage[i]` -/
def Ref.read {len n : Nat} (r : Ref len n) (mem : Mem len) (i : Fin n) : Int := mem[r.addr i]

/-- `storage[i] = v` -/
def Ref.write {len n : Nat} (r : Ref len n) (mem : Mem len) (i : Fin n) (v : Int) : Mem len := mem.set (r.addr i) v

/-- the value an object has in the memory `mem` -/
def Ref.load {len : Nat} (mem : Mem len) : {n : Nat} → Ref len n → Storage n
  | _, .static base h => .static (Vector.ofFn fun i => mem[base + i.val]'(by have := i.isLt; omega))
  | _, .buffer ptr h => .buffer len mem ptr h
  | _, .rowView impl offset h => .rowView (impl.load mem) offset h

/-- `fcppt::algorithm::loop(int_range_count<N>{}, body)`: `body` for `0, 1, …, N - 1` in this order -/
def loop {σ : Type} (n : Nat) (body : Fin n → σ → σ) (s : σ) : σ := Fin.foldl n (fun s i => body i s) s

/-! ## `member_operator` and the three operators that use it -/

/-- `[](T &_left_elem, T const &_right_elem) { _left_elem += _right_elem; }` on two references -/
def elemAdd {len : Nat} (l r : Fin len) (mem : Mem len) : Mem len := mem.set l (mem[l] + mem[r])
/-- `_left_elem -= _right_elem` -/
def elemSub {len : Nat} (l r : Fin len) (mem : Mem len) : Mem len := mem.set l (mem[l] - mem[r])
/-- `_left_elem *= _right_elem` -/
def elemMul {len : Nat} (l r : Fin len) (mem : Mem len) : Mem len := mem.set l (mem[l] * mem[r])

/-- `detail::member_operator(_left, _right, _function)`:
    `loop(int_range_count<N>, _function(linear_access<Index>(_left.storage()), linear_access<Index>(_right.storage())))`;
    returns `_left` (the same object: the reference does not change) -/
def memberOperator {len n : Nat} (function : Fin len → Fin len → Mem len → Mem len) (left right : Ref len n) (mem : Mem len) : Mem len :=
  loop n (fun i mem => function (left.addr i) (right.addr i) mem) mem

/-- `operator+=(object<T, N, S2> const &)` -/
def addAssign {len n : Nat} (self right : Ref len n) (mem : Mem len) : Mem len := memberOperator elemAdd self right mem
/-- `operator-=(object<T, N, S2> const &)` -/
def subAssign {len n : Nat} (self right : Ref len n) (mem : Mem len) : Mem len := memberOperator elemSub self right mem
/-- `operator*=(object<T, N, S2> const &)` (vector and dim; component-wise) -/
def mulAssign {len n : Nat} (self right : Ref len n) (mem : Mem len) : Mem len := memberOperator elemMul self right mem

/-! ## `operator*=(value_type const &)` -/

/-- an argument of type `value_type const &`: a temporary / an independent variable, or a reference to a cell
    (`v.x()`, `at_r_c<1, 1>(m)`, `m.m00()`, `v.get_unsafe(i)`) -/
inductive Scalar (len : Nat) where
  | value (k : Int)
  | cell (a : Fin len)

/-- reading through the reference -/
def Scalar.read {len : Nat} (mem : Mem len) : Scalar len → Int
  | .value k => k
  | .cell a => mem[a]

/-- `detail::multiply_scalar(Storage &_value, typename Storage::value_type const _mult)`:
    `loop(int_range_count<storage_size>, _value[Index] *= _mult)` with `_mult` a by-value parameter
    (and captured by value) -/
def multiplyScalar {len n : Nat} (value : Ref len n) (mult : Int) (mem : Mem len) : Mem len :=
  loop n (fun i mem => value.write mem i (value.read mem i * mult)) mem

/-- `operator*=(value_type const &_value)`: `multiply_scalar(storage_, _value)` — the by-value parameter is
    initialised from the reference at the call, before the loop -/
def mulAssignScalar {len n : Nat} (self : Ref len n) (value : Scalar len) (mem : Mem len) : Mem len :=
  multiplyScalar self (value.read mem) mem

/-! ## assignment and copy -/

/-- `detail::assign(_dest, _src)`: `loop(int_range_count<storage_size>, _dest.storage()[Index] = _src.storage()[Index])` -/
def assign {len n : Nat} (dest src : Ref len n) (mem : Mem len) : Mem len :=
  loop n (fun i mem => dest.write mem i (src.read mem i)) mem

/-- the converting `operator=(object<T, N, OtherStorage> const &)`: `assign(*this, _other)` -/
def assignConv {len n : Nat} (self other : Ref len n) (mem : Mem len) : Mem len := assign self other mem

/-- the implicit copy assignment `object &operator=(object const &)` that overload resolution selects when both
    operands have the *same* storage type (the template `operator=` is only used for a different storage):
    member-wise `storage_ = other.storage_`.  For static storage this copies the array (all reads, then the
    writes); for a row view / a buffer view it copies the *view* (`fcppt::reference` + offset, the pointer):
    the left object now refers to the cells of the right one and no cell changes.  Result: new memory and the
    reference the left object has afterwards. -/
def copyAssign {len n : Nat} (self other : Ref len n) (mem : Mem len) : Mem len × Ref len n :=
  match self with
  | .static _ _ =>
    let a := Vector.ofFn fun i => other.read mem i
    (loop n (fun i mem => self.write mem i a[i]) mem, self)
  | .buffer _ _ => (mem, other)
  | .rowView _ _ _ => (mem, other)

/-- `detail::copy<Result>(_arg)`: `Result{array::init(linear_access<Index>(_arg.storage()))}`, the converting
    constructor into static storage: a new static object -/
def copy {len n : Nat} (arg : Ref len n) (mem : Mem len) : Storage n := fromArray (Vector.ofFn fun i => arg.read mem i)

/-- `dest = Static(arg)`: the converting constructor builds a static temporary (`copy`), which is then assigned — by the copy
    assignment of static storage or by the converting `operator=` of a view; both write the elements of the temporary in
    index order.  The temporary lives outside the modelled memory, nothing can alias it. -/
def assignValue {len n : Nat} (dest : Ref len n) (src : Storage n) (mem : Mem len) : Mem len :=
  loop n (fun i mem => dest.write mem i (src.get i)) mem

/-! ## element references -/

/-- `v.get_unsafe(i)` on a non-const object: a reference to the element; precondition `i < N` -/
def Ref.getUnsafe {len n : Nat} (v : Ref len n) (i : Nat) : M (Fin len) :=
  if h : i < n then .ok (v.addr ⟨i, h⟩) else .error .oob

/-- `vector::at<Index>(v)`, `v.x()` … `v.w()`, `d.w() d.h() d.d()`: `checked_access<Index>` → `get_unsafe(Index)` -/
def Ref.atI {len n : Nat} (v : Ref len n) (i : Fin n) : Fin len := v.addr i

/-- `reference = value` -/
def setElem {len : Nat} (a : Fin len) (value : Int) (mem : Mem len) : Mem len := mem.set a value

/-! ## matrices as lvalues -/

/-- a `matrix::object<T, R, C, S>` in memory -/
structure MatRef (len r c : Nat) where
  s : Ref len (r * c)

/-- `matrix::at_r<R>(m)` on a non-const matrix: `m.get_unsafe(R)` = `reference(row_view(storage_, R, columns()))` -/
def MatRef.atR {len r c : Nat} (m : MatRef len r c) (i : Fin r) : Ref len c := .rowView m.s (i.val * c) (row_le i)

/-- `m.get_unsafe(j)` with a run-time row index: precondition `j < R` -/
def MatRef.getUnsafe {len r c : Nat} (m : MatRef len r c) (j : Nat) : M (Ref len c) :=
  if h : j < r then .ok (m.atR ⟨j, h⟩) else .error .oob

/-- `matrix::at_r_c<R, C>(m)`, `m.m00()` …: `vector::at<C>(at_r<R>(m))`, a reference to the element -/
def MatRef.atRC {len r c : Nat} (m : MatRef len r c) (i : Fin r) (j : Fin c) : Fin len := (m.atR i).atI j

/-- the value a matrix has in the memory `mem` -/
def MatRef.load {len r c : Nat} (mem : Mem len) (m : MatRef len r c) : Mat r c := ⟨m.s.load mem⟩

/-! ## statement sequences -/

/-- one statement of a scenario (the `mem` lines of the driver): a member operator applied to objects of the memory -/
inductive Stmt (len : Nat) where
  | add {n : Nat} (target x : Ref len n)
  | sub {n : Nat} (target x : Ref len n)
  | mul {n : Nat} (target x : Ref len n)
  | smul {n : Nat} (target : Ref len n) (s : Scalar len)
  | asg {n : Nat} (target x : Ref len n)
  | ctor {n : Nat} (target x : Ref len n)
  | set {n : Nat} (target : Ref len n) (i : Fin n) (value : Int)

def Stmt.exec {len : Nat} : Stmt len → Mem len → Mem len
  | .add t x, mem => addAssign t x mem
  | .sub t x, mem => subAssign t x mem
  | .mul t x, mem => mulAssign t x mem
  | .smul t s, mem => mulAssignScalar t s mem
  | .asg t x, mem => assignConv t x mem
  | .ctor t x, mem => assignValue t (copy x mem) mem
  | .set t i v, mem => setElem (t.atI i) v mem

/-- the statements one after the other -/
def Stmt.run {len : Nat} (stmts : List (Stmt len)) (mem : Mem len) : Mem len := stmts.foldl (fun m s => s.exec m) mem

end Fcppt.C14
