import FcpptModel.Model.C15.Bytes
/-!
# C15, textual part — decimal integers, enums, vectors through iostreams

Mirrors

* `fcppt/output_to_string_locale.hpp` (`ostringstream`, imbue, `<<`, `str()`)   → `outputToString`
* `fcppt/extract_from_string_locale.hpp` (`istringstream`, `io::extract`, the `peek() == eof` test of
  900f8ee)                                                                        → `extractFromString`
* `fcppt/io/detail/extract_impl.hpp` (`stream >> x ? make(x) : nothing`)          → `extract`
* `fcppt/io/expect.hpp`                                                           → `expect`
* `fcppt/enum/to_string.hpp`, `names.hpp`, `from_string_impl.hpp`, `index_of_array.hpp`,
  `algorithm/index_of.hpp` (first match of a linear search)                       → `enumToString`, `indexOf`, `enumFromString`
* `fcppt/enum/output.hpp`, `enum/input.hpp`, `io/narrow_string_locale.hpp`        → `enumOutput`, `enumInput`
* `fcppt/math/detail/one_dimensional_output.hpp` / `one_dimensional_input.hpp`    → `vecOutput`, `vecInput`

Library code underneath (libstdc++ 12, classic "C" locale = `fcppt::insert_extract_locale()`), modelled as a
validated **assumption**, not proved:

* `basic_istream::sentry`, `peek`, `operator>>(char&)`, `operator>>(basic_string&)`  → `sentry`, `peek`, `getChar`, `getWord`
* `num_get::_M_extract_int` (sign, leading zeros, digit loop with the `__max / 10` overflow test, eofbit) and the
  `long` detour of `operator>>(short&)` / `operator>>(int&)`                        → `digitLoop`, `numGet`, `extractNum`
* `num_put::_M_insert_int` for `dec`, no `showpos`, no grouping                      → `decDigits`, `putInt`

A character is its code (`char`: the `unsigned char` value 0…255; `wchar_t`: the code point).
-/
namespace Fcppt.C15

scoped notation "Ch" => Nat

/-- `ctype::is(space, c)` in the classic locale -/
def isSpace (c : Ch) : Bool := c == 32 || (9 ≤ c && c ≤ 13)
def isDigit (c : Ch) : Bool := 48 ≤ c && c ≤ 57

/-! ## the input stream (a `basic_istringstream`): unread characters + state bits (a `stringbuf` never sets badbit) -/

structure IStream where
  buf : List Ch
  eof : Bool := false
  fail : Bool := false
  deriving DecidableEq, Repr

namespace IStream
def ofString (s : List Ch) : IStream := { buf := s }
def good (s : IStream) : Bool := !s.eof && !s.fail
end IStream

/-- `istream::sentry(in, noskipws)` (flags: `skipws` set, no tied stream) -/
def sentry (s : IStream) (noskip : Bool) : IStream × Bool :=
  if s.good then
    if noskip then (s, true)
    else
      let s1 := { s with buf := s.buf.dropWhile isSpace }
      if s1.buf.isEmpty then ({ s1 with eof := true, fail := true }, false) else (s1, true)
  else ({ s with fail := true }, false)

/-- `istream::peek()`: `none` = `traits::eof()` -/
def peek (s : IStream) : IStream × Option Ch :=
  let (s, ok) := sentry s true
  if ok then
    match s.buf with
    | [] => ({ s with eof := true }, none)
    | c :: _ => (s, some c)
  else (s, none)

/-- `operator>>(istream&, char&)` -/
def getChar (s : IStream) : IStream × Option Ch :=
  let (s, ok) := sentry s false
  if ok then
    match s.buf with
    | c :: r => ({ s with buf := r }, some c)
    | [] => ({ s with eof := true, fail := true }, none)
  else (s, none)

/-- `operator>>(istream&, basic_string&)` with `width() == 0` -/
def getWord (s : IStream) : IStream × Option (List Ch) :=
  let (s, ok) := sentry s false
  if ok then
    let w := s.buf.takeWhile (fun c => !isSpace c)
    let r := s.buf.dropWhile (fun c => !isSpace c)
    let s1 := { s with buf := r, eof := s.eof || r.isEmpty }
    if w.isEmpty then ({ s1 with fail := true }, none) else (s1, some w)
  else (s, none)

/-! ## `num_get` -/

/-- the accumulation loop of `_M_extract_int` (base 10, no grouping): `(result, overflow, digits accepted, rest)` -/
def digitLoop (max : Nat) : List Ch → Nat → Bool → Nat → Nat × Bool × Nat × List Ch
  | [], result, ovf, sep => (result, ovf, sep, [])
  | c :: r, result, ovf, sep =>
    if isDigit c then
      let digit := c - 48
      if result > max / 10 then digitLoop max r result true sep
      else
        let result' := result * 10
        digitLoop max r (result' + digit) (ovf || decide (result' > max - digit)) (sep + 1)
    else (result, ovf, sep, c :: r)

structure NumRes where
  rest : List Ch
  value : Int
  fail : Bool
  eof : Bool
  deriving DecidableEq, Repr

/-- `num_get::_M_extract_int<T>` behind the sign: leading zeros, digits, result (`basefield == dec`, classic locale) -/
def numGetBody (t : IntTy) (negative : Bool) (b1 : List Ch) : NumRes :=
  -- leading zeros
  let foundZero := !(b1.takeWhile (· == 48)).isEmpty
  let b2 := b1.dropWhile (· == 48)
  let max : Nat := if negative && t.signed then 2 ^ (t.bits - 1) else t.maxVal.toNat
  let (result, overflow, sepPos, rest) := digitLoop max b2 0 false 0
  let eof := rest.isEmpty
  if sepPos == 0 && !foundZero then { rest, value := 0, fail := true, eof }
  else if overflow then { rest, value := if negative && t.signed then t.minVal else t.maxVal, fail := true, eof }
  else
    let v : Int := if negative then (if t.signed then -(result : Int) else ((2 ^ t.bits - result) % 2 ^ t.bits : Nat)) else result
    { rest, value := v, fail := false, eof }

/-- `num_get::_M_extract_int<T>` for the integer type `t`: `__negative = c == '-'`, a sign is skipped -/
def numGet (t : IntTy) (buf : List Ch) : NumRes :=
  let negative := buf.head? == some 45
  let b1 := if negative || buf.head? == some 43 then buf.tail else buf
  numGetBody t negative b1

/-- `operator>>(istream&, T&)` for an integer type that is not a character type: `short` and `int` are read as
`long` and range-checked afterwards, all other types go to `num_get` directly.  Returns the value stored. -/
def extractNum (t : IntTy) (s : IStream) : IStream × Option Int :=
  let (s, ok) := sentry s false
  if ok then
    let viaLong := t.signed && t.bytes < 8
    let r := numGet (if viaLong then ⟨8, true⟩ else t) s.buf
    let (v, fail) : Int × Bool :=
      if viaLong then
        if r.value < t.minVal then (t.minVal, true)
        else if r.value > t.maxVal then (t.maxVal, true)
        else (r.value, r.fail)
      else (r.value, r.fail)
    ({ buf := r.rest, eof := s.eof || r.eof, fail := s.fail || fail }, some v)
  else (s, none)

/-- destination types of `extract_from_string`: a character type (`char`, `signed char`, `unsigned char`,
i.e. also `std::int8_t`/`std::uint8_t`) or a wider integer type -/
inductive Dest where
  | char (signed : Bool)
  | num (t : IntTy)
  deriving DecidableEq, Repr

/-- the value of a character type holding the character code `c` -/
def charValue (signed : Bool) (c : Ch) : Int := if signed ∧ 128 ≤ c then (c : Int) - 256 else c
/-- the character a character-typed value prints as -/
def charCode (v : Int) : Ch := (v % 256).toNat

/-- `fcppt::io::extract<Dest>(stream)`: `stream >> x ? optional(x) : nothing` -/
def extract (d : Dest) (s : IStream) : IStream × Option Int :=
  match d with
  | .char sg =>
    let (s, c) := getChar s
    (s, if s.fail then none else c.map (charValue sg))
  | .num t =>
    let (s, v) := extractNum t s
    (s, if s.fail then none else v)

/-- `fcppt::extract_from_string<Dest>(source)` -/
def extractFromString (d : Dest) (source : List Ch) : Option Int :=
  let iss := IStream.ofString source
  let (iss, result) := extract d iss
  let (_, c) := peek iss
  if c.isNone then result else none

/-! ## `num_put` -/

/-- decimal digits of `n`, produced from the least significant end into the front of `acc`
(`__int_to_char`: `do { *--buf = '0' + v % 10; v /= 10; } while (v != 0)`); `fuel` bounds the loop -/
def decDigitsAux : Nat → Nat → List Ch → List Ch
  | 0, _, acc => acc
  | fuel + 1, n, acc => if n < 10 then (48 + n) :: acc else decDigitsAux fuel (n / 10) ((48 + n % 10) :: acc)

def decDigits (n : Nat) : List Ch := decDigitsAux (n + 1) n []

/-- `os << v` for a non-character integer type -/
def putInt (v : Int) : List Ch := if v < 0 then 45 :: decDigits v.natAbs else decDigits v.natAbs

/-- `fcppt::output_to_string<String>(source)` -/
def outputToString (d : Dest) (v : Int) : List Ch :=
  match d with
  | .char _ => [charCode v]
  | .num _ => putInt v

/-! ## enums: `names : List (List Ch)` is the table `to_string_impl<Enum>::get`, enumerator = its index -/

/-- `fcppt::enum_::to_string(e)`; an index that is not an enumerator has no name -/
def enumToString (names : List (List Ch)) (e : Nat) : Except Fault (List Ch) :=
  match names[e]? with
  | some n => .ok n
  | none => .error .oob

/-- `fcppt::algorithm::index_of(array, value)`: position of the first equal element (`find_opt` = `std::find`) -/
def indexOf {α : Type} [DecidableEq α] : List α → α → Option Nat
  | [], _ => none
  | a :: r, x => if a = x then some 0 else (indexOf r x).map (· + 1)

/-- `fcppt::enum_::from_string<Enum>(s)` -/
def enumFromString (names : List (List Ch)) (s : List Ch) : Option Nat := indexOf names s

/-- `fcppt::enum_::output(stream, e)`: the characters appended to the stream -/
def enumOutput (names : List (List Ch)) (out : List Ch) (e : Nat) : Except Fault (List Ch) := do
  let n ← enumToString names e
  pure (out ++ n)

/-- `fcppt::io::narrow_string` on a `char` stream (`ctype<char>::narrow` is the identity, a NUL means failure) -/
def narrowString (w : List Ch) : Option (List Ch) := if w.any (· == 0) then none else some w

/-- `fcppt::enum_::input(stream, result)`: the enumerator stored, failbit set if there is none -/
def enumInput (names : List (List Ch)) (s : IStream) : IStream × Option Nat :=
  let (s, w) := getWord s
  let w := if s.fail then none else w
  match w.bind (fun w => (narrowString w).bind (enumFromString names)) with
  | some e => (s, some e)
  | none => ({ s with fail := true }, none)

/-! ## vectors and dims -/

/-- `one_dimensional_output`: `'('`, the elements separated by `','`, `')'` -/
def vecOutputLoop : List Int → List Ch → List Ch
  | [], out => out
  | [v], out => out ++ putInt v
  | v :: r, out => vecOutputLoop r (out ++ putInt v ++ [44])

def vecOutput (vs : List Int) (out : List Ch) : List Ch := vecOutputLoop vs (out ++ [40]) ++ [41]

/-- `fcppt::io::expect(stream, c)` -/
def expect (s : IStream) (c : Ch) : IStream :=
  let (s, r) := getChar s
  match (if s.fail then none else r) with
  | none => s
  | some x => if x ≠ c then { s with fail := true } else s

/-- the element loop of `one_dimensional_input` for `n` remaining elements -/
def vecInputLoop (t : IntTy) : Nat → IStream → List Int → IStream × List Int
  | 0, s, acc => (s, acc.reverse)
  | n + 1, s, acc =>
    let (s, v) := extractNum t s
    let acc := match v with | some x => x :: acc | none => acc
    let s := if n = 0 then s else expect s 44
    vecInputLoop t n s acc

/-- `stream >> vector<T, n>`: the stream afterwards and the elements that were stored -/
def vecInput (t : IntTy) (n : Nat) (s : IStream) : IStream × List Int :=
  let s := expect s 40
  let (s, vs) := vecInputLoop t n s []
  (expect s 41, vs)

end Fcppt.C15
