import FcpptModel.Model.C15.Codecvt
/-!
# C15 — a family of scripted converters ("toy facets") for `impl::codecvt`

The real `codecvt<wchar_t, char, mbstate_t>` of C.utf8 never reports `noconv`, never reports `partial` with nothing
written into a window of `max_length()` characters, never has `max_length() = 0`, and leaves a non-initial state only at
the very end of the input.  The loop of `libs/core/impl/include/fcppt/impl/codecvt.hpp` has branches for all of these.
The harness therefore installs a facet of its own (`c15::toy_facet` in `harness/c15.cpp`, derived from
`std::codecvt<wchar_t, char, std::mbstate_t>`, passed to `narrow_locale` / `widen_locale` inside a `std::locale`) whose
`do_in` / `do_out` are the function `toyStep` below — the same definition on both sides, so the *real loop* is compared
with `codecvtLoop` on converters that exercise every branch:

a unit `c` of the input is classified by `b = c mod 256`
* `0xEE`: `error`;
* `0xFD`: `noconv`;
* `b mod 16 = 15`: a *lead* unit, which needs one follower `f` (any unit) and then yields the single unit `(b + f) mod 256`.
  A lead that is the last unit of the input is swallowed into the state with result `ok` (`stash`, what glibc does) or
  left unconsumed with result `partial` (`hold`, what the standard describes);
* otherwise: `1 + b mod 3` copies of `(b + 1) mod 256`; if they do not fit into the window the call ends with `partial`
  (or `ok` with input left over: `okFull`, window exhausted at the head of a call, like libstdc++ behind a NUL);
* at most `chunk` units are consumed per call (`0` = no limit); the call then ends with `partial` (`okLeft`: `ok`).

`maxLen` is what `max_length()` reports (it need not be truthful).  State: `0` = initial, `1 + b` = lead `b` pending
(`mbstate_t::__count = 1`, `__value.__wch = b`; `mbsinit` looks at `__count`).
-/
namespace Fcppt.C15

structure Toy where
  stash : Bool
  okFull : Bool
  okLeft : Bool
  maxLen : Nat
  chunk : Nat
  deriving DecidableEq, Repr

/-- the window is exhausted: `partial`, or `ok` with input left over at the head of a call -/
def toyFull (p : Toy) (st room cnt : Nat) (acc : List Nat) : StepOut Nat Nat :=
  ⟨if p.okFull ∧ room = 0 ∧ cnt = 0 then .ok else .part, st, cnt, acc.reverse⟩

/-- one call of `do_in` / `do_out`; `cnt` = units consumed in this call, `acc` = output so far (reversed) -/
def toyGo (p : Toy) : Nat → List Nat → Nat → Nat → List Nat → StepOut Nat Nat
  | st, [], _, cnt, acc => ⟨.ok, st, cnt, acc.reverse⟩
  | st, c :: r, room, cnt, acc =>
    if p.chunk ≠ 0 ∧ cnt ≥ p.chunk then ⟨if p.okLeft then .ok else .part, st, cnt, acc.reverse⟩
    else
      if st ≠ 0 then
        -- `c` is the follower of the pending lead `st - 1`
        if room = 0 then toyFull p st room cnt acc
        else toyGo p 0 r (room - 1) (cnt + 1) (((st - 1 + c) % 256) :: acc)
      else
        let b := c % 256
        if b = 0xEE then ⟨.error, 0, cnt, acc.reverse⟩
        else if b = 0xFD then ⟨.noconv, 0, cnt, acc.reverse⟩
        else if b % 16 = 15 then
          if r.isEmpty ∧ !p.stash then ⟨.part, 0, cnt, acc.reverse⟩
          else toyGo p (1 + b) r room (cnt + 1) acc
        else
          let need := 1 + b % 3
          if need > room then toyFull p st room cnt acc
          else toyGo p 0 r (room - need) (cnt + 1) (List.replicate need ((b + 1) % 256) ++ acc)

def toyStep (p : Toy) (st : Nat) (inp : List Nat) (window : Nat) : StepOut Nat Nat := toyGo p st inp window 0 []

/-- `wide = true`: the facet's `do_out` (`narrow_locale`: `wchar_t` → `char`), `false`: `do_in` (`widen_locale`).
`cast` is the implicit conversion of `return_type(_string.begin(), _string.end())` in the `noconv` branch:
`wchar_t → char` keeps the low byte, `char → wchar_t` sign-extends (`char` is signed, `wchar_t` is a 32-bit `int`). -/
def toyConverter (p : Toy) (wide : Bool) : Converter Nat Nat Nat where
  step := toyStep p
  init := 0
  isInit := fun s => s == 0
  maxLength := p.maxLen
  cast := fun c => if wide then c % 256 else if c < 128 then c else c + 0xFFFFFF00

/-- `narrow_locale(string, locale with the toy facet)` / `widen_locale(…)` (`none` = empty optional / exception) -/
def toyCodecvt (p : Toy) (wide : Bool) (s : List Nat) : Except Fault (Option (List Nat)) := codecvt (toyConverter p wide) s

end Fcppt.C15
