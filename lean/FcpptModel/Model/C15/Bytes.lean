import FcpptModel.Prelude.Fault
/-!
# C15, binary part — byte order

Mirrors

* `libs/core/src/endianness/reverse_mem.cpp`      → `swapAt`, `reverseMem` (the index loop, `len / 2` swaps)
* `libs/core/include/fcppt/endianness/swap.hpp`   → `swap` (object representation → `reverse_mem` → value)
* `libs/core/include/fcppt/endianness/convert.hpp`→ `convert` (`_format == native ? value : swap(value)`)
* `libs/core/include/fcppt/io/write.hpp`          → `write` (`convert`, then `ostream::write` of `sizeof(Type)` bytes)
* `libs/core/include/fcppt/io/read.hpp`           → `read` (`istream::read` of `sizeof(Type)` bytes, then `convert`)

A value of an arithmetic type of `n` bytes is an `Int` inside the type's range; its *object
representation* on a machine whose byte order is `native` is the list of its `n` base-256 digits
(two's complement for signed types), least significant first iff `native = little`.  `float` and
`double` enter as the unsigned integer with the same bits (the code only ever copies their bytes).
The native order is a parameter of every definition (the sandbox is little endian).
-/
namespace Fcppt.C15

abbrev Byte := Fin 256

inductive Endian where
  | little | big
  deriving DecidableEq, Repr, Inhabited

/-- `std::swap(_data[i], _data[j])`; an index outside the buffer is an out-of-bounds access. -/
def swapAt {α : Type} (d : List α) (i j : Nat) : Except Fault (List α) :=
  match d[i]?, d[j]? with
  | some a, some b => .ok ((d.set i b).set j a)
  | _, _ => .error .oob

/-- `reverse_mem(_data, _len)`: `for index in [0, _len / 2): swap(_data[index], _data[_len - index - 1])`. -/
def reverseMem {α : Type} (d : List α) : Except Fault (List α) :=
  let len := d.length
  (List.range (len / 2)).foldlM (fun cur index => swapAt cur index (len - index - 1)) d

/-- An integer type: `sizeof` and signedness. -/
structure IntTy where
  bytes : Nat
  signed : Bool
  deriving DecidableEq, Repr

namespace IntTy
def bits (t : IntTy) : Nat := 8 * t.bytes
def minVal (t : IntTy) : Int := if t.signed then -(2 ^ (t.bits - 1) : Nat) else 0
def maxVal (t : IntTy) : Int := if t.signed then (2 ^ (t.bits - 1) : Nat) - 1 else (2 ^ t.bits : Nat) - 1
/-- the values of the type -/
def InRange (t : IntTy) (v : Int) : Prop := t.minVal ≤ v ∧ v ≤ t.maxVal
instance (t : IntTy) (v : Int) : Decidable (t.InRange v) := by unfold InRange; exact inferInstance
end IntTy

/-- the bits of a value read as an unsigned number (two's complement) -/
def toU (t : IntTy) (v : Int) : Nat := (v % (2 ^ t.bits : Nat)).toNat

/-- the value whose bits are `u` -/
def ofU (t : IntTy) (u : Nat) : Int :=
  if t.signed ∧ 2 ^ (t.bits - 1) ≤ u then (u : Int) - (2 ^ t.bits : Nat) else u

/-- `n` base-256 digits of `x`, least significant first (memory order on a little-endian machine) -/
def leBytes : Nat → Nat → List Byte
  | 0, _ => []
  | n + 1, x => ⟨x % 256, Nat.mod_lt _ (by decide)⟩ :: leBytes n (x / 256)

/-- the number whose little-endian digits are `bs` -/
def ofLE : List Byte → Nat
  | [] => 0
  | b :: bs => b.val + 256 * ofLE bs

/-- object representation of `v` in memory order -/
def objRep (native : Endian) (t : IntTy) (v : Int) : List Byte :=
  match native with
  | .little => leBytes t.bytes (toU t v)
  | .big => (leBytes t.bytes (toU t v)).reverse

/-- the value whose object representation is `bs` -/
def ofObjRep (native : Endian) (t : IntTy) (bs : List Byte) : Int :=
  match native with
  | .little => ofU t (ofLE bs)
  | .big => ofU t (ofLE bs.reverse)

/-- `endianness::swap(_value)`: `reverse_mem` on the bytes of the by-value copy, returned -/
def swap (native : Endian) (t : IntTy) (v : Int) : Except Fault Int := do
  let r ← reverseMem (objRep native t v)
  pure (ofObjRep native t r)

/-- `endianness::convert(_value, _format)` -/
def convert (native : Endian) (t : IntTy) (v : Int) (format : Endian) : Except Fault Int :=
  if format = native then pure v else swap native t v

/-- `io::write(_stream, _value, _format)`: the bytes appended to the output stream -/
def write (native : Endian) (t : IntTy) (stream : List Byte) (v : Int) (format : Endian) : Except Fault (List Byte) := do
  let tmp ← convert native t v format
  pure (stream ++ objRep native t tmp)

/-- `io::read<Type>(_stream, _format)` on a stream holding `stream`: the optional result and what is left
in the stream.  `istream::read` of `sizeof(Type)` characters fails (eofbit | failbit, everything
consumed) when fewer are available; the result is then the empty optional. -/
def read (native : Endian) (t : IntTy) (stream : List Byte) (format : Endian) : Except Fault (Option Int × List Byte) :=
  if stream.length < t.bytes then pure (none, [])
  else do
    let result := ofObjRep native t (stream.take t.bytes)
    let r ← convert native t result format
    pure (some r, stream.drop t.bytes)

/-- several `io::write` calls on one stream -/
def writeAll (native : Endian) (t : IntTy) (format : Endian) (vs : List Int) (stream : List Byte) : Except Fault (List Byte) :=
  vs.foldlM (fun s v => write native t s v format) stream

/-- at most `n` `io::read` calls on one stream, stopping at the first failure: the values and what is left -/
def readN (native : Endian) (t : IntTy) (format : Endian) : Nat → List Byte → Except Fault (List Int × List Byte)
  | 0, s => pure ([], s)
  | n + 1, s => do
    let (v, rest) ← read native t s format
    match v with
    | none => pure ([], rest)
    | some x => do
      let (vs, r) ← readN native t format n rest
      pure (x :: vs, r)

end Fcppt.C15
