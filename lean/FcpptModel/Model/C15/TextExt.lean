import FcpptModel.Model.C15.Text
import FcpptModel.Model.C15.Codecvt
/-!
# C15, textual part — the neighbouring public API

Mirrors

* `fcppt/io/get.hpp`, `io/peek.hpp`, `io/extract.hpp`, `io/expect.hpp` used directly on one stream      → `ioGet`, `peek`, `extract…`, `expect`
* `fcppt/extract_from_string_locale.hpp` for the destinations `bool` and `std::basic_string`               → `extractFromStringG`, `extractBool`, `extractString`
* `fcppt/output_to_string_locale.hpp` with a locale whose `numpunct` groups digits (the `imbue` is visible) → `putIntGrouped`
* `fcppt/extract_from_string_locale.hpp` with a locale whose `ctype<char>` has one more white-space character → `extractFromStringX`
* `fcppt/io/narrow_string_locale.hpp` on a `wchar_t` stream (`ctype<wchar_t>::narrow(c, '\0')`)            → `narrowStringW`
* `fcppt/math/matrix/output.hpp` (`one_dimensional_output` over the rows, each row a vector)               → `matOutput`
* `fcppt/enum/array_output.hpp`                                                                            → `enumArrayOutput`
* `libs/core/src/from_std_string(_locale).cpp`, `to_std_string(_locale).cpp`, `from_std_wstring(_locale).cpp`,
  `to_std_wstring(_locale).cpp` with `FCPPT_NARROW_STRING` defined                                          → `fromStdString`, …

Library code underneath (validated assumption): `istream::get()`, `num_get::do_get(bool&)` without `boolalpha`
(read as `long`; 0 and 1 are the values, anything else stores `true` and sets `failbit`), `num_put` with grouping `"\3"`.
-/
namespace Fcppt.C15

/-- `istream::get()` behind `fcppt::io::get`: `none` = `traits::eof()` -/
def ioGet (s : IStream) : IStream × Option Ch :=
  let (s, ok) := sentry s true
  if ok then
    match s.buf with
    | c :: r => ({ s with buf := r }, some c)
    | [] => ({ s with eof := true, fail := true }, none)
  else (s, none)

/-- `fcppt::extract_from_string_locale<Dest>(source, locale)` for an arbitrary `operator>>` (`ex` = `io::extract<Dest>`) -/
def extractFromStringG {α : Type} (ex : IStream → IStream × Option α) (source : List Ch) : Option α :=
  let iss := IStream.ofString source
  let (iss, result) := ex iss
  let (_, c) := peek iss
  if c.isNone then result else none

/-- `operator>>(istream&, bool&)` (no `boolalpha`): `num_get::do_get(bool&)` reads a `long`; the value stored -/
def extractBoolRaw (s : IStream) : IStream × Option Bool :=
  let (s, ok) := sentry s false
  if ok then
    let r := numGet ⟨8, true⟩ s.buf
    if r.value = 0 ∨ r.value = 1 then
      ({ buf := r.rest, eof := s.eof || r.eof, fail := s.fail || r.fail }, some (decide (r.value = 1)))
    else
      ({ buf := r.rest, eof := s.eof || r.rest.isEmpty, fail := true }, some true)
  else (s, none)

/-- `fcppt::io::extract<bool>` -/
def extractBool (s : IStream) : IStream × Option Bool :=
  let (s, v) := extractBoolRaw s
  (s, if s.fail then none else v)

/-- `fcppt::io::extract<std::basic_string<Ch>>` -/
def extractString (s : IStream) : IStream × Option (List Ch) :=
  let (s, w) := getWord s
  (s, if s.fail then none else w)

/-- `os << b` for `bool` without `boolalpha` -/
def putBool (b : Bool) : List Ch := if b then [49] else [48]

/-! ## locales other than the classic one: what `imbue` changes -/

/-- `num_put` with `numpunct::grouping() = "\3"`, `thousands_sep() = ','`: a separator in front of every complete group
of three digits counted from the right -/
def groupDigits : List Ch → List Ch
  | [] => []
  | c :: r => if r.length % 3 = 0 ∧ !r.isEmpty then c :: 44 :: groupDigits r else c :: groupDigits r

def putIntGrouped (v : Int) : List Ch :=
  if v < 0 then 45 :: groupDigits (decDigits v.natAbs) else groupDigits (decDigits v.natAbs)

/-- `extract_from_string_locale<T>(source, L)` where `L` is the classic locale except that `ctype<char>` classifies the
character `x` as white space as well: only the sentry's skipping is affected (the `peek` test does not skip) -/
def extractFromStringX (x : Ch) (t : IntTy) (source : List Ch) : Option Int :=
  extractFromString (.num t) (source.dropWhile fun c => isSpace c || c == x)

/-- `fcppt::io::narrow_string` on a `wchar_t` stream in the classic locale: `ctype<wchar_t>::narrow(c, '\0')` is the
character itself below 128 and the default `'\0'` otherwise; a NUL in the result means failure -/
def narrowStringW (w : List Ch) : Option (List Ch) := if w.any (fun c => c == 0 || c ≥ 128) then none else some w

/-- `fcppt::enum_::input` on a `wchar_t` stream -/
def enumInputW (names : List (List Ch)) (s : IStream) : IStream × Option Nat :=
  let (s, w) := getWord s
  let w := if s.fail then none else w
  match w.bind (fun w => (narrowStringW w).bind (enumFromString names)) with
  | some e => (s, some e)
  | none => ({ s with fail := true }, none)

/-- `stream >> v` repeated `k` times on one stream (vectors of `n` elements): the vectors stored -/
def vecInputMany (t : IntTy) (n : Nat) : Nat → IStream → IStream × List (List Int)
  | 0, s => (s, [])
  | k + 1, s =>
    let (s1, vs) := vecInput t n s
    let (s2, r) := vecInputMany t n k s1
    (s2, vs :: r)

/-! ## matrices and enum arrays (output only: there is no input operator) -/

/-- `one_dimensional_output` over the rows of a matrix: every row is printed as a vector -/
def matOutputLoop : List (List Int) → List Ch → List Ch
  | [], out => out
  | [r], out => vecOutput r out
  | r :: rs, out => matOutputLoop rs (vecOutput r out ++ [44])

def matOutput (rows : List (List Int)) (out : List Ch) : List Ch := matOutputLoop rows (out ++ [40]) ++ [41]

/-- `operator<<(ostream&, enum_::array<Enum, int> const&)`: `[name=value,…]` -/
def enumArrayOutputLoop : List (List Ch × Int) → List Ch → List Ch
  | [], out => out
  | [(n, v)], out => out ++ n ++ [61] ++ putInt v
  | (n, v) :: r, out => enumArrayOutputLoop r (out ++ n ++ [61] ++ putInt v ++ [44])

def enumArrayOutput (names : List (List Ch)) (vals : List Int) (out : List Ch) : List Ch :=
  enumArrayOutputLoop (names.zip vals) (out ++ [91]) ++ [93]

/-! ## `fcppt::string` conversions (`FCPPT_NARROW_STRING`: `fcppt::string` = `std::string`) -/

/-- `fcppt::from_std_string_locale` / `from_std_string`: `fcppt::string{_input}` -/
def fromStdString (s : List Nat) : List Nat := s
/-- `fcppt::to_std_string_locale` / `to_std_string`: `optional_std_string{std::string{_input}}` -/
def toStdString (s : List Nat) : Option (List Nat) := some s
/-- `fcppt::from_std_wstring_locale(_, C.utf8)` = `narrow_locale` -/
def fromStdWstring (ws : List Nat) : Except Fault (Option (List Nat)) := narrowLocale ws
/-- `fcppt::to_std_wstring_locale(_, C.utf8)` = `widen_locale` -/
def toStdWstring (s : List Nat) : Except Fault (Option (List Nat)) := widenLocale s

end Fcppt.C15
