import FcpptModel.Model.C15.Bytes
/-!
# C15, binary part — `io::write` / `io::read` / `io::write_chars` / `io::read_chars` on ONE `std::stringstream`

`Bytes.lean` models one call on a list of bytes.  Here the stream object itself is modelled, because a
`std::stringstream` shares one `basic_ios` state between its input and its output side: after a failed read
(`eofbit | failbit`) every later read *and write* is refused until `clear()`.

Mirrors

* `libs/core/include/fcppt/io/write.hpp`  → `ioWrite` (`convert`, then `ostream::write`)
* `libs/core/include/fcppt/io/read.hpp`   → `ioRead`  (`istream::read(sizeof(Type))`, `operator bool`, `convert`)
* `libs/core/src/io/write_chars.cpp`      → `writeChars` (`ostream::write`, result `good()`)
* `libs/core/src/io/read_chars.cpp`       → `readChars`  (`buffer::read_from_opt(count, read(..).good() ? gcount : nothing)`)

Library code underneath (libstdc++ 12), a validated assumption:

* `ostream::write`: `sentry`; only a `good()` stream is written to; a stream that is not good and not bad is left
  exactly as it is (`else if (bad()) setstate(failbit)` — a `stringbuf` never sets `badbit`);
* `istream::read(s, n)`: `sentry(noskipws)` sets `failbit` on a stream that is not good; otherwise `sgetn`; fewer than
  `n` characters ⇒ `eofbit | failbit`, everything that was there is consumed;
* `istream::peek`: `eofbit` (only) at the end;  `basic_ios::clear()`.
-/
namespace Fcppt.C15

/-- a `std::stringstream` (in | out | binary): the characters written and not yet read, and the shared state bits -/
structure BStream where
  buf : List Byte := []
  eof : Bool := false
  fail : Bool := false
  deriving DecidableEq, Repr

namespace BStream
def good (s : BStream) : Bool := !s.eof && !s.fail

/-- `ostream::write(data, n)` -/
def put (s : BStream) (data : List Byte) : BStream :=
  if s.good then { s with buf := s.buf ++ data } else s

/-- `istream::read(data, n)`: the stream afterwards and the characters stored if all `n` were there -/
def get (s : BStream) (n : Nat) : BStream × Option (List Byte) :=
  if s.good then
    if s.buf.length < n then ({ buf := [], eof := true, fail := true }, none)
    else ({ s with buf := s.buf.drop n }, some (s.buf.take n))
  else ({ s with fail := true }, none)

/-- `istream::peek()` -/
def peekB (s : BStream) : BStream × Option Byte :=
  if s.good then
    match s.buf with
    | [] => ({ s with eof := true }, none)
    | c :: _ => (s, some c)
  else ({ s with fail := true }, none)

/-- `basic_ios::clear()` -/
def clear (s : BStream) : BStream := { s with eof := false, fail := false }
end BStream

/-- `io::write(_stream, _value, _format)` -/
def ioWrite (native : Endian) (t : IntTy) (s : BStream) (v : Int) (format : Endian) : Except Fault BStream := do
  let tmp ← convert native t v format
  pure (s.put (objRep native t tmp))

/-- `io::read<Type>(_stream, _format)`: `_stream.read(&result, sizeof(Type)) ? optional(convert(result, _format)) : nothing` -/
def ioRead (native : Endian) (t : IntTy) (s : BStream) (format : Endian) : Except Fault (BStream × Option Int) :=
  let (s1, bytes) := s.get t.bytes
  -- `operator bool` of the stream = `!fail()`
  match (if s1.fail then none else bytes) with
  | none => pure (s1, none)
  | some bs => do
    let r ← convert native t (ofObjRep native t bs) format
    pure (s1, some r)

/-- `io::write_chars(_stream, _data, _count)`: the stream afterwards and the result `_stream.good()` -/
def writeChars (s : BStream) (data : List Byte) : BStream × Bool :=
  let s1 := s.put data
  (s1, s1.good)

/-- `io::read_chars(_stream, _count)`: a buffer of `gcount()` characters if the stream is `good()` after the read -/
def readChars (s : BStream) (count : Nat) : BStream × Option (List Byte) :=
  let (s1, bytes) := s.get count
  (s1, if s1.good then bytes else none)

/-- a value of some arithmetic type travelling in some byte order -/
structure Item where
  t : IntTy
  e : Endian
  v : Int
  deriving DecidableEq, Repr

/-- several `io::write` calls (of different types and byte orders) on one stream -/
def ioWriteAll (native : Endian) (s : BStream) : List Item → Except Fault BStream
  | [] => pure s
  | i :: r => do
    let s1 ← ioWrite native i.t s i.v i.e
    ioWriteAll native s1 r

/-- several `io::read` calls on one stream: the results in order -/
def ioReadAll (native : Endian) (s : BStream) : List (IntTy × Endian) → Except Fault (BStream × List (Option Int))
  | [] => pure (s, [])
  | (t, e) :: r => do
    let (s1, x) ← ioRead native t s e
    let (s2, xs) ← ioReadAll native s1 r
    pure (s2, x :: xs)

end Fcppt.C15
