import FcpptModel.Prelude.Fault
/-!
# C15 — `impl::codecvt` (the loop behind `narrow`, `widen`, `from_std_wstring`, `to_std_wstring` …)

Mirrors

* `libs/core/impl/include/fcppt/impl/codecvt.hpp` at ee22c42 (after 59b5504, 5e38615, ee22c42)   → `codecvtLoop`, `codecvt`
* `fcppt/container/buffer/object_impl.hpp`: `written`, `resize_write_area`, `read_size`, `write_size` → `Buf`
* `libs/core/src/narrow_locale.cpp`, `widen_locale.cpp` (and `from_std_wstring_locale.cpp`,
  `to_std_wstring_locale.cpp`, which forward to them because `FCPPT_NARROW_STRING` is defined)        → `narrowLocale`, `widenLocale`

The facet `std::codecvt<wchar_t, char, mbstate_t>` is **library code**.  It enters in two ways:

* abstractly, as a `Converter`: a step function `(state, remaining input, size of the output window) ↦
  (result, new state, characters consumed, characters produced)` — this is the call
  `(conv.*_function)(state, from, from_end, from_next, to, to_end, to_next)`; the loop theorems hold for every
  converter that satisfies the stated contract;
* concretely, as `utf8Out` / `utf8In`: what libstdc++ 12 (`config/locale/gnu/codecvt_members.cc`) on top of
  glibc's `wcsnrtombs`/`mbsnrtowcs` does in the locale `C.utf8`, written per character instead of per
  NUL-separated chunk (same observable result, consumed count, output and state; validated on every run by
  calling the real facet directly, op `cvt`).  glibc's UTF-8 is the 31-bit original: 1–6 bytes, code points up to
  0x7fffffff, surrogates rejected, overlong forms rejected; `max_length()` = 6.

`wchar_t` values and bytes are `Nat`s (`< 2^32`, `< 256`).
-/
namespace Fcppt.C15

inductive CvtResult where
  | ok | part | error | noconv   -- `part` = `std::codecvt_base::partial`
  deriving DecidableEq, Repr, Inhabited

/-- what one call of `codecvt::in` / `codecvt::out` reports -/
structure StepOut (σ Out : Type) where
  res : CvtResult
  state : σ
  consumed : Nat          -- from_next - from
  produced : List Out     -- [to, to_next)
  deriving Repr

structure Converter (σ In Out : Type) where
  step : σ → List In → Nat → StepOut σ Out
  init : σ                -- `state_type state{}`
  isInit : σ → Bool       -- `std::mbsinit(&state) != 0`
  maxLength : Nat         -- `conv.max_length()`
  cast : In → Out         -- `return_type(_string.begin(), _string.end())` in the `noconv` case

/-- `fcppt::container::buffer::object<Out>`: the read area (what has been written so far), the size of the write
area behind it and the capacity of the allocation -/
structure Buf (Out : Type) where
  data : List Out
  writeSize : Nat
  cap : Nat
  deriving Repr

namespace Buf
variable {Out : Type}
/-- `buffer::object(size)` -/
def create (size : Nat) : Buf Out := { data := [], writeSize := size, cap := size }
/-- `written(sz)`: `read_end_ += sz` -/
def written (b : Buf Out) (chars : List Out) : Buf Out :=
  { b with data := b.data ++ chars, writeSize := b.writeSize - chars.length }
/-- `resize_write_area(sz)` -/
def resizeWriteArea (b : Buf Out) (sz : Nat) : Buf Out :=
  if b.cap - b.data.length ≥ sz then { b with writeSize := sz }
  else { data := b.data, writeSize := sz, cap := max (b.cap * 2) (sz + b.data.length) }
end Buf

/-- The `for (;;)` loop of `impl::codecvt`: `frm` (`from`) is an index into `string`, `fuel` bounds the number of
iterations (`.error .fuel` = does not terminate).  A converter that writes outside the window it was given or
reads past the end of the input is an out-of-bounds access. -/
def codecvtLoop {σ In Out : Type} (cv : Converter σ In Out) (string : List In) :
    Nat → σ → Nat → Buf Out → Except Fault (Option (List Out))
  | 0, _, _, _ => .error .fuel
  | fuel + 1, state, frm, buf =>
    let r := cv.step state (string.drop frm) buf.writeSize
    if r.produced.length > buf.writeSize ∨ frm + r.consumed > string.length then .error .oob
    else
      let written := r.produced.length
      let buf := buf.written r.produced
      let fromNext := frm + r.consumed
      let grow : Unit → Except Fault (Option (List Out)) := fun _ =>
        -- case partial (and ok with input left over)
        let maxLength := max cv.maxLength 1
        if written = 0 ∧ buf.writeSize ≥ maxLength then .ok none
        else codecvtLoop cv string fuel r.state fromNext (buf.resizeWriteArea (max (buf.data.length * 2) maxLength))
      match r.res with
      | .noconv => .ok (some (string.map cv.cast))
      | .error => .ok none
      | .ok =>
        if fromNext = string.length then
          if !cv.isInit r.state then .ok none else .ok (some buf.data)
        else grow ()
      | .part => grow ()

/-- iterations that are always enough (see `codecvt_loop_terminates`) -/
def loopFuel (n : Nat) : Nat := 2 * n + 3

/-- `fcppt::impl::codecvt<Out>(string, locale, function)` -/
def codecvt {σ In Out : Type} (cv : Converter σ In Out) (string : List In) : Except Fault (Option (List Out)) :=
  if string.isEmpty then .ok (some [])
  else codecvtLoop cv string (loopFuel string.length) cv.init 0 (Buf.create string.length)

/-! ## UTF-8 as glibc does it (31 bit) -/

def isSurrogate (c : Nat) : Bool := 0xD800 ≤ c && c ≤ 0xDFFF
/-- a `wchar_t` value the encoder accepts -/
def validWc (c : Nat) : Bool := c ≤ 0x7FFFFFFF && !isSurrogate c

/-- the bytes of one character (meaningful for `validWc c`) -/
def encodeWc (c : Nat) : List Nat :=
  if c < 0x80 then [c]
  else if c < 0x800 then [0xC0 + c / 64, 0x80 + c % 64]
  else if c < 0x10000 then [0xE0 + c / 4096, 0x80 + c / 64 % 64, 0x80 + c % 64]
  else if c < 0x200000 then [0xF0 + c / 262144, 0x80 + c / 4096 % 64, 0x80 + c / 64 % 64, 0x80 + c % 64]
  else if c < 0x4000000 then [0xF8 + c / 16777216, 0x80 + c / 262144 % 64, 0x80 + c / 4096 % 64, 0x80 + c / 64 % 64, 0x80 + c % 64]
  else [0xFC + c / 1073741824, 0x80 + c / 16777216 % 64, 0x80 + c / 262144 % 64, 0x80 + c / 4096 % 64, 0x80 + c / 64 % 64, 0x80 + c % 64]

def isCont (b : Nat) : Bool := 0x80 ≤ b && b ≤ 0xBF

/-- length of the sequence a lead byte announces; 0 = not a lead byte (0x80…0xC1, 0xFE, 0xFF) -/
def seqLen (b0 : Nat) : Nat :=
  if b0 < 0x80 then 1
  else if b0 < 0xC2 then 0
  else if b0 < 0xE0 then 2
  else if b0 < 0xF0 then 3
  else if b0 < 0xF8 then 4
  else if b0 < 0xFC then 5
  else if b0 < 0xFE then 6
  else 0

/-- payload bits of the lead byte of an `n`-byte sequence (`ch &= 0x1f`, `0x0f`, `0x07`, `0x03`, `0x01`) -/
def leadBits (n b0 : Nat) : Nat := if n = 1 then b0 else b0 % 2 ^ (7 - n)

/-- smallest code point that needs `n` bytes (glibc: `cnt > 2 && (ch >> (5 * cnt - 4)) == 0` is an overlong form;
two-byte forms below 0x80 are excluded by the lead bytes 0xC0, 0xC1 not being lead bytes) -/
def minFor (n : Nat) : Nat := if n > 2 then 2 ^ (5 * n - 4) else if n = 2 then 0x80 else 0

inductive SeqClass where
  | char (c : Nat)     -- a complete, valid character
  | pref               -- a proper prefix that may still become one (only the form of the bytes is checked)
  | invalid
  deriving DecidableEq, Repr

/-- glibc's judgement of the bytes `bs` (non-empty, at most as long as the lead byte announces) of one sequence -/
def classify (bs : List Nat) : SeqClass :=
  match bs with
  | [] => .pref
  | b0 :: tail =>
    let n := seqLen b0
    if n = 0 then .invalid
    else if !tail.all isCont then .invalid
    else if bs.length < n then .pref
    else if bs.length > n then .invalid
    else
      let c := tail.foldl (fun acc b => acc * 64 + b % 64) (leadBits n b0)
      if c < minFor n ∨ isSurrogate c then .invalid else .char c

/-! ### `codecvt<wchar_t, char, mbstate_t>::do_out` (wide → UTF-8), state-free -/

/-- running result of one facet call -/
structure Go (σ Out : Type) where
  consumed : Nat
  produced : List Out      -- reversed
  deriving Repr

/-- `atTop`: we are at the head of libstdc++'s `while (from_next < from_end && to_next < to_end && ret == ok)`, i.e. at
the start of the call or right behind a NUL; only there an exhausted window ends the call with `ok`. -/
def outGo : Bool → List Nat → Nat → Nat → List Nat → StepOut Unit Nat
  | _, [], _, consumed, acc => ⟨.ok, (), consumed, acc.reverse⟩
  | atTop, c :: r, room, consumed, acc =>
    if atTop && room == 0 then ⟨.ok, (), consumed, acc.reverse⟩
    else if c == 0 then
      if room == 0 then ⟨.part, (), consumed, acc.reverse⟩
      else outGo true r (room - 1) (consumed + 1) (0 :: acc)
    else if room == 0 then ⟨.part, (), consumed, acc.reverse⟩
    else if !validWc c then ⟨.error, (), consumed, acc.reverse⟩
    else
      let bs := encodeWc c
      if bs.length > room then ⟨.part, (), consumed, acc.reverse⟩
      else outGo false r (room - bs.length) (consumed + 1) (bs.reverse ++ acc)

def utf8Out : Converter Unit Nat Nat where
  step := fun _ inp w => outGo true inp w 0 []
  init := ()
  isInit := fun _ => true
  maxLength := 6
  cast := id

/-! ### `do_in` (UTF-8 → wide); the state holds the bytes of an incomplete sequence (`mbstate_t`) -/

/-- `back` = how many bytes of `pending` were consumed inside the current chunk of this call: an ill-formed
sequence is reported at its first byte, but never in front of the chunk.  A NUL byte is stored as `L'\\0'`
without looking at the state (libstdc++: "XXX Probably wrong for stateful encodings"). -/
def inGo : Bool → List Nat → Nat → List Nat → Nat → Nat → List Nat → StepOut (List Nat) Nat
  | _, pending, _, [], _, consumed, acc => ⟨.ok, pending, consumed, acc.reverse⟩
  | atTop, pending, back, b :: r, room, consumed, acc =>
    if atTop && room == 0 then ⟨.ok, pending, consumed, acc.reverse⟩
    else if b == 0 then
      if room == 0 then ⟨.part, pending, consumed, acc.reverse⟩
      else inGo true pending 0 r (room - 1) (consumed + 1) (0 :: acc)
    else if back == 0 && room == 0 then ⟨.part, pending, consumed, acc.reverse⟩
    else
      match classify (pending ++ [b]) with
      | .char c => inGo false [] 0 r (room - 1) (consumed + 1) (c :: acc)
      | .pref => inGo false (pending ++ [b]) (back + 1) r room (consumed + 1) acc
      | .invalid => ⟨.error, [], consumed - back, acc.reverse⟩

def utf8In : Converter (List Nat) Nat Nat where
  step := fun st inp w => inGo true st 0 inp w 0 []
  init := []
  isInit := fun st => st.isEmpty
  maxLength := 6
  cast := id

/-- `fcppt::narrow_locale(string, C.utf8)` (= `from_std_wstring_locale`) -/
def narrowLocale (s : List Nat) : Except Fault (Option (List Nat)) := codecvt utf8Out s

/-- `fcppt::widen_locale(string, C.utf8)` (= `to_std_wstring_locale`): `none` = `std::runtime_error` thrown by
`optional::to_exception` -/
def widenLocale (s : List Nat) : Except Fault (Option (List Nat)) := codecvt utf8In s

end Fcppt.C15
