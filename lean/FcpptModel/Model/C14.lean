import FcpptModel.Prelude.Fault
/-!
# C14 — model of `fcppt::math::vector`, `dim` and `matrix` arithmetic over exact integers

A math object `object<T, N, S>` / `object<T, R, C, S>` is its storage `S`; what every algorithm of the
library uses of a storage is `storage[Index]` for `Index < storage_size` (`detail/linear_access.hpp`,
`detail/index_at.hpp`).  `Storage n` below has the three storages that occur:

* `static`  — `detail::static_storage<T, N>` (an `fcppt::array::object<T, N>`),
* `rowView` — `matrix::detail::row_view<T, C, S>`: a reference to the matrix storage plus
  `offset_ = index * columns`; `operator[](i)` is `impl_[offset_ + i]` (`matrix/detail/row_view_impl.hpp`),
* `buffer`  — a view of `n` consecutive elements of a caller-owned buffer (the storage concept
  implemented by the harness: `storage_size`, `operator[]`), used to run the templates on a
  non-static matrix / dim storage.

Matrices are **row-major**: `matrix::init` maps the absolute index `Abs` to
`index<Abs / C, Abs % C>` (`matrix/detail/index_absolute.hpp`), and `at_r_c<R, C>` reads
`impl[R * columns + C]` through a row view.  Sizes are static (`Fin`), as in C++ where an
out-of-range static index is a `static_assert`; the run-time accessors `get_unsafe` have a
precondition and return `Except Fault`.

| definition                         | mirrors                                                                        |
|------------------------------------|--------------------------------------------------------------------------------|
| `Storage.get`                      | `detail/linear_access.hpp`, `detail/index_at.hpp`, `matrix/detail/row_view_impl.hpp` |
| `toArray`, `fromArray`, `init`     | `math/to_array.hpp`, `math/from_array.hpp`, `detail/init.hpp`                  |
| `fold`, `allOf`                    | `fcppt::algorithm::fold` / `all_of` over `int_range_count<N>`                  |
| `map`, `binaryMap`                 | `detail/map.hpp`, `detail/binary_map.hpp`                                      |
| `atI`, `getUnsafe`, `x y z w`       | `detail/checked_access.hpp`, `vector/at.hpp`, `vector/object_impl.hpp`         |
| `neg add sub mul smulR smulL`      | `vector/arithmetic.hpp`, `dim/arithmetic.hpp` (the two files are the same text) |
| `div`, `sequence`, `divV`, `divS`  | `math/div.hpp`, `detail/sequence.hpp`, `operator/` of vector/dim               |
| `dot`, `lengthSquare`, `cross`     | `vector/dot.hpp`, `vector/length_square.hpp`, `vector/cross.hpp`               |
| `narrowCast`, `pushBack`, `structureCast` | `detail/narrow_cast.hpp`, `detail/push_back.hpp`, `detail/structure_cast.hpp` |
| `null`, `fill`                     | `vector/null.hpp` + `detail/null_storage.hpp`, `detail/fill.hpp`               |
| `arrayEqual`, `lexLt`, `arrayLess`, `ne gt le ge` | `detail/array_equal.hpp`, `detail/array_less.hpp`, `vector/comparison.hpp`, `dim/comparison.hpp`, `matrix/comparison.hpp` |
| `bitStringsAux`, `bitStrings`      | `vector/detail/bit_strings.hpp`, `vector/bit_strings.hpp`                      |
| `Mat`, `Mat.init`                  | `matrix/object_decl.hpp`, `matrix/init.hpp`, `matrix/detail/index_absolute.hpp` |
| `Mat.atR`, `Mat.getUnsafe`, `Mat.atRC` | `matrix/at_r.hpp`, `matrix/object_impl.hpp` (`get_unsafe`), `matrix/at_r_c.hpp` |
| `Mat.ofRows`                       | `matrix/row.hpp`, `matrix/detail/init_storage.hpp` (the row constructor)       |
| `Mat.add sub mul smulR smulL`      | `matrix/arithmetic.hpp`                                                        |
| `Mat.mulVec`                       | `matrix/vector.hpp`                                                            |
| `Mat.transpose`                    | `matrix/transpose.hpp`                                                         |
| `deletedIndex`, `Mat.deleteRowAndColumn` | `matrix/detail/deleted_index.hpp`, `matrix/delete_row_and_column.hpp`    |
| `coeff`, `Mat.det`                 | `matrix/determinant.hpp`, `matrix/detail/determinant.hpp` (1×1 overload; generic overload: `N == 0` ⇒ 1, else Laplace along column 0) |
| `Mat.adjugate`, `Mat.inverse`      | `matrix/adjugate.hpp`, `matrix/inverse.hpp`                                    |
| `Mat.identity translation scaling` | `matrix/identity.hpp`, `matrix/translation.hpp`, `matrix/scaling.hpp`          |
| `Mat.structureCast`, `Mat.eq/ne`   | `matrix/structure_cast.hpp`, `matrix/comparison.hpp`                           |
-/
namespace Fcppt.C14

/-! ## storages -/

inductive Storage : Nat → Type where
  /-- `detail::static_storage<T, N>` -/
  | static {n : Nat} (a : Vector Int n) : Storage n
  /-- a view of `n` elements starting at `off` of a buffer of `len` elements -/
  | buffer {n : Nat} (len : Nat) (buf : Vector Int len) (off : Nat) (h : off + n ≤ len) : Storage n
  /-- `matrix::detail::row_view<T, C, S>{impl, index, columns}` with `offset_ = index * columns` -/
  | rowView {n m : Nat} (impl : Storage m) (offset : Nat) (h : offset + n ≤ m) : Storage n

/-- `storage[Index]` for `Index < storage_size` -/
def Storage.get : {n : Nat} → Storage n → Fin n → Int
  | _, .static a, i => a[i]
  | _, .buffer _ buf off h, i => buf[off + i.val]'(by have := i.isLt; omega)
  | _, .rowView impl offset h, i => impl.get ⟨offset + i.val, by have := i.isLt; omega⟩

/-- vectors and dims are their storage -/
abbrev Vec (n : Nat) := Storage n

/-- `fcppt::math::to_array(x)`: `array::init` of `linear_access<Index>(x.storage())` -/
def toArray {n : Nat} (s : Storage n) : Vector Int n := Vector.ofFn s.get

/-- `fcppt::math::from_array<Dest>(a)`: `Dest{storage_type{a}}`, `Dest` has static storage -/
def fromArray {n : Nat} (a : Vector Int n) : Storage n := .static a

/-- `fcppt::math::detail::init<Result>(f)`: `from_array(array::init(f))` -/
def init {n : Nat} (f : Fin n → Int) : Storage n := fromArray (Vector.ofFn f)

/-- `fcppt::algorithm::fold(int_range_count<N>{}, state, f)` -/
def fold {α : Type} {n : Nat} (state : α) (f : Fin n → α → α) : α := Fin.foldl n (fun s i => f i s) state

/-- `fcppt::algorithm::all_of(int_range_count<N>{}, f)` -/
def allOf {n : Nat} (f : Fin n → Bool) : Bool := (List.finRange n).all f

/-- `detail::map<Dest>(source, f)`: `from_array(array::map(to_array(source), f))` -/
def map {n : Nat} (f : Int → Int) (s : Storage n) : Storage n :=
  let a := toArray s
  fromArray (Vector.ofFn fun i => f a[i])

/-- `detail::binary_map<Dest>(s1, s2, f)`: `from_array(array::apply(f, to_array(s1), to_array(s2)))` -/
def binaryMap {n : Nat} (f : Int → Int → Int) (s1 s2 : Storage n) : Storage n :=
  let a1 := toArray s1
  let a2 := toArray s2
  fromArray (Vector.ofFn fun i => f a1[i] a2[i])

/-! ## element access -/

/-- `vector::at<Index>(v)` / `detail::checked_access<Index>(v)`: `static_assert(Index < N)`, then `get_unsafe(Index)` -/
def atI {n : Nat} (v : Vec n) (i : Fin n) : Int := v.get i

/-- `v.get_unsafe(i)` with a run-time index: precondition `i < N` -/
def getUnsafe {n : Nat} (v : Vec n) (i : Nat) : M Int :=
  if h : i < n then .ok (v.get ⟨i, h⟩) else .error .oob

def x {n : Nat} (v : Vec n) (h : 0 < n) : Int := atI v ⟨0, h⟩
def y {n : Nat} (v : Vec n) (h : 1 < n) : Int := atI v ⟨1, h⟩
def z {n : Nat} (v : Vec n) (h : 2 < n) : Int := atI v ⟨2, h⟩
def w {n : Nat} (v : Vec n) (h : 3 < n) : Int := atI v ⟨3, h⟩

/-! ## vector / dim arithmetic (`vector/arithmetic.hpp` = `dim/arithmetic.hpp`) -/

def neg {n : Nat} (v : Vec n) : Vec n := map (fun e => -e) v
def add {n : Nat} (l r : Vec n) : Vec n := binaryMap (fun a b => a + b) l r
def sub {n : Nat} (l r : Vec n) : Vec n := binaryMap (fun a b => a - b) l r
def mul {n : Nat} (l r : Vec n) : Vec n := binaryMap (fun a b => a * b) l r
/-- `vector * scalar` -/
def smulR {n : Nat} (l : Vec n) (r : Int) : Vec n := map (fun e => e * r) l
/-- `scalar * vector` -/
def smulL {n : Nat} (l : Int) (r : Vec n) : Vec n := map (fun e => l * e) r

/-- `fcppt::math::div(a, b)`: nothing for a zero divisor, otherwise C++ `/` (truncating) -/
def div (a b : Int) : Option Int := if b = 0 then none else some (Int.tdiv a b)

/-- `detail::sequence<Dest>(source)`: `optional::sequence` over `to_array(source)`:
    nothing as soon as one element is nothing -/
def sequence {n : Nat} (a : Vector (Option Int) n) : Option (Vec n) :=
  if h : ∀ i : Fin n, (a[i]).isSome then some (fromArray (Vector.ofFn fun i => (a[i]).get (h i))) else none

/-- `vector / vector` -/
def divV {n : Nat} (l r : Vec n) : Option (Vec n) :=
  let a1 := toArray l
  let a2 := toArray r
  sequence (Vector.ofFn fun i => div a1[i] a2[i])

/-- `vector / scalar` -/
def divS {n : Nat} (l : Vec n) (r : Int) : Option (Vec n) :=
  let a := toArray l
  sequence (Vector.ofFn fun i => div a[i] r)

/-- `vector::dot(l, r)`: `fold(int_range_count<N>, 0, sum + at<Index>(l) * at<Index>(r))` -/
def dot {n : Nat} (l r : Vec n) : Int := fold (n := n) 0 fun i sum => sum + atI l i * atI r i

/-- `vector::length_square(v)`: `dot(v, v)` -/
def lengthSquare {n : Nat} (v : Vec n) : Int := dot v v

/-- `vector::cross(l, r)` -/
def cross (l r : Vec 3) : Vec 3 :=
  let lx := x l (by decide); let ly := y l (by decide); let lz := z l (by decide)
  let rx := x r (by decide); let ry := y r (by decide); let rz := z r (by decide)
  fromArray #v[ly * rz - lz * ry, lz * rx - lx * rz, lx * ry - ly * rx]

/-- `detail::narrow_cast<Dest>(src)`: `static_assert(Dest::dim < Src::dim)`, `init<Dest>(checked_access<Index>(src))` -/
def narrowCast {n m : Nat} (h : m < n) (src : Vec n) : Vec m :=
  init fun i => atI src ⟨i.val, Nat.lt_trans i.isLt h⟩

/-- `detail::push_back<Dest>(src, value)`: `from_array(array::push_back(array::init(checked_access<Index>(src)), value))` -/
def pushBack {n : Nat} (src : Vec n) (value : Int) : Vec (n + 1) :=
  let a := Vector.ofFn fun i : Fin n => atI src i
  fromArray (a.push value)

/-- `detail::structure_cast<Dest, Conv>(src)`: `init<Dest>(Conv(src.storage()[index]))` -/
def structureCast {n : Nat} (conv : Int → Int) (src : Storage n) : Storage n :=
  init fun i => conv (src.get i)

/-- `vector::null<V>()`: `detail::null_storage`: `init_storage(literal(0))` -/
def null (n : Nat) : Vec n := fromArray (Vector.ofFn fun _ => 0)

/-- `detail::fill<Ret>(value)`: `init<Ret>([value](size_type) { return value; })` -/
def fill (n : Nat) (value : Int) : Vec n := init fun _ => value

/-! ## comparison -/

/-- `detail::array_equal(a, b)`: `all_of(int_range_count<storage_size>, a.storage()[Index] == b.storage()[Index])` -/
def arrayEqual {n : Nat} (a b : Storage n) : Bool := allOf (n := n) fun i => a.get i == b.get i

def ne {n : Nat} (a b : Storage n) : Bool := !arrayEqual a b

/-- `std::lexicographical_compare(first1, last1, first2, last2)` -/
def lexLt : List Int → List Int → Bool
  | [], [] => false
  | [], _ :: _ => true
  | _ :: _, [] => false
  | x :: xs, y :: ys => if x < y then true else if y < x then false else lexLt xs ys

/-- `detail::array_less(a, b)`: `lexicographical_compare` over `to_array(a)`, `to_array(b)` -/
def arrayLess {n : Nat} (a b : Storage n) : Bool := lexLt (toArray a).toList (toArray b).toList

/-- `a > b` is `b < a`; `a <= b` is `!(b < a)`; `a >= b` is `!(a < b)` -/
def gt {n : Nat} (a b : Storage n) : Bool := arrayLess b a
def le {n : Nat} (a b : Storage n) : Bool := !arrayLess b a
def ge {n : Nat} (a b : Storage n) : Bool := !arrayLess a b

/-! ## bit strings -/

/-- `at<N>(v) = value` on a by-value static vector -/
def setAt {n : Nat} (v : Vector Int n) (i : Fin n) (value : Int) : Vector Int n := v.set i.val value i.isLt

/-- `vector::detail::bit_strings<N>(it, v)`: component `N` := 0, recurse (or emit if `N == 0`), component `N` := 1,
    recurse (or emit).  The output iterator is the list of emitted vectors. -/
def bitStringsAux {n : Nat} : (k : Nat) → k < n → Vector Int n → List (Vector Int n)
  | 0, h, v =>
    let v0 := setAt v ⟨0, h⟩ 0
    let v1 := setAt v0 ⟨0, h⟩ 1
    [v0, v1]
  | k + 1, h, v =>
    let v0 := setAt v ⟨k + 1, h⟩ 0
    let out0 := bitStringsAux k (Nat.lt_of_succ_lt h) v0
    let v1 := setAt v0 ⟨k + 1, h⟩ 1
    out0 ++ bitStringsAux k (Nat.lt_of_succ_lt h) v1

/-- `vector::bit_strings<T, N>()` for `N = n + 1` (`N - 1` is the first template argument; `N = 0` does not compile) -/
def bitStrings (n : Nat) : List (Vec (n + 1)) :=
  (bitStringsAux n (Nat.lt_succ_self n) (Vector.ofFn fun _ => 0)).map fromArray

/-! ## matrices -/

/-- `matrix::object<T, R, C, S>`: `R * C` elements, row-major -/
structure Mat (r c : Nat) where
  s : Storage (r * c)

theorem index_lt {r c : Nat} (i : Fin r) (j : Fin c) : i.val * c + j.val < r * c :=
  calc i.val * c + j.val < i.val * c + c := Nat.add_lt_add_left j.isLt _
    _ = (i.val + 1) * c := (Nat.succ_mul _ _).symm
    _ ≤ r * c := Nat.mul_le_mul_right c i.isLt

theorem abs_row_lt {r c : Nat} (a : Fin (r * c)) : a.val / c < r :=
  Nat.div_lt_of_lt_mul (Nat.mul_comm r c ▸ a.isLt)

theorem abs_col_lt {r c : Nat} (a : Fin (r * c)) : a.val % c < c :=
  Nat.mod_lt _ (Nat.pos_of_ne_zero fun h => by have := a.isLt; simp [h] at this)

/-- `matrix::init<Matrix>(f)`: `detail::init` over the absolute index, `f(index_absolute<columns, Abs>)`
    with `index_absolute<C, Abs> = index<Abs / C, Abs % C>` -/
def Mat.init {r c : Nat} (f : Fin r → Fin c → Int) : Mat r c :=
  ⟨C14.init fun a => f ⟨a.val / c, abs_row_lt a⟩ ⟨a.val % c, abs_col_lt a⟩⟩

theorem row_le {r c : Nat} (i : Fin r) : i.val * c + c ≤ r * c :=
  calc i.val * c + c = (i.val + 1) * c := (Nat.succ_mul _ _).symm
    _ ≤ r * c := Nat.mul_le_mul_right c i.isLt

/-- `matrix::at_r<R>(m)`: `checked_access<R>` → `m.get_unsafe(R)` → `row_view{storage, R, columns()}`,
    `offset_ = R * columns` -/
def Mat.atR {r c : Nat} (m : Mat r c) (i : Fin r) : Vec c := .rowView m.s (i.val * c) (row_le i)

/-- `m.get_unsafe(j)` with a run-time row index: precondition `j < R` -/
def Mat.getUnsafe {r c : Nat} (m : Mat r c) (j : Nat) : M (Vec c) :=
  if h : j < r then .ok (m.atR ⟨j, h⟩) else .error .oob

/-- `matrix::at_r_c<R, C>(m)`: `vector::at<C>(at_r<R>(m))`, i.e. `impl[R * columns + C]` -/
def Mat.atRC {r c : Nat} (m : Mat r c) (i : Fin r) (j : Fin c) : Int := atI (m.atR i) j

/-- `matrix::row(a, b, …)` builds a `row_type` (a static vector); the row constructor
    `object(rows…)` is `init_storage`: element `Abs` is `checked_access<Abs % C>(get<Abs / C>(rows))` -/
def Mat.ofRows {r c : Nat} (rows : Fin r → Vec c) : Mat r c :=
  ⟨fromArray (Vector.ofFn fun a : Fin (r * c) => atI (rows ⟨a.val / c, abs_row_lt a⟩) ⟨a.val % c, abs_col_lt a⟩)⟩

/-- `matrix::row(…)` -/
def row {c : Nat} (a : Vector Int c) : Vec c := fromArray a

def Mat.add {r c : Nat} (l rt : Mat r c) : Mat r c := ⟨binaryMap (fun a b => a + b) l.s rt.s⟩
def Mat.sub {r c : Nat} (l rt : Mat r c) : Mat r c := ⟨binaryMap (fun a b => a - b) l.s rt.s⟩
/-- `matrix * scalar` -/
def Mat.smulR {r c : Nat} (l : Mat r c) (k : Int) : Mat r c := ⟨map (fun e => e * k) l.s⟩
/-- `scalar * matrix` -/
def Mat.smulL {r c : Nat} (k : Int) (rt : Mat r c) : Mat r c := ⟨map (fun e => k * e) rt.s⟩

/-- `matrix * matrix`: `init<result>(fold(int_range_count<N>, 0, sum + at_r_c<Row, Pos>(l) * at_r_c<Pos, Col>(r)))` -/
def Mat.mul {m n p : Nat} (l : Mat m n) (rt : Mat n p) : Mat m p :=
  Mat.init fun row col => fold (n := n) 0 fun pos sum => sum + l.atRC row pos * rt.atRC pos col

/-- `matrix * vector`: `vector::init<result>(fold(int_range_count<C>, 0, sum + at_r_c<Row, Col>(l) * at<Col>(r)))` -/
def Mat.mulVec {r c : Nat} (l : Mat r c) (v : Vec c) : Vec r :=
  C14.init fun row => fold (n := c) 0 fun col sum => sum + l.atRC row col * atI v col

/-- `matrix::transpose(m)`: `init<static_<T, C, R>>(at_r_c<Col, Row>(m))` -/
def Mat.transpose {r c : Nat} (m : Mat r c) : Mat c r := Mat.init fun row col => m.atRC col row

/-- `matrix::detail::deleted_index(cur, rem)` -/
def deletedIndex (cur rem : Nat) : Nat := if cur ≥ rem then cur + 1 else cur

theorem deletedIndex_lt {cur n : Nat} (rem : Nat) (h : cur < n) : deletedIndex cur rem < n + 1 := by
  unfold deletedIndex; split <;> omega

/-- `matrix::delete_row_and_column<DR, DC>(m)`: `init<static_<T, R - 1, C - 1>>(at_r_c<deleted_index(Row, DR),
    deleted_index(Col, DC)>(m))` -/
def Mat.deleteRowAndColumn {r c : Nat} (dr dc : Nat) (m : Mat (r + 1) (c + 1)) : Mat r c :=
  Mat.init fun row col =>
    m.atRC ⟨deletedIndex row.val dr, deletedIndex_lt dr row.isLt⟩ ⟨deletedIndex col.val dc, deletedIndex_lt dc col.isLt⟩

/-- `Row % 2 == 0 ? 1 : -1` -/
def coeff (k : Nat) : Int := if k % 2 = 0 then 1 else -1

/-- `matrix::determinant(m)` = `detail::determinant(m)`: the 1×1 overload returns `at_r_c<0, 0>`; the generic
    overload returns 1 for `N == 0` and otherwise
    `fold(int_range_count<N>, 0, sum + coeff * at_r_c<Row, 0>(m) * determinant(delete_row_and_column<Row, 0>(m)))` -/
def Mat.det : {n : Nat} → Mat n n → Int
  | 0, _ => 1
  | 1, m => m.atRC 0 0
  | n + 2, m =>
    fold (n := n + 2) 0 fun row sum =>
      sum + coeff row.val * m.atRC row 0 * Mat.det (m.deleteRowAndColumn row.val 0)

/-- `matrix::adjugate(m)`: `init<static_<T, N, N>>(coeff(R + C) * determinant(delete_row_and_column<C, R>(m)))` -/
def Mat.adjugate : {n : Nat} → Mat n n → Mat n n
  | 0, _ => Mat.init fun rw _ => rw.elim0
  | _ + 1, m => Mat.init fun rw cl => coeff (rw.val + cl.val) * (m.deleteRowAndColumn cl.val rw.val).det

/-- `matrix::inverse(m)`: `(literal(1) / det) * adjugate(m)` — integer division, undefined for `det == 0` -/
def Mat.inverse {n : Nat} (m : Mat n n) : M (Mat n n) :=
  let det := m.det
  if det = 0 then .error .divZero else .ok (Mat.smulL (Int.tdiv 1 det) m.adjugate)

/-- `matrix::identity<M>()`: `init(Row == Col ? 1 : 0)` -/
def Mat.identity (n : Nat) : Mat n n := Mat.init fun rw cl => if rw.val = cl.val then 1 else 0

/-- `matrix::translation(x, y, z)` -/
def Mat.translation (tx ty tz : Int) : Mat 4 4 :=
  let zero : Int := 0
  let one : Int := 1
  Mat.ofRows fun i =>
    match i with
    | 0 => row #v[one, zero, zero, tx]
    | 1 => row #v[zero, one, zero, ty]
    | 2 => row #v[zero, zero, one, tz]
    | 3 => row #v[zero, zero, zero, one]

/-- `matrix::translation(vec)`: `translation(vec.x(), vec.y(), vec.z())` -/
def Mat.translationV (v : Vec 3) : Mat 4 4 :=
  Mat.translation (x v (by decide)) (y v (by decide)) (z v (by decide))

/-- `matrix::scaling(x, y, z)` -/
def Mat.scaling (sx sy sz : Int) : Mat 4 4 :=
  let zero : Int := 0
  let one : Int := 1
  Mat.ofRows fun i =>
    match i with
    | 0 => row #v[sx, zero, zero, zero]
    | 1 => row #v[zero, sy, zero, zero]
    | 2 => row #v[zero, zero, sz, zero]
    | 3 => row #v[zero, zero, zero, one]

/-- `matrix::scaling(vec)` -/
def Mat.scalingV (v : Vec 3) : Mat 4 4 :=
  Mat.scaling (x v (by decide)) (y v (by decide)) (z v (by decide))

/-- `matrix::structure_cast<Dest, Conv>(m)` -/
def Mat.structureCast {r c : Nat} (conv : Int → Int) (m : Mat r c) : Mat r c := ⟨C14.structureCast conv m.s⟩

/-- `matrix::operator==` / `!=` -/
def Mat.eq {r c : Nat} (a b : Mat r c) : Bool := arrayEqual a.s b.s
def Mat.ne {r c : Nat} (a b : Mat r c) : Bool := !Mat.eq a b

end Fcppt.C14
