import FcpptModel.Prelude.Fault
/-!
# C07 — executable model of `fcppt::container::raw_vector::object` and `fcppt::container::buffer::object`

Two layers:

* **memory**: a heap of allocations (`Heap`), every allocation a block of `size` cells, a cell is
  `none` (uninitialised) or `some x`.  `read`/`write` are bounds- and initialisation-checked
  (`Fault.oob` outside the allocation or on a freed/never allocated block, `Fault.uninit`), `free`
  detects double frees (`Fault.doubleFree`) and a wrong size passed to `deallocate`.  The heap *is*
  the allocator ledger: `liveCount` = allocations minus deallocations.
* **objects**: `RV` (`first_`, `last_`, `cap_` as block id + two offsets) and `Buf`
  (`first_`, `read_end_`, `write_end_`, `cap_`), every member function mirrored path by path.

What mirrors what (all under /repo/libs/core/include/fcppt/container/):

| here | C++ |
|---|---|
| `copyFwd` | `std::uninitialized_copy` / `std::copy` (first element first) |
| `copyBwd` | `std::copy_backward` (last element first) |
| `fill`, `copyIn` | `std::uninitialized_fill`, `std::uninitialized_copy` from a foreign range |
| `deallocate` | raw_vector/object_impl.hpp `deallocate` (`first_ != nullptr` test, size = `capacity()`) |
| `insertGen` | object_impl.hpp `insert(pos,T const&)`, `insert(pos,n,T const&)`, forward `insert_impl`: the three C++ bodies have the same shape (reallocating branch: allocate, copy prefix if !empty, write the middle, copy suffix if !empty, deallocate, set_pointers; in-place branch: copy the value, copy_backward if !empty, write the middle, bump last_); the middle part is the parameter `Mid` |
| `Mid.resolve` | `T const value(_value);` of the in-place branches (fix b34f226); `copyFirst := false` is the code before the fix |
| `insertInput` | input-iterator `insert_impl` (loop of single inserts, position = next(returned)) |
| `insertRange` | `insert(pos, In, In)` (`_left != _right` test, dispatch on the iterator category) |
| `erase1`, `eraseR` | `erase(position)`, `erase(first,last)` (returns `_left`, fix dc3c09a) |
| `reallocate`, `reserve`, `shrinkToFit`, `resize`, `pushBack`, `popBack`, `clear` | the members of the same name |
| `RV.swap`, `moveCtor`, `moveAssign` | `swap`, `object(object&&)` (`impl(impl&&)` + `reset_pointers`), `operator=(object&&)` (= swap) |
| `Buf.*` | buffer/object_impl.hpp; `appendFrom`, `appendFromOpt`, `readFrom`, `toRawVector` the free functions of the same name |
| `readChars` | libs/core/src/io/read_chars.cpp |
| `equalV`, `lessV`, `neV`, `gtV`, `geV`, `leV` | raw_vector/comparison.hpp (the four derived operators exactly as defined there) |
| `RV.refOff`, `readRef`, `writeRef` | `operator[]` (= `*(begin() + i)`), `front()` (= `*begin()`), `back()` (= `*std::prev(end())`), `data()[i]`, const and non-const |
| `Mid.self`, `insertSelf` | `insert(pos, begin() + a, begin() + b)`: forward `insert_impl` with `_left`/`_right` pointing into the vector's own block |
| `readFromOpt`, `Buf.index` | buffer/read_from_opt.hpp, `buffer::object::operator[]` |
| `DynArr.*`, `dynRoundTrip` | dynamic_array_impl.hpp |

The growth policy `new_capacity` is the parameter `g` (`g newSize oldCap`); the theorems only assume
`newSize ≤ g newSize oldCap`.  The driver instantiates `g` with `growth` (= the code: `max n (2*cap)`).
-/
namespace Fcppt.C07

/-! ## memory -/

structure Block where
  size : Nat
  cell : Nat → Option Int

/-- `slot i = some b`: allocation `i` is live.  `none`: freed, or (for `i ≥ next`) never allocated. -/
structure Heap where
  next : Nat
  slot : Nat → Option Block

def Heap.empty : Heap := ⟨0, fun _ => none⟩

def Heap.set (h : Heap) (id : Nat) (b : Option Block) : Heap :=
  { next := h.next, slot := fun i => if i = id then b else h.slot i }

/-- `alloc_.allocate(n)`: a fresh block of `n` uninitialised cells (also for `n = 0`). -/
def Heap.alloc (h : Heap) (n : Nat) : Heap × Nat :=
  ({ next := h.next + 1, slot := fun i => if i = h.next then some ⟨n, fun _ => none⟩ else h.slot i }, h.next)

/-- `alloc_.deallocate(p, n)` -/
def Heap.free (h : Heap) (id n : Nat) : M Heap :=
  match h.slot id with
  | none => .error .doubleFree
  | some b => if b.size = n then .ok (h.set id none) else .error .oob

def Heap.read (h : Heap) (id off : Nat) : M Int :=
  match h.slot id with
  | none => .error .oob
  | some b =>
    if off < b.size then
      match b.cell off with
      | some x => .ok x
      | none => .error .uninit
    else .error .oob

def Heap.write (h : Heap) (id off : Nat) (x : Int) : M Heap :=
  match h.slot id with
  | none => .error .oob
  | some b =>
    if off < b.size then .ok (h.set id (some ⟨b.size, fun j => if j = off then some x else b.cell j⟩))
    else .error .oob

/-- number of live allocations (allocations minus deallocations) -/
def Heap.liveCount (h : Heap) : Nat :=
  ((List.range h.next).filter (fun i => (h.slot i).isSome)).length

/-- first element first: `std::uninitialized_copy`, `std::copy` -/
def copyFwd (h : Heap) (sb s db d : Nat) : Nat → M Heap
  | 0 => .ok h
  | n + 1 => do
    let x ← h.read sb s
    let h ← h.write db d x
    copyFwd h sb (s + 1) db (d + 1) n

/-- last element first: `std::copy_backward` of the `n` cells starting at `s` to the `n` cells starting at `d` -/
def copyBwd (h : Heap) (sb s db d : Nat) : Nat → M Heap
  | 0 => .ok h
  | n + 1 => do
    let x ← h.read sb (s + n)
    let h ← h.write db (d + n) x
    copyBwd h sb s db d n

def fill (h : Heap) (db d : Nat) (x : Int) : Nat → M Heap
  | 0 => .ok h
  | n + 1 => do
    let h ← h.write db d x
    fill h db (d + 1) x n

def copyIn (h : Heap) (db d : Nat) : List Int → M Heap
  | [] => .ok h
  | x :: xs => do
    let h ← h.write db d x
    copyIn h db (d + 1) xs

/-- reads the cells `[s, s+n)` of a block (iteration over `[begin, end)`) -/
def readRange (h : Heap) (b s : Nat) : Nat → M (List Int)
  | 0 => .ok []
  | n + 1 => do
    let x ← h.read b s
    let xs ← readRange h b (s + 1) n
    pure (x :: xs)

/-! ## raw_vector -/

/-- `first_` = start of block `base` (`none` = `nullptr`), `last_ = first_ + last`, `cap_ = first_ + cap` -/
structure RV where
  base : Option Nat
  last : Nat
  cap : Nat

def RV.null : RV := ⟨none, 0, 0⟩

/-- dereferencing `first_` -/
def RV.ptr (v : RV) : M Nat :=
  match v.base with
  | some b => .ok b
  | none => .error .oob

/-- the code's `new_capacity`: `std::max(_new_size, capacity() * 2U)` -/
def growth (newSize cap : Nat) : Nat := max newSize (cap * 2)

def deallocate (h : Heap) (v : RV) : M Heap :=
  match v.base with
  | none => .ok h
  | some b => h.free b v.cap

/-- iteration `begin() .. end()` -/
def toList (h : Heap) (v : RV) : M (List Int) :=
  match v.base with
  | none => if v.last = 0 then .ok [] else .error .oob
  | some b => readRange h b 0 v.last

/-- an argument `T const &`: a value living elsewhere, or a reference to element `i` of the vector itself -/
inductive Src where
  | val (x : Int)
  | slot (i : Nat)

def readSrc (h : Heap) (v : RV) : Src → M Int
  | .val x => .ok x
  | .slot i =>
    match v.base with
    | some b => if i < v.last then h.read b i else .error .oob
    | none => .error .oob

/-- what an insert puts between prefix and suffix -/
inductive Mid where
  | one (s : Src)               -- `*p = _value`
  | rep (n : Nat) (s : Src)     -- `std::uninitialized_fill(p, p + n, _value)`
  | list (xs : List Int)        -- `std::uninitialized_copy(_left, _right, p)`
  | self (a b : Nat)            -- the same with `[_left, _right)` = `[begin() + a, begin() + b)` of the vector itself

def Mid.count : Mid → Nat
  | .one _ => 1
  | .rep n _ => n
  | .list xs => xs.length
  | .self a b => b - a

/-- `T const value(_value);` — read the referenced element now -/
def Mid.resolve (h : Heap) (v : RV) : Mid → M Mid
  | .one s => do let x ← readSrc h v s; pure (.one (.val x))
  | .rep n s => do let x ← readSrc h v s; pure (.rep n (.val x))
  | .list xs => pure (.list xs)
  | .self a b => pure (.self a b)     -- the range overload copies nothing beforehand

/-- writes the middle part at cell `d` of block `db`; a reference argument is read from the heap as it is now -/
def writeMid (h : Heap) (v : RV) (db d : Nat) : Mid → M Heap
  | .one s => do let x ← readSrc h v s; h.write db d x
  | .rep n s => do let x ← readSrc h v s; fill h db d x n
  | .list xs => copyIn h db d xs
  | .self a b => do
    -- `_left`, `_right` still point into the vector's (old) block, which is read cell by cell as it is now;
    -- source and destination of `std::uninitialized_copy` must not overlap
    let vb ← v.ptr
    if vb = db ∧ ¬ (b ≤ d ∨ d + (b - a) ≤ a) then .error .oob else
    copyFwd h vb a db d (b - a)

def insertGen (g : Nat → Nat → Nat) (copyFirst : Bool) (h : Heap) (v : RV) (pos : Nat) (m : Mid) : M (Heap × RV) :=
  if pos > v.last then .error .oob else
  let n := m.count
  let newSize := v.last + n
  if newSize > v.cap then do
    let newCap := g newSize v.cap
    let a := h.alloc newCap
    let nb := a.2
    let h1 ← (if v.last ≠ 0 then do let b ← v.ptr; copyFwd a.1 b 0 nb 0 pos else pure a.1)
    let h2 ← writeMid h1 v nb pos m
    let h3 ← (if v.last ≠ 0 then do let b ← v.ptr; copyFwd h2 b pos nb (pos + n) (v.last - pos) else pure h2)
    let h4 ← deallocate h3 v
    pure (h4, ⟨some nb, newSize, newCap⟩)
  else do
    let m' ← (if copyFirst then m.resolve h v else pure m)
    let h1 ← (if v.last ≠ 0 then do let b ← v.ptr; copyBwd h b pos b (pos + n) (v.last - pos) else pure h)
    let h2 ←
      (match v.base with
       | some b => writeMid h1 v b pos m'
       | none => if n = 0 then pure h1 else .error .oob)
    pure (h2, ⟨v.base, v.last + n, v.cap⟩)

/-- `insert(position, value)`; returns the offset of the returned iterator -/
def insert1 (g : Nat → Nat → Nat) (h : Heap) (v : RV) (pos : Nat) (s : Src) : M (Heap × RV × Nat) := do
  let r ← insertGen g true h v pos (.one s)
  pure (r.1, r.2, pos)

def insertN (g : Nat → Nat → Nat) (h : Heap) (v : RV) (pos n : Nat) (s : Src) : M (Heap × RV) :=
  insertGen g true h v pos (.rep n s)

/-- input iterators: one `insert` per element, `_position = std::next(returned iterator)` -/
def insertInput (g : Nat → Nat → Nat) (h : Heap) (v : RV) (pos : Nat) : List Int → M (Heap × RV)
  | [] => pure (h, v)
  | x :: xs => do
    let r ← insert1 g h v pos (.val x)
    insertInput g r.1 r.2.1 (r.2.2 + 1) xs

def insertRange (g : Nat → Nat → Nat) (h : Heap) (v : RV) (pos : Nat) (xs : List Int) (fwd : Bool) : M (Heap × RV) :=
  if pos > v.last then .error .oob else
  if xs.isEmpty then pure (h, v)
  else if fwd then insertGen g true h v pos (.list xs)
  else insertInput g h v pos xs

/-- `insert(position, begin() + a, begin() + b)`: a forward range of the vector itself (std::vector forbids this; here the
reallocating branch reads the old block before it is freed, the in-place branch reads the block *after* the shift) -/
def insertSelf (g : Nat → Nat → Nat) (h : Heap) (v : RV) (pos a b : Nat) : M (Heap × RV) :=
  if ¬ (a ≤ b ∧ b ≤ v.last) then .error .oob else
  if pos > v.last then .error .oob else
  if a = b then pure (h, v)
  else insertGen g true h v pos (.self a b)

def erase1 (h : Heap) (v : RV) (pos : Nat) : M (Heap × RV × Nat) :=
  if pos ≥ v.last then .error .oob else do
  let b ← v.ptr
  let h1 ← copyFwd h b (pos + 1) b pos (v.last - (pos + 1))
  pure (h1, ⟨v.base, v.last - 1, v.cap⟩, pos)

def eraseR (h : Heap) (v : RV) (l r : Nat) : M (Heap × RV × Nat) :=
  if ¬ (l ≤ r ∧ r ≤ v.last) then .error .oob else
  if l ≠ r then do
    let b ← v.ptr
    let h1 ← copyFwd h b r b l (v.last - r)
    pure (h1, ⟨v.base, v.last - (r - l), v.cap⟩, l)
  else pure (h, v, l)

def reallocate (h : Heap) (v : RV) (newCap : Nat) : M (Heap × RV) := do
  let oldSize := v.last
  let a := h.alloc newCap
  let h1 ← (if v.last ≠ 0 then do let b ← v.ptr; copyFwd a.1 b 0 a.2 0 v.last else pure a.1)
  let h2 ← deallocate h1 v
  pure (h2, ⟨some a.2, oldSize, newCap⟩)

def reserve (g : Nat → Nat → Nat) (h : Heap) (v : RV) (n : Nat) : M (Heap × RV) :=
  if n ≤ v.cap then pure (h, v) else reallocate h v (g n v.cap)

def shrinkToFit (h : Heap) (v : RV) : M (Heap × RV) := reallocate h v v.last

def resize (g : Nat → Nat → Nat) (h : Heap) (v : RV) (n : Nat) (s : Src) : M (Heap × RV) :=
  if n > v.last then insertN g h v v.last (n - v.last) s
  else if n < v.last then do let r ← eraseR h v n v.last; pure (r.1, r.2.1)
  else pure (h, v)

def pushBack (g : Nat → Nat → Nat) (h : Heap) (v : RV) (s : Src) : M (Heap × RV) := do
  let r ← insert1 g h v v.last s
  pure (r.1, r.2.1)

/-- `erase(std::prev(end()))` -/
def popBack (h : Heap) (v : RV) : M (Heap × RV) :=
  if v.last = 0 then .error .oob else do
  let r ← erase1 h v (v.last - 1)
  pure (r.1, r.2.1)

def clear (h : Heap) (v : RV) : M (Heap × RV) := do
  let r ← eraseR h v 0 v.last
  pure (r.1, r.2.1)

/-- an element access that returns a reference: `v[i]` (= `*(begin() + i)`, also `data()[i]`), `front()` (= `*begin()`),
`back()` (= `*std::prev(end())`) -/
inductive Acc where
  | index (i : Nat) | front | back

/-- offset (from `first_`) of the referenced element; the precondition of each accessor is explicit -/
def RV.refOff (v : RV) : Acc → M Nat
  | .index i => if i < v.last then .ok i else .error .oob
  | .front => if v.last ≠ 0 then .ok 0 else .error .oob
  | .back => if v.last ≠ 0 then .ok (v.last - 1) else .error .oob

/-- reading through the returned reference -/
def readRef (h : Heap) (v : RV) (a : Acc) : M Int := do
  let o ← v.refOff a
  let b ← v.ptr
  h.read b o

/-- storing through the returned (non-const) reference -/
def writeRef (h : Heap) (v : RV) (a : Acc) (x : Int) : M Heap := do
  let o ← v.refOff a
  let b ← v.ptr
  h.write b o x

/-- single-vector operations -/
inductive VOp where
  | pushBack (s : Src) | popBack
  | insert1 (pos : Nat) (s : Src) | insertN (pos n : Nat) (s : Src) | insertRange (pos : Nat) (xs : List Int) (fwd : Bool)
  | erase1 (pos : Nat) | eraseR (l r : Nat)
  | resize (n : Nat) (s : Src) | reserve (n : Nat) | shrink | clear
  | assign (a : Acc) (x : Int)            -- `v[i] = x`, `v.front() = x`, `v.back() = x`
  | insertSelf (pos a b : Nat)            -- `v.insert(v.begin() + pos, v.begin() + a, v.begin() + b)`

def vstep (g : Nat → Nat → Nat) (h : Heap) (v : RV) : VOp → M (Heap × RV × Option Nat)
  | .pushBack s => do let r ← pushBack g h v s; pure (r.1, r.2, none)
  | .popBack => do let r ← popBack h v; pure (r.1, r.2, none)
  | .insert1 pos s => do let r ← insert1 g h v pos s; pure (r.1, r.2.1, some r.2.2)
  | .insertN pos n s => do let r ← insertN g h v pos n s; pure (r.1, r.2, none)
  | .insertRange pos xs fwd => do let r ← insertRange g h v pos xs fwd; pure (r.1, r.2, none)
  | .erase1 pos => do let r ← erase1 h v pos; pure (r.1, r.2.1, some r.2.2)
  | .eraseR l r => do let x ← eraseR h v l r; pure (x.1, x.2.1, some x.2.2)
  | .resize n s => do let r ← resize g h v n s; pure (r.1, r.2, none)
  | .reserve n => do let r ← reserve g h v n; pure (r.1, r.2, none)
  | .shrink => do let r ← shrinkToFit h v; pure (r.1, r.2, none)
  | .clear => do let r ← clear h v; pure (r.1, r.2, none)
  | .assign a x => do let h1 ← writeRef h v a x; pure (h1, v, none)
  | .insertSelf pos a b => do let r ← insertSelf g h v pos a b; pure (r.1, r.2, none)

/-- constructors (all start from `impl_{alloc}` = null pointers) -/
inductive Ctor where
  | dflt | count (n : Nat) (x : Int) | range (xs : List Int) (fwd : Bool) | il (xs : List Int)

def construct (g : Nat → Nat → Nat) (h : Heap) : Ctor → M (Heap × RV)
  | .dflt => pure (h, RV.null)
  | .count n x => insertN g h RV.null 0 n (.val x)
  | .range xs fwd => insertRange g h RV.null 0 xs fwd
  | .il xs => insertRange g h RV.null 0 xs true

/-- `object(object&&)`: `impl(impl&&)` copies the pointers and resets the source's -/
def moveCtor (src : RV) : RV × RV := (⟨src.base, src.last, src.cap⟩, RV.null)

/-- `swap`: three `std::swap`s of pointers -/
def RV.swap (a b : RV) : RV × RV := (⟨b.base, b.last, b.cap⟩, ⟨a.base, a.last, a.cap⟩)

/-- comparison.hpp `operator==`: sizes, then elementwise -/
def equalV (h : Heap) (a b : RV) : M Bool := do
  if a.last ≠ b.last then pure false else
  let la ← toList h a
  let lb ← toList h b
  pure (la == lb)

def lexLt : List Int → List Int → Bool
  | _, [] => false
  | [], _ :: _ => true
  | x :: xs, y :: ys => if x < y then true else if y < x then false else lexLt xs ys

/-- comparison.hpp `operator<`: `std::lexicographical_compare` -/
def lessV (h : Heap) (a b : RV) : M Bool := do
  let la ← toList h a
  let lb ← toList h b
  pure (lexLt la lb)

/-- comparison.hpp `operator!=`: `!(_left == _right)` -/
def neV (h : Heap) (a b : RV) : M Bool := do let e ← equalV h a b; pure (!e)
/-- comparison.hpp `operator>`: `_right < _left` -/
def gtV (h : Heap) (a b : RV) : M Bool := lessV h b a
/-- comparison.hpp `operator>=`: `!(_left < _right)` -/
def geV (h : Heap) (a b : RV) : M Bool := do let l ← lessV h a b; pure (!l)
/-- comparison.hpp `operator<=`: `!(_left > _right)` -/
def leV (h : Heap) (a b : RV) : M Bool := do let l ← gtV h a b; pure (!l)

/-! ## buffer -/

/-- `first_` = start of block `base`; `read_end_`, `write_end_`, `cap_` as offsets -/
structure Buf where
  base : Option Nat
  readEnd : Nat
  writeEnd : Nat
  cap : Nat

def Buf.null : Buf := ⟨none, 0, 0, 0⟩

/-- `object(size_type)`: `impl_{_alloc, _alloc.allocate(_size), _size}` -/
def Buf.ctor (h : Heap) (n : Nat) : Heap × Buf :=
  let a := h.alloc n
  (a.1, ⟨some a.2, 0, n, n⟩)

def Buf.deallocate (h : Heap) (b : Buf) : M Heap :=
  match b.base with
  | none => .ok h
  | some id => h.free id b.cap

def Buf.readSize (b : Buf) : Nat := b.readEnd
def Buf.writeSize (b : Buf) : Nat := b.writeEnd - b.readEnd

def Buf.readArea (h : Heap) (b : Buf) : M (List Int) :=
  match b.base with
  | none => if b.readEnd = 0 then .ok [] else .error .oob
  | some id => readRange h id 0 b.readEnd

/-- the caller stores `xs` through `write_data()`; staying inside the write area is the caller's duty -/
def Buf.store (h : Heap) (b : Buf) (xs : List Int) : M Heap :=
  if b.readEnd + xs.length > b.writeEnd then .error .oob else
  match b.base with
  | some id => copyIn h id b.readEnd xs
  | none => if xs.isEmpty then .ok h else .error .oob

/-- `written(sz)`: `read_end_ += sz`; the cells must have been written (checked here so that the read area stays initialised) -/
def Buf.written (h : Heap) (b : Buf) (k : Nat) : M Buf :=
  if b.readEnd + k > b.writeEnd then .error .oob else
  match b.base with
  | some id => do let _ ← readRange h id b.readEnd k; pure ⟨b.base, b.readEnd + k, b.writeEnd, b.cap⟩
  | none => if k = 0 then pure b else .error .oob

def Buf.resizeWriteArea (g : Nat → Nat → Nat) (h : Heap) (b : Buf) (sz : Nat) : M (Heap × Buf) :=
  if b.cap - b.readEnd ≥ sz then pure (h, ⟨b.base, b.readEnd, b.readEnd + sz, b.cap⟩)
  else do
    let newSize := g (sz + b.readEnd) b.cap
    let a := h.alloc newSize
    let h1 ←
      (match b.base with
       | some ob => copyFwd a.1 ob 0 a.2 0 b.readEnd
       | none => if b.readEnd = 0 then pure a.1 else .error .oob)
    let h2 ← Buf.deallocate h1 b
    pure (h2, ⟨some a.2, b.readEnd, b.readEnd + sz, newSize⟩)

/-- `object(object&&)`: defaulted `impl(impl&&)` copies the pointers, `_other.release_internal()` -/
def Buf.moveCtor (src : Buf) : Buf × Buf := (⟨src.base, src.readEnd, src.writeEnd, src.cap⟩, Buf.null)

def Buf.swap (a b : Buf) : Buf × Buf := (⟨b.base, b.readEnd, b.writeEnd, b.cap⟩, ⟨a.base, a.readEnd, a.writeEnd, a.cap⟩)

/-- `release()`: the rep `{first_, read_end_, cap_}` and the buffer with null pointers -/
def Buf.release (b : Buf) : RV × Buf := (⟨b.base, b.readEnd, b.cap⟩, Buf.null)

/-- `to_raw_vector(std::move(buffer))` = `raw_vector::object{buffer.release()}` -/
def toRawVector (b : Buf) : RV × Buf := Buf.release b

/-- `append_from(std::move(buf), size, f)` where `f` stores `xs` (at most `size` values) and returns their number.
The returned object is move-constructed from `_buffer`; `_buffer` is left with null pointers. -/
def appendFrom (g : Nat → Nat → Nat) (h : Heap) (b : Buf) (size : Nat) (xs : List Int) : M (Heap × Buf × Buf) := do
  if xs.length > size then .error .oob else
  let r ← Buf.resizeWriteArea g h b size
  let h1 ← Buf.store r.1 r.2 xs
  let b1 ← Buf.written h1 r.2 xs.length
  let mv := Buf.moveCtor b1
  pure (h1, mv.1, mv.2)

/-- `append_from_opt`: `f` may return nothing, then the (resized) buffer stays where it was -/
def appendFromOpt (g : Nat → Nat → Nat) (h : Heap) (b : Buf) (size : Nat) (xs : Option (List Int)) :
    M (Heap × Option Buf × Buf) := do
  let r ← Buf.resizeWriteArea g h b size
  match xs with
  | none => pure (r.1, none, r.2)
  | some xs =>
    if xs.length > size then .error .oob else
    let h1 ← Buf.store r.1 r.2 xs
    let b1 ← Buf.written h1 r.2 xs.length
    let mv := Buf.moveCtor b1
    pure (h1, some mv.1, mv.2)

/-- `read_from<Buffer>(size, f)` = `append_from(Buffer{0U}, size, f)`; the temporary `Buffer{0U}` is destroyed afterwards -/
def readFrom (g : Nat → Nat → Nat) (h : Heap) (size : Nat) (xs : List Int) : M (Heap × Buf) := do
  let c := Buf.ctor h 0
  let r ← appendFrom g c.1 c.2 size xs
  let h1 ← Buf.deallocate r.1 r.2.2
  pure (h1, r.2.1)

/-- `read_from_opt<Buffer>(size, f)` = `append_from_opt(Buffer{0U}, size, f)`; the temporary `Buffer{0U}` is destroyed at the
end of the full expression: moved-from (null) after a success, still owning its resized block after a failure -/
def readFromOpt (g : Nat → Nat → Nat) (h : Heap) (size : Nat) (xs : Option (List Int)) : M (Heap × Option Buf) := do
  let c := Buf.ctor h 0
  let r ← appendFromOpt g c.1 c.2 size xs
  let h1 ← Buf.deallocate r.1 r.2.2
  pure (h1, r.2.1)

/-- `buffer[i]`: `*(begin() + i)` on the read area -/
def Buf.index (h : Heap) (b : Buf) (i : Nat) : M Int :=
  if i < b.readEnd then
    match b.base with
    | some id => h.read id i
    | none => .error .oob
  else .error .oob

/-- read_chars.cpp: `read_from_opt` with `stream.read(data, count).good()` / `gcount()`, then `to_raw_vector`.
`input` is what the stream still holds.  Returns the heap, and the vector if the read was good. -/
def readChars (g : Nat → Nat → Nat) (h : Heap) (input : List Int) (count : Nat) : M (Heap × Option RV) := do
  let c := Buf.ctor h 0
  let got := if count ≤ input.length then some (input.take count) else none
  -- a short read stores what is there and sets failbit: `good()` is false, the optional is empty
  let r ← Buf.resizeWriteArea g c.1 c.2 count
  match got with
  | none =>
    let h1 ← Buf.store r.1 r.2 input
    let h2 ← Buf.deallocate h1 r.2
    pure (h2, none)
  | some xs =>
    let h1 ← Buf.store r.1 r.2 xs
    let b1 ← Buf.written h1 r.2 xs.length
    let mv := Buf.moveCtor b1
    let h2 ← Buf.deallocate h1 mv.2
    let rv := toRawVector mv.1
    let h3 ← Buf.deallocate h2 rv.2
    pure (h3, some rv.1)

/-! ## dynamic_array (dynamic_array_impl.hpp): an allocation of `size_` cells, never resized, not movable -/

structure DynArr where
  data : Nat
  size : Nat

/-- `dynamic_array(size)`: `data_{alloc_.allocate(_size)}, size_{_size}` -/
def DynArr.ctor (h : Heap) (n : Nat) : Heap × DynArr :=
  let a := h.alloc n
  (a.1, ⟨a.2, n⟩)

/-- `~dynamic_array()`: `alloc_.deallocate(data_, size_)` -/
def DynArr.dtor (h : Heap) (d : DynArr) : M Heap := h.free d.data d.size

/-- `data_end() - data()` -/
def DynArr.dataEnd (d : DynArr) : Nat := d.size

/-- construct, store `xs` through `data()`, read `[data(), data() + xs.length)` back, destroy -/
def dynRoundTrip (h : Heap) (n : Nat) (xs : List Int) : M (Heap × Nat × Nat × List Int) := do
  let c := DynArr.ctor h n
  let h1 ← copyIn c.1 c.2.data 0 xs
  let l ← readRange h1 c.2.data 0 xs.length
  let h2 ← DynArr.dtor h1 c.2
  pure (h2, c.2.size, c.2.dataEnd, l)

/-! ## registers: several vectors and buffers over one heap -/

structure St where
  heap : Heap
  vec : Nat → RV
  buf : Nat → Buf

def St.init : St := ⟨Heap.empty, fun _ => RV.null, fun _ => Buf.null⟩

def upd {α : Type} (f : Nat → α) (i : Nat) (x : α) : Nat → α := fun j => if j = i then x else f j

inductive BOp where
  | resize (n : Nat)                      -- resize_write_area
  | fillWritten (xs : List Int)           -- store through write_data(), then written(xs.length)
  | append (size : Nat) (xs : List Int)   -- b = append_from(std::move(b), size, f)
  | appendOpt (size : Nat) (xs : Option (List Int))

inductive Op where
  | v (r : Nat) (o : VOp)
  | ctor (r : Nat) (c : Ctor)             -- destroy register r, construct anew
  | ctorMove (r s : Nat)                  -- destroy r, r := object(std::move(s))
  | ctorBuf (r b : Nat)                   -- destroy r, r := to_raw_vector(std::move(buffer b))
  | swap (r s : Nat)
  | moveAssign (r s : Nat)                -- r = std::move(s)
  | bctor (b n : Nat)                     -- destroy buffer b, construct with write size n
  | bread (b size : Nat) (xs : List Int)  -- destroy buffer b, b := read_from(size, f)
  | breadOpt (b size : Nat) (xs : Option (List Int))  -- destroy buffer b, b := read_from_opt(size, f) if it has a value (else a released buffer)
  | b (k : Nat) (o : BOp)
  | bctorMove (b c : Nat)
  | bswap (b c : Nat)
  | bmoveAssign (b c : Nat)

def bstep (g : Nat → Nat → Nat) (h : Heap) (b : Buf) : BOp → M (Heap × Buf × Option Nat)
  | .resize n => do let r ← Buf.resizeWriteArea g h b n; pure (r.1, r.2, none)
  | .fillWritten xs => do
    let h1 ← Buf.store h b xs
    let b1 ← Buf.written h1 b xs.length
    pure (h1, b1, none)
  | .append size xs => do
    -- `b = append_from(std::move(b), …)`: result move-constructed out of b, then swapped back in, temporary destroyed
    let r ← appendFrom g h b size xs
    let sw := Buf.swap r.2.2 r.2.1
    let h1 ← Buf.deallocate r.1 sw.2
    pure (h1, sw.1, none)
  | .appendOpt size xs => do
    let r ← appendFromOpt g h b size xs
    match r.2.1 with
    | none => pure (r.1, r.2.2, some 0)
    | some t =>
      let sw := Buf.swap r.2.2 t
      let h1 ← Buf.deallocate r.1 sw.2
      pure (h1, sw.1, some 1)

def step (g : Nat → Nat → Nat) (st : St) : Op → M (St × Option Nat)
  | .v r o => do
    let x ← vstep g st.heap (st.vec r) o
    pure (⟨x.1, upd st.vec r x.2.1, st.buf⟩, x.2.2)
  | .ctor r c => do
    let h ← deallocate st.heap (st.vec r)
    let x ← construct g h c
    pure (⟨x.1, upd st.vec r x.2, st.buf⟩, none)
  | .ctorMove r s =>
    if r = s then .error .oob else do
    let h ← deallocate st.heap (st.vec r)
    let mv := moveCtor (st.vec s)
    pure (⟨h, upd (upd st.vec s mv.2) r mv.1, st.buf⟩, none)
  | .ctorBuf r b => do
    let h ← deallocate st.heap (st.vec r)
    let x := toRawVector (st.buf b)
    pure (⟨h, upd st.vec r x.1, upd st.buf b x.2⟩, none)
  | .swap r s =>
    let sw := RV.swap (st.vec r) (st.vec s)
    pure (⟨st.heap, upd (upd st.vec s sw.2) r sw.1, st.buf⟩, none)
  | .moveAssign r s =>
    -- `operator=(object&&)` is `swap`; `v = std::move(v)` swaps the object with itself
    let sw := RV.swap (st.vec r) (st.vec s)
    pure (⟨st.heap, upd (upd st.vec s sw.2) r sw.1, st.buf⟩, none)
  | .bctor b n => do
    let h ← Buf.deallocate st.heap (st.buf b)
    let x := Buf.ctor h n
    pure (⟨x.1, st.vec, upd st.buf b x.2⟩, none)
  | .bread b size xs => do
    let h ← Buf.deallocate st.heap (st.buf b)
    let x ← readFrom g h size xs
    pure (⟨x.1, st.vec, upd st.buf b x.2⟩, none)
  | .breadOpt b size xs => do
    let h ← Buf.deallocate st.heap (st.buf b)
    let x ← readFromOpt g h size xs
    match x.2 with
    | some nb => pure (⟨x.1, st.vec, upd st.buf b nb⟩, some 1)
    | none => pure (⟨x.1, st.vec, upd st.buf b Buf.null⟩, some 0)
  | .b k o => do
    let x ← bstep g st.heap (st.buf k) o
    pure (⟨x.1, st.vec, upd st.buf k x.2.1⟩, x.2.2)
  | .bctorMove b c =>
    if b = c then .error .oob else do
    let h ← Buf.deallocate st.heap (st.buf b)
    let mv := Buf.moveCtor (st.buf c)
    pure (⟨h, st.vec, upd (upd st.buf c mv.2) b mv.1⟩, none)
  | .bswap b c =>
    let sw := Buf.swap (st.buf b) (st.buf c)
    pure (⟨st.heap, st.vec, upd (upd st.buf c sw.2) b sw.1⟩, none)
  | .bmoveAssign b c =>
    -- `operator=(object&&)`: `_other.swap(*this)` (also for `b = std::move(b)`)
    let sw := Buf.swap (st.buf c) (st.buf b)
    pure (⟨st.heap, st.vec, upd (upd st.buf c sw.1) b sw.2⟩, none)

def runAll (g : Nat → Nat → Nat) (st : St) : List Op → M St
  | [] => pure st
  | o :: os => do
    let x ← step g st o
    runAll g x.1 os

/-- destructors of the registers `0 .. nv-1` and buffers `0 .. nb-1` (end of a history) -/
def destroyVecs (h : Heap) (vec : Nat → RV) : Nat → M Heap
  | 0 => pure h
  | n + 1 => do
    let h1 ← deallocate h (vec n)
    destroyVecs h1 vec n

def destroyBufs (h : Heap) (buf : Nat → Buf) : Nat → M Heap
  | 0 => pure h
  | n + 1 => do
    let h1 ← Buf.deallocate h (buf n)
    destroyBufs h1 buf n

def finish (st : St) (nv nb : Nat) : M Heap := do
  let h ← destroyVecs st.heap st.vec nv
  destroyBufs h st.buf nb

/-! ## allocation failure (fault injection)

`alloc_.allocate(n)` may throw `std::bad_alloc`.  `Inj` is the failure schedule of one operation: the `failAt`-th allocation
from now throws, and so does every request for more than `failSize` elements.  In the code as it is, `allocate` is the first
effect of every reallocating path (object_impl.hpp `insert` ×3 reallocating branch, `reallocate`; buffer/object_impl.hpp
`object(size, A)`, `resize_write_area`; dynamic_array), so the state at the throw is the state before the member call:
`vAllocReq` / `bAllocReq` give the request such a member would make (same branch conditions as the member), the `…F`
functions place the throw there and otherwise run the member.  Members that allocate repeatedly (`insert_impl` for input
iterators, the constructors built on it, `read_from` = `Buffer{0U}` + `resize_write_area`) thread the schedule through their
steps; a constructor that throws leaves no object behind (its register is null) and no destructor runs for the object under
construction; the range constructor gives back what its earlier steps allocated before it rethrows (`constructF`). -/

inductive Out (σ : Type) where
  | done (s : σ)
  | threw (s : σ)

structure Inj where
  failAt : Option Nat
  failSize : Option Nat

def Inj.none : Inj := ⟨Option.none, Option.none⟩

/-- `none`: this allocation throws; `some i'`: it succeeds, `i'` is the schedule for the following ones -/
def Inj.grant (i : Inj) (n : Nat) : Option Inj :=
  if (match i.failSize with | some m => decide (n > m) | Option.none => false) then Option.none else
  match i.failAt with
  | some 1 => Option.none
  | some (k + 2) => some ⟨some (k + 1), i.failSize⟩
  | _ => some i

/-- the allocation request of a member that allocates at most once (`none`: it does not allocate) -/
def vAllocReq (g : Nat → Nat → Nat) (v : RV) : VOp → Option Nat
  | .pushBack _ => if v.last + 1 > v.cap then some (g (v.last + 1) v.cap) else Option.none
  | .insert1 _ _ => if v.last + 1 > v.cap then some (g (v.last + 1) v.cap) else Option.none
  | .insertN _ n _ => if v.last + n > v.cap then some (g (v.last + n) v.cap) else Option.none
  | .insertRange _ xs true => if ¬ xs.isEmpty ∧ v.last + xs.length > v.cap then some (g (v.last + xs.length) v.cap) else Option.none
  | .insertSelf _ a b => if a ≠ b ∧ v.last + (b - a) > v.cap then some (g (v.last + (b - a)) v.cap) else Option.none
  | .resize n _ => if n > v.last ∧ n > v.cap then some (g n v.cap) else Option.none
  | .reserve n => if n ≤ v.cap then Option.none else some (g n v.cap)
  | .shrink => some v.last
  | _ => Option.none

/-- `insert(position, value)` under a schedule -/
def insert1F (i : Inj) (g : Nat → Nat → Nat) (h : Heap) (v : RV) (pos : Nat) (s : Src) : M (Out (Heap × RV) × Inj) :=
  match vAllocReq g v (.insert1 pos s) with
  | Option.none => do let r ← insert1 g h v pos s; pure (.done (r.1, r.2.1), i)
  | some n =>
    match i.grant n with
    | Option.none => pure (.threw (h, v), i)
    | some i' => do let r ← insert1 g h v pos s; pure (.done (r.1, r.2.1), i')

/-- the single-pass loop: every step may allocate; at a throw the elements inserted so far stay -/
def insertInputF (i : Inj) (g : Nat → Nat → Nat) (h : Heap) (v : RV) (pos : Nat) : List Int → M (Out (Heap × RV) × Inj)
  | [] => pure (.done (h, v), i)
  | x :: xs => do
    let r ← insert1F i g h v pos (.val x)
    match r.1 with
    | .threw s => pure (.threw s, r.2)
    | .done s => insertInputF r.2 g s.1 s.2 (pos + 1) xs

def vstepF (i : Inj) (g : Nat → Nat → Nat) (h : Heap) (v : RV) : VOp → M (Out (Heap × RV × Option Nat) × Inj)
  | .insertRange pos xs false =>
    if pos > v.last then .error .oob else do
    let r ← insertInputF i g h v pos xs
    match r.1 with
    | .threw s => pure (.threw (s.1, s.2, Option.none), r.2)
    | .done s => pure (.done (s.1, s.2, Option.none), r.2)
  | o =>
    match vAllocReq g v o with
    | Option.none => do let r ← vstep g h v o; pure (.done r, i)
    | some n =>
      match i.grant n with
      | Option.none => pure (.threw (h, v, Option.none), i)
      | some i' => do let r ← vstep g h v o; pure (.done r, i')

/-- constructors: `impl_{alloc}` (null pointers), then the insert the constructor body calls.  No destructor runs for an object
whose constructor throws; the range constructor `object(In, In, A const&)` therefore catches, gives back what the single-pass
insertion has made it allocate (`this->deallocate()`) and rethrows (fix db1a7e0; `catchRange := false` is the constructor before
the fix, which left that store allocated).  The count and initializer_list constructors allocate at most once, before anything
is owned. -/
def constructF (i : Inj) (g : Nat → Nat → Nat) (h : Heap) (c : Ctor) (catchRange : Bool := true) : M (Out (Heap × RV) × Inj) :=
  match c with
  | .dflt => pure (.done (h, RV.null), i)
  | c =>
    let o : VOp := match c with
      | .count n x => .insertN 0 n (.val x)
      | .range xs fwd => .insertRange 0 xs fwd
      | .il xs => .insertRange 0 xs true
      | .dflt => .clear
    let catches : Bool := match c with
      | .range _ _ => catchRange
      | _ => false
    do
    let r ← vstepF i g h RV.null o
    match r.1 with
    | .threw s =>
      if catches then do
        let h1 ← deallocate s.1 s.2.1
        pure (.threw (h1, RV.null), r.2)
      else pure (.threw (s.1, s.2.1), r.2)
    | .done s => pure (.done (s.1, s.2.1), r.2)

/-- the request `resize_write_area(sz)` would make -/
def bAllocReq (g : Nat → Nat → Nat) (b : Buf) (sz : Nat) : Option Nat :=
  if b.cap - b.readEnd ≥ sz then Option.none else some (g (sz + b.readEnd) b.cap)

def bstepF (i : Inj) (g : Nat → Nat → Nat) (h : Heap) (b : Buf) (o : BOp) : M (Out (Heap × Buf × Option Nat) × Inj) :=
  let req := match o with
    | .resize n => bAllocReq g b n
    | .fillWritten _ => Option.none
    | .append n _ => bAllocReq g b n
    | .appendOpt n _ => bAllocReq g b n
  match req with
  | Option.none => do let r ← bstep g h b o; pure (.done r, i)
  | some n =>
    match i.grant n with
    | Option.none => pure (.threw (h, b, Option.none), i)     -- `append_from(std::move(b), …)`: nothing was moved yet
    | some i' => do let r ← bstep g h b o; pure (.done r, i')

/-- `read_from` / `read_from_opt` / `read_chars`: `Buffer{0U}` allocates, then `resize_write_area(size)`.
`some h'`: an allocation throws, `h'` is the heap after unwinding (the temporary is destroyed); `none`: both succeed -/
def readThrowF (i : Inj) (g : Nat → Nat → Nat) (h : Heap) (size : Nat) : M (Option Heap) :=
  match i.grant 0 with
  | Option.none => pure (some h)
  | some i1 =>
    let c := Buf.ctor h 0
    match bAllocReq g c.2 size with
    | Option.none => pure Option.none
    | some n =>
      match i1.grant n with
      | Option.none => do let h1 ← Buf.deallocate c.1 c.2; pure (some h1)
      | some _ => pure Option.none

def stepF (i : Inj) (g : Nat → Nat → Nat) (st : St) : Op → M (Out St × Option Nat)
  | .v r o => do
    let x ← vstepF i g st.heap (st.vec r) o
    match x.1 with
    | .done y => pure (.done ⟨y.1, upd st.vec r y.2.1, st.buf⟩, y.2.2)
    | .threw y => pure (.threw ⟨y.1, upd st.vec r y.2.1, st.buf⟩, Option.none)
  | .ctor r c => do
    let h ← deallocate st.heap (st.vec r)
    let x ← constructF i g h c
    match x.1 with
    | .done y => pure (.done ⟨y.1, upd st.vec r y.2, st.buf⟩, Option.none)
    | .threw y => pure (.threw ⟨y.1, upd st.vec r RV.null, st.buf⟩, Option.none)
  | .bctor b n => do
    let h ← Buf.deallocate st.heap (st.buf b)
    match i.grant n with
    | Option.none => pure (.threw ⟨h, st.vec, upd st.buf b Buf.null⟩, Option.none)
    | some _ => let x := Buf.ctor h n; pure (.done ⟨x.1, st.vec, upd st.buf b x.2⟩, Option.none)
  | .bread b size xs => do
    let h ← Buf.deallocate st.heap (st.buf b)
    match (← readThrowF i g h size) with
    | some h' => pure (.threw ⟨h', st.vec, upd st.buf b Buf.null⟩, Option.none)
    | Option.none => do let x ← step g st (.bread b size xs); pure (.done x.1, x.2)
  | .breadOpt b size xs => do
    let h ← Buf.deallocate st.heap (st.buf b)
    match (← readThrowF i g h size) with
    | some h' => pure (.threw ⟨h', st.vec, upd st.buf b Buf.null⟩, Option.none)
    | Option.none => do let x ← step g st (.breadOpt b size xs); pure (.done x.1, x.2)
  | .b k o => do
    let x ← bstepF i g st.heap (st.buf k) o
    match x.1 with
    | .done y => pure (.done ⟨y.1, st.vec, upd st.buf k y.2.1⟩, y.2.2)
    | .threw y => pure (.threw ⟨y.1, st.vec, upd st.buf k y.2.1⟩, Option.none)
  | o => do let x ← step g st o; pure (.done x.1, x.2)     -- swaps, moves, to_raw_vector: no allocation

/-- the seeded variant of `reallocate` (free first, then allocate, for an empty vector): the state at the throw
has the pointers of a block that is no longer allocated -/
def reallocateFreeFirstF (i : Inj) (h : Heap) (v : RV) (newCap : Nat) : M (Out (Heap × RV)) :=
  if v.last = 0 then do
    let h1 ← deallocate h v
    match i.grant newCap with
    | Option.none => pure (.threw (h1, v))
    | some _ => let a := h1.alloc newCap; pure (.done (a.1, ⟨some a.2, 0, newCap⟩))
  else
    match i.grant newCap with
    | Option.none => pure (.threw (h, v))
    | some _ => do let r ← reallocate h v newCap; pure (.done r)

end Fcppt.C07
