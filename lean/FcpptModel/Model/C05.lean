import FcpptModel.Model.C05.Machine
/-!
# C05 — the registry of generic operations as transfer programs

Every registered operation is a function `prog : Op → Input → List Instr` that mirrors the
template's control flow at the granularity of per-element transfer decisions.  The C++ each
definition mirrors (under /repo/libs/core/include/fcppt/ unless noted):

* `fwd`                — move_if_rvalue.hpp, move_if.hpp, detail/move_if.hpp (`std::forward<Arg>` likewise): move iff `Arg` is not an lvalue reference
* `algMap`             — algorithm/map.hpp, algorithm/map_impl.hpp (`_function(move_if_rvalue<Arg>(_map_element))`), algorithm/detail/map_reserve.hpp
* `fold`               — algorithm/fold.hpp + algorithm/loop.hpp + algorithm/loop_break_impl.hpp (`for (auto &&element : _range)`, `_range` a named
                         reference: the element arrives as an lvalue for every value category of the range; the state is moved through)
* `foldBreak`          — algorithm/fold_break.hpp (`_function(_fcppt_element, std::move(_state))`)
* `mapConcat`          — algorithm/map_concat.hpp, algorithm/detail/map_concat.hpp (`_function(_ref)`; `join(std::move(_state), …)`)
* `mapOptional`        — algorithm/map_optional.hpp (`_function(element)`, the optional's content is forwarded into the result)
* `reverse`            — algorithm/reverse.hpp, algorithm/detail/reverse.hpp (rvalue: `std::reverse` in place, then move-construct; lvalue: copy first)
* `join2`, `join3`     — container/join.hpp, container/detail/join_impl.hpp, join_all.hpp, join_insert.hpp, move_iterator_if_rvalue.hpp
* `popBack`, `popFront`— container/pop_back.hpp, container/pop_front.hpp
* `moveRangeMap`       — container/make_move_range.hpp, container/move_range_impl.hpp driven by algorithm::map
* `moveClear`          — move_clear.hpp
* `getOrInsert`, `getOrInsertWithResult` — container/get_or_insert.hpp, container/get_or_insert_with_result.hpp

* `optMap` … `optCat`   — optional/map.hpp (through bind.hpp: `_function(move_if_rvalue<Optional>(_source.get_unsafe()))`), bind.hpp, from.hpp,
                         alternative.hpp (`std::forward<Optional>(_optional1)`), filter.hpp (the predicate reads, then the whole optional is forwarded),
                         to_container.hpp, join.hpp, combine.hpp, apply.hpp, sequence.hpp (all present: algorithm::map with
                         `move_if_rvalue<Source>(_value.get_unsafe())`), cat.hpp

* `moveIf`, `moveIfRvalue` — move_if.hpp, detail/move_if.hpp, move_if_rvalue.hpp used to initialise a value: a move iff the condition / `Type`
                         asks for it or the argument is an rvalue — a `T const&` argument is copied in every case
* `eithMap` … `eithFirstSuccess` — either/map.hpp, map_failure.hpp, bind.hpp (after fix f5622af the failure is `move_if_rvalue`d), match.hpp,
                         success_opt.hpp, failure_opt.hpp, from_optional.hpp, join.hpp, apply.hpp (every failing either's failure goes into the
                         failure array, the first one is returned), sequence.hpp (rvalue source only: first failure, else all successes), first_success.hpp

* `varMatch`, `varApply`, `varApply2`, `varToOptional` — variant/match.hpp, variant/apply.hpp (`std::visit(_function, move_if_rvalue<Variants>(_variants.impl())...)`), variant/to_optional.hpp
* `tupMap`, `tupPushBack`, `tupConcat` — tuple/map.hpp, tuple/push_back.hpp + tuple/detail/push_back.hpp, tuple/concat.hpp (rvalue tuples only)
* `arrMap`, `arrPushBack`, `arrJoin2/3`, `arrFromRange` — array/map.hpp, array/push_back.hpp, array/join.hpp + array/detail/join.hpp, array/append.hpp
                         (after fix e4c0512 also with an lvalue first array), array/from_range.hpp (`move_if_rvalue<Source>(_source[Index])` when the size fits)
* `recMap`, `recPermute`, `recMultiplyDisjoint` — record/map.hpp (rvalue records only), record/permute.hpp (`move_if_rvalue<Arg>(get<Label>(_arg))` in the
                         order of the result's labels), record/multiply_disjoint.hpp
* `contMake`           — container/make.hpp: moves out of every argument, whatever its value category (documented "by moving"); used by
                         optional/to_container.hpp, which after fix 9030486 hands it its own copy of the element unless the optional is an rvalue

* `gridMap`, `gridApply2`, `gridResize` — container/grid/map.hpp, apply.hpp (same sizes, else the empty grid), resize.hpp (every cell of the new grid:
                         `move_if_rvalue<Grid>` of the old cell when it exists, else the user's `init`)
* `treeCtor`, `treePushValue`, `treePushTree`, `treeRelease`, `treeMap` — container/tree/object_impl.hpp (`object(T&&)`/`object(T const&)`,
                         `push_back(T&&)`/`(T const&)`/`(object&&)` through `insert`, `release`: `object ret(std::move(*_it)); erase`),
                         container/tree/map.hpp (takes `tree const&`: the function always gets `Value const&`)
* `optsFlag`, `optsOption` — /repo/libs/options/include/fcppt/options/flag_impl.hpp (after fix 986d19b the *stored* values are compared),
                         option_impl.hpp: the constructors move their value arguments into the members
                         (many_impl.hpp / argument_impl.hpp: the constructors take a parser / strings — no element values to observe)
* `parseSequence`, `parseRepetition` — /repo/libs/parse/include/fcppt/parse/sequence_impl.hpp + detail/sequence_result.hpp, repetition_impl.hpp:
                         the sub-results are moved into the tuple / vector (no arguments: every value is made by the user's converter)

Extension rounds (166 operations in all):

* `callAt`, `zipCall2`  — functions of two arguments: `optional::apply` / `maybe_multi` / `maybe_void_multi`, `either::apply`, `variant::apply`,
                         `grid::apply`, `array::apply` hand *both* arguments on with `move_if_rvalue<Arg_k>`; the harness function `both` keeps
                         what it gets, so the value category of every argument is observed on its own (`tuple::apply`: `tuple::get` has no
                         rvalue overload, the function always gets lvalues; its first tuple has to be an rvalue - `apply_result` applies
                         `tuple::size` to the reference type); `optional::combine` has a fixed result type: the harness function `sink_second`
                         consumes the second argument (`sinkAt`)
* `tupInvoke` … `recInit` — tuple/invoke.hpp, apply.hpp, from_array.hpp, make.hpp, init.hpp, array/apply.hpp, init.hpp, make.hpp,
                         record/object_impl.hpp + detail/init_ctor.hpp (the vararg constructor from `label = value` initializers), record/init.hpp;
                         `recSet` — record/set.hpp
* `optMake` … `optCopyValue` — optional/make.hpp, object_impl.hpp (constructors), assign.hpp (rvalue only), to_exception.hpp, make_if.hpp, maybe.hpp,
                         maybe_void.hpp, maybe_multi.hpp, maybe_void_multi.hpp, copy_value.hpp
* `eithMakeSuccess` … `eithLoop`, `varCtor` — either/make_success.hpp, make_failure.hpp, object_impl.hpp, construct.hpp, try_call.hpp, to_exception.hpp,
                         error_from_optional.hpp, sequence_error.hpp (through fold_break), loop.hpp; variant/object_impl.hpp
* `algFindOpt` … `algSeqIteration(Vec)` — algorithm/find_opt.hpp, index_of.hpp, contains.hpp (the value may alias an element: `find_opt(v, v[k])`),
                         find_if_opt.hpp, find_by_opt.hpp, generate_n.hpp, map_iteration.hpp, map_iteration_second.hpp, sequence_iteration.hpp
                         (`std::list`: nodes are erased; `std::vector`: `erase` move-assigns the later elements - `shift`)
* `compact`            — algorithm/remove_if.hpp, unique_if.hpp (+ remove.hpp, unique.hpp): libstdc++'s `std::remove_if` / `std::unique` followed by
                         `erase(position, end)`
* `contInsert` … `contIndexMapGet` — container/insert.hpp, set_union.hpp, set_difference.hpp, set_intersection.hpp (also with the same set twice),
                         map_values_copy.hpp, at_optional.hpp, maybe_back.hpp, maybe_front.hpp, find_opt_mapped.hpp, index_map_impl.hpp
* `treeCtorTree` … `treeSortPred` — container/tree/object_impl.hpp: copy / move / (value, child list) constructors, copy / move / self assignment,
                         `value(T const &)` / `value(T &&)`, push_front, insert (value and tree), pop_back, pop_front, erase (one, range), clear,
                         sort (both), swap
* `gridCtorFn` … `gridFill` — container/grid/object_impl.hpp (constructors from a function, a value, static rows (rvalue rows only), a grid;
                         copy / move / self assignment), static_row.hpp, fill.hpp
* `joinSelf` … `optCombineSelf` — the same lvalue object as both arguments
* `algMapList`, `algMapArr`, `algMapTup`, `algLoopBreakTuple` — algorithm/map_impl.hpp without `reserve`, map_array.hpp, map_tuple.hpp, loop_break_tuple.hpp
* `parseAlt` … `parseRepPlus` — /repo/libs/parse: alternative_impl.hpp, optional_impl.hpp, convert_impl.hpp, as_struct.hpp, separator_impl.hpp,
                         list_impl.hpp, repetition_plus_impl.hpp (after fix aef45df the first result is moved)
* `optsArgument` … `optsSum` — /repo/libs/options: argument_impl.hpp, optional_impl.hpp, product_impl.hpp (options::apply), many_impl.hpp, sum_impl.hpp:
                         the result records are moved through the combinators

The user's functions (part of the harness, see harness/c05_common.hpp): given an rvalue they move it
through (same identity), given an lvalue they read it and make a new value (`derive`).
-/
namespace Fcppt.C05

inductive Op where
  | algMap | fold | foldBreak | mapConcat | mapOptional | reverse | join2 | join3
  | popBack | popFront | moveRangeMap | moveClear | getOrInsert | getOrInsertWithResult
  | optMap | optBind | optFrom | optAlt | optFilter | optToContainer | optJoin | optCombine | optApply2 | optSequence | optCat
  | moveIf | moveIfRvalue
  | eithMap | eithMapFailure | eithBind | eithMatch | eithSuccessOpt | eithFailureOpt | eithFromOptional | eithJoin
  | eithApply2 | eithSequence | eithFirstSuccess
  | varMatch | varApply | varApply2 | varToOptional
  | tupMap | tupPushBack | tupConcat | arrMap | arrPushBack | arrJoin2 | arrJoin3 | arrFromRange
  | recMap | recPermute | recMultiplyDisjoint | contMake
  | gridMap | gridApply2 | gridResize | treeCtor | treePushValue | treePushTree | treeRelease | treeMap
  | optsFlag | optsOption | parseSequence | parseRepetition
  -- extension round 1: tuple / array / record
  | tupInvoke | tupApply2 | tupFromArray | tupMake2 | tupInit | arrApply2 | arrInit | arrMake2 | recCtor2 | recInit
  -- optional / either / variant
  | optMake | optCtor | optAssign | optToException | optMakeIf | optMaybe | optMaybeVoid | optMaybeMulti2 | optMaybeVoidMulti2
  | optCopyValue
  | eithMakeSuccess | eithMakeFailure | eithCtor | eithConstruct | eithTryCall | eithToException | eithErrorFromOptional
  | eithSequenceError | eithLoop | varCtor
  -- extension round 2: algorithm / container helpers
  | algFindOpt | algIndexOf | algContains | algFindIfOpt | algFindByOpt | algGenerateN
  | algMapIteration | algMapIterationSecond | algSeqIteration
  | contInsert | contSetUnion | contSetDifference | contSetIntersection | contMapValuesCopy
  | contAtOptional | contMaybeBack | contMaybeFront | contFindOptMapped | contIndexMapGet
  -- tree / grid members
  | treeCtorTree | treeCtorChildren | treeAssign | treeSelfAssign | treeSetValue
  | treePushFrontValue | treeInsertValue | treePushFrontTree | treeInsertTree | treePopBack | treePopFront
  | treeErase | treeEraseRange | treeClear | treeSort
  | gridCtorFn | gridCtorValue | gridCtorRows2 | gridStaticRow2 | gridCtorGrid | gridAssign | gridSelfAssign | gridFill
  -- extension round 3: parse results / options results moved through the combinators
  | parseAlt | parseOpt | parseConvert | parseAsStruct | parseSeparator | parseList | parseRepPlus
  | optsArgument | optsOptional | optsProduct | optsMany | optsSum
  -- extension round 4: the same object twice, other container kinds, swap, record::set
  | treeSwap | treeSortPred | joinSelf | arrJoinSelf | tupConcatSelf | optCombineSelf
  | algMapList | algMapArr | algMapTup | algLoopBreakTuple | recSet
  | algRemoveIf | algRemove | algUnique | algUniqueIf | algSeqIterationVec
  deriving DecidableEq, Repr, Inhabited

/-- Arguments (value category, element identities in container order) and the operation's
control parameters (what the user's function answers: keep masks, break position, key …). -/
structure Input where
  args : List (Cat × List Nat)
  par : List Nat := []
  deriving Repr

def Input.cat (inp : Input) (a : Nat) : Option Cat := inp.args[a]?.map (·.1)
def Input.ids (inp : Input) (a : Nat) : List Nat := match inp.args[a]? with | some x => x.2 | none => []
def Input.size (inp : Input) (a : Nat) : Nat := (inp.ids a).length
def Input.isRv (inp : Input) (a : Nat) : Bool := inp.cat a == some .rv
/-- rvalue, or an lvalue the caller explicitly asked to be moved from -/
def Input.isMv (inp : Input) (a : Nat) : Bool := inp.cat a == some .rv || inp.cat a == some .io

/-! ## builders -/

/-- `fcppt::move_if_rvalue<Arg>(x)` / `std::forward<Arg>(x)` initialising a value -/
def fwd (rv : Bool) : Mode := if rv then .move else .copy

def xferAll (a n : Nat) (m : Mode) (d : Dest) : List Instr := (List.range n).map fun i => .xfer a i m d

/-- the user's function is called with `move_if_rvalue<Arg>(element)` for every element -/
def callAll (rv : Bool) (a n : Nat) (d : Dest) : List Instr :=
  if rv then xferAll a n .move d else (List.range n).map fun i => .derive a i 1 d

/-- the user's function is called with an lvalue reference to every element listed; element `i` yields `ks[i]` values -/
def deriveEach (a : Nat) (ks : List Nat) (d : Dest) : List Instr := ks.zipIdx.map fun (k, i) => .derive a i k d

/-- a buffer/node based container is constructed from `std::forward<C>(c)` -/
def whole (rv : Bool) (a n : Nat) (d : Dest) : List Instr :=
  if rv then [.steal a d] else xferAll a n .copy d

/-- the user's function (or the library) reads every element -/
def readAll (a n : Nat) : List Instr := (List.range n).map fun i => .read a i

/-- the user's function gets element `i` of argument `a` as `move_if_rvalue<Arg>(element)`: an rvalue is moved through, an lvalue derived from -/
def callAt (rv : Bool) (a i : Nat) (d : Dest) : Instr := if rv then .xfer a i .move d else .derive a i 1 d

/-- a function of two arguments is called position by position with `(move_if_rvalue<A0>(x_i), move_if_rvalue<A1>(y_i))`;
the harness function hands both on (`both`: the result holds what it got from the first, then from the second argument) -/
def zipCall2 (rv0 rv1 : Bool) (n : Nat) (d : Dest) : List Instr :=
  (List.range n).flatMap fun i => [callAt rv0 0 i d, callAt rv1 1 i d]

/-- a user's function that does not keep the element: handed an rvalue it takes it by value (moved into the parameter, which dies),
handed an lvalue it reads it -/
def sinkAt (rv : Bool) (a i : Nat) : Instr := if rv then .xfer a i .move .drop else .read a i

/-- `map_iteration` / `sequence_iteration` (node containers): the user's action reads every element; answer 0 = remove: `erase(it)` -/
def iterErase (a : Nat) (mask : List Nat) : List Instr :=
  (List.range mask.length).flatMap fun i => .read a i :: (if mask[i]? = some 0 then [.pop a i .drop] else [])

/-- `sequence_iteration` on a `std::vector`: `erase(it)` move-assigns every later element one place down -/
def iterEraseVec (a : Nat) (mask : List Nat) : List Instr :=
  (List.range mask.length).flatMap fun i =>
    .read a i :: (if mask[i]? = some 0 then
      .pop a i .drop :: ((List.range (mask.length - (i + 1))).map fun j => .shift a (i + 1 + j)) else [])

/-- `erase(first, last)` / `clear()` of a node container: the elements `lo .. hi-1` are destroyed in place -/
def eraseRange (a lo hi : Nat) : List Instr := (List.range (hi - lo)).map fun j => .pop a (lo + j) .drop

/-- `grid::fill`: every cell is overwritten with what the user's function makes -/
def fillAll (a n : Nat) : List Instr := (List.range n).flatMap fun i => [.pop a i .drop, .fresh (1000 + i) (.arg a)]

/-- `std::remove_if` / `std::unique` followed by `erase(position, end)` on a sequence (mask: 1 = keep, 0 = remove): the predicate reads
the elements up to the first one to go; every later element is read and, when kept, move-assigned to an earlier place; the elements to
go are overwritten or erased -/
def compact (a : Nat) (mask : List Nat) : List Instr :=
  match mask.findIdx? (· == 0) with
  | none => readAll a mask.length
  | some f =>
    readAll a (f + 1) ++
      ((List.range (mask.length - (f + 1))).flatMap fun j =>
        .read a (f + 1 + j) :: (if mask[f + 1 + j]? = some 1 then [.shift a (f + 1 + j)] else [])) ++
      ((List.range mask.length).filter fun i => mask[i]? == some 0).map fun i => .pop a i .drop

/-- a user's function that keeps nothing is handed the first `n` elements one by one (`sinkAt`) -/
def sinkAll (rv : Bool) (a n : Nat) : List Instr := (List.range n).map fun i => sinkAt rv a i

def freshRange (n : Nat) (d : Dest) : List Instr := (List.range n).map fun j => .fresh (1000 + j) d

/-- the listed elements of `a`, in this order (`record::permute`) -/
def gather (a : Nat) (idx : List Nat) (m : Mode) (d : Dest) : List Instr := idx.map fun i => .xfer a i m d

/-- cell `k` (storage order) of a `w' × h'` grid resized from a `w × h` grid: the old cell when the position exists there, else `init` -/
def gridCell (rv : Bool) (w h w' : Nat) (k : Nat) : Instr :=
  if k % w' < w ∧ k / w' < h then .xfer 0 ((k / w') * w + k % w') (fwd rv) .res else .fresh (1000 + k) .res

/-- `std::reverse(begin, end)`: ⌊n/2⌋ swaps -/
def reverseInPlace (a n : Nat) : List Instr := (List.range (n / 2)).map fun i => .swap a i (n - 1 - i)

/-! ## the programs -/

def prog (o : Op) (inp : Input) : List Instr :=
  let n := inp.size
  let rv := inp.isRv
  let par0 := inp.par.headD 0
  let par1 := (inp.par.drop 1).headD 0
  let par2 := (inp.par.drop 2).headD 0
  let par3 := (inp.par.drop 3).headD 0
  match o with
  | .algMap => callAll (rv 0) 0 (n 0) .res
  | .fold => .xfer 1 0 .move .res :: deriveEach 0 (List.replicate (n 0) 1) .res
  | .foldBreak =>
    -- par = [k]: the user's function answers `break_` at element k
    let visited := min (n 0) (inp.par.headD 0 + 1)
    .xfer 1 0 .move .res :: deriveEach 0 (List.replicate visited 1) .res
  | .mapConcat => deriveEach 0 inp.par .res
  | .mapOptional => deriveEach 0 inp.par .res
  | .reverse =>
    if rv 0 then reverseInPlace 0 (n 0) ++ [.steal 0 .res]
    else (List.range (n 0)).reverse.map fun i => .xfer 0 i .copy .res
  | .join2 => whole (rv 0) 0 (n 0) .res ++ xferAll 1 (n 1) (fwd (rv 1)) .res
  | .join3 => whole (rv 0) 0 (n 0) .res ++ xferAll 1 (n 1) (fwd (rv 1)) .res ++ xferAll 2 (n 2) (fwd (rv 2)) .res
  | .popBack => if n 0 = 0 then [] else [.pop 0 (n 0 - 1) .res]
  | .popFront => if n 0 = 0 then [] else [.pop 0 0 .res]
  | .moveRangeMap => xferAll 0 (n 0) .move .res ++ [.steal 0 .drop]
  | .moveClear => [.steal 0 .res]
  | .getOrInsert | .getOrInsertWithResult =>
    -- par = [k]: the key of element k; k = size: a key that is not in the map, the user's `create` makes value 1000
    if inp.par.headD 0 < n 0 then [] else [.fresh 1000 (.arg 0)]
  -- optional: an argument is the content of the optional (no or one element)
  | .optMap => callAll (rv 0) 0 (n 0) .res
  | .optBind =>
    -- par = [keep]: the user's function reads its argument and answers with an optional holding it (moved through / derived) or nothing
    -- (handed an rvalue the user's function takes it by value: when it answers nothing the element dies with the parameter)
    if rv 0 then (if par0 = 1 then readAll 0 (n 0) ++ xferAll 0 (n 0) .move .res else readAll 0 (n 0) ++ xferAll 0 (n 0) .move .drop)
    else deriveEach 0 (List.replicate (n 0) par0) .res
  | .optFrom => if n 0 = 0 then [.fresh 1000 .res] else xferAll 0 (n 0) (fwd (rv 0)) .res
  | .optAlt =>
    -- par = [has]: what the alternative function returns
    if n 0 = 0 then (if par0 = 1 then [.fresh 1000 .res] else []) else xferAll 0 (n 0) (fwd (rv 0)) .res
  | .optFilter => readAll 0 (n 0) ++ (if par0 = 1 then xferAll 0 (n 0) (fwd (rv 0)) .res else [])
  | .optToContainer => xferAll 0 (n 0) (fwd (rv 0)) .res
  | .optJoin => xferAll 0 (n 0) (fwd (rv 0)) .res
  | .optCombine =>
    if n 0 = 0 then xferAll 1 (n 1) (fwd (rv 1)) .res
    else if n 1 = 0 then xferAll 0 (n 0) (fwd (rv 0)) .res
    else [sinkAt (rv 1) 1 0, callAt (rv 0) 0 0 .res]
  | .optApply2 => if n 0 = 0 ∨ n 1 = 0 then [] else zipCall2 (rv 0) (rv 1) 1 .res
  | .optSequence =>
    -- par = presence mask of the entries; the argument lists the elements of the present ones
    if inp.par.all (· == 1) then xferAll 0 (n 0) (fwd (rv 0)) .res else []
  | .optCat => xferAll 0 (n 0) (fwd (rv 0)) .res
  -- move_if<Cond>(x) / move_if_rvalue<Type>(x) initialising a value; an `io` argument is a non-const lvalue the caller asked to move
  | .moveIf | .moveIfRvalue => xferAll 0 (n 0) (fwd (inp.isMv 0)) .res
  -- either: the argument is the element held; par0 = 1: it is the success, 0: the failure
  | .eithMap => if par0 = 1 then callAll (rv 0) 0 (n 0) .res else xferAll 0 (n 0) (fwd (rv 0)) .res
  | .eithMapFailure => if par0 = 1 then xferAll 0 (n 0) (fwd (rv 0)) .res else callAll (rv 0) 0 (n 0) .res
  | .eithBind =>
    -- par1: the user's function reads its argument and answers success (1) or failure (0) holding it
    if par0 = 1 then
      (if rv 0 then readAll 0 (n 0) ++ xferAll 0 (n 0) .move .res else deriveEach 0 (List.replicate (n 0) 1) .res)
    else xferAll 0 (n 0) (fwd (rv 0)) .res
  | .eithMatch => callAll (rv 0) 0 (n 0) .res
  | .eithSuccessOpt => if par0 = 1 then xferAll 0 (n 0) (fwd (rv 0)) .res else []
  | .eithFailureOpt => if par0 = 1 then [] else xferAll 0 (n 0) (fwd (rv 0)) .res
  | .eithFromOptional => if n 0 = 0 then [.fresh 1000 .res] else xferAll 0 (n 0) (fwd (rv 0)) .res
  | .eithJoin => xferAll 0 (n 0) (fwd (rv 0)) .res
  | .eithApply2 =>
    -- par = [side of the first, side of the second]
    if par0 = 1 then
      (if par1 = 1 then zipCall2 (rv 0) (rv 1) 1 .res else xferAll 1 (n 1) (fwd (rv 1)) .res)
    else
      xferAll 0 (n 0) (fwd (rv 0)) .res ++ (if par1 = 1 then [] else xferAll 1 (n 1) (fwd (rv 1)) .drop)
  | .eithSequence =>
    -- par = side of every entry; the first failure is returned, else all successes
    match inp.par.findIdx? (· == 0) with
    | some k => [.xfer 0 k (fwd (rv 0)) .res]
    | none => xferAll 0 (n 0) (fwd (rv 0)) .res
  | .eithFirstSuccess =>
    -- no arguments; par = what the functions answer; function j makes value 1000 + j
    match inp.par.findIdx? (· == 1) with
    | some k => ((List.range k).map fun j => .fresh (1000 + j) .drop) ++ [.fresh (1000 + k) .res]
    | none => (List.range inp.par.length).map fun j => .fresh (1000 + j) .res
  -- variant<T, w1<T>, w2<T>>: the argument is the element held, par0 the alternative
  | .varMatch | .varApply => callAll (rv 0) 0 (n 0) .res
  | .varApply2 => zipCall2 (rv 0) (rv 1) 1 .res
  | .varToOptional => if par0 = par1 then xferAll 0 (n 0) (fwd (rv 0)) .res else []
  -- tuples, arrays, records: one element object per position
  | .tupMap | .arrMap | .recMap => callAll (rv 0) 0 (n 0) .res
  | .tupPushBack | .tupConcat | .arrPushBack | .arrJoin2 | .recMultiplyDisjoint =>
    xferAll 0 (n 0) (fwd (rv 0)) .res ++ xferAll 1 (n 1) (fwd (rv 1)) .res
  | .arrJoin3 => xferAll 0 (n 0) (fwd (rv 0)) .res ++ xferAll 1 (n 1) (fwd (rv 1)) .res ++ xferAll 2 (n 2) (fwd (rv 2)) .res
  | .arrFromRange => if par0 = n 0 then xferAll 0 (n 0) (fwd (rv 0)) .res else []
  | .recPermute => gather 0 inp.par (fwd (rv 0)) .res
  | .contMake | .optsFlag => xferAll 0 (n 0) .move .res ++ xferAll 1 (n 1) .move .res
  -- grids: par = [w, h, …] (storage order: x fastest)
  | .gridMap => callAll (rv 0) 0 (n 0) .res
  | .gridApply2 =>
    if par0 = par2 ∧ par1 = par3 then zipCall2 (rv 0) (rv 1) (n 0) .res else []
  | .gridResize => (List.range (par2 * par3)).map (gridCell (rv 0) par0 par1 par2)
  -- trees: the argument is the root value followed by the (leaf) children
  | .treeCtor => xferAll 0 (n 0) (fwd (rv 0)) .res
  | .treePushValue | .treePushTree => xferAll 1 (n 1) (fwd (rv 1)) (.arg 0)
  | .treeRelease => [.pop 0 (par0 + 1) .res]
  | .treeMap => deriveEach 0 (List.replicate (n 0) 1) .res
  | .optsOption => xferAll 0 (n 0) .move .res
  -- parse: par0 = length of the input; converter call j makes value 1000 + j
  | .parseSequence =>
    if 2 ≤ par0 then [.fresh 1000 .res, .fresh 1001 .res] else if par0 = 1 then [.fresh 1000 .drop] else []
  | .parseRepetition => (List.range par0).map fun j => .fresh (1000 + j) .res
  -- tuple::invoke: `std::apply(f, move_if_rvalue<Tuple>(t.impl()))` - every element reaches the function with the tuple's category
  | .tupInvoke => callAll (rv 0) 0 (n 0) .res
  -- tuple::apply: `tuple::get` has no rvalue overload, so the function gets an lvalue (`T &` / `T const &`) for every category
  | .tupApply2 => zipCall2 false false (n 0) .res
  | .arrApply2 => zipCall2 (rv 0) (rv 1) (n 0) .res
  | .tupFromArray => xferAll 0 (n 0) (fwd (rv 0)) .res
  -- tuple::make / array::make / the record constructor with two (scalar) arguments, each forwarded
  | .tupMake2 | .arrMake2 | .recCtor2 => xferAll 0 (n 0) (fwd (rv 0)) .res ++ xferAll 1 (n 1) (fwd (rv 1)) .res
  -- init: every element is made by the user's function
  | .tupInit | .arrInit | .recInit => freshRange par0 .res
  -- optional
  | .optMake | .optCtor | .optCopyValue => xferAll 0 (n 0) (fwd (rv 0)) .res
  | .optAssign =>
    -- `_optional = optional(std::forward<Arg>(_arg))`: the old content is overwritten, the new one moved in
    (if n 0 = 0 then [] else [.pop 0 0 .drop]) ++ [.xfer 1 0 .move (.arg 0)]
  | .optToException => xferAll 0 (n 0) (fwd (rv 0)) .res
  | .optMakeIf => if par0 = 1 then [.fresh 1000 .res] else []
  | .optMaybe => if n 0 = 0 then [.fresh 1000 .res] else callAll (rv 0) 0 (n 0) .res
  | .optMaybeVoid => callAll (rv 0) 0 (n 0) .res
  | .optMaybeMulti2 => if n 0 = 0 ∨ n 1 = 0 then [.fresh 1000 .res] else zipCall2 (rv 0) (rv 1) 1 .res
  | .optMaybeVoidMulti2 => if n 0 = 0 ∨ n 1 = 0 then [] else zipCall2 (rv 0) (rv 1) 1 .res
  -- either / variant constructors
  | .eithMakeSuccess | .eithMakeFailure | .eithCtor | .varCtor => xferAll 0 (n 0) (fwd (rv 0)) .res
  | .eithConstruct | .eithTryCall => if par0 = 1 then [.fresh 1000 .res] else [.fresh 1001 .res]
  -- to_exception: the success is returned, the failure handed to the user's `make_exception` (which keeps it in the exception)
  | .eithToException => if par0 = 1 then xferAll 0 (n 0) (fwd (rv 0)) .res else callAll (rv 0) 0 (n 0) .res
  | .eithErrorFromOptional => xferAll 0 (n 0) (fwd (rv 0)) .res
  | .eithSequenceError =>
    -- par = what the user's function answers per element (1 = no_error, 0 = a failure that keeps the element); an element handed over as
    -- an rvalue is taken by value: with the answer no_error it dies with the parameter
    match inp.par.findIdx? (· == 0) with
    | some k => sinkAll (rv 0) 0 k ++ [callAt (rv 0) 0 k .res]
    | none => sinkAll (rv 0) 0 (n 0)
  -- either::loop: par0 successes (each moved into the user's `loop` function, which keeps them), then the failure
  | .eithLoop => freshRange (par0 + 1) .res
  -- algorithm::find_opt / index_of / contains: `std::find`; par0 = k: the value looked for is element k of the range itself
  -- (`find_opt(v, v[k])`), k = size: it is the separate object of argument 1, equal to no element
  | .algFindOpt | .algIndexOf | .algContains => if par0 < n 0 then readAll 0 (par0 + 1) else readAll 0 (n 0) ++ [.read 1 0]
  -- find_if_opt: the predicate answers true at element par0
  | .algFindIfOpt => readAll 0 (min (n 0) (par0 + 1))
  -- find_by_opt: the user's function reads every element and answers with an optional holding a value derived from element par0
  | .algFindByOpt => deriveEach 0 ((List.replicate par0 0 ++ [1]).take (n 0)) .res
  | .algGenerateN => freshRange par0 .res
  | .algMapIteration | .algMapIterationSecond | .algSeqIteration => iterErase 0 inp.par
  -- container::insert into a map: par0 = index of the key among the keys present (size: a new key)
  | .contInsert => if par0 < n 0 then [] else xferAll 1 (n 1) (fwd (rv 1)) (.arg 0)
  -- set_union / set_difference / set_intersection take `Set const &`: elements are copied; par0 = 1: both arguments are the same set
  | .contSetUnion => xferAll 0 (n 0) .copy .res ++ (if par0 = 1 then [] else xferAll 1 (n 1) .copy .res)
  | .contSetDifference => if par0 = 1 then [] else xferAll 0 (n 0) .copy .res
  | .contSetIntersection => if par0 = 1 then xferAll 0 (n 0) .copy .res else []
  | .contMapValuesCopy => xferAll 0 (n 0) .copy .res
  -- at_optional / maybe_back / maybe_front / find_opt_mapped return (optional) references: no element is touched
  | .contAtOptional | .contMaybeBack | .contMaybeFront | .contFindOptMapped => []
  -- index_map::get(index, insert): `push_back(insert())` until the index exists
  | .contIndexMapGet => freshRange (par0 + 1 - n 0) (.arg 0)
  -- tree: argument 0 = the value of the root, argument 1 = the children (their subtrees in pre-order)
  | .treeCtorTree | .treeCtorChildren =>
    if rv 0 then [.xfer 0 0 .move .res, .steal 1 .res] else .xfer 0 0 .copy .res :: xferAll 1 (n 1) .copy .res
  | .treeAssign =>
    -- target = arguments 0 / 1, source = arguments 2 / 3: `value_ = other.value_; children_ = copy/move_children(other.children_)`
    [.pop 0 0 .drop, .xfer 2 0 (fwd (rv 2)) (.arg 0), .steal 1 .drop] ++
      (if rv 2 then [.steal 3 (.arg 1)] else xferAll 3 (n 3) .copy (.arg 1))
  | .treeSelfAssign => []
  | .treeSetValue => [.pop 0 0 .drop, .xfer 1 0 (fwd (rv 1)) (.arg 0)]
  | .treePushFrontValue | .treeInsertValue | .treePushFrontTree | .treeInsertTree => xferAll 1 (n 1) (fwd (rv 1)) (.arg 0)
  | .treePopBack => if n 0 ≤ 1 then [] else [.pop 0 (n 0 - 1) .res]
  | .treePopFront => if n 0 ≤ 1 then [] else [.pop 0 1 .res]
  | .treeErase => eraseRange 0 (par0 + 1) (par0 + 2)
  | .treeEraseRange => eraseRange 0 (par0 + 1) (par1 + 1)
  | .treeClear => eraseRange 0 1 (n 0)
  | .treeSort => readAll 0 (n 0)
  -- grid constructors: from a function, from one value (copied into every cell), from static rows, from a grid
  | .gridCtorFn => freshRange (par0 * par1) .res
  | .gridCtorValue => (List.range (par0 * par1)).map fun _ => .xfer 0 0 .copy .res
  | .gridCtorRows2 | .gridStaticRow2 => xferAll 0 (n 0) (fwd (rv 0)) .res ++ xferAll 1 (n 1) (fwd (rv 1)) .res
  | .gridCtorGrid => whole (rv 0) 0 (n 0) .res
  | .gridAssign => .steal 0 .drop :: (if rv 1 then [.steal 1 (.arg 0)] else xferAll 1 (n 1) .copy (.arg 0))
  | .gridSelfAssign => []
  | .gridFill => fillAll 0 (n 0)
  -- parse / options: no arguments, every value is made by the user's converter (parse) or read from the command line (options::argument)
  -- and then *moved* through the combinators: `-p`, convert, argument, options::optional - par0 = 1: the input matches
  | .parseOpt | .parseConvert | .optsArgument | .optsOptional => if par0 = 1 then [.fresh 1000 .res] else []
  -- `a | b`: par0 = 0: the left alternative matches, 1: the right one, 2: none
  | .parseAlt => if par0 ≤ 1 then [.fresh 1000 .res] else []
  -- as_struct(a >> b) / options::apply (product) of two arguments: par0 = how many of the two inputs are there; a first value
  -- without the second is destroyed
  | .parseAsStruct | .optsProduct =>
    if 2 ≤ par0 then [.fresh 1000 .res, .fresh 1001 .res] else if par0 = 1 then [.fresh 1000 .drop] else []
  | .parseSeparator | .parseList | .parseRepPlus | .optsMany => freshRange par0 .res
  -- options sum (left = a product of two arguments | right = one argument): par0 = 0: two arguments are given, the left parser
  -- takes them; 1: one argument is given, the left parser fails after reading it (its value is destroyed), the right one reads it again
  -- tree::swap: `std::swap` of the two root values (three moves), the child lists change owner (argument 3 is the empty scratch
  -- list that stands for "at the same time")
  | .treeSwap => [.swap 0 0 1, .steal 1 (.arg 3), .steal 2 (.arg 1), .steal 3 (.arg 2)]
  | .treeSortPred => readAll 0 (n 0)
  -- the same lvalue object as both arguments: join(a, a), array::join(a, a), tuple::concat(t, t): every element is copied twice
  | .joinSelf | .arrJoinSelf | .tupConcatSelf => xferAll 0 (n 0) .copy .res ++ xferAll 0 (n 0) .copy .res
  -- optional::combine(o, o, f): the function reads its second argument and derives from the first - the same object
  | .optCombineSelf => if n 0 = 0 then [] else [.read 0 0, .derive 0 0 1 .res]
  -- algorithm::map with a list source and a deque target (no reserve), array -> array (map_array.hpp), tuple -> tuple (map_tuple.hpp)
  | .algMapList | .algMapArr | .algMapTup => callAll (rv 0) 0 (n 0) .res
  -- algorithm::loop_break over a tuple (loop_break_tuple.hpp): the body reads the elements and breaks at element par0
  | .algLoopBreakTuple => readAll 0 (min (n 0) (par0 + 1))
  -- record::set<Label>(record, value): element par0 is overwritten
  | .recSet => [.pop 0 par0 .drop, .xfer 1 0 (fwd (rv 1)) (.arg 0)]
  -- remove_if / unique_if: par = what the predicate answers per element (0 = remove; for unique_if: 0 = "equal to the element kept last")
  | .algRemoveIf | .algUniqueIf => compact 0 inp.par
  -- remove(container, value): the value is captured by copy; the tokens are pairwise different, so nothing is removed
  | .algRemove => .xfer 1 0 .copy .drop :: readAll 0 (n 0)
  -- unique with operator==: pairwise different tokens, nothing is removed
  | .algUnique => readAll 0 (n 0)
  | .algSeqIterationVec => iterEraseVec 0 inp.par
  | .optsSum => if par0 = 0 then [.fresh 1000 .res, .fresh 1001 .res] else [.fresh 1000 .drop, .fresh 1000 .res]

def jn (b : Bool) : String := if b then "J" else "N"
def sf (b : Bool) : String := if b then "S" else "F"

/-- the shape of the result (which alternative, present/absent, the element a returned reference points to) -/
def tag (o : Op) (inp : Input) : String :=
  match o with
  | .popBack | .popFront => if inp.size 0 = 0 then "N" else "J"
  | .getOrInsert =>
    match (inp.ids 0)[inp.par.headD 0]? with
    | some x => s!"R{x}"
    | none => "R1000"
  | .getOrInsertWithResult =>
    match (inp.ids 0)[inp.par.headD 0]? with
    | some x => s!"R{x}/0"
    | none => "R1000/1"
  | .optMap | .optJoin => jn (inp.size 0 == 1)
  | .optBind | .optFilter => jn (inp.size 0 == 1 && inp.par.headD 0 == 1)
  | .optAlt => jn (inp.size 0 == 1 || inp.par.headD 0 == 1)
  | .optCombine => jn (inp.size 0 == 1 || inp.size 1 == 1)
  | .optApply2 => jn (inp.size 0 == 1 && inp.size 1 == 1)
  | .optSequence => jn (inp.par.all (· == 1))
  | .eithMap | .eithMapFailure => sf (inp.par.headD 0 == 1)
  | .eithBind => sf (inp.par.headD 0 == 1 && (inp.par.drop 1).headD 0 == 1)
  | .eithSuccessOpt => jn (inp.par.headD 0 == 1)
  | .eithFailureOpt => jn (inp.par.headD 0 == 0)
  | .eithFromOptional => sf (inp.size 0 == 1)
  | .eithJoin => sf (inp.par.headD 0 == 2)
  | .eithApply2 => sf (inp.par.headD 0 == 1 && (inp.par.drop 1).headD 0 == 1)
  | .eithSequence => sf (inp.par.all (· == 1))
  | .eithFirstSuccess => sf (inp.par.any (· == 1))
  | .varToOptional => jn (inp.par.headD 0 == (inp.par.drop 1).headD 0)
  | .arrFromRange => jn (inp.par.headD 0 == inp.size 0)
  | .parseSequence => sf (2 ≤ inp.par.headD 0)
  | .parseRepetition => "S"
  | .optMake | .optCtor => "J"
  | .optCopyValue | .eithErrorFromOptional => jn (inp.size 0 == 1)
  | .optAssign => match inp.ids 1 with | x :: _ => s!"R{x}" | [] => "R?"
  | .optToException => if inp.size 0 == 1 then "-" else "exc"
  | .optMakeIf => jn (inp.par.headD 0 == 1)
  | .eithMakeSuccess => "S"
  | .eithMakeFailure => "F"
  | .eithCtor | .eithConstruct | .eithTryCall => sf (inp.par.headD 0 == 1)
  | .eithToException => if inp.par.headD 0 == 1 then "-" else "exc"
  | .eithSequenceError => sf (inp.par.all (· == 1))
  | .varCtor => s!"A{inp.par.headD 0}"
  | .algFindOpt | .algFindIfOpt => match (inp.ids 0)[inp.par.headD 0]? with | some x => s!"J{x}" | none => "N"
  | .algIndexOf => if inp.par.headD 0 < inp.size 0 then s!"J{inp.par.headD 0}" else "N"
  | .algContains => if inp.par.headD 0 < inp.size 0 then "1" else "0"
  | .contInsert => if inp.par.headD 0 < inp.size 0 then "I0" else "I1"
  | .algFindByOpt => jn (inp.par.headD 0 < inp.size 0)
  | .algMapIteration | .algMapIterationSecond | .algSeqIteration => "-"
  | .contAtOptional | .contFindOptMapped => match (inp.ids 0)[inp.par.headD 0]? with | some x => s!"R{x}" | none => "N"
  | .contMaybeBack => match (inp.ids 0).getLast? with | some x => s!"R{x}" | none => "N"
  | .contMaybeFront => match (inp.ids 0).head? with | some x => s!"R{x}" | none => "N"
  | .contIndexMapGet =>
    match (inp.ids 0)[inp.par.headD 0]? with | some x => s!"R{x}" | none => s!"R{1000 + (inp.par.headD 0 - inp.size 0)}"
  | .treePopBack | .treePopFront => jn (decide (1 < inp.size 0))
  | .parseOpt => jn (inp.par.headD 0 == 1)
  | .optsOptional => if inp.par.headD 0 == 1 then "SJ" else "SN"
  | .parseConvert | .optsArgument => sf (inp.par.headD 0 == 1)
  | .parseAlt => sf (decide (inp.par.headD 0 ≤ 1))
  | .parseAsStruct | .optsProduct => sf (decide (2 ≤ inp.par.headD 0))
  | .parseSeparator | .parseList | .optsMany => "S"
  | .parseRepPlus => sf (decide (1 ≤ inp.par.headD 0))
  | .optsSum => if inp.par.headD 0 == 0 then "L" else "R"
  | .optCombineSelf => jn (inp.size 0 == 1)
  | .algRemoveIf => if inp.par.any (· == 0) then "1" else "0"
  | .algRemove => "0"
  | _ => "-"

/-! ## well-formed inputs -/

def catIn (inp : Input) (a : Nat) (cs : List Cat) : Bool :=
  match inp.cat a with | some c => cs.contains c | none => false

def anyCat : List Cat := [.lv, .cr, .rv]

def allIds (inp : Input) : List Nat := inp.args.flatMap (·.2)

/-- identities are pairwise distinct and below 100 (derived values are `id + 100·j`, fresh ones ≥ 1000) -/
def idsOk (inp : Input) : Bool := decide (allIds inp).Nodup && (allIds inp).all (· < 100)

def shapeOk (o : Op) (inp : Input) : Bool :=
  let n := inp.size
  match o with
  | .algMap | .reverse => inp.args.length == 1 && catIn inp 0 anyCat && inp.par.isEmpty
  | .fold => inp.args.length == 2 && catIn inp 0 anyCat && catIn inp 1 [.rv] && n 1 == 1 && inp.par.isEmpty
  | .foldBreak => inp.args.length == 2 && catIn inp 0 anyCat && catIn inp 1 [.rv] && n 1 == 1 && inp.par.length == 1
  | .mapConcat => inp.args.length == 1 && catIn inp 0 anyCat && inp.par.length == n 0 && inp.par.all (· ≤ 2)
  | .mapOptional => inp.args.length == 1 && catIn inp 0 anyCat && inp.par.length == n 0 && inp.par.all (· ≤ 1)
  | .join2 => inp.args.length == 2 && catIn inp 0 anyCat && catIn inp 1 anyCat && inp.par.isEmpty
  | .join3 => inp.args.length == 3 && catIn inp 0 anyCat && catIn inp 1 anyCat && catIn inp 2 anyCat && inp.par.isEmpty
  | .popBack | .popFront | .moveClear => inp.args.length == 1 && catIn inp 0 [.io] && inp.par.isEmpty
  | .moveRangeMap => inp.args.length == 1 && catIn inp 0 [.rv] && inp.par.isEmpty
  | .getOrInsert | .getOrInsertWithResult =>
    inp.args.length == 1 && catIn inp 0 [.io] && inp.par.length == 1 && inp.par.headD 0 ≤ n 0
  | .optMap | .optFrom | .optToContainer => inp.args.length == 1 && catIn inp 0 anyCat && n 0 ≤ 1 && inp.par.isEmpty
  | .optBind | .optAlt | .optFilter =>
    inp.args.length == 1 && catIn inp 0 anyCat && n 0 ≤ 1 && inp.par.length == 1 && inp.par.headD 0 ≤ 1
  | .optJoin =>
    -- par = [outer]: whether the outer optional holds an (inner) optional
    inp.args.length == 1 && catIn inp 0 anyCat && n 0 ≤ 1 && inp.par.length == 1 && inp.par.headD 0 ≤ 1 && n 0 ≤ inp.par.headD 0
  | .optCombine | .optApply2 =>
    inp.args.length == 2 && catIn inp 0 anyCat && catIn inp 1 anyCat && n 0 ≤ 1 && n 1 ≤ 1 && inp.par.isEmpty
  | .optSequence | .optCat =>
    inp.args.length == 1 && catIn inp 0 anyCat && inp.par.all (· ≤ 1) && inp.par.count 1 == n 0
  | .moveIf =>
    -- par = [Cond]; `l`: a non-const lvalue that must stay (Cond false), `i`: one the caller asked to move (Cond true)
    inp.args.length == 1 && catIn inp 0 [.lv, .cr, .rv, .io] && n 0 == 1 && inp.par.length == 1 && inp.par.headD 0 ≤ 1 &&
      (inp.cat 0 != some .lv || inp.par.headD 0 == 0) && (inp.cat 0 != some .io || inp.par.headD 0 == 1)
  | .moveIfRvalue =>
    -- par = [Type]: 0 = T&, 1 = T const&, 2 = T, 3 = T&&
    inp.args.length == 1 && catIn inp 0 [.lv, .cr, .rv, .io] && n 0 == 1 && inp.par.length == 1 && inp.par.headD 0 ≤ 3 &&
      (inp.cat 0 != some .lv || inp.par.headD 0 ≤ 1) && (inp.cat 0 != some .io || 2 ≤ inp.par.headD 0)
  | .eithMap | .eithMapFailure | .eithMatch | .eithSuccessOpt | .eithFailureOpt =>
    inp.args.length == 1 && catIn inp 0 anyCat && n 0 == 1 && inp.par.length == 1 && inp.par.headD 0 ≤ 1
  | .eithBind =>
    inp.args.length == 1 && catIn inp 0 anyCat && n 0 == 1 && inp.par.length == 2 && inp.par.all (· ≤ 1)
  | .eithFromOptional => inp.args.length == 1 && catIn inp 0 anyCat && n 0 ≤ 1 && inp.par.isEmpty
  | .eithJoin =>
    -- par = [shape]: 0 = failure x, 1 = success (failure x), 2 = success (success x)
    inp.args.length == 1 && catIn inp 0 anyCat && n 0 == 1 && inp.par.length == 1 && inp.par.headD 0 ≤ 2
  | .eithApply2 =>
    inp.args.length == 2 && catIn inp 0 anyCat && catIn inp 1 anyCat && n 0 == 1 && n 1 == 1 && inp.par.length == 2 &&
      inp.par.all (· ≤ 1)
  | .eithSequence => inp.args.length == 1 && catIn inp 0 [.rv] && inp.par.length == n 0 && inp.par.all (· ≤ 1)
  | .eithFirstSuccess => inp.args.length == 0 && inp.par.all (· ≤ 1)
  | .varMatch | .varApply => inp.args.length == 1 && catIn inp 0 anyCat && n 0 == 1 && inp.par.length == 1 && inp.par.headD 0 ≤ 2
  | .varApply2 =>
    inp.args.length == 2 && catIn inp 0 anyCat && catIn inp 1 anyCat && n 0 == 1 && n 1 == 1 && inp.par.length == 2 &&
      inp.par.all (· ≤ 2)
  | .varToOptional =>
    -- par = [alternative held, alternative asked for (0 or 1)]
    inp.args.length == 1 && catIn inp 0 anyCat && n 0 == 1 && inp.par.length == 2 && inp.par.headD 0 ≤ 2 &&
      (inp.par.drop 1).headD 0 ≤ 1
  | .tupMap | .arrMap => inp.args.length == 1 && catIn inp 0 anyCat && inp.par.isEmpty
  | .recMap => inp.args.length == 1 && catIn inp 0 [.rv] && inp.par.isEmpty
  | .tupPushBack => inp.args.length == 2 && catIn inp 0 anyCat && catIn inp 1 anyCat && n 1 == 1 && inp.par.isEmpty
  | .tupConcat => inp.args.length == 2 && catIn inp 0 anyCat && catIn inp 1 anyCat && inp.par.isEmpty
  | .arrPushBack => inp.args.length == 2 && catIn inp 0 anyCat && catIn inp 1 anyCat && n 1 == 1 && inp.par.isEmpty
  | .arrJoin2 => inp.args.length == 2 && catIn inp 0 anyCat && catIn inp 1 anyCat && inp.par.isEmpty
  | .arrJoin3 => inp.args.length == 3 && catIn inp 0 anyCat && catIn inp 1 anyCat && catIn inp 2 anyCat && inp.par.isEmpty
  | .arrFromRange => inp.args.length == 1 && catIn inp 0 anyCat && inp.par.length == 1
  | .recPermute =>
    -- par = the permutation: position j of the result takes the element of position par[j]
    inp.args.length == 1 && catIn inp 0 anyCat && inp.par.length == n 0 && decide inp.par.Nodup && inp.par.all (· < n 0)
  | .recMultiplyDisjoint => inp.args.length == 2 && catIn inp 0 anyCat && catIn inp 1 anyCat && inp.par.isEmpty
  | .contMake => inp.args.length == 2 && catIn inp 0 [.rv, .io] && catIn inp 1 [.rv, .io] && n 0 == 1 && n 1 == 1 && inp.par.isEmpty
  | .gridMap => inp.args.length == 1 && catIn inp 0 anyCat && inp.par.length == 2 && inp.par.headD 0 * (inp.par.drop 1).headD 0 == n 0
  | .gridApply2 =>
    inp.args.length == 2 && catIn inp 0 anyCat && catIn inp 1 anyCat && inp.par.length == 4 &&
      inp.par.headD 0 * (inp.par.drop 1).headD 0 == n 0 && (inp.par.drop 2).headD 0 * (inp.par.drop 3).headD 0 == n 1
  | .gridResize =>
    inp.args.length == 1 && catIn inp 0 anyCat && inp.par.length == 4 && inp.par.headD 0 * (inp.par.drop 1).headD 0 == n 0
  | .treeCtor => inp.args.length == 1 && catIn inp 0 anyCat && n 0 == 1 && inp.par.isEmpty
  | .treePushValue => inp.args.length == 2 && catIn inp 0 [.io] && catIn inp 1 anyCat && 1 ≤ n 0 && n 1 == 1 && inp.par.isEmpty
  | .treePushTree => inp.args.length == 2 && catIn inp 0 [.io] && catIn inp 1 [.rv] && 1 ≤ n 0 && n 1 == 1 && inp.par.isEmpty
  | .treeRelease => inp.args.length == 1 && catIn inp 0 [.io] && inp.par.length == 1 && inp.par.headD 0 + 1 < n 0
  | .treeMap => inp.args.length == 1 && catIn inp 0 anyCat && 1 ≤ n 0 && inp.par.isEmpty
  | .optsFlag => inp.args.length == 2 && catIn inp 0 [.rv] && catIn inp 1 [.rv] && n 0 == 1 && n 1 == 1 && inp.par.isEmpty
  | .optsOption => inp.args.length == 1 && catIn inp 0 [.rv] && n 0 ≤ 1 && inp.par.isEmpty
  | .parseSequence => inp.args.length == 0 && inp.par.length == 1 && inp.par.headD 0 ≤ 2
  | .parseRepetition => inp.args.length == 0 && inp.par.length == 1
  | .tupInvoke | .tupFromArray => inp.args.length == 1 && catIn inp 0 anyCat && inp.par.isEmpty
  | .tupApply2 => inp.args.length == 2 && catIn inp 0 [.rv] && catIn inp 1 anyCat && n 0 == n 1 && inp.par.isEmpty
  | .arrApply2 => inp.args.length == 2 && catIn inp 0 anyCat && catIn inp 1 anyCat && n 0 == n 1 && inp.par.isEmpty
  | .tupMake2 | .arrMake2 => inp.args.length == 2 && catIn inp 0 anyCat && catIn inp 1 anyCat && n 0 == 1 && n 1 == 1 && inp.par.isEmpty
  | .recCtor2 =>
    -- par = [order]: 0 = the initializers are given in label order, 1 = swapped
    inp.args.length == 2 && catIn inp 0 anyCat && catIn inp 1 anyCat && n 0 == 1 && n 1 == 1 && inp.par.length == 1 && inp.par.headD 0 ≤ 1
  | .tupInit | .arrInit | .recInit | .eithLoop => inp.args.length == 0 && inp.par.length == 1
  | .optMake | .optCtor => inp.args.length == 1 && catIn inp 0 anyCat && n 0 == 1 && inp.par.isEmpty
  | .optCopyValue => inp.args.length == 1 && catIn inp 0 [.lv, .cr] && n 0 ≤ 1 && inp.par.isEmpty
  | .optAssign => inp.args.length == 2 && catIn inp 0 [.io] && catIn inp 1 [.rv] && n 0 ≤ 1 && n 1 == 1 && inp.par.isEmpty
  | .optToException | .optMaybe | .optMaybeVoid | .eithErrorFromOptional =>
    inp.args.length == 1 && catIn inp 0 anyCat && n 0 ≤ 1 && inp.par.isEmpty
  | .optMakeIf | .eithConstruct | .eithTryCall => inp.args.length == 0 && inp.par.length == 1 && inp.par.headD 0 ≤ 1
  | .optMaybeMulti2 | .optMaybeVoidMulti2 =>
    inp.args.length == 2 && catIn inp 0 anyCat && catIn inp 1 anyCat && n 0 ≤ 1 && n 1 ≤ 1 && inp.par.isEmpty
  | .eithMakeSuccess | .eithMakeFailure => inp.args.length == 1 && catIn inp 0 anyCat && n 0 == 1 && inp.par.isEmpty
  | .eithCtor | .eithToException =>
    inp.args.length == 1 && catIn inp 0 anyCat && n 0 == 1 && inp.par.length == 1 && inp.par.headD 0 ≤ 1
  | .varCtor => inp.args.length == 1 && catIn inp 0 anyCat && n 0 == 1 && inp.par.length == 1 && inp.par.headD 0 ≤ 2
  | .eithSequenceError => inp.args.length == 1 && catIn inp 0 anyCat && inp.par.length == n 0 && inp.par.all (· ≤ 1)
  | .algFindOpt | .algIndexOf | .algContains =>
    inp.args.length == 2 && catIn inp 0 [.lv, .cr] && catIn inp 1 [.cr] && n 1 == 1 && inp.par.length == 1 && inp.par.headD 0 ≤ n 0
  | .algFindIfOpt | .algFindByOpt => inp.args.length == 1 && catIn inp 0 [.lv, .cr] && inp.par.length == 1 && inp.par.headD 0 ≤ n 0
  | .algGenerateN => inp.args.length == 0 && inp.par.length == 1
  | .algMapIteration | .algMapIterationSecond | .algSeqIteration =>
    inp.args.length == 1 && catIn inp 0 [.io] && inp.par.length == n 0 && inp.par.all (· ≤ 1)
  | .contInsert =>
    inp.args.length == 2 && catIn inp 0 [.io] && catIn inp 1 anyCat && n 1 == 1 && inp.par.length == 1 && inp.par.headD 0 ≤ n 0
  | .contSetUnion | .contSetDifference | .contSetIntersection =>
    inp.args.length == 2 && catIn inp 0 [.lv, .cr] && catIn inp 1 [.lv, .cr] && inp.par.length == 1 && inp.par.headD 0 ≤ 1 &&
      (inp.par.headD 0 == 0 || n 1 == 0)
  | .contMapValuesCopy => inp.args.length == 1 && catIn inp 0 [.lv, .cr] && inp.par.isEmpty
  | .contAtOptional | .contFindOptMapped => inp.args.length == 1 && catIn inp 0 [.lv, .cr] && inp.par.length == 1 && inp.par.headD 0 ≤ n 0
  | .contMaybeBack | .contMaybeFront => inp.args.length == 1 && catIn inp 0 [.lv, .cr] && inp.par.isEmpty
  | .contIndexMapGet => inp.args.length == 1 && catIn inp 0 [.io] && inp.par.length == 1
  | .treeCtorTree =>
    inp.args.length == 2 && catIn inp 0 anyCat && catIn inp 1 anyCat && inp.cat 0 == inp.cat 1 && n 0 == 1 && inp.par.isEmpty
  | .treeCtorChildren => inp.args.length == 2 && catIn inp 0 [.rv] && catIn inp 1 [.rv] && n 0 == 1 && inp.par.isEmpty
  | .treeAssign =>
    inp.args.length == 4 && catIn inp 0 [.io] && catIn inp 1 [.io] && catIn inp 2 anyCat && catIn inp 3 anyCat &&
      inp.cat 2 == inp.cat 3 && n 0 == 1 && n 2 == 1 && inp.par.isEmpty
  | .treeSelfAssign =>
    -- par = [0: copy assignment, 1: move assignment]
    inp.args.length == 2 && catIn inp 0 [.io] && catIn inp 1 [.io] && n 0 == 1 && inp.par.length == 1 && inp.par.headD 0 ≤ 1
  | .treeSetValue => inp.args.length == 2 && catIn inp 0 [.io] && catIn inp 1 anyCat && n 0 == 1 && n 1 == 1 && inp.par.isEmpty
  | .treePushFrontValue => inp.args.length == 2 && catIn inp 0 [.io] && catIn inp 1 anyCat && 1 ≤ n 0 && n 1 == 1 && inp.par.isEmpty
  | .treeInsertValue =>
    inp.args.length == 2 && catIn inp 0 [.io] && catIn inp 1 anyCat && 1 ≤ n 0 && n 1 == 1 && inp.par.length == 1 && inp.par.headD 0 < n 0
  | .treePushFrontTree => inp.args.length == 2 && catIn inp 0 [.io] && catIn inp 1 [.rv] && 1 ≤ n 0 && n 1 == 1 && inp.par.isEmpty
  | .treeInsertTree =>
    inp.args.length == 2 && catIn inp 0 [.io] && catIn inp 1 [.rv] && 1 ≤ n 0 && n 1 == 1 && inp.par.length == 1 && inp.par.headD 0 < n 0
  | .treePopBack | .treePopFront | .treeClear | .treeSort => inp.args.length == 1 && catIn inp 0 [.io] && 1 ≤ n 0 && inp.par.isEmpty
  | .treeErase => inp.args.length == 1 && catIn inp 0 [.io] && inp.par.length == 1 && inp.par.headD 0 + 1 < n 0
  | .treeEraseRange =>
    inp.args.length == 1 && catIn inp 0 [.io] && inp.par.length == 2 && inp.par.headD 0 ≤ (inp.par.drop 1).headD 0 &&
      (inp.par.drop 1).headD 0 < n 0
  | .gridCtorFn => inp.args.length == 0 && inp.par.length == 2
  | .gridCtorValue => inp.args.length == 1 && catIn inp 0 [.cr] && n 0 == 1 && inp.par.length == 2
  | .gridCtorRows2 => inp.args.length == 2 && catIn inp 0 [.rv] && catIn inp 1 [.rv] && n 0 == n 1 && 1 ≤ n 0 && inp.par.isEmpty
  | .gridStaticRow2 => inp.args.length == 2 && catIn inp 0 anyCat && catIn inp 1 anyCat && n 0 == 1 && n 1 == 1 && inp.par.isEmpty
  | .gridCtorGrid => inp.args.length == 1 && catIn inp 0 anyCat && inp.par.length == 2 && inp.par.headD 0 * (inp.par.drop 1).headD 0 == n 0
  | .gridAssign => inp.args.length == 2 && catIn inp 0 [.io] && catIn inp 1 anyCat && inp.par.isEmpty
  | .gridSelfAssign =>
    inp.args.length == 1 && catIn inp 0 [.io] && inp.par.length == 1 && inp.par.headD 0 ≤ 1
  | .gridFill => inp.args.length == 1 && catIn inp 0 [.io] && inp.par.isEmpty
  | .parseOpt | .parseConvert | .optsArgument | .optsOptional | .optsSum => inp.args.length == 0 && inp.par.length == 1 && inp.par.headD 0 ≤ 1
  | .parseAlt | .parseAsStruct | .optsProduct => inp.args.length == 0 && inp.par.length == 1 && inp.par.headD 0 ≤ 2
  | .parseSeparator | .parseList | .parseRepPlus | .optsMany => inp.args.length == 0 && inp.par.length == 1
  | .algRemoveIf | .algSeqIterationVec => inp.args.length == 1 && catIn inp 0 [.io] && inp.par.length == n 0 && inp.par.all (· ≤ 1)
  | .algUniqueIf =>
    inp.args.length == 1 && catIn inp 0 [.io] && inp.par.length == n 0 && inp.par.all (· ≤ 1) && inp.par.headD 1 == 1
  | .algUnique => inp.args.length == 1 && catIn inp 0 [.io] && inp.par.isEmpty
  | .algRemove => inp.args.length == 2 && catIn inp 0 [.io] && catIn inp 1 [.cr] && n 1 == 1 && inp.par.isEmpty
  | .treeSwap =>
    inp.args.length == 4 && catIn inp 0 [.io] && catIn inp 1 [.io] && catIn inp 2 [.io] && catIn inp 3 [.io] && n 0 == 2 && n 3 == 0 &&
      inp.par.isEmpty
  | .treeSortPred => inp.args.length == 1 && catIn inp 0 [.io] && 1 ≤ n 0 && inp.par.isEmpty
  | .joinSelf | .arrJoinSelf | .tupConcatSelf => inp.args.length == 1 && catIn inp 0 [.lv, .cr] && inp.par.isEmpty
  | .optCombineSelf => inp.args.length == 1 && catIn inp 0 [.lv, .cr] && n 0 ≤ 1 && inp.par.isEmpty
  | .algMapList | .algMapArr | .algMapTup => inp.args.length == 1 && catIn inp 0 anyCat && inp.par.isEmpty
  | .algLoopBreakTuple => inp.args.length == 1 && catIn inp 0 anyCat && inp.par.length == 1 && inp.par.headD 0 ≤ n 0
  | .recSet =>
    inp.args.length == 2 && catIn inp 0 [.io] && catIn inp 1 anyCat && n 1 == 1 && inp.par.length == 1 && inp.par.headD 0 < n 0

def wf (o : Op) (inp : Input) : Bool := idsOk inp && shapeOk o inp

/-- The operation is documented to keep every element of argument `a`: passed as an rvalue, each of its elements is
in the result afterwards (`map`-like operations with the identity-preserving function of the harness, joins, pushes,
permutations, constructors; `sequence` on success; `from_range` when the size fits; `filter`/`bind` when the function keeps). -/
def keeps (o : Op) (inp : Input) (a : Nat) : Bool :=
  match o with
  | .algMap | .tupMap | .arrMap | .recMap | .gridMap | .optMap | .varMatch | .varApply | .eithMatch
  | .reverse | .join2 | .join3 | .tupPushBack | .tupConcat | .arrPushBack | .arrJoin2 | .arrJoin3
  | .recPermute | .recMultiplyDisjoint | .contMake | .optsFlag | .optsOption | .treeCtor
  | .optJoin | .optCat | .optToContainer | .optFrom | .optAlt | .eithJoin | .eithMap | .eithMapFailure | .eithFromOptional
  | .eithBind | .moveIf | .moveIfRvalue
  | .tupInvoke | .tupFromArray | .tupMake2 | .arrMake2 | .recCtor2 | .arrApply2
  | .optMake | .optCtor | .optToException | .optMaybe | .optMaybeVoid
  | .eithMakeSuccess | .eithMakeFailure | .eithCtor | .eithToException | .eithErrorFromOptional | .varCtor
  | .algMapList | .algMapArr | .algMapTup
  | .varApply2 | .treeCtorTree | .treeCtorChildren | .gridCtorRows2 | .gridStaticRow2 | .gridCtorGrid => true
  | .optApply2 | .optMaybeMulti2 | .optMaybeVoidMulti2 => inp.size 0 == 1 && inp.size 1 == 1
  | .gridApply2 => inp.par.headD 0 == (inp.par.drop 2).headD 0 && (inp.par.drop 1).headD 0 == (inp.par.drop 3).headD 0
  | .fold | .foldBreak => a == 1
  | .optSequence | .eithSequence => inp.par.all (· == 1)
  | .arrFromRange => inp.par.headD 0 == inp.size 0
  | .optFilter | .optBind => inp.par.headD 0 == 1
  | _ => false

/-- the operations whose program destroys values it took or made (a second failure in `either::apply`, the failures before the
first success in `first_success`, a half-parsed sequence, the emptied `move_range`) -/
def drops : Op → Bool
  | .eithApply2 | .eithFirstSuccess | .parseSequence | .moveRangeMap | .optCombine | .optAssign | .optBind | .eithSequenceError
  | .algMapIteration | .algMapIterationSecond | .algSeqIteration | .treeAssign | .treeSetValue | .treeErase | .treeEraseRange | .treeClear
  | .gridAssign | .gridFill | .parseAsStruct | .optsProduct | .optsSum | .recSet | .algRemoveIf | .algUniqueIf | .algRemove | .algSeqIterationVec => true
  | _ => false

/-! ## which transfers are calls of a user's function

The value category with which the library hands an element to a user's function is part of the event abstraction (`uc=` of the result
line): `derive` = the function got an lvalue (`l`); a `read` in an operation whose reads are the user's predicate / action = `l`
(`userReads`; the other reads are comparisons made by the library or by std algorithms); an `xfer … move` in an operation (branch) whose
moves are the hand-over of an rvalue to the user's function, which takes it by value = `r` (`userMoves`; the other moves are the library's
own: forwarding into a result, constructors, `join`, …). -/

def userReads : Op → Bool
  | .optFilter | .algFindIfOpt | .algLoopBreakTuple | .algMapIteration | .algMapIterationSecond | .algSeqIteration | .algSeqIterationVec
  | .algRemoveIf | .eithSequenceError | .optCombine | .optCombineSelf => true
  | _ => false

def userMoves (o : Op) (inp : Input) : Bool :=
  let par0 := inp.par.headD 0
  let par1 := (inp.par.drop 1).headD 0
  match o with
  | .algMap | .algMapList | .algMapArr | .algMapTup | .tupMap | .arrMap | .recMap | .gridMap | .optMap | .varMatch | .varApply | .varApply2
  | .eithMatch | .tupInvoke | .optMaybe | .optMaybeVoid | .optMaybeMulti2 | .optMaybeVoidMulti2 | .moveRangeMap | .arrApply2 | .optBind
  | .optApply2 | .gridApply2 | .eithSequenceError => true
  | .eithBind | .eithMap => par0 == 1
  | .eithMapFailure | .eithToException => par0 != 1
  | .eithApply2 => par0 == 1 && par1 == 1
  | .optCombine => inp.size 0 == 1 && inp.size 1 == 1
  | _ => false

/-- the value categories of the user-function calls of a program, in order -/
def ucOf (o : Op) (inp : Input) : Instr → List Char
  | .derive _ _ _ _ => ['l']
  | .read _ _ => if userReads o then ['l'] else []
  | .xfer _ _ .move _ => if userMoves o inp then ['r'] else []
  | _ => []

/-! ## the programs of three repaired defects, kept for the refuted examples in Props/C05.lean -/

/-- `either::bind` before fix f5622af, failure alternative: `result_type{_either.get_failure_unsafe()}` — a copy whatever the value category -/
def oldEithBindFailure : List Instr := [.xfer 0 0 .copy .res]

/-- the `options::flag` constructor before fix 986d19b: both values are moved into the members, then the (moved-from) arguments are compared -/
def oldOptsFlag : List Instr := [.xfer 0 0 .move .res, .xfer 1 0 .move .res, .read 0 0, .read 1 0]

/-- `optional::to_container` before fix 9030486: the element of the source itself went to `container::make`, which moves out of it -/
def oldOptToContainer (n : Nat) : List Instr := xferAll 0 n .move .res

/-- `parse::repetition_plus` before fix aef45df: `result_type{std::move(first)}` - the first result (here an rvalue argument) went
through an initializer_list and was copied into the vector; the remaining results were moved -/
def oldParseRepPlus (n : Nat) : List Instr := .xfer 0 0 .copy .res :: (List.range (n - 1)).map fun j => .xfer 0 (j + 1) .move .res

/-- the outcome of an operation: the machine state after its program -/
def exec (o : Op) (inp : Input) : St := run (prog o inp) (St.init (inp.args.map (·.2)))

def Op.all : List Op :=
  [.algMap, .fold, .foldBreak, .mapConcat, .mapOptional, .reverse, .join2, .join3,
   .popBack, .popFront, .moveRangeMap, .moveClear, .getOrInsert, .getOrInsertWithResult,
   .optMap, .optBind, .optFrom, .optAlt, .optFilter, .optToContainer, .optJoin, .optCombine, .optApply2, .optSequence, .optCat,
   .moveIf, .moveIfRvalue, .eithMap, .eithMapFailure, .eithBind, .eithMatch, .eithSuccessOpt, .eithFailureOpt, .eithFromOptional,
   .eithJoin, .eithApply2, .eithSequence, .eithFirstSuccess,
   .varMatch, .varApply, .varApply2, .varToOptional, .tupMap, .tupPushBack, .tupConcat, .arrMap, .arrPushBack, .arrJoin2, .arrJoin3,
   .arrFromRange, .recMap, .recPermute, .recMultiplyDisjoint, .contMake,
   .gridMap, .gridApply2, .gridResize, .treeCtor, .treePushValue, .treePushTree, .treeRelease, .treeMap,
   .optsFlag, .optsOption, .parseSequence, .parseRepetition,
   .tupInvoke, .tupApply2, .tupFromArray, .tupMake2, .tupInit, .arrApply2, .arrInit, .arrMake2, .recCtor2, .recInit,
   .optMake, .optCtor, .optAssign, .optToException, .optMakeIf, .optMaybe, .optMaybeVoid, .optMaybeMulti2, .optMaybeVoidMulti2,
   .optCopyValue, .eithMakeSuccess, .eithMakeFailure, .eithCtor, .eithConstruct, .eithTryCall, .eithToException,
   .eithErrorFromOptional, .eithSequenceError, .eithLoop, .varCtor,
   .algFindOpt, .algIndexOf, .algContains, .algFindIfOpt, .algFindByOpt, .algGenerateN, .algMapIteration, .algMapIterationSecond,
   .algSeqIteration, .contInsert, .contSetUnion, .contSetDifference, .contSetIntersection, .contMapValuesCopy, .contAtOptional,
   .contMaybeBack, .contMaybeFront, .contFindOptMapped, .contIndexMapGet,
   .treeCtorTree, .treeCtorChildren, .treeAssign, .treeSelfAssign, .treeSetValue, .treePushFrontValue, .treeInsertValue,
   .treePushFrontTree, .treeInsertTree, .treePopBack, .treePopFront, .treeErase, .treeEraseRange, .treeClear, .treeSort,
   .gridCtorFn, .gridCtorValue, .gridCtorRows2, .gridStaticRow2, .gridCtorGrid, .gridAssign, .gridSelfAssign, .gridFill,
   .parseAlt, .parseOpt, .parseConvert, .parseAsStruct, .parseSeparator, .parseList, .parseRepPlus,
   .optsArgument, .optsOptional, .optsProduct, .optsMany, .optsSum,
   .treeSwap, .treeSortPred, .joinSelf, .arrJoinSelf, .tupConcatSelf, .optCombineSelf, .algMapList, .algMapArr, .algMapTup,
   .algLoopBreakTuple, .recSet, .algRemoveIf, .algRemove, .algUnique, .algUniqueIf,
   .algSeqIterationVec]

def Op.name : Op → String
  | .algMap => "algmap" | .fold => "fold" | .foldBreak => "foldbrk" | .mapConcat => "mapcat" | .mapOptional => "mapopt"
  | .reverse => "reverse" | .join2 => "join2" | .join3 => "join3" | .popBack => "popback" | .popFront => "popfront"
  | .moveRangeMap => "mrmap" | .moveClear => "moveclear" | .getOrInsert => "goi" | .getOrInsertWithResult => "goiwr"
  | .optMap => "optmap" | .optBind => "optbind" | .optFrom => "optfrom" | .optAlt => "optalt" | .optFilter => "optfilter"
  | .optToContainer => "opttocont" | .optJoin => "optjoin" | .optCombine => "optcombine" | .optApply2 => "optapply2"
  | .optSequence => "optseq" | .optCat => "optcat"
  | .moveIf => "moveif" | .moveIfRvalue => "moveifrv"
  | .eithMap => "eithmap" | .eithMapFailure => "eithmapfail" | .eithBind => "eithbind" | .eithMatch => "eithmatch"
  | .eithSuccessOpt => "eithsuccopt" | .eithFailureOpt => "eithfailopt" | .eithFromOptional => "eithfromopt"
  | .eithJoin => "eithjoin" | .eithApply2 => "eithapply2" | .eithSequence => "eithseq" | .eithFirstSuccess => "eithfirst"
  | .varMatch => "varmatch" | .varApply => "varapply" | .varApply2 => "varapply2" | .varToOptional => "vartoopt"
  | .tupMap => "tupmap" | .tupPushBack => "tuppush" | .tupConcat => "tupconcat"
  | .arrMap => "arrmap" | .arrPushBack => "arrpush" | .arrJoin2 => "arrjoin2" | .arrJoin3 => "arrjoin3" | .arrFromRange => "arrfromrange"
  | .recMap => "recmap" | .recPermute => "recpermute" | .recMultiplyDisjoint => "recmuldisj" | .contMake => "contmake"
  | .gridMap => "gridmap" | .gridApply2 => "gridapply2" | .gridResize => "gridresize"
  | .treeCtor => "treector" | .treePushValue => "treepushval" | .treePushTree => "treepushtree" | .treeRelease => "treerelease"
  | .treeMap => "treemap" | .optsFlag => "optsflag" | .optsOption => "optsoption"
  | .parseSequence => "parseseq" | .parseRepetition => "parserep"
  | .tupInvoke => "tupinvoke" | .tupApply2 => "tupapply2" | .tupFromArray => "tupfromarr" | .tupMake2 => "tupmake2"
  | .tupInit => "tupinit" | .arrApply2 => "arrapply2" | .arrInit => "arrinit" | .arrMake2 => "arrmake2"
  | .recCtor2 => "recctor2" | .recInit => "recinit"
  | .optMake => "optmake" | .optCtor => "optctor" | .optAssign => "optassign" | .optToException => "opttoexc"
  | .optMakeIf => "optmakeif" | .optMaybe => "optmaybe" | .optMaybeVoid => "optmaybevoid" | .optMaybeMulti2 => "optmaybemulti2"
  | .optMaybeVoidMulti2 => "optmaybevoidmulti2" | .optCopyValue => "optcopyvalue"
  | .eithMakeSuccess => "eithmakesucc" | .eithMakeFailure => "eithmakefail" | .eithCtor => "eithctor"
  | .eithConstruct => "eithconstruct" | .eithTryCall => "eithtrycall" | .eithToException => "eithtoexc"
  | .eithErrorFromOptional => "eitherrfromopt" | .eithSequenceError => "eithseqerr" | .eithLoop => "eithloop" | .varCtor => "varctor"
  | .algFindOpt => "algfind" | .algIndexOf => "algindexof" | .algContains => "algcontains" | .algFindIfOpt => "algfindif"
  | .algFindByOpt => "algfindby" | .algGenerateN => "alggenerate" | .algMapIteration => "algmapiter"
  | .algMapIterationSecond => "algmapiter2" | .algSeqIteration => "algseqiter"
  | .contInsert => "continsert" | .contSetUnion => "setunion" | .contSetDifference => "setdiff" | .contSetIntersection => "setinter"
  | .contMapValuesCopy => "mapvalcopy" | .contAtOptional => "atopt" | .contMaybeBack => "maybeback" | .contMaybeFront => "maybefront"
  | .contFindOptMapped => "findoptmapped" | .contIndexMapGet => "indexmapget"
  | .treeCtorTree => "treectortree" | .treeCtorChildren => "treectorchildren" | .treeAssign => "treeassign"
  | .treeSelfAssign => "treeselfassign" | .treeSetValue => "treesetvalue" | .treePushFrontValue => "treepushfrontval"
  | .treeInsertValue => "treeinsertval" | .treePushFrontTree => "treepushfronttree" | .treeInsertTree => "treeinserttree"
  | .treePopBack => "treepopback" | .treePopFront => "treepopfront" | .treeErase => "treeerase" | .treeEraseRange => "treeeraserange"
  | .treeClear => "treeclear" | .treeSort => "treesort"
  | .gridCtorFn => "gridctorfn" | .gridCtorValue => "gridctorvalue" | .gridCtorRows2 => "gridctorrows2" | .gridStaticRow2 => "gridstaticrow2"
  | .gridCtorGrid => "gridctorgrid" | .gridAssign => "gridassign" | .gridSelfAssign => "gridselfassign" | .gridFill => "gridfill"
  | .parseAlt => "parsealt" | .parseOpt => "parseopt" | .parseConvert => "parseconv" | .parseAsStruct => "parsestruct"
  | .parseSeparator => "parsesep" | .parseList => "parselist" | .parseRepPlus => "parserepplus"
  | .optsArgument => "optsarg" | .optsOptional => "optsoptional" | .optsProduct => "optsproduct" | .optsMany => "optsmany"
  | .optsSum => "optssum"
  | .treeSwap => "treeswap" | .treeSortPred => "treesortpred" | .joinSelf => "joinself" | .arrJoinSelf => "arrjoinself"
  | .tupConcatSelf => "tupconcatself" | .optCombineSelf => "optcombineself" | .algMapList => "algmaplist" | .algMapArr => "algmaparr"
  | .algMapTup => "algmaptup" | .algLoopBreakTuple => "algloopbrktup" | .recSet => "recset"
  | .algRemoveIf => "algremoveif" | .algRemove => "algremove" | .algUnique => "algunique" | .algUniqueIf => "alguniqueif"
  | .algSeqIterationVec => "algseqitervec"

end Fcppt.C05
