import FcpptModel.Model.C02
/-!
# C02 — specification of fcppt.parse: PEG semantics on the *remaining input*

Two independent formulations, neither of which has a stream position, a save or a restore:

* `S.parse` / `S.skip`: a denotational interpreter that passes the remaining input down and the rest
  up (an alternative simply hands the *same* input to its right branch);
* `Derives` / `SkDerives`: the big-step relation written from doc/files/modules/parse.doxygen —
  ordered choice, greedy repetition/optional that never fail unless the failure is fatal, the
  skipper between the parts of a sequence and after each element of a repetition, `not_`
  consuming nothing, `fatal` marking an error so that enclosing alternatives/optionals/repetitions
  give up, `lexeme` switching the skipper off.

`none` of `S.parse` = out of fuel.  Core Lean only.
-/
namespace Fcppt.C02

inductive Res where
  | ok (v : Val) (rest : List Nat) | err (fatal : Bool)
  deriving Repr, DecidableEq, Inhabited

inductive SkRes where
  | ok (rest : List Nat) | err (fatal : Bool)
  deriving Repr, DecidableEq, Inhabited

namespace S

def skip : Nat → Sk → List Nat → Option SkRes
  | 0, _, _ => none
  | _+1, .eps, inp => some (.ok inp)
  | _+1, .cset cs, inp =>
    match inp with
    | [] => some (.err false)
    | c :: r => if cs.contains c then some (.ok r) else some (.err false)
  | _+1, .lit d, inp =>
    match inp with
    | [] => some (.err false)
    | c :: r => if c = d then some (.ok r) else some (.err false)
  | f+1, .rep a, inp =>
    match skip f a inp with
    | none => none
    | some (.err ft) => if ft then some (.err true) else some (.ok inp)
    | some (.ok r1) => skip f (.rep a) r1
  | f+1, .seq a b, inp =>
    match skip f a inp with
    | none => none
    | some (.err ft) => some (.err ft)
    | some (.ok r1) => skip f b r1

def strLoop : List Nat → List Nat → Res
  | [], inp => .ok .unit inp
  | _ :: _, [] => .err false
  | e :: es, c :: r => if c = e then strLoop es r else .err false

def sugar (p : P) : Option Res → Option Res
  | some (.ok v r) => match post p v with
    | some v' => some (.ok v' r)
    | none => some (.err false)
  | r => r

def parse (g : G) : Nat → P → Sk → List Nat → Option Res
  | 0, _, _, _ => none
  | _+1, .eps, _, inp => some (.ok .unit inp)
  | _+1, .fail, _, _ => some (.err false)
  | _+1, .any, _, inp =>
    match inp with
    | [] => some (.err false)
    | c :: r => some (.ok (.ch c) r)
  | _+1, .lit d, _, inp =>
    match inp with
    | [] => some (.err false)
    | c :: r => if c = d then some (.ok .unit r) else some (.err false)
  | _+1, .cset cs, _, inp =>
    match inp with
    | [] => some (.err false)
    | c :: r => if cs.contains c then some (.ok (.ch c) r) else some (.err false)
  | _+1, .compl cs, _, inp =>
    match inp with
    | [] => some (.err false)
    | c :: r => if cs.contains c then some (.err false) else some (.ok (.ch c) r)
  | _+1, .str cs, _, inp => some (strLoop cs inp)
  | f+1, .seq a b, sk, inp =>
    match parse g f a sk inp with
    | none => none
    | some (.err ft) => some (.err ft)
    | some (.ok va r1) =>
      match skip f sk r1 with
      | none => none
      | some (.err ft) => some (.err ft)
      | some (.ok r2) =>
        match parse g f b sk r2 with
        | none => none
        | some (.err ft) => some (.err ft)
        | some (.ok vb r3) => some (.ok (.pair va vb) r3)
  | f+1, .alt a b, sk, inp =>
    match parse g f a sk inp with
    | none => none
    | some (.ok v r) => some (.ok (.inl v) r)
    | some (.err ft) =>
      if ft then some (.err true) else
      match parse g f b sk inp with
      | none => none
      | some (.ok v r) => some (.ok (.inr v) r)
      | some (.err ftb) => some (.err ftb)
  | f+1, .rep a, sk, inp =>
    match parse g f a sk inp with
    | none => none
    | some (.err ft) => if ft then some (.err true) else some (.ok .nil inp)
    | some (.ok v r1) =>
      match skip f sk r1 with
      | none => none
      | some (.err ft) => if ft then some (.err true) else some (.ok .nil inp)
      | some (.ok r2) =>
        match parse g f (.rep a) sk r2 with
        | none => none
        | some (.err ft) => some (.err ft)
        | some (.ok vs r3) => some (.ok (.cons v vs) r3)
  | f+1, .opt a, sk, inp =>
    match parse g f a sk inp with
    | none => none
    | some (.ok v r) => some (.ok (.some v) r)
    | some (.err ft) => if ft then some (.err true) else some (.ok .none inp)
  | f+1, .not a, sk, inp =>
    match parse g f a sk inp with
    | none => none
    | some (.ok _ _) => some (.err false)
    | some (.err _) => some (.ok .unit inp)
  | f+1, .fatal a, sk, inp =>
    match parse g f a sk inp with
    | none => none
    | some (.ok v r) => some (.ok v r)
    | some (.err _) => some (.err true)
  | f+1, .lexeme a, _, inp => parse g f a .eps inp
  | f+1, .conv k a, sk, inp =>
    match parse g f a sk inp with
    | none => none
    | some (.ok v r) => some (.ok (g.fn k v) r)
    | some (.err ft) => some (.err ft)
  | f+1, .convIf k a, sk, inp =>
    match parse g f a sk inp with
    | none => none
    | some (.ok v r) => (match g.fnIf k v with
      | .ok v' => some (.ok v' r)
      | .error ft => some (.err ft))
    | some (.err ft) => some (.err ft)
  | f+1, .ignore a, sk, inp =>
    match parse g f a sk inp with
    | none => none
    | some (.ok _ r) => some (.ok .unit r)
    | some (.err ft) => some (.err ft)
  | f+1, .named a, sk, inp =>
    match parse g f a sk inp with
    | none => none
    | some (.ok v r) => some (.ok v r)
    | some (.err ft) => some (.err ft)
  | f+1, .ref i, sk, inp => parse g f (g.rules i) sk inp
  | f+1, .map m a, sk, inp =>
    match parse g f a sk inp with
    | none => none
    | some (.ok v r) => some (.ok (m.apply v) r)
    | some (.err ft) => some (.err ft)
  | f+1, .plus a, sk, inp => sugar (.plus a) (parse g f (desugar (.plus a)) sk inp)
  | f+1, .sep a b, sk, inp => sugar (.sep a b) (parse g f (desugar (.sep a b)) sk inp)
  | f+1, .list o a b c, sk, inp => sugar (.list o a b c) (parse g f (desugar (.list o a b c)) sk inp)
  | f+1, .uint m, sk, inp => sugar (.uint m) (parse g f (desugar (.uint m)) sk inp)
  | f+1, .int m, sk, inp => sugar (.int m) (parse g f (desugar (.int m)) sk inp)
  | f+1, .float, sk, inp => sugar .float (parse g f (desugar .float) sk inp)

/-- the string entry points: skipper first, then the parser, success iff nothing is left -/
def parseString (g : G) (f : Nat) (p : P) (sk : Sk) (s : List Nat) : Option Top :=
  match skip f sk s with
  | none => none
  | some (.err ft) => some (.err ft)
  | some (.ok r0) =>
    match parse g f p sk r0 with
    | none => none
    | some (.err ft) => some (.err ft)
    | some (.ok v r1) => if r1.isEmpty then some (.ok v) else some (.err false)

end S

/-! ## the documented big-step semantics -/

inductive SkDerives : Sk → List Nat → SkRes → Prop where
  | eps (inp) : SkDerives .eps inp (.ok inp)
  | csetEof (cs) : SkDerives (.cset cs) [] (.err false)
  | csetOk (cs c r) : cs.contains c = true → SkDerives (.cset cs) (c :: r) (.ok r)
  | csetNo (cs c r) : cs.contains c = false → SkDerives (.cset cs) (c :: r) (.err false)
  | litEof (d) : SkDerives (.lit d) [] (.err false)
  | litOk (d r) : SkDerives (.lit d) (d :: r) (.ok r)
  | litNo (d c r) : c ≠ d → SkDerives (.lit d) (c :: r) (.err false)
  | repStop {a inp} : SkDerives a inp (.err false) → SkDerives (.rep a) inp (.ok inp)
  | repFatal {a inp} : SkDerives a inp (.err true) → SkDerives (.rep a) inp (.err true)
  | repMore {a inp r1 x} : SkDerives a inp (.ok r1) → SkDerives (.rep a) r1 x → SkDerives (.rep a) inp x
  | seqErr {a b inp ft} : SkDerives a inp (.err ft) → SkDerives (.seq a b) inp (.err ft)
  | seqOk {a b inp r1 x} : SkDerives a inp (.ok r1) → SkDerives b r1 x → SkDerives (.seq a b) inp x

/-- the derived combinators: which ones they are -/
def IsSugar : P → Prop
  | .plus _ | .sep _ _ | .list _ _ _ _ | .uint _ | .int _ | .float => True
  | _ => False

/-- result of a derived combinator from the result of the composite parser it stands for -/
def postRes (p : P) : Res → Res
  | .ok v r => match post p v with
    | some v' => .ok v' r
    | none => .err false
  | .err ft => .err ft

inductive Derives (g : G) : P → Sk → List Nat → Res → Prop where
  | eps (sk inp) : Derives g .eps sk inp (.ok .unit inp)
  | fail (sk inp) : Derives g .fail sk inp (.err false)
  | anyEof (sk) : Derives g .any sk [] (.err false)
  | anyOk (sk c r) : Derives g .any sk (c :: r) (.ok (.ch c) r)
  | litEof (sk d) : Derives g (.lit d) sk [] (.err false)
  | litOk (sk d r) : Derives g (.lit d) sk (d :: r) (.ok .unit r)
  | litNo (sk d c r) : c ≠ d → Derives g (.lit d) sk (c :: r) (.err false)
  | csetEof (sk cs) : Derives g (.cset cs) sk [] (.err false)
  | csetOk (sk cs c r) : cs.contains c = true → Derives g (.cset cs) sk (c :: r) (.ok (.ch c) r)
  | csetNo (sk cs c r) : cs.contains c = false → Derives g (.cset cs) sk (c :: r) (.err false)
  | complEof (sk cs) : Derives g (.compl cs) sk [] (.err false)
  | complOk (sk cs c r) : cs.contains c = false → Derives g (.compl cs) sk (c :: r) (.ok (.ch c) r)
  | complNo (sk cs c r) : cs.contains c = true → Derives g (.compl cs) sk (c :: r) (.err false)
  /-- a string matches iff it is a prefix of the input -/
  | strOk (sk cs r) : Derives g (.str cs) sk (cs ++ r) (.ok .unit r)
  | strNo (sk cs inp) : ¬ cs <+: inp → Derives g (.str cs) sk inp (.err false)
  -- sequence: left, skipper, right
  | seqErrL {a b sk inp ft} : Derives g a sk inp (.err ft) → Derives g (.seq a b) sk inp (.err ft)
  | seqErrS {a b sk inp va r1 ft} : Derives g a sk inp (.ok va r1) → SkDerives sk r1 (.err ft) →
      Derives g (.seq a b) sk inp (.err ft)
  | seqErrR {a b sk inp va r1 r2 ft} : Derives g a sk inp (.ok va r1) → SkDerives sk r1 (.ok r2) →
      Derives g b sk r2 (.err ft) → Derives g (.seq a b) sk inp (.err ft)
  | seqOk {a b sk inp va r1 r2 vb r3} : Derives g a sk inp (.ok va r1) → SkDerives sk r1 (.ok r2) →
      Derives g b sk r2 (.ok vb r3) → Derives g (.seq a b) sk inp (.ok (.pair va vb) r3)
  -- ordered choice: the right branch sees the same input; a fatal left error ends it
  | altL {a b sk inp v r} : Derives g a sk inp (.ok v r) → Derives g (.alt a b) sk inp (.ok (.inl v) r)
  | altFatal {a b sk inp} : Derives g a sk inp (.err true) → Derives g (.alt a b) sk inp (.err true)
  | altR {a b sk inp v r} : Derives g a sk inp (.err false) → Derives g b sk inp (.ok v r) →
      Derives g (.alt a b) sk inp (.ok (.inr v) r)
  | altErr {a b sk inp ft} : Derives g a sk inp (.err false) → Derives g b sk inp (.err ft) →
      Derives g (.alt a b) sk inp (.err ft)
  -- greedy repetition: stops (successfully, consuming nothing more) at the first non-fatal failure
  -- of element-then-skipper
  | repStop {a sk inp} : Derives g a sk inp (.err false) → Derives g (.rep a) sk inp (.ok .nil inp)
  | repStopS {a sk inp v r1} : Derives g a sk inp (.ok v r1) → SkDerives sk r1 (.err false) →
      Derives g (.rep a) sk inp (.ok .nil inp)
  | repFatal {a sk inp} : Derives g a sk inp (.err true) → Derives g (.rep a) sk inp (.err true)
  | repFatalS {a sk inp v r1} : Derives g a sk inp (.ok v r1) → SkDerives sk r1 (.err true) →
      Derives g (.rep a) sk inp (.err true)
  | repMore {a sk inp v r1 r2 vs r3} : Derives g a sk inp (.ok v r1) → SkDerives sk r1 (.ok r2) →
      Derives g (.rep a) sk r2 (.ok vs r3) → Derives g (.rep a) sk inp (.ok (.cons v vs) r3)
  | repMoreErr {a sk inp v r1 r2 ft} : Derives g a sk inp (.ok v r1) → SkDerives sk r1 (.ok r2) →
      Derives g (.rep a) sk r2 (.err ft) → Derives g (.rep a) sk inp (.err ft)
  | optSome {a sk inp v r} : Derives g a sk inp (.ok v r) → Derives g (.opt a) sk inp (.ok (.some v) r)
  | optNone {a sk inp} : Derives g a sk inp (.err false) → Derives g (.opt a) sk inp (.ok .none inp)
  | optFatal {a sk inp} : Derives g a sk inp (.err true) → Derives g (.opt a) sk inp (.err true)
  -- negative lookahead: consumes nothing; any failure of the operand (fatal or not) is a success
  | notOk {a sk inp ft} : Derives g a sk inp (.err ft) → Derives g (.not a) sk inp (.ok .unit inp)
  | notNo {a sk inp v r} : Derives g a sk inp (.ok v r) → Derives g (.not a) sk inp (.err false)
  | fatalOk {a sk inp v r} : Derives g a sk inp (.ok v r) → Derives g (.fatal a) sk inp (.ok v r)
  | fatalErr {a sk inp ft} : Derives g a sk inp (.err ft) → Derives g (.fatal a) sk inp (.err true)
  | lexeme {a sk inp x} : Derives g a .eps inp x → Derives g (.lexeme a) sk inp x
  | convOk {k a sk inp v r} : Derives g a sk inp (.ok v r) → Derives g (.conv k a) sk inp (.ok (g.fn k v) r)
  | convErr {k a sk inp ft} : Derives g a sk inp (.err ft) → Derives g (.conv k a) sk inp (.err ft)
  | convIfOk {k a sk inp v r v'} : Derives g a sk inp (.ok v r) → g.fnIf k v = .ok v' →
      Derives g (.convIf k a) sk inp (.ok v' r)
  | convIfRej {k a sk inp v r ft} : Derives g a sk inp (.ok v r) → g.fnIf k v = .error ft →
      Derives g (.convIf k a) sk inp (.err ft)
  | convIfErr {k a sk inp ft} : Derives g a sk inp (.err ft) → Derives g (.convIf k a) sk inp (.err ft)
  | ignoreOk {a sk inp v r} : Derives g a sk inp (.ok v r) → Derives g (.ignore a) sk inp (.ok .unit r)
  | ignoreErr {a sk inp ft} : Derives g a sk inp (.err ft) → Derives g (.ignore a) sk inp (.err ft)
  | namedOk {a sk inp v r} : Derives g a sk inp (.ok v r) → Derives g (.named a) sk inp (.ok v r)
  /-- `named` replaces the error message; the fatal flag is kept (named_impl.hpp after af6c285) -/
  | namedErr {a sk inp ft} : Derives g a sk inp (.err ft) → Derives g (.named a) sk inp (.err ft)
  | ref {i sk inp x} : Derives g (g.rules i) sk inp x → Derives g (.ref i) sk inp x
  /-- `construct` / `as_struct` / `convert_const`: the success value is replaced, errors remain unchanged -/
  | mapOk {m a sk inp v r} : Derives g a sk inp (.ok v r) → Derives g (.map m a) sk inp (.ok (m.apply v) r)
  | mapErr {m a sk inp ft} : Derives g a sk inp (.err ft) → Derives g (.map m a) sk inp (.err ft)
  /-- `+p`, `separator`, `list`, `uint`, `int_` are *defined* as composite parsers -/
  | sugar {p sk inp x} : IsSugar p → Derives g (desugar p) sk inp x → Derives g p sk inp (postRes p x)

/-- outcome of the string entry points in the documented semantics -/
inductive DerivesString (g : G) (p : P) (sk : Sk) (s : List Nat) : Top → Prop where
  | skipErr {ft} : SkDerives sk s (.err ft) → DerivesString g p sk s (.err ft)
  | err {r0 ft} : SkDerives sk s (.ok r0) → Derives g p sk r0 (.err ft) → DerivesString g p sk s (.err ft)
  | ok {r0 v} : SkDerives sk s (.ok r0) → Derives g p sk r0 (.ok v []) → DerivesString g p sk s (.ok v)
  | rest {r0 v c r} : SkDerives sk s (.ok r0) → Derives g p sk r0 (.ok v (c :: r)) → DerivesString g p sk s (.err false)

/-! ## well-formedness vocabulary (Ford): syntactic over-approximation of "may succeed without consuming" -/

def nullable : P → Bool
  | .eps => true | .fail => false | .any => false | .lit _ => false | .cset _ => false | .compl _ => false
  | .str s => s.isEmpty
  | .seq a b => nullable a && nullable b
  | .alt a b => nullable a || nullable b
  | .rep _ => true | .opt _ => true | .not _ => true
  | .fatal a => nullable a | .lexeme a => nullable a | .conv _ a => nullable a | .convIf _ a => nullable a
  | .ignore a => nullable a | .named a => nullable a | .map _ a => nullable a
  | .ref _ => true
  | .plus a => nullable a
  | .sep _ _ => true
  | .list o _ _ c => nullable o && nullable c
  | .uint _ => false | .int _ => false | .float => false

def skNullable : Sk → Bool
  | .eps => true | .cset _ => false | .lit _ => false | .rep _ => true
  | .seq a b => skNullable a && skNullable b

/-- well-formed skipper: no repetition of a nullable skipper -/
def SkWF : Sk → Prop
  | .rep a => SkWF a ∧ skNullable a = false
  | .seq a b => SkWF a ∧ SkWF b
  | _ => True

/-- well-formed **non-recursive** parser: no `ref`, no repetition (`*`, `+`, the loops inside
`separator` / `list`) of a nullable body -/
def WF0 : P → Prop
  | .ref _ => False
  | .seq a b => WF0 a ∧ WF0 b
  | .alt a b => WF0 a ∧ WF0 b
  | .rep a => WF0 a ∧ nullable a = false
  | .plus a => WF0 a ∧ nullable a = false
  | .sep a s => WF0 a ∧ WF0 s ∧ (nullable s && nullable a) = false
  | .list o a s c => WF0 o ∧ WF0 a ∧ WF0 s ∧ WF0 c ∧ (nullable s && nullable a) = false
  | .opt a => WF0 a | .not a => WF0 a | .fatal a => WF0 a | .lexeme a => WF0 a
  | .conv _ a => WF0 a | .convIf _ a => WF0 a | .ignore a => WF0 a | .named a => WF0 a | .map _ a => WF0 a
  | _ => True

/-- well-formed **possibly recursive** parser (Ford's WF with an explicit ranking): `WFr rk K p k` says that `p` may
stand at a position where the enclosing rules have rank `k` — a `ref j` that can be entered without any input having
been consumed since the rule started must have a strictly smaller rank (`rk j < k`: no left recursion); behind a
non-nullable prefix the bound is the global one `K` (every rule is allowed). Repetitions have non-nullable bodies. -/
def WFr (rk : Nat → Nat) (K : Nat) : P → Nat → Prop
  | .ref j, k => rk j < k
  | .seq a b, k => WFr rk K a k ∧ WFr rk K b (if nullable a then k else K)
  | .alt a b, k => WFr rk K a k ∧ WFr rk K b k
  | .rep a, k => WFr rk K a k ∧ nullable a = false
  | .plus a, k => WFr rk K a k ∧ nullable a = false
  | .sep a s, k => WFr rk K a k ∧ WFr rk K s k ∧ (nullable s && nullable a) = false
  | .list o a s c, k => WFr rk K o k ∧ WFr rk K a k ∧ WFr rk K s k ∧ WFr rk K c k ∧ (nullable s && nullable a) = false
  | .opt a, k => WFr rk K a k | .not a, k => WFr rk K a k | .fatal a, k => WFr rk K a k | .lexeme a, k => WFr rk K a k
  | .conv _ a, k => WFr rk K a k | .convIf _ a, k => WFr rk K a k | .ignore a, k => WFr rk K a k | .named a, k => WFr rk K a k
  | .map _ a, k => WFr rk K a k
  | _, _ => True

/-- a well-formed grammar: some ranking of the rules, bounded by `K`, under which every rule body is well-formed at
its own rank -/
def GWF (g : G) (rk : Nat → Nat) (K : Nat) : Prop := ∀ j, rk j < K ∧ WFr rk K (g.rules j) (rk j)

end Fcppt.C02
