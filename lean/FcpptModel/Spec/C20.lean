import FcpptModel.Model.C20
/-!
# C20 — specification side

* the **contracts** the C++ standard gives for the wrapped distributions ([rand.req.dist],
  [rand.dist.uni.int]) — these are *hypotheses* of the range theorems, never proved about libstdc++;
* what the property says in terms of plain lists (`InInterval`, `ReachesBothEnds`);
* concrete engine/distribution pairs used as instances of the model's parameters:
  `replayDist` (replays a recorded output sequence of the real `std::` pair — this is how the driver is
  fed with libstdc++'s numbers; `tapeDist` / `tapeGen` do the same for programs with several distribution
  objects on one engine), and the exactly specified pair `ctrEngine` / `modDist`
  (`harness/c20.cpp` contains the same two classes in C++, so that fcppt's templates are also run over
  an engine and a *stateful* distribution that are not from the standard library).
-/
namespace Fcppt.C20

/-! ## contracts of the standard distributions -/

/-- [rand.req.dist]: parameters are stored and returned unchanged; drawing and `reset` do not change them. -/
structure StdDist.Lawful {β δ : Type} (D : StdDist β δ) : Prop where
  param_ofParam : ∀ q, D.param (D.ofParam q) = q
  param_setParam : ∀ d q, D.param (D.setParam d q) = q
  param_reset : ∀ d, D.param (D.reset d) = D.param d
  param_draw : ∀ {γ : Type} (G : Gen γ) d g, D.param (D.draw G d g).2.1 = D.param d

/-- [rand.dist.uni.int]: `min() = a`, `max() = b`, and for `a ≤ b` every produced value `i` satisfies
`a ≤ i ≤ b`. -/
structure StdDist.UniformInt {δ : Type} (D : StdDist Int δ) : Prop extends StdDist.Lawful D where
  min_eq : ∀ d, D.min d = (D.param d).1
  max_eq : ∀ d, D.max d = (D.param d).2
  draw_mem : ∀ {γ : Type} (G : Gen γ) d g, (D.param d).1 ≤ (D.param d).2 →
    (D.param d).1 ≤ (D.draw G d g).1 ∧ (D.draw G d g).1 ≤ (D.param d).2

/-! ## the property's vocabulary -/

/-- all values of a drawn sequence lie in the closed interval given by two decorated bounds -/
def InInterval (lo hi : DVal Int) (l : List (DVal Int)) : Prop :=
  ∀ v ∈ l, undecorate lo ≤ undecorate v ∧ undecorate v ≤ undecorate hi

/-- both ends of the interval occur in the sequence -/
def ReachesBothEnds {β : Type} (lo hi : β) (l : List β) : Prop := lo ∈ l ∧ hi ∈ l

/-- the bounds a history has requested at the moment of each of its draws (`q`: bounds at the start);
computed from the operations alone -/
def boundsInForce : List (Op Int) → Int × Int → List (Int × Int)
  | [], _ => []
  | .draw :: ops, q => q :: boundsInForce ops q
  | .reset :: ops, q => boundsInForce ops q
  | .setParam p :: ops, _ => boundsInForce ops (undecorate p.fst, undecorate p.snd)

/-- every `param(p)` of the history satisfies the precondition `min ≤ max` -/
def OpsValid : List (Op Int) → Prop
  | [] => True
  | .setParam p :: ops => undecorate p.fst ≤ undecorate p.snd ∧ OpsValid ops
  | _ :: ops => OpsValid ops

/-- pointwise: the lists have the same length and `vs[i]` lies in the closed interval `qs[i]` -/
def AllWithin : List (DVal Int) → List (Int × Int) → Prop
  | [], [] => True
  | v :: vs, q :: qs => (q.1 ≤ undecorate v ∧ undecorate v ≤ q.2) ∧ AllWithin vs qs
  | _, _ => False

/-! ## instance 1: replay of a recorded `std::` run -/

/-! `StdDist.draw` is polymorphic in the generator state (a distribution sees its generator only through
`operator()`, `min()`, `max()`), so the recorded outputs live in the distribution state. `dflt` is returned
on an exhausted tape (the driver checks the tape length beforehand and never gets there). `minF`/`maxF`
give `min()`/`max()` as a function of the parameters (uniform: the parameters themselves; normal:
lowest/max of the type). -/

/-- replaying distribution: state = (current parameters, remaining recorded outputs) -/
def replayDist {β : Type} [BEq β] (dflt : β) (minF maxF : β × β → β) : StdDist β ((β × β) × List β) where
  ofParam := fun q => (q, [])
  param := fun d => d.1
  setParam := fun d q => (q, d.2)
  reset := fun d => d
  draw := fun {_} _ d g =>
    match d.2 with
    | [] => (dflt, d, g)
    | x :: t => (x, (d.1, t), g)
  min := fun d => minF d.1
  max := fun d => maxF d.1
  beq := fun a b => a.1.1 == b.1.1 && a.1.2 == b.1.2

/-- load recorded outputs into a replaying distribution (models "the standard distribution, as it behaved
in the recorded run") -/
def Basic.load {β : Type} (b : Basic ((β × β) × List β)) (tape : List β) : Basic ((β × β) × List β) :=
  ⟨(b.dist.1, tape)⟩

/-- a generator nobody looks at -/
def unitGen : Gen Unit := ⟨fun _ => (0, ()), 0, 0⟩

/-! ## instance 2: an exactly specified engine and distribution (same classes exist in harness/c20.cpp) -/

/-- `ctr_engine`: 32-bit counter; `operator()` returns the state and increments it (mod 2^32). -/
def ctrEngine : Gen Nat where
  next := fun s => (s % 4294967296, (s + 1) % 4294967296)
  min := 0
  max := 4294967295

/-- `mod_dist<T>`: a distribution *with internal state*: the parameters and the number `k` of values drawn
since construction / `reset()` (a 32-bit counter).  `operator()` returns `a + (g() + k(k+1)/2) % (b - a + 1)` for
`a ≤ b` (the harness only uses `b - a < 2^31`) and increments `k`; `param(p)` keeps `k`, `reset()` clears it,
`==` compares parameters and `k`, `min() = a`, `max() = b`.  Because of `k`, drawing from a copy instead of
the object itself, losing the state in a copy, or resetting where nothing should be reset changes the
values that follow. -/
def modDist : StdDist Int ((Int × Int) × Nat) where
  ofParam := fun q => (q, 0)
  param := fun d => d.1
  setParam := fun d q => (q, d.2)
  reset := fun d => (d.1, 0)
  draw := fun {_} G d g =>
    let r := G.next g
    (d.1.1 + (Int.ofNat (r.1 + d.2 * (d.2 + 1) / 2)) % (d.1.2 - d.1.1 + 1), (d.1, (d.2 + 1) % 4294967296), r.2)
  min := fun d => d.1.1
  max := fun d => d.1.2
  beq := fun a b => a.1.1 == b.1.1 && a.1.2 == b.1.2 && a.2 == b.2

/-- `operator<<` of `mod_dist`: `a b k` -/
def modOut (d : (Int × Int) × Nat) : String := s!"{d.1.1} {d.1.2} {d.2}"

/-! ## instance 3: replay of a recorded `std::` run in which several distribution objects share one engine

The outputs are read off the *generator* (the recorded values in the order in which they were produced), so
that copies of a distribution need no tape of their own.  The distribution state is just the parameters;
`==` is equality of the parameters (libstdc++'s `uniform_int_distribution` and `uniform_real_distribution`;
for `normal_distribution` the driver only accepts comparisons where that is the whole story). -/

def tapeGen : Gen (List Nat) :=
  ⟨fun t => match t with | [] => (0, []) | x :: r => (x, r), 0, 0⟩

def tapeDist {β : Type} [BEq β] (dec : Nat → β) (minF maxF : β × β → β) : StdDist β (β × β) where
  ofParam := fun q => q
  param := fun d => d
  setParam := fun _ q => q
  reset := fun d => d
  draw := fun {_} G d g =>
    let r := G.next g
    (dec r.1, d, r.2)
  min := fun d => minF d
  max := fun d => maxF d
  beq := fun a b => a.1 == b.1 && a.2 == b.2

/-- integers on a tape of naturals -/
def zigzag (x : Int) : Nat := if x ≥ 0 then 2 * x.toNat else 2 * (-x).toNat - 1
def unzigzag (n : Nat) : Int := if n % 2 = 0 then Int.ofNat (n / 2) else -Int.ofNat ((n + 1) / 2)

/-! ## the interval each object of a program has been asked for, computed from the program text alone -/

/-- requested interval per distribution slot and per variate slot -/
structure Bnds where
  dist : Nat → Option (Int × Int)
  var : Nat → Option (Int × Int)

def Bnds.empty : Bnds := ⟨fun _ => none, fun _ => none⟩

def pq (p : Param2 Int) : Int × Int := (undecorate p.fst, undecorate p.snd)

/-- effect of one step on the requested intervals, and what the step's observation has to respect:
`some q` for a draw (the value lies in `q`) and for `look` (`min`/`max`/parameters are `q`), `none` for
observations that carry no value of the distribution -/
def boundsStep (a : Act Int) (b : Bnds) : List (Option (Int × Int)) × Bnds :=
  match a with
  | .newP i p => ([], { b with dist := upd b.dist i (some (pq p)) })
  | .new2 i t1 t2 => ([], { b with dist := upd b.dist i (some (undecorate t1, undecorate t2)) })
  | .copy i j _ => ([], { b with dist := upd b.dist i (b.dist j) })
  | .swap i j => ([], { b with dist := upd (upd b.dist i (b.dist j)) j (b.dist i) })
  | .draw i _ => ([b.dist i], b)
  | .reset _ => ([], b)
  | .setParam i p => ([], { b with dist := upd b.dist i (some (pq p)) })
  | .eq _ _ => ([none], b)
  | .look i => ([b.dist i], b)
  | .varD k i _ => ([], { b with var := upd b.var k (b.dist i) })
  | .varP k p _ => ([], { b with var := upd b.var k (some (pq p)) })
  | .varCopy k l _ => ([], { b with var := upd b.var k (b.var l) })
  | .vdraw k => ([b.var k], b)
  | .raw _ => ([none], b)

def boundsScript : List (Act Int) → Bnds → List (Option (Int × Int))
  | [], _ => []
  | a :: as, b => (boundsStep a b).1 ++ boundsScript as (boundsStep a b).2

/-- every interval a program asks for satisfies the precondition `min ≤ max` -/
def ActValid : Act Int → Prop
  | .newP _ p => undecorate p.fst ≤ undecorate p.snd
  | .new2 _ t1 t2 => undecorate t1 ≤ undecorate t2
  | .setParam _ p => undecorate p.fst ≤ undecorate p.snd
  | .varP _ p _ => undecorate p.fst ≤ undecorate p.snd
  | _ => True

/-- the observations respect the requested intervals, one by one -/
def EvsWithin : List (Ev (DVal Int) Int) → List (Option (Int × Int)) → Prop
  | [], [] => True
  | .val v :: es, some q :: qs => (q.1 ≤ undecorate v ∧ undecorate v ≤ q.2) ∧ EvsWithin es qs
  | .look mn mx p _ :: es, some q :: qs => (p = q ∧ undecorate mn = q.1 ∧ undecorate mx = q.2) ∧ EvsWithin es qs
  | .raw _ :: es, none :: qs => EvsWithin es qs
  | .eq _ :: es, none :: qs => EvsWithin es qs
  | _, _ => False

/-! ## programs over several `uniform_container`s: what they may ask for, what they must observe -/

/-- what a program may ask for: index intervals inside the container, writes inside the container -/
def CActValid {α : Type} (n : Nat) : CAct α → Prop
  | .ctor _ p => 0 ≤ undecorate p.fst ∧ undecorate p.fst ≤ undecorate p.snd ∧ undecorate p.snd < n
  | .write pos _ => pos < n
  | _ => True

/-- every element observation is the container's element at a valid index (of the container `c` the step started from) -/
def CEvOk {α : Type} (n : Nat) (c : List α) : CEv α → Prop
  | .made b => b = !c.isEmpty
  | .elem e idx => idx < n ∧ c[idx]? = some e
  | .raw _ => True

/-- the index of an observation (factory observations have none) -/
def CEv.idxLt {α : Type} (n : Nat) : CEv α → Prop
  | .made _ => True
  | .elem _ idx => idx < n
  | .raw _ => True

end Fcppt.C20
