import FcpptModel.Prelude.CInt
/-!
# C06 — specifications: the mathematical meaning of the checked conversions and integer helpers

Everything is stated over unbounded integers (`Int`, `Nat`); representability is the explicit
predicate `IntTy.InRange`.
-/
namespace Fcppt.C06
open Fcppt

/-- `cast::truncation_check<Dest>`: the value itself iff it is representable in `Dest`. -/
def truncSpec (d : IntTy) (x : Int) : Option Int := if d.InRange x then some x else none

/-- `cast::truncation_check<bool>`: `bool` holds exactly 0 and 1 -/
def truncBoolSpec (x : Int) : Option Bool := if 0 ≤ x ∧ x ≤ 1 then some (decide (x = 1)) else none

/-- `enum_::from_int<Enum>`: an enumerator iff the integer is below the enum's size. -/
def fromIntSpec (size x : Int) : Option Int := if x < size then some x else none

/-- `q = ⌈a / b⌉` for `b ≠ 0`: the least integer with `q * b ≥ a` (b > 0), resp. `q * b ≤ a` (b < 0). -/
def IsCeilDiv (a b q : Int) : Prop :=
  (0 < b ∧ (q - 1) * b < a ∧ a ≤ q * b) ∨ (b < 0 ∧ q * b ≤ a ∧ a < (q - 1) * b)

/-- `q = ⌊log₂ x⌋` -/
def IsLog2 (x : Int) (q : Int) : Prop := 0 ≤ q ∧ 2 ^ q.toNat ≤ x ∧ x < 2 ^ (q.toNat + 1)

/-- `p` is the least power of two that is `≥ x` -/
def IsNextPow2 (x p : Int) : Prop := (∃ k : Nat, p = 2 ^ k) ∧ x ≤ p ∧ ∀ k : Nat, x ≤ 2 ^ k → p ≤ 2 ^ k

def IsPow2 (x : Int) : Prop := ∃ k : Nat, x = 2 ^ k

def clampSpec (v lo hi : Int) : Option Int := if lo ≤ hi then some (max lo (min hi v)) else none

/-- C++20 [conv.integral]: `r` is the unique value of the destination type congruent to `x` modulo `2^bits`
(the meaning of `static_cast<Dest>`, `cast::size`, `cast::to_signed`, `cast::to_unsigned`). -/
def IsConv (d : IntTy) (x r : Int) : Prop := d.InRange r ∧ (r - x) % d.modulus = 0

/-- What `math::interval_distance((a1,b1),(a2,b2))` computes, over unbounded integers.  The interval with the larger
upper end is the "upper" one (on equal upper ends: the SECOND argument).  If the lower interval does not start after
the upper one, the result is `upper.first - lower.second` (the gap; minus the overlap if negative); otherwise the
upper interval strictly contains the start of the lower one and the result is minus the shorter of the two parts
the inner interval leaves over. -/
def intervalDistSpec (a1 b1 a2 b2 : Int) : Int :=
  if b1 ≤ b2 then (if a1 ≤ a2 then a2 - b1 else max (b1 - b2) (a2 - a1))
  else (if a2 ≤ a1 then a1 - b2 else max (b2 - b1) (a1 - a2))

/-- the same for the unsigned types that are not promoted (`uint32_t`, `uint64_t`): every difference wraps before the
maximum of the two parts is taken, so the maximum is that of the wrapped numbers -/
def intervalDistSpecW (t : IntTy) (a1 b1 a2 b2 : Int) : Int :=
  if b1 ≤ b2 then (if a1 ≤ a2 then t.wrap (a2 - b1) else max (t.wrap (b1 - b2)) (t.wrap (a2 - a1)))
  else (if a2 ≤ a1 then t.wrap (a1 - b2) else max (t.wrap (b2 - b1)) (t.wrap (a1 - a2)))

/-- every difference `interval_distance` evaluates on these operands is representable in `t` (for `int` and wider
signed types anything else is undefined behaviour; `std::max(x, y)` evaluates both of its arguments) -/
def intervalDistGuard (t : IntTy) (a1 b1 a2 b2 : Int) : Prop :=
  if b1 ≤ b2 then (if a1 ≤ a2 then t.InRange (a2 - b1) else t.InRange (b1 - b2) ∧ t.InRange (a2 - a1))
  else (if a2 ≤ a1 then t.InRange (a1 - b2) else t.InRange (b2 - b1) ∧ t.InRange (a1 - a2))

end Fcppt.C06
