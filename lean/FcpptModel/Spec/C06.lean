import FcpptModel.Prelude.CInt
/-!
# C06 — specifications: the mathematical meaning of the checked conversions and integer helpers

Everything is stated over unbounded integers (`Int`, `Nat`); representability is the explicit
predicate `IntTy.InRange`.
-/
namespace Fcppt.C06
open Fcppt

/-- `cast::truncation_check<Dest>`: the value itself iff it is representable in `Dest`. -/
def truncSpec (d : IntTy) (x : Int) : Option Int := if d.InRange x then some x else none

/-- `enum_::from_int<Enum>`: an enumerator iff the integer is below the enum's size. -/
def fromIntSpec (size x : Int) : Option Int := if x < size then some x else none

/-- `q = ⌈a / b⌉` for `b ≠ 0`: the least integer with `q * b ≥ a` (b > 0), resp. `q * b ≤ a` (b < 0). -/
def IsCeilDiv (a b q : Int) : Prop :=
  (0 < b ∧ (q - 1) * b < a ∧ a ≤ q * b) ∨ (b < 0 ∧ q * b ≤ a ∧ a < (q - 1) * b)

/-- `q = ⌊log₂ x⌋` -/
def IsLog2 (x : Int) (q : Int) : Prop := 0 ≤ q ∧ 2 ^ q.toNat ≤ x ∧ x < 2 ^ (q.toNat + 1)

/-- `p` is the least power of two that is `≥ x` -/
def IsNextPow2 (x p : Int) : Prop := (∃ k : Nat, p = 2 ^ k) ∧ x ≤ p ∧ ∀ k : Nat, x ≤ 2 ^ k → p ≤ 2 ^ k

def IsPow2 (x : Int) : Prop := ∃ k : Nat, x = 2 ^ k

def clampSpec (v lo hi : Int) : Option Int := if lo ≤ hi then some (max lo (min hi v)) else none

end Fcppt.C06
