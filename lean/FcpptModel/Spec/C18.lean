import FcpptModel.Model.C18
/-!
# C18 — specification: the documented sequences, independent of iterators, widths and state machines
-/
namespace Fcppt.C18.Spec
open Fcppt.C18

/-- `b, b+1, …` (`n` elements) -/
def iota (b : Int) : Nat → List Int
  | 0 => []
  | n + 1 => b :: iota (b + 1) n

/-- the documented content of `make_int_range(b, e)`: `b, b+1, …, e-1`, nothing if `e ≤ b` -/
def intRange (b e : Int) : List Int := iota b (e - b).toNat

/-- the number of elements of `make_int_range(b, e)` -/
def intRangeCount (b e : Int) : Nat := (e - b).toNat

/-- the closed enum sub-range `[s, e]` -/
def enumRange (s e : Int) : List Int := iota s (e + 1 - s).toNat

/-- position reached from offset `o` in a cycle of length `size` after moving by `n` (either sign) -/
def cycOffset (size o n : Int) : Int := (o + n) % size

/-- net displacement of a history of iterator operations -/
def cycNet : List CycOp → Int
  | [] => 0
  | .inc :: os => 1 + cycNet os
  | .dec :: os => -1 + cycNet os
  | .adv n :: os => n + cycNet os
  | .sub n :: os => -n + cycNet os

def manhattan (p q : Pos) : Nat := (p.x - q.x).natAbs + (p.y - q.y).natAbs
def chebyshev (p q : Pos) : Nat := max (p.x - q.x).natAbs (p.y - q.y).natAbs

/-- the `t`-th point (`1 ≤ t ≤ d`) of side `seg ∈ {0,1,2,3}` of the ring of Manhattan radius `d`, relative to the centre -/
def posOf (d seg t : Nat) : Pos :=
  match seg with
  | 0 => ⟨-(t : Int), -(d : Int) + t⟩
  | 1 => ⟨-(d : Int) + t, t⟩
  | 2 => ⟨t, (d : Int) - t⟩
  | _ => ⟨(d : Int) - t, -(t : Int)⟩

/-- points `t, t+1, …` (n of them) of one side -/
def sidePts (c : Pos) (d seg : Nat) (t n : Nat) : List Pos := (List.range' t n).map (fun t => c + posOf d seg t)

/-- the ring of radius `d` in the order the spiral walks it -/
def ring (c : Pos) (d : Nat) : List Pos :=
  sidePts c d 0 1 d ++ (sidePts c d 1 1 d ++ (sidePts c d 2 1 d ++ sidePts c d 3 1 d))

/-- rings `1 .. D` -/
def rings (c : Pos) : Nat → List Pos
  | 0 => []
  | D + 1 => rings c D ++ ring c (D + 1)

/-- the documented content of `spiral_range(c, D)` -/
def spiral (c : Pos) (D : Nat) : List Pos := c :: rings c D

/-- number of points in rings `1 .. D` -/
def ringsLen : Nat → Nat
  | 0 => 0
  | D + 1 => ringsLen D + 4 * (D + 1)

/-- the four von Neumann neighbours in the documented order: left, right, up (y-1), down (y+1) -/
def neumann (p : Pos) : List Pos := [⟨p.x - 1, p.y⟩, ⟨p.x + 1, p.y⟩, ⟨p.x, p.y - 1⟩, ⟨p.x, p.y + 1⟩]

/-- the eight Moore neighbours: the von Neumann ones, then the four diagonal ones -/
def moore (p : Pos) : List Pos :=
  neumann p ++ [⟨p.x - 1, p.y - 1⟩, ⟨p.x - 1, p.y + 1⟩, ⟨p.x + 1, p.y - 1⟩, ⟨p.x + 1, p.y + 1⟩]

/-- the elements between two iterators `i ≤ j` into a container -/
def slice {α : Type} (c : List α) (i j : Nat) : List α := (c.drop i).take (j - i)

end Fcppt.C18.Spec
