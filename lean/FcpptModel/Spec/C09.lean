/-!
# C09 — specification side: plain rose trees

`RT` is the representation-independent meaning of `fcppt::container::tree::object<int>`:
a value and a list of sub-trees.  No addresses, no parent links.  A forest is a `List RT`;
a node is addressed by a path `root index :: child indices`.

`Spec.step` gives every tree operation of the property statement on forests of rose trees,
the reference computations `flatten` (pre-order), `ancestors` (to_root), `depth`, `level`,
`childPos`, `map` are the "plain recursive reference model" of the statement.
-/
namespace Fcppt.C09

abbrev Path := List Nat

/-- where in a child list -/
inductive Pos where
  | front | back | at (i : Nat)
  deriving Repr, DecidableEq, Inhabited

/-- index of an insertion position in a list of length `len` (`insert(it, …)` needs `it` in `[begin, end]`) -/
def Pos.insIdx : Pos → Nat → Option Nat
  | .front, _ => some 0
  | .back, len => some len
  | .at i, len => if i ≤ len then some i else none

/-- which child is detached: `pop_front`/`pop_back` give nothing on an empty list (`some none`),
`release(it)` needs a dereferenceable iterator (`none` = precondition violated) -/
def Pos.popIdx : Pos → Nat → Option (Option Nat)
  | .front, len => if len = 0 then some none else some (some 0)
  | .back, len => if len = 0 then some none else some (some (len - 1))
  | .at i, len => if i < len then some (some i) else none

/-- The operations of the property statement; operands are paths into the forest. -/
inductive Op where
  | new (v : Int)                                  -- a new root `object(v)`
  | del (r : Nat)                                  -- destroy root r
  | setVal (a : Path) (v : Int)
  | insV (a : Path) (pos : Pos) (v : Int)          -- push_front / push_back / insert of a value
  | insT (a : Path) (pos : Pos) (b : Path)         -- push_front / push_back / insert of std::move(node b)
  | pop (a : Path) (pos : Pos) (keep : Bool)       -- pop_front / pop_back / release; result kept as a new root or dropped
  | erase (a : Path) (i : Nat)
  | eraseRange (a : Path) (i j : Nat)
  | clear (a : Path)
  | sort (a : Path)
  | swap (a b : Path)
  | copyCtor (b : Path)                            -- new root, copy of node b
  | moveCtor (b : Path)                            -- new root, moved from node b
  | copyAssign (a b : Path)
  | moveAssign (a b : Path)
  | sortBy (a : Path) (k : Nat)                    -- `sort(Predicate)` with the k-th predicate of `predOf`
  | mkFrom (b : Path) (v : Int)                    -- new root `object(v, child_list(b.children()))`
  deriving Repr, DecidableEq, Inhabited

/-- `b` is `a` or an ancestor of `a` -/
def isPrefix : Path → Path → Bool
  | [], _ => true
  | _ :: _, [] => false
  | x :: p, y :: q => x == y && isPrefix p q

/-- Misuse that creates self-ownership (like `x = std::move(container_holding_x)`) is excluded:
moving a node into its own sub-tree, move-assigning from an ancestor, swapping ancestor and descendant. -/
def Op.guard : Op → Bool
  | .insT a _ b => !isPrefix b a
  | .swap a b => a == b || (!isPrefix a b && !isPrefix b a)
  | .moveAssign a b => a == b || !isPrefix b a
  | _ => true

/-- the predicates handed to `sort(Predicate)` by the harness (0 is the one `sort()` uses itself) -/
def predOf : Nat → Int → Int → Bool
  | 0, a, b => decide (a < b)
  | 1, a, b => decide (b < a)                      -- std::greater
  | 2, a, b => decide (a % 3 < b % 3)              -- many ties: stability is visible (`%` = mathematical mod here)
  | _, a, b => decide (a.natAbs < b.natAbs)

inductive RT where
  | node (val : Int) (kids : List RT)
  deriving Repr, Inhabited

namespace RT
def val : RT → Int | node v _ => v
def kids : RT → List RT | node _ k => k
@[simp] theorem val_node (v ks) : (node v ks).val = v := rfl
@[simp] theorem kids_node (v ks) : (node v ks).kids = ks := rfl

def getT : Path → RT → Option RT
  | [], t => some t
  | j :: q, t => match t.kids[j]? with
    | some k => getT q k
    | none => none

def putT (new : RT) : Path → RT → RT
  | [], _ => new
  | j :: q, node v ks => match ks[j]? with
    | some k => node v (ks.set j (putT new q k))
    | none => node v ks

def getF : Path → List RT → Option RT
  | [], _ => none
  | r :: q, F => match F[r]? with
    | some t => getT q t
    | none => none

def putF (new : RT) : Path → List RT → List RT
  | [], F => F
  | r :: q, F => match F[r]? with
    | some t => F.set r (putT new q t)
    | none => F

/-- pre-order sequence of values -/
def flatten : RT → List Int
  | node v ks => v :: (ks.map flatten).flatten

def depth : RT → Nat
  | node _ ks => (ks.map depth).foldr max 0 + 1

def map (f : Int → Int) : RT → RT
  | node v ks => node (f v) (ks.map (map f))

def size : RT → Nat
  | node _ ks => 1 + (ks.map size).sum

/-- values of the nodes met on the way from the root of tree `t` down the path, root first -/
def valsAlongT : Path → RT → List Int
  | [], t => [t.val]
  | j :: q, t => t.val :: (match t.kids[j]? with
    | some k => valsAlongT q k
    | none => [])

def valsAlongF : Path → List RT → List Int
  | [], _ => []
  | r :: q, F => match F[r]? with
    | some t => valsAlongT q t
    | none => []

/-- `to_root` from the node at path `p`: the node itself first, its root last -/
def ancestors (p : Path) (F : List RT) : List Int := (valsAlongF p F).reverse

/-- level of the node at path `r :: q` -/
def level (p : Path) : Nat := p.length - 1

/-- position of the node at path `c` in the child list of the node at path `p` -/
def childPos (p c : Path) : Option Nat :=
  match c.getLast? with
  | some j => if c.dropLast = p then some j else none
  | none => none

def sortKids (ks : List RT) : List RT := ks.mergeSort (fun x y => decide (x.val ≤ y.val))

/-- stable sort by a strict predicate on the values: `x` may stay in front of `y` unless `y < x` -/
def sortKidsBy (lt : Int → Int → Bool) (ks : List RT) : List RT := ks.mergeSort (fun x y => !lt y.val x.val)

/-- `front()` / `back()`: the first / last child if there is one -/
def front (t : RT) : Option RT := t.kids.head?
def back (t : RT) : Option RT := t.kids.getLast?

/-- the printed form (`output.hpp`): one line per node in pre-order, `(indentation, value)` -/
def lines (d : Nat) : RT → List (Nat × Int)
  | node v ks => (d, v) :: (ks.map (lines (d + 1))).flatten

/-- the operations on forests of rose trees; `none` = a precondition of the C++ call is violated -/
def step (F : List RT) : Op → Option (List RT)
  | .new v => some (F ++ [node v []])
  | .del r => if r < F.length then some (F.eraseIdx r) else none
  | .setVal a v => do
      let t ← getF a F
      some (putF (node v t.kids) a F)
  | .insV a pos v => do
      let t ← getF a F
      let i ← pos.insIdx t.kids.length
      some (putF (node t.val (t.kids.insertIdx i (node v []))) a F)
  | .insT a pos b => do
      let tb ← getF b F
      let F1 := putF (node tb.val []) b F
      let t ← getF a F1
      let i ← pos.insIdx t.kids.length
      some (putF (node t.val (t.kids.insertIdx i tb)) a F1)
  | .pop a pos keep => do
      let t ← getF a F
      match ← pos.popIdx t.kids.length with
      | none => some F
      | some i =>
        let c ← t.kids[i]?
        let F1 := putF (node t.val (t.kids.eraseIdx i)) a F
        some (if keep then F1 ++ [c] else F1)
  | .erase a i => do
      let t ← getF a F
      if i < t.kids.length then some (putF (node t.val (t.kids.take i ++ t.kids.drop (i + 1))) a F) else none
  | .eraseRange a i j => do
      let t ← getF a F
      if i ≤ j ∧ j ≤ t.kids.length then some (putF (node t.val (t.kids.take i ++ t.kids.drop j)) a F) else none
  | .clear a => do
      let t ← getF a F
      some (putF (node t.val []) a F)
  | .sort a => do
      let t ← getF a F
      some (putF (node t.val (sortKids t.kids)) a F)
  | .swap a b => do
      let ta ← getF a F
      let tb ← getF b F
      let F1 := putF tb a F
      let _ ← getF b F1
      some (putF ta b F1)
  | .copyCtor b => do
      let t ← getF b F
      some (F ++ [t])
  | .moveCtor b => do
      let t ← getF b F
      some (putF (node t.val []) b F ++ [t])
  | .copyAssign a b =>
      if a = b then (getF a F).map (fun _ => F) else do
      let ta ← getF a F
      let tb ← getF b F
      -- the value is assigned first, the children are copied afterwards: when `b` is an ancestor of `a`
      -- the copy already contains the new value of `a`
      let F1 := putF (node tb.val ta.kids) a F
      let tb1 ← getF b F1
      let ta1 ← getF a F1
      some (putF (node ta1.val tb1.kids) a F1)
  | .moveAssign a b => do
      let ta ← getF a F
      let tb ← getF b F
      let F1 := putF (node tb.val ta.kids) a F
      let tb1 ← getF b F1
      let F2 := putF (node tb1.val []) b F1
      let ta2 ← getF a F2
      some (putF (node ta2.val tb1.kids) a F2)
  | .sortBy a k => do
      let t ← getF a F
      some (putF (node t.val (sortKidsBy (predOf k) t.kids)) a F)
  | .mkFrom b v => do
      let t ← getF b F
      some (F ++ [node v t.kids])

end RT
end Fcppt.C09
