import FcpptModel.Model.C10
/-!
# C10 — specification: a bitfield denotes a set of enumerators

`Expr w` is the language of all ways a bitfield can be computed through the public interface
(initializer list, `init`, the raw-array constructor, `set` / `operator[] =` / `|= index`,
writes through the mutable `array()` accessor, `| & ^ ~` and their assigning forms — the
binary operators are *defined* through the assigning ones in `operators.hpp`).  `den` is the
set it denotes, independent of padding and of how it was computed; `eval` runs the model.

The raw-array constructor and `array()` writes are the only operations that can put a bit
into the padding of the last word; `Valid` asks such arrays to be padding-clean (the
theorems about `==`/`hash` need it — see `dirty_padding_breaks_eq` in the proofs — while
`get`, `~` and `init` do not: `not_any_array`).
-/
namespace Fcppt.C10

inductive Expr (w : Nat) where
  | lit (l : List Nat)                 -- bitfield{e1, e2, ...} (initializer list, duplicates allowed; `null` is `lit []`)
  | init (tbl : List Bool)             -- bitfield::init with f e = tbl[e]
  | raw (ws : Words w)                 -- object(array_type const &)
  | set (a : Expr w) (i : Nat) (v : Bool)   -- set, operator[] =, (v = true:) operator|= index, operator| index
  | poke (a : Expr w) (k : Nat) (x : BitVec w)  -- a.array()[k] = x
  | or (a b : Expr w) | and (a b : Expr w) | xor (a b : Expr w)
  | not (a : Expr w)
  deriving Repr, Inhabited

/-- no bit at or above the enum size is set (as far as the array reaches) -/
def PadClean {w : Nat} (n : Nat) (a : Words w) : Prop := ∀ j, n ≤ j → get a j = false

/-- enumerators mentioned by the expression are enumerators of the enum; raw arrays have the
right number of words and clean padding -/
def Expr.Valid {w : Nat} (n : Nat) : Expr w → Prop
  | .lit l => ∀ i ∈ l, i < n
  | .init _ => True
  | .raw ws => ws.length = nwords n w ∧ PadClean n ws
  | .set a i _ => a.Valid n ∧ i < n
  | .poke a k x => a.Valid n ∧ k < nwords n w ∧ ∀ j, n ≤ j → j / w = k → x.getLsbD (j % w) = false
  | .or a b | .and a b | .xor a b => a.Valid n ∧ b.Valid n
  | .not a => a.Valid n

/-- set semantics: membership of enumerator `i` (complement is relative to the enum: only asked for `i < n`).
A raw word array denotes by bit addressing: enumerator `i` is bit `i % w` of word `i / w`. -/
def Expr.den {w : Nat} : Expr w → Nat → Bool
  | .lit l, i => l.contains i
  | .init t, i => t.getD i false
  | .raw ws, i => match ws[i / w]? with | some x => x.getLsbD (i % w) | none => false
  | .set a j v, i => if i = j then v else a.den i
  | .poke a k x, i => if i / w = k then x.getLsbD (i % w) else a.den i
  | .or a b, i => a.den i || b.den i
  | .and a b, i => a.den i && b.den i
  | .xor a b, i => a.den i ^^ b.den i
  | .not a, i => !a.den i

/-- run the model -/
def Expr.eval {w : Nat} (n : Nat) : Expr w → Words w
  | .lit l => ofList n w l
  | .init t => C10.init n w (fun i => t.getD i false)
  | .raw ws => ofArray ws
  | .set a i v => C10.set (a.eval n) i v
  | .poke a k x => C10.poke (a.eval n) k x
  | .or a b => C10.or (a.eval n) (b.eval n)
  | .and a b => C10.and (a.eval n) (b.eval n)
  | .xor a b => C10.xor (a.eval n) (b.eval n)
  | .not a => C10.not n (a.eval n)

end Fcppt.C10
