import FcpptModel.Model.C10
/-!
# C10 — specification: a bitfield denotes a set of enumerators

`Expr` is the language of all ways a bitfield can be computed through the public interface
(initializer list, `init`, `set`, `| & ^ ~` and their assigning forms).  `den` is the set it
denotes, independent of words, word size and padding; `eval` runs the model.
-/
namespace Fcppt.C10

inductive Expr where
  | lit (l : List Nat)                 -- bitfield{e1, e2, ...} (initializer list; `null` is `lit []`)
  | init (tbl : List Bool)             -- bitfield::init with f e = tbl[e]
  | set (a : Expr) (i : Nat) (v : Bool)
  | or (a b : Expr) | and (a b : Expr) | xor (a b : Expr)
  | not (a : Expr)
  deriving Repr, Inhabited

/-- enumerators mentioned by the expression are enumerators of the enum -/
def Expr.Valid (n : Nat) : Expr → Prop
  | .lit l => ∀ i ∈ l, i < n
  | .init _ => True
  | .set a i _ => a.Valid n ∧ i < n
  | .or a b | .and a b | .xor a b => a.Valid n ∧ b.Valid n
  | .not a => a.Valid n

/-- set semantics: membership of enumerator `i` (complement is relative to the enum: only asked for `i < n`) -/
def Expr.den : Expr → Nat → Bool
  | .lit l, i => l.contains i
  | .init t, i => t.getD i false
  | .set a j v, i => if i = j then v else a.den i
  | .or a b, i => a.den i || b.den i
  | .and a b, i => a.den i && b.den i
  | .xor a b, i => a.den i ^^ b.den i
  | .not a, i => !a.den i

/-- run the model -/
def Expr.eval (n w : Nat) : Expr → Words w
  | .lit l => ofList n w l
  | .init t => C10.init n w (fun i => t.getD i false)
  | .set a i v => C10.set (a.eval n w) i v
  | .or a b => C10.or (a.eval n w) (b.eval n w)
  | .and a b => C10.and (a.eval n w) (b.eval n w)
  | .xor a b => C10.xor (a.eval n w) (b.eval n w)
  | .not a => C10.not n (a.eval n w)

end Fcppt.C10
