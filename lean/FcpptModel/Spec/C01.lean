import FcpptModel.Model.C01
/-!
# C01 — specifications that are independent of the mirrored control flow

`isFlagSpec`: what `options::impl::is_flag` means, by cases on the string.  `nextArgSpec`: what
`options::impl::next_arg` means, by structural recursion over the argument list (no index, no fuel).
(`readCharsSpec`, the meaning of `io::read_chars` on a good stream, sits next to the old model in
`Model/C01.lean`.)
-/
namespace Fcppt.C01
open Fcppt

/-- what is_flag computes, without the reads (`isFlag_spec`) -/
def isFlagSpec (s : Str) : Option (Bool × Str) :=
  match s with
  | [] => none
  | c0 :: t => if !isDash c0 then none else
      match t with
      | [] => some (true, [])
      | c1 :: t2 => if isDash c1 then some (false, t2) else some (true, c1 :: t2)

/-- the meaning of next_arg, by recursion over the argument list: the first argument that is neither a flag nor the
value of an option named in `names` (an option at the very end has no value) -/
def nextArgSpec (names : List (Str × Bool)) : List Str → Nat → Option Nat
  | [], _ => none
  | a :: rest, i =>
    match isFlagSpec a with
    | none => some i
    | some (sh, nm) =>
      match rest with
      | [] => none
      | v :: rest' => if names.contains (nm, sh) then nextArgSpec names rest' (i + 2) else nextArgSpec names (v :: rest') (i + 1)

end Fcppt.C01
