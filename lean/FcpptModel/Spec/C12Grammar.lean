import FcpptModel.Spec.C12
import FcpptModel.Model.C12.Grammar
/-!
# C12 — specification of the backtracking combinators: PEG semantics on an index

What the combinators mean on the abstract stream of the documentation: the state is only the index
`i` of the next unread character of the text `t`.  No stream positions, no flags, no stored location:
"backtrack" is "continue at the index where the sub-parser was started", and the location in an
"Expected" error is *computed* from the text (`locAt t (j + 1)` for the offending character `t[j]`).

The outcome is the result and the index afterwards; `.error .fuel` stands for "does not return"
(a repetition whose body succeeds without consuming).
-/
namespace Fcppt.C12

abbrev AOut := Except Fault (R × Nat)

/-- one character that must satisfy `pred` -/
def acharPred (t : List Ch) (pred : Ch → Bool) (i : Nat) : R × Nat :=
  match t[i]? with
  | none => (.error (.plain .eof), i)
  | some c =>
    if pred c then (.ok (), i + 1) else (.error (.plain (.exp (some (locAt t (i + 1))))), i + 1)

/-- the characters of a string one after the other; the first other character stays consumed -/
def astr (t : List Ch) : List Ch → Nat → R × Nat
  | [], i => (.ok (), i)
  | e :: rest, i =>
    match t[i]? with
    | none => (.error (.plain (.exp none)), i)
    | some c => if c = e then astr t rest (i + 1) else (.error (.plain (.exp none)), i + 1)

/-- continue with `g` at the index reached by a success -/
def AOut.andThen (a : AOut) (g : Nat → AOut) : AOut :=
  match a with
  | .ok (.ok (), j) => g j
  | a => a

/-- `body` as often as it succeeds; answers the index after the last success and the error that
    ended the loop -/
def arepLoop (body : Nat → AOut) : Nat → Nat → Nat → Except Fault (Nat × PError)
  | 0, _, _ => .error .fuel
  | n + 1, i, last =>
    match body i with
    | .error f => .error f
    | .ok (.error e, _) => .ok (last, e)
    | .ok (.ok (), i') => arepLoop body n i' i'

/-- zero or more: ends at the index after the last success; only a fatal error makes it fail -/
def arepCore (t : List Ch) (body : Nat → AOut) (i : Nat) : AOut :=
  match arepLoop body (t.length + 1) i i with
  | .error f => .error f
  | .ok (last, e) => .ok (if e.fatal then .error e else .ok (), last)

def Sk.askip (t : List Ch) : Sk → Nat → AOut
  | .eps, i => .ok (.ok (), i)
  | .lit c, i => .ok (acharPred t (· == c) i)
  | .cset cs, i => .ok (acharPred t (cs.contains ·) i)
  | .seq l r, i => (l.askip t i).andThen (r.askip t)
  | .rep s, i => arepCore t (s.askip t) i

def P.aparse (t : List Ch) (sk : Sk) : P → Nat → AOut
  | .any, i => .ok (acharPred t (fun _ => true) i)
  | .lit c, i => .ok (acharPred t (· == c) i)
  | .cset cs, i => .ok (acharPred t (cs.contains ·) i)
  | .str s, i => .ok (astr t s i)
  | .seq l r, i => ((l.aparse t sk i).andThen (sk.askip t)).andThen (r.aparse t sk)
  | .alt l r, i =>
    match l.aparse t sk i with
    | .error f => .error f
    | .ok (.ok (), j) => .ok (.ok (), j)
    | .ok (.error le, _) =>
      if le.fatal then .ok (.error le, i)                 -- back at `i`
      else
        match r.aparse t sk i with                         -- the right one starts at `i` again
        | .error f => .error f
        | .ok (.ok (), j) => .ok (.ok (), j)
        | .ok (.error re, j) =>
          if re.fatal then .ok (.error re, j)
          else .ok (.error (((((PError.plain .lb).add le).add (.plain .or)).add re).add (.plain .rb)), j)
  | .opt p, i =>
    match p.aparse t sk i with
    | .error f => .error f
    | .ok (.ok (), j) => .ok (.ok (), j)
    | .ok (.error e, _) => .ok (if e.fatal then .error e else .ok (), i)
  | .rep p, i => arepCore t (fun j => (p.aparse t sk j).andThen (sk.askip t)) i
  | .plus p, i =>
    ((p.aparse t sk i).andThen (sk.askip t)).andThen
      (arepCore t (fun j => (p.aparse t sk j).andThen (sk.askip t)))
  | .not p, i =>
    match p.aparse t sk i with
    | .error f => .error f
    | .ok (.ok (), _) => .ok (.error (.plain .not), i)     -- nothing is consumed either way
    | .ok (.error _, _) => .ok (.ok (), i)
  | .fatal p, i =>
    match p.aparse t sk i with
    | .ok (.error e, j) => .ok (.error ⟨e.atoms, true⟩, j)
    | a => a

/-- `phrase_parse` on the abstract stream -/
def aphrase (t : List Ch) (p : P) (sk : Sk) (i : Nat) : AOut := (sk.askip t i).andThen (p.aparse t sk)

end Fcppt.C12
