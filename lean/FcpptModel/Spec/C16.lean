import FcpptModel.Model.C16
/-!
# C16 — specifications

The reference each helper has to equal is, where it exists, a function of Lean's core `List` library
(`map`, `filterMap`, `flatMap`, `foldl`, `all`, `any`, `contains`, `idxOf?`, `findIdx?`, `findSome?`, `filter`,
`eraseRepsBy`, `reverse`, `splitOn`, `intercalate`, `lookup`, `countP`, `getElem?`, `++`, `flatten`, `Nat.repeat`).
This file adds the few that are not in core.
-/
namespace Fcppt.C16.Spec
open Fcppt.C16

variable {α β σ : Type}

/-- The elements a loop looks at when it stops at (and including) the first element satisfying `brk`:
    "visit in order, stop where documented". -/
def visited (brk : α → Bool) (xs : List α) : List α := xs.take (xs.findIdx brk + 1)

/-- All pairs `(l_i, s_i) = f(e_i, s_{i-1})` that `fold_break`'s function *would* produce if nobody ever stopped. -/
def scanAll (f : α → σ → Loop × σ) : List α → σ → List (Loop × σ)
  | [], _ => []
  | x :: xs, s => let r := f x s; r :: scanAll f xs r.2

/-- `fold_break` as documented: `s_x` where `x ≤ n` is the largest number such that `l_j = continue_` for all `j < x`
    — the state at the first `break_`, or the last state, or the initial state for the empty range. -/
def foldBreak (f : α → σ → Loop × σ) (xs : List α) (s : σ) : σ :=
  let tr := scanAll f xs s
  match tr.find? (fun r => r.1 == Loop.break_) with
  | some r => r.2
  | none => match tr.getLast? with
    | some r => r.2
    | none => s

/-- the first `n` outputs of a generator -/
def genOutputs (gen : σ → β × σ) : Nat → σ → List β
  | 0, _ => []
  | n + 1, g => (gen g).1 :: genOutputs gen n (gen g).2

/-- the generator state after `n` calls -/
def genState (gen : σ → β × σ) : Nat → σ → σ
  | 0, g => g
  | n + 1, g => genState gen n (gen g).2

/-- a `std::set<int>` / the key sequence of a `std::map<int,_>`: strictly ascending -/
def StrictSorted (l : List Nat) : Prop := l.Pairwise (· < ·)

/-- sorted with respect to a strict weak order given as a Boolean `lt`: no later element is less than an earlier one -/
def SortedBy (lt : α → α → Bool) (l : List α) : Prop := l.Pairwise (fun a b => lt b a = false)

/-- `std::equal_range` on a sorted range: `[#{x | x < v}, #{x | ¬ v < x})` -/
def equalRange (lt : α → α → Bool) (xs : List α) (v : α) : Nat × Nat :=
  (xs.countP (fun x => lt x v), xs.countP (fun x => !lt v x))

/-- `x` is equivalent to `v` (neither is less) -/
def equiv (lt : α → α → Bool) (v x : α) : Bool := !lt x v && !lt v x

/-- `binary_search` as documented: the position of the element equivalent to `v` if there is exactly one, else nothing -/
def binarySearch (lt : α → α → Bool) (xs : List α) (v : α) : Option Nat :=
  if xs.countP (equiv lt v) = 1 then xs.findIdx? (equiv lt v) else none

/-- the answers of a state-passing `update_action` when it is offered the elements once each, in order, every call
    seeing the state its predecessor left: `(remove?, …)` per element and the final state -/
def decisions (action : α → σ → Bool × σ) : List α → σ → List Bool × σ
  | [], s => ([], s)
  | x :: xs, s =>
    let r := action x s
    let rest := decisions action xs r.2
    (r.1 :: rest.1, rest.2)

/-- the elements whose answer was "keep" -/
def kept (xs : List α) (ds : List Bool) : List α := ((xs.zip ds).filter (fun p => !p.2)).map (·.1)

/-- a source range after an operation that reads every element by value: untouched if it was passed as an lvalue,
    every element moved-from if it was passed as an rvalue -/
def consumed (rv : Bool) (moved : α) (xs : List α) : List α := if rv then xs.map (fun _ => moved) else xs

end Fcppt.C16.Spec
