/-!
# C15 — what the encodings mean (independent of the code's representation)

* base-256 positional expansion of a number: most significant digit first (`beDigits`, big endian) and
  least significant first (`leDigits`, little endian), with the value of a digit list (`ofBE`, `ofLE`);
* two's complement: the unsigned number with the same bits (`twos`);
-/
namespace Fcppt.C15.Spec

/-- digit `i` (counted from the least significant) of `x` in base 256 -/
def digit (x i : Nat) : Nat := x / 256 ^ i % 256

/-- the `n` base-256 digits of `x`, most significant first -/
def beDigits (n x : Nat) : List Nat := (List.range n).map fun i => digit x (n - 1 - i)

/-- the `n` base-256 digits of `x`, least significant first -/
def leDigits (n x : Nat) : List Nat := (List.range n).map fun i => digit x i

/-- value of a most-significant-first digit list (Horner) -/
def ofBE (ds : List Nat) : Nat := ds.foldl (fun acc d => acc * 256 + d) 0

/-- value of a least-significant-first digit list -/
def ofLE : List Nat → Nat
  | [] => 0
  | d :: ds => d + 256 * ofLE ds

/-- two's complement: the unsigned `bits`-bit number with the same bits as the integer `v` -/
def twos (bits : Nat) (v : Int) : Nat := if 0 ≤ v then v.toNat else (v + (2 ^ bits : Nat)).toNat

/-- the number denoted by a string of decimal digit characters (`'0'` = 48), most significant first -/
def decValue (ds : List Nat) : Nat := ds.foldl (fun a c => a * 10 + (c - 48)) 0

def IsDigitChar (c : Nat) : Prop := 48 ≤ c ∧ c ≤ 57
def IsSpaceChar (c : Nat) : Prop := c = 32 ∨ (9 ≤ c ∧ c ≤ 13)

/-- `text` is a decimal numeral in the sense of C++ stream extraction: white space, an optional sign, at least one
digit and **nothing else**; `neg` tells whether the sign was `-`, `mag` is the number the digits denote -/
def IsNumeral (text : List Nat) (neg : Bool) (mag : Nat) : Prop :=
  ∃ ws sg ds, text = ws ++ sg ++ ds ∧ (∀ c ∈ ws, IsSpaceChar c) ∧
    ((sg = [] ∧ neg = false) ∨ (sg = [43] ∧ neg = false) ∨ (sg = [45] ∧ neg = true)) ∧
    ds ≠ [] ∧ (∀ c ∈ ds, IsDigitChar c) ∧ mag = decValue ds

/-- the value a numeral denotes for a `bits`-bit destination: C++ stream extraction negates an unsigned
destination modulo `2^bits` (`"-1"` read into `unsigned short` is 65535) -/
def numeralValue (signed : Bool) (bits : Nat) (neg : Bool) (mag : Nat) : Int :=
  if neg then (if signed then -(mag : Int) else ((2 ^ bits - mag) % 2 ^ bits : Nat)) else mag

/-! ## UTF-8 -/

/-- a Unicode scalar value: a code point that is not a surrogate -/
def IsScalar (c : Nat) : Prop := c ≤ 0x10FFFF ∧ ¬ (0xD800 ≤ c ∧ c ≤ 0xDFFF)

/-- number of bytes of the UTF-8 form of `c` (the original 31-bit scheme; scalar values need at most 4):
one byte carries 7 bits, an `n`-byte form carries `5n + 1` bits -/
def utf8Len (c : Nat) : Nat :=
  if c < 2 ^ 7 then 1 else if c < 2 ^ 11 then 2 else if c < 2 ^ 16 then 3 else if c < 2 ^ 21 then 4 else if c < 2 ^ 26 then 5 else 6

/-- UTF-8 by its bit layout: a single byte `0xxxxxxx`, otherwise a lead byte with `n` one bits, a zero bit and the top
bits of `c`, followed by `n - 1` continuation bytes `10xxxxxx` carrying six bits each, most significant first -/
def utf8Encode (c : Nat) : List Nat :=
  let n := utf8Len c
  if n = 1 then [c]
  else (256 - 2 ^ (8 - n) + c / 64 ^ (n - 1)) :: ((List.range (n - 1)).reverse.map fun i => 128 + c / 64 ^ i % 64)

def utf8EncodeAll (cs : List Nat) : List Nat := cs.flatMap utf8Encode

end Fcppt.C15.Spec
