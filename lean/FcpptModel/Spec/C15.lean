/-!
# C15 — what the encodings mean (independent of the code's representation)

* base-256 positional expansion of a number: most significant digit first (`beDigits`, big endian) and
  least significant first (`leDigits`, little endian), with the value of a digit list (`ofBE`, `ofLE`);
* two's complement: the unsigned number with the same bits (`twos`);
-/
namespace Fcppt.C15.Spec

/-- digit `i` (counted from the least significant) of `x` in base 256 -/
def digit (x i : Nat) : Nat := x / 256 ^ i % 256

/-- the `n` base-256 digits of `x`, most significant first -/
def beDigits (n x : Nat) : List Nat := (List.range n).map fun i => digit x (n - 1 - i)

/-- the `n` base-256 digits of `x`, least significant first -/
def leDigits (n x : Nat) : List Nat := (List.range n).map fun i => digit x i

/-- value of a most-significant-first digit list (Horner) -/
def ofBE (ds : List Nat) : Nat := ds.foldl (fun acc d => acc * 256 + d) 0

/-- value of a least-significant-first digit list -/
def ofLE : List Nat → Nat
  | [] => 0
  | d :: ds => d + 256 * ofLE ds

/-- two's complement: the unsigned `bits`-bit number with the same bits as the integer `v` -/
def twos (bits : Nat) (v : Int) : Nat := if 0 ≤ v then v.toNat else (v + (2 ^ bits : Nat)).toNat

end Fcppt.C15.Spec
