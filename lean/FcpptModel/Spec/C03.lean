import FcpptModel.Model.C03
/-!
# C03 — specification vocabulary (independent of the interpreter)

* reading a command line left to right: `skipped` — a prefix that consists only of flags and of
  *option name, value* pairs (the documented meaning of "positional argument": the first token that is neither
  a flag nor the value of an option of the context);
* `WellFormed` — the documented requirements on parser definitions;
* `consuming`, `wfMany` — the class of parsers for which `many` is meaningful (every success of the inner
  parser takes at least one argument).
-/
namespace Fcppt.C03

/-- the token is `-name` / `--name` for an option name of the context -/
def isOptName (c : Ctx) (s : String) : Bool :=
  match isFlag s with
  | some (sh, nm) => c.contains (nm, sh)
  | none => false

/-- the token starts with a dash (= the public `fcppt::options::is_option`, src/options/is_option.cpp) -/
def flagLike (s : String) : Bool := s.toList.head? = some '-'

/-- `skipped c l`: `l` reads, left to right, as flags and *option name, value* pairs only, and does not end in an
option name that still waits for its value. -/
def skipped (c : Ctx) : List String → Bool
  | [] => true
  | [a] => (isFlag a).isSome && !isOptName c a
  | a :: b :: rest =>
    match isFlag a with
    | none => false
    | some (sh, nm) => if c.contains (nm, sh) then skipped c rest else skipped c (b :: rest)

/-- every success takes at least one argument (syntactic, sufficient) -/
def OP.consuming : OP → Bool
  | .arg .. => true
  | .flag .. => false
  | .opt _ _ _ dflt _ _ => dflt.isNone
  | .unit .. => false
  | .unitSwitch .. => true
  | .optional _ | .many _ => false
  | .prod a b => a.consuming || b.consuming
  | .sum _ a b => a.consuming && b.consuming
  | .commands .. => true

mutual
/-- no `many` around a parser that can succeed without consuming (the known finding excludes exactly these) -/
def OP.wfMany : OP → Bool
  | .arg .. | .flag .. | .opt .. | .unit .. | .unitSwitch .. => true
  | .optional p => p.wfMany
  | .many p => p.consuming && p.wfMany
  | .prod a b | .sum _ a b => a.wfMany && b.wfMany
  | .commands c subs => c.wfMany && wfManySubs subs
def wfManySubs : Subs → Bool
  | [] => true
  | (_, _, _, p) :: r => p.wfMany && wfManySubs r
end

mutual
/-- the documented requirements on a definition: short ≠ long, active ≠ inactive, disjoint names in a product,
distinct sub-command names — everywhere in the tree -/
def OP.WellFormed : OP → Prop
  | .arg .. | .unit .. => True
  | .flag _ sh lg act inact _ => sh ≠ some lg ∧ act.beqBase inact = false
  | .opt _ sh lg _ _ _ | .unitSwitch _ sh lg => sh ≠ some lg
  | .optional p | .many p => p.WellFormed
  | .prod a b => a.WellFormed ∧ b.WellFormed ∧ ∀ n ∈ a.allNames, n ∉ b.allNames
  | .sum _ a b => a.WellFormed ∧ b.WellFormed
  | .commands c subs => c.WellFormed ∧ WellFormedSubs subs ∧ (subs.map Prod.fst).Nodup
def WellFormedSubs : Subs → Prop
  | [] => True
  | (_, _, _, p) :: r => p.WellFormed ∧ WellFormedSubs r
end

end Fcppt.C03
