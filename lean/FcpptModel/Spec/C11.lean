import FcpptModel.Model.C11
/-!
# C11 — specification: rings of nodes, list membership

The mathematical content of "an intrusive list": the live nodes are partitioned into *rings*
(cyclic sequences).  A ring that contains the head of list `k` is written with the head first,
`head k :: members`; `members` is what iterating list `k` must produce.  Rings without a head are
the groups of elements left behind when a list was destroyed or overwritten while it still had
elements ("orphans"): they are in no list, but still linked to each other.

The operations are given directly on this structure (no pointers): erase a node from its ring,
put a node in the place of another, append before the head, add a one-node ring.
-/
namespace Fcppt.C11.Spec
open Fcppt.C11

abbrev Rings := List (List Node)

/-- every node of every ring -/
def nodes (R : Rings) : List Node := R.flatten

/-- the ring that contains `n` (`[]` if none) -/
def ringOf (R : Rings) (n : Node) : List Node := (R.find? (fun r => decide (n ∈ r))).getD []

/-- members of list `k`, in link order; `none` if list `k` is not alive -/
def members (R : Rings) (k : Nat) : Option (List Node) :=
  (R.find? (fun r => r.head? == some (Node.head k))).map List.tail

/-- the list that element `e` is a member of, if any -/
def listOf (R : Rings) (e : Nat) : Option Nat :=
  match (ringOf R (.elem e)).head? with
  | some (.head k) => some k
  | _ => none

def subst (y w x : Node) : Node := if x = y then w else x

/-- remove `y` from its ring; a ring that becomes empty disappears -/
def eraseNode (R : Rings) (y : Node) : Rings := (R.map (fun r => r.erase y)).filter (fun r => !r.isEmpty)
/-- `w` takes the place of `y` -/
def replaceNode (R : Rings) (y w : Node) : Rings := R.map (fun r => r.map (subst y w))
/-- `w` is linked in front of the head `h`, i.e. at the end of the ring written head-first -/
def pushBack (R : Rings) (h w : Node) : Rings := R.map (fun r => if r.head? = some h then r ++ [w] else r)

/-- is the ring of `n` just `[n]`? (`n` unlinked: a moved-from / unlinked element, an empty list) -/
def alone (R : Rings) (n : Node) : Bool := (ringOf R n).length ≤ 1

def step (R : Rings) : Op → Rings
  | .newList k => [Node.head k] :: R
  | .newElem e k => pushBack R (.head k) (.elem e)
  | .delElem e => eraseNode R (.elem e)
  | .unlink e => [Node.elem e] :: eraseNode R (.elem e)
  | .moveCtor e' e =>
    -- an unlinked source yields an unlinked element
    if alone R (.elem e) then [Node.elem e'] :: R
    else [Node.elem e] :: replaceNode R (.elem e) (.elem e')
  | .moveAssign a b =>
    if b = a then R
    else if alone (eraseNode R (.elem a)) (.elem b) then [Node.elem a] :: eraseNode R (.elem a)
    else [Node.elem b] :: replaceNode (eraseNode R (.elem a)) (.elem b) (.elem a)
  | .listMoveCtor k' k =>
    if alone R (.head k) then [Node.head k'] :: R
    else [Node.head k] :: replaceNode R (.head k) (.head k')
  | .listMoveAssign k k2 =>
    if k2 = k then R
    else if alone R (.head k2) then [Node.head k] :: eraseNode R (.head k)
    else [Node.head k2] :: replaceNode (eraseNode R (.head k)) (.head k2) (.head k)
  | .delList k => eraseNode R (.head k)

def run (R : Rings) : List Op → Rings
  | [] => R
  | op :: ops => run (step R op) ops

/-- Side conditions under which the theorems speak about an operation: object lifetimes only (a
constructor on a fresh id, anything else on a live object). -/
def valid (R : Rings) : Op → Bool
  | .newList k => decide (Node.head k ∉ nodes R)
  | .newElem e k => decide (Node.elem e ∉ nodes R) && decide (Node.head k ∈ nodes R)
  | .delElem e => decide (Node.elem e ∈ nodes R)
  | .unlink e => decide (Node.elem e ∈ nodes R)
  | .moveCtor e' e => decide (Node.elem e' ∉ nodes R) && decide (Node.elem e ∈ nodes R)
  | .moveAssign a b => decide (Node.elem a ∈ nodes R) && decide (Node.elem b ∈ nodes R)
  | .listMoveCtor k' k => decide (Node.head k' ∉ nodes R) && decide (Node.head k ∈ nodes R)
  | .listMoveAssign k k2 => decide (Node.head k ∈ nodes R) && decide (Node.head k2 ∈ nodes R)
  | .delList k => decide (Node.head k ∈ nodes R)

/-! ### owners of connections (`Hold`) -/

/-- erase the connections `xs` one after the other -/
def eraseAll (R : Rings) (xs : List Nat) : Rings := xs.foldl (fun R x => eraseNode R (.elem x)) R

/-- what an owner operation does to the rings: only connecting and the destruction of connections change them -/
def holdStep (own : Nat → List Nat) (R : Rings) : Hold.Op → Rings
  | .sig op => step R op.toList
  | .connect _ x s _ _ => step R (.newElem x s)
  | .release o i => eraseAll R ((own o)[i]?).toList
  | .clear o => eraseAll R (own o)
  | .transfer _ _ _ => R
  | .swap _ _ => R

/-- who holds what after an owner operation (pure bookkeeping, no pointers) -/
def ownStep (own : Nat → List Nat) : Hold.Op → (Nat → List Nat)
  | .sig _ => own
  | .connect o x _ _ _ => Hold.setOwn own o (own o ++ [x])
  | .release o i => Hold.setOwn own o ((own o).eraseIdx i)
  | .clear o => Hold.setOwn own o []
  | .transfer o i o' =>
    match (own o)[i]? with
    | none => own
    | some x =>
      if o' = o then Hold.setOwn own o ((own o).eraseIdx i ++ [x])
      else Hold.setOwn (Hold.setOwn own o ((own o).eraseIdx i)) o' (own o' ++ [x])
  | .swap o o' => fun i => if i = o then own o' else if i = o' then own o else own i

/-- side conditions of an owner operation: lifetimes of the signal objects, a fresh connection id, an index inside the owner -/
def holdValid (own : Nat → List Nat) (R : Rings) : Hold.Op → Bool
  | .sig (.connect ..) => false
  | .sig (.disconnect ..) => false
  | .sig op => valid R op.toList
  | .connect _ x s _ _ => valid R (.newElem x s)
  | .release o i => decide (i < (own o).length)
  | .clear _ => true
  | .transfer o i _ => decide (i < (own o).length)
  | .swap _ _ => true

/-- "no callback lets go of its own connection", checked along the run of the call loop: the one thing a callback may not
do (its connection object — and with it the `fcppt::function` that is executing — would be destroyed under its feet, and
`++it` would read the freed hook).  A precondition on the caller's callbacks, not on the library. -/
def loopSafe (act : Nat → Hold.Act) (h : Node) : Nat → Hold.State → Node → Bool
  | 0, _, _ => true
  | fuel + 1, st, cur =>
    if cur = h then true else
    match cur with
    | .head _ => true
    | .elem x =>
      match st.sig.conn x with
      | none => true
      | some c =>
        (match act c.callback with
          | .reset o => !(st.own o).contains x
          | _ => true) &&
        (match Hold.runAct st (act c.callback) with
          | .ok st' => loopSafe act h fuel st' (st'.sig.store.next cur)
          | .error _ => true)

end Fcppt.C11.Spec
