import FcpptModel.Model.C17
/-!
# C17 — specification

Representation-independent meaning of the property's words:

* "`==` holds exactly when all observable components are equal": `LawfulEq` — `eq a b = true ↔ a = b`
  on the mathematical value (the model types are the tuples of observable components);
* "equivalence": `IsEquivalence`; "`!=` is its negation": stated per type;
* "strict weak order": `StrictWeak` (irreflexive, transitive, incomparability transitive);
* "compatible with `==`": `Compatible` (equal values are incomparable and interchangeable on both sides,
  incomparable values are equal); `OrderOps`: `> <= >=` are the ones derived from `<` and equality;
* component hypothesis: `StrictTotal` (irreflexive, transitive, trichotomous);
* lexicographic order, declaratively: `LexLt`;
* "transparent": the wrapped result of the same operator on the underlying values — for the integer
  operators the mathematical reading is: signed → the exact integer result, which must be a value of the type
  (`IntTy.Repr`), unsigned → the result modulo 2^bits (theorems `int_arith_*` in Props/C17.lean).
-/
namespace Fcppt.C17
variable {α : Type}

def LawfulEq (eq : α → α → Bool) : Prop := ∀ a b, eq a b = true ↔ a = b

structure IsEquivalence (eq : α → α → Bool) : Prop where
  refl : ∀ a, eq a a = true
  symm : ∀ a b, eq a b = true → eq b a = true
  trans : ∀ a b c, eq a b = true → eq b c = true → eq a c = true

structure StrictTotal (lt : α → α → Bool) : Prop where
  irrefl : ∀ a, lt a a = false
  trans : ∀ a b c, lt a b = true → lt b c = true → lt a c = true
  total : ∀ a b, lt a b = true ∨ a = b ∨ lt b a = true

/-- incomparability under `lt` -/
def Incomp (lt : α → α → Bool) (a b : α) : Prop := lt a b = false ∧ lt b a = false

structure StrictWeak (lt : α → α → Bool) : Prop where
  irrefl : ∀ a, lt a a = false
  trans : ∀ a b c, lt a b = true → lt b c = true → lt a c = true
  incomp_trans : ∀ a b c, Incomp lt a b → Incomp lt b c → Incomp lt a c

/-- `<` is compatible with the equivalence `E` (for a Boolean `==`: `E a b := eq a b = true`) -/
structure Compatible (E : α → α → Prop) (lt : α → α → Bool) : Prop where
  incomp_of_eq : ∀ a b, E a b → Incomp lt a b
  eq_of_incomp : ∀ a b, Incomp lt a b → E a b
  congr_left : ∀ a b c, E a b → lt a c = lt b c
  congr_right : ∀ a b c, E a b → lt c a = lt c b

/-- `a` is lexicographically before `b`: a proper prefix of it, or smaller at the first difference -/
def LexLt (lt : α → α → Bool) (a b : List α) : Prop :=
  (∃ y t, b = a ++ y :: t) ∨ (∃ p x s y t, a = p ++ x :: s ∧ b = p ++ y :: t ∧ lt x y = true)

/-- the derived operators `> <= >=` agree with `<` and equality -/
structure OrderOps (lt gt le ge : α → α → Bool) : Prop where
  gt_iff : ∀ a b, gt a b = true ↔ lt b a = true
  le_iff : ∀ a b, le a b = true ↔ (lt a b = true ∨ a = b)
  ge_iff : ∀ a b, ge a b = true ↔ (lt b a = true ∨ a = b)

/-- the coordinate type's `-` can be undone: `a - c = b - c → a = b` (integers, also modulo 2^n; not floating point) -/
def SubCancel (sub : α → α → α) : Prop := ∀ a b c, sub a c = sub b c → a = b

namespace IntTy
/-- `x` is a value of the type -/
def Repr (t : IntTy) (x : Int) : Prop := t.lo ≤ x ∧ x ≤ t.hi
end IntTy

end Fcppt.C17
