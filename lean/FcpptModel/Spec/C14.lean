import FcpptModel.Model.C14
import FcpptModel.Model.C14.Member
/-!
# C14 — specification vocabulary that needs no library

The algebraic meaning of the matrix model is Mathlib's `Matrix (Fin r) (Fin c) ℤ` (stated in
`FcpptProofs/Props/C14.lean`, the only place where Mathlib is imported).  What is independent of
Mathlib is collected here: a math object *denotes* its component function, comparison is
list equality / the strict lexicographic order on component lists, bit strings are binary digits.
-/
namespace Fcppt.C14

/-- the components of a vector / dim / the linear storage of a matrix, as a plain list -/
def Storage.toList {n : Nat} (s : Storage n) : List Int := (List.finRange n).map s.get

/-- the entry function a matrix denotes: row `i`, column `j` of the row-major storage -/
def Mat.entry {r c : Nat} (m : Mat r c) (i : Fin r) (j : Fin c) : Int := m.s.get ⟨i.val * c + j.val, index_lt i j⟩

/-- strict lexicographic order on equally long component functions:
    the first differing component decides -/
def LexLt {n : Nat} (a b : Fin n → Int) : Prop :=
  ∃ k : Fin n, (∀ j : Fin n, j.val < k.val → a j = b j) ∧ a k < b k

/-- binary digit `i` of `k` -/
def bitOf (k i : Nat) : Int := if k.testBit i then 1 else 0

/-- `Σ_{k<n} f k`, the plain-array meaning of the C++ folds -/
def sumFin {n : Nat} (f : Fin n → Int) : Int := ((List.finRange n).map f).sum

/-! ## objects in memory (member operators) -/

/-- the first cell of an lvalue storage: `storage[i]` is the cell `base + i` (theorem `addr_eq_base_add`) -/
def Ref.base {len : Nat} : {n : Nat} → Ref len n → Nat
  | _, .static base _ => base
  | _, .buffer ptr _ => ptr
  | _, .rowView impl offset _ => impl.base + offset

/-- `left op= right` does not overwrite a component of `right` before it is read: component `i` of the right operand is
    none of the cells `left[0] … left[i-1]` that are written before step `i`.  Holds for the same object, for disjoint
    objects, for two row views of one matrix (theorems `noClobber_self`, `noClobber_of_disjoint`, `noClobber_rows`,
    `noClobber_iff`). -/
def NoClobber {len n : Nat} (left right : Ref len n) : Prop :=
  ∀ i j : Fin n, j.val < i.val → left.addr j ≠ right.addr i

/-- `a` is none of the cells of `r` -/
def Ref.Outside {len n : Nat} (r : Ref len n) (a : Fin len) : Prop := ∀ i : Fin n, r.addr i ≠ a

/-- the cell `a` is outside the target of the statement -/
def Stmt.TargetOutside {len : Nat} (a : Fin len) : Stmt len → Prop
  | .add t _ => t.Outside a
  | .sub t _ => t.Outside a
  | .mul t _ => t.Outside a
  | .smul t _ => t.Outside a
  | .asg t _ => t.Outside a
  | .ctor t _ => t.Outside a
  | .set t _ _ => t.Outside a

end Fcppt.C14
