import FcpptModel.Model.C19
/-!
# C19 — specification: the latest `set` on a prefix wins

`levelOf root sets loc` is the level of the last `(l, v)` in `sets` (oldest first) whose location `l`
is a prefix of `loc`, and the context's root level if there is none.  It does not mention trees,
nodes, inheritance or creation order.

`History` is the language of state-changing calls on one context; `run` executes it on the model.
-/
namespace Fcppt.C19

/-- latest set on a prefix wins -/
def levelOf (root : Level) (sets : List (Loc × Level)) (loc : Loc) : Level :=
  sets.foldl (fun acc s => if s.1.isPrefixOf loc then s.2 else acc) root

/-- the documented text of a message: object formatter ∘ location prefixes (root first, empty names
    skipped) ∘ level-stream formatter -/
def prefixText (p : Loc) (inner : String) : String :=
  p.foldr (fun name acc => if name.isEmpty then acc else name ++ ": " ++ acc) inner

def specText (objFmt streamFmt : OptFn) (p : Loc) (msg : String) : String :=
  (objFmt.getD id) (prefixText p ((streamFmt.getD id) msg))

/-- state-changing calls -/
inductive Op where
  | set (loc : Loc) (lvl : Level)                       -- context::set
  | objRoot (name : String) (f : OptFn)                 -- object(context, params)
  | objAt (loc : Loc) (name : String) (f : OptFn)       -- object(context, location, params)
  | objChild (parent : Nat) (name : String) (f : OptFn) -- object(objects[parent], params)

structure State where
  tree : Tree
  objs : List Obj          -- in creation order
  fmts : List OptFn        -- the `params.formatter()` each object was created with

def State.init (root : Level) : State := ⟨mkRoot root, [], []⟩

def State.add (_ : State) (r : Tree × Obj) (objs : List Obj) (fmts : List OptFn) (f : OptFn) : State :=
  ⟨r.1, objs ++ [r.2], fmts ++ [f]⟩

/-- one call; `objChild` with a parent index that names no object is not a call (state unchanged) -/
def step (s : State) : Op → State
  | .set loc lvl => { s with tree := ctxSet s.tree loc lvl }
  | .objRoot name f => s.add (objRoot s.tree name f) s.objs s.fmts f
  | .objAt loc name f => s.add (objAt s.tree loc name f) s.objs s.fmts f
  | .objChild i name f =>
    match s.objs[i]? with
    | some p => s.add (objChild s.tree p name f) s.objs s.fmts f
    | none => s

def run (root : Level) (ops : List Op) : State := ops.foldl step (State.init root)

/-- the `set` calls of a history, oldest first -/
def setsOf : List Op → List (Loc × Level)
  | [] => []
  | .set loc lvl :: ops => (loc, lvl) :: setsOf ops
  | _ :: ops => setsOf ops

/-- levels that are enumerators -/
def Level.Valid (l : Level) : Prop := ∀ v, l = some v → v < levelCount

def Op.Valid : Op → Prop
  | .set _ lvl => Level.Valid lvl
  | _ => True

end Fcppt.C19
