import FcpptModel.Model.C08
/-!
# C08 — specification: row-major boxes of positions

Independent of the iterator, the carry fold and the stride accumulation:

* `prod d`            — the product of the extents
* `InBox mn sp p`     — `p` has the static size of `mn`/`sp` and `mn_i ≤ p_i < sp_i` for every index
* `InRange d p`       — `InBox 0 d p`: the in-range positions of a grid of size `d`
* `lin p d`           — Horner form of the row-major linear index, `p_0 + d_0 * (p_1 + d_1 * (…))`
* `box mn sp`         — the positions of the half-open box in row-major order (index 0 fastest, last
                        index slowest), defined by recursion on the static size
* `ints lo n`         — `lo, lo+1, …, lo+n-1`
-/
namespace Fcppt.C08

def prod : List Int → Int
  | [] => 1
  | x :: xs => x * prod xs

/-- component-wise `mn ≤ p < sp`, all three of the same length -/
def InBox : Pos → Pos → Pos → Prop
  | [], [], [] => True
  | m :: ms, s :: ss, x :: xs => m ≤ x ∧ x < s ∧ InBox ms ss xs
  | _, _, _ => False

def InRange (d : List Int) (p : Pos) : Prop := InBox (zeros d) d p

/-- row-major linear index in Horner form -/
def lin : Pos → List Int → Int
  | x :: xs, d :: ds => x + d * lin xs ds
  | _, _ => 0

def ints (lo : Int) : Nat → List Int
  | 0 => []
  | n + 1 => lo :: ints (lo + 1) n

/-- one row: the positions `lo :: t, …, (lo+n-1) :: t` -/
def row (lo : Int) (n : Nat) (t : Pos) : List Pos := (ints lo n).map (· :: t)

/-- all positions of the box `[mn, sp)`, first coordinate running fastest -/
def box : Pos → Pos → List Pos
  | [], _ => [[]]
  | _ :: _, [] => []
  | m :: ms, s :: ss => (box ms ss).flatMap (row m (s - m).toNat)

/-- special members, specified on values: every object holds a whole grid value or (moved-from) none;
    copying duplicates the value, moving transfers it, swapping exchanges the two objects, default construction
    yields the empty grid of the static size `n` -/
def specStep {α : Type} (n : Nat) (st : List (Option (Grid α))) : RegOp → Option (List (Option (Grid α)))
  | .defaultCtor d =>
    match st[d]? with
    | some _ => some (st.set d (some (Grid.empty n)))
    | none => none
  | .copyCtor d s =>
    if d == s then none else
    match st[s]?, st[d]? with
    | some (some v), some _ => some (st.set d (some v))
    | _, _ => none
  | .copyAssign d s =>
    match st[s]?, st[d]? with
    | some (some v), some _ => some (st.set d (some v))
    | _, _ => none
  | .moveCtor d s =>
    if d == s then none else
    match st[s]?, st[d]? with
    | some (some v), some _ => some ((st.set d (some v)).set s none)
    | _, _ => none
  | .moveAssign d s =>
    match st[s]?, st[d]? with
    | some x, some _ =>
      if d == s then some st else
      match x with
      | some v => some ((st.set d (some v)).set s none)
      | none => none
    | _, _ => none
  | .swapMember a b | .swapFree a b =>
    match st[a]?, st[b]? with
    | some x, some y => some ((st.set a y).set b x)
    | _, _ => none

def specRun {α : Type} (n : Nat) (st : List (Option (Grid α))) : List RegOp → Option (List (Option (Grid α)))
  | [] => some st
  | op :: ops => (specStep n st op).bind fun st' => specRun n st' ops

/-- what an object is worth: its grid, or nothing once it has been moved from -/
def absSlot {α : Type} (s : Slot α) : Option (Grid α) := if s.moved then none else some s.g

/-- the lexicographic order on lists of integers (the meaning of `std::lexicographical_compare`) -/
def LexLt : List Int → List Int → Prop
  | [], [] => False
  | [], _ :: _ => True
  | _ :: _, [] => False
  | x :: xs, y :: ys => x < y ∨ (x = y ∧ LexLt xs ys)

/-- the printed form of a grid: `dims` are the extents still to be opened, slowest first; `suf` the coordinates
    already fixed (the slower ones); a level is `(` its `d` sub-levels separated by `,` `)`, the innermost is the cell -/
def render (v : Pos → String) : List Int → Pos → String
  | [], suf => v suf
  | d :: ds, suf => "(" ++ ",".intercalate ((List.range d.toNat).map fun (i : Nat) => render v ds ((i : Int) :: suf)) ++ ")"

/-- multilinear interpolation: `hi` are the offsets (0 or 1) already chosen for the coordinates `≥ n`; coordinate
    `n - 1` is interpolated with its fractional part `fr (n-1)` between the two values one level down; at level 0
    the value is the cell at `fl + hi` -/
def multilin {α φ : Type} (v : Pos → α) (ip : φ → α → α → α) (fl : Pos) (fr : Nat → φ) : Nat → Pos → α
  | 0, hi => v (List.zipWith (· + ·) hi fl)
  | n + 1, hi => ip (fr n) (multilin v ip fl fr n (0 :: hi)) (multilin v ip fl fr n (1 :: hi))

instance : (mn sp p : Pos) → Decidable (InBox mn sp p)
  | [], [], [] => isTrue trivial
  | m :: ms, s :: ss, x :: xs =>
    have : Decidable (InBox ms ss xs) := instDecidableInBox ms ss xs
    inferInstanceAs (Decidable (m ≤ x ∧ x < s ∧ InBox ms ss xs))
  | [], [], _ :: _ => isFalse (by simp [InBox])
  | [], _ :: _, _ => isFalse (by simp [InBox])
  | _ :: _, [], _ => isFalse (by simp [InBox])
  | _ :: _, _ :: _, [] => isFalse (by simp [InBox])

instance (d p : Pos) : Decidable (InRange d p) := inferInstanceAs (Decidable (InBox (zeros d) d p))

end Fcppt.C08
