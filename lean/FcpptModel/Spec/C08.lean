import FcpptModel.Model.C08
/-!
# C08 — specification: row-major boxes of positions

Independent of the iterator, the carry fold and the stride accumulation:

* `prod d`            — the product of the extents
* `InBox mn sp p`     — `p` has the static size of `mn`/`sp` and `mn_i ≤ p_i < sp_i` for every index
* `InRange d p`       — `InBox 0 d p`: the in-range positions of a grid of size `d`
* `lin p d`           — Horner form of the row-major linear index, `p_0 + d_0 * (p_1 + d_1 * (…))`
* `box mn sp`         — the positions of the half-open box in row-major order (index 0 fastest, last
                        index slowest), defined by recursion on the static size
* `ints lo n`         — `lo, lo+1, …, lo+n-1`
-/
namespace Fcppt.C08

def prod : List Int → Int
  | [] => 1
  | x :: xs => x * prod xs

/-- component-wise `mn ≤ p < sp`, all three of the same length -/
def InBox : Pos → Pos → Pos → Prop
  | [], [], [] => True
  | m :: ms, s :: ss, x :: xs => m ≤ x ∧ x < s ∧ InBox ms ss xs
  | _, _, _ => False

def InRange (d : List Int) (p : Pos) : Prop := InBox (zeros d) d p

/-- row-major linear index in Horner form -/
def lin : Pos → List Int → Int
  | x :: xs, d :: ds => x + d * lin xs ds
  | _, _ => 0

def ints (lo : Int) : Nat → List Int
  | 0 => []
  | n + 1 => lo :: ints (lo + 1) n

/-- one row: the positions `lo :: t, …, (lo+n-1) :: t` -/
def row (lo : Int) (n : Nat) (t : Pos) : List Pos := (ints lo n).map (· :: t)

/-- all positions of the box `[mn, sp)`, first coordinate running fastest -/
def box : Pos → Pos → List Pos
  | [], _ => [[]]
  | _ :: _, [] => []
  | m :: ms, s :: ss => (box ms ss).flatMap (row m (s - m).toNat)

instance : (mn sp p : Pos) → Decidable (InBox mn sp p)
  | [], [], [] => isTrue trivial
  | m :: ms, s :: ss, x :: xs =>
    have : Decidable (InBox ms ss xs) := instDecidableInBox ms ss xs
    inferInstanceAs (Decidable (m ≤ x ∧ x < s ∧ InBox ms ss xs))
  | [], [], _ :: _ => isFalse (by simp [InBox])
  | [], _ :: _, _ => isFalse (by simp [InBox])
  | _ :: _, [], _ => isFalse (by simp [InBox])
  | _ :: _, _ :: _, [] => isFalse (by simp [InBox])

instance (d p : Pos) : Decidable (InRange d p) := inferInstanceAs (Decidable (InBox (zeros d) d p))

end Fcppt.C08
