import FcpptModel.Model.C04
/-!
# C04 — specification vocabulary

The meaning of the three families is that of the tagged unions `Option`, `Either` (a sum) and
`(index, value)`; what a combinator does is stated in `FcpptProofs/Props/C04.lean` as an equation
between the model and a `match` on the held alternative that mentions the continuations only.
This file holds the representation-independent notions those statements use.
-/
namespace Fcppt.C04.Spec
variable {σ α β φ : Type}

/-- `some` of all values if every element is set, else `none` (what `sequence` / `apply` document) -/
def allSome : List (Option α) → Option (List α)
  | [] => some []
  | none :: _ => none
  | some x :: r => (allSome r).map (x :: ·)

/-- all successes, or the first failure in order (what `either::sequence` / `apply` document) -/
def allSuccess : List (Either φ α) → Either φ (List α)
  | [] => .success []
  | .failure f :: _ => .failure f
  | .success s :: r =>
    match allSuccess r with
    | .failure f => .failure f
    | .success l => .success (s :: l)

/-- `first_success` on the list of results the functions return: the first success, or all failures -/
def firstSuccess : List (Either φ α) → Either (List φ) α
  | [] => .failure []
  | .success s :: _ => .success s
  | .failure f :: r =>
    match firstSuccess r with
    | .success s => .success s
    | .failure l => .failure (f :: l)

/-- prepend one more failure to the result of `first_success` on the remaining functions -/
def consFailure (f : φ) : Either (List φ) α → Either (List φ) α
  | .success s => .success s
  | .failure l => .failure (f :: l)

/-- `either` as Lean's `Except` -/
def toExcept : Either φ α → Except φ α
  | .failure f => .error f
  | .success s => .ok s

/-- the lexicographic order on optionals: nothing is smaller than everything set -/
def optLt (lt : α → α → Bool) : Option α → Option α → Bool
  | none, some _ => true
  | some x, some y => lt x y
  | _, none => false

/-- a continuation body that records its call: appends `entry` to the log and returns `r` -/
def logged {ε : Type} (entry : ε) (r : β) : K (List ε) β :=
  fun l => (.ok r, l ++ [entry])

/-- what one run of `either::loop` does: `next` is called until it returns a failure (the result);
every success before it is passed to `body` -/
inductive LoopRuns (next : Unit → K σ (Either φ α)) (body : α → K σ Unit) : σ → φ → σ → Prop where
  | stop {s s' : σ} {f : φ} : next () s = (.ok (.failure f), s') → LoopRuns next body s f s'
  | step {s s₁ s₂ s' : σ} {a : α} {f : φ} : next () s = (.ok (.success a), s₁) → body a s₁ = (.ok (), s₂) →
      LoopRuns next body s₂ f s' → LoopRuns next body s f s'

/-- a `next` for `loop` that pops a queue of prepared results (first component of the state) -/
def queueNext : Unit → K (List (Either φ α) × List α) (Either φ α) :=
  fun _ st => match st.1 with
    | e :: q => (.ok e, (q, st.2))
    | [] => (.error .oob, st)

/-- a `body` for `loop` that records what it is given (second component of the state) -/
def queueBody : α → K (List (Either φ α) × List α) Unit :=
  fun a st => (.ok (), (st.1, st.2 ++ [a]))

/-- an output stream that appends what is written to it -/
def streamPut : Char → K String Unit := fun c st => (.ok (), st.push c)
def streamPutVal (sh : α → String) : α → K String Unit := fun v st => (.ok (), st ++ sh v)

/-- `sequence_error` on the results the function returns: the first failure in order, or success -/
def firstError : List (Either φ Unit) → Either φ Unit
  | [] => .success ()
  | .failure f :: _ => .failure f
  | .success _ :: r => firstError r

/-- what `variant::dynamic_cast_` documents: the casts are tried in order, the first one that succeeds is the result
(with the position of its type in the list); no cast after it is tried -/
def tryCasts {ρ : Type} : Nat → List (Unit → K σ (Option ρ)) → K σ (Option (Nat × ρ))
  | _, [] => pure none
  | k, c :: cs => do
    let r ← c ()
    match r with
    | some ref => pure (some (k, ref))
    | none => tryCasts (k + 1) cs

/-- the first set entry of a list with its position -/
def firstSome {ρ : Type} : Nat → List (Option ρ) → Option (Nat × ρ)
  | _, [] => none
  | k, some r :: _ => some (k, r)
  | k, none :: l => firstSome (k + 1) l

end Fcppt.C04.Spec
