import FcpptModel.Model.C05
/-!
# C05 — what "conserves values" means

Independent of how an operation is programmed: an `Outcome` is what can be observed of one call —
the value category and the identities of every argument before, the element objects of every
argument after (identity, live or moved-from), the elements of the result, and the events
(identities copied, identities move-constructed out of an argument object, identities touched after
they were moved from, live values destroyed).
-/
namespace Fcppt.C05

structure Outcome where
  cats : List Cat
  ins : List (List Nat)
  outs : List (List (Nat × Bool))
  res : List (Nat × Bool)
  cp : List Nat
  mv : List Nat
  ram : List Nat
  lost : List Nat
  deriving Repr

namespace Outcome

def catOf (o : Outcome) (a : Nat) : Option Cat := o.cats[a]?
def insOf (o : Outcome) (a : Nat) : List Nat := match o.ins[a]? with | some l => l | none => []

/-- identities passed in, all arguments -/
def inputs (o : Outcome) : List Nat := o.ins.flatten

/-- how many live element objects carry identity `x` afterwards (arguments and result) -/
def liveCount (o : Outcome) (x : Nat) : Nat :=
  (o.outs.map fun l => l.countP fun s => s.2 && s.1 == x).sum + o.res.countP fun s => s.2 && s.1 == x

/-- how many live elements of the result carry identity `x` -/
def resCount (o : Outcome) (x : Nat) : Nat := o.res.countP fun s => s.2 && s.1 == x

/-- **exactly once where the operation keeps all elements**: every element of argument `a` is live in the result exactly
once, and nowhere else -/
def ExactlyOnceInResult (o : Outcome) (a : Nat) : Prop := ∀ x ∈ o.insOf a, o.resCount x = 1 ∧ o.liveCount x = 1

/-- **never copies an element of an argument that was passed as an rvalue** -/
def NoCopyOfRvalue (o : Outcome) : Prop :=
  ∀ a, o.catOf a = some .rv → ∀ x ∈ o.insOf a, x ∉ o.cp

/-- **each element is moved out of its argument at most once** -/
def MovedAtMostOnce (o : Outcome) : Prop := ∀ x ∈ o.inputs, o.mv.count x ≤ 1

/-- **never reads an object after moving from it** -/
def NoReadAfterMove (o : Outcome) : Prop := o.ram = []

/-- **never modifies an argument passed as an lvalue or const reference** -/
def LvalueUnchanged (o : Outcome) : Prop :=
  ∀ a c, o.catOf a = some c → (c = .lv ∨ c = .cr) → o.outs[a]? = some ((o.insOf a).map fun x => (x, true))

/-- **an element appears at most once** among the live objects afterwards — beyond that only as
often as it was copied (which `NoCopyOfRvalue` excludes for elements of rvalue arguments) -/
def AtMostOnce (o : Outcome) : Prop := ∀ x ∈ o.inputs, o.liveCount x ≤ 1 + o.cp.count x

/-- **never duplicates or loses an element**: every element passed in is live exactly once afterwards,
plus once per copy, unless the operation destroyed it (`lost`: filtered out, popped and dropped) -/
def Conserved (o : Outcome) : Prop := ∀ x ∈ o.inputs, o.liveCount x + o.lost.count x = 1 + o.cp.count x

/-- every element of the result is a live object -/
def ResultLive (o : Outcome) : Prop := ∀ s ∈ o.res, s.2 = true

/-- the result holds exactly the given identities (in this order) -/
def ResultIs (o : Outcome) (ids : List Nat) : Prop := o.res = ids.map fun x => (x, true)

/-- all arguments are rvalues (or in/out parameters): the instantiation with a move-only element type -/
def AllRvalue (o : Outcome) : Prop := ∀ c ∈ o.cats, c = .rv ∨ c = .io

end Outcome

/-- observation of a machine state -/
def observe (cats : List Cat) (ins : List (List Nat)) (st : St) : Outcome where
  cats := cats
  ins := ins
  outs := st.args.map fun l => (present l).map fun s => (s.id, s.isLive)
  res := (present st.res).map fun s => (s.id, s.isLive)
  cp := st.cp
  mv := st.mv
  ram := st.ram
  lost := st.lost

/-- what can be observed of the registered operation `o` called on `inp` -/
def outcome (o : Op) (inp : Input) : Outcome :=
  observe (inp.args.map (·.1)) (inp.args.map (·.2)) (exec o inp)

end Fcppt.C05
