import FcpptModel.Model.C12
/-!
# C12 — specification

`line t i` / `column t i`: the line and column of the index `i` (the position *before* the next
unread character) in the text `t`, as documented in `basic_stream_decl.hpp`, stated without any
incremental bookkeeping.

`astep`/`arun`: the abstract stream of the documentation — an index into the text, reading
advances it, a saved position *is* an index, restoring sets the index.  There are no flags, no
stored location, no clearing.  The failure-injecting stream is a read budget after which the
stream is dead.
-/
namespace Fcppt.C12

/-- line of index `i`: one plus the number of newlines among the first `i` characters -/
def line (t : List Ch) (i : Nat) : Nat := 1 + (t.take i).count nl

/-- column of index `i`: one plus the number of characters between the last newline before `i`
    (or the beginning of the text) and `i` -/
def column (t : List Ch) (i : Nat) : Nat := 1 + ((t.take i).reverse.takeWhile (· ≠ nl)).length

def locAt (t : List Ch) (i : Nat) : Loc := ⟨line t i, column t i⟩

/-- the position value that denotes index `i` of text `t` -/
def posAt (t : List Ch) (i : Nat) : Pos := { off := (i : Int), loc := some (locAt t i) }

/-- abstract stream state -/
structure AState where
  i : Nat              -- index of the next unread character
  reads : Nat          -- characters delivered so far (failure-injecting stream only)
  dead : Bool          -- the underlying stream has failed
  saved : List Nat     -- indices handed out by get_position
  deriving Repr, DecidableEq, Inhabited

def AState.init : AState := { i := 0, reads := 0, dead := false, saved := [] }

/-- one step of the abstract stream over text `t` with optional read budget `k` -/
def astep (t : List Ch) (k : Option Nat) (a : AState) : Op → AState × Obs
  | .get =>
    if a.dead then (a, .exc)
    else
      match t[a.i]? with
      | none => (a, .ch none)                                   -- end of input: never a character
      | some c =>
        match k with
        | none => ({ a with i := a.i + 1 }, .ch (some c))
        | some k =>
          if k ≤ a.reads then ({ a with dead := true }, .ch none)   -- the stream fails: never a character
          else ({ a with i := a.i + 1, reads := a.reads + 1 }, .ch (some c))
  | .pos =>
    if a.dead then (a, .exc)
    else ({ a with saved := a.saved ++ [a.i] }, .pos (posAt t a.i))
  | .set j =>
    match a.saved[j]? with
    | none => (a, .noSlot)
    | some i' => if a.dead then (a, .exc) else ({ a with i := i' }, .ok)

def arun (t : List Ch) (k : Option Nat) (a : AState) : List Op → AState × List Obs
  | [] => (a, [])
  | op :: ops =>
    let (a1, o) := astep t k a op
    let (a2, os) := arun t k a1 ops
    (a2, o :: os)

end Fcppt.C12
