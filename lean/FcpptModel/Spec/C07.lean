import FcpptModel.Model.C07
/-!
# C07 — specification: `std::vector<int>` as `List Int`

`svstep l op = some (l', ret)`: `op` is valid for a vector holding `l` (positions inside `[0, size]`,
a reference argument `v[i]` refers to an existing element, …), the vector then holds `l'` and the
returned iterator (if the operation returns one) is `begin() + ret`.  `none`: the call has undefined
behaviour for `std::vector` as well (precondition violated) — the property does not speak about it.

A buffer is the pair (read area, size of the write area).

Only the *syntax* of operations (`Src`, `VOp`, `Ctor`, `BOp`, `Op`) is shared with the model; nothing
here mentions blocks, offsets or capacities.
-/
namespace Fcppt.C07.Spec

/-- value of an argument `T const&`: `v[i]` is the element *before* the operation (std::vector guarantees this) -/
def srcVal (l : List Int) : Src → Option Int
  | .val x => some x
  | .slot i => l[i]?

def insertAt (l : List Int) (pos : Nat) (xs : List Int) : List Int := l.take pos ++ xs ++ l.drop pos

/-- index of the element an accessor refers to; `none`: the accessor's precondition is violated (`v[i]` with `i ≥ size()`,
`front()` / `back()` of an empty vector) -/
def accIdx (l : List Int) : Acc → Option Nat
  | .index i => if i < l.length then some i else none
  | .front => if l.length ≠ 0 then some 0 else none
  | .back => if l.length ≠ 0 then some (l.length - 1) else none

def svstep (l : List Int) : VOp → Option (List Int × Option Nat)
  | .pushBack s => (srcVal l s).map fun x => (l ++ [x], none)
  | .popBack => if l.length = 0 then none else some (l.take (l.length - 1), none)
  | .insert1 pos s => (srcVal l s).bind fun x => if pos ≤ l.length then some (insertAt l pos [x], some pos) else none
  | .insertN pos n s => (srcVal l s).bind fun x => if pos ≤ l.length then some (insertAt l pos (List.replicate n x), none) else none
  | .insertRange pos xs _ => if pos ≤ l.length then some (insertAt l pos xs, none) else none
  | .erase1 pos => if pos < l.length then some (l.take pos ++ l.drop (pos + 1), some pos) else none
  | .eraseR a b => if a ≤ b ∧ b ≤ l.length then some (l.take a ++ l.drop b, some a) else none
  | .resize n s => (srcVal l s).map fun x => (if n ≤ l.length then l.take n else l ++ List.replicate (n - l.length) x, none)
  | .reserve _ => some (l, none)
  | .shrink => some (l, none)
  | .clear => some ([], none)
  | .assign a x => (accIdx l a).map fun i => (l.set i x, none)
  -- a range of the vector itself: not allowed for std::vector at all; specified here (as "insert a copy of the range") where
  -- raw_vector's result does not depend on whether it reallocates: the range lies in front of the insertion point
  | .insertSelf pos a b =>
    if a ≤ b ∧ b ≤ pos ∧ pos ≤ l.length then some (insertAt l pos ((l.drop a).take (b - a)), none) else none

def sconstruct : Ctor → List Int
  | .dflt => []
  | .count n x => List.replicate n x
  | .range xs _ => xs
  | .il xs => xs

/-- (read area, write size) -/
abbrev SBuf := List Int × Nat

def sbstep (b : SBuf) : BOp → Option (SBuf × Option Nat)
  | .resize n => some ((b.1, n), none)
  | .fillWritten xs => if xs.length ≤ b.2 then some ((b.1 ++ xs, b.2 - xs.length), none) else none
  | .append size xs => if xs.length ≤ size then some ((b.1 ++ xs, size - xs.length), none) else none
  | .appendOpt size none => some ((b.1, size), some 0)
  | .appendOpt size (some xs) => if xs.length ≤ size then some ((b.1 ++ xs, size - xs.length), some 1) else none

structure SSt where
  vec : Nat → List Int
  buf : Nat → SBuf

def SSt.init : SSt := ⟨fun _ => [], fun _ => ([], 0)⟩

/-- Move *assignment* leaves the source "valid but unspecified" in the standard; the specification
fixes it to the target's old contents (what an implementation by swap does); `v = std::move(v)` leaves `v` unchanged.
Move *construction* leaves the source empty. -/
def sstep (st : SSt) : Op → Option (SSt × Option Nat)
  | .v r o => (svstep (st.vec r) o).map fun x => (⟨upd st.vec r x.1, st.buf⟩, x.2)
  | .ctor r c => some (⟨upd st.vec r (sconstruct c), st.buf⟩, none)
  | .ctorMove r s => if r = s then none else some (⟨upd (upd st.vec s []) r (st.vec s), st.buf⟩, none)
  | .ctorBuf r b => some (⟨upd st.vec r (st.buf b).1, upd st.buf b ([], 0)⟩, none)
  | .swap r s => some (⟨upd (upd st.vec s (st.vec r)) r (st.vec s), st.buf⟩, none)
  | .moveAssign r s => some (⟨upd (upd st.vec s (st.vec r)) r (st.vec s), st.buf⟩, none)
  | .bctor b n => some (⟨st.vec, upd st.buf b ([], n)⟩, none)
  | .bread b size xs => if xs.length ≤ size then some (⟨st.vec, upd st.buf b (xs, size - xs.length)⟩, none) else none
  | .breadOpt b _ none => some (⟨st.vec, upd st.buf b ([], 0)⟩, some 0)
  | .breadOpt b size (some xs) => if xs.length ≤ size then some (⟨st.vec, upd st.buf b (xs, size - xs.length)⟩, some 1) else none
  | .b k o => (sbstep (st.buf k) o).map fun x => (⟨st.vec, upd st.buf k x.1⟩, x.2)
  | .bctorMove b c => if b = c then none else some (⟨st.vec, upd (upd st.buf c ([], 0)) b (st.buf c)⟩, none)
  | .bswap b c => some (⟨st.vec, upd (upd st.buf c (st.buf b)) b (st.buf c)⟩, none)
  | .bmoveAssign b c => some (⟨st.vec, upd (upd st.buf c (st.buf b)) b (st.buf c)⟩, none)

def srunAll (st : SSt) : List Op → Option SSt
  | [] => some st
  | o :: os => (sstep st o).bind fun x => srunAll x.1 os

/-- `std::istream::read(count)` on a stream holding `input`: good iff `count` characters were there -/
def sreadChars (input : List Int) (count : Nat) : Option (List Int) :=
  if count ≤ input.length then some (input.take count) else none

end Fcppt.C07.Spec
