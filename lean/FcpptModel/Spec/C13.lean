import FcpptModel.Model.C13
/-!
# C13 — specification: a box denotes a half-open set of lattice points

`Mem b p` : the point `p ∈ ℤ^n` belongs to the box, `pos_i ≤ p_i < max_i` in every coordinate.
Everything else (`Subset`, `NonEmpty`, `Disjoint`) is ordinary set vocabulary over `Mem`,
independent of how the box functions are implemented.
-/
namespace Fcppt.C13

/-- `p ∈ pts b` -/
def Mem {n : Nat} (b : Box n) (p : Vec n) : Prop := ∀ i : Fin n, b.min[i] ≤ p[i] ∧ p[i] < b.max[i]

def NonEmpty {n : Nat} (b : Box n) : Prop := ∃ p, Mem b p

/-- `pts a ⊆ pts b` -/
def Subset {n : Nat} (a b : Box n) : Prop := ∀ p, Mem a p → Mem b p

/-- the closed hull `pos_i ≤ p_i ≤ max_i` (what `corner_points` and `extend_bounding_box(box, point)` speak about) -/
def MemClosed {n : Nat} (b : Box n) (p : Vec n) : Prop := ∀ i : Fin n, b.min[i] ≤ p[i] ∧ p[i] ≤ b.max[i]

/-- all coordinates of the box are values of the coordinate type -/
def Box.Rep {n : Nat} (t : Ty) (b : Box n) : Prop := ∀ i : Fin n, t.Rep b.min[i] ∧ t.Rep b.max[i]

end Fcppt.C13
