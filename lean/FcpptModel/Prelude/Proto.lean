/-!
# Line protocol shared by every driver

One operation per input line, one canonical result line per operation.  The C++ harness
(`/verif/harness/common/vh.hpp`) implements the same tokeniser and the same FNV-1a digest.
-/
namespace Fcppt.Proto

/-- Split a line into non-empty blank-separated tokens. -/
def tokens (line : String) : List String :=
  (line.trimAscii.toString.splitOn " ").filter (· ≠ "")

def fnvInit : UInt64 := 14695981039346656037

/-- FNV-1a over the UTF-8 bytes of `s`, continuing from `h`. -/
def fnv (h : UInt64) (s : String) : UInt64 :=
  s.toUTF8.foldl (fun h b => (h ^^^ b.toUInt64) * 1099511628211) h

def hexDigit (n : Nat) : Char :=
  if n < 10 then Char.ofNat (48 + n) else Char.ofNat (87 + n)

def hex64 (x : UInt64) : String :=
  String.ofList ((List.range 16).reverse.map fun i => hexDigit ((x.toNat >>> (4 * i)) % 16))

def b01 (b : Bool) : String := if b then "1" else "0"

def natList (l : List Nat) : String := ",".intercalate (l.map toString)
def intList (l : List Int) : String := ",".intercalate (l.map toString)

/-- Parse `a,b,c` (or `-` for the empty list) into naturals. -/
def parseNatList (s : String) : Option (List Nat) :=
  if s = "-" then some [] else (s.splitOn ",").mapM String.toNat?

def parseIntList (s : String) : Option (List Int) :=
  if s = "-" then some [] else (s.splitOn ",").mapM String.toInt?

/-- Run `step` over all lines of stdin, threading a state; prints each produced line. -/
partial def loop {σ : Type} (h : IO.FS.Stream) (out : IO.FS.Stream) (step : σ → String → σ × List String) (s : σ) : IO Unit := do
  let line ← h.getLine
  if line.isEmpty then
    out.flush
    return ()
  let (s', outs) := step s line
  for o in outs do out.putStrLn o
  loop h out step s'

/-- Stateless convenience wrapper. -/
def run (f : List String → String) : IO Unit := do
  let i ← IO.getStdin
  let o ← IO.getStdout
  loop i o (fun (_ : Unit) line => ((), [f (tokens line)])) ()

def runState {σ : Type} (init : σ) (f : σ → List String → σ × String) : IO Unit := do
  let i ← IO.getStdin
  let o ← IO.getStdout
  loop i o (fun s line => let (s', r) := f s (tokens line); (s', [r])) init

end Fcppt.Proto
