/-!
# Faults

Every model function whose C++ original has a precondition, can run into undefined
behaviour, can throw or can loop returns `Except Fault α`.  `.ok` therefore *means*:
no out-of-bounds access, no invalid shift, no signed overflow, no empty-optional
dereference, no division by zero, terminated, and no undocumented exception.
-/
namespace Fcppt

inductive ExcKind where
  | optionsException      -- fcppt::options::exception (constructor validation)
  | duplicateNames        -- fcppt::options::duplicate_names
  | streamFailed          -- std::ios_base::failure / fcppt::exception from the parse stream
  | other (what : String)
  deriving Repr, DecidableEq, Inhabited

inductive Fault where
  | oob                     -- access outside an allocation / past the end of a view
  | uninit                  -- read of an uninitialised cell
  | shift                   -- shift count ≥ width of the (promoted) left operand, or negative
  | signedOverflow          -- signed arithmetic result not representable
  | divZero
  | emptyDeref              -- get_unsafe on an empty optional / wrong alternative
  | fuel                    -- loop/recursion budget exhausted: does not terminate
  | leak | doubleFree
  | exception (k : ExcKind)
  deriving Repr, DecidableEq, Inhabited

deriving instance DecidableEq for Except

abbrev M := Except Fault

def Fault.name : Fault → String
  | .oob => "oob" | .uninit => "uninit" | .shift => "shift" | .signedOverflow => "signed-overflow"
  | .divZero => "div-zero" | .emptyDeref => "empty-deref" | .fuel => "diverge"
  | .leak => "leak" | .doubleFree => "double-free"
  | .exception .optionsException => "exc:options"
  | .exception .duplicateNames => "exc:duplicate-names"
  | .exception .streamFailed => "exc:stream"
  | .exception (.other w) => "exc:" ++ w

end Fcppt
