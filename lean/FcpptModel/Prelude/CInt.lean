import FcpptModel.Prelude.Fault
/-!
# Fixed-width C++ integer semantics (LP64, C++20)

A value of a C++ integer type `t` is an `Int` inside `[t.lo, t.hi]`.  The translator
(`tools/cxx2lean.py`) works on *instantiated* clang ASTs, where every operand already has
its concrete (promoted / converted) type and every implicit conversion is an explicit
`ImplicitCastExpr`; so each primitive below is the semantics of one operator *at one type*:

* unsigned arithmetic wraps modulo `2^bits`;
* signed `+ - * /` and unary `-` whose exact result is not representable: `Fault.signedOverflow`;
* `/` and `%` by zero: `Fault.divZero`; both truncate towards zero;
* shifts with a count that is negative or `≥ bits` of the (promoted) left operand: `Fault.shift`;
  `<<` wraps (C++20), `>>` of a negative value is an arithmetic shift;
* conversions (`IntegralCast`, `static_cast`) are modular (C++20);
* `& | ^ ~` act on the two's-complement representation.
-/
namespace Fcppt

structure IntTy where
  signed : Bool
  bits : Nat
  deriving Repr, DecidableEq, Inhabited

namespace IntTy
def u8 : IntTy := ⟨false, 8⟩
def i8 : IntTy := ⟨true, 8⟩
def u16 : IntTy := ⟨false, 16⟩
def i16 : IntTy := ⟨true, 16⟩
def u32 : IntTy := ⟨false, 32⟩
def i32 : IntTy := ⟨true, 32⟩
def u64 : IntTy := ⟨false, 64⟩
def i64 : IntTy := ⟨true, 64⟩

/-- `2^bits` as an integer -/
def modulus (t : IntTy) : Int := (2 : Int) ^ t.bits
def lo (t : IntTy) : Int := if t.signed then -((2 : Int) ^ (t.bits - 1)) else 0
def hi (t : IntTy) : Int := if t.signed then (2 : Int) ^ (t.bits - 1) - 1 else (2 : Int) ^ t.bits - 1
/-- `x` is a value of type `t` -/
def InRange (t : IntTy) (x : Int) : Prop := t.lo ≤ x ∧ x ≤ t.hi
instance (t : IntTy) (x : Int) : Decidable (t.InRange x) := by unfold InRange; exact inferInstance

/-- modular conversion into `t` (C++20 [conv.integral]) -/
def wrap (t : IntTy) (x : Int) : Int :=
  let m := x % t.modulus
  if t.signed && m ≥ t.modulus / 2 then m - t.modulus else m

/-- the unsigned type of the same width -/
def toU (t : IntTy) (x : Int) : Int := x % t.modulus
end IntTy

namespace CInt
open IntTy

/-- the result of an arithmetic operator at type `t`, given its exact value -/
def arith (t : IntTy) (exact : Int) : M Int :=
  if t.signed then (if t.InRange exact then .ok exact else .error .signedOverflow)
  else .ok (t.wrap exact)

def conv (t : IntTy) (x : Int) : Int := t.wrap x
def add (t : IntTy) (a b : Int) : M Int := arith t (a + b)
def sub (t : IntTy) (a b : Int) : M Int := arith t (a - b)
def mul (t : IntTy) (a b : Int) : M Int := arith t (a * b)
def neg (t : IntTy) (a : Int) : M Int := arith t (-a)
def div (t : IntTy) (a b : Int) : M Int :=
  if b = 0 then .error .divZero else arith t (Int.tdiv a b)
def mod (t : IntTy) (a b : Int) : M Int :=
  if b = 0 then .error .divZero
  else if t.signed && !(decide (t.InRange (Int.tdiv a b))) then .error .signedOverflow   -- INT_MIN % -1
  else .ok (Int.tmod a b)
/-- `a << n` where `a` has (promoted) type `t` -/
def shl (t : IntTy) (a n : Int) : M Int :=
  if n < 0 ∨ n ≥ t.bits then .error .shift else .ok (t.wrap (a * (2 : Int) ^ n.toNat))
/-- `a >> n`: floor division by `2^n` (arithmetic shift for negative `a`) -/
def shr (t : IntTy) (a n : Int) : M Int :=
  if n < 0 ∨ n ≥ t.bits then .error .shift else .ok (a / (2 : Int) ^ n.toNat)

def bitop (f : Nat → Nat → Nat) (t : IntTy) (a b : Int) : Int :=
  t.wrap (Int.ofNat (f (t.toU a).toNat (t.toU b).toNat))
def band (t : IntTy) (a b : Int) : Int := bitop Nat.land t a b
def bor (t : IntTy) (a b : Int) : Int := bitop Nat.lor t a b
def bxor (t : IntTy) (a b : Int) : Int := bitop Nat.xor t a b
def bnot (t : IntTy) (a : Int) : Int := t.wrap (-a - 1)

def b2i (b : Bool) : Int := if b then 1 else 0

end CInt
end Fcppt
