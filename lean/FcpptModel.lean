import FcpptModel.Prelude.Fault
import FcpptModel.Prelude.Proto
import FcpptModel.Model.C10
import FcpptModel.Spec.C10
import FcpptModel.Drv.C10
