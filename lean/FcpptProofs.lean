import FcpptProofs.Props.C10
