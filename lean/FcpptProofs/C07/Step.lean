import FcpptProofs.C07.Global
/-!
C07 helper lemmas: one step of the register machine preserves `GInv` and refines the specification step.
-/
namespace Fcppt.C07
open Spec

theorem RV.eta (v : RV) : (⟨v.base, v.last, v.cap⟩ : RV) = v := by cases v; rfl
theorem moveCtor_eq (v : RV) : moveCtor v = (v, RV.null) := by simp [moveCtor, RV.eta]
theorem RV.swap_eq (a b : RV) : RV.swap a b = (b, a) := by simp [RV.swap, RV.eta]
theorem Buf.moveCtor_eq (b : Buf) : Buf.moveCtor b = (b, Buf.null) := by simp [Buf.moveCtor, Buf.eta]
theorem Buf.swap_eq (a b : Buf) : Buf.swap a b = (b, a) := by simp [Buf.swap, Buf.eta]
theorem toRawVector_eq (b : Buf) : toRawVector b = (b.toRV, Buf.null) := rfl

theorem upd_move {α : Type} (f : Nat → α) (r s : Nat) (z : α) (hrs : r ≠ s) :
    upd (upd (upd f r z) s ((upd f r z) r)) r ((upd f r z) s) = upd (upd f s z) r (f s) := by
  funext j
  simp only [upd]
  by_cases h1 : j = r
  · subst h1; simp [Ne.symm hrs]
  · by_cases h2 : j = s
    · subst h2; simp [h1]
    · simp [h1, h2]

theorem ginv_swap_vec {st : St} {ss : SSt} (G : GInv st ss) (r s : Nat) :
    GInv ⟨st.heap, upd (upd st.vec s (st.vec r)) r (st.vec s), st.buf⟩
      ⟨upd (upd ss.vec s (ss.vec r)) r (ss.vec s), ss.buf⟩ := by
  refine ⟨G.ledger.perm (swapO (.inl r) (.inl s)) (swapO_invol _ _) ?_, ?_, G.buf⟩
  · intro x
    cases x with
    | inl j =>
      by_cases h1 : j = r
      · subst h1; simp [own, upd, swapO]
      · by_cases h2 : j = s
        · subst h2; simp [own, upd, swapO, h1]
        · simp [own, upd, swapO, h1, h2]
    | inr k => simp [own, swapO]
  · intro j
    by_cases h1 : j = r
    · subst h1; simpa [upd] using G.vec s
    · by_cases h2 : j = s
      · subst h2; simpa [upd, h1] using G.vec r
      · simpa [upd, h1, h2] using G.vec j

theorem ginv_swap_buf {st : St} {ss : SSt} (G : GInv st ss) (r s : Nat) :
    GInv ⟨st.heap, st.vec, upd (upd st.buf s (st.buf r)) r (st.buf s)⟩
      ⟨ss.vec, upd (upd ss.buf s (ss.buf r)) r (ss.buf s)⟩ := by
  refine ⟨G.ledger.perm (swapO (.inr r) (.inr s)) (swapO_invol _ _) ?_, G.vec, ?_⟩
  · intro x
    cases x with
    | inr j =>
      by_cases h1 : j = r
      · subst h1; simp [own, upd, swapO]
      · by_cases h2 : j = s
        · subst h2; simp [own, upd, swapO, h1]
        · simp [own, upd, swapO, h1, h2]
    | inl k => simp [own, swapO]
  · intro j
    by_cases h1 : j = r
    · subst h1; simpa [upd] using G.buf s
    · by_cases h2 : j = s
      · subst h2; simpa [upd, h1] using G.buf r
      · simpa [upd, h1, h2] using G.buf j

/-- `to_raw_vector`: the block of buffer `b` goes to the (null) vector register `r` -/
theorem ginv_take_buf {st : St} {ss : SSt} (G : GInv st ss) (r b : Nat) (hnull : (st.vec r).base = none) :
    GInv ⟨st.heap, upd st.vec r (st.buf b).toRV, upd st.buf b Buf.null⟩
      ⟨upd ss.vec r (ss.buf b).1, upd ss.buf b ([], 0)⟩ := by
  refine ⟨G.ledger.perm (swapO (.inl r) (.inr b)) (swapO_invol _ _) ?_, ?_, ?_⟩
  · intro x
    cases x with
    | inl j =>
      by_cases h1 : j = r
      · subst h1; simp [own, upd, swapO, Buf.toRV]
      · simp [own, upd, swapO, h1]
    | inr k =>
      by_cases h1 : k = b
      · subst h1; simp [own, upd, swapO, Buf.null, hnull]
      · simp [own, upd, swapO, h1]
  · intro j
    by_cases h1 : j = r
    · subst h1; simpa [upd] using (G.buf b).1
    · simpa [upd, h1] using G.vec j
  · intro k
    by_cases h1 : k = b
    · subst h1; simpa [upd] using BOwns.null st.heap
    · simpa [upd, h1] using G.buf k

theorem bctor_spec {h : Heap} (hwf : HeapWf h) (n : Nat) :
    BOwns (Buf.ctor h n).1 (Buf.ctor h n).2 ([], n) ∧ Frame h none (Buf.ctor h n).1 (Buf.ctor h n).2.base := by
  refine ⟨⟨⟨rfl, Nat.zero_le _, ?_⟩, by simp [Buf.ctor], Nat.le_refl _⟩, ?_, ?_, ?_, Or.inr ⟨?_, ?_⟩⟩
  · simp only [Buf.toRV, Buf.ctor, alloc_snd]
    exact ⟨fun _ => none, by rw [alloc_slot, if_pos rfl], fun j hj => by simp at hj⟩
  · simp [Buf.ctor]
  · intro i hi
    simp only [Buf.ctor, alloc_next] at hi
    simp only [Buf.ctor]
    rw [alloc_slot, if_neg (by omega)]
    exact hwf i (by omega)
  · intro i _ hi2
    simp only [Buf.ctor, alloc_snd] at hi2 ⊢
    have : i ≠ h.next := fun hx => hi2 (by rw [hx])
    rw [alloc_slot, if_neg this]
  · intro b hb
    simp only [Buf.ctor, alloc_snd, Option.some.injEq] at hb
    subst hb
    simp [Buf.ctor]
  · intro b hb; cases hb

theorem readFrom_spec (g : Nat → Nat → Nat) (hg : ∀ n c, n ≤ g n c) {h : Heap} (hwf : HeapWf h) (size : Nat) (xs : List Int)
    (hx : xs.length ≤ size) :
    ∃ h' b', readFrom g h size xs = .ok (h', b') ∧ BOwns h' b' (xs, size - xs.length) ∧ Frame h none h' b'.base := by
  obtain ⟨hoc, hfc⟩ := bctor_spec hwf 0
  obtain ⟨h1, b1, h2, b2, he1, he2, he3, ho', hf⟩ := appendCore_spec g hg hfc.wf hoc size xs hx
  refine ⟨h2, b2, ?_, by simpa using ho', Frame.trans hwf (fun b hb => by cases hb) hfc hf⟩
  simp only [readFrom, appendFrom]
  rw [if_neg (by omega)]
  simp only [he1, he2, he3, ok_bind, pure_eq_ok, Buf.moveCtor_eq, Buf.deallocate, Buf.null]

theorem readFromOpt_some_spec (g : Nat → Nat → Nat) (hg : ∀ n c, n ≤ g n c) {h : Heap} (hwf : HeapWf h) (size : Nat) (xs : List Int)
    (hx : xs.length ≤ size) :
    ∃ h' b', readFromOpt g h size (some xs) = .ok (h', some b') ∧ BOwns h' b' (xs, size - xs.length) ∧ Frame h none h' b'.base := by
  obtain ⟨hoc, hfc⟩ := bctor_spec hwf 0
  obtain ⟨h1, b1, h2, b2, he1, he2, he3, ho', hf⟩ := appendCore_spec g hg hfc.wf hoc size xs hx
  refine ⟨h2, b2, ?_, by simpa using ho', Frame.trans hwf (fun b hb => by cases hb) hfc hf⟩
  simp only [readFromOpt, appendFromOpt, he1, ok_bind]
  rw [if_neg (by omega)]
  simp only [he2, he3, ok_bind, pure_eq_ok, Buf.moveCtor_eq, Buf.deallocate, Buf.null]

/-- a failing source: the temporary buffer (with its resized block) is destroyed, nothing is left behind -/
theorem readFromOpt_none_spec (g : Nat → Nat → Nat) (hg : ∀ n c, n ≤ g n c) {h : Heap} (hwf : HeapWf h) (size : Nat) :
    ∃ h', readFromOpt g h size none = .ok (h', none) ∧ Frame h none h' none := by
  obtain ⟨hoc, hfc⟩ := bctor_spec hwf 0
  obtain ⟨h1, b1, he1, ho1, hf1⟩ := resizeWriteArea_spec g hg hfc.wf hoc size
  obtain ⟨h2, hd, hf2⟩ := destroy_spec hf1.wf ho1.1
  have hfa := Frame.trans hwf (fun b hb => by cases hb) hfc hf1
  refine ⟨h2, ?_, Frame.trans hwf (fun b hb => by cases hb) hfa hf2⟩
  simp only [readFromOpt, appendFromOpt, he1, ok_bind, pure_eq_ok, Buf.deallocate_eq, hd]

/-- a valid operation never faults, keeps the invariant and does what the specification says -/
theorem step_spec (g : Nat → Nat → Nat) (hg : ∀ n c, n ≤ g n c) {st : St} {ss : SSt} (G : GInv st ss)
    (o : Op) (ss' : SSt) (ret : Option Nat) (hs : sstep ss o = some (ss', ret)) :
    ∃ st', step g st o = .ok (st', ret) ∧ GInv st' ss' := by
  have hwf := G.ledger.wf
  cases o with
  | v r vo =>
    simp only [sstep, Option.map_eq_some_iff, Prod.mk.injEq] at hs
    obtain ⟨⟨l', ret'⟩, hsv, rfl, rfl⟩ := hs
    obtain ⟨h', v', he, ho, hf⟩ := vstep_spec g hg hwf (G.vec r) vo l' ret' hsv
    exact ⟨_, by simp only [step, he, ok_bind, pure_eq_ok], ginv_update_vec G r hf ho⟩
  | ctor r c =>
    simp only [sstep, Option.some.injEq, Prod.mk.injEq] at hs
    obtain ⟨rfl, rfl⟩ := hs
    obtain ⟨h1, hd, hf1⟩ := destroy_spec hwf (G.vec r)
    obtain ⟨h2, v2, hc, ho, hf2⟩ := construct_spec g hg hf1.wf c
    exact ⟨_, by simp only [step, hd, hc, ok_bind, pure_eq_ok],
      ginv_update_vec G r (Frame.trans hwf ((G.vec r).base_lt hwf) hf1 hf2) ho⟩
  | ctorMove r s =>
    simp only [sstep] at hs
    split at hs
    · cases hs
    · next hrs =>
      simp only [Option.some.injEq, Prod.mk.injEq] at hs
      obtain ⟨rfl, rfl⟩ := hs
      obtain ⟨h1, hd, hf1⟩ := destroy_spec hwf (G.vec r)
      have G1 := ginv_update_vec G r hf1 (Owns.null h1)
      have G2 := ginv_swap_vec G1 r s
      simp only [upd_move _ r s _ hrs] at G2
      refine ⟨_, ?_, G2⟩
      simp only [step, if_neg hrs, hd, ok_bind, pure_eq_ok, moveCtor_eq]
  | ctorBuf r b =>
    simp only [sstep, Option.some.injEq, Prod.mk.injEq] at hs
    obtain ⟨rfl, rfl⟩ := hs
    obtain ⟨h1, hd, hf1⟩ := destroy_spec hwf (G.vec r)
    have G1 := ginv_update_vec G r hf1 (Owns.null h1)
    have G2 := ginv_take_buf G1 r b (by simp [upd, RV.null])
    have e1 : upd (upd st.vec r RV.null) r (st.buf b).toRV = upd st.vec r (st.buf b).toRV := by
      funext j; simp only [upd]; split <;> rfl
    have e2 : upd (upd ss.vec r []) r (ss.buf b).1 = upd ss.vec r (ss.buf b).1 := by
      funext j; simp only [upd]; split <;> rfl
    simp only [e1, e2] at G2
    exact ⟨_, by simp only [step, hd, ok_bind, pure_eq_ok, toRawVector_eq], G2⟩
  | swap r s =>
    simp only [sstep, Option.some.injEq, Prod.mk.injEq] at hs
    obtain ⟨rfl, rfl⟩ := hs
    exact ⟨_, by simp only [step, RV.swap_eq, pure_eq_ok], ginv_swap_vec G r s⟩
  | moveAssign r s =>
    simp only [sstep, Option.some.injEq, Prod.mk.injEq] at hs
    obtain ⟨rfl, rfl⟩ := hs
    exact ⟨_, by simp only [step, RV.swap_eq, pure_eq_ok], ginv_swap_vec G r s⟩
  | bctor b n =>
    simp only [sstep, Option.some.injEq, Prod.mk.injEq] at hs
    obtain ⟨rfl, rfl⟩ := hs
    obtain ⟨h1, hd, hf1⟩ := destroy_spec hwf (G.buf b).1
    obtain ⟨ho, hf2⟩ := bctor_spec hf1.wf n
    exact ⟨_, by simp only [step, Buf.deallocate_eq, hd, ok_bind, pure_eq_ok],
      ginv_update_buf G b (Frame.trans hwf ((G.buf b).base_lt hwf) hf1 hf2) ho⟩
  | bread b size xs =>
    simp only [sstep] at hs
    split at hs
    · next hx =>
      simp only [Option.some.injEq, Prod.mk.injEq] at hs
      obtain ⟨rfl, rfl⟩ := hs
      obtain ⟨h1, hd, hf1⟩ := destroy_spec hwf (G.buf b).1
      obtain ⟨h2, b2, he, ho, hf2⟩ := readFrom_spec g hg hf1.wf size xs hx
      exact ⟨_, by simp only [step, Buf.deallocate_eq, hd, he, ok_bind, pure_eq_ok],
        ginv_update_buf G b (Frame.trans hwf ((G.buf b).base_lt hwf) hf1 hf2) ho⟩
    · cases hs
  | breadOpt b size xs =>
    obtain ⟨h1, hd, hf1⟩ := destroy_spec hwf (G.buf b).1
    cases xs with
    | none =>
      simp only [sstep, Option.some.injEq, Prod.mk.injEq] at hs
      obtain ⟨rfl, rfl⟩ := hs
      obtain ⟨h2, he, hf2⟩ := readFromOpt_none_spec g hg hf1.wf size
      exact ⟨_, by simp only [step, Buf.deallocate_eq, hd, he, ok_bind, pure_eq_ok],
        ginv_update_buf G b (b' := Buf.null) (Frame.trans hwf ((G.buf b).base_lt hwf) hf1 hf2) (BOwns.null h2)⟩
    | some xs =>
      simp only [sstep] at hs
      split at hs
      · next hx =>
        simp only [Option.some.injEq, Prod.mk.injEq] at hs
        obtain ⟨rfl, rfl⟩ := hs
        obtain ⟨h2, b2, he, ho, hf2⟩ := readFromOpt_some_spec g hg hf1.wf size xs hx
        exact ⟨_, by simp only [step, Buf.deallocate_eq, hd, he, ok_bind, pure_eq_ok],
          ginv_update_buf G b (Frame.trans hwf ((G.buf b).base_lt hwf) hf1 hf2) ho⟩
      · cases hs
  | b k bo =>
    simp only [sstep, Option.map_eq_some_iff, Prod.mk.injEq] at hs
    obtain ⟨⟨s', ret'⟩, hsv, rfl, rfl⟩ := hs
    obtain ⟨h', b', he, ho, hf⟩ := bstep_spec g hg hwf (G.buf k) bo s' ret' hsv
    exact ⟨_, by simp only [step, he, ok_bind, pure_eq_ok], ginv_update_buf G k hf ho⟩
  | bctorMove b c =>
    simp only [sstep] at hs
    split at hs
    · cases hs
    · next hbc =>
      simp only [Option.some.injEq, Prod.mk.injEq] at hs
      obtain ⟨rfl, rfl⟩ := hs
      obtain ⟨h1, hd, hf1⟩ := destroy_spec hwf (G.buf b).1
      have G1 := ginv_update_buf G b (show Frame st.heap (st.buf b).base h1 (Buf.null).base from hf1) (BOwns.null h1)
      have G2 := ginv_swap_buf G1 b c
      simp only [upd_move _ b c _ hbc] at G2
      refine ⟨_, ?_, G2⟩
      simp only [step, if_neg hbc, Buf.deallocate_eq, hd, ok_bind, pure_eq_ok, Buf.moveCtor_eq]
  | bswap b c =>
    simp only [sstep, Option.some.injEq, Prod.mk.injEq] at hs
    obtain ⟨rfl, rfl⟩ := hs
    exact ⟨_, by simp only [step, Buf.swap_eq, pure_eq_ok], ginv_swap_buf G b c⟩
  | bmoveAssign b c =>
    simp only [sstep, Option.some.injEq, Prod.mk.injEq] at hs
    obtain ⟨rfl, rfl⟩ := hs
    exact ⟨_, by simp only [step, Buf.swap_eq, pure_eq_ok], ginv_swap_buf G b c⟩

theorem ginv_init : GInv St.init SSt.init := by
  refine ⟨⟨fun _ _ => rfl, ?_, ?_, ?_⟩, fun _ => Owns.null _, fun _ => BOwns.null _⟩
  · intro i b hb; cases i <;> cases hb
  · intro i j b hb; cases i <;> cases hb
  · intro b blk hs; cases hs

end Fcppt.C07
