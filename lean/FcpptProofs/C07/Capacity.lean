import FcpptProofs.C07.Ops
/-!
C07 helper lemmas: what the operations do to the capacity and to the identity of the storage ("reallocated iff needed",
capacity never shrinks, `reserve(n)` gives at least `n`, `shrink_to_fit` gives exactly the size, geometric growth).
The shape lemmas are obtained by unfolding the model functions on a successful run; no heap reasoning is needed.
-/
namespace Fcppt.C07
open Spec

theorem bind_eq_ok {α β : Type} (x : M α) (f : α → M β) (y : β) : (x >>= f) = .ok y ↔ ∃ a, x = .ok a ∧ f a = .ok y := by
  cases x with
  | error e => simp
  | ok a => simp

/-- the pointers after a successful `insertGen`: in place (same storage, same capacity) iff the new size fits -/
theorem insertGen_shape {g : Nat → Nat → Nat} {cf : Bool} {h h' : Heap} {v v' : RV} {pos : Nat} {m : Mid}
    (he : insertGen g cf h v pos m = .ok (h', v')) :
    v'.last = v.last + m.count ∧
    ((v.last + m.count ≤ v.cap ∧ v'.base = v.base ∧ v'.cap = v.cap) ∨
     (v.cap < v.last + m.count ∧ v'.base = some h.next ∧ v'.cap = g (v.last + m.count) v.cap)) := by
  unfold insertGen at he
  split at he
  · cases he
  · simp only [] at he
    split at he
    · next hbig =>
      simp only [bind_eq_ok, pure_eq_ok, Except.ok.injEq, Prod.mk.injEq] at he
      obtain ⟨_, _, _, _, _, _, _, _, _, rfl⟩ := he
      exact ⟨rfl, Or.inr ⟨by omega, rfl, rfl⟩⟩
    · next hsmall =>
      simp only [bind_eq_ok, pure_eq_ok, Except.ok.injEq, Prod.mk.injEq] at he
      obtain ⟨_, _, _, _, _, _, _, rfl⟩ := he
      exact ⟨rfl, Or.inl ⟨by omega, rfl, rfl⟩⟩

theorem reallocate_shape {h h' : Heap} {v v' : RV} {nc : Nat} (he : reallocate h v nc = .ok (h', v')) :
    v'.base = some h.next ∧ v'.cap = nc ∧ v'.last = v.last := by
  unfold reallocate at he
  simp only [bind_eq_ok, pure_eq_ok, Except.ok.injEq, Prod.mk.injEq] at he
  obtain ⟨_, _, _, _, _, rfl⟩ := he
  exact ⟨rfl, rfl, rfl⟩

theorem eraseR_shape {h h' : Heap} {v v' : RV} {a b x : Nat} (he : eraseR h v a b = .ok (h', v', x)) :
    v'.base = v.base ∧ v'.cap = v.cap ∧ v'.last ≤ v.last := by
  unfold eraseR at he
  split at he
  · cases he
  · split at he
    · simp only [bind_eq_ok, pure_eq_ok, Except.ok.injEq, Prod.mk.injEq] at he
      obtain ⟨_, _, _, _, _, rfl, _⟩ := he
      exact ⟨rfl, rfl, Nat.sub_le _ _⟩
    · simp only [pure_eq_ok, Except.ok.injEq, Prod.mk.injEq] at he
      obtain ⟨_, rfl, _⟩ := he
      exact ⟨rfl, rfl, Nat.le_refl _⟩

theorem erase1_shape {h h' : Heap} {v v' : RV} {p x : Nat} (he : erase1 h v p = .ok (h', v', x)) :
    v'.base = v.base ∧ v'.cap = v.cap ∧ v'.last ≤ v.last := by
  unfold erase1 at he
  split at he
  · cases he
  · simp only [bind_eq_ok, pure_eq_ok, Except.ok.injEq, Prod.mk.injEq] at he
    obtain ⟨_, _, _, _, _, rfl, _⟩ := he
    exact ⟨rfl, rfl, Nat.sub_le _ _⟩

/-- the growth policy at least doubles (true of the code's `max(n, 2*cap)`, see `growth_doubles`) -/
def Geo (g : Nat → Nat → Nat) : Prop := ∀ n c, 2 * c ≤ g n c

/-- the storage is the old one with the old capacity if the new size fits into it, otherwise a block allocated
during the operation with a capacity that is not smaller (and at least twice the old one under a doubling policy) -/
def Fits (g : Nat → Nat → Nat) (h : Heap) (v v' : RV) : Prop :=
  (v'.last ≤ v.cap ∧ v'.base = v.base ∧ v'.cap = v.cap) ∨
  (v.cap < v'.last ∧ (∃ b, v'.base = some b ∧ h.next ≤ b) ∧ v.cap ≤ v'.cap ∧ (Geo g → 2 * v.cap ≤ v'.cap))

theorem Fits.trans {g : Nat → Nat → Nat} {h h1 : Heap} {v v1 v2 : RV} (hn : h.next ≤ h1.next) (hl : v1.last ≤ v2.last)
    (f1 : Fits g h v v1) (f2 : Fits g h1 v1 v2) : Fits g h v v2 := by
  rcases f1 with ⟨a1, a2, a3⟩ | ⟨a1, ⟨b, ab, abn⟩, a3, a4⟩
  · rcases f2 with ⟨b1, b2, b3⟩ | ⟨b1, ⟨b', bb, bbn⟩, b3, b4⟩
    · exact Or.inl ⟨by omega, by rw [b2, a2], by rw [b3, a3]⟩
    · exact Or.inr ⟨by omega, ⟨b', bb, by omega⟩, by omega, fun hg2 => by have := b4 hg2; omega⟩
  · rcases f2 with ⟨b1, b2, b3⟩ | ⟨b1, ⟨b', bb, bbn⟩, b3, b4⟩
    · exact Or.inr ⟨by omega, ⟨b, by rw [b2]; exact ab, abn⟩, by omega, fun hg2 => by have := a4 hg2; omega⟩
    · exact Or.inr ⟨by omega, ⟨b', bb, by omega⟩, by omega, fun hg2 => by have := a4 hg2; omega⟩

theorem insertGen_fits (g : Nat → Nat → Nat) (hg : ∀ n c, n ≤ g n c) {cf : Bool} {h h' : Heap} {v v' : RV} {pos : Nat} {m : Mid}
    (he : insertGen g cf h v pos m = .ok (h', v')) : v.last ≤ v'.last ∧ Fits g h v v' := by
  obtain ⟨hl, hsh⟩ := insertGen_shape he
  refine ⟨by omega, ?_⟩
  rcases hsh with ⟨a1, a2, a3⟩ | ⟨a1, a2, a3⟩
  · exact Or.inl ⟨by omega, a2, a3⟩
  · have := hg (v.last + m.count) v.cap
    exact Or.inr ⟨by omega, ⟨_, a2, Nat.le_refl _⟩, by omega, fun hg2 => by rw [a3]; exact hg2 _ _⟩

theorem insertInput_fits (g : Nat → Nat → Nat) (hg : ∀ n c, n ≤ g n c) :
    ∀ (xs : List Int) (h : Heap) (v : RV) (l : List Int) (pos : Nat), HeapWf h → Owns h v l → pos ≤ l.length →
    ∀ h' v', insertInput g h v pos xs = .ok (h', v') → v.last ≤ v'.last ∧ Fits g h v v'
  | [], h, v, l, pos, _, ho, _, h', v', he => by
    simp only [insertInput, pure_eq_ok, Except.ok.injEq, Prod.mk.injEq] at he
    obtain ⟨_, rfl⟩ := he
    exact ⟨Nat.le_refl _, Or.inl ⟨ho.2.1, rfl, rfl⟩⟩
  | x :: xs, h, v, l, pos, hwf, ho, hp, h', v', he => by
    obtain ⟨h1, v1, he1, ho1, hf1⟩ := insert1_spec g hg hwf ho pos hp (.val x) x rfl
    simp only [insertInput, he1, ok_bind] at he
    have hg1 : insertGen g true h v pos (.one (.val x)) = .ok (h1, v1) := by
      simp only [insert1, bind_eq_ok, pure_eq_ok, Except.ok.injEq, Prod.mk.injEq] at he1
      obtain ⟨⟨a, b⟩, hab, rfl, rfl, _⟩ := he1
      exact hab
    obtain ⟨hl1, hfit1⟩ := insertGen_fits g hg hg1
    obtain ⟨hl2, hfit2⟩ := insertInput_fits g hg xs h1 v1 _ (pos + 1) hf1.wf ho1
      (by rw [length_insertAt l [x] pos hp]; simp; omega) h' v' he
    exact ⟨by omega, Fits.trans hf1.next_le hl2 hfit1 hfit2⟩

/-- what every single-vector operation does to capacity and storage identity -/
def CapSpec (g : Nat → Nat → Nat) (h : Heap) (v v' : RV) : VOp → Prop
  | .shrink => v'.cap = v'.last ∧ v'.last = v.last
  | .reserve n => v'.last = v.last ∧
      ((n ≤ v.cap ∧ v'.base = v.base ∧ v'.cap = v.cap) ∨
       (v.cap < n ∧ (∃ b, v'.base = some b ∧ h.next ≤ b) ∧ n ≤ v'.cap ∧ v.cap ≤ v'.cap ∧ (Geo g → 2 * v.cap ≤ v'.cap)))
  | _ => Fits g h v v'

theorem vstep_capacity (g : Nat → Nat → Nat) (hg : ∀ n c, n ≤ g n c) {h : Heap} {v : RV} {l : List Int}
    (hwf : HeapWf h) (ho : Owns h v l) (o : VOp) (l' : List Int) (ret : Option Nat) (hs : svstep l o = some (l', ret))
    {h' : Heap} {v' : RV} {ret' : Option Nat} (he : vstep g h v o = .ok (h', v', ret')) : CapSpec g h v v' o := by
  have hlen := ho.1
  have hcap := ho.2.1
  have same : ∀ {w : RV}, w.base = v.base → w.cap = v.cap → w.last ≤ v.last → Fits g h v w :=
    fun hb hc hl => Or.inl ⟨by omega, hb, hc⟩
  cases o with
  | pushBack s =>
    simp only [vstep, pushBack, insert1, bind_eq_ok, pure_eq_ok, Except.ok.injEq, Prod.mk.injEq] at he
    obtain ⟨_, ⟨_, ⟨⟨a, b⟩, hab, rfl⟩, rfl⟩, rfl, rfl, _⟩ := he
    exact (insertGen_fits g hg hab).2
  | popBack =>
    simp only [vstep, popBack] at he
    split at he
    · cases he
    · simp only [bind_eq_ok, pure_eq_ok, Except.ok.injEq, Prod.mk.injEq] at he
      obtain ⟨_, ⟨⟨a, b, c⟩, hab, rfl⟩, rfl, rfl, _⟩ := he
      obtain ⟨h1, h2, h3⟩ := erase1_shape hab
      exact same h1 h2 h3
  | insert1 pos s =>
    simp only [vstep, insert1, bind_eq_ok, pure_eq_ok, Except.ok.injEq, Prod.mk.injEq] at he
    obtain ⟨_, ⟨⟨a, b⟩, hab, rfl⟩, rfl, rfl, _⟩ := he
    exact (insertGen_fits g hg hab).2
  | insertN pos n s =>
    simp only [vstep, insertN, bind_eq_ok, pure_eq_ok, Except.ok.injEq, Prod.mk.injEq] at he
    obtain ⟨⟨a, b⟩, hab, rfl, rfl, _⟩ := he
    exact (insertGen_fits g hg hab).2
  | insertRange pos xs fwd =>
    simp only [svstep] at hs
    split at hs
    · next hp =>
      simp only [vstep, insertRange, bind_eq_ok, pure_eq_ok, Except.ok.injEq, Prod.mk.injEq] at he
      obtain ⟨⟨a, b⟩, hab, rfl, rfl, _⟩ := he
      split at hab
      · cases hab
      · split at hab
        · simp only [Except.ok.injEq, Prod.mk.injEq] at hab
          obtain ⟨_, rfl⟩ := hab
          exact same rfl rfl (Nat.le_refl _)
        · split at hab
          · exact (insertGen_fits g hg hab).2
          · exact (insertInput_fits g hg xs h v l pos hwf ho hp _ _ hab).2
    · cases hs
  | erase1 pos =>
    simp only [vstep, bind_eq_ok, pure_eq_ok, Except.ok.injEq, Prod.mk.injEq] at he
    obtain ⟨⟨a, b, c⟩, hab, rfl, rfl, _⟩ := he
    obtain ⟨h1, h2, h3⟩ := erase1_shape hab
    exact same h1 h2 h3
  | eraseR x y =>
    simp only [vstep, bind_eq_ok, pure_eq_ok, Except.ok.injEq, Prod.mk.injEq] at he
    obtain ⟨⟨a, b, c⟩, hab, rfl, rfl, _⟩ := he
    obtain ⟨h1, h2, h3⟩ := eraseR_shape hab
    exact same h1 h2 h3
  | resize n s =>
    simp only [vstep, resize, bind_eq_ok, pure_eq_ok, Except.ok.injEq, Prod.mk.injEq] at he
    obtain ⟨⟨a, b⟩, hab, rfl, rfl, _⟩ := he
    split at hab
    · exact (insertGen_fits g hg hab).2
    · split at hab
      · simp only [bind_eq_ok, Except.ok.injEq, Prod.mk.injEq] at hab
        obtain ⟨⟨a', b', c'⟩, hab', rfl, rfl⟩ := hab
        obtain ⟨h1, h2, h3⟩ := eraseR_shape hab'
        exact same h1 h2 h3
      · simp only [Except.ok.injEq, Prod.mk.injEq] at hab
        obtain ⟨_, rfl⟩ := hab
        exact same rfl rfl (Nat.le_refl _)
  | reserve n =>
    simp only [vstep, reserve, bind_eq_ok, pure_eq_ok, Except.ok.injEq, Prod.mk.injEq] at he
    obtain ⟨⟨a, b⟩, hab, rfl, rfl, _⟩ := he
    split at hab
    · next hle =>
      simp only [Except.ok.injEq, Prod.mk.injEq] at hab
      obtain ⟨_, rfl⟩ := hab
      exact ⟨rfl, Or.inl ⟨hle, rfl, rfl⟩⟩
    · next hgt =>
      obtain ⟨h1, h2, h3⟩ := reallocate_shape hab
      have := hg n v.cap
      have h2' : b.cap = g n v.cap := h2
      refine ⟨h3, Or.inr ⟨by omega, ⟨_, h1, Nat.le_refl _⟩, ?_, ?_, fun hg2 => ?_⟩⟩
      · show n ≤ b.cap; omega
      · show v.cap ≤ b.cap; omega
      · show 2 * v.cap ≤ b.cap; rw [h2']; exact hg2 _ _
  | shrink =>
    simp only [vstep, shrinkToFit, bind_eq_ok, pure_eq_ok, Except.ok.injEq, Prod.mk.injEq] at he
    obtain ⟨⟨a, b⟩, hab, rfl, rfl, _⟩ := he
    obtain ⟨h1, h2, h3⟩ := reallocate_shape hab
    exact ⟨by rw [h2, h3], h3⟩
  | clear =>
    simp only [vstep, clear, bind_eq_ok, pure_eq_ok, Except.ok.injEq, Prod.mk.injEq] at he
    obtain ⟨_, ⟨⟨a, b, c⟩, hab, rfl⟩, rfl, rfl, _⟩ := he
    obtain ⟨h1, h2, h3⟩ := eraseR_shape hab
    exact same h1 h2 h3
  | assign a x =>
    simp only [vstep, bind_eq_ok, pure_eq_ok, Except.ok.injEq, Prod.mk.injEq] at he
    obtain ⟨_, _, _, rfl, _⟩ := he
    exact same rfl rfl (Nat.le_refl _)
  | insertSelf pos a b =>
    simp only [vstep, insertSelf, bind_eq_ok, pure_eq_ok, Except.ok.injEq, Prod.mk.injEq] at he
    obtain ⟨⟨x, y⟩, hab, rfl, rfl, _⟩ := he
    split at hab
    · cases hab
    · split at hab
      · cases hab
      · split at hab
        · simp only [Except.ok.injEq, Prod.mk.injEq] at hab
          obtain ⟨_, rfl⟩ := hab
          exact same rfl rfl (Nat.le_refl _)
        · exact (insertGen_fits g hg hab).2

end Fcppt.C07
