import FcpptProofs.C07.Ops
/-!
C07 helper lemmas: the buffer.  `BOwns h b (rd, ws)`: the buffer owns a live block of exactly `cap` cells, its
read area holds `rd`, the write area has `ws` cells and ends inside the block.
-/
namespace Fcppt.C07
open Spec

def Buf.toRV (b : Buf) : RV := ⟨b.base, b.readEnd, b.cap⟩

def BOwns (h : Heap) (b : Buf) (s : SBuf) : Prop :=
  Owns h b.toRV s.1 ∧ b.writeEnd = b.readEnd + s.2 ∧ b.writeEnd ≤ b.cap

theorem Buf.deallocate_eq (h : Heap) (b : Buf) : Buf.deallocate h b = Fcppt.C07.deallocate h b.toRV := by
  cases b with | mk base r w c => cases base <;> rfl

theorem BOwns.null (h : Heap) : BOwns h Buf.null ([], 0) :=
  ⟨⟨rfl, Nat.le_refl _, rfl⟩, rfl, Nat.le_refl _⟩

theorem Owns.null (h : Heap) : Owns h RV.null [] := ⟨rfl, Nat.le_refl _, rfl⟩

theorem resizeWriteArea_spec (g : Nat → Nat → Nat) (hg : ∀ n c, n ≤ g n c) {h : Heap} {b : Buf} {s : SBuf}
    (hwf : HeapWf h) (ho : BOwns h b s) (n : Nat) :
    ∃ h' b', Buf.resizeWriteArea g h b n = .ok (h', b') ∧ BOwns h' b' (s.1, n) ∧ Frame h b.base h' b'.base := by
  obtain ⟨hown, hwe, hwc⟩ := ho
  have hlen : s.1.length = b.readEnd := hown.1
  have hrc : b.readEnd ≤ b.cap := hown.2.1
  simp only [Buf.resizeWriteArea]
  by_cases h1 : b.cap - b.readEnd ≥ n
  · rw [if_pos h1]
    refine ⟨h, _, rfl, ⟨hown, rfl, ?_⟩, Frame.refl hwf _⟩
    simp only []; omega
  · rw [if_neg h1]
    have hnc := hg (n + b.readEnd) b.cap
    generalize g (n + b.readEnd) b.cap = newSize at hnc
    have hfresh : ∀ id, b.base = some id → id ≠ h.next := fun id hb => by
      have := hown.base_lt hwf id hb; omega
    have hslot0 : (h.alloc newSize).1.slot h.next = some ⟨newSize, fun _ => none⟩ := by rw [alloc_slot, if_pos rfl]
    simp only [alloc_snd]
    have htail : ∃ h' b',
        (do let h2 ← Buf.deallocate ((h.alloc newSize).1.set h.next
              (some ⟨newSize, blit (fun _ => none) 0 b.readEnd (fun k => s.1[0 + k]?)⟩)) b
            (pure (h2, (⟨some h.next, b.readEnd, b.readEnd + n, newSize⟩ : Buf)) : M (Heap × Buf))) = .ok (h', b') ∧
        BOwns h' b' (s.1, n) ∧ Frame h b.base h' b'.base := by
      simp only [Buf.deallocate_eq]
      obtain ⟨h', hd, hs', hf⟩ := realloc_frame hwf hown newSize ⟨newSize, blit (fun _ => none) 0 b.readEnd (fun k => s.1[0 + k]?)⟩
      rw [hd]
      simp only [ok_bind, pure_eq_ok]
      refine ⟨h', _, rfl, ⟨⟨hlen, by simp only [Buf.toRV]; omega, ?_⟩, rfl, by simp only []; omega⟩, hf⟩
      simp only [Buf.toRV]
      refine ⟨_, hs', ?_⟩
      intro j hj
      rw [blit_in _ _ _ _ _ (by omega) (by omega)]
      congr 1; omega
    obtain ⟨_, _, hb⟩ := hown
    cases hbase : b.base with
    | none =>
      simp only [Buf.toRV, hbase] at hb
      have h0 : b.readEnd = 0 := by omega
      simp only []
      rw [if_pos h0]
      simp only [pure_eq_ok, ok_bind]
      have hz : blit (fun _ => none) 0 b.readEnd (fun k => s.1[0 + k]?) = fun _ => none := by rw [h0, blit_zero]
      rw [hz, Heap.set_self _ _ _ hslot0, hbase] at htail
      exact htail
    | some ob =>
      simp only [Buf.toRV, hbase] at hb
      obtain ⟨c, hslot, hc⟩ := hb
      simp only []
      rw [copyFwd_cross ob h.next b.cap newSize c (hfresh ob hbase) b.readEnd _ 0 0 _
        (by rw [alloc_slot, if_neg (hfresh ob hbase)]; exact hslot) hslot0 (by omega) (by omega)
        (fun k hk => by rw [hc (0 + k) (by omega)]; simp; omega)]
      simp only [ok_bind]
      rw [blit_congr _ 0 b.readEnd (fun k => c (0 + k)) (fun k => s.1[0 + k]?) (fun k hk => hc (0 + k) (by omega))]
      rw [hbase] at htail
      exact htail

/-- the caller stores `xs` into the write area and reports them with `written` -/
theorem storeWritten_spec {h : Heap} {b : Buf} {s : SBuf} (hwf : HeapWf h) (ho : BOwns h b s) (xs : List Int)
    (hx : xs.length ≤ s.2) :
    ∃ h' b', Buf.store h b xs = .ok h' ∧ Buf.written h' b xs.length = .ok b' ∧
      BOwns h' b' (s.1 ++ xs, s.2 - xs.length) ∧ Frame h b.base h' b'.base ∧ b'.base = b.base := by
  have ho0 := ho
  obtain ⟨hown, hwe, hwc⟩ := ho
  obtain ⟨hlen, hrc, hb⟩ := hown
  simp only [Buf.toRV] at hlen hrc hb
  have hcond : ¬ b.readEnd + xs.length > b.writeEnd := by omega
  cases hbase : b.base with
  | none =>
    rw [hbase] at hb
    simp only at hb
    have hx0 : xs = [] := List.eq_nil_of_length_eq_zero (by omega)
    subst hx0
    refine ⟨h, b, ?_, ?_, ?_, ?_, hbase⟩
    · simp [Buf.store, hbase]; omega
    · simp only [Buf.written, List.length_nil, hbase]; rw [if_neg (by omega)]; simp
    · simpa using ho0
    · rw [hbase]; exact Frame.refl hwf _
  | some id =>
    rw [hbase] at hb
    obtain ⟨c, hslot, hc⟩ := hb
    have hlt := hwf.lt hslot
    have hcells : ∀ j, j < (s.1 ++ xs).length → blit c b.readEnd xs.length (fun k => xs[k]?) j = (s.1 ++ xs)[j]? := by
      intro j hj
      simp only [List.length_append] at hj
      rw [List.getElem?_append]
      by_cases h1 : j < s.1.length
      · rw [if_pos h1, blit_out _ _ _ _ _ (by omega)]; exact hc j h1
      · rw [if_neg h1, blit_in _ _ _ _ _ (by omega) (by omega), hlen]
    refine ⟨h.set id (some ⟨b.cap, blit c b.readEnd xs.length (fun k => xs[k]?)⟩),
      ⟨b.base, b.readEnd + xs.length, b.writeEnd, b.cap⟩, ?_, ?_, ⟨⟨?_, ?_, ?_⟩, ?_, hwc⟩, ?_, hbase⟩
    · simp only [Buf.store, hbase]
      rw [if_neg hcond]
      exact copyIn_spec id b.cap xs h b.readEnd c hslot (by omega)
    · simp only [Buf.written, hbase]
      rw [if_neg hcond]
      rw [readRange_spec id b.cap _ _ (Heap.set_slot_self _ _ _) xs b.readEnd (by omega)
        (fun k hk => by rw [blit_in _ _ _ _ _ (by omega) (by omega)]; congr 1; omega)]
      rfl
    · simp only [Buf.toRV, List.length_append]; omega
    · simp only [Buf.toRV]; omega
    · simp only [Buf.toRV, hbase]
      exact ⟨_, Heap.set_slot_self _ _ _, hcells⟩
    · simp only []; omega
    · simp only [hbase]
      refine ⟨Nat.le_refl _, ?_, ?_, Or.inl rfl⟩
      · intro i hi
        simp only [Heap.set_next] at hi
        rw [Heap.set_slot_ne _ _ _ _ (by omega)]
        exact hwf i hi
      · intro i hi1 _
        have h2 : i ≠ id := fun hx => hi1 (by rw [hx])
        exact Heap.set_slot_ne _ _ _ _ h2

theorem BOwns.base_lt {h : Heap} {b : Buf} {s : SBuf} (hwf : HeapWf h) (ho : BOwns h b s) : ∀ id, b.base = some id → id < h.next :=
  ho.1.base_lt hwf

/-- `resize_write_area(size)`, store `xs`, `written(xs.length)` -/
theorem appendCore_spec (g : Nat → Nat → Nat) (hg : ∀ n c, n ≤ g n c) {h : Heap} {b : Buf} {s : SBuf}
    (hwf : HeapWf h) (ho : BOwns h b s) (size : Nat) (xs : List Int) (hx : xs.length ≤ size) :
    ∃ h1 b1 h2 b2, Buf.resizeWriteArea g h b size = .ok (h1, b1) ∧ Buf.store h1 b1 xs = .ok h2 ∧
      Buf.written h2 b1 xs.length = .ok b2 ∧ BOwns h2 b2 (s.1 ++ xs, size - xs.length) ∧ Frame h b.base h2 b2.base := by
  obtain ⟨h1, b1, he1, ho1, hf1⟩ := resizeWriteArea_spec g hg hwf ho size
  obtain ⟨h2, b2, he2, he3, ho2, hf2, hbb⟩ := storeWritten_spec hf1.wf ho1 xs hx
  exact ⟨h1, b1, h2, b2, he1, he2, he3, ho2, Frame.trans hwf (ho.base_lt hwf) hf1 hf2⟩

theorem Buf.eta (b : Buf) : (⟨b.base, b.readEnd, b.writeEnd, b.cap⟩ : Buf) = b := by cases b; rfl

theorem bstep_spec (g : Nat → Nat → Nat) (hg : ∀ n c, n ≤ g n c) {h : Heap} {b : Buf} {s : SBuf}
    (hwf : HeapWf h) (ho : BOwns h b s) (o : BOp) (s' : SBuf) (ret : Option Nat) (hs : sbstep s o = some (s', ret)) :
    ∃ h' b', bstep g h b o = .ok (h', b', ret) ∧ BOwns h' b' s' ∧ Frame h b.base h' b'.base := by
  cases o with
  | resize n =>
    simp only [sbstep, Option.some.injEq, Prod.mk.injEq] at hs
    obtain ⟨rfl, rfl⟩ := hs
    obtain ⟨h', b', he, ho', hf⟩ := resizeWriteArea_spec g hg hwf ho n
    exact ⟨h', b', by simp only [bstep, he, ok_bind, pure_eq_ok], ho', hf⟩
  | fillWritten xs =>
    simp only [sbstep] at hs
    split at hs
    · next hx =>
      simp only [Option.some.injEq, Prod.mk.injEq] at hs
      obtain ⟨rfl, rfl⟩ := hs
      obtain ⟨h', b', he1, he2, ho', hf, _⟩ := storeWritten_spec hwf ho xs hx
      exact ⟨h', b', by simp only [bstep, he1, he2, ok_bind, pure_eq_ok], ho', hf⟩
    · cases hs
  | append size xs =>
    simp only [sbstep] at hs
    split at hs
    · next hx =>
      simp only [Option.some.injEq, Prod.mk.injEq] at hs
      obtain ⟨rfl, rfl⟩ := hs
      obtain ⟨h1, b1, h2, b2, he1, he2, he3, ho', hf⟩ := appendCore_spec g hg hwf ho size xs hx
      refine ⟨h2, b2, ?_, ho', hf⟩
      simp only [bstep, appendFrom]
      rw [if_neg (by omega)]
      simp only [he1, he2, he3, ok_bind, pure_eq_ok, Buf.moveCtor, Buf.swap, Buf.null, Buf.deallocate, Buf.eta]
    · cases hs
  | appendOpt size xs =>
    cases xs with
    | none =>
      simp only [sbstep, Option.some.injEq, Prod.mk.injEq] at hs
      obtain ⟨rfl, rfl⟩ := hs
      obtain ⟨h', b', he, ho', hf⟩ := resizeWriteArea_spec g hg hwf ho size
      exact ⟨h', b', by simp only [bstep, appendFromOpt, he, ok_bind, pure_eq_ok], ho', hf⟩
    | some xs =>
      simp only [sbstep] at hs
      split at hs
      · next hx =>
        simp only [Option.some.injEq, Prod.mk.injEq] at hs
        obtain ⟨rfl, rfl⟩ := hs
        obtain ⟨h1, b1, h2, b2, he1, he2, he3, ho', hf⟩ := appendCore_spec g hg hwf ho size xs hx
        refine ⟨h2, b2, ?_, ho', hf⟩
        simp only [bstep, appendFromOpt, he1, ok_bind]
        rw [if_neg (by omega)]
        simp only [he2, he3, ok_bind, pure_eq_ok, Buf.moveCtor, Buf.swap, Buf.null, Buf.deallocate, Buf.eta]
      · cases hs

end Fcppt.C07
