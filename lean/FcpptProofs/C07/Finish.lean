import FcpptProofs.C07.Step
/-!
C07 helper lemmas: running all destructors at the end of a history frees every block (no leak, no double free).
-/
namespace Fcppt.C07
open Spec

theorem destroyVecs_congr (h : Heap) (f f' : Nat → RV) : ∀ n, (∀ r, r < n → f r = f' r) → destroyVecs h f n = destroyVecs h f' n
  | 0, _ => rfl
  | n + 1, hf => by
    simp only [destroyVecs, hf n (by omega)]
    cases deallocate h (f' n) with
    | error e => rfl
    | ok h1 => exact destroyVecs_congr h1 f f' n (fun r hr => hf r (by omega))

theorem destroyBufs_congr (h : Heap) (f f' : Nat → Buf) : ∀ n, (∀ r, r < n → f r = f' r) → destroyBufs h f n = destroyBufs h f' n
  | 0, _ => rfl
  | n + 1, hf => by
    simp only [destroyBufs, hf n (by omega)]
    cases Buf.deallocate h (f' n) with
    | error e => rfl
    | ok h1 => exact destroyBufs_congr h1 f f' n (fun r hr => hf r (by omega))

theorem destroyVecs_spec : ∀ (n : Nat) (st : St) (ss : SSt), GInv st ss →
    ∃ h' ss', destroyVecs st.heap st.vec n = .ok h' ∧ GInv ⟨h', fun r => if r < n then RV.null else st.vec r, st.buf⟩ ss'
  | 0, st, ss, G => ⟨st.heap, ss, rfl, by simpa using G⟩
  | n + 1, st, ss, G => by
    obtain ⟨h1, hd, hf1⟩ := destroy_spec G.ledger.wf (G.vec n)
    have G1 := ginv_update_vec G n hf1 (Owns.null h1)
    obtain ⟨h2, ss2, he, G2⟩ := destroyVecs_spec n _ _ G1
    refine ⟨h2, ss2, ?_, ?_⟩
    · simp only [destroyVecs, hd, ok_bind]
      rw [destroyVecs_congr h1 st.vec (upd st.vec n RV.null) n (fun r hr => by simp [upd]; omega)]
      exact he
    · have e : (fun r => if r < n then RV.null else upd st.vec n RV.null r) = (fun r => if r < n + 1 then RV.null else st.vec r) := by
        funext r
        simp only [upd]
        by_cases h1 : r < n
        · rw [if_pos h1, if_pos (by omega)]
        · rw [if_neg h1]
          by_cases h2 : r = n
          · rw [if_pos h2, if_pos (by omega)]
          · rw [if_neg h2, if_neg (by omega)]
      simp only [e] at G2
      exact G2

theorem destroyBufs_spec : ∀ (n : Nat) (st : St) (ss : SSt), GInv st ss →
    ∃ h' ss', destroyBufs st.heap st.buf n = .ok h' ∧ GInv ⟨h', st.vec, fun r => if r < n then Buf.null else st.buf r⟩ ss'
  | 0, st, ss, G => ⟨st.heap, ss, rfl, by simpa using G⟩
  | n + 1, st, ss, G => by
    obtain ⟨h1, hd, hf1⟩ := destroy_spec G.ledger.wf (G.buf n).1
    have G1 := ginv_update_buf G n (show Frame st.heap (st.buf n).base h1 (Buf.null).base from hf1) (BOwns.null h1)
    obtain ⟨h2, ss2, he, G2⟩ := destroyBufs_spec n _ _ G1
    refine ⟨h2, ss2, ?_, ?_⟩
    · simp only [destroyBufs, Buf.deallocate_eq, hd, ok_bind]
      rw [destroyBufs_congr h1 st.buf (upd st.buf n Buf.null) n (fun r hr => by simp [upd]; omega)]
      exact he
    · have e : (fun r => if r < n then Buf.null else upd st.buf n Buf.null r) = (fun r => if r < n + 1 then Buf.null else st.buf r) := by
        funext r
        simp only [upd]
        by_cases h1 : r < n
        · rw [if_pos h1, if_pos (by omega)]
        · rw [if_neg h1]
          by_cases h2 : r = n
          · rw [if_pos h2, if_pos (by omega)]
          · rw [if_neg h2, if_neg (by omega)]
      simp only [e] at G2
      exact G2

theorem finish_spec {st : St} {ss : SSt} (G : GInv st ss) (nv nb : Nat)
    (hv : ∀ r, nv ≤ r → (st.vec r).base = none) (hb : ∀ k, nb ≤ k → (st.buf k).base = none) :
    ∃ h, finish st nv nb = .ok h ∧ ∀ i, h.slot i = none := by
  obtain ⟨h1, ss1, he1, G1⟩ := destroyVecs_spec nv st ss G
  obtain ⟨h2, ss2, he2, G2⟩ := destroyBufs_spec nb _ _ G1
  refine ⟨h2, by simp only [finish, he1, ok_bind]; exact he2, ?_⟩
  intro i
  cases hs : h2.slot i with
  | none => rfl
  | some blk =>
    obtain ⟨o, ho⟩ := G2.ledger.noleak i blk hs
    cases o with
    | inl r =>
      simp only [own] at ho
      by_cases hr : r < nv
      · rw [if_pos hr] at ho; cases ho
      · rw [if_neg hr, hv r (by omega)] at ho; cases ho
    | inr k =>
      simp only [own] at ho
      by_cases hk : k < nb
      · rw [if_pos hk] at ho; cases ho
      · rw [if_neg hk, hb k (by omega)] at ho; cases ho

/-- iterating `begin() .. end()` reads exactly the specification's list -/
theorem toList_of_owns {h : Heap} {v : RV} {l : List Int} (ho : Owns h v l) : toList h v = .ok l := by
  obtain ⟨hlen, hcap, hb⟩ := ho
  cases hbase : v.base with
  | none =>
    rw [hbase] at hb
    simp only at hb
    have : l = [] := List.eq_nil_of_length_eq_zero (by omega)
    subst this
    simp [toList, hbase]; omega
  | some b =>
    rw [hbase] at hb
    obtain ⟨c, hslot, hc⟩ := hb
    simp only [toList, hbase]
    rw [← hlen]
    exact readRange_spec b v.cap c h hslot l 0 (by omega) (fun k hk => by rw [Nat.zero_add]; exact hc k hk)

theorem readArea_eq (h : Heap) (b : Buf) : Buf.readArea h b = toList h b.toRV := by
  cases b with | mk base r w c => cases base <;> rfl

end Fcppt.C07
