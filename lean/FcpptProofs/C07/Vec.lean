import FcpptProofs.C07.Mem
/-!
C07 helper lemmas, object layer: `Owns h v l` (the vector `v` owns a live block of exactly `cap` cells whose
first `last` cells hold `l`), `Frame` (what an operation on one owner may do to the heap), and the
specification of `insertGen`.
-/
namespace Fcppt.C07
open Spec

/-- allocation ids at or above `next` have never been handed out -/
def HeapWf (h : Heap) : Prop := ∀ i, h.next ≤ i → h.slot i = none

/-- representation relation + invariant of one raw_vector -/
def Owns (h : Heap) (v : RV) (l : List Int) : Prop :=
  l.length = v.last ∧ v.last ≤ v.cap ∧
  match v.base with
  | none => v.cap = 0
  | some b => ∃ c, h.slot b = some ⟨v.cap, c⟩ ∧ ∀ j, j < l.length → c j = l[j]?

/-- effect on the heap of an operation on the owner of block `ob`, which owns `nb` afterwards -/
structure Frame (h : Heap) (ob : Option Nat) (h' : Heap) (nb : Option Nat) : Prop where
  next_le : h.next ≤ h'.next
  wf : HeapWf h'
  other : ∀ i, some i ≠ ob → some i ≠ nb → h'.slot i = h.slot i
  base : nb = ob ∨ ((∀ b, nb = some b → h.next ≤ b ∧ b < h'.next) ∧ ∀ b, ob = some b → h'.slot b = none)

theorem HeapWf.lt {h : Heap} (hwf : HeapWf h) {b : Nat} {blk : Block} (hs : h.slot b = some blk) : b < h.next := by
  apply Nat.lt_of_not_le
  intro hle
  rw [hwf b hle] at hs
  cases hs

theorem Frame.refl {h : Heap} (hwf : HeapWf h) (ob : Option Nat) : Frame h ob h ob :=
  ⟨Nat.le_refl _, hwf, fun _ _ _ => rfl, Or.inl rfl⟩

theorem Frame.trans {h h1 h2 : Heap} {ob b1 b2 : Option Nat} (hwf : HeapWf h) (hob : ∀ b, ob = some b → b < h.next)
    (f1 : Frame h ob h1 b1) (f2 : Frame h1 b1 h2 b2) : Frame h ob h2 b2 := by
  refine ⟨Nat.le_trans f1.next_le f2.next_le, f2.wf, ?_, ?_⟩
  · intro i hio hi2
    by_cases hi1 : some i = b1
    · -- i = b1, different from ob and b2: fresh in h, freed in h2
      rcases f1.base with hb | ⟨hfresh, _⟩
      · exact absurd (hi1.trans hb) hio
      · have hlt := (hfresh i hi1.symm).1
        rw [hwf i hlt]
        rcases f2.base with hb2 | ⟨_, hfreed⟩
        · exact absurd (hi1.trans hb2.symm) hi2
        · exact hfreed i hi1.symm
    · rw [f2.other i hi1 hi2, f1.other i hio hi1]
  · have hn1 := f1.next_le
    have hn2 := f2.next_le
    rcases f1.base with hb1 | ⟨hfresh1, hfreed1⟩
    · subst hb1
      rcases f2.base with hb2 | ⟨hfresh2, hfreed2⟩
      · exact Or.inl hb2
      · exact Or.inr ⟨fun b hb => ⟨Nat.le_trans hn1 (hfresh2 b hb).1, (hfresh2 b hb).2⟩, hfreed2⟩
    · rcases f2.base with hb2 | ⟨hfresh2, hfreed2⟩
      · subst hb2
        refine Or.inr ⟨fun b hb => ⟨(hfresh1 b hb).1, Nat.lt_of_lt_of_le (hfresh1 b hb).2 hn2⟩, fun b hb => ?_⟩
        have hne : some b ≠ b2 := fun hx => by
          have := (hfresh1 b hx.symm).1
          have := hob b hb
          omega
        rw [f2.other b hne hne]
        exact hfreed1 b hb
      · refine Or.inr ⟨fun b hb => ⟨Nat.le_trans hn1 (hfresh2 b hb).1, (hfresh2 b hb).2⟩, fun b hb => ?_⟩
        by_cases hb1 : some b = b1
        · exact hfreed2 b hb1.symm
        · have hne : some b ≠ b2 := fun hx => by
            have := (hfresh2 b hx.symm).1
            have := hob b hb
            omega
          rw [f2.other b hb1 hne]
          exact hfreed1 b hb

end Fcppt.C07
