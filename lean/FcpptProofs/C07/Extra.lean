import FcpptProofs.C07.Capacity
import FcpptProofs.C07.Finish
/-!
C07 helper lemmas: user-level form of the capacity facts, lexicographic order, buffer `operator[]`, `dynamic_array`.
-/
namespace Fcppt.C07
open Spec

/-- `Fits` in terms a user of the vector sees: same storage iff the new size fits into the old capacity -/
theorem Fits.facts {g : Nat → Nat → Nat} {h : Heap} {v v' : RV} (f : Fits g h v v')
    (hlt : ∀ b, v.base = some b → b < h.next) :
    v.cap ≤ v'.cap ∧ (v'.base = v.base ↔ v'.last ≤ v.cap) ∧ (v'.base = v.base → v'.cap = v.cap) ∧
    (Geo g → v'.cap = v.cap ∨ 2 * v.cap ≤ v'.cap) := by
  rcases f with ⟨a1, a2, a3⟩ | ⟨a1, ⟨b, ab, abn⟩, a3, a4⟩
  · exact ⟨by omega, ⟨fun _ => a1, fun _ => a2⟩, fun _ => a3, fun _ => Or.inl a3⟩
  · have hne : v'.base ≠ v.base := by
      intro heq
      have := hlt b (by rw [← heq]; exact ab)
      omega
    exact ⟨a3, ⟨fun heq => absurd heq hne, fun hle => by omega⟩, fun heq => absurd heq hne, fun hg2 => Or.inr (a4 hg2)⟩

/-! ### lexicographic order -/

theorem lexLt_irrefl : ∀ (a : List Int), lexLt a a = false
  | [] => rfl
  | x :: xs => by simp [lexLt, lexLt_irrefl xs]

/-- `!(b < a)` is `a < b || a == b`: the derived operators `<=`, `>=` are consistent with `<` and `==` -/
theorem lexLt_total : ∀ (a b : List Int), (!lexLt b a) = (lexLt a b || a == b)
  | [], [] => rfl
  | [], _ :: _ => rfl
  | _ :: _, [] => rfl
  | x :: xs, y :: ys => by
    have ih := lexLt_total xs ys
    simp only [lexLt]
    by_cases h1 : x < y
    · have h2 : ¬ y < x := by omega
      simp [h1, h2]
    · by_cases h2 : y < x
      · have hne : x ≠ y := by omega
        simp [h1, h2, hne]
      · have heq : x = y := by omega
        subst heq
        simp only [h1, if_false]
        rw [ih]
        simp

/-! ### buffer element access -/

theorem Buf.index_spec {h : Heap} {b : Buf} {s : SBuf} (ho : BOwns h b s) (i : Nat) (hi : i < s.1.length) :
    Buf.index h b i = .ok s.1[i] := by
  obtain ⟨⟨hlen, hcap, hb⟩, _, _⟩ := ho
  simp only [Buf.toRV] at hlen hcap hb
  simp only [Buf.index]
  rw [if_pos (by omega)]
  cases hbase : b.base with
  | none => rw [hbase] at hb; simp only at hb; omega
  | some id =>
    rw [hbase] at hb
    obtain ⟨c, hslot, hc⟩ := hb
    exact Heap.read_ok hslot (by omega) (by rw [hc i hi]; exact List.getElem?_eq_getElem hi)

/-- `resize_write_area` keeps the storage iff the requested write area fits behind the read area -/
theorem resizeWriteArea_inplace_iff {g : Nat → Nat → Nat} {h h' : Heap} {b b' : Buf} {s : SBuf} {n : Nat}
    (hwf : HeapWf h) (ho : BOwns h b s) (he : Buf.resizeWriteArea g h b n = .ok (h', b')) :
    (b'.base = b.base ↔ n ≤ b.cap - b.readEnd) ∧ b'.readEnd = b.readEnd ∧ b'.writeEnd = b.readEnd + n := by
  unfold Buf.resizeWriteArea at he
  split at he
  · next hfit =>
    simp only [pure_eq_ok, Except.ok.injEq, Prod.mk.injEq] at he
    obtain ⟨_, rfl⟩ := he
    exact ⟨⟨fun _ => hfit, fun _ => rfl⟩, rfl, rfl⟩
  · next hno =>
    simp only [bind_eq_ok, pure_eq_ok, Except.ok.injEq, Prod.mk.injEq] at he
    obtain ⟨_, _, _, _, _, rfl⟩ := he
    refine ⟨⟨fun heq => ?_, fun hle => absurd hle hno⟩, rfl, rfl⟩
    have := ho.base_lt hwf h.next (by simpa using heq.symm)
    omega

/-! ### dynamic_array -/

theorem dynRoundTrip_spec {h : Heap} (hwf : HeapWf h) (n : Nat) (xs : List Int) (hx : xs.length ≤ n) :
    ∃ h', dynRoundTrip h n xs = .ok (h', n, n, xs) ∧ (∀ i, h'.slot i = h.slot i) ∧ h'.next = h.next + 1 := by
  have hslot0 : (h.alloc n).1.slot h.next = some ⟨n, fun _ => none⟩ := by rw [alloc_slot, if_pos rfl]
  have hci := copyIn_spec h.next n xs (h.alloc n).1 0 (fun _ => none) hslot0 (by omega)
  have hrr := readRange_spec h.next n (blit (fun _ => none) 0 xs.length (fun k => xs[k]?))
    ((h.alloc n).1.set h.next (some ⟨n, blit (fun _ => none) 0 xs.length (fun k => xs[k]?)⟩)) (Heap.set_slot_self _ _ _)
    xs 0 (by omega) (fun k hk => by rw [blit_in _ _ _ _ _ (by omega) (by omega)]; simp)
  refine ⟨((h.alloc n).1.set h.next (some ⟨n, blit (fun _ => none) 0 xs.length (fun k => xs[k]?)⟩)).set h.next none, ?_, ?_, ?_⟩
  · simp only [dynRoundTrip, DynArr.ctor, alloc_snd, hci, ok_bind, hrr, DynArr.dtor]
    rw [free_ok (Heap.set_slot_self _ _ _)]
    simp only [ok_bind, pure_eq_ok, DynArr.dataEnd]
  · intro i
    simp only [Heap.set_set]
    by_cases hi : i = h.next
    · subst hi
      rw [Heap.set_slot_self, hwf _ (Nat.le_refl _)]
    · rw [Heap.set_slot_ne _ _ _ _ hi, alloc_slot, if_neg hi]
  · simp

end Fcppt.C07
