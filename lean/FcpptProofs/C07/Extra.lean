import FcpptProofs.C07.Capacity
import FcpptProofs.C07.Finish
/-!
C07 helper lemmas: user-level form of the capacity facts, lexicographic order, buffer `operator[]`, `dynamic_array`.
-/
namespace Fcppt.C07
open Spec

/-- `Fits` in terms a user of the vector sees: same storage iff the new size fits into the old capacity -/
theorem Fits.facts {g : Nat → Nat → Nat} {h : Heap} {v v' : RV} (f : Fits g h v v')
    (hlt : ∀ b, v.base = some b → b < h.next) :
    v.cap ≤ v'.cap ∧ (v'.base = v.base ↔ v'.last ≤ v.cap) ∧ (v'.base = v.base → v'.cap = v.cap) ∧
    (Geo g → v'.cap = v.cap ∨ 2 * v.cap ≤ v'.cap) := by
  rcases f with ⟨a1, a2, a3⟩ | ⟨a1, ⟨b, ab, abn⟩, a3, a4⟩
  · exact ⟨by omega, ⟨fun _ => a1, fun _ => a2⟩, fun _ => a3, fun _ => Or.inl a3⟩
  · have hne : v'.base ≠ v.base := by
      intro heq
      have := hlt b (by rw [← heq]; exact ab)
      omega
    exact ⟨a3, ⟨fun heq => absurd heq hne, fun hle => by omega⟩, fun heq => absurd heq hne, fun hg2 => Or.inr (a4 hg2)⟩

/-- capacity and storage identity after a valid single-vector operation `o` that took the vector `v` (holding `l`) to `v'`
(holding `l'`), as a user of the vector sees them -/
def CapFacts (g : Nat → Nat → Nat) (v v' : RV) (l' : List Int) : VOp → Prop
  | .shrink => v'.cap = l'.length
  | .reserve n => n ≤ v'.cap ∧ v.cap ≤ v'.cap ∧ (v'.base = v.base ↔ n ≤ v.cap) ∧ (v'.base = v.base → v'.cap = v.cap) ∧
      (Geo g → v'.cap = v.cap ∨ 2 * v.cap ≤ v'.cap)
  | _ => v.cap ≤ v'.cap ∧ (v'.base = v.base ↔ l'.length ≤ v.cap) ∧ (v'.base = v.base → v'.cap = v.cap) ∧
      (Geo g → v'.cap = v.cap ∨ 2 * v.cap ≤ v'.cap)

/-! ### lexicographic order -/

theorem lexLt_irrefl : ∀ (a : List Int), lexLt a a = false
  | [] => rfl
  | x :: xs => by simp [lexLt, lexLt_irrefl xs]

/-- `!(b < a)` is `a < b || a == b`: the derived operators `<=`, `>=` are consistent with `<` and `==` -/
theorem lexLt_total : ∀ (a b : List Int), (!lexLt b a) = (lexLt a b || a == b)
  | [], [] => rfl
  | [], _ :: _ => rfl
  | _ :: _, [] => rfl
  | x :: xs, y :: ys => by
    have ih := lexLt_total xs ys
    simp only [lexLt]
    by_cases h1 : x < y
    · have h2 : ¬ y < x := by omega
      simp [h1, h2]
    · by_cases h2 : y < x
      · have hne : x ≠ y := by omega
        simp [h1, h2, hne]
      · have heq : x = y := by omega
        subst heq
        simp only [h1, if_false]
        rw [ih]
        simp

/-! ### buffer element access -/

theorem Buf.index_spec {h : Heap} {b : Buf} {s : SBuf} (ho : BOwns h b s) (i : Nat) (hi : i < s.1.length) :
    Buf.index h b i = .ok s.1[i] := by
  obtain ⟨⟨hlen, hcap, hb⟩, _, _⟩ := ho
  simp only [Buf.toRV] at hlen hcap hb
  simp only [Buf.index]
  rw [if_pos (by omega)]
  cases hbase : b.base with
  | none => rw [hbase] at hb; simp only at hb; omega
  | some id =>
    rw [hbase] at hb
    obtain ⟨c, hslot, hc⟩ := hb
    exact Heap.read_ok hslot (by omega) (by rw [hc i hi]; exact List.getElem?_eq_getElem hi)

/-- `resize_write_area` keeps the storage iff the requested write area fits behind the read area -/
theorem resizeWriteArea_inplace_iff {g : Nat → Nat → Nat} {h h' : Heap} {b b' : Buf} {s : SBuf} {n : Nat}
    (hwf : HeapWf h) (ho : BOwns h b s) (he : Buf.resizeWriteArea g h b n = .ok (h', b')) :
    (b'.base = b.base ↔ n ≤ b.cap - b.readEnd) ∧ b'.readEnd = b.readEnd ∧ b'.writeEnd = b.readEnd + n := by
  unfold Buf.resizeWriteArea at he
  split at he
  · next hfit =>
    simp only [pure_eq_ok, Except.ok.injEq, Prod.mk.injEq] at he
    obtain ⟨_, rfl⟩ := he
    exact ⟨⟨fun _ => hfit, fun _ => rfl⟩, rfl, rfl⟩
  · next hno =>
    simp only [bind_eq_ok, pure_eq_ok, Except.ok.injEq, Prod.mk.injEq] at he
    obtain ⟨_, _, _, _, _, rfl⟩ := he
    refine ⟨⟨fun heq => ?_, fun hle => absurd hle hno⟩, rfl, rfl⟩
    have := ho.base_lt hwf h.next (by simpa using heq.symm)
    omega

/-! ### dynamic_array -/

theorem dynRoundTrip_spec {h : Heap} (hwf : HeapWf h) (n : Nat) (xs : List Int) (hx : xs.length ≤ n) :
    ∃ h', dynRoundTrip h n xs = .ok (h', n, n, xs) ∧ (∀ i, h'.slot i = h.slot i) ∧ h'.next = h.next + 1 := by
  have hslot0 : (h.alloc n).1.slot h.next = some ⟨n, fun _ => none⟩ := by rw [alloc_slot, if_pos rfl]
  have hci := copyIn_spec h.next n xs (h.alloc n).1 0 (fun _ => none) hslot0 (by omega)
  have hrr := readRange_spec h.next n (blit (fun _ => none) 0 xs.length (fun k => xs[k]?))
    ((h.alloc n).1.set h.next (some ⟨n, blit (fun _ => none) 0 xs.length (fun k => xs[k]?)⟩)) (Heap.set_slot_self _ _ _)
    xs 0 (by omega) (fun k hk => by rw [blit_in _ _ _ _ _ (by omega) (by omega)]; simp)
  refine ⟨((h.alloc n).1.set h.next (some ⟨n, blit (fun _ => none) 0 xs.length (fun k => xs[k]?)⟩)).set h.next none, ?_, ?_, ?_⟩
  · simp only [dynRoundTrip, DynArr.ctor, alloc_snd, hci, ok_bind, hrr, DynArr.dtor]
    rw [free_ok (Heap.set_slot_self _ _ _)]
    simp only [ok_bind, pure_eq_ok, DynArr.dataEnd]
  · intro i
    simp only [Heap.set_set]
    by_cases hi : i = h.next
    · subst hi
      rw [Heap.set_slot_self, hwf _ (Nat.le_refl _)]
    · rw [Heap.set_slot_ne _ _ _ _ hi, alloc_slot, if_neg hi]
  · simp

/-! ### read_chars -/

theorem written_shape {h : Heap} {b b' : Buf} {k : Nat} (he : Buf.written h b k = .ok b') : b'.base = b.base ∧ b'.cap = b.cap := by
  unfold Buf.written at he
  split at he
  · cases he
  · split at he
    · simp only [bind_eq_ok, pure_eq_ok, Except.ok.injEq] at he
      obtain ⟨_, _, rfl⟩ := he
      exact ⟨rfl, rfl⟩
    · split at he
      · simp only [pure_eq_ok, Except.ok.injEq] at he
        subst he
        exact ⟨rfl, rfl⟩
      · cases he

/-- read_chars.cpp against the stream specification: a good read of `count` characters yields a vector holding exactly
them (owning the only block left behind), a short read yields nothing and leaves no allocation behind -/
theorem readChars_spec (g : Nat → Nat → Nat) (hg : ∀ n c, n ≤ g n c) {h : Heap} (hwf : HeapWf h) (input : List Int) (count : Nat) :
    match sreadChars input count with
    | some xs => ∃ h' v, readChars g h input count = .ok (h', some v) ∧ Owns h' v xs ∧ Frame h none h' v.base
    | none => ∃ h', readChars g h input count = .ok (h', none) ∧ Frame h none h' none := by
  obtain ⟨hoc, hfc⟩ := bctor_spec hwf 0
  have hnone : ∀ b, (none : Option Nat) = some b → b < h.next := fun b hb => by cases hb
  by_cases hc : count ≤ input.length
  · simp only [sreadChars, if_pos hc]
    have hx : (input.take count).length ≤ count := by simp [List.length_take]; omega
    obtain ⟨h1, b1, h2, b2, he1, he2, he3, ho', hf⟩ := appendCore_spec g hg hfc.wf hoc count (input.take count) hx
    refine ⟨h2, b2.toRV, ?_, by simpa using ho'.1, Frame.trans hwf hnone hfc hf⟩
    simp only [readChars, if_pos hc, he1, ok_bind, he2, he3, Buf.moveCtor_eq, toRawVector_eq, Buf.deallocate, Buf.null, pure_eq_ok]
  · simp only [sreadChars, if_neg hc]
    obtain ⟨h1, b1, he1, ho1, hf1⟩ := resizeWriteArea_spec g hg hfc.wf hoc count
    obtain ⟨h2, b2, he2, he3, ho2, hf2, hbb⟩ := storeWritten_spec hf1.wf ho1 input (by simp only []; omega)
    obtain ⟨hb2, hc2⟩ := written_shape he3
    obtain ⟨h3, hd, hf3⟩ := destroy_spec hf2.wf ho2.1
    have hdeal : Buf.deallocate h2 b1 = .ok h3 := by
      rw [Buf.deallocate_eq]
      have : b1.toRV = ⟨b2.toRV.base, b1.readEnd, b2.toRV.cap⟩ := by simp [Buf.toRV, hb2, hc2]
      rw [this]
      simpa [deallocate] using hd
    have hfa := Frame.trans hwf hnone hfc hf1
    have hfb := Frame.trans hwf hnone hfa hf2
    refine ⟨h3, ?_, Frame.trans hwf hnone hfb hf3⟩
    simp only [readChars, if_neg hc, he1, ok_bind, he2, hdeal, pure_eq_ok]

end Fcppt.C07
