import FcpptProofs.C07.Vec
/-!
C07 helper lemmas: `insertGen` (the three insert overloads) refines `insertAt` on lists, both branches,
including a reference argument into the vector itself.
-/
namespace Fcppt.C07
open Spec

theorem blit_in (c : Nat → Option Int) (d n : Nat) (f : Nat → Option Int) (j : Nat) (h1 : d ≤ j) (h2 : j < d + n) :
    blit c d n f j = f (j - d) := by
  simp only [blit]; rw [if_pos ⟨h1, h2⟩]

theorem blit_out (c : Nat → Option Int) (d n : Nat) (f : Nat → Option Int) (j : Nat) (h : j < d ∨ d + n ≤ j) :
    blit c d n f j = c j := by
  simp only [blit]; rw [if_neg (by omega)]

theorem getElem?_insertAt (l xs : List Int) (pos : Nat) (hp : pos ≤ l.length) (j : Nat) :
    (insertAt l pos xs)[j]? =
      if j < pos then l[j]? else if j < pos + xs.length then xs[j - pos]? else l[j - xs.length]? := by
  unfold insertAt
  rw [List.append_assoc, List.getElem?_append, List.length_take, Nat.min_eq_left hp]
  by_cases h1 : j < pos
  · rw [if_pos h1, if_pos h1, List.getElem?_take, if_pos h1]
  · rw [if_neg h1, if_neg h1, List.getElem?_append]
    by_cases h2 : j < pos + xs.length
    · rw [if_pos h2, if_pos (by omega)]
    · rw [if_neg h2, if_neg (by omega), List.getElem?_drop]
      congr 1; omega

theorem length_insertAt (l xs : List Int) (pos : Nat) (hp : pos ≤ l.length) : (insertAt l pos xs).length = l.length + xs.length := by
  simp [insertAt, List.length_take, Nat.min_eq_left hp]; omega

/-! ### allocate / free -/

theorem alloc_slot (h : Heap) (n i : Nat) :
    (h.alloc n).1.slot i = if i = h.next then some ⟨n, fun _ => none⟩ else h.slot i := rfl
@[simp] theorem alloc_snd (h : Heap) (n : Nat) : (h.alloc n).2 = h.next := rfl
@[simp] theorem alloc_next (h : Heap) (n : Nat) : (h.alloc n).1.next = h.next + 1 := rfl

theorem free_ok {h : Heap} {b n : Nat} {c : Nat → Option Int} (hs : h.slot b = some ⟨n, c⟩) : h.free b n = .ok (h.set b none) := by
  simp [Heap.free, hs]

/-! ### reading the argument -/

/-- what an insert writes between prefix and suffix, on lists -/
def Mid.den (l : List Int) : Mid → Option (List Int)
  | .one s => (srcVal l s).map fun x => [x]
  | .rep n s => (srcVal l s).map fun x => List.replicate n x
  | .list xs => some xs
  | .self a b => if a ≤ b ∧ b ≤ l.length then some ((l.drop a).take (b - a)) else none

theorem getElem?_sub (l : List Int) (a b k : Nat) (hk : k < b - a) : ((l.drop a).take (b - a))[k]? = l[a + k]? := by
  rw [List.getElem?_take, if_pos hk, List.getElem?_drop]

theorem Mid.den_self {l : List Int} {a b : Nat} {xs : List Int} (h : (Mid.self a b).den l = some xs) :
    a ≤ b ∧ b ≤ l.length ∧ xs = (l.drop a).take (b - a) ∧ xs.length = b - a := by
  simp only [Mid.den] at h
  split at h
  · next hab =>
    simp only [Option.some.injEq] at h
    subst h
    refine ⟨hab.1, hab.2, rfl, ?_⟩
    simp only [List.length_take, List.length_drop]; omega
  · cases h

theorem Mid.den_length {l : List Int} {m : Mid} {xs : List Int} (h : m.den l = some xs) : xs.length = m.count := by
  cases m with
  | one s => simp only [Mid.den, Option.map_eq_some_iff] at h; obtain ⟨x, _, rfl⟩ := h; rfl
  | rep n s => simp only [Mid.den, Option.map_eq_some_iff] at h; obtain ⟨x, _, rfl⟩ := h; simp [Mid.count]
  | list ys => simp only [Mid.den, Option.some.injEq] at h; subst h; rfl
  | self a b => exact (Mid.den_self h).2.2.2

/-- reading `v[i]` while the vector's own block is as `Owns` describes it -/
theorem readSrc_ok {h : Heap} {v : RV} {l : List Int} (ho : Owns h v l) (hh : Heap)
    (hsame : ∀ b, v.base = some b → hh.slot b = h.slot b) {s : Src} {x : Int} (hs : srcVal l s = some x) :
    readSrc hh v s = .ok x := by
  cases s with
  | val y => simp only [srcVal, Option.some.injEq] at hs; subst hs; rfl
  | slot i =>
    simp only [srcVal] at hs
    have hi : i < l.length := by
      rcases Nat.lt_or_ge i l.length with h1 | h1
      · exact h1
      · rw [List.getElem?_eq_none h1] at hs; cases hs
    obtain ⟨hlen, hcap, hb⟩ := ho
    cases hbase : v.base with
    | none => rw [hbase] at hb; simp only at hb; omega
    | some b =>
      rw [hbase] at hb
      obtain ⟨c, hslot, hc⟩ := hb
      have hc' := hc i hi
      rw [hs] at hc'
      simp only [readSrc, hbase]
      rw [if_pos (by omega)]
      exact Heap.read_ok (by rw [hsame b hbase]; exact hslot) (by omega) hc'

theorem readSrc_nil (hh : Heap) (v : RV) {s : Src} {x : Int} (hs : srcVal [] s = some x) : readSrc hh v s = .ok x := by
  cases s with
  | val y => simp only [srcVal, Option.some.injEq] at hs; subst hs; rfl
  | slot i => simp [srcVal] at hs

/-- the middle part is written as the list `xs` it denotes.  `hread`: value arguments can be read from `hh` as the list says;
`hself`: for a range of the vector itself, its block in `hh` still holds the list in front of `b`, and is either a different
block than the destination or the range ends in front of the destination -/
theorem writeMid_spec (hh : Heap) (v : RV) (l : List Int) (m : Mid)
    (hread : (∀ a b, m ≠ .self a b) → ∀ s x, srcVal l s = some x → readSrc hh v s = .ok x)
    (db nd : Nat) (cd : Nat → Option Int) (hdb : hh.slot db = some ⟨nd, cd⟩) (d : Nat)
    (hself : ∀ a b, m = .self a b → ∃ vb ns cs, v.base = some vb ∧ hh.slot vb = some ⟨ns, cs⟩ ∧ b ≤ ns ∧
      (∀ j, j < b → cs j = l[j]?) ∧ (vb ≠ db ∨ b ≤ d))
    (xs : List Int) (hm : m.den l = some xs) (hd : d + xs.length ≤ nd) :
    writeMid hh v db d m = .ok (hh.set db (some ⟨nd, blit cd d xs.length (fun k => xs[k]?)⟩)) := by
  cases m with
  | one s =>
    have hread := hread (fun _ _ hx => by cases hx)
    simp only [Mid.den, Option.map_eq_some_iff] at hm
    obtain ⟨x, hx, rfl⟩ := hm
    simp only [writeMid, hread s x hx, ok_bind]
    rw [Heap.write_ok x hdb (by simp at hd; omega)]
    congr 4
    funext j
    simp only [blit, List.length_singleton]
    by_cases hj : j = d
    · subst hj; simp
    · rw [if_neg hj, if_neg (by omega)]
  | rep n s =>
    have hread := hread (fun _ _ hx => by cases hx)
    simp only [Mid.den, Option.map_eq_some_iff] at hm
    obtain ⟨x, hx, rfl⟩ := hm
    simp only [writeMid, hread s x hx, ok_bind]
    simp only [List.length_replicate] at hd ⊢
    rw [fill_spec x db nd n hh d cd hdb hd]
    congr 4
    apply blit_congr
    intro k hk
    simp [hk]
  | list ys =>
    simp only [Mid.den, Option.some.injEq] at hm
    subst hm
    simp only [writeMid]
    exact copyIn_spec db nd ys hh d cd hdb hd
  | self a b =>
    obtain ⟨hab, hbl, rfl, hxl⟩ := Mid.den_self hm
    obtain ⟨vb, ns, cs, hvb, hsl, hbn, hcs, hdis⟩ := hself a b rfl
    rw [hxl] at hd ⊢
    simp only [writeMid, RV.ptr, hvb, ok_bind]
    have hsome : ∀ k, k < b - a → (cs (a + k)).isSome := fun k hk => by
      rw [hcs (a + k) (by omega)]; simp; omega
    have hcongr : blit cd d (b - a) (fun k => cs (a + k)) = blit cd d (b - a) (fun k => ((l.drop a).take (b - a))[k]?) := by
      apply blit_congr; intro k hk; rw [hcs (a + k) (by omega), getElem?_sub l a b k hk]
    by_cases heq : vb = db
    · subst heq
      have hbd : b ≤ d := by rcases hdis with hne | hbd; exact absurd rfl hne; exact hbd
      rw [hsl] at hdb
      simp only [Option.some.injEq, Block.mk.injEq] at hdb
      obtain ⟨rfl, rfl⟩ := hdb
      rw [if_neg (fun hx => hx.2 (Or.inl hbd))]
      rw [copyFwd_disjoint vb ns (b - a) hh a d cs hsl (by omega) hd hsome, hcongr]
    · rw [if_neg (fun hx => heq hx.1)]
      rw [copyFwd_cross vb db ns nd cs heq (b - a) hh a d cd hsl hdb (by omega) hd hsome, hcongr]

theorem resolve_spec {h : Heap} {v : RV} {l : List Int} (ho : Owns h v l) {m : Mid} {xs : List Int} (hm : m.den l = some xs) :
    ∃ m', m.resolve h v = .ok m' ∧
      ((m'.den [] = some xs ∧ ∀ a b, m' ≠ .self a b) ∨ (m' = m ∧ ∃ a b, m = .self a b)) := by
  cases m with
  | one s =>
    simp only [Mid.den, Option.map_eq_some_iff] at hm
    obtain ⟨x, hx, rfl⟩ := hm
    exact ⟨.one (.val x), by simp [Mid.resolve, readSrc_ok ho h (fun _ _ => rfl) hx], Or.inl ⟨rfl, fun _ _ hx => by cases hx⟩⟩
  | rep n s =>
    simp only [Mid.den, Option.map_eq_some_iff] at hm
    obtain ⟨x, hx, rfl⟩ := hm
    exact ⟨.rep n (.val x), by simp [Mid.resolve, readSrc_ok ho h (fun _ _ => rfl) hx], Or.inl ⟨rfl, fun _ _ hx => by cases hx⟩⟩
  | list ys =>
    exact ⟨.list ys, rfl, Or.inl ⟨hm, fun _ _ hx => by cases hx⟩⟩
  | self a b =>
    exact ⟨.self a b, rfl, Or.inr ⟨rfl, a, b, rfl⟩⟩

/-- `if (!empty()) uninitialized_copy(own cells [s, s+n) → block nb at d)` -/
theorem guardCopy_spec {h : Heap} {v : RV} {l : List Int} (ho : Owns h v l) (hh : Heap)
    (hsame : ∀ b, v.base = some b → hh.slot b = h.slot b) (nb nd : Nat) (cd : Nat → Option Int)
    (hnb : hh.slot nb = some ⟨nd, cd⟩) (hne : ∀ b, v.base = some b → b ≠ nb)
    (s d n : Nat) (hs : s + n ≤ l.length) (hd : d + n ≤ nd) :
    (if v.last ≠ 0 then (do let b ← v.ptr; copyFwd hh b s nb d n) else pure hh) =
      .ok (hh.set nb (some ⟨nd, blit cd d n (fun k => l[s + k]?)⟩)) := by
  obtain ⟨hlen, hcap, hb⟩ := ho
  by_cases h0 : v.last = 0
  · have hn : n = 0 := by omega
    subst hn
    rw [if_neg (by simp [h0]), blit_zero, Heap.set_self _ _ _ hnb]; rfl
  · rw [if_pos h0]
    cases hbase : v.base with
    | none => rw [hbase] at hb; simp only at hb; omega
    | some b =>
      rw [hbase] at hb
      obtain ⟨c, hslot, hc⟩ := hb
      simp only [RV.ptr, hbase, ok_bind]
      rw [copyFwd_cross b nb v.cap nd c (hne b hbase) n hh s d cd (by rw [hsame b hbase]; exact hslot) hnb (by omega) hd
        (fun k hk => by rw [hc (s + k) (by omega)]; simp; omega)]
      congr 4
      apply blit_congr
      intro k hk
      exact hc (s + k) (by omega)

theorem insertGen_spec (g : Nat → Nat → Nat) (hg : ∀ n c, n ≤ g n c) {h : Heap} {v : RV} {l : List Int}
    (hwf : HeapWf h) (ho : Owns h v l) (pos : Nat) (hp : pos ≤ l.length) (m : Mid) (xs : List Int) (hm : m.den l = some xs)
    (hsf : ∀ a b, m = .self a b → a < b ∧ b ≤ pos := by intro _ _ hx; cases hx) :
    ∃ h' v', insertGen g true h v pos m = .ok (h', v') ∧ Owns h' v' (insertAt l pos xs) ∧ Frame h v.base h' v'.base := by
  have hcount := Mid.den_length hm
  have ho' := ho
  obtain ⟨hlen, hcap, hb⟩ := ho
  unfold insertGen
  rw [if_neg (by omega)]
  simp only []
  by_cases hbig : v.last + m.count > v.cap
  · -- reallocating branch
    rw [if_pos hbig]
    have hnc := hg (v.last + m.count) v.cap
    generalize hNC : g (v.last + m.count) v.cap = newCap at hnc
    have hfresh : ∀ b, v.base = some b → b ≠ h.next := by
      intro b hbase hx
      rw [hbase] at hb
      obtain ⟨c, hslot, _⟩ := hb
      have := hwf.lt hslot
      omega
    have hsame0 : ∀ b, v.base = some b → (h.alloc newCap).1.slot b = h.slot b := by
      intro b hbase; rw [alloc_slot, if_neg (hfresh b hbase)]
    have hslot0 : (h.alloc newCap).1.slot h.next = some ⟨newCap, fun _ => none⟩ := by rw [alloc_slot, if_pos rfl]
    simp only [alloc_snd]
    rw [guardCopy_spec ho' _ hsame0 h.next newCap _ hslot0 hfresh 0 0 pos (by omega) (by omega)]
    simp only [ok_bind]
    have hsame1 : ∀ b, v.base = some b → ((h.alloc newCap).1.set h.next
        (some ⟨newCap, blit (fun _ => none) 0 pos (fun k => l[0 + k]?)⟩)).slot b = h.slot b := by
      intro b hbase; rw [Heap.set_slot_ne _ _ _ _ (hfresh b hbase)]; exact hsame0 b hbase
    have hself1 : ∀ a b, m = .self a b → ∃ vb ns cs, v.base = some vb ∧ ((h.alloc newCap).1.set h.next
        (some ⟨newCap, blit (fun _ => none) 0 pos (fun k => l[0 + k]?)⟩)).slot vb = some ⟨ns, cs⟩ ∧ b ≤ ns ∧
        (∀ j, j < b → cs j = l[j]?) ∧ (vb ≠ h.next ∨ b ≤ pos) := by
      intro a b hab
      subst hab
      obtain ⟨_, hbl, _, _⟩ := Mid.den_self hm
      have hlt := (hsf a b rfl).1
      cases hbase : v.base with
      | none => rw [hbase] at hb; simp only at hb; omega
      | some vb =>
        rw [hbase] at hb
        obtain ⟨c, hslot, hc⟩ := hb
        exact ⟨vb, v.cap, c, rfl, by rw [hsame1 vb hbase]; exact hslot, by omega, fun j hj => hc j (by omega),
          Or.inl (hfresh vb hbase)⟩
    rw [writeMid_spec _ v l m (fun _ s x hs => readSrc_ok ho' _ hsame1 hs) h.next newCap _ (Heap.set_slot_self _ _ _) pos hself1 xs hm
      (by omega)]
    simp only [ok_bind, Heap.set_set]
    have hsame2 : ∀ b, v.base = some b → ((h.alloc newCap).1.set h.next
        (some ⟨newCap, blit (blit (fun _ => none) 0 pos (fun k => l[0 + k]?)) pos xs.length (fun k => xs[k]?)⟩)).slot b = h.slot b := by
      intro b hbase; rw [Heap.set_slot_ne _ _ _ _ (hfresh b hbase)]; exact hsame0 b hbase
    rw [guardCopy_spec ho' _ hsame2 h.next newCap _ (Heap.set_slot_self _ _ _) hfresh pos (pos + m.count) (v.last - pos)
      (by omega) (by omega)]
    simp only [ok_bind, Heap.set_set]
    -- the final cells
    generalize hC : blit (blit (blit (fun _ => none) 0 pos (fun k => l[0 + k]?)) pos xs.length (fun k => xs[k]?))
      (pos + m.count) (v.last - pos) (fun k => l[pos + k]?) = cfin
    have hcells : ∀ j, j < (insertAt l pos xs).length → cfin j = (insertAt l pos xs)[j]? := by
      intro j hj
      rw [length_insertAt l xs pos hp] at hj
      rw [getElem?_insertAt l xs pos hp, ← hC]
      by_cases h1 : j < pos
      · rw [if_pos h1, blit_out _ _ _ _ _ (by omega), blit_out _ _ _ _ _ (by omega), blit_in _ _ _ _ _ (by omega) (by omega)]
        congr 1; omega
      · rw [if_neg h1]
        by_cases h2 : j < pos + xs.length
        · rw [if_pos h2, blit_out _ _ _ _ _ (by omega), blit_in _ _ _ _ _ (by omega) (by omega)]
        · rw [if_neg h2, blit_in _ _ _ _ _ (by omega) (by omega)]
          congr 1; omega
    cases hbase : v.base with
    | none =>
      simp only [deallocate, hbase, ok_bind, pure_eq_ok]
      refine ⟨_, _, rfl, ⟨by rw [length_insertAt l xs pos hp]; simp only []; omega, by simpa using hnc, ?_⟩, ?_⟩
      · exact ⟨cfin, Heap.set_slot_self _ _ _, hcells⟩
      · refine ⟨by simp, ?_, ?_, Or.inr ⟨?_, ?_⟩⟩
        · intro i hi
          simp only [Heap.set_next, alloc_next] at hi
          rw [Heap.set_slot_ne _ _ _ _ (by omega), alloc_slot, if_neg (by omega)]
          exact hwf i (by omega)
        · intro i _ hi2
          have : i ≠ h.next := fun hx => hi2 (by rw [hx])
          rw [Heap.set_slot_ne _ _ _ _ this, alloc_slot, if_neg this]
        · intro b hb'
          simp only [Option.some.injEq] at hb'
          subst hb'
          simp
        · intro b hb'; cases hb'
    | some b =>
      rw [hbase] at hb
      obtain ⟨c, hslot, hc⟩ := hb
      have hbn : b ≠ h.next := hfresh b hbase
      simp only [deallocate, hbase]
      rw [free_ok (c := c) (by rw [Heap.set_slot_ne _ _ _ _ hbn, alloc_slot, if_neg hbn]; exact hslot)]
      simp only [ok_bind, pure_eq_ok]
      refine ⟨_, _, rfl, ⟨by rw [length_insertAt l xs pos hp]; simp only []; omega, by simpa using hnc, ?_⟩, ?_⟩
      · refine ⟨cfin, ?_, hcells⟩
        simp only []
        rw [Heap.set_slot_ne _ _ _ _ (Ne.symm hbn)]
        exact Heap.set_slot_self _ _ _
      · refine ⟨by simp, ?_, ?_, Or.inr ⟨?_, ?_⟩⟩
        · intro i hi
          simp only [Heap.set_next, alloc_next] at hi
          have hlt := hwf.lt hslot
          rw [Heap.set_slot_ne _ _ _ _ (by omega), Heap.set_slot_ne _ _ _ _ (by omega), alloc_slot, if_neg (by omega)]
          exact hwf i (by omega)
        · intro i hi1 hi2
          have h1 : i ≠ h.next := fun hx => hi2 (by rw [hx])
          have h2 : i ≠ b := fun hx => hi1 (by rw [hx])
          rw [Heap.set_slot_ne _ _ _ _ h2, Heap.set_slot_ne _ _ _ _ h1, alloc_slot, if_neg h1]
        · intro b' hb'
          simp only [Option.some.injEq] at hb'
          subst hb'
          simp
        · intro b' hb'
          simp only [Option.some.injEq] at hb'
          subst hb'
          exact Heap.set_slot_self _ _ _
  · -- in-place branch
    rw [if_neg hbig]
    obtain ⟨m', hres, hm'⟩ := resolve_spec ho' hm
    simp only [if_true, hres, ok_bind]
    cases hbase : v.base with
    | none =>
      rw [hbase] at hb
      simp only at hb
      have hl0 : v.last = 0 := by omega
      have hx0 : xs.length = 0 := by omega
      have hl : l = [] := List.eq_nil_of_length_eq_zero (by omega)
      have hxs : xs = [] := List.eq_nil_of_length_eq_zero hx0
      subst hl; subst hxs
      rw [if_neg (by simp [hl0])]
      simp only [pure_eq_ok, ok_bind]
      rw [if_pos (by omega)]
      simp only [ok_bind]
      refine ⟨_, _, rfl, ⟨by simp [insertAt]; omega, by simp; omega, ?_⟩, ?_⟩
      · simp only []; exact hb
      · simp only []; exact Frame.refl hwf _
    | some b =>
      rw [hbase] at hb
      obtain ⟨c, hslot, hc⟩ := hb
      have hbw : (if v.last ≠ 0 then (do let b ← v.ptr; copyBwd h b pos b (pos + m.count) (v.last - pos)) else pure h) =
          .ok (h.set b (some ⟨v.cap, blit c (pos + m.count) (v.last - pos) (fun k => l[pos + k]?)⟩)) := by
        by_cases h0 : v.last = 0
        · rw [if_neg (by simp [h0]), show v.last - pos = 0 by omega, blit_zero, Heap.set_self _ _ _ hslot]; rfl
        · rw [if_pos h0]
          simp only [RV.ptr, hbase, ok_bind]
          rw [copyBwd_right b v.cap (v.last - pos) h pos (pos + m.count) c hslot (by omega) (by omega)
            (fun k hk => by rw [hc (pos + k) (by omega)]; simp; omega)]
          congr 4
          apply blit_congr
          intro k hk
          exact hc (pos + k) (by omega)
      rw [hbw]
      simp only [ok_bind]
      have hwm : writeMid (h.set b (some ⟨v.cap, blit c (pos + m.count) (v.last - pos) (fun k => l[pos + k]?)⟩)) v b pos m' =
          .ok ((h.set b (some ⟨v.cap, blit c (pos + m.count) (v.last - pos) (fun k => l[pos + k]?)⟩)).set b
            (some ⟨v.cap, blit (blit c (pos + m.count) (v.last - pos) (fun k => l[pos + k]?)) pos xs.length (fun k => xs[k]?)⟩)) := by
        rcases hm' with ⟨hd', hns⟩ | ⟨rfl, a2, b2, rfl⟩
        · exact writeMid_spec _ v [] m' (fun _ s x hs => readSrc_nil _ v hs) b v.cap _ (Heap.set_slot_self _ _ _) pos
            (fun a2 b2 hab => absurd hab (hns a2 b2)) xs hd' (by omega)
        · obtain ⟨_, hbp⟩ := hsf a2 b2 rfl
          exact writeMid_spec _ v l _ (fun hns => absurd rfl (hns a2 b2)) b v.cap _ (Heap.set_slot_self _ _ _) pos
            (fun a3 b3 heq => by
              cases heq
              exact ⟨b, v.cap, _, hbase, Heap.set_slot_self _ _ _, by omega,
                fun j hj => by rw [blit_out _ _ _ _ _ (by omega)]; exact hc j (by omega), Or.inr hbp⟩) xs hm (by omega)
      rw [hwm]
      simp only [ok_bind, pure_eq_ok, Heap.set_set]
      generalize hC : blit (blit c (pos + m.count) (v.last - pos) (fun k => l[pos + k]?)) pos xs.length (fun k => xs[k]?) = cfin
      have hcells : ∀ j, j < (insertAt l pos xs).length → cfin j = (insertAt l pos xs)[j]? := by
        intro j hj
        rw [length_insertAt l xs pos hp] at hj
        rw [getElem?_insertAt l xs pos hp, ← hC]
        by_cases h1 : j < pos
        · rw [if_pos h1, blit_out _ _ _ _ _ (by omega), blit_out _ _ _ _ _ (by omega)]
          exact hc j (by omega)
        · rw [if_neg h1]
          by_cases h2 : j < pos + xs.length
          · rw [if_pos h2, blit_in _ _ _ _ _ (by omega) (by omega)]
          · rw [if_neg h2, blit_out _ _ _ _ _ (by omega), blit_in _ _ _ _ _ (by omega) (by omega)]
            congr 1; omega
      have hlt := hwf.lt hslot
      refine ⟨_, _, rfl, ⟨by rw [length_insertAt l xs pos hp]; simp only []; omega, by simp only []; omega, ?_⟩, ?_⟩
      · simp only []
        exact ⟨cfin, Heap.set_slot_self _ _ _, hcells⟩
      · refine ⟨Nat.le_refl _, ?_, ?_, Or.inl rfl⟩
        · intro i hi
          simp only [Heap.set_next] at hi
          rw [Heap.set_slot_ne _ _ _ _ (by omega)]
          exact hwf i hi
        · intro i hi1 _
          have h2 : i ≠ b := fun hx => hi1 (by rw [hx])
          exact Heap.set_slot_ne _ _ _ _ h2

end Fcppt.C07
