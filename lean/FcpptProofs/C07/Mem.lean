import FcpptModel.Spec.C07
/-!
C07 helper lemmas, memory layer: what the copy loops do to a block, stated as exact results.
`blit c d n f` = the cells `c` with `[d, d+n)` overwritten by `f 0 … f (n-1)`.
-/
namespace Fcppt.C07

@[simp] theorem ok_bind {α β : Type} (x : α) (f : α → M β) : (Except.ok x >>= f) = f x := rfl
@[simp] theorem error_bind {α β : Type} (e : Fault) (f : α → M β) : ((Except.error e : M α) >>= f) = Except.error e := rfl
@[simp] theorem pure_eq_ok {α : Type} (x : α) : (pure x : M α) = Except.ok x := rfl

def blit (c : Nat → Option Int) (d n : Nat) (f : Nat → Option Int) : Nat → Option Int :=
  fun j => if d ≤ j ∧ j < d + n then f (j - d) else c j

theorem blit_zero (c : Nat → Option Int) (d : Nat) (f : Nat → Option Int) : blit c d 0 f = c := by
  funext j; simp [blit]; omega

theorem blit_congr (c : Nat → Option Int) (d n : Nat) (f g : Nat → Option Int) (h : ∀ k, k < n → f k = g k) :
    blit c d n f = blit c d n g := by
  funext j
  simp only [blit]
  split
  · apply h; omega
  · rfl

/-- one write, then the rest of a first-to-last loop -/
theorem blit_step (c : Nat → Option Int) (d n : Nat) (f : Nat → Option Int) :
    blit (fun j => if j = d then f 0 else c j) (d + 1) n (fun k => f (k + 1)) = blit c d (n + 1) f := by
  funext j
  simp only [blit]
  by_cases h1 : d + 1 ≤ j ∧ j < d + 1 + n
  · have h2 : d ≤ j ∧ j < d + (n + 1) := by omega
    rw [if_pos h1, if_pos h2]
    congr 1; omega
  · rw [if_neg h1]
    by_cases h3 : j = d
    · subst h3; simp
    · have h2 : ¬ (d ≤ j ∧ j < d + (n + 1)) := by omega
      rw [if_neg h2, if_neg h3]

/-- one write at the far end, then the rest of a last-to-first loop -/
theorem blit_step_back (c : Nat → Option Int) (d n : Nat) (f : Nat → Option Int) :
    blit (fun j => if j = d + n then f n else c j) d n f = blit c d (n + 1) f := by
  funext j
  simp only [blit]
  by_cases h1 : d ≤ j ∧ j < d + n
  · have h2 : d ≤ j ∧ j < d + (n + 1) := by omega
    rw [if_pos h1, if_pos h2]
  · rw [if_neg h1]
    by_cases h3 : j = d + n
    · subst h3
      have h2 : d ≤ d + n ∧ d + n < d + (n + 1) := by omega
      rw [if_pos h2]; simp
    · have h2 : ¬ (d ≤ j ∧ j < d + (n + 1)) := by omega
      rw [if_neg h2, if_neg h3]

theorem Heap.ext' {a b : Heap} (h1 : a.next = b.next) (h2 : ∀ i, a.slot i = b.slot i) : a = b := by
  cases a with | mk n1 s1 => cases b with | mk n2 s2 =>
  simp only at h1 h2
  have h3 : s1 = s2 := funext h2
  subst h1; subst h3; rfl

@[simp] theorem Heap.set_next (h : Heap) (id : Nat) (b : Option Block) : (h.set id b).next = h.next := rfl
theorem Heap.set_slot (h : Heap) (id : Nat) (b : Option Block) (i : Nat) :
    (h.set id b).slot i = if i = id then b else h.slot i := rfl
@[simp] theorem Heap.set_slot_self (h : Heap) (id : Nat) (b : Option Block) : (h.set id b).slot id = b := by
  simp [Heap.set_slot]
theorem Heap.set_slot_ne (h : Heap) (id : Nat) (b : Option Block) (i : Nat) (hne : i ≠ id) : (h.set id b).slot i = h.slot i := by
  simp [Heap.set_slot, hne]

@[simp] theorem Heap.set_set (h : Heap) (id : Nat) (a b : Option Block) : (h.set id a).set id b = h.set id b := by
  apply Heap.ext'
  · rfl
  · intro i; simp only [Heap.set_slot]; split <;> rfl

theorem Heap.set_self (h : Heap) (id : Nat) (b : Option Block) (hb : h.slot id = b) : h.set id b = h := by
  apply Heap.ext'
  · rfl
  · intro i; simp only [Heap.set_slot]; split
    · next h1 => subst h1; exact hb.symm
    · rfl

theorem Heap.read_ok {h : Heap} {id off n : Nat} {c : Nat → Option Int} {x : Int}
    (hs : h.slot id = some ⟨n, c⟩) (ho : off < n) (hc : c off = some x) : h.read id off = .ok x := by
  simp [Heap.read, hs, ho, hc]

theorem Heap.write_ok {h : Heap} {id off n : Nat} {c : Nat → Option Int} (x : Int)
    (hs : h.slot id = some ⟨n, c⟩) (ho : off < n) :
    h.write id off x = .ok (h.set id (some ⟨n, fun j => if j = off then some x else c j⟩)) := by
  simp [Heap.write, hs, ho]

/-! ### the loops -/

theorem fill_spec (x : Int) (db nd : Nat) : ∀ (n : Nat) (h : Heap) (d : Nat) (cd : Nat → Option Int),
    h.slot db = some ⟨nd, cd⟩ → d + n ≤ nd →
    fill h db d x n = .ok (h.set db (some ⟨nd, blit cd d n (fun _ => some x)⟩))
  | 0, h, d, cd, hd, _ => by
    rw [blit_zero, Heap.set_self _ _ _ hd]; rfl
  | n + 1, h, d, cd, hd, hb => by
    have hw := Heap.write_ok x hd (show d < nd by omega)
    simp only [fill, hw, ok_bind]
    rw [fill_spec x db nd n _ (d + 1) _ (Heap.set_slot_self _ _ _) (by omega), Heap.set_set]
    rw [← blit_step cd d n (fun _ => some x)]

theorem copyIn_spec (db nd : Nat) : ∀ (xs : List Int) (h : Heap) (d : Nat) (cd : Nat → Option Int),
    h.slot db = some ⟨nd, cd⟩ → d + xs.length ≤ nd →
    copyIn h db d xs = .ok (h.set db (some ⟨nd, blit cd d xs.length (fun k => xs[k]?)⟩))
  | [], h, d, cd, hd, _ => by
    simp only [List.length_nil]
    rw [blit_zero, Heap.set_self _ _ _ hd]; rfl
  | x :: xs, h, d, cd, hd, hb => by
    simp only [List.length_cons] at hb ⊢
    have hw := Heap.write_ok x hd (show d < nd by omega)
    simp only [copyIn, hw, ok_bind]
    rw [copyIn_spec db nd xs _ (d + 1) _ (Heap.set_slot_self _ _ _) (by omega), Heap.set_set]
    rw [← blit_step cd d xs.length (fun k => (x :: xs)[k]?)]
    simp

/-- copy between two different blocks -/
theorem copyFwd_cross (sb db ns nd : Nat) (cs : Nat → Option Int) (hne : sb ≠ db) :
    ∀ (n : Nat) (h : Heap) (s d : Nat) (cd : Nat → Option Int),
    h.slot sb = some ⟨ns, cs⟩ → h.slot db = some ⟨nd, cd⟩ → s + n ≤ ns → d + n ≤ nd →
    (∀ k, k < n → (cs (s + k)).isSome) →
    copyFwd h sb s db d n = .ok (h.set db (some ⟨nd, blit cd d n (fun k => cs (s + k))⟩))
  | 0, h, s, d, cd, _, hd, _, _, _ => by
    rw [blit_zero, Heap.set_self _ _ _ hd]; rfl
  | n + 1, h, s, d, cd, hs, hd, hsn, hdn, hi => by
    obtain ⟨x, hx⟩ := Option.isSome_iff_exists.mp (hi 0 (by omega))
    simp only [Nat.add_zero] at hx
    have hr := Heap.read_ok hs (show s < ns by omega) hx
    have hw := Heap.write_ok x hd (show d < nd by omega)
    simp only [copyFwd, hr, hw, ok_bind]
    rw [copyFwd_cross sb db ns nd cs hne n _ (s + 1) (d + 1) _ (by rw [Heap.set_slot_ne _ _ _ _ hne]; exact hs)
      (Heap.set_slot_self _ _ _) (by omega) (by omega)
      (fun k hk => by have := hi (k + 1) (by omega); rwa [show s + (k + 1) = s + 1 + k by omega] at this), Heap.set_set]
    rw [← blit_step cd d n (fun k => cs (s + k))]
    simp only [Nat.add_zero, hx]
    congr 4
    apply blit_congr; intro k _; congr 1; omega

/-- copy inside one block towards the front (erase): every cell is read before it is overwritten -/
theorem copyFwd_left (b nb : Nat) : ∀ (n : Nat) (h : Heap) (s d : Nat) (c : Nat → Option Int),
    h.slot b = some ⟨nb, c⟩ → d ≤ s → s + n ≤ nb →
    (∀ k, k < n → (c (s + k)).isSome) →
    copyFwd h b s b d n = .ok (h.set b (some ⟨nb, blit c d n (fun k => c (s + k))⟩))
  | 0, h, s, d, c, hs, _, _, _ => by
    rw [blit_zero, Heap.set_self _ _ _ hs]; rfl
  | n + 1, h, s, d, c, hs, hds, hsn, hi => by
    obtain ⟨x, hx⟩ := Option.isSome_iff_exists.mp (hi 0 (by omega))
    simp only [Nat.add_zero] at hx
    have hr := Heap.read_ok hs (show s < nb by omega) hx
    have hw := Heap.write_ok x hs (show d < nb by omega)
    simp only [copyFwd, hr, hw, ok_bind]
    rw [copyFwd_left b nb n _ (s + 1) (d + 1) _ (Heap.set_slot_self _ _ _) (by omega) (by omega)
      (fun k hk => by
        have := hi (k + 1) (by omega)
        have hne : s + 1 + k ≠ d := by omega
        simp only [hne, if_false]
        rwa [show s + (k + 1) = s + 1 + k by omega] at this), Heap.set_set]
    rw [← blit_step c d n (fun k => c (s + k))]
    simp only [Nat.add_zero, hx]
    congr 4
    apply blit_congr; intro k _
    have hne : s + 1 + k ≠ d := by omega
    simp only [hne, if_false]
    congr 1; omega

/-- copy inside one block to a disjoint range further back (a range of the vector itself inserted behind it) -/
theorem copyFwd_disjoint (b nb : Nat) : ∀ (n : Nat) (h : Heap) (s d : Nat) (c : Nat → Option Int),
    h.slot b = some ⟨nb, c⟩ → s + n ≤ d → d + n ≤ nb →
    (∀ k, k < n → (c (s + k)).isSome) →
    copyFwd h b s b d n = .ok (h.set b (some ⟨nb, blit c d n (fun k => c (s + k))⟩))
  | 0, h, s, d, c, hs, _, _, _ => by
    rw [blit_zero, Heap.set_self _ _ _ hs]; rfl
  | n + 1, h, s, d, c, hs, hsd, hdn, hi => by
    obtain ⟨x, hx⟩ := Option.isSome_iff_exists.mp (hi 0 (by omega))
    simp only [Nat.add_zero] at hx
    have hr := Heap.read_ok hs (show s < nb by omega) hx
    have hw := Heap.write_ok x hs (show d < nb by omega)
    simp only [copyFwd, hr, hw, ok_bind]
    rw [copyFwd_disjoint b nb n _ (s + 1) (d + 1) _ (Heap.set_slot_self _ _ _) (by omega) (by omega)
      (fun k hk => by
        have := hi (k + 1) (by omega)
        have hne : s + 1 + k ≠ d := by omega
        simp only [hne, if_false]
        rwa [show s + (k + 1) = s + 1 + k by omega] at this), Heap.set_set]
    rw [← blit_step c d n (fun k => c (s + k))]
    simp only [Nat.add_zero, hx]
    congr 4
    apply blit_congr; intro k _
    have hne : s + 1 + k ≠ d := by omega
    simp only [hne, if_false]
    congr 1; omega

/-- copy inside one block towards the back (insert in place), last element first -/
theorem copyBwd_right (b nb : Nat) : ∀ (n : Nat) (h : Heap) (s d : Nat) (c : Nat → Option Int),
    h.slot b = some ⟨nb, c⟩ → s ≤ d → d + n ≤ nb →
    (∀ k, k < n → (c (s + k)).isSome) →
    copyBwd h b s b d n = .ok (h.set b (some ⟨nb, blit c d n (fun k => c (s + k))⟩))
  | 0, h, s, d, c, hs, _, _, _ => by
    rw [blit_zero, Heap.set_self _ _ _ hs]; rfl
  | n + 1, h, s, d, c, hs, hsd, hdn, hi => by
    obtain ⟨x, hx⟩ := Option.isSome_iff_exists.mp (hi n (by omega))
    have hr := Heap.read_ok hs (show s + n < nb by omega) hx
    have hw := Heap.write_ok x hs (show d + n < nb by omega)
    simp only [copyBwd, hr, hw, ok_bind]
    rw [copyBwd_right b nb n _ s d _ (Heap.set_slot_self _ _ _) hsd (by omega)
      (fun k hk => by
        have := hi k (by omega)
        have hne : s + k ≠ d + n := by omega
        simpa only [hne, if_false] using this), Heap.set_set]
    rw [← blit_step_back c d n (fun k => c (s + k))]
    simp only [hx]
    congr 4
    apply blit_congr; intro k hk
    have hne : s + k ≠ d + n := by omega
    simp only [hne, if_false]

theorem readRange_spec (b nb : Nat) (c : Nat → Option Int) (h : Heap) (hs : h.slot b = some ⟨nb, c⟩) :
    ∀ (l : List Int) (s : Nat), s + l.length ≤ nb → (∀ k, k < l.length → c (s + k) = l[k]?) →
    readRange h b s l.length = .ok l
  | [], _, _, _ => rfl
  | x :: xs, s, hb, hc => by
    simp only [List.length_cons] at hb hc ⊢
    have h0 := hc 0 (by omega)
    simp only [Nat.add_zero, List.getElem?_cons_zero] at h0
    have hr := Heap.read_ok hs (show s < nb by omega) h0
    simp only [readRange, hr, ok_bind]
    rw [readRange_spec b nb c h hs xs (s + 1) (by omega)
      (fun k hk => by have := hc (k + 1) (by omega); simpa [show s + (k + 1) = s + 1 + k by omega] using this)]
    rfl

end Fcppt.C07
