import FcpptProofs.C07.Extra
/-!
C07 helper lemmas: allocation failure.  Where a member allocates at most once, a throwing allocation leaves heap and object
exactly as they were (the throw is the first effect); with an empty schedule the `…F` functions are the plain ones.
-/
namespace Fcppt.C07
open Spec

theorem upd_self {α : Type} (f : Nat → α) (r : Nat) : upd f r (f r) = f := by
  funext j; simp only [upd]; split
  · next h => rw [h]
  · rfl

theorem grant_none (n : Nat) : Inj.none.grant n = some Inj.none := rfl

/-- a member that allocates at most once: if it throws, nothing has happened -/
theorem vstepF_threw {i i' : Inj} {g : Nat → Nat → Nat} {h h' : Heap} {v v' : RV} {o : VOp} {r : Option Nat}
    (hne : ∀ pos xs, o ≠ .insertRange pos xs false)
    (he : vstepF i g h v o = .ok (.threw (h', v', r), i')) : h' = h ∧ v' = v := by
  have key : ∀ (x : M (Out (Heap × RV × Option Nat) × Inj)),
      x = (match vAllocReq g v o with
        | Option.none => do let r ← vstep g h v o; pure (.done r, i)
        | some n =>
          match i.grant n with
          | Option.none => pure (.threw (h, v, Option.none), i)
          | some i' => do let r ← vstep g h v o; pure (.done r, i')) →
      x = .ok (.threw (h', v', r), i') → h' = h ∧ v' = v := by
    intro x hx hxe
    rw [hx] at hxe
    split at hxe
    · simp only [bind_eq_ok, pure_eq_ok, Except.ok.injEq, Prod.mk.injEq] at hxe
      obtain ⟨_, _, hc, _⟩ := hxe
      cases hc
    · split at hxe
      · simp only [pure_eq_ok, Except.ok.injEq, Prod.mk.injEq, Out.threw.injEq] at hxe
        obtain ⟨⟨rfl, rfl, _⟩, _⟩ := hxe
        exact ⟨rfl, rfl⟩
      · simp only [bind_eq_ok, pure_eq_ok, Except.ok.injEq, Prod.mk.injEq] at hxe
        obtain ⟨_, _, hc, _⟩ := hxe
        cases hc
  cases o with
  | insertRange pos xs fwd =>
    cases fwd with
    | false => exact absurd rfl (hne pos xs)
    | true => exact key _ rfl he
  | pushBack s => exact key _ rfl he
  | popBack => exact key _ rfl he
  | insert1 pos s => exact key _ rfl he
  | insertN pos n s => exact key _ rfl he
  | erase1 pos => exact key _ rfl he
  | eraseR a b => exact key _ rfl he
  | resize n s => exact key _ rfl he
  | reserve n => exact key _ rfl he
  | shrink => exact key _ rfl he
  | clear => exact key _ rfl he
  | assign a x => exact key _ rfl he
  | insertSelf pos a b => exact key _ rfl he

theorem bstepF_threw {i i' : Inj} {g : Nat → Nat → Nat} {h h' : Heap} {b b' : Buf} {o : BOp} {r : Option Nat}
    (he : bstepF i g h b o = .ok (.threw (h', b', r), i')) : h' = h ∧ b' = b := by
  unfold bstepF at he
  simp only [] at he
  split at he
  · simp only [bind_eq_ok, pure_eq_ok, Except.ok.injEq, Prod.mk.injEq] at he
    obtain ⟨_, _, hc, _⟩ := he
    cases hc
  · split at he
    · simp only [pure_eq_ok, Except.ok.injEq, Prod.mk.injEq, Out.threw.injEq] at he
      obtain ⟨⟨rfl, rfl, _⟩, _⟩ := he
      exact ⟨rfl, rfl⟩
    · simp only [bind_eq_ok, pure_eq_ok, Except.ok.injEq, Prod.mk.injEq] at he
      obtain ⟨_, _, hc, _⟩ := he
      cases hc

/-- the single-pass loop under any schedule: whether it finishes or throws, the vector owns a well-formed store holding some
list and only its own blocks were touched -/
theorem insertInputF_spec (g : Nat → Nat → Nat) (hg : ∀ n c, n ≤ g n c) :
    ∀ (xs : List Int) (i : Inj) (h : Heap) (v : RV) (l : List Int) (pos : Nat), HeapWf h → Owns h v l → pos ≤ l.length →
    ∀ out i', insertInputF i g h v pos xs = .ok (out, i') →
    ∃ h' v' l', (out = .done (h', v') ∨ out = .threw (h', v')) ∧ Owns h' v' l' ∧ Frame h v.base h' v'.base
  | [], i, h, v, l, pos, hwf, ho, _, out, i', he => by
    simp only [insertInputF, pure_eq_ok, Except.ok.injEq, Prod.mk.injEq] at he
    obtain ⟨rfl, _⟩ := he
    exact ⟨h, v, l, Or.inl rfl, ho, Frame.refl hwf _⟩
  | x :: xs, i, h, v, l, pos, hwf, ho, hp, out, i', he => by
    obtain ⟨h1, v1, he1, ho1, hf1⟩ := insert1_spec g hg hwf ho pos hp (.val x) x rfl
    have hstep : ∀ j, (do let r ← insert1 g h v pos (.val x); pure (Out.done (r.1, r.2.1), j) : M (Out (Heap × RV) × Inj)) =
        .ok (.done (h1, v1), j) := fun j => by simp only [he1, ok_bind, pure_eq_ok]
    simp only [insertInputF, insert1F] at he
    split at he
    · rw [hstep] at he
      simp only [ok_bind] at he
      obtain ⟨h2, v2, l2, hout, ho2, hf2⟩ := insertInputF_spec g hg xs _ h1 v1 _ (pos + 1) hf1.wf ho1
        (by rw [length_insertAt l [x] pos hp]; simp; omega) out i' he
      exact ⟨h2, v2, l2, hout, ho2, Frame.trans hwf (ho.base_lt hwf) hf1 hf2⟩
    · split at he
      · simp only [pure_eq_ok, ok_bind, Except.ok.injEq, Prod.mk.injEq] at he
        obtain ⟨rfl, _⟩ := he
        exact ⟨h, v, l, Or.inr rfl, ho, Frame.refl hwf _⟩
      · rw [hstep] at he
        simp only [ok_bind] at he
        obtain ⟨h2, v2, l2, hout, ho2, hf2⟩ := insertInputF_spec g hg xs _ h1 v1 _ (pos + 1) hf1.wf ho1
          (by rw [length_insertAt l [x] pos hp]; simp; omega) out i' he
        exact ⟨h2, v2, l2, hout, ho2, Frame.trans hwf (ho.base_lt hwf) hf1 hf2⟩

/-- a throwing constructor (with the range constructor's catch): no object, and every slot of the heap is as it was -/
theorem constructF_threw (g : Nat → Nat → Nat) (hg : ∀ n c, n ≤ g n c) {i i' : Inj} {h h' : Heap} (hwf : HeapWf h) (c : Ctor) {v' : RV}
    (he : constructF i g h c = .ok (.threw (h', v'), i')) : v' = RV.null ∧ Frame h none h' none := by
  have hnone : ∀ b, (none : Option Nat) = some b → b < h.next := fun b hb => by cases hb
  have single : ∀ (o : VOp) (catches : Bool), (∀ pos xs, o ≠ .insertRange pos xs false) →
      (do let r ← vstepF i g h RV.null o
          match r.1 with
          | .threw s =>
            if catches then do
              let h1 ← deallocate s.1 s.2.1
              pure (Out.threw (h1, RV.null), r.2)
            else pure (.threw (s.1, s.2.1), r.2)
          | .done s => pure (.done (s.1, s.2.1), r.2) : M (Out (Heap × RV) × Inj)) = .ok (.threw (h', v'), i') →
      v' = RV.null ∧ Frame h none h' none := by
    intro o catches hne hx
    simp only [bind_eq_ok] at hx
    obtain ⟨⟨x, j⟩, hv, hx⟩ := hx
    cases x with
    | done y => simp only [pure_eq_ok, Except.ok.injEq, Prod.mk.injEq] at hx; obtain ⟨hc, _⟩ := hx; cases hc
    | threw y =>
      obtain ⟨h2, v2, r2⟩ := y
      obtain ⟨rfl, rfl⟩ := vstepF_threw hne hv
      cases catches with
      | true =>
        simp only [if_true, deallocate, RV.null, ok_bind, pure_eq_ok, Except.ok.injEq, Prod.mk.injEq, Out.threw.injEq] at hx
        obtain ⟨⟨rfl, rfl⟩, _⟩ := hx
        exact ⟨rfl, Frame.refl hwf _⟩
      | false =>
        simp only [Bool.false_eq_true, if_false, pure_eq_ok, Except.ok.injEq, Prod.mk.injEq, Out.threw.injEq] at hx
        obtain ⟨⟨rfl, rfl⟩, _⟩ := hx
        exact ⟨rfl, Frame.refl hwf _⟩
  cases c with
  | dflt => simp only [constructF, pure_eq_ok, Except.ok.injEq, Prod.mk.injEq] at he; obtain ⟨hc, _⟩ := he; cases hc
  | count n x => exact single (.insertN 0 n (.val x)) false (fun _ _ hx => by cases hx) he
  | il xs => exact single (.insertRange 0 xs true) false (fun _ _ hx => by cases hx) he
  | range xs fwd =>
    cases fwd with
    | true => exact single (.insertRange 0 xs true) true (fun _ _ hx => by cases hx) he
    | false =>
      simp only [constructF, vstepF, bind_eq_ok] at he
      obtain ⟨⟨x, j⟩, hv, he⟩ := he
      rw [if_neg (by simp [RV.null])] at hv
      simp only [bind_eq_ok] at hv
      obtain ⟨⟨out, j2⟩, hin, hv⟩ := hv
      obtain ⟨h2, v2, l2, hout, ho2, hf2⟩ := insertInputF_spec g hg xs i h RV.null [] 0 hwf (Owns.null h) (Nat.le_refl _) out j2 hin
      rcases hout with rfl | rfl
      · simp only [pure_eq_ok, Except.ok.injEq, Prod.mk.injEq] at hv
        obtain ⟨rfl, _⟩ := hv
        simp only [pure_eq_ok, Except.ok.injEq, Prod.mk.injEq] at he
        obtain ⟨hc, _⟩ := he
        cases hc
      · simp only [pure_eq_ok, Except.ok.injEq, Prod.mk.injEq] at hv
        obtain ⟨rfl, _⟩ := hv
        obtain ⟨h3, hd, hf3⟩ := destroy_spec hf2.wf ho2
        simp only [if_true, hd, ok_bind, pure_eq_ok, Except.ok.injEq, Prod.mk.injEq, Out.threw.injEq] at he
        obtain ⟨⟨rfl, rfl⟩, _⟩ := he
        exact ⟨rfl, Frame.trans hwf hnone hf2 hf3⟩

end Fcppt.C07
