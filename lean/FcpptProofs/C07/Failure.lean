import FcpptProofs.C07.Extra
/-!
C07 helper lemmas: allocation failure.  Where a member allocates at most once, a throwing allocation leaves heap and object
exactly as they were (the throw is the first effect); with an empty schedule the `…F` functions are the plain ones.
-/
namespace Fcppt.C07
open Spec

theorem upd_self {α : Type} (f : Nat → α) (r : Nat) : upd f r (f r) = f := by
  funext j; simp only [upd]; split
  · next h => rw [h]
  · rfl

theorem grant_none (n : Nat) : Inj.none.grant n = some Inj.none := rfl

/-- a member that allocates at most once: if it throws, nothing has happened -/
theorem vstepF_threw {i i' : Inj} {g : Nat → Nat → Nat} {h h' : Heap} {v v' : RV} {o : VOp} {r : Option Nat}
    (hne : ∀ pos xs, o ≠ .insertRange pos xs false)
    (he : vstepF i g h v o = .ok (.threw (h', v', r), i')) : h' = h ∧ v' = v := by
  have key : ∀ (x : M (Out (Heap × RV × Option Nat) × Inj)),
      x = (match vAllocReq g v o with
        | Option.none => do let r ← vstep g h v o; pure (.done r, i)
        | some n =>
          match i.grant n with
          | Option.none => pure (.threw (h, v, Option.none), i)
          | some i' => do let r ← vstep g h v o; pure (.done r, i')) →
      x = .ok (.threw (h', v', r), i') → h' = h ∧ v' = v := by
    intro x hx hxe
    rw [hx] at hxe
    split at hxe
    · simp only [bind_eq_ok, pure_eq_ok, Except.ok.injEq, Prod.mk.injEq] at hxe
      obtain ⟨_, _, hc, _⟩ := hxe
      cases hc
    · split at hxe
      · simp only [pure_eq_ok, Except.ok.injEq, Prod.mk.injEq, Out.threw.injEq] at hxe
        obtain ⟨⟨rfl, rfl, _⟩, _⟩ := hxe
        exact ⟨rfl, rfl⟩
      · simp only [bind_eq_ok, pure_eq_ok, Except.ok.injEq, Prod.mk.injEq] at hxe
        obtain ⟨_, _, hc, _⟩ := hxe
        cases hc
  cases o with
  | insertRange pos xs fwd =>
    cases fwd with
    | false => exact absurd rfl (hne pos xs)
    | true => exact key _ rfl he
  | pushBack s => exact key _ rfl he
  | popBack => exact key _ rfl he
  | insert1 pos s => exact key _ rfl he
  | insertN pos n s => exact key _ rfl he
  | erase1 pos => exact key _ rfl he
  | eraseR a b => exact key _ rfl he
  | resize n s => exact key _ rfl he
  | reserve n => exact key _ rfl he
  | shrink => exact key _ rfl he
  | clear => exact key _ rfl he
  | assign a x => exact key _ rfl he
  | insertSelf pos a b => exact key _ rfl he

theorem bstepF_threw {i i' : Inj} {g : Nat → Nat → Nat} {h h' : Heap} {b b' : Buf} {o : BOp} {r : Option Nat}
    (he : bstepF i g h b o = .ok (.threw (h', b', r), i')) : h' = h ∧ b' = b := by
  unfold bstepF at he
  simp only [] at he
  split at he
  · simp only [bind_eq_ok, pure_eq_ok, Except.ok.injEq, Prod.mk.injEq] at he
    obtain ⟨_, _, hc, _⟩ := he
    cases hc
  · split at he
    · simp only [pure_eq_ok, Except.ok.injEq, Prod.mk.injEq, Out.threw.injEq] at he
      obtain ⟨⟨rfl, rfl, _⟩, _⟩ := he
      exact ⟨rfl, rfl⟩
    · simp only [bind_eq_ok, pure_eq_ok, Except.ok.injEq, Prod.mk.injEq] at he
      obtain ⟨_, _, hc, _⟩ := he
      cases hc

end Fcppt.C07
