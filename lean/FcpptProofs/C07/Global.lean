import FcpptProofs.C07.Buffer
/-!
C07 helper lemmas: several vectors and buffers over one heap.  `Ledger`: every owner's block is live, no two
owners share a block (no double free), every live block has an owner (no leak).  `GInv` adds the
representation relation of every register against the specification state.
-/
namespace Fcppt.C07
open Spec

/-- `inl r` = vector register r, `inr k` = buffer register k -/
abbrev Owner := Sum Nat Nat

def own (st : St) : Owner → Option Nat
  | .inl r => (st.vec r).base
  | .inr k => (st.buf k).base

structure Ledger (h : Heap) (ow : Owner → Option Nat) : Prop where
  wf : HeapWf h
  live : ∀ i b, ow i = some b → ∃ blk, h.slot b = some blk
  inj : ∀ i j b, ow i = some b → ow j = some b → i = j
  noleak : ∀ b blk, h.slot b = some blk → ∃ i, ow i = some b

structure GInv (st : St) (ss : SSt) : Prop where
  ledger : Ledger st.heap (own st)
  vec : ∀ r, Owns st.heap (st.vec r) (ss.vec r)
  buf : ∀ k, BOwns st.heap (st.buf k) (ss.buf k)

theorem Owns.live {h : Heap} {v : RV} {l : List Int} (ho : Owns h v l) : ∀ b, v.base = some b → ∃ blk, h.slot b = some blk := by
  intro b hb
  obtain ⟨_, _, hx⟩ := ho
  rw [hb] at hx
  obtain ⟨c, hs, _⟩ := hx
  exact ⟨_, hs⟩

theorem Owns.transfer {h h' : Heap} {v : RV} {l : List Int} (ho : Owns h v l)
    (hsame : ∀ b, v.base = some b → h'.slot b = h.slot b) : Owns h' v l := by
  obtain ⟨h1, h2, hx⟩ := ho
  refine ⟨h1, h2, ?_⟩
  cases hb : v.base with
  | none => rw [hb] at hx; exact hx
  | some b =>
    rw [hb] at hx
    obtain ⟨c, hs, hc⟩ := hx
    exact ⟨c, by rw [hsame b hb]; exact hs, hc⟩

theorem BOwns.transfer {h h' : Heap} {b : Buf} {s : SBuf} (ho : BOwns h b s)
    (hsame : ∀ id, b.base = some id → h'.slot id = h.slot id) : BOwns h' b s :=
  ⟨ho.1.transfer hsame, ho.2⟩

/-- blocks of the other owners are untouched by an operation on owner `o` -/
theorem Ledger.other {h h' : Heap} {ow : Owner → Option Nat} (L : Ledger h ow) {o : Owner} {nb : Option Nat}
    (F : Frame h (ow o) h' nb) {j : Owner} (hj : j ≠ o) {b : Nat} (hb : ow j = some b) : h'.slot b = h.slot b := by
  apply F.other
  · intro hx
    exact hj (L.inj j o b hb hx.symm)
  · intro hx
    rcases F.base with he | ⟨hfresh, _⟩
    · exact hj (L.inj j o b hb (by rw [← he]; exact hx.symm))
    · have h1 := (hfresh b hx.symm).1
      obtain ⟨blk, hs⟩ := L.live j b hb
      have := L.wf.lt hs
      omega

theorem Ledger.update {h h' : Heap} {ow ow' : Owner → Option Nat} (L : Ledger h ow) {o : Owner} {nb : Option Nat}
    (F : Frame h (ow o) h' nb) (hlive : ∀ b, nb = some b → ∃ blk, h'.slot b = some blk)
    (ho : ow' o = nb) (hother : ∀ x, x ≠ o → ow' x = ow x) : Ledger h' ow' := by
  refine ⟨F.wf, ?_, ?_, ?_⟩
  · intro i b hb
    by_cases hi : i = o
    · subst hi; rw [ho] at hb; exact hlive b hb
    · rw [hother i hi] at hb
      rw [L.other F hi hb]
      exact L.live i b hb
  · intro i j b hi hj
    have key : ∀ x, x ≠ o → ow x = some b → nb = some b → False := by
      intro x hx hxb hnb
      rcases F.base with he | ⟨hfresh, _⟩
      · exact hx (L.inj x o b hxb (by rw [← he]; exact hnb))
      · have h1 := (hfresh b hnb).1
        obtain ⟨blk, hs⟩ := L.live x b hxb
        have := L.wf.lt hs
        omega
    by_cases hio : i = o
    · by_cases hjo : j = o
      · rw [hio, hjo]
      · subst hio
        rw [ho] at hi
        rw [hother j hjo] at hj
        exact absurd hi (fun hnb => key j hjo hj hnb)
    · by_cases hjo : j = o
      · subst hjo
        rw [ho] at hj
        rw [hother i hio] at hi
        exact absurd hj (fun hnb => key i hio hi hnb)
      · rw [hother i hio] at hi
        rw [hother j hjo] at hj
        exact L.inj i j b hi hj
  · intro b blk hs
    by_cases hbn : some b = nb
    · exact ⟨o, by rw [ho]; exact hbn.symm⟩
    · by_cases hbo : some b = ow o
      · -- the old block of o, no longer its block: it was freed
        rcases F.base with he | ⟨_, hfreed⟩
        · exact absurd (hbo.trans he.symm) hbn
        · rw [hfreed b hbo.symm] at hs; cases hs
      · rw [F.other b hbo hbn] at hs
        obtain ⟨i, hi⟩ := L.noleak b blk hs
        have hio : i ≠ o := fun hx => hbo (by rw [← hx]; exact hi.symm)
        exact ⟨i, by rw [hother i hio]; exact hi⟩

/-- exchanging what two owners own (swap, move) keeps the ledger -/
theorem Ledger.perm {h : Heap} {ow ow' : Owner → Option Nat} (L : Ledger h ow) (σ : Owner → Owner)
    (hσ : ∀ x, σ (σ x) = x) (hperm : ∀ x, ow' x = ow (σ x)) : Ledger h ow' := by
  refine ⟨L.wf, ?_, ?_, ?_⟩
  · intro i b hb; rw [hperm] at hb; exact L.live _ b hb
  · intro i j b hi hj
    rw [hperm] at hi hj
    have := L.inj _ _ b hi hj
    rw [← hσ i, ← hσ j, this]
  · intro b blk hs
    obtain ⟨i, hi⟩ := L.noleak b blk hs
    exact ⟨σ i, by rw [hperm, hσ]; exact hi⟩

def swapO (a b : Owner) (x : Owner) : Owner := if x = a then b else if x = b then a else x

theorem swapO_invol (a b x : Owner) : swapO a b (swapO a b x) = x := by
  unfold swapO
  by_cases h1 : x = a
  · subst h1
    by_cases h2 : b = x
    · subst h2; simp
    · simp [h2]
  · by_cases h2 : x = b
    · subst h2
      simp [h1]
    · simp [h1, h2]

/-- replacing vector register `r` by the result of an operation on it -/
theorem ginv_update_vec {st : St} {ss : SSt} (G : GInv st ss) (r : Nat) {h' : Heap} {v' : RV} {l' : List Int}
    (F : Frame st.heap (st.vec r).base h' v'.base) (ho : Owns h' v' l') :
    GInv ⟨h', upd st.vec r v', st.buf⟩ ⟨upd ss.vec r l', ss.buf⟩ := by
  have L := G.ledger
  have F' : Frame st.heap (own st (.inl r)) h' v'.base := F
  refine ⟨L.update F' ho.live (by simp [own, upd]) ?_, ?_, ?_⟩
  · intro x hx
    cases x with
    | inl j =>
      have : j ≠ r := fun hj => hx (by rw [hj])
      simp [own, upd, this]
    | inr k => rfl
  · intro j
    by_cases hj : j = r
    · subst hj; simpa [upd] using ho
    · simp only [upd, if_neg hj]
      exact (G.vec j).transfer (fun b hb => L.other F' (j := .inl j) (by simpa using hj) hb)
  · intro k
    exact (G.buf k).transfer (fun b hb => L.other F' (j := .inr k) (by simp) hb)

theorem ginv_update_buf {st : St} {ss : SSt} (G : GInv st ss) (k : Nat) {h' : Heap} {b' : Buf} {s' : SBuf}
    (F : Frame st.heap (st.buf k).base h' b'.base) (ho : BOwns h' b' s') :
    GInv ⟨h', st.vec, upd st.buf k b'⟩ ⟨ss.vec, upd ss.buf k s'⟩ := by
  have L := G.ledger
  have F' : Frame st.heap (own st (.inr k)) h' b'.base := F
  refine ⟨L.update F' (fun b hb => ho.1.live b hb) (by simp [own, upd]) ?_, ?_, ?_⟩
  · intro x hx
    cases x with
    | inl j => rfl
    | inr j =>
      have : j ≠ k := fun hj => hx (by rw [hj])
      simp [own, upd, this]
  · intro j
    exact (G.vec j).transfer (fun b hb => L.other F' (j := .inl j) (by simp) hb)
  · intro j
    by_cases hj : j = k
    · subst hj; simpa [upd] using ho
    · simp only [upd, if_neg hj]
      exact (G.buf j).transfer (fun b hb => L.other F' (j := .inr j) (by simpa using hj) hb)

/-- destructor -/
theorem destroy_spec {h : Heap} {v : RV} {l : List Int} (hwf : HeapWf h) (ho : Owns h v l) :
    ∃ h1, deallocate h v = .ok h1 ∧ Frame h v.base h1 none := by
  obtain ⟨_, _, hb⟩ := ho
  cases hbase : v.base with
  | none => exact ⟨h, by simp [deallocate, hbase], Frame.refl hwf _⟩
  | some b =>
    rw [hbase] at hb
    obtain ⟨c, hslot, _⟩ := hb
    have hlt := hwf.lt hslot
    refine ⟨h.set b none, by simp only [deallocate, hbase]; exact free_ok hslot, Nat.le_refl _, ?_, ?_, Or.inr ⟨?_, ?_⟩⟩
    · intro i hi
      simp only [Heap.set_next] at hi
      rw [Heap.set_slot_ne _ _ _ _ (by omega)]
      exact hwf i hi
    · intro i hi1 _
      have h2 : i ≠ b := fun hx => hi1 (by rw [hx])
      exact Heap.set_slot_ne _ _ _ _ h2
    · intro b' hb'; cases hb'
    · intro b' hb'
      simp only [Option.some.injEq] at hb'
      subst hb'
      exact Heap.set_slot_self _ _ _

theorem construct_spec (g : Nat → Nat → Nat) (hg : ∀ n c, n ≤ g n c) {h : Heap} (hwf : HeapWf h) (c : Ctor) :
    ∃ h' v', construct g h c = .ok (h', v') ∧ Owns h' v' (sconstruct c) ∧ Frame h none h' v'.base := by
  have hnull := Owns.null h
  have hrange : ∀ xs fwd, ∃ h' v', insertRange g h RV.null 0 xs fwd = .ok (h', v') ∧ Owns h' v' xs ∧ Frame h none h' v'.base := by
    intro xs fwd
    obtain ⟨h', v', he, ho, hf⟩ := vstep_spec g hg hwf hnull (.insertRange 0 xs fwd) (insertAt [] 0 xs) none (by simp [svstep])
    refine ⟨h', v', ?_, by simpa [insertAt] using ho, hf⟩
    simp only [vstep] at he
    cases hr : insertRange g h RV.null 0 xs fwd with
    | error e => rw [hr] at he; cases he
    | ok x =>
      rw [hr] at he
      simp only [ok_bind, pure_eq_ok, Except.ok.injEq, Prod.mk.injEq] at he
      obtain ⟨h1, h2, _⟩ := he
      rw [← h1, ← h2]
  cases c with
  | dflt => exact ⟨h, RV.null, rfl, hnull, Frame.refl hwf _⟩
  | count n x =>
    obtain ⟨h', v', he, ho, hf⟩ := insertGen_spec g hg hwf hnull 0 (Nat.le_refl _) (.rep n (.val x)) (List.replicate n x) rfl
    exact ⟨h', v', he, by simpa [insertAt, sconstruct] using ho, hf⟩
  | range xs fwd => exact hrange xs fwd
  | il xs => exact hrange xs true

end Fcppt.C07
