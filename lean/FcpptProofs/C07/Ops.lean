import FcpptProofs.C07.Insert
/-!
C07 helper lemmas: erase, reallocate, the input-iterator insert loop, and `vstep_spec` — every single-vector
operation that is valid for the list `l` runs without fault on a vector owning `l` and refines the list operation.
-/
namespace Fcppt.C07
open Spec

theorem Owns.base_lt {h : Heap} {v : RV} {l : List Int} (hwf : HeapWf h) (ho : Owns h v l) : ∀ b, v.base = some b → b < h.next := by
  intro b hbase
  obtain ⟨_, _, hb⟩ := ho
  rw [hbase] at hb
  obtain ⟨c, hslot, _⟩ := hb
  exact hwf.lt hslot

theorem getElem?_eraseRange (l : List Int) (a b : Nat) (hab : a ≤ b) (hb : b ≤ l.length) (j : Nat) :
    (l.take a ++ l.drop b)[j]? = if j < a then l[j]? else l[j + (b - a)]? := by
  rw [List.getElem?_append, List.length_take, Nat.min_eq_left (by omega)]
  by_cases h1 : j < a
  · rw [if_pos h1, if_pos h1, List.getElem?_take, if_pos h1]
  · rw [if_neg h1, if_neg h1, List.getElem?_drop]
    congr 1; omega

theorem erase_core {h : Heap} {v : RV} {l : List Int} (hwf : HeapWf h) (ho : Owns h v l) (a b : Nat) (hab : a ≤ b)
    (hb : b ≤ l.length) (bid : Nat) (hbase : v.base = some bid) (nl : Nat) (hnl : nl = v.last - (b - a)) :
    ∃ h', copyFwd h bid b bid a (v.last - b) = .ok h' ∧ Owns h' ⟨v.base, nl, v.cap⟩ (l.take a ++ l.drop b) ∧
      Frame h v.base h' v.base := by
  obtain ⟨hlen, hcap, hbb⟩ := ho
  rw [hbase] at hbb
  obtain ⟨c, hslot, hc⟩ := hbb
  have hlt := hwf.lt hslot
  refine ⟨_, copyFwd_left bid v.cap (v.last - b) h b a c hslot hab (by omega)
    (fun k hk => by rw [hc (b + k) (by omega)]; simp; omega), ⟨?_, ?_, ?_⟩, ?_⟩
  · simp [List.length_take, Nat.min_eq_left (show a ≤ l.length by omega)]; omega
  · simp only []; omega
  · simp only [hbase]
    refine ⟨_, Heap.set_slot_self _ _ _, ?_⟩
    intro j hj
    simp only [List.length_append, List.length_take, List.length_drop, Nat.min_eq_left (show a ≤ l.length by omega)] at hj
    rw [getElem?_eraseRange l a b hab hb]
    by_cases h1 : j < a
    · rw [if_pos h1, blit_out _ _ _ _ _ (by omega)]; exact hc j (by omega)
    · rw [if_neg h1, blit_in _ _ _ _ _ (by omega) (by omega), hc _ (by omega)]
      congr 1; omega
  · refine ⟨Nat.le_refl _, ?_, ?_, Or.inl rfl⟩
    · intro i hi
      simp only [Heap.set_next] at hi
      rw [Heap.set_slot_ne _ _ _ _ (by omega)]
      exact hwf i hi
    · intro i hi1 _
      have h2 : i ≠ bid := fun hx => hi1 (by rw [hx, hbase])
      exact Heap.set_slot_ne _ _ _ _ h2

theorem Owns.base_some {h : Heap} {v : RV} {l : List Int} (ho : Owns h v l) (hpos : 0 < l.length) : ∃ b, v.base = some b := by
  obtain ⟨hlen, hcap, hb⟩ := ho
  cases hbase : v.base with
  | none => rw [hbase] at hb; simp only at hb; omega
  | some b => exact ⟨b, rfl⟩

theorem erase1_spec {h : Heap} {v : RV} {l : List Int} (hwf : HeapWf h) (ho : Owns h v l) (pos : Nat) (hp : pos < l.length) :
    ∃ h' v', erase1 h v pos = .ok (h', v', pos) ∧ Owns h' v' (l.take pos ++ l.drop (pos + 1)) ∧ Frame h v.base h' v'.base := by
  obtain ⟨b, hbase⟩ := ho.base_some (by omega)
  obtain ⟨h', he, ho', hf⟩ := erase_core hwf ho pos (pos + 1) (by omega) (by omega) b hbase (v.last - 1) (by omega)
  have hlen := ho.1
  refine ⟨h', _, ?_, ho', hf⟩
  simp only [erase1]
  rw [if_neg (by omega)]
  simp only [RV.ptr, hbase, ok_bind, he, pure_eq_ok]

theorem eraseR_spec {h : Heap} {v : RV} {l : List Int} (hwf : HeapWf h) (ho : Owns h v l) (a b : Nat) (hab : a ≤ b)
    (hb : b ≤ l.length) :
    ∃ h' v', eraseR h v a b = .ok (h', v', a) ∧ Owns h' v' (l.take a ++ l.drop b) ∧ Frame h v.base h' v'.base := by
  have hlen := ho.1
  simp only [eraseR]
  rw [if_neg (by omega)]
  by_cases hne : a = b
  · subst hne
    rw [if_neg (by simp)]
    exact ⟨h, v, rfl, by rw [List.take_append_drop]; exact ho, Frame.refl hwf _⟩
  · rw [if_pos hne]
    obtain ⟨bid, hbase⟩ := ho.base_some (by omega)
    obtain ⟨h', he, ho', hf⟩ := erase_core hwf ho a b hab hb bid hbase (v.last - (b - a)) rfl
    refine ⟨h', _, ?_, ho', hf⟩
    simp only [RV.ptr, hbase, ok_bind, he, pure_eq_ok]

/-- allocate a block, fill it, free the old one: the frame of every reallocating path -/
theorem realloc_frame {h : Heap} {v : RV} {l : List Int} (hwf : HeapWf h) (ho : Owns h v l) (nc : Nat) (blk : Block) :
    ∃ h', deallocate ((h.alloc nc).1.set h.next (some blk)) v = .ok h' ∧ h'.slot h.next = some blk ∧
      Frame h v.base h' (some h.next) := by
  obtain ⟨hlen, hcap, hb⟩ := ho
  cases hbase : v.base with
  | none =>
    refine ⟨(h.alloc nc).1.set h.next (some blk), by simp only [deallocate, hbase], Heap.set_slot_self _ _ _,
      by simp only [Heap.set_next, alloc_next]; omega, ?_, ?_, Or.inr ⟨?_, ?_⟩⟩
    · intro i hi
      simp only [Heap.set_next, alloc_next] at hi
      rw [Heap.set_slot_ne _ _ _ _ (by omega), alloc_slot, if_neg (by omega)]
      exact hwf i (by omega)
    · intro i _ hi2
      have : i ≠ h.next := fun hx => hi2 (by rw [hx])
      rw [Heap.set_slot_ne _ _ _ _ this, alloc_slot, if_neg this]
    · intro b hb'
      simp only [Option.some.injEq] at hb'
      subst hb'
      simp
    · intro b hb'; cases hb'
  | some b =>
    rw [hbase] at hb
    obtain ⟨c, hslot, hc⟩ := hb
    have hlt := hwf.lt hslot
    have hbn : b ≠ h.next := by omega
    refine ⟨((h.alloc nc).1.set h.next (some blk)).set b none, ?_, ?_,
      by simp only [Heap.set_next, alloc_next]; omega, ?_, ?_, Or.inr ⟨?_, ?_⟩⟩
    · simp only [deallocate, hbase]
      exact free_ok (c := c) (by rw [Heap.set_slot_ne _ _ _ _ hbn, alloc_slot, if_neg hbn]; exact hslot)
    · rw [Heap.set_slot_ne _ _ _ _ (Ne.symm hbn)]; exact Heap.set_slot_self _ _ _
    · intro i hi
      simp only [Heap.set_next, alloc_next] at hi
      rw [Heap.set_slot_ne _ _ _ _ (by omega), Heap.set_slot_ne _ _ _ _ (by omega), alloc_slot, if_neg (by omega)]
      exact hwf i (by omega)
    · intro i hi1 hi2
      have h1 : i ≠ h.next := fun hx => hi2 (by rw [hx])
      have h2 : i ≠ b := fun hx => hi1 (by rw [hx])
      rw [Heap.set_slot_ne _ _ _ _ h2, Heap.set_slot_ne _ _ _ _ h1, alloc_slot, if_neg h1]
    · intro b' hb'
      simp only [Option.some.injEq] at hb'
      subst hb'
      simp
    · intro b' hb'
      simp only [Option.some.injEq] at hb'
      subst hb'
      exact Heap.set_slot_self _ _ _

theorem reallocate_spec {h : Heap} {v : RV} {l : List Int} (hwf : HeapWf h) (ho : Owns h v l) (newCap : Nat)
    (hnc : l.length ≤ newCap) :
    ∃ h' v', reallocate h v newCap = .ok (h', v') ∧ Owns h' v' l ∧ Frame h v.base h' v'.base := by
  have hlen := ho.1
  have hfresh : ∀ b, v.base = some b → b ≠ h.next := fun b hb => by have := ho.base_lt hwf b hb; omega
  have hsame0 : ∀ b, v.base = some b → (h.alloc newCap).1.slot b = h.slot b := by
    intro b hbase; rw [alloc_slot, if_neg (hfresh b hbase)]
  have hslot0 : (h.alloc newCap).1.slot h.next = some ⟨newCap, fun _ => none⟩ := by rw [alloc_slot, if_pos rfl]
  simp only [reallocate, alloc_snd]
  rw [guardCopy_spec ho _ hsame0 h.next newCap _ hslot0 hfresh 0 0 v.last (by omega) (by omega)]
  simp only [ok_bind]
  obtain ⟨h', hd, hs', hf⟩ := realloc_frame hwf ho newCap ⟨newCap, blit (fun _ => none) 0 v.last (fun k => l[0 + k]?)⟩
  rw [hd]
  refine ⟨h', _, rfl, ⟨hlen, by simp only []; omega, ?_⟩, hf⟩
  simp only []
  refine ⟨_, hs', ?_⟩
  intro j hj
  rw [blit_in _ _ _ _ _ (by omega) (by omega)]
  congr 1; omega

theorem insertAt_insertAt_one (l : List Int) (pos : Nat) (hp : pos ≤ l.length) (x : Int) (xs : List Int) :
    insertAt (insertAt l pos [x]) (pos + 1) xs = insertAt l pos (x :: xs) := by
  have hl1 : (insertAt l pos [x]).length = l.length + 1 := by rw [length_insertAt l [x] pos hp]; rfl
  apply List.ext_getElem?
  intro j
  rw [getElem?_insertAt _ xs (pos + 1) (by omega), getElem?_insertAt l (x :: xs) pos hp]
  by_cases h1 : j < pos
  · rw [if_pos (by omega), if_pos h1, getElem?_insertAt l [x] pos hp, if_pos h1]
  · rw [if_neg h1]
    by_cases h2 : j = pos
    · subst h2
      rw [if_pos (by omega), if_pos (by simp), getElem?_insertAt l [x] j hp, if_neg h1, if_pos (by simp)]
      simp
    · rw [if_neg (by omega)]
      simp only [List.length_cons]
      by_cases h3 : j < pos + 1 + xs.length
      · rw [if_pos h3, if_pos (by omega)]
        rw [show j - pos = (j - (pos + 1)) + 1 by omega, List.getElem?_cons_succ]
      · rw [if_neg h3, if_neg (by omega), getElem?_insertAt l [x] pos hp, if_neg (by omega), if_neg (by simp; omega)]
        simp only [List.length_singleton]
        congr 1 <;> omega

theorem insertAt_nil (l : List Int) (pos : Nat) : insertAt l pos [] = l := by
  simp [insertAt]

theorem insertAt_end (l xs : List Int) : insertAt l l.length xs = l ++ xs := by
  simp [insertAt]

theorem insert1_spec (g : Nat → Nat → Nat) (hg : ∀ n c, n ≤ g n c) {h : Heap} {v : RV} {l : List Int}
    (hwf : HeapWf h) (ho : Owns h v l) (pos : Nat) (hp : pos ≤ l.length) (s : Src) (x : Int) (hs : srcVal l s = some x) :
    ∃ h' v', insert1 g h v pos s = .ok (h', v', pos) ∧ Owns h' v' (insertAt l pos [x]) ∧ Frame h v.base h' v'.base := by
  obtain ⟨h', v', he, ho', hf⟩ := insertGen_spec g hg hwf ho pos hp (.one s) [x] (by simp [Mid.den, hs])
  exact ⟨h', v', by simp only [insert1, he, ok_bind, pure_eq_ok], ho', hf⟩

theorem insertInput_spec (g : Nat → Nat → Nat) (hg : ∀ n c, n ≤ g n c) :
    ∀ (xs : List Int) (h : Heap) (v : RV) (l : List Int) (pos : Nat), HeapWf h → Owns h v l → pos ≤ l.length →
    ∃ h' v', insertInput g h v pos xs = .ok (h', v') ∧ Owns h' v' (insertAt l pos xs) ∧ Frame h v.base h' v'.base
  | [], h, v, l, pos, hwf, ho, _ => ⟨h, v, rfl, by rw [insertAt_nil]; exact ho, Frame.refl hwf _⟩
  | x :: xs, h, v, l, pos, hwf, ho, hp => by
    obtain ⟨h1, v1, he1, ho1, hf1⟩ := insert1_spec g hg hwf ho pos hp (.val x) x rfl
    obtain ⟨h2, v2, he2, ho2, hf2⟩ := insertInput_spec g hg xs h1 v1 _ (pos + 1) hf1.wf ho1
      (by rw [length_insertAt l [x] pos hp]; simp; omega)
    refine ⟨h2, v2, ?_, ?_, Frame.trans hwf (ho.base_lt hwf) hf1 hf2⟩
    · simp only [insertInput, he1, ok_bind]; exact he2
    · rw [← insertAt_insertAt_one l pos hp x xs]; exact ho2

/-! ### element access by reference -/

theorem refOff_spec {h : Heap} {v : RV} {l : List Int} (ho : Owns h v l) (a : Acc) (i : Nat) (hi : accIdx l a = some i) :
    v.refOff a = .ok i ∧ i < l.length := by
  have hlen := ho.1
  cases a with
  | index j =>
    simp only [accIdx] at hi
    split at hi
    · next hj =>
      simp only [Option.some.injEq] at hi; subst hi
      exact ⟨by simp only [RV.refOff]; rw [if_pos (by omega)], hj⟩
    · cases hi
  | front =>
    simp only [accIdx] at hi
    split at hi
    · next hj =>
      simp only [Option.some.injEq] at hi; subst hi
      exact ⟨by simp only [RV.refOff]; rw [if_pos (by omega)], by omega⟩
    · cases hi
  | back =>
    simp only [accIdx] at hi
    split at hi
    · next hj =>
      simp only [Option.some.injEq] at hi; subst hi
      exact ⟨by simp only [RV.refOff]; rw [if_pos (by omega), hlen], by omega⟩
    · cases hi

/-- reading through `v[i]`, `front()`, `back()` yields the list element -/
theorem readRef_spec {h : Heap} {v : RV} {l : List Int} (ho : Owns h v l) (a : Acc) (i : Nat) (hi : accIdx l a = some i) :
    ∃ x, l[i]? = some x ∧ readRef h v a = .ok x := by
  obtain ⟨hoff, hil⟩ := refOff_spec ho a i hi
  obtain ⟨b, hbase⟩ := ho.base_some (by omega)
  obtain ⟨hlen, hcap, hb⟩ := ho
  rw [hbase] at hb
  obtain ⟨c, hslot, hc⟩ := hb
  refine ⟨l[i], List.getElem?_eq_getElem hil, ?_⟩
  simp only [readRef, hoff, RV.ptr, hbase, ok_bind]
  exact Heap.read_ok hslot (by omega) (by rw [hc i hil]; exact List.getElem?_eq_getElem hil)

/-- storing through the returned reference changes exactly that element -/
theorem writeRef_spec {h : Heap} {v : RV} {l : List Int} (hwf : HeapWf h) (ho : Owns h v l) (a : Acc) (x : Int) (i : Nat)
    (hi : accIdx l a = some i) :
    ∃ h', writeRef h v a x = .ok h' ∧ Owns h' v (l.set i x) ∧ Frame h v.base h' v.base := by
  obtain ⟨hoff, hil⟩ := refOff_spec ho a i hi
  obtain ⟨b, hbase⟩ := ho.base_some (by omega)
  obtain ⟨hlen, hcap, hb⟩ := ho
  rw [hbase] at hb
  obtain ⟨c, hslot, hc⟩ := hb
  have hlt := hwf.lt hslot
  refine ⟨h.set b (some ⟨v.cap, fun j => if j = i then some x else c j⟩), ?_, ⟨by simpa using hlen, hcap, ?_⟩, ?_⟩
  · simp only [writeRef, hoff, RV.ptr, hbase, ok_bind]
    exact Heap.write_ok x hslot (by omega)
  · rw [hbase]
    refine ⟨_, Heap.set_slot_self _ _ _, ?_⟩
    intro j hj
    simp only [List.length_set] at hj
    by_cases hji : j = i
    · subst hji; simp [hil]
    · rw [if_neg hji, List.getElem?_set_ne (Ne.symm hji)]
      exact hc j hj
  · refine ⟨Nat.le_refl _, ?_, ?_, Or.inl rfl⟩
    · intro k hk
      simp only [Heap.set_next] at hk
      rw [Heap.set_slot_ne _ _ _ _ (by omega)]
      exact hwf k hk
    · intro k hk1 _
      have h2 : k ≠ b := fun hx => hk1 (by rw [hx, hbase])
      exact Heap.set_slot_ne _ _ _ _ h2

/-- every valid single-vector operation: no fault, refines the list operation, returns the specified offset -/
theorem vstep_spec (g : Nat → Nat → Nat) (hg : ∀ n c, n ≤ g n c) {h : Heap} {v : RV} {l : List Int}
    (hwf : HeapWf h) (ho : Owns h v l) (o : VOp) (l' : List Int) (ret : Option Nat) (hs : svstep l o = some (l', ret)) :
    ∃ h' v', vstep g h v o = .ok (h', v', ret) ∧ Owns h' v' l' ∧ Frame h v.base h' v'.base := by
  have hlen := ho.1
  cases o with
  | pushBack s =>
    simp only [svstep, Option.map_eq_some_iff, Prod.mk.injEq] at hs
    obtain ⟨x, hx, rfl, rfl⟩ := hs
    obtain ⟨h', v', he, ho', hf⟩ := insert1_spec g hg hwf ho v.last (by omega) s x hx
    refine ⟨h', v', by simp only [vstep, pushBack, he, ok_bind, pure_eq_ok], ?_, hf⟩
    rw [← hlen, insertAt_end] at ho'; exact ho'
  | popBack =>
    simp only [svstep] at hs
    split at hs
    · cases hs
    · next hne =>
      simp only [Option.some.injEq, Prod.mk.injEq] at hs
      obtain ⟨rfl, rfl⟩ := hs
      obtain ⟨h', v', he, ho', hf⟩ := erase1_spec hwf ho (v.last - 1) (by omega)
      refine ⟨h', v', ?_, ?_, hf⟩
      · simp only [vstep, popBack]
        rw [if_neg (by omega)]
        simp only [he, ok_bind, pure_eq_ok]
      · rw [show v.last - 1 + 1 = l.length by omega, List.drop_length, List.append_nil] at ho'
        rw [← hlen] at ho'; exact ho'
  | insert1 pos s =>
    simp only [svstep, Option.bind_eq_some_iff] at hs
    obtain ⟨x, hx, hs⟩ := hs
    split at hs
    · next hp =>
      simp only [Option.some.injEq, Prod.mk.injEq] at hs
      obtain ⟨rfl, rfl⟩ := hs
      obtain ⟨h', v', he, ho', hf⟩ := insert1_spec g hg hwf ho pos hp s x hx
      exact ⟨h', v', by simp only [vstep, he, ok_bind, pure_eq_ok], ho', hf⟩
    · cases hs
  | insertN pos n s =>
    simp only [svstep, Option.bind_eq_some_iff] at hs
    obtain ⟨x, hx, hs⟩ := hs
    split at hs
    · next hp =>
      simp only [Option.some.injEq, Prod.mk.injEq] at hs
      obtain ⟨rfl, rfl⟩ := hs
      obtain ⟨h', v', he, ho', hf⟩ := insertGen_spec g hg hwf ho pos hp (.rep n s) (List.replicate n x) (by simp [Mid.den, hx])
      exact ⟨h', v', by simp only [vstep, insertN, he, ok_bind, pure_eq_ok], ho', hf⟩
    · cases hs
  | insertRange pos xs fwd =>
    simp only [svstep] at hs
    split at hs
    · next hp =>
      simp only [Option.some.injEq, Prod.mk.injEq] at hs
      obtain ⟨rfl, rfl⟩ := hs
      simp only [vstep, insertRange]
      rw [if_neg (by omega)]
      by_cases hxs : xs.isEmpty = true
      · rw [if_pos hxs]
        have : xs = [] := List.isEmpty_iff.mp hxs
        subst this
        exact ⟨h, v, rfl, by rw [insertAt_nil]; exact ho, Frame.refl hwf _⟩
      · rw [if_neg hxs]
        cases fwd with
        | true =>
          obtain ⟨h', v', he, ho', hf⟩ := insertGen_spec g hg hwf ho pos hp (.list xs) xs rfl
          exact ⟨h', v', by simp only [if_true, he, ok_bind, pure_eq_ok], ho', hf⟩
        | false =>
          obtain ⟨h', v', he, ho', hf⟩ := insertInput_spec g hg xs h v l pos hwf ho hp
          exact ⟨h', v', by simp only [Bool.false_eq_true, if_false, he, ok_bind, pure_eq_ok], ho', hf⟩
    · cases hs
  | erase1 pos =>
    simp only [svstep] at hs
    split at hs
    · next hp =>
      simp only [Option.some.injEq, Prod.mk.injEq] at hs
      obtain ⟨rfl, rfl⟩ := hs
      obtain ⟨h', v', he, ho', hf⟩ := erase1_spec hwf ho pos hp
      exact ⟨h', v', by simp only [vstep, he, ok_bind, pure_eq_ok], ho', hf⟩
    · cases hs
  | eraseR a b =>
    simp only [svstep] at hs
    split at hs
    · next hp =>
      simp only [Option.some.injEq, Prod.mk.injEq] at hs
      obtain ⟨rfl, rfl⟩ := hs
      obtain ⟨h', v', he, ho', hf⟩ := eraseR_spec hwf ho a b hp.1 hp.2
      exact ⟨h', v', by simp only [vstep, he, ok_bind, pure_eq_ok], ho', hf⟩
    · cases hs
  | resize n s =>
    simp only [svstep, Option.map_eq_some_iff, Prod.mk.injEq] at hs
    obtain ⟨x, hx, rfl, rfl⟩ := hs
    simp only [vstep, resize]
    rw [hlen]
    by_cases h1 : n > v.last
    · rw [if_pos h1, if_neg (show ¬ n ≤ v.last by omega)]
      obtain ⟨h', v', he, ho', hf⟩ := insertGen_spec g hg hwf ho v.last (by omega) (.rep (n - v.last) s)
        (List.replicate (n - v.last) x) (by simp [Mid.den, hx])
      refine ⟨h', v', by simp only [insertN, he, ok_bind, pure_eq_ok], ?_, hf⟩
      rw [← hlen, insertAt_end, hlen] at ho'; exact ho'
    · rw [if_neg h1, if_pos (show n ≤ v.last by omega)]
      by_cases h2 : n < v.last
      · rw [if_pos h2]
        obtain ⟨h', v', he, ho', hf⟩ := eraseR_spec hwf ho n v.last (by omega) (by omega)
        refine ⟨h', v', by simp only [he, ok_bind, pure_eq_ok], ?_, hf⟩
        rw [← hlen, List.drop_length, List.append_nil] at ho'; exact ho'
      · rw [if_neg h2]
        exact ⟨h, v, rfl, by rw [List.take_of_length_le (by omega)]; exact ho, Frame.refl hwf _⟩
  | reserve n =>
    simp only [svstep, Option.some.injEq, Prod.mk.injEq] at hs
    obtain ⟨rfl, rfl⟩ := hs
    simp only [vstep, reserve]
    by_cases h1 : n ≤ v.cap
    · rw [if_pos h1]
      exact ⟨h, v, rfl, ho, Frame.refl hwf _⟩
    · rw [if_neg h1]
      have := hg n v.cap
      have hcap := ho.2.1
      obtain ⟨h', v', he, ho', hf⟩ := reallocate_spec hwf ho (g n v.cap) (by omega)
      exact ⟨h', v', by simp only [he, ok_bind, pure_eq_ok], ho', hf⟩
  | shrink =>
    simp only [svstep, Option.some.injEq, Prod.mk.injEq] at hs
    obtain ⟨rfl, rfl⟩ := hs
    obtain ⟨h', v', he, ho', hf⟩ := reallocate_spec hwf ho v.last (by omega)
    exact ⟨h', v', by simp only [vstep, shrinkToFit, he, ok_bind, pure_eq_ok], ho', hf⟩
  | clear =>
    simp only [svstep, Option.some.injEq, Prod.mk.injEq] at hs
    obtain ⟨rfl, rfl⟩ := hs
    obtain ⟨h', v', he, ho', hf⟩ := eraseR_spec hwf ho 0 v.last (by omega) (by omega)
    refine ⟨h', v', by simp only [vstep, clear, he, ok_bind, pure_eq_ok], ?_, hf⟩
    rw [← hlen, List.drop_length] at ho'; simpa using ho'
  | assign a x =>
    simp only [svstep, Option.map_eq_some_iff, Prod.mk.injEq] at hs
    obtain ⟨i, hi, rfl, rfl⟩ := hs
    obtain ⟨h', he, ho', hf⟩ := writeRef_spec hwf ho a x i hi
    exact ⟨h', v, by simp only [vstep, he, ok_bind, pure_eq_ok], ho', hf⟩
  | insertSelf pos a b =>
    simp only [svstep] at hs
    split at hs
    · next hp =>
      simp only [Option.some.injEq, Prod.mk.injEq] at hs
      obtain ⟨rfl, rfl⟩ := hs
      simp only [vstep, insertSelf]
      rw [if_neg (by omega), if_neg (by omega)]
      by_cases hab : a = b
      · rw [if_pos hab]
        subst hab
        refine ⟨h, v, rfl, ?_, Frame.refl hwf _⟩
        simpa [insertAt_nil] using ho
      · rw [if_neg hab]
        obtain ⟨h', v', he, ho', hf⟩ := insertGen_spec g hg hwf ho pos hp.2.2 (.self a b) ((l.drop a).take (b - a))
          (by simp only [Mid.den]; rw [if_pos ⟨hp.1, by omega⟩]) (fun a' b' heq => by cases heq; omega)
        exact ⟨h', v', by simp only [he, ok_bind, pure_eq_ok], ho', hf⟩
    · cases hs

end Fcppt.C07
