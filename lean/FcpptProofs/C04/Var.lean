import FcpptProofs.C04.Either
/-!
# C04 — variant lemmas and list characterisations used by the property theorems
-/
namespace Fcppt.C04
open Spec
variable {σ α β φ : Type}

namespace Var
variable {n : Nat} {τ : Fin n → Type}

theorem getUnsafe_mk (i : Fin n) (x : τ i) : (getUnsafe i (⟨i, x⟩ : Var n τ) : K σ (τ i)) = pure x := by
  simp [getUnsafe]

theorem toOptional_eq (j : Fin n) (v : Var n τ) :
    (toOptional j v : K σ (Option (τ j))) = pure (if h : v.idx = j then some (h ▸ v.val) else none) := by
  obtain ⟨i, x⟩ := v
  by_cases h : i = j
  · subst h; simp [toOptional, holdsType, getUnsafe]
  · simp [toOptional, holdsType, h]

theorem compare_eq (l r : Var n τ) (cmp : (i : Fin n) → τ i → τ i → K σ Bool) :
    compare l r cmp = if h : l.idx = r.idx then cmp r.idx (h ▸ l.val) r.val else pure false := by
  obtain ⟨i, x⟩ := l
  obtain ⟨j, y⟩ := r
  by_cases h : i = j
  · subst h; simp [compare, apply, toOptional_eq, Opt.maybe_eq]
  · simp [compare, apply, toOptional_eq, Opt.maybe_eq, h]

end Var

/-! list characterisations -/

theorem allSome_eq_some_iff (l : List (Option α)) (xs : List α) : allSome l = some xs ↔ l = xs.map some := by
  induction l generalizing xs with
  | nil => cases xs <;> simp [allSome]
  | cons o r ih =>
    cases o with
    | none => cases xs <;> simp [allSome]
    | some x =>
      cases xs with
      | nil => simp [allSome]
      | cons y ys =>
        simp only [allSome, Option.map_eq_some_iff, List.map_cons, List.cons.injEq, Option.some.injEq]
        constructor
        · rintro ⟨zs, hz, h1, h2⟩
          subst h2
          exact ⟨h1, (ih zs).mp hz⟩
        · rintro ⟨rfl, h⟩
          exact ⟨ys, (ih ys).mpr h, rfl, rfl⟩

theorem allSome_eq_none_iff (l : List (Option α)) : allSome l = none ↔ none ∈ l := by
  induction l with
  | nil => simp [allSome]
  | cons o r ih =>
    cases o with
    | none => simp [allSome]
    | some x => simp [allSome, ih]

theorem allSuccess_eq_success_iff (l : List (Either φ α)) (xs : List α) :
    allSuccess l = .success xs ↔ l = xs.map .success := by
  induction l generalizing xs with
  | nil => cases xs <;> simp [allSuccess]
  | cons e r ih =>
    cases e with
    | failure f => cases xs <;> simp [allSuccess]
    | success s =>
      cases hr : allSuccess r with
      | failure f =>
        simp only [allSuccess, hr, reduceCtorEq, false_iff]
        intro h
        cases xs with
        | nil => simp at h
        | cons y ys =>
          simp only [List.map_cons, List.cons.injEq] at h
          have := (ih ys).mpr h.2
          simp [hr] at this
      | success zs =>
        have hz := (ih zs).mp hr
        cases xs with
        | nil => simp [allSuccess, hr]
        | cons y ys =>
          simp only [allSuccess, hr, Either.success.injEq, List.cons.injEq, List.map_cons]
          constructor
          · rintro ⟨rfl, rfl⟩; exact ⟨rfl, hz⟩
          · rintro ⟨rfl, h⟩
            refine ⟨rfl, ?_⟩
            have := (ih ys).mpr h
            rw [hr] at this
            exact Either.success.inj this

theorem allSuccess_eq_failure_iff (l : List (Either φ α)) (f : φ) :
    allSuccess l = .failure f ↔ ∃ (pre : List α) (post : List (Either φ α)), l = pre.map .success ++ .failure f :: post := by
  induction l with
  | nil => simp [allSuccess]
  | cons e r ih =>
    cases e with
    | failure g =>
      simp only [allSuccess, Either.failure.injEq]
      constructor
      · rintro rfl; exact ⟨[], r, rfl⟩
      · rintro ⟨pre, post, h⟩
        cases pre with
        | nil => simp at h; exact h.1
        | cons p ps => simp at h
    | success s =>
      cases hr : allSuccess r with
      | failure g =>
        simp only [allSuccess, hr, Either.failure.injEq]
        constructor
        · rintro rfl
          obtain ⟨pre, post, h⟩ := ih.mp hr
          exact ⟨s :: pre, post, by simp [h]⟩
        · rintro ⟨pre, post, h⟩
          cases pre with
          | nil => simp at h
          | cons p ps =>
            simp only [List.map_cons, List.cons_append, List.cons.injEq] at h
            have := ih.mpr ⟨ps, post, h.2⟩
            rw [hr] at this
            exact Either.failure.inj this
      | success zs =>
        simp only [allSuccess, hr, reduceCtorEq, false_iff]
        rintro ⟨pre, post, h⟩
        cases pre with
        | nil => simp at h
        | cons p ps =>
          simp only [List.map_cons, List.cons_append, List.cons.injEq] at h
          have := ih.mpr ⟨ps, post, h.2⟩
          simp [hr] at this

theorem firstSuccess_eq_success_iff (l : List (Either φ α)) (s : α) :
    Spec.firstSuccess l = .success s ↔ ∃ (pre : List φ) (post : List (Either φ α)), l = pre.map .failure ++ .success s :: post := by
  induction l with
  | nil => simp [Spec.firstSuccess]
  | cons e r ih =>
    cases e with
    | success t =>
      simp only [Spec.firstSuccess, Either.success.injEq]
      constructor
      · rintro rfl; exact ⟨[], r, rfl⟩
      · rintro ⟨pre, post, h⟩
        cases pre with
        | nil => simp at h; exact h.1
        | cons p ps => simp at h
    | failure g =>
      cases hr : Spec.firstSuccess r with
      | success t =>
        simp only [Spec.firstSuccess, hr, Either.success.injEq]
        constructor
        · rintro rfl
          obtain ⟨pre, post, h⟩ := ih.mp hr
          exact ⟨g :: pre, post, by simp [h]⟩
        · rintro ⟨pre, post, h⟩
          cases pre with
          | nil => simp at h
          | cons p ps =>
            simp only [List.map_cons, List.cons_append, List.cons.injEq] at h
            have := ih.mpr ⟨ps, post, h.2⟩
            rw [hr] at this
            exact Either.success.inj this
      | failure zs =>
        simp only [Spec.firstSuccess, hr, reduceCtorEq, false_iff]
        rintro ⟨pre, post, h⟩
        cases pre with
        | nil => simp at h
        | cons p ps =>
          simp only [List.map_cons, List.cons_append, List.cons.injEq] at h
          have := ih.mpr ⟨ps, post, h.2⟩
          simp [hr] at this

theorem firstSuccess_eq_failure_iff (l : List (Either φ α)) (fs : List φ) :
    Spec.firstSuccess l = .failure fs ↔ l = fs.map .failure := by
  induction l generalizing fs with
  | nil => cases fs <;> simp [Spec.firstSuccess]
  | cons e r ih =>
    cases e with
    | success t => cases fs <;> simp [Spec.firstSuccess]
    | failure g =>
      cases hr : Spec.firstSuccess r with
      | success t =>
        simp only [Spec.firstSuccess, hr, reduceCtorEq, false_iff]
        intro h
        cases fs with
        | nil => simp at h
        | cons y ys =>
          simp only [List.map_cons, List.cons.injEq] at h
          have := (ih ys).mpr h.2
          simp [hr] at this
      | failure zs =>
        have hz := (ih zs).mp hr
        cases fs with
        | nil => simp [Spec.firstSuccess, hr]
        | cons y ys =>
          simp only [Spec.firstSuccess, hr, Either.failure.injEq, List.cons.injEq, List.map_cons]
          constructor
          · rintro ⟨rfl, rfl⟩; exact ⟨rfl, hz⟩
          · rintro ⟨rfl, h⟩
            refine ⟨rfl, ?_⟩
            have := (ih ys).mpr h
            rw [hr] at this
            exact Either.failure.inj this

end Fcppt.C04
