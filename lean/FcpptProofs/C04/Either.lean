import FcpptProofs.C04.Opt
/-!
# C04 — what every `either` combinator computes, as a `match` on the argument(s)
-/
namespace Fcppt.C04
open Spec
variable {σ α β γ δ φ ψ : Type}

namespace Either

@[simp] theorem hasSuccess_success (s : α) : hasSuccess (success s : Either φ α) = true := rfl
@[simp] theorem hasSuccess_failure (f : φ) : hasSuccess (failure f : Either φ α) = false := rfl
@[simp] theorem hasFailure_success (s : α) : hasFailure (success s : Either φ α) = false := rfl
@[simp] theorem hasFailure_failure (f : φ) : hasFailure (failure f : Either φ α) = true := rfl
@[simp] theorem getSuccessUnsafe_success (s : α) : (getSuccessUnsafe (success s : Either φ α) : K σ α) = pure s := rfl
@[simp] theorem getFailureUnsafe_failure (f : φ) : (getFailureUnsafe (failure f : Either φ α) : K σ φ) = pure f := rfl
@[simp] theorem getSuccessUnsafe_failure (f : φ) :
    (getSuccessUnsafe (failure f : Either φ α) : K σ α) = K.fault .emptyDeref := rfl
@[simp] theorem getFailureUnsafe_success (s : α) :
    (getFailureUnsafe (success s : Either φ α) : K σ φ) = K.fault .emptyDeref := rfl

/-- exactly one of the two tests holds -/
theorem hasFailure_eq_not_hasSuccess (e : Either φ α) : hasFailure e = !hasSuccess e := by cases e <;> rfl

theorem match_eq (e : Either φ α) (ff : φ → K σ β) (sf : α → K σ β) :
    match_ e ff sf = match e with
      | success s => sf s
      | failure f => ff f := by
  cases e <;> simp [match_]

theorem map_eq (e : Either φ α) (f : α → K σ β) :
    map e f = match e with
      | success s => success <$> f s
      | failure x => pure (failure x) := by
  cases e <;> simp [map]

theorem bind_eq (e : Either φ α) (f : α → K σ (Either φ β)) :
    bind e f = match e with
      | success s => f s
      | failure x => pure (failure x) := by
  cases e <;> simp [bind]

theorem join_eq (e : Either φ (Either φ α)) :
    (join e : K σ (Either φ α)) = pure (match e with
      | success inner => inner
      | failure x => failure x) := by
  cases e <;> simp [join, bind_eq]

theorem mapFailure_eq (e : Either φ α) (f : φ → K σ ψ) :
    mapFailure e f = match e with
      | failure x => failure <$> f x
      | success s => pure (success s) := by
  cases e <;> simp [mapFailure]

theorem successOpt_eq (e : Either φ α) :
    (successOpt e : K σ (Option α)) = pure (match e with
      | success s => some s
      | failure _ => none) := by
  cases e <;> simp [successOpt]

theorem failureOpt_eq (e : Either φ α) :
    (failureOpt e : K σ (Option φ)) = pure (match e with
      | failure x => some x
      | success _ => none) := by
  cases e <;> simp [failureOpt, Opt.makeIf_eq]

theorem fromOptional_eq (o : Option α) (ff : Unit → K σ φ) :
    fromOptional o ff = match o with
      | some x => pure (success x)
      | none => failure <$> ff () := by
  cases o <;> simp [fromOptional, Opt.maybe_eq]

/-! apply -/

@[simp] theorem findIfOpt_nil (p : α → Bool) : findIfOpt p [] = none := rfl

theorem findIfOptFrom_cons (p : α → Bool) (x : α) (r : List α) (i : Nat) :
    findIfOptFrom p (x :: r) i = if p x then some i else findIfOptFrom p r (i + 1) := rfl

theorem findIfOptFrom_shift (p : α → Bool) (l : List α) (i : Nat) :
    findIfOptFrom p l i = (findIfOptFrom p l 0).map (· + i) := by
  induction l generalizing i with
  | nil => rfl
  | cons x r ih =>
    rw [findIfOptFrom_cons, findIfOptFrom_cons]
    by_cases h : p x
    · simp [h]
    · simp only [h, Bool.false_eq_true, if_false]
      rw [ih (i + 1), ih (0 + 1)]
      cases findIfOptFrom p r 0 <;> simp [Nat.add_comm, Nat.add_left_comm]

theorem findIfOpt_cons (p : α → Bool) (x : α) (r : List α) :
    findIfOpt p (x :: r) = if p x then some 0 else (findIfOpt p r).map (· + 1) := by
  unfold findIfOpt
  rw [findIfOptFrom_cons, findIfOptFrom_shift p r (0 + 1)]

/-- `find_if_opt` returns the position of the first element satisfying the predicate -/
theorem findIfOpt_eq_some {p : α → Bool} {l : List α} {i : Nat} (h : findIfOpt p l = some i) :
    ∃ x, l[i]? = some x ∧ p x = true ∧ ∀ j, j < i → ∀ y, l[j]? = some y → p y = false := by
  induction l generalizing i with
  | nil => simp at h
  | cons x r ih =>
    rw [findIfOpt_cons] at h
    by_cases hp : p x
    · simp only [hp, if_true, Option.some.injEq] at h
      subst h
      exact ⟨x, rfl, hp, fun j hj => absurd hj (Nat.not_lt_zero j)⟩
    · simp only [hp, Bool.false_eq_true, if_false, Option.map_eq_some_iff] at h
      obtain ⟨k, hk, rfl⟩ := h
      obtain ⟨y, hy, hpy, hmin⟩ := ih hk
      refine ⟨y, by simpa using hy, hpy, fun j hj z hz => ?_⟩
      cases j with
      | zero => simp at hz; subst hz; simpa using hp
      | succ j => exact hmin j (by omega) z (by simpa using hz)

theorem findIfOpt_eq_none {p : α → Bool} {l : List α} (h : findIfOpt p l = none) : ∀ x ∈ l, p x = false := by
  induction l with
  | nil => simp
  | cons x r ih =>
    rw [findIfOpt_cons] at h
    by_cases hp : p x
    · simp [hp] at h
    · simp only [hp, Bool.false_eq_true, if_false, Option.map_eq_none_iff] at h
      intro y hy
      rcases List.mem_cons.mp hy with rfl | hy
      · simpa using hp
      · exact ih h y hy

theorem apply1_eq (f : α → K σ δ) (e1 : Either φ α) :
    apply1 f e1 = match e1 with
      | success x => success <$> f x
      | failure x => pure (failure x) := by
  cases e1 <;> simp [apply1, allOf, failureOpt_eq, firstFailure, findIfOpt, findIfOptFrom, derefIt]

theorem apply2_eq (f : α → β → K σ δ) (e1 : Either φ α) (e2 : Either φ β) :
    apply2 f e1 e2 = match e1, e2 with
      | success x, success y => success <$> f x y
      | failure x, _ => pure (failure x)
      | success _, failure x => pure (failure x) := by
  cases e1 <;> cases e2 <;> simp [apply2, allOf, failureOpt_eq, firstFailure, findIfOpt, findIfOptFrom, derefIt]

theorem apply3_eq (f : α → β → γ → K σ δ) (e1 : Either φ α) (e2 : Either φ β) (e3 : Either φ γ) :
    apply3 f e1 e2 e3 = match e1, e2, e3 with
      | success x, success y, success z => success <$> f x y z
      | failure x, _, _ => pure (failure x)
      | success _, failure x, _ => pure (failure x)
      | success _, success _, failure x => pure (failure x) := by
  cases e1 <;> cases e2 <;> cases e3 <;>
    simp [apply3, allOf, failureOpt_eq, firstFailure, findIfOpt, findIfOptFrom, derefIt]

/-! sequence, applyN -/

theorem allOf_map_hasSuccess (l : List (Either φ α)) :
    allOf (l.map hasSuccess) = (match allSuccess l with | success _ => true | failure _ => false) := by
  induction l with
  | nil => rfl
  | cons e r ih =>
    cases e with
    | failure f => simp [allOf, allSuccess]
    | success s =>
      simp only [List.map_cons, allOf, hasSuccess_success, if_true, ih, allSuccess]
      cases allSuccess r <;> rfl

theorem mapM'_getSuccessUnsafe (l : List (Either φ α)) (xs : List α) (h : allSuccess l = success xs) :
    (mapM' getSuccessUnsafe l : K σ (List α)) = pure xs := by
  induction l generalizing xs with
  | nil => simp [allSuccess] at h; subst h; rfl
  | cons e r ih =>
    cases e with
    | failure f => simp [allSuccess] at h
    | success s =>
      simp only [allSuccess] at h
      cases hr : allSuccess r with
      | failure f => simp [hr] at h
      | success ys =>
        simp only [hr, success.injEq] at h
        subst h
        simp [mapM', ih ys hr]

theorem mapM'_failureOpt (l : List (Either φ α)) :
    (mapM' failureOpt l : K σ (List (Option φ))) =
      pure (l.map fun e => match e with | failure x => some x | success _ => none) := by
  induction l with
  | nil => rfl
  | cons e r ih => simp [mapM', failureOpt_eq, ih]

/-- `failure_opt` of one either, as a value -/
def fo (e : Either φ α) : Option φ :=
  match e with
  | failure x => some x
  | success _ => none

theorem findIfOpt_fo (l : List (Either φ α)) (x : φ) (h : allSuccess l = failure x) :
    ∃ i, findIfOpt Opt.hasValue (l.map fo) = some i ∧ (l.map fo)[i]? = some (some x) := by
  induction l with
  | nil => simp [allSuccess] at h
  | cons e r ih =>
    cases e with
    | failure f =>
      simp only [allSuccess, failure.injEq] at h
      subst h
      exact ⟨0, by simp [findIfOpt_cons, fo], by simp [fo]⟩
    | success s =>
      simp only [allSuccess] at h
      cases hr : allSuccess r with
      | success ys => simp [hr] at h
      | failure f =>
        simp only [hr, failure.injEq] at h
        subst h
        obtain ⟨i, h1, h2⟩ := ih hr
        exact ⟨i + 1, by simp [findIfOpt_cons, fo, h1], by simpa using h2⟩

/-- the first failure of a list of eithers through `failure_opt` + `find_if_opt` -/
theorem firstFailure_fo (l : List (Either φ α)) (x : φ) (h : allSuccess l = failure x) :
    (firstFailure (l.map fo) : K σ φ) = pure x := by
  obtain ⟨i, h1, h2⟩ := findIfOpt_fo l x h
  simp [firstFailure, h1, derefIt, h2]

theorem mapM'_failureOpt' (l : List (Either φ α)) :
    (mapM' failureOpt l : K σ (List (Option φ))) = pure (l.map fo) := mapM'_failureOpt l

theorem applyN_eq (f : List α → K σ δ) (es : List (Either φ α)) :
    applyN f es = match allSuccess es with
      | success xs => success <$> f xs
      | failure x => pure (failure x) := by
  unfold applyN
  rw [allOf_map_hasSuccess]
  cases h : allSuccess es with
  | success xs => simp [mapM'_getSuccessUnsafe es xs h]
  | failure x => simp [mapM'_failureOpt', firstFailure_fo es x h]

theorem findIfOpt_hasFailure (l : List (Either φ α)) :
    (match allSuccess l with
     | success _ => findIfOpt hasFailure l = none
     | failure x => ∃ i, findIfOpt hasFailure l = some i ∧ l[i]? = some (failure x)) := by
  induction l with
  | nil => simp [allSuccess]
  | cons e r ih =>
    cases e with
    | failure f => simp [allSuccess, findIfOpt_cons]
    | success s =>
      simp only [allSuccess]
      cases hr : allSuccess r with
      | success ys => simp only [hr] at ih; simp [findIfOpt_cons, ih]
      | failure f =>
        simp only [hr] at ih
        obtain ⟨i, h1, h2⟩ := ih
        exact ⟨i + 1, by simp [findIfOpt_cons, h1], by simpa using h2⟩

theorem sequence_eq (l : List (Either φ α)) :
    (sequence l : K σ (Either φ (List α))) = pure (allSuccess l) := by
  unfold sequence
  have := findIfOpt_hasFailure l
  cases h : allSuccess l with
  | success xs =>
    simp only [h] at this
    simp [this, Opt.maybe_eq, mapM'_getSuccessUnsafe l xs h]
  | failure x =>
    simp only [h] at this
    obtain ⟨i, h1, h2⟩ := this
    simp [h1, Opt.maybe_eq, derefIt, h2]

/-! first_success -/

theorem firstSuccessGo_eq (fns : List (Unit → K σ (Either φ α))) (acc : List φ) :
    firstSuccessGo fns acc = (fun r => match r with
      | success s => success s
      | failure l => failure (acc ++ l)) <$> firstSuccessGo fns [] := by
  induction fns generalizing acc with
  | nil => simp [firstSuccessGo]
  | cons fn rest ih =>
    simp only [firstSuccessGo, map_bind]
    congr 1
    funext result
    cases result with
    | success s => simp
    | failure x =>
      simp only [hasSuccess_failure, Bool.false_eq_true, if_false, getFailureUnsafe_failure, pure_bind]
      rw [ih (acc ++ [x]), ih ([] ++ [x])]
      simp only [Functor.map_map]
      congr 1
      funext r
      cases r <;> simp

/-- the recursive description: call the first function; a success is the result, after a failure go on
with the remaining functions and put this failure in front of theirs -/
theorem firstSuccess_cons (fn : Unit → K σ (Either φ α)) (rest : List (Unit → K σ (Either φ α))) :
    firstSuccess (fn :: rest) = (do
      let r ← fn ()
      match r with
      | success s => pure (success s)
      | failure x => consFailure x <$> firstSuccess rest) := by
  unfold firstSuccess
  simp only [firstSuccessGo]
  congr 1
  funext result
  cases result with
  | success s => simp
  | failure x =>
    simp only [hasSuccess_failure, Bool.false_eq_true, if_false, getFailureUnsafe_failure, pure_bind]
    rw [firstSuccessGo_eq]
    congr 1

theorem firstSuccess_nil : (firstSuccess [] : K σ (Either (List φ) α)) = pure (failure []) := rfl

/-- functions without effects: the result is `Spec.firstSuccess` of what they return -/
theorem firstSuccess_pure (l : List (Either φ α)) :
    (firstSuccess (l.map fun e _ => pure e) : K σ (Either (List φ) α)) = pure (Spec.firstSuccess l) := by
  induction l with
  | nil => rfl
  | cons e r ih =>
    rw [List.map_cons, firstSuccess_cons, ih]
    cases e with
    | success s => simp [Spec.firstSuccess]
    | failure x =>
      simp only [pure_bind, map_pure, Spec.firstSuccess]
      cases Spec.firstSuccess r <;> rfl

/-! loop -/

theorem loopGo_some (next : Unit → K σ (Either φ α)) (body : α → K σ Unit) (fuel : Nat) (x : φ) :
    loopGo next body fuel (some x) = pure x := by
  cases fuel <;> simp [loopGo]

theorem loop_zero (next : Unit → K σ (Either φ α)) (body : α → K σ Unit) :
    loop 0 next body = K.fault .fuel := by
  simp [loop, loopGo]

/-- one iteration -/
theorem loop_succ (next : Unit → K σ (Either φ α)) (body : α → K σ Unit) (n : Nat) :
    loop (n + 1) next body = (do
      let e ← next ()
      match e with
      | failure x => pure x
      | success s => do
        body s
        loop n next body) := by
  unfold loop
  rw [loopGo]
  simp only [Opt.hasValue_none, Bool.false_eq_true, if_false]
  congr 1
  funext e
  cases e with
  | failure x => simp [match_eq, loopGo_some]
  | success s => simp [match_eq]

/-! try_call -/

theorem tryCall_ok {ε : Type} (catches : ExcKind → Option ε) (f : Unit → K σ α) (toExc : ε → K σ φ)
    (s s' : σ) (a : α) (h : f () s = (.ok a, s')) :
    tryCall catches f toExc s = (.ok (success a), s') := by
  simp [tryCall, K.tryCatch, K.bind_run, h]

theorem tryCall_caught {ε : Type} (catches : ExcKind → Option ε) (f : Unit → K σ α) (toExc : ε → K σ φ)
    (s s' : σ) (k : ExcKind) (e : ε) (h : f () s = (.error (.exception k), s')) (hc : catches k = some e) :
    tryCall catches f toExc s = (failure <$> toExc e) s' := by
  rw [← bind_pure_comp, K.bind_run]
  simp [tryCall, K.tryCatch, K.bind_run, h, hc]

theorem tryCall_uncaught {ε : Type} (catches : ExcKind → Option ε) (f : Unit → K σ α) (toExc : ε → K σ φ)
    (s s' : σ) (k : ExcKind) (h : f () s = (.error (.exception k), s')) (hc : catches k = none) :
    tryCall catches f toExc s = (.error (.exception k), s') := by
  simp [tryCall, K.tryCatch, K.bind_run, h, hc]

end Either
end Fcppt.C04
