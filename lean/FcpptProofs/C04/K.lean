import FcpptModel.Spec.C04
/-!
# C04 — the continuation monad `K σ` is a lawful monad; basic rewriting lemmas
-/
namespace Fcppt.C04
variable {σ α β γ : Type}

@[simp] theorem K.pure_run (a : α) (s : σ) : (pure a : K σ α) s = (.ok a, s) := rfl

theorem K.bind_run (m : K σ α) (f : α → K σ β) (s : σ) :
    (m >>= f) s = match m s with
      | (.ok a, s') => f a s'
      | (.error e, s') => (.error e, s') := rfl

@[simp] theorem K.fault_run (e : Fault) (s : σ) : (K.fault e : K σ α) s = (.error e, s) := rfl

instance : LawfulMonad (K σ) := LawfulMonad.mk'
  (id_map := by
    intro α x
    funext s
    show (x >>= fun a => pure (id a)) s = x s
    rw [K.bind_run]
    rcases h : x s with ⟨r, s'⟩
    cases r <;> simp)
  (pure_bind := by intros; rfl)
  (bind_assoc := by
    intro α β γ x f g
    funext s
    simp only [K.bind_run]
    rcases h : x s with ⟨r, s'⟩
    cases r <;> simp)

@[simp] theorem K.fault_bind (e : Fault) (f : α → K σ β) : (K.fault e : K σ α) >>= f = K.fault e := rfl

/-- extensionality -/
theorem K.ext {m₁ m₂ : K σ α} (h : ∀ s, m₁ s = m₂ s) : m₁ = m₂ := funext h

/-- the computation raises no fault: no `get_unsafe` on the wrong alternative, no exception, terminates -/
def NoFault (m : K σ α) : Prop := ∀ s, ∃ a s', m s = (.ok a, s')

theorem NoFault.pure (a : α) : NoFault (pure a : K σ α) := fun s => ⟨a, s, rfl⟩

theorem NoFault.bind {m : K σ α} {f : α → K σ β} (hm : NoFault m) (hf : ∀ a, NoFault (f a)) :
    NoFault (m >>= f) := by
  intro s
  obtain ⟨a, s', h⟩ := hm s
  obtain ⟨b, s'', h'⟩ := hf a s'
  exact ⟨b, s'', by rw [K.bind_run, h]; exact h'⟩

theorem NoFault.map {m : K σ α} (g : α → β) (hm : NoFault m) : NoFault (g <$> m) := by
  rw [← bind_pure_comp]
  exact hm.bind fun a => NoFault.pure _

end Fcppt.C04
