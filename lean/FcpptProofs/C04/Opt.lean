import FcpptProofs.C04.K
/-!
# C04 — what every `optional` combinator computes, as a `match` on the argument(s)
-/
namespace Fcppt.C04
open Spec
variable {σ α β γ δ : Type}

namespace Opt

@[simp] theorem hasValue_some (x : α) : hasValue (some x) = true := rfl
@[simp] theorem hasValue_none : hasValue (none : Option α) = false := rfl
@[simp] theorem getUnsafe_some (x : α) : (getUnsafe (some x) : K σ α) = pure x := rfl
@[simp] theorem getUnsafe_none : (getUnsafe (none : Option α) : K σ α) = K.fault .emptyDeref := rfl

theorem hasValue_eq_isSome (o : Option α) : hasValue o = o.isSome := by cases o <;> rfl

theorem bind_eq (o : Option α) (f : α → K σ (Option β)) :
    bind o f = match o with
      | some x => f x
      | none => pure none := by
  cases o <;> simp [bind]

theorem map_eq (o : Option α) (f : α → K σ β) :
    map o f = match o with
      | some x => some <$> f x
      | none => pure none := by
  cases o <;> simp [map, bind_eq, make]

theorem join_eq (o : Option (Option α)) : (join o : K σ (Option α)) = pure o.join := by
  cases o <;> simp [join]

theorem makeIf_eq (b : Bool) (f : Unit → K σ α) :
    makeIf b f = if b then some <$> f () else pure none := by
  cases b <;> simp [makeIf]

theorem apply1_eq (f : α → K σ δ) (o1 : Option α) :
    apply1 f o1 = match o1 with
      | some x => some <$> f x
      | none => pure none := by
  cases o1 <;> simp [apply1, makeIf_eq, hasValueAll, allOf]

theorem apply2_eq (f : α → β → K σ δ) (o1 : Option α) (o2 : Option β) :
    apply2 f o1 o2 = match o1, o2 with
      | some x, some y => some <$> f x y
      | _, _ => pure none := by
  cases o1 <;> cases o2 <;> simp [apply2, makeIf_eq, hasValueAll, allOf]

theorem apply3_eq (f : α → β → γ → K σ δ) (o1 : Option α) (o2 : Option β) (o3 : Option γ) :
    apply3 f o1 o2 o3 = match o1, o2, o3 with
      | some x, some y, some z => some <$> f x y z
      | _, _, _ => pure none := by
  cases o1 <;> cases o2 <;> cases o3 <;> simp [apply3, makeIf_eq, hasValueAll, allOf]

theorem filter_eq (o : Option α) (p : α → K σ Bool) :
    filter o p = match o with
      | some x => (fun b => if b then some x else none) <$> p x
      | none => pure none := by
  cases o <;> simp [filter]

theorem alternative_eq (o1 : Option α) (o2 : Unit → K σ (Option α)) :
    alternative o1 o2 = match o1 with
      | some x => pure (some x)
      | none => o2 () := by
  cases o1 <;> simp [alternative]

theorem combine_eq (o1 o2 : Option α) (f : α → α → K σ α) :
    combine o1 o2 f = match o1, o2 with
      | some x, some y => some <$> f x y
      | some x, none => pure (some x)
      | none, o => pure o := by
  cases o1 <;> cases o2 <;> simp [combine, make]

theorem maybe_eq (o : Option α) (d : Unit → K σ β) (t : α → K σ β) :
    maybe o d t = match o with
      | some x => t x
      | none => d () := by
  cases o <;> simp [maybe, cond]

theorem maybeVoid_eq (o : Option α) (t : α → K σ Unit) :
    maybeVoid o t = match o with
      | some x => t x
      | none => pure () := by
  cases o <;> simp [maybeVoid, maybe_eq]

theorem from_eq (o : Option α) (d : Unit → K σ α) :
    Opt.from o d = match o with
      | some x => pure x
      | none => d () := by
  cases o <;> simp [Opt.from, cond]

theorem maybeMulti1_eq (d : Unit → K σ δ) (t : α → K σ δ) (o1 : Option α) :
    maybeMulti1 d t o1 = match o1 with
      | some x => t x
      | none => d () := by
  cases o1 <;> simp [maybeMulti1, hasValueAll, allOf]

theorem maybeMulti2_eq (d : Unit → K σ δ) (t : α → β → K σ δ) (o1 : Option α) (o2 : Option β) :
    maybeMulti2 d t o1 o2 = match o1, o2 with
      | some x, some y => t x y
      | _, _ => d () := by
  cases o1 <;> cases o2 <;> simp [maybeMulti2, hasValueAll, allOf]

theorem maybeMulti3_eq (d : Unit → K σ δ) (t : α → β → γ → K σ δ) (o1 : Option α) (o2 : Option β) (o3 : Option γ) :
    maybeMulti3 d t o1 o2 o3 = match o1, o2, o3 with
      | some x, some y, some z => t x y z
      | _, _, _ => d () := by
  cases o1 <;> cases o2 <;> cases o3 <;> simp [maybeMulti3, hasValueAll, allOf]

/-! containers -/

theorem allOf_map_hasValue (l : List (Option α)) : allOf (l.map hasValue) = (allSome l).isSome := by
  induction l with
  | nil => rfl
  | cons o r ih =>
    cases o with
    | none => simp [allOf, allSome]
    | some x => simp [allOf, allSome, ih]

theorem containsIf_not_hasValue (l : List (Option α)) :
    containsIf (fun o => !hasValue o) l = (allSome l).isNone := by
  induction l with
  | nil => rfl
  | cons o r ih =>
    cases o with
    | none => simp [containsIf, allSome]
    | some x => simp [containsIf, allSome, ih]

theorem mapM'_getUnsafe (l : List (Option α)) (xs : List α) (h : allSome l = some xs) :
    (mapM' getUnsafe l : K σ (List α)) = pure xs := by
  induction l generalizing xs with
  | nil => simp [allSome] at h; subst h; rfl
  | cons o r ih =>
    cases o with
    | none => simp [allSome] at h
    | some x =>
      simp only [allSome, Option.map_eq_some_iff] at h
      obtain ⟨ys, hy, rfl⟩ := h
      simp [mapM', ih ys hy]

theorem sequence_eq (l : List (Option α)) : (sequence l : K σ (Option (List α))) = pure (allSome l) := by
  unfold sequence
  rw [containsIf_not_hasValue, makeIf_eq]
  cases h : allSome l with
  | none => simp
  | some xs => simp [mapM'_getUnsafe l xs h]

theorem applyN_eq (f : List α → K σ δ) (os : List (Option α)) :
    applyN f os = match allSome os with
      | some xs => some <$> f xs
      | none => pure none := by
  unfold applyN hasValueAll
  rw [allOf_map_hasValue, makeIf_eq]
  cases h : allSome os with
  | none => simp
  | some xs => simp [mapM'_getUnsafe os xs h]

theorem maybeMultiN_eq (d : Unit → K σ δ) (t : List α → K σ δ) (os : List (Option α)) :
    maybeMultiN d t os = match allSome os with
      | some xs => t xs
      | none => d () := by
  unfold maybeMultiN hasValueAll
  rw [allOf_map_hasValue]
  cases h : allSome os with
  | none => simp
  | some xs => simp [mapM'_getUnsafe os xs h]

theorem catGo_eq (l : List (Option α)) (acc : List α) :
    (catGo l acc : K σ (List α)) = pure (acc ++ l.filterMap id) := by
  induction l generalizing acc with
  | nil => simp [catGo]
  | cons o r ih =>
    cases o with
    | none => simp [catGo, maybe_eq, ih]
    | some x => simp [catGo, maybe_eq, ih]

theorem cat_eq (l : List (Option α)) : (cat l : K σ (List α)) = pure (l.filterMap id) := by
  simp [cat, catGo_eq]

/-! comparison -/

theorem eq_eq (eqv : α → α → Bool) (a b : Option α) :
    (eq eqv a b : K σ Bool) = pure (match a, b with
      | some x, some y => eqv x y
      | none, none => true
      | _, _ => false) := by
  cases a <;> cases b <;> simp [eq]

theorem ne_eq (eqv : α → α → Bool) (a b : Option α) :
    (ne eqv a b : K σ Bool) = (fun r => !r) <$> (eq eqv a b : K σ Bool) := by
  simp [ne]

theorem lt_eq (ltv : α → α → Bool) (a b : Option α) :
    (lt ltv a b : K σ Bool) = pure (optLt ltv a b) := by
  cases a <;> cases b <;> simp [lt, optLt]

end Opt
end Fcppt.C04
