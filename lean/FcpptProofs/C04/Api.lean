import FcpptProofs.C04.Var
/-!
# C04 — lemmas for the rest of the public API (`to_container` … `dynamic_cast_`, `monad::chain` / `do_`)
-/
namespace Fcppt.C04
open Spec
variable {σ α β γ δ φ ψ ρ π : Type}

namespace Opt

theorem toContainer_eq (o : Option α) : (toContainer o : K σ (List α)) = pure o.toList := by
  cases o <;> simp [toContainer, maybe_eq]

theorem copyValue_eq (get : ρ → K σ α) (o : Option ρ) :
    copyValue get o = match o with
      | some r => some <$> get r
      | none => pure none := by
  cases o <;> simp [copyValue, map_eq]

theorem deref_eq (star : π → K σ ρ) (o : Option π) :
    deref star o = match o with
      | some p => some <$> star p
      | none => pure none := by
  cases o <;> simp [deref, map_eq]

theorem maybeVoidMulti1_eq (t : α → K σ Unit) (o1 : Option α) :
    maybeVoidMulti1 t o1 = match o1 with
      | some x => t x
      | none => pure () := by
  cases o1 <;> simp [maybeVoidMulti1, maybeMulti1_eq]

theorem maybeVoidMulti2_eq (t : α → β → K σ Unit) (o1 : Option α) (o2 : Option β) :
    maybeVoidMulti2 t o1 o2 = match o1, o2 with
      | some x, some y => t x y
      | _, _ => pure () := by
  cases o1 <;> cases o2 <;> simp [maybeVoidMulti2, maybeMulti2_eq]

theorem maybeVoidMulti3_eq (t : α → β → γ → K σ Unit) (o1 : Option α) (o2 : Option β) (o3 : Option γ) :
    maybeVoidMulti3 t o1 o2 o3 = match o1, o2, o3 with
      | some x, some y, some z => t x y z
      | _, _, _ => pure () := by
  cases o1 <;> cases o2 <;> cases o3 <;> simp [maybeVoidMulti3, maybeMulti3_eq]

theorem maybeVoidMultiN_eq (t : List α → K σ Unit) (os : List (Option α)) :
    maybeVoidMultiN t os = match allSome os with
      | some xs => t xs
      | none => pure () := by
  rw [maybeVoidMultiN, maybeMultiN_eq]
  cases allSome os <;> rfl

theorem assign_eq (o : Option α) (x : α) : (assign o x : K σ (Option α × α)) = pure (some x, x) := by
  simp [assign]

theorem fromPointer_eq (p : Ptr ρ) :
    (fromPointer p : K σ (Option ρ)) = pure (match p with
      | .to r => some r
      | .null => none) := by
  cases p <;> simp [fromPointer, Ptr.isNull, Ptr.star]

theorem toPointer_eq (o : Option ρ) :
    (toPointer o : K σ (Ptr ρ)) = pure (match o with
      | some r => .to r
      | none => .null) := by
  cases o <;> simp [toPointer, maybe_eq]

theorem toException_eq (o : Option α) (mk : Unit → K σ ExcKind) :
    toException o mk = match o with
      | some x => pure x
      | none => mk () >>= fun e => K.fault (.exception e) := by
  cases o <;> simp [toException]

theorem output_eq (put : Char → K σ Unit) (putv : α → K σ Unit) (o : Option α) :
    output put putv o = match o with
      | none => put 'N'
      | some v => put 'J' >>= fun _ => put ' ' >>= fun _ => putv v := by
  cases o <;> simp [output, maybe_eq]

end Opt

namespace Either

theorem eq_eq (eqf : φ → φ → Bool) (eqs : α → α → Bool) (a b : Either φ α) :
    (eq eqf eqs a b : K σ Bool) = pure (match a, b with
      | success x, success y => eqs x y
      | failure x, failure y => eqf x y
      | _, _ => false) := by
  cases a <;> cases b <;> simp [eq]

theorem ne_eq (eqf : φ → φ → Bool) (eqs : α → α → Bool) (a b : Either φ α) :
    (ne eqf eqs a b : K σ Bool) = (fun r => !r) <$> (eq eqf eqs a b : K σ Bool) := by
  simp [ne]

theorem construct_eq (v : Bool) (s : Unit → K σ α) (f : Unit → K σ φ) :
    construct v s f = if v then success <$> s () else failure <$> f () := by
  cases v <;> simp [construct]

theorem errorFromOptional_eq (o : Option φ) :
    (errorFromOptional o : K σ (Either φ Unit)) = pure (match o with
      | some x => failure x
      | none => success ()) := by
  cases o <;> simp [errorFromOptional, Opt.maybe_eq]

theorem toException_eq (e : Either φ α) (mk : φ → K σ ExcKind) :
    toException e mk = match e with
      | success s => pure s
      | failure f => mk f >>= fun k => K.fault (.exception k) := by
  cases e <;> simp [toException]

theorem foldBreak_nil (f : α → β → K σ (Loop × β)) (st : β) : foldBreak f [] st = pure st := rfl

theorem foldBreak_cons (f : α → β → K σ (Loop × β)) (x : α) (r : List α) (st : β) :
    foldBreak f (x :: r) st = (f x st >>= fun result =>
      match result.1 with
      | .break_ => pure result.2
      | .continue_ => foldBreak f r result.2) := rfl

theorem sequenceError_nil (f : α → K σ (Either φ Unit)) : sequenceError [] f = pure (success ()) := rfl

theorem sequenceError_cons (x : α) (r : List α) (f : α → K σ (Either φ Unit)) :
    sequenceError (x :: r) f = (f x >>= fun e =>
      match e with
      | failure err => pure (failure err)
      | success _ => sequenceError r f) := by
  unfold sequenceError
  rw [foldBreak_cons]
  simp only [bind_assoc]
  congr 1
  funext e
  cases e <;> simp [match_eq]

theorem sequenceError_pure (l : List α) (f : α → Either φ Unit) :
    (sequenceError l (fun x => pure (f x)) : K σ (Either φ Unit)) = pure (firstError (l.map f)) := by
  induction l with
  | nil => rfl
  | cons x r ih =>
    rw [sequenceError_cons]
    simp only [pure_bind, List.map_cons]
    cases h : f x with
    | failure e => simp [firstError]
    | success u => simp [firstError, ih]

end Either

theorem firstError_eq_failure_iff (l : List (Either φ Unit)) (f : φ) :
    firstError l = .failure f ↔ ∃ (n : Nat) (post : List (Either φ Unit)), l = List.replicate n (.success ()) ++ .failure f :: post := by
  induction l with
  | nil => simp [firstError]
  | cons e r ih =>
    cases e with
    | failure g =>
      simp only [firstError, Either.failure.injEq]
      constructor
      · rintro rfl; exact ⟨0, r, rfl⟩
      · rintro ⟨n, post, h⟩
        cases n with
        | zero => simp at h; exact h.1
        | succ n => simp [List.replicate_succ] at h
    | success u =>
      simp only [firstError]
      rw [ih]
      constructor
      · rintro ⟨n, post, h⟩; exact ⟨n + 1, post, by simp [List.replicate_succ, h]⟩
      · rintro ⟨n, post, h⟩
        cases n with
        | zero => simp at h
        | succ n =>
          simp only [List.replicate_succ, List.cons_append, List.cons.injEq] at h
          exact ⟨n, post, h.2⟩

theorem firstError_eq_success_iff (l : List (Either φ Unit)) :
    firstError l = .success () ↔ ∀ e ∈ l, e = .success () := by
  induction l with
  | nil => simp [firstError]
  | cons e r ih =>
    cases e with
    | failure g => simp [firstError]
    | success u => simp [firstError, ih]

/-- relation to `sequence` on the same results -/
theorem firstError_eq_allSuccess (l : List (Either φ Unit)) :
    firstError l = match allSuccess l with
      | .failure e => .failure e
      | .success _ => .success () := by
  induction l with
  | nil => rfl
  | cons e r ih =>
    cases e with
    | failure g => simp [firstError, allSuccess]
    | success u =>
      simp only [firstError, allSuccess, ih]
      cases allSuccess r <;> rfl

/-! `dynamic_cast_` -/

theorem dynamicCastStep_some {ρ : Type} (ic : Nat × (Unit → K σ (Option ρ))) (x : Nat × ρ) :
    dynamicCastStep ic (some x) = pure (Loop.break_, some x) := by
  simp [dynamicCastStep]

theorem dynamicCastStep_none {ρ : Type} (ic : Nat × (Unit → K σ (Option ρ))) :
    dynamicCastStep ic none = (ic.2 () >>= fun c => pure (Loop.continue_, c.map fun ref => (ic.1, ref))) := by
  simp only [dynamicCastStep, Opt.hasValue_none, Bool.false_eq_true, if_false]
  congr 1
  funext c
  cases c <;> simp [Opt.map_eq]

theorem dynamicCast_go_some {ρ : Type} (l : List (Nat × (Unit → K σ (Option ρ)))) (x : Nat × ρ) :
    foldBreak dynamicCastStep l (some x) = (pure (some x) : K σ _) := by
  cases l with
  | nil => rfl
  | cons a r => rw [Either.foldBreak_cons, dynamicCastStep_some]; simp

theorem range_zip_succ {β : Type} (k : Nat) (c : β) (cs : List β) :
    (List.range' k (cs.length + 1)).zip (c :: cs) = (k, c) :: (List.range' (k + 1) cs.length).zip cs := by
  simp [List.range'_succ]

theorem dynamicCast_go {ρ : Type} (casts : List (Unit → K σ (Option ρ))) (k : Nat) :
    foldBreak dynamicCastStep ((List.range' k casts.length).zip casts) none = tryCasts k casts := by
  induction casts generalizing k with
  | nil => rfl
  | cons c cs ih =>
    rw [List.length_cons, range_zip_succ, Either.foldBreak_cons, dynamicCastStep_none]
    simp only [bind_assoc, pure_bind, tryCasts]
    congr 1
    funext r
    cases r with
    | none => simpa using ih (k + 1)
    | some ref => simpa using dynamicCast_go_some _ (k, ref)

theorem dynamicCast_eq {ρ : Type} (casts : List (Unit → K σ (Option ρ))) :
    dynamicCast casts = tryCasts 0 casts := by
  unfold dynamicCast
  rw [List.range_eq_range']
  exact dynamicCast_go casts 0

theorem tryCasts_pure {ρ : Type} (l : List (Option ρ)) (k : Nat) :
    (tryCasts k (l.map fun o _ => pure o) : K σ (Option (Nat × ρ))) = pure (firstSome k l) := by
  induction l generalizing k with
  | nil => rfl
  | cons o r ih =>
    cases o with
    | none => simp [tryCasts, firstSome, ih]
    | some x => simp [tryCasts, firstSome]

theorem firstSome_eq_some_iff {ρ : Type} (l : List (Option ρ)) (k i : Nat) (r : ρ) :
    firstSome k l = some (i, r) ↔
      ∃ (n : Nat) (post : List (Option ρ)), l = List.replicate n none ++ some r :: post ∧ i = k + n := by
  induction l generalizing k with
  | nil => simp [firstSome]
  | cons o t ih =>
    cases o with
    | some x =>
      simp only [firstSome, Option.some.injEq, Prod.mk.injEq]
      constructor
      · rintro ⟨rfl, rfl⟩; exact ⟨0, t, rfl, rfl⟩
      · rintro ⟨n, post, h, hi⟩
        cases n with
        | zero => simp at h; exact ⟨by omega, h.1⟩
        | succ n => simp [List.replicate_succ] at h
    | none =>
      simp only [firstSome]
      rw [ih]
      constructor
      · rintro ⟨n, post, h, hi⟩; exact ⟨n + 1, post, by simp [List.replicate_succ, h], by omega⟩
      · rintro ⟨n, post, h, hi⟩
        cases n with
        | zero => simp at h
        | succ n =>
          simp only [List.replicate_succ, List.cons_append, List.cons.injEq, true_and] at h
          exact ⟨n, post, h, by omega⟩

theorem firstSome_eq_none_iff {ρ : Type} (l : List (Option ρ)) (k : Nat) :
    firstSome k l = none ↔ ∀ o ∈ l, o = none := by
  induction l generalizing k with
  | nil => simp [firstSome]
  | cons o t ih =>
    cases o with
    | some x => simp [firstSome]
    | none => simp [firstSome, ih]

namespace Var
variable {n : Nat} {τ : Fin n → Type}

theorem toOptionalRef_eq_toOptional (j : Fin n) (v : Var n τ) :
    (toOptionalRef j v : K σ (Option (τ j))) = toOptional j v := rfl

theorem setUnsafe_held (i : Fin n) (x y : τ i) :
    (setUnsafe i (⟨i, x⟩ : Var n τ) y : K σ (Var n τ)) = pure ⟨i, y⟩ := by
  simp [setUnsafe, getUnsafe]

theorem setUnsafe_wrong (j : Fin n) (v : Var n τ) (y : τ j) (h : v.idx ≠ j) :
    (setUnsafe j v y : K σ (Var n τ)) = K.fault .emptyDeref := by
  simp only [setUnsafe, getUnsafe, h, dite_false]
  rfl

end Var

theorem VarV.toOptional_some {n : Nat} {τ : Fin n → Type} (j : Fin n) (v : Var n τ) :
    (VarV.toOptional j (some v) : K σ (Option (τ j))) = Var.toOptional j v := by
  unfold VarV.toOptional Var.toOptional VarV.holdsType
  by_cases h : Var.holdsType j v = true <;> simp [h]

end Fcppt.C04
