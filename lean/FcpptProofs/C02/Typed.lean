import FcpptModel.Model.C02.Typed
import FcpptModel.Spec.C02
/-!
# C02 — typed result plumbing: the flattening functions preserve typing, `flat` is monotone in its fuel,
every value the semantics produces is well-shaped (`Good`), and a well-shaped value of a well-typed parser
flattens to an inhabitant of the parser's `result_type`.
-/
set_option linter.unusedSimpArgs false
set_option linter.unusedVariables false
namespace Fcppt.C02

/-! ## type lists -/

theorem TyL.get?_idxOf {x : Ty} : ∀ {l : TyL}, l.contains x = true → l.get? (l.idxOf x) = some x
  | .nil, h => by simp [TyL.contains] at h
  | .cons t ts, h => by
    have ih := TyL.get?_idxOf (x := x) (l := ts)
    by_cases ht : t = x
    · simp [TyL.idxOf, ht, TyL.get?]
    · simp only [TyL.contains, ht, decide_false, Bool.false_or] at h
      simp [TyL.idxOf, ht, TyL.get?, ih h]

theorem TyL.contains_append {x : Ty} : ∀ {l m : TyL}, (l.append m).contains x = (l.contains x || m.contains x)
  | .nil, m => by simp [TyL.append, TyL.contains]
  | .cons t ts, m => by
    have ih := TyL.contains_append (x := x) (l := ts) (m := m)
    simp [TyL.append, TyL.contains, ih, Bool.or_assoc]

theorem TyL.contains_snoc {x y : Ty} : ∀ {l : TyL}, (l.snoc y).contains x = (l.contains x || decide (y = x))
  | .nil => by simp [TyL.snoc, TyL.contains]
  | .cons t ts => by
    have ih := TyL.contains_snoc (x := x) (y := y) (l := ts)
    simp [TyL.snoc, TyL.contains, ih, Bool.or_assoc]

theorem uniqInto_contains {x : Ty} : ∀ {l acc : TyL}, (uniqInto acc l).contains x = (acc.contains x || l.contains x)
  | .nil, acc => by simp [uniqInto, TyL.contains]
  | .cons t ts, acc => by
    have ih := fun acc' => uniqInto_contains (x := x) (l := ts) (acc := acc')
    simp only [uniqInto, ih, TyL.contains]
    by_cases h : acc.contains t = true
    · simp only [h, if_true]
      by_cases ht : t = x
      · subst ht; simp [h]
      · simp [ht]
    · simp only [h]
      simp only [Bool.false_eq_true, if_false, TyL.contains_snoc, Bool.or_assoc]

/-- `unique` keeps exactly the members of the list -/
theorem uniq_contains {x : Ty} {l : TyL} : (uniq l).contains x = l.contains x := by
  simp [uniq, uniqInto_contains, TyL.contains]

theorem toVar_contains_self (t : Ty) : (toVar t).contains t = true ∨ ∃ ts, t = .var ts := by
  cases t <;> simp [toVar, TyL.contains]

theorem TyL.contains_of_get? {x : Ty} : ∀ {l : TyL} {i : Nat}, l.get? i = some x → l.contains x = true
  | .nil, i, h => by simp [TyL.get?] at h
  | .cons t ts, 0, h => by simp [TyL.get?] at h; simp [TyL.contains, h]
  | .cons t ts, i + 1, h => by
    simp [TyL.get?] at h; simp [TyL.contains, TyL.contains_of_get? h]

/-! ## typing of the plumbing -/

theorem HasTys.append {defs : Nat → Ty} : ∀ {xs ys : TValL} {ts us : TyL}, HasTys defs xs ts → HasTys defs ys us →
    HasTys defs (xs.append ys) (ts.append us)
  | .nil, ys, ts, us, h1, h2 => by cases h1; simpa [TValL.append, TyL.append] using h2
  | .cons v vs, ys, ts, us, h1, h2 => by
    cases h1 with
    | cons hv hvs => exact .cons hv (HasTys.append hvs h2)

theorem toTupV_hasTys {defs : Nat → Ty} {t : Ty} {v : TVal} (h : HasTy defs v t) :
    ∃ xs, toTupV t v = some xs ∧ HasTys defs xs (toTup t) := by
  cases h with
  | tup hs => exact ⟨_, rfl, hs⟩
  | unit => exact ⟨_, rfl, .cons .unit .nil⟩
  | ch c => exact ⟨_, rfl, .cons (.ch c) .nil⟩
  | uint n => exact ⟨_, rfl, .cons (.uint n) .nil⟩
  | int i => exact ⟨_, rfl, .cons (.int i) .nil⟩
  | flt b => exact ⟨_, rfl, .cons (.flt b) .nil⟩
  | str cs => exact ⟨_, rfl, .cons (.str cs) .nil⟩
  | vec hs => exact ⟨_, rfl, .cons (.vec hs) .nil⟩
  | none => exact ⟨_, rfl, .cons .none .nil⟩
  | some hv => exact ⟨_, rfl, .cons (.some hv) .nil⟩
  | inj hi hv => exact ⟨_, rfl, .cons (.inj hi hv) .nil⟩
  | struct hv => exact ⟨_, rfl, .cons (.struct hv) .nil⟩

/-- `detail::sequence_result` returns a value of `sequence_result<Left, Right>` -/
theorem seqVal_hasTy {defs : Nat → Ty} {l r : Ty} {a b : TVal} (ha : HasTy defs a l) (hb : HasTy defs b r) :
    ∃ v, seqVal l r a b = some v ∧ HasTy defs v (seqTy l r) := by
  unfold seqVal seqTy
  by_cases hl : l = .unit
  · simp only [hl, if_true]; subst hl; exact ⟨b, rfl, hb⟩
  · simp only [hl, if_false]
    by_cases hr : r = .unit
    · simp only [hr, if_true]; exact ⟨a, rfl, ha⟩
    · simp only [hr, if_false]
      obtain ⟨xs, e1, h1⟩ := toTupV_hasTys ha
      obtain ⟨ys, e2, h2⟩ := toTupV_hasTys hb
      exact ⟨_, by simp [e1, e2], .tup (h1.append h2)⟩

theorem single_eq {l : TyL} {t : Ty} (h : single l = some t) : l = .cons t .nil := by
  cases l with
  | nil => simp [single] at h
  | cons a as => cases as with
    | nil => simp [single] at h; rw [h]
    | cons b bs => simp [single] at h

/-- `detail::make_alternative<Result>` returns a value of `Result` (for either branch of a well-typed alternative) -/
theorem altInj_hasTy {defs : Nat → Ty} {l r arg res : Ty} {v : TVal} (harg : arg = l ∨ arg = r)
    (hres : (match single (altList l r) with
       | some t => if l = t ∧ r = t then some t else none
       | none => some (.var (altList l r))) = some res)
    (hv : HasTy defs v arg) :
    ∃ w, altInj (altList l r) arg v = some w ∧ HasTy defs w res := by
  unfold altInj
  cases hs : single (altList l r) with
  | some t =>
    simp only [hs] at hres ⊢
    by_cases hlr : l = t ∧ r = t
    · simp only [hlr, and_self, if_true, Option.some.injEq] at hres
      have : arg = t := by rcases harg with h | h <;> simp [h, hlr]
      subst hres
      exact ⟨v, by simp [this], this ▸ hv⟩
    · simp [hlr] at hres
  | none =>
    simp only [hs, Option.some.injEq] at hres ⊢
    subst hres
    -- every alternative of `arg` is an alternative of the result
    have hsub : ∀ x, (toVar arg).contains x = true → (altList l r).contains x = true := by
      intro x hx
      simp only [altList, uniq_contains, TyL.contains_append]
      rcases harg with h | h <;> subst h <;> simp [hx]
    cases hv with
    | inj hi hw =>
      rename_i i w t ts
      have hc := hsub t (by simpa [toVar] using TyL.contains_of_get? hi)
      exact ⟨_, by simp [hi, hc], .inj (TyL.get?_idxOf hc) hw⟩
    | unit => have hc := hsub .unit (by simp [toVar, TyL.contains]); exact ⟨_, by simp [hc], .inj (TyL.get?_idxOf hc) .unit⟩
    | ch c => have hc := hsub .ch (by simp [toVar, TyL.contains]); exact ⟨_, by simp [hc], .inj (TyL.get?_idxOf hc) (.ch c)⟩
    | uint n => have hc := hsub .uint (by simp [toVar, TyL.contains]); exact ⟨_, by simp [hc], .inj (TyL.get?_idxOf hc) (.uint n)⟩
    | int i => have hc := hsub .int (by simp [toVar, TyL.contains]); exact ⟨_, by simp [hc], .inj (TyL.get?_idxOf hc) (.int i)⟩
    | flt b => have hc := hsub .flt (by simp [toVar, TyL.contains]); exact ⟨_, by simp [hc], .inj (TyL.get?_idxOf hc) (.flt b)⟩
    | str cs => have hc := hsub .str (by simp [toVar, TyL.contains]); exact ⟨_, by simp [hc], .inj (TyL.get?_idxOf hc) (.str cs)⟩
    | vec hs' =>
      rename_i vs t
      have hc := hsub (.vec t) (by simp [toVar, TyL.contains]); exact ⟨_, by simp [hc], .inj (TyL.get?_idxOf hc) (.vec hs')⟩
    | none =>
      rename_i t
      have hc := hsub (.opt t) (by simp [toVar, TyL.contains]); exact ⟨_, by simp [hc], .inj (TyL.get?_idxOf hc) .none⟩
    | some hw =>
      rename_i w t
      have hc := hsub (.opt t) (by simp [toVar, TyL.contains]); exact ⟨_, by simp [hc], .inj (TyL.get?_idxOf hc) (.some hw)⟩
    | tup hs' =>
      rename_i vs ts
      have hc := hsub (.tup ts) (by simp [toVar, TyL.contains]); exact ⟨_, by simp [hc], .inj (TyL.get?_idxOf hc) (.tup hs')⟩
    | struct hw =>
      rename_i k w
      have hc := hsub (.named k) (by simp [toVar, TyL.contains]); exact ⟨_, by simp [hc], .inj (TyL.get?_idxOf hc) (.struct hw)⟩

theorem repNil_hasTy {defs : Nat → Ty} (t : Ty) : HasTy defs (repNil t) (repTy t) := by
  unfold repNil repTy
  by_cases h : t = .ch
  · simp only [h, if_true]; exact .str []
  · simp only [h, if_false]; exact .vec .nil

/-- `push_back` keeps the `repetition_result` -/
theorem repCons_hasTy {defs : Nat → Ty} {t : Ty} {x xs : TVal} (hx : HasTy defs x t) (hxs : HasTy defs xs (repTy t)) :
    ∃ v, repCons x xs = some v ∧ HasTy defs v (repTy t) := by
  unfold repTy at hxs ⊢
  by_cases h : t = .ch
  · subst h
    simp only [if_true] at hxs ⊢
    cases hxs with
    | str cs => cases hx with
      | ch c => exact ⟨_, rfl, .str _⟩
  · simp only [h, if_false] at hxs ⊢
    cases hxs with
    | vec hs => exact ⟨_, rfl, .vec (.cons hx hs)⟩

theorem AllTy.snoc {defs : Nat → Ty} {t : Ty} {x : TVal} (hx : HasTy defs x t) :
    ∀ {xs : TValL}, AllTy defs xs t → AllTy defs (xs.snoc x) t
  | .nil, _ => .cons hx .nil
  | .cons v vs, h => by cases h with | cons hv hvs => exact .cons hv (AllTy.snoc hx hvs)

/-- the conversion in repetition_plus_impl.hpp yields the `repetition_result` of the element type -/
theorem plusT_hasTy {defs : Nat → Ty} {t : Ty} {x xs : TVal} (ht : isTup t = false)
    (hx : HasTy defs x t) (hxs : HasTy defs xs (repTy t)) :
    ∃ v, (seqVal t (repTy t) x xs).bind (plusT t) = some v ∧ HasTy defs v (repTy t) := by
  by_cases hu : t = .unit
  · subst hu
    have : repTy .unit = .vec .unit := by simp [repTy]
    rw [this] at hxs ⊢
    cases hxs with
    | vec hs => exact ⟨_, by simp [seqVal, plusT], .vec (hs.snoc .unit)⟩
  · have hr : repTy t ≠ .unit := by unfold repTy; split <;> simp
    obtain ⟨v, hv1, hv2⟩ := repCons_hasTy hx hxs
    refine ⟨v, ?_, hv2⟩
    have e1 : toTupV t x = some (.cons x .nil) := by
      cases t <;> simp [isTup] at ht <;> simp [toTupV]
    have e2 : toTupV (repTy t) xs = some (.cons xs .nil) := by
      unfold repTy; split <;> simp [toTupV]
    simp [seqVal, hu, hr, e1, e2, TValL.append, plusT, hv1]

/-! ## fuel -/

theorem mapCons_mono {h h' : Val → Option TVal} (hh : ∀ x y, h x = some y → h' x = some y) :
    ∀ {v : Val} {l : TValL}, mapCons h v = some l → mapCons h' v = some l := by
  intro v
  induction v with
  | nil => intro l e; simpa [mapCons] using e
  | cons x xs _ ih2 =>
    intro l e
    simp only [mapCons] at e ⊢
    cases hx : h x with
    | none => simp [hx] at e
    | some y =>
      cases hxs : mapCons h xs with
      | none => simp [hx, hxs] at e
      | some ys => simp only [hx, hxs] at e; simp [hh x y hx, ih2 hxs, e]
  | _ => intro l e; simp [mapCons] at e

/-- more fuel never changes the typed value -/
theorem flat_mono (E : TEnv) (g : G) : ∀ {n n' : Nat} {p : P} {v : Val} {tv : TVal},
    flat E g n p v = some tv → n ≤ n' → flat E g n' p v = some tv := by
  intro n
  induction n with
  | zero => intro n' p v tv h; simp [flat] at h
  | succ n ih =>
    intro n' p v tv h hle
    obtain ⟨m, rfl⟩ : ∃ m, n' = m + 1 := ⟨n' - 1, by omega⟩
    have hm : n ≤ m := by omega
    have ih' : ∀ {p v tv}, flat E g n p v = some tv → flat E g m p v = some tv := fun h => ih h hm
    cases p with
    | seq a b =>
      cases v <;> simp only [flat] at h ⊢ <;> try (simp at h; done)
      split at h
      next ta tb x y e1 e2 e3 e4 => simp only [e1, e2, ih' e3, ih' e4]; exact h
      next => simp at h
    | alt a b =>
      cases v <;> simp only [flat] at h ⊢ <;> try (simp at h; done)
      · split at h
        next ta tb x e1 e2 e3 => simp only [e1, e2, ih' e3]; exact h
        next => simp at h
      · split at h
        next ta tb x e1 e2 e3 => simp only [e1, e2, ih' e3]; exact h
        next => simp at h
    | rep a =>
      cases v <;> simp only [flat] at h ⊢ <;> try (simp at h; done)
      · exact h
      · split at h
        next x xs e1 e2 => simp only [ih' e1, ih' e2]; exact h
        next => simp at h
    | opt a =>
      cases v <;> simp only [flat] at h ⊢ <;> try (simp at h; done)
      · exact h
      · rename_i w
        cases ha : flat E g n a w with
        | none => simp [ha] at h
        | some x => simp only [ha] at h; simp only [ih' ha]; exact h
    | fatal a => simp only [flat] at h ⊢; exact ih' h
    | lexeme a => simp only [flat] at h ⊢; exact ih' h
    | named a => simp only [flat] at h ⊢; exact ih' h
    | ref i => simp only [flat] at h ⊢; exact ih' h
    | map mm a =>
      cases mm with
      | const c => simp only [flat] at h ⊢; exact h
      | construct k =>
        cases v <;> simp only [flat] at h ⊢ <;> try (simp at h; done)
        rename_i k' w
        by_cases hk : k' = k
        · simp only [hk, if_true] at h ⊢
          cases ha : flat E g n a w with
          | none => simp [ha] at h
          | some x => simp only [ha] at h; simp only [ih' ha]; exact h
        · simp [hk] at h
      | asStruct k =>
        cases v <;> simp only [flat] at h ⊢ <;> try (simp at h; done)
        rename_i k' w
        by_cases hk : k' = k
        · simp only [hk, if_true] at h ⊢
          cases ha : flat E g n a w with
          | none => simp [ha] at h
          | some x => simp only [ha] at h; simp only [ih' ha]; exact h
        · simp [hk] at h
    | plus a =>
      cases v <;> simp only [flat] at h ⊢ <;> try (simp at h; done)
      split at h
      next ta x xs e1 e2 e3 => simp only [e1, ih' e2, ih' e3]; exact h
      next => simp at h
    | sep a s =>
      simp only [flat] at h ⊢
      cases hl : mapCons (flat E g n a) v with
      | none => simp [hl] at h
      | some l => simp only [hl] at h; simp only [mapCons_mono (fun x y hxy => ih' hxy) hl]; exact h
    | list o a s c =>
      simp only [flat] at h ⊢
      cases hl : mapCons (flat E g n a) v with
      | none => simp [hl] at h
      | some l => simp only [hl] at h; simp only [mapCons_mono (fun x y hxy => ih' hxy) hl]; exact h
    | _ => simp only [flat] at h ⊢; exact h

end Fcppt.C02
