import FcpptProofs.C02.Mono
/-!
# C02 — the interpreter is sound and complete for the documented big-step semantics
-/
set_option linter.unusedSimpArgs false
namespace Fcppt.C02

attribute [grind intro] SkDerives

theorem skip_sound {f : Nat} {sk : Sk} {inp : List Nat} {r : SkRes}
    (h : S.skip f sk inp = some r) : SkDerives sk inp r := by
  induction f generalizing sk inp r with
  | zero => simp [S.skip] at h
  | succ f ih =>
    cases sk with
    | eps => simp only [S.skip] at h; grind
    | cset cs => simp only [S.skip] at h; grind
    | lit d => simp only [S.skip] at h; grind
    | rep a => simp only [S.skip] at h; grind
    | seq a b => simp only [S.skip] at h; grind

theorem strLoop_spec (cs inp : List Nat) :
    (∃ r, inp = cs ++ r ∧ S.strLoop cs inp = .ok .unit r) ∨ (¬ cs <+: inp ∧ S.strLoop cs inp = .err false) := by
  induction cs generalizing inp with
  | nil => left; exact ⟨inp, rfl, rfl⟩
  | cons e es ih =>
    cases inp with
    | nil => right; simp [S.strLoop]
    | cons c r =>
      by_cases hce : c = e
      · subst hce
        rcases ih r with ⟨r', h1, h2⟩ | ⟨h1, h2⟩
        · left; exact ⟨r', by simp [h1], by simp [S.strLoop, h2]⟩
        · right; refine ⟨?_, by simp [S.strLoop, h2]⟩
          intro hp; exact h1 (by simpa using hp)
      · right; refine ⟨?_, by simp [S.strLoop, hce]⟩
        intro hp
        have := List.cons_prefix_cons.mp hp
        exact hce this.1.symm

theorem sugar_eq (p : P) (y : Res) : S.sugar p (some y) = some (postRes p y) := by
  cases y with
  | ok v r => simp only [S.sugar, postRes]; cases post p v <;> rfl
  | err ft => simp [S.sugar, postRes]

attribute [grind intro] Derives

theorem parse_sound {g : G} {f : Nat} {p : P} {sk : Sk} {inp : List Nat} {r : Res}
    (h : S.parse g f p sk inp = some r) : Derives g p sk inp r := by
  induction f generalizing p sk inp r with
  | zero => simp [S.parse] at h
  | succ f ih =>
    have hsk : ∀ {sk inp r}, S.skip f sk inp = some r → SkDerives sk inp r := skip_sound
    have hs : ∀ q, IsSugar q → S.sugar q (S.parse g f (desugar q) sk inp) = some r → Derives g q sk inp r := by
      intro q hq hx
      obtain ⟨y, hy⟩ := sugar_some hx
      rw [hy, sugar_eq] at hx
      cases hx
      exact .sugar hq (ih hy)
    cases p with
    | eps => simp only [S.parse] at h; grind
    | fail => simp only [S.parse] at h; grind
    | any => simp only [S.parse] at h; grind
    | lit d => simp only [S.parse] at h; grind
    | cset cs => simp only [S.parse] at h; grind
    | compl cs => simp only [S.parse] at h; grind
    | str cs =>
      simp only [S.parse, Option.some.injEq] at h
      rcases strLoop_spec cs inp with ⟨r', h1, h2⟩ | ⟨h1, h2⟩
      · rw [h2] at h; subst h; subst h1; exact .strOk sk cs r'
      · rw [h2] at h; subst h; exact .strNo sk cs inp h1
    | seq a b => simp only [S.parse] at h; grind
    | alt a b => simp only [S.parse] at h; grind
    | rep a => simp only [S.parse] at h; grind
    | opt a => simp only [S.parse] at h; grind
    | not a => simp only [S.parse] at h; grind
    | fatal a => simp only [S.parse] at h; grind
    | lexeme a => simp only [S.parse] at h; exact .lexeme (ih h)
    | conv k a => simp only [S.parse] at h; grind
    | convIf k a => simp only [S.parse] at h; grind
    | ignore a => simp only [S.parse] at h; grind
    | named a => simp only [S.parse] at h; grind
    | ref i => simp only [S.parse] at h; exact .ref (ih h)
    | map m a => simp only [S.parse] at h; grind
    | plus a => simp only [S.parse] at h; exact hs _ trivial h
    | sep a b => simp only [S.parse] at h; exact hs _ trivial h
    | list o a b c => simp only [S.parse] at h; exact hs _ trivial h
    | uint m => simp only [S.parse] at h; exact hs _ trivial h
    | int m => simp only [S.parse] at h; exact hs _ trivial h
    | float => simp only [S.parse] at h; exact hs _ trivial h

theorem skip_complete {sk : Sk} {inp : List Nat} {r : SkRes} (h : SkDerives sk inp r) :
    ∃ f, S.skip f sk inp = some r := by
  induction h with
  | eps => exact ⟨1, by simp [S.skip]⟩
  | csetEof => exact ⟨1, by simp [S.skip]⟩
  | csetOk _ _ _ h => exact ⟨1, by simp only [S.skip, h] <;> simp⟩
  | csetNo _ _ _ h => exact ⟨1, by simp only [S.skip, h] <;> simp⟩
  | litEof => exact ⟨1, by simp [S.skip]⟩
  | litOk => exact ⟨1, by simp [S.skip]⟩
  | litNo _ _ _ h => exact ⟨1, by simp [S.skip, h]⟩
  | repStop _ ih => obtain ⟨f1, e1⟩ := ih; exact ⟨f1 + 1, by simp [S.skip, e1]⟩
  | repFatal _ ih => obtain ⟨f1, e1⟩ := ih; exact ⟨f1 + 1, by simp [S.skip, e1]⟩
  | repMore _ _ ih1 ih2 =>
    obtain ⟨f1, e1⟩ := ih1; obtain ⟨f2, e2⟩ := ih2
    refine ⟨f1 + f2 + 1, ?_⟩
    have e1 := skip_mono (f' := f1 + f2) (by omega) e1
    have e2 := skip_mono (f' := f1 + f2) (by omega) e2
    simp [S.skip, e1, e2]
  | seqErr _ ih => obtain ⟨f1, e1⟩ := ih; exact ⟨f1 + 1, by simp [S.skip, e1]⟩
  | seqOk _ _ ih1 ih2 =>
    obtain ⟨f1, e1⟩ := ih1; obtain ⟨f2, e2⟩ := ih2
    refine ⟨f1 + f2 + 1, ?_⟩
    have e1 := skip_mono (f' := f1 + f2) (by omega) e1
    have e2 := skip_mono (f' := f1 + f2) (by omega) e2
    simp [S.skip, e1, e2]

theorem strLoop_append (cs r : List Nat) : S.strLoop cs (cs ++ r) = .ok .unit r := by
  induction cs with
  | nil => rfl
  | cons e es ih => simp [S.strLoop, ih]

theorem strLoop_no {cs inp : List Nat} (h : ¬ cs <+: inp) : S.strLoop cs inp = .err false := by
  rcases strLoop_spec cs inp with ⟨r, h1, _⟩ | ⟨_, h2⟩
  · exact absurd ⟨r, h1.symm⟩ h
  · exact h2

theorem parse_complete {g : G} {p : P} {sk : Sk} {inp : List Nat} {r : Res} (h : Derives g p sk inp r) :
    ∃ f, S.parse g f p sk inp = some r := by
  induction h with
  | eps => exact ⟨1, by simp only [S.parse, *] <;> simp⟩
  | fail => exact ⟨1, by simp only [S.parse, *] <;> simp⟩
  | anyEof => exact ⟨1, by simp only [S.parse, *] <;> simp⟩
  | anyOk => exact ⟨1, by simp only [S.parse, *] <;> simp⟩
  | litEof => exact ⟨1, by simp only [S.parse, *] <;> simp⟩
  | litOk => exact ⟨1, by simp only [S.parse, *] <;> simp⟩
  | litNo => exact ⟨1, by simp only [S.parse, *] <;> simp⟩
  | csetEof => exact ⟨1, by simp only [S.parse, *] <;> simp⟩
  | csetOk => exact ⟨1, by simp only [S.parse, *] <;> simp⟩
  | csetNo => exact ⟨1, by simp only [S.parse, *] <;> simp⟩
  | complEof => exact ⟨1, by simp only [S.parse, *] <;> simp⟩
  | complOk => exact ⟨1, by simp only [S.parse, *] <;> simp⟩
  | complNo => exact ⟨1, by simp only [S.parse, *] <;> simp⟩
  | strOk sk cs r => exact ⟨1, by simp [S.parse, strLoop_append]⟩
  | strNo sk cs inp hn => exact ⟨1, by simp [S.parse, strLoop_no hn]⟩
  | lexeme _ ih => obtain ⟨f1, e1⟩ := ih; exact ⟨f1 + 1, by simp only [S.parse, e1]⟩
  | ref _ ih => obtain ⟨f1, e1⟩ := ih; exact ⟨f1 + 1, by simp only [S.parse, e1]⟩
  | seqErrL h0 ih0 =>
    obtain ⟨f0, e0⟩ := ih0
    refine ⟨f0 + 1, ?_⟩
    have e0 := parse_mono (f' := f0) (by omega) e0
    simp [S.parse, e0]
  | seqErrS h0 h1 ih0 =>
    obtain ⟨f0, e0⟩ := ih0
    obtain ⟨f1, e1⟩ := skip_complete h1
    refine ⟨f0 + f1 + 1, ?_⟩
    have e0 := parse_mono (f' := f0 + f1) (by omega) e0
    have e1 := skip_mono (f' := f0 + f1) (by omega) e1
    simp [S.parse, e0, e1]
  | seqErrR h0 h1 h2 ih0 ih2 =>
    obtain ⟨f0, e0⟩ := ih0
    obtain ⟨f1, e1⟩ := skip_complete h1
    obtain ⟨f2, e2⟩ := ih2
    refine ⟨f0 + f1 + f2 + 1, ?_⟩
    have e0 := parse_mono (f' := f0 + f1 + f2) (by omega) e0
    have e1 := skip_mono (f' := f0 + f1 + f2) (by omega) e1
    have e2 := parse_mono (f' := f0 + f1 + f2) (by omega) e2
    simp [S.parse, e0, e1, e2]
  | seqOk h0 h1 h2 ih0 ih2 =>
    obtain ⟨f0, e0⟩ := ih0
    obtain ⟨f1, e1⟩ := skip_complete h1
    obtain ⟨f2, e2⟩ := ih2
    refine ⟨f0 + f1 + f2 + 1, ?_⟩
    have e0 := parse_mono (f' := f0 + f1 + f2) (by omega) e0
    have e1 := skip_mono (f' := f0 + f1 + f2) (by omega) e1
    have e2 := parse_mono (f' := f0 + f1 + f2) (by omega) e2
    simp [S.parse, e0, e1, e2]
  | altL h0 ih0 =>
    obtain ⟨f0, e0⟩ := ih0
    refine ⟨f0 + 1, ?_⟩
    have e0 := parse_mono (f' := f0) (by omega) e0
    simp [S.parse, e0]
  | altFatal h0 ih0 =>
    obtain ⟨f0, e0⟩ := ih0
    refine ⟨f0 + 1, ?_⟩
    have e0 := parse_mono (f' := f0) (by omega) e0
    simp [S.parse, e0]
  | altR h0 h1 ih0 ih1 =>
    obtain ⟨f0, e0⟩ := ih0
    obtain ⟨f1, e1⟩ := ih1
    refine ⟨f0 + f1 + 1, ?_⟩
    have e0 := parse_mono (f' := f0 + f1) (by omega) e0
    have e1 := parse_mono (f' := f0 + f1) (by omega) e1
    simp [S.parse, e0, e1]
  | altErr h0 h1 ih0 ih1 =>
    obtain ⟨f0, e0⟩ := ih0
    obtain ⟨f1, e1⟩ := ih1
    refine ⟨f0 + f1 + 1, ?_⟩
    have e0 := parse_mono (f' := f0 + f1) (by omega) e0
    have e1 := parse_mono (f' := f0 + f1) (by omega) e1
    simp [S.parse, e0, e1]
  | repStop h0 ih0 =>
    obtain ⟨f0, e0⟩ := ih0
    refine ⟨f0 + 1, ?_⟩
    have e0 := parse_mono (f' := f0) (by omega) e0
    simp [S.parse, e0]
  | repStopS h0 h1 ih0 =>
    obtain ⟨f0, e0⟩ := ih0
    obtain ⟨f1, e1⟩ := skip_complete h1
    refine ⟨f0 + f1 + 1, ?_⟩
    have e0 := parse_mono (f' := f0 + f1) (by omega) e0
    have e1 := skip_mono (f' := f0 + f1) (by omega) e1
    simp [S.parse, e0, e1]
  | repFatal h0 ih0 =>
    obtain ⟨f0, e0⟩ := ih0
    refine ⟨f0 + 1, ?_⟩
    have e0 := parse_mono (f' := f0) (by omega) e0
    simp [S.parse, e0]
  | repFatalS h0 h1 ih0 =>
    obtain ⟨f0, e0⟩ := ih0
    obtain ⟨f1, e1⟩ := skip_complete h1
    refine ⟨f0 + f1 + 1, ?_⟩
    have e0 := parse_mono (f' := f0 + f1) (by omega) e0
    have e1 := skip_mono (f' := f0 + f1) (by omega) e1
    simp [S.parse, e0, e1]
  | repMore h0 h1 h2 ih0 ih2 =>
    obtain ⟨f0, e0⟩ := ih0
    obtain ⟨f1, e1⟩ := skip_complete h1
    obtain ⟨f2, e2⟩ := ih2
    refine ⟨f0 + f1 + f2 + 1, ?_⟩
    have e0 := parse_mono (f' := f0 + f1 + f2) (by omega) e0
    have e1 := skip_mono (f' := f0 + f1 + f2) (by omega) e1
    have e2 := parse_mono (f' := f0 + f1 + f2) (by omega) e2
    simp [S.parse, e0, e1, e2]
  | repMoreErr h0 h1 h2 ih0 ih2 =>
    obtain ⟨f0, e0⟩ := ih0
    obtain ⟨f1, e1⟩ := skip_complete h1
    obtain ⟨f2, e2⟩ := ih2
    refine ⟨f0 + f1 + f2 + 1, ?_⟩
    have e0 := parse_mono (f' := f0 + f1 + f2) (by omega) e0
    have e1 := skip_mono (f' := f0 + f1 + f2) (by omega) e1
    have e2 := parse_mono (f' := f0 + f1 + f2) (by omega) e2
    simp [S.parse, e0, e1, e2]
  | optSome h0 ih0 =>
    obtain ⟨f0, e0⟩ := ih0
    refine ⟨f0 + 1, ?_⟩
    have e0 := parse_mono (f' := f0) (by omega) e0
    simp [S.parse, e0]
  | optNone h0 ih0 =>
    obtain ⟨f0, e0⟩ := ih0
    refine ⟨f0 + 1, ?_⟩
    have e0 := parse_mono (f' := f0) (by omega) e0
    simp [S.parse, e0]
  | optFatal h0 ih0 =>
    obtain ⟨f0, e0⟩ := ih0
    refine ⟨f0 + 1, ?_⟩
    have e0 := parse_mono (f' := f0) (by omega) e0
    simp [S.parse, e0]
  | notOk h0 ih0 =>
    obtain ⟨f0, e0⟩ := ih0
    refine ⟨f0 + 1, ?_⟩
    have e0 := parse_mono (f' := f0) (by omega) e0
    simp [S.parse, e0]
  | notNo h0 ih0 =>
    obtain ⟨f0, e0⟩ := ih0
    refine ⟨f0 + 1, ?_⟩
    have e0 := parse_mono (f' := f0) (by omega) e0
    simp [S.parse, e0]
  | fatalOk h0 ih0 =>
    obtain ⟨f0, e0⟩ := ih0
    refine ⟨f0 + 1, ?_⟩
    have e0 := parse_mono (f' := f0) (by omega) e0
    simp [S.parse, e0]
  | fatalErr h0 ih0 =>
    obtain ⟨f0, e0⟩ := ih0
    refine ⟨f0 + 1, ?_⟩
    have e0 := parse_mono (f' := f0) (by omega) e0
    simp [S.parse, e0]
  | convOk h0 ih0 =>
    obtain ⟨f0, e0⟩ := ih0
    refine ⟨f0 + 1, ?_⟩
    have e0 := parse_mono (f' := f0) (by omega) e0
    simp [S.parse, e0]
  | convErr h0 ih0 =>
    obtain ⟨f0, e0⟩ := ih0
    refine ⟨f0 + 1, ?_⟩
    have e0 := parse_mono (f' := f0) (by omega) e0
    simp [S.parse, e0]
  | convIfOk h0 h1 ih0 =>
    obtain ⟨f0, e0⟩ := ih0
    refine ⟨f0 + 1, ?_⟩
    have e0 := parse_mono (f' := f0) (by omega) e0
    simp [S.parse, e0, h1]
  | convIfRej h0 h1 ih0 =>
    obtain ⟨f0, e0⟩ := ih0
    refine ⟨f0 + 1, ?_⟩
    have e0 := parse_mono (f' := f0) (by omega) e0
    simp [S.parse, e0, h1]
  | convIfErr h0 ih0 =>
    obtain ⟨f0, e0⟩ := ih0
    refine ⟨f0 + 1, ?_⟩
    have e0 := parse_mono (f' := f0) (by omega) e0
    simp [S.parse, e0]
  | ignoreOk h0 ih0 =>
    obtain ⟨f0, e0⟩ := ih0
    refine ⟨f0 + 1, ?_⟩
    have e0 := parse_mono (f' := f0) (by omega) e0
    simp [S.parse, e0]
  | ignoreErr h0 ih0 =>
    obtain ⟨f0, e0⟩ := ih0
    refine ⟨f0 + 1, ?_⟩
    have e0 := parse_mono (f' := f0) (by omega) e0
    simp [S.parse, e0]
  | namedOk h0 ih0 =>
    obtain ⟨f0, e0⟩ := ih0
    refine ⟨f0 + 1, ?_⟩
    have e0 := parse_mono (f' := f0) (by omega) e0
    simp [S.parse, e0]
  | mapOk h0 ih0 =>
    obtain ⟨f0, e0⟩ := ih0
    refine ⟨f0 + 1, ?_⟩
    have e0 := parse_mono (f' := f0) (by omega) e0
    simp [S.parse, e0]
  | mapErr h0 ih0 =>
    obtain ⟨f0, e0⟩ := ih0
    refine ⟨f0 + 1, ?_⟩
    have e0 := parse_mono (f' := f0) (by omega) e0
    simp [S.parse, e0]
  | namedErr h0 ih0 =>
    obtain ⟨f0, e0⟩ := ih0
    refine ⟨f0 + 1, ?_⟩
    have e0 := parse_mono (f' := f0) (by omega) e0
    simp [S.parse, e0]
  | @sugar p sk inp x hs _ ih =>
    obtain ⟨f1, e1⟩ := ih
    cases p <;> first | (simp [IsSugar] at hs; done) | (refine ⟨f1 + 1, ?_⟩; simp only [S.parse, e1, sugar_eq])

end Fcppt.C02
