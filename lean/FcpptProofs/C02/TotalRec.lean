import FcpptProofs.C02.Total
/-!
# C02 — termination for recursive grammars: every parser that is well-formed w.r.t. a ranking of the rules
(no left recursion, no repetition of a nullable body) has an outcome on every input.

Induction: lexicographic on (length of the remaining input, rank bound `k`, size of the parser).
-/
set_option linter.unusedSimpArgs false
set_option linter.unusedVariables false
namespace Fcppt.C02

theorem wfr_mono {rk : Nat → Nat} {K : Nat} : ∀ (p : P) {k k' : Nat}, k ≤ k' → WFr rk K p k → WFr rk K p k' := by
  intro p
  induction p with
  | ref j => intro k k' h hw; simp only [WFr] at *; omega
  | seq a b iha ihb =>
    intro k k' h hw
    refine ⟨iha h hw.1, ?_⟩
    have := hw.2
    by_cases hn : nullable a = true
    · simp only [hn, if_true] at *; exact ihb h this
    · simp only [hn] at *; exact this
  | alt a b iha ihb => intro k k' h hw; exact ⟨iha h hw.1, ihb h hw.2⟩
  | rep a iha => intro k k' h hw; exact ⟨iha h hw.1, hw.2⟩
  | plus a iha => intro k k' h hw; exact ⟨iha h hw.1, hw.2⟩
  | sep a s iha ihs => intro k k' h hw; exact ⟨iha h hw.1, ihs h hw.2.1, hw.2.2⟩
  | list o a s c iho iha ihs ihc =>
    intro k k' h hw; exact ⟨iho h hw.1, iha h hw.2.1, ihs h hw.2.2.1, ihc h hw.2.2.2.1, hw.2.2.2.2⟩
  | opt a ih => intro k k' h hw; exact ih h hw
  | not a ih => intro k k' h hw; exact ih h hw
  | fatal a ih => intro k k' h hw; exact ih h hw
  | lexeme a ih => intro k k' h hw; exact ih h hw
  | conv _ a ih => intro k k' h hw; exact ih h hw
  | convIf _ a ih => intro k k' h hw; exact ih h hw
  | ignore a ih => intro k k' h hw; exact ih h hw
  | named a ih => intro k k' h hw; exact ih h hw
  | map _ a ih => intro k k' h hw; exact ih h hw
  | _ => intro k k' h hw; trivial

theorem wfr_ite {rk : Nat → Nat} {K : Nat} (p : P) {k : Nat} (b : Bool) (hk : k ≤ K) (hw : WFr rk K p k) :
    WFr rk K p (if b then k else K) := by
  cases b
  · exact wfr_mono p hk hw
  · exact hw

theorem wfr_desugar {rk : Nat → Nat} {K k : Nat} {p : P} (hs : IsSugar p) (hk : k ≤ K) (hw : WFr rk K p k) :
    WFr rk K (desugar p) k := by
  cases p <;> simp [IsSugar] at hs
  case plus a =>
    simp only [desugar, WFr] at *
    refine ⟨hw.1, ?_, hw.2⟩
    simp only [hw.2]; exact wfr_mono a hk hw.1
  case sep a s =>
    simp only [desugar, WFr, nullable] at *
    obtain ⟨ha, hss, hn⟩ := hw
    refine ⟨ha, ⟨?_, ?_⟩, by simpa using hn⟩
    · exact wfr_ite s _ hk hss
    · have h1 : (if nullable a = true then k else K) ≤ K := by split <;> omega
      have h2 : WFr rk K a (if nullable a = true then k else K) := wfr_ite a _ hk ha
      exact wfr_ite a _ h1 h2
  case list o a s c =>
    simp only [desugar, WFr, nullable] at *
    obtain ⟨ho, ha, hss, hc, hn⟩ := hw
    have h1 : (if nullable o = true then k else K) ≤ K := by split <;> omega
    have ha1 := wfr_ite (rk := rk) a (nullable o) hk ha
    have hs1 := wfr_ite (rk := rk) s (nullable o) hk hss
    have hc1 := wfr_ite (rk := rk) c (nullable o) hk hc
    refine ⟨ho, hc1, ⟨ha1, hs1, by simpa using hn⟩, ?_⟩
    simpa using hc1
  case uint m => simp [desugar, WFr, nullable, digits]
  case int m => simp [desugar, WFr, nullable, digits]
  case float => simp [desugar, WFr, nullable, digits]

/-- the claim at one input length, one rank bound and one size bound -/
def TotAt (g : G) (rk : Nat → Nat) (K : Nat) (n k m : Nat) : Prop :=
  ∀ p, size p ≤ m → WFr rk K p k → ∀ sk, SkWF sk → ∀ inp : List Nat, inp.length = n → ∃ x, Derives g p sk inp x

theorem parse_total_rec (g : G) (rk : Nat → Nat) (K : Nat) (hg : GWF g rk K) :
    ∀ n k, k ≤ K → ∀ m, TotAt g rk K n k m := by
  intro n
  induction n using Nat.strongRecOn with
  | ind n ihn =>
  intro k
  induction k using Nat.strongRecOn with
  | ind k ihk =>
  intro hk m
  induction m with
  | zero => intro p hp; cases p <;> simp [size] at hp
  | succ m ih =>
    intro p hp hw sk hsk inp hlen
    -- shorter input: any rank bound ≤ K, any parser
    have shorter : ∀ (q : P) (k' : Nat), k' ≤ K → WFr rk K q k' → ∀ sk', SkWF sk' → ∀ inp' : List Nat,
        inp'.length < n → ∃ x, Derives g q sk' inp' x := by
      intro q k' hk' hq sk' hsk' inp' hl
      exact ihn inp'.length hl k' hk' (size q) q (Nat.le_refl _) hq sk' hsk' inp' rfl
    -- not longer input, smaller parser, same rank bound
    have sub : ∀ (q : P), size q ≤ m → WFr rk K q k → ∀ sk', SkWF sk' → ∀ inp' : List Nat,
        inp'.length ≤ n → ∃ x, Derives g q sk' inp' x := by
      intro q hq hwq sk' hsk' inp' hl
      by_cases h : inp'.length = n
      · exact ih q hq hwq sk' hsk' inp' h
      · exact shorter q k hk hwq sk' hsk' inp' (by omega)
    have sugarCase : IsSugar p → ∃ x, Derives g p sk inp x := by
      intro hs
      obtain ⟨x, hx⟩ := sub (desugar p) (by have := size_desugar hs; omega) (wfr_desugar hs hk hw) sk hsk inp (by omega)
      exact ⟨_, .sugar hs hx⟩
    cases p with
    | eps => exact ⟨_, .eps sk inp⟩
    | fail => exact ⟨_, .fail sk inp⟩
    | any => cases inp with
      | nil => exact ⟨_, .anyEof sk⟩
      | cons c r => exact ⟨_, .anyOk sk c r⟩
    | lit d => cases inp with
      | nil => exact ⟨_, .litEof sk d⟩
      | cons c r =>
        by_cases h : c = d
        · subst h; exact ⟨_, .litOk sk c r⟩
        · exact ⟨_, .litNo sk d c r h⟩
    | cset cs => cases inp with
      | nil => exact ⟨_, .csetEof sk cs⟩
      | cons c r =>
        cases h : cs.contains c
        · exact ⟨_, .csetNo sk cs c r h⟩
        · exact ⟨_, .csetOk sk cs c r h⟩
    | compl cs => cases inp with
      | nil => exact ⟨_, .complEof sk cs⟩
      | cons c r =>
        cases h : cs.contains c
        · exact ⟨_, .complOk sk cs c r h⟩
        · exact ⟨_, .complNo sk cs c r h⟩
    | str cs =>
      by_cases h : cs <+: inp
      · obtain ⟨r, rfl⟩ := h; exact ⟨_, .strOk sk cs r⟩
      · exact ⟨_, .strNo sk cs inp h⟩
    | seq a b =>
      simp only [size] at hp
      obtain ⟨x, hx⟩ := sub a (by omega) hw.1 sk hsk inp (by omega)
      cases x with
      | err ft => exact ⟨_, .seqErrL hx⟩
      | ok va r1 =>
        have l1 := progress hx va r1 rfl
        obtain ⟨y, hy⟩ := skip_total hsk r1
        cases y with
        | err ft => exact ⟨_, .seqErrS hx hy⟩
        | ok r2 =>
          have l2 := skip_progress hy _ rfl
          have hb := hw.2
          have : ∃ z, Derives g b sk r2 z := by
            by_cases hn : nullable a = true
            · simp only [hn, if_true] at hb
              exact sub b (by omega) hb sk hsk r2 (by omega)
            · have hn' : nullable a = false := by simpa using hn
              simp only [hn'] at hb
              have := l1.2 hn'
              exact shorter b K (Nat.le_refl _) (by simpa using hb) sk hsk r2 (by omega)
          obtain ⟨z, hz⟩ := this
          cases z with
          | err ft => exact ⟨_, .seqErrR hx hy hz⟩
          | ok vb r3 => exact ⟨_, .seqOk hx hy hz⟩
    | alt a b =>
      simp only [size] at hp
      obtain ⟨x, hx⟩ := sub a (by omega) hw.1 sk hsk inp (by omega)
      cases x with
      | ok v r => exact ⟨_, .altL hx⟩
      | err ft =>
        cases ft
        · obtain ⟨z, hz⟩ := sub b (by omega) hw.2 sk hsk inp (by omega)
          cases z with
          | err ft => exact ⟨_, .altErr hx hz⟩
          | ok vb r3 => exact ⟨_, .altR hx hz⟩
        · exact ⟨_, .altFatal hx⟩
    | rep a =>
      simp only [size] at hp
      obtain ⟨x, hx⟩ := sub a (by omega) hw.1 sk hsk inp (by omega)
      cases x with
      | err ft => cases ft
                  · exact ⟨_, .repStop hx⟩
                  · exact ⟨_, .repFatal hx⟩
      | ok v r1 =>
        have l1 := (progress hx v r1 rfl).2 hw.2
        obtain ⟨y, hy⟩ := skip_total hsk r1
        cases y with
        | err ft => cases ft
                    · exact ⟨_, .repStopS hx hy⟩
                    · exact ⟨_, .repFatalS hx hy⟩
        | ok r2 =>
          have l2 := skip_progress hy _ rfl
          obtain ⟨z, hz⟩ := shorter (.rep a) k hk hw sk hsk r2 (by omega)
          cases z with
          | err ft => exact ⟨_, .repMoreErr hx hy hz⟩
          | ok vs r3 => exact ⟨_, .repMore hx hy hz⟩
    | opt a =>
      simp only [size] at hp
      obtain ⟨x, hx⟩ := sub a (by omega) hw sk hsk inp (by omega)
      cases x with
      | ok v r => exact ⟨_, .optSome hx⟩
      | err ft => cases ft
                  · exact ⟨_, .optNone hx⟩
                  · exact ⟨_, .optFatal hx⟩
    | not a =>
      simp only [size] at hp
      obtain ⟨x, hx⟩ := sub a (by omega) hw sk hsk inp (by omega)
      cases x with
      | ok v r => exact ⟨_, .notNo hx⟩
      | err ft => exact ⟨_, .notOk hx⟩
    | fatal a =>
      simp only [size] at hp
      obtain ⟨x, hx⟩ := sub a (by omega) hw sk hsk inp (by omega)
      cases x with
      | ok v r => exact ⟨_, .fatalOk hx⟩
      | err ft => exact ⟨_, .fatalErr hx⟩
    | lexeme a =>
      simp only [size] at hp
      obtain ⟨x, hx⟩ := sub a (by omega) hw .eps trivial inp (by omega)
      exact ⟨_, .lexeme hx⟩
    | conv c a =>
      simp only [size] at hp
      obtain ⟨x, hx⟩ := sub a (by omega) hw sk hsk inp (by omega)
      cases x with
      | ok v r => exact ⟨_, .convOk hx⟩
      | err ft => exact ⟨_, .convErr hx⟩
    | convIf c a =>
      simp only [size] at hp
      obtain ⟨x, hx⟩ := sub a (by omega) hw sk hsk inp (by omega)
      cases x with
      | ok v r =>
        cases hf : g.fnIf c v with
        | ok v' => exact ⟨_, .convIfOk hx hf⟩
        | error ft => exact ⟨_, .convIfRej hx hf⟩
      | err ft => exact ⟨_, .convIfErr hx⟩
    | ignore a =>
      simp only [size] at hp
      obtain ⟨x, hx⟩ := sub a (by omega) hw sk hsk inp (by omega)
      cases x with
      | ok v r => exact ⟨_, .ignoreOk hx⟩
      | err ft => exact ⟨_, .ignoreErr hx⟩
    | named a =>
      simp only [size] at hp
      obtain ⟨x, hx⟩ := sub a (by omega) hw sk hsk inp (by omega)
      cases x with
      | ok v r => exact ⟨_, .namedOk hx⟩
      | err ft => exact ⟨_, .namedErr hx⟩
    | map mm a =>
      simp only [size] at hp
      obtain ⟨x, hx⟩ := sub a (by omega) hw sk hsk inp (by omega)
      cases x with
      | ok v r => exact ⟨_, .mapOk hx⟩
      | err ft => exact ⟨_, .mapErr hx⟩
    | ref i =>
      -- a smaller rank bound, the rule's body of whatever size, the same input
      have hi : rk i < k := hw
      obtain ⟨x, hx⟩ := ihk (rk i) hi (by omega) (size (g.rules i)) (g.rules i) (Nat.le_refl _) (hg i).2 sk hsk inp hlen
      exact ⟨_, .ref hx⟩
    | plus a => exact sugarCase trivial
    | sep a b => exact sugarCase trivial
    | list o a b c => exact sugarCase trivial
    | uint m => exact sugarCase trivial
    | int m => exact sugarCase trivial
    | float => exact sugarCase trivial

theorem parse_total_wf (g : G) (rk : Nat → Nat) (K : Nat) (hg : GWF g rk K) (p : P) (hw : WFr rk K p K)
    (sk : Sk) (hsk : SkWF sk) (inp : List Nat) : ∃ x, Derives g p sk inp x :=
  parse_total_rec g rk K hg inp.length K (Nat.le_refl _) (size p) p (Nat.le_refl _) hw sk hsk inp rfl

end Fcppt.C02
