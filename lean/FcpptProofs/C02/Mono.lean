import FcpptModel.Spec.C02
/-!
# C02 — more fuel never changes a result
-/
set_option linter.unusedSimpArgs false
namespace Fcppt.C02

theorem skip_mono {f f' : Nat} {sk : Sk} {inp : List Nat} {r : SkRes}
    (hle : f ≤ f') (h : S.skip f sk inp = some r) : S.skip f' sk inp = some r := by
  induction f generalizing f' sk inp r with
  | zero => simp [S.skip] at h
  | succ f ih =>
    obtain ⟨f', rfl⟩ : ∃ k, f' = k + 1 := ⟨f' - 1, by omega⟩
    have hle' : f ≤ f' := by omega
    cases sk with
    | eps => simpa [S.skip] using h
    | cset cs => simpa [S.skip] using h
    | lit d => simpa [S.skip] using h
    | rep a =>
      simp only [S.skip] at h ⊢
      grind
    | seq a b =>
      simp only [S.skip] at h ⊢
      grind

theorem sugar_some {p : P} {x : Option Res} {r : Res} (h : S.sugar p x = some r) :
    ∃ y, x = some y := by
  cases x with
  | none => simp [S.sugar] at h
  | some y => exact ⟨y, rfl⟩

theorem parse_mono {g : G} {f f' : Nat} {p : P} {sk : Sk} {inp : List Nat} {r : Res}
    (hle : f ≤ f') (h : S.parse g f p sk inp = some r) : S.parse g f' p sk inp = some r := by
  induction f generalizing f' p sk inp r with
  | zero => simp [S.parse] at h
  | succ f ih =>
    obtain ⟨f', rfl⟩ : ∃ k, f' = k + 1 := ⟨f' - 1, by omega⟩
    have hle' : f ≤ f' := by omega
    have hsk : ∀ {sk inp r}, S.skip f sk inp = some r → S.skip f' sk inp = some r :=
      fun h => skip_mono hle' h
    have hs : ∀ q r, S.sugar q (S.parse g f (desugar q) sk inp) = some r →
        S.sugar q (S.parse g f' (desugar q) sk inp) = some r := by
      intro q r hq
      obtain ⟨y, hy⟩ := sugar_some hq
      rw [ih hle' hy]; rw [hy] at hq; exact hq
    have ih' : ∀ {p sk inp r}, S.parse g f p sk inp = some r → S.parse g f' p sk inp = some r :=
      fun h => ih hle' h
    clear ih hle hle'
    cases p with
    | eps => simpa [S.parse] using h
    | fail => simpa [S.parse] using h
    | any => simpa [S.parse] using h
    | lit d => simpa [S.parse] using h
    | cset cs => simpa [S.parse] using h
    | compl cs => simpa [S.parse] using h
    | str cs => simpa [S.parse] using h
    | seq a b => simp only [S.parse] at h ⊢; grind (splits := 30)
    | alt a b => simp only [S.parse] at h ⊢; grind (splits := 30)
    | rep a => simp only [S.parse] at h ⊢; grind (splits := 30)
    | opt a => simp only [S.parse] at h ⊢; grind (splits := 30)
    | not a => simp only [S.parse] at h ⊢; grind (splits := 30)
    | fatal a => simp only [S.parse] at h ⊢; grind (splits := 30)
    | lexeme a => simp only [S.parse] at h ⊢; exact ih' h
    | conv k a => simp only [S.parse] at h ⊢; grind (splits := 30)
    | convIf k a => simp only [S.parse] at h ⊢; grind (splits := 30)
    | ignore a => simp only [S.parse] at h ⊢; grind (splits := 30)
    | named a => simp only [S.parse] at h ⊢; grind (splits := 30)
    | ref i => simp only [S.parse] at h ⊢; exact ih' h
    | map m a => simp only [S.parse] at h ⊢; grind (splits := 30)
    | plus a => simp only [S.parse] at h ⊢; exact hs _ _ h
    | sep a b => simp only [S.parse] at h ⊢; exact hs _ _ h
    | list o a b c => simp only [S.parse] at h ⊢; exact hs _ _ h
    | uint m => simp only [S.parse] at h ⊢; exact hs _ _ h
    | int m => simp only [S.parse] at h ⊢; exact hs _ _ h
    | float => simp only [S.parse] at h ⊢; exact hs _ _ h

end Fcppt.C02
