import FcpptProofs.C02.Typed
import FcpptProofs.C02.Sound
/-!
# C02 — typed layer, main lemmas

* `Good g p v`: `v` has the shape of a value of `p` (a grammar of the universal values);
* `derives_good`: every success value of the documented semantics is well-shaped (the derived combinators
  `+p`, `separator`, `list`, `uint`, `int_`, `float_` included: their post-processed values);
* `good_flat`: a well-shaped value of a parser that is well-typed in a well-typed grammar flattens, with
  enough fuel, to a typed value that inhabits the parser's result type.
-/
set_option linter.unusedSimpArgs false
set_option linter.unusedVariables false
namespace Fcppt.C02

inductive Good (g : G) : P → Val → Prop where
  | eps : Good g .eps .unit
  | lit (c) : Good g (.lit c) .unit
  | str (cs) : Good g (.str cs) .unit
  | not (a) : Good g (.not a) .unit
  | ignore (a) : Good g (.ignore a) .unit
  | any (c) : Good g .any (.ch c)
  | cset (cs c) : Good g (.cset cs) (.ch c)
  | compl (cs c) : Good g (.compl cs) (.ch c)
  | seq {a b va vb} : Good g a va → Good g b vb → Good g (.seq a b) (.pair va vb)
  | altL {a b v} : Good g a v → Good g (.alt a b) (.inl v)
  | altR {a b v} : Good g b v → Good g (.alt a b) (.inr v)
  | repNil {a} : Good g (.rep a) .nil
  | repCons {a v vs} : Good g a v → Good g (.rep a) vs → Good g (.rep a) (.cons v vs)
  | optNone {a} : Good g (.opt a) .none
  | optSome {a v} : Good g a v → Good g (.opt a) (.some v)
  | fatal {a v} : Good g a v → Good g (.fatal a) v
  | lexeme {a v} : Good g a v → Good g (.lexeme a) v
  | named {a v} : Good g a v → Good g (.named a) v
  | conv {k a} (v) : Good g (.conv k a) v
  | convIf {k a} (v) : Good g (.convIf k a) v
  | ref {i v} : Good g (g.rules i) v → Good g (.ref i) v
  | map {m a v} : Good g a v → Good g (.map m a) (m.apply v)
  | plus {a v vs} : Good g a v → Good g (.rep a) vs → Good g (.plus a) (.cons v vs)
  | sepNil {a s} : Good g (.sep a s) .nil
  | sepCons {a s v vs} : Good g a v → Good g (.sep a s) vs → Good g (.sep a s) (.cons v vs)
  | listNil {o a s c} : Good g (.list o a s c) .nil
  | listCons {o a s c v vs} : Good g a v → Good g (.list o a s c) vs → Good g (.list o a s c) (.cons v vs)
  | uint {m} (n : Nat) : Good g (.uint m) (.int (n : Int))
  | int {m} (i : Int) : Good g (.int m) (.int i)
  | float (b : Nat) : Good g .float (.flt b)

/-- the tail `*(sep >> p)` of a separator, its separators dropped -/
theorem good_sep_tail {g : G} {a s : P} : ∀ (l : Val), Good g (.rep (.seq s a)) l → Good g (.sep a s) (mapSnd l) := by
  intro l
  induction l with
  | nil => intro _; simpa [mapSnd] using Good.sepNil
  | cons h t _ iht =>
    intro hg
    cases hg with
    | repCons h1 h2 =>
      cases h1 with
      | seq hs ha => simpa [mapSnd] using Good.sepCons ha (iht h2)
  | _ => intro hg; cases hg

theorem good_sep_list {g : G} {o a s c : P} : ∀ (l : Val), Good g (.sep a s) l → Good g (.list o a s c) l := by
  intro l
  induction l with
  | nil => intro _; exact .listNil
  | cons h t _ iht => intro hg; cases hg with | sepCons h1 h2 => exact .listCons h1 (iht h2)
  | _ => intro hg; cases hg

theorem post_good {g : G} {p : P} (hs : IsSugar p) {v' v : Val} (hg : Good g (desugar p) v') (hp : post p v' = some v) :
    Good g p v := by
  cases p <;> simp [IsSugar] at hs
  case plus a =>
    simp only [desugar] at hg
    cases hg with
    | seq h1 h2 => simp [post] at hp; subst hp; exact .plus h1 h2
  case sep a s =>
    simp only [desugar] at hg
    cases hg with
    | optNone => simp [post] at hp; subst hp; exact .sepNil
    | optSome h1 =>
      cases h1 with
      | seq h2 h3 => simp [post] at hp; subst hp; exact .sepCons h2 (good_sep_tail _ h3)
  case list o a s c =>
    simp only [desugar] at hg
    cases hg with
    | seq h1 h2 =>
      cases h2 with
      | altL h3 => simp [post] at hp; subst hp; exact .listNil
      | altR h3 =>
        cases h3 with
        | seq h4 h5 => simp [post] at hp; subst hp; exact good_sep_list _ h4
  case uint m =>
    simp only [post] at hp
    split at hp
    · cases hp; exact .uint _
    · cases hp
  case int m =>
    simp only [desugar] at hg
    cases hg with
    | lexeme h1 =>
      cases h1 with
      | seq h2 h3 =>
        simp only [post] at hp
        split at hp
        · cases hp; exact .int _
        · cases hp
  case float =>
    simp only [desugar] at hg
    cases hg with
    | lexeme h1 =>
      cases h1 with
      | seq h2 h3 =>
        cases h2 with
        | seq h4 h5 =>
          cases h4 with
          | seq h6 h7 =>
            simp only [post] at hp
            split at hp
            · cases hp; exact .float _
            · cases hp

/-- every success value of the documented semantics is a well-shaped value of its parser -/
theorem derives_good {g : G} {p : P} {sk : Sk} {inp : List Nat} {x : Res} (h : Derives g p sk inp x) :
    ∀ v r, x = .ok v r → Good g p v := by
  induction h with
  | eps => intro v r hx; cases hx; exact .eps
  | anyOk => intro v r hx; cases hx; exact .any _
  | litOk => intro v r hx; cases hx; exact .lit _
  | csetOk => intro v r hx; cases hx; exact .cset _ _
  | complOk => intro v r hx; cases hx; exact .compl _ _
  | strOk => intro v r hx; cases hx; exact .str _
  | seqOk _ _ _ ih1 ih3 => intro v r hx; cases hx; exact .seq (ih1 _ _ rfl) (ih3 _ _ rfl)
  | altL _ ih => intro v r hx; cases hx; exact .altL (ih _ _ rfl)
  | altR _ _ _ ih => intro v r hx; cases hx; exact .altR (ih _ _ rfl)
  | repStop => intro v r hx; cases hx; exact .repNil
  | repStopS => intro v r hx; cases hx; exact .repNil
  | repMore _ _ _ ih1 ih3 => intro v r hx; cases hx; exact .repCons (ih1 _ _ rfl) (ih3 _ _ rfl)
  | optSome _ ih => intro v r hx; cases hx; exact .optSome (ih _ _ rfl)
  | optNone => intro v r hx; cases hx; exact .optNone
  | notOk => intro v r hx; cases hx; exact .not _
  | fatalOk _ ih => intro v r hx; cases hx; exact .fatal (ih _ _ rfl)
  | lexeme _ ih => intro v r hx; exact .lexeme (ih _ _ hx)
  | convOk => intro v r hx; cases hx; exact .conv _
  | convIfOk => intro v r hx; cases hx; exact .convIf _
  | ignoreOk => intro v r hx; cases hx; exact .ignore _
  | namedOk _ ih => intro v r hx; cases hx; exact .named (ih _ _ rfl)
  | ref _ ih => intro v r hx; exact .ref (ih _ _ hx)
  | mapOk _ ih => intro v r hx; cases hx; exact .map (ih _ _ rfl)
  | @sugar p sk inp y hs _ ih =>
    intro v r hx
    cases y with
    | err ft => simp [postRes] at hx
    | ok v' r' =>
      simp only [postRes] at hx
      cases hp : post p v' with
      | none => simp [hp] at hx
      | some w =>
        simp [hp] at hx
        obtain ⟨rfl, rfl⟩ := hx
        exact post_good hs (ih _ _ rfl) hp
  | _ => intro v r hx; cases hx

theorem constTV_hasTy {defs : Nat → Ty} {c : Val} {tv : TVal} {t : Ty} (h : constTV c = some (tv, t)) : HasTy defs tv t := by
  cases c <;> simp [constTV] at h
  · obtain ⟨rfl, rfl⟩ := h; exact .unit
  · obtain ⟨rfl, rfl⟩ := h; exact .ch _
  · obtain ⟨rfl, rfl⟩ := h; exact .int _
  · obtain ⟨rfl, rfl⟩ := h; exact .str _
  · obtain ⟨cs, _, rfl, rfl⟩ := h; exact .str _

/-- the tail of a `separator` / `list` value: one more element in front of an already flattened vector -/
theorem vec_cons_flat {E : TEnv} {g : G} {a : P} {ta : Ty} {v vs : Val} {n1 n2 : Nat} {x tv2 : TVal}
    (e1 : flat E g n1 a v = some x) (t1 : HasTy E.defs x ta)
    (e2 : (mapCons (flat E g n2 a) vs).map TVal.vec = some tv2) (t2 : HasTy E.defs tv2 (.vec ta)) :
    ∃ tv, (mapCons (flat E g (n1 + n2) a) (.cons v vs)).map TVal.vec = some tv ∧ HasTy E.defs tv (.vec ta) := by
  cases hl : mapCons (flat E g n2 a) vs with
  | none => simp [hl] at e2
  | some xs =>
    simp [hl] at e2; subst e2
    cases t2 with
    | vec hs =>
      have m1 := flat_mono E g e1 (show n1 ≤ n1 + n2 by omega)
      have m2 := mapCons_mono (h' := flat E g (n1 + n2) a)
        (fun x y hxy => flat_mono E g hxy (show n2 ≤ n1 + n2 by omega)) hl
      exact ⟨_, by simp [mapCons, m1, m2], .vec (.cons t1 hs)⟩

/-- a well-shaped value of a well-typed parser flattens to an inhabitant of the parser's result type -/
theorem good_flat (E : TEnv) (g : G) (hwt : WT E g) {p : P} {v : Val} (h : Good g p v) :
    ∀ τ, typeOf E p = some τ → ∃ n tv, flat E g n p v = some tv ∧ HasTy E.defs tv τ := by
  induction h with
  | eps => intro τ ht; simp [typeOf] at ht; subst ht; exact ⟨1, .unit, by simp [flat], .unit⟩
  | lit c => intro τ ht; simp [typeOf] at ht; subst ht; exact ⟨1, .unit, by simp [flat], .unit⟩
  | str cs => intro τ ht; simp [typeOf] at ht; subst ht; exact ⟨1, .unit, by simp [flat], .unit⟩
  | not a =>
    intro τ ht
    cases hta : typeOf E a <;> simp only [typeOf, hta] at ht <;> try (simp at ht; done)
    rename_i ta
    cases ta <;> simp at ht
    subst ht; exact ⟨1, .unit, by simp [flat], .unit⟩
  | ignore a =>
    intro τ ht
    cases hta : typeOf E a <;> simp [typeOf, hta] at ht
    subst ht; exact ⟨1, .unit, by simp [flat], .unit⟩
  | any c => intro τ ht; simp [typeOf] at ht; subst ht; exact ⟨1, .ch c, by simp [flat], .ch c⟩
  | cset cs c => intro τ ht; simp [typeOf] at ht; subst ht; exact ⟨1, .ch c, by simp [flat], .ch c⟩
  | compl cs c => intro τ ht; simp [typeOf] at ht; subst ht; exact ⟨1, .ch c, by simp [flat], .ch c⟩
  | @seq a b va vb _ _ ih1 ih2 =>
    intro τ ht
    cases hta : typeOf E a <;> cases htb : typeOf E b <;> simp [typeOf, hta, htb] at ht
    rename_i ta tb
    subst ht
    obtain ⟨n1, x, e1, t1⟩ := ih1 ta hta
    obtain ⟨n2, y, e2, t2⟩ := ih2 tb htb
    obtain ⟨w, ew, tw⟩ := seqVal_hasTy t1 t2
    have m1 := flat_mono E g e1 (show n1 ≤ n1 + n2 by omega)
    have m2 := flat_mono E g e2 (show n2 ≤ n1 + n2 by omega)
    exact ⟨n1 + n2 + 1, w, by simp [flat, hta, htb, m1, m2, ew], tw⟩
  | @altL a b v _ ih =>
    intro τ ht
    cases hta : typeOf E a <;> cases htb : typeOf E b <;> simp only [typeOf, hta, htb] at ht <;> try (simp at ht; done)
    rename_i ta tb
    obtain ⟨n1, x, e1, t1⟩ := ih ta hta
    obtain ⟨w, ew, tw⟩ := altInj_hasTy (arg := ta) (.inl rfl) ht t1
    exact ⟨n1 + 1, w, by simp [flat, hta, htb, e1, ew], tw⟩
  | @altR a b v _ ih =>
    intro τ ht
    cases hta : typeOf E a <;> cases htb : typeOf E b <;> simp only [typeOf, hta, htb] at ht <;> try (simp at ht; done)
    rename_i ta tb
    obtain ⟨n1, x, e1, t1⟩ := ih tb htb
    obtain ⟨w, ew, tw⟩ := altInj_hasTy (arg := tb) (.inr rfl) ht t1
    exact ⟨n1 + 1, w, by simp [flat, hta, htb, e1, ew], tw⟩
  | @repNil a =>
    intro τ ht
    cases hta : typeOf E a <;> simp [typeOf, hta] at ht
    rename_i ta
    subst ht
    exact ⟨1, repNil ta, by simp [flat, hta], repNil_hasTy ta⟩
  | @repCons a v vs _ _ ih1 ih2 =>
    intro τ ht
    cases hta : typeOf E a <;> simp [typeOf, hta] at ht
    rename_i ta
    subst ht
    obtain ⟨n1, x, e1, t1⟩ := ih1 ta hta
    obtain ⟨n2, xs, e2, t2⟩ := ih2 (repTy ta) (by simp [typeOf, hta])
    obtain ⟨w, ew, tw⟩ := repCons_hasTy t1 t2
    have m1 := flat_mono E g e1 (show n1 ≤ n1 + n2 by omega)
    have m2 := flat_mono E g e2 (show n2 ≤ n1 + n2 by omega)
    exact ⟨n1 + n2 + 1, w, by simp [flat, m1, m2, ew], tw⟩
  | @optNone a =>
    intro τ ht
    cases hta : typeOf E a <;> simp [typeOf, hta] at ht
    subst ht
    exact ⟨1, .none, by simp [flat], .none⟩
  | @optSome a v _ ih =>
    intro τ ht
    cases hta : typeOf E a <;> simp [typeOf, hta] at ht
    rename_i ta
    subst ht
    obtain ⟨n1, x, e1, t1⟩ := ih ta hta
    exact ⟨n1 + 1, .some x, by simp [flat, e1], .some t1⟩
  | fatal _ ih =>
    intro τ ht
    obtain ⟨n1, x, e1, t1⟩ := ih τ (by simpa [typeOf] using ht)
    exact ⟨n1 + 1, x, by simp [flat, e1], t1⟩
  | lexeme _ ih =>
    intro τ ht
    obtain ⟨n1, x, e1, t1⟩ := ih τ (by simpa [typeOf] using ht)
    exact ⟨n1 + 1, x, by simp [flat, e1], t1⟩
  | named _ ih =>
    intro τ ht
    obtain ⟨n1, x, e1, t1⟩ := ih τ (by simpa [typeOf] using ht)
    exact ⟨n1 + 1, x, by simp [flat, e1], t1⟩
  | conv v => intro τ ht; simp [typeOf] at ht
  | convIf v => intro τ ht; simp [typeOf] at ht
  | @ref i v _ ih =>
    intro τ ht
    simp [typeOf] at ht; subst ht
    obtain ⟨n1, x, e1, t1⟩ := ih (E.ruleTy i) (hwt i)
    exact ⟨n1 + 1, x, by simp [flat, e1], t1⟩
  | @map m a v _ ih =>
    intro τ ht
    cases m with
    | construct k =>
      cases hta : typeOf E a <;> simp [typeOf, hta] at ht
      rename_i ta
      obtain ⟨hd, rfl⟩ := ht
      obtain ⟨n1, x, e1, t1⟩ := ih ta hta
      exact ⟨n1 + 1, .struct k x, by simp [flat, Mapper.apply, e1], .struct (hd ▸ t1)⟩
    | asStruct k =>
      cases hta : typeOf E a <;> simp [typeOf, hta] at ht
      rename_i ta
      obtain ⟨⟨_, hd⟩, rfl⟩ := ht
      obtain ⟨n1, x, e1, t1⟩ := ih ta hta
      exact ⟨n1 + 1, .struct k x, by simp [flat, Mapper.apply, e1], .struct (hd ▸ t1)⟩
    | const c =>
      cases hc : constTV c with
      | none =>
        exfalso
        cases hta : typeOf E a <;> simp only [typeOf, hta, hc] at ht <;> try (simp at ht; done)
        all_goals (first | (split at ht <;> simp at ht; done) | (simp at ht; done))
      | some tt =>
        obtain ⟨tv, t⟩ := tt
        have : τ = t := by
          cases hta : typeOf E a <;> simp only [typeOf, hta, hc] at ht <;> try (simp at ht; done)
          split at ht
          · rename_i h1 h2; simp at h2; simp at ht; rw [← ht, h2.2]
          · simp at ht
        subst this
        exact ⟨1, tv, by simp [flat, Mapper.apply, hc], constTV_hasTy hc⟩
  | @plus a v vs _ _ ih1 ih2 =>
    intro τ ht
    cases hta : typeOf E a <;> simp [typeOf, hta] at ht
    rename_i ta
    obtain ⟨hnt, rfl⟩ := ht
    obtain ⟨n1, x, e1, t1⟩ := ih1 ta hta
    obtain ⟨n2, xs, e2, t2⟩ := ih2 (repTy ta) (by simp [typeOf, hta])
    obtain ⟨w, ew, tw⟩ := plusT_hasTy (by simpa using hnt) t1 t2
    have m1 := flat_mono E g e1 (show n1 ≤ n1 + n2 by omega)
    have m2 := flat_mono E g e2 (show n2 ≤ n1 + n2 by omega)
    exact ⟨n1 + n2 + 1, w, by simp only [flat, hta, m1, m2]; exact ew, tw⟩
  | @sepNil a s =>
    intro τ ht
    cases hta : typeOf E a <;> cases hts : typeOf E s <;> simp only [typeOf, hta, hts] at ht <;> try (simp at ht; done)
    rename_i ta ts
    cases ts <;> simp at ht
    subst ht
    exact ⟨1, .vec .nil, by simp [flat, mapCons], .vec .nil⟩
  | @sepCons a s v vs _ _ ih1 ih2 =>
    intro τ ht
    have ht0 := ht
    cases hta : typeOf E a <;> cases hts : typeOf E s <;> simp only [typeOf, hta, hts] at ht <;> try (simp at ht; done)
    rename_i ta ts
    cases ts <;> simp at ht
    subst ht
    obtain ⟨n1, x, e1, t1⟩ := ih1 ta hta
    obtain ⟨n2, tv2, e2, t2⟩ := ih2 _ ht0
    cases n2 with
    | zero => simp [flat] at e2
    | succ n2 =>
      simp only [flat] at e2
      obtain ⟨tv, etv, ttv⟩ := vec_cons_flat e1 t1 e2 t2
      exact ⟨n1 + n2 + 1, tv, by simp only [flat]; exact etv, ttv⟩
  | @listNil o a s c =>
    intro τ ht
    cases hto : typeOf E o <;> cases hta : typeOf E a <;> cases hts : typeOf E s <;> cases htc : typeOf E c <;>
      simp only [typeOf, hto, hta, hts, htc] at ht <;> try (simp at ht; done)
    rename_i to ta ts tc
    cases to <;> try (simp at ht; done)
    cases ts <;> try (simp at ht; done)
    cases tc <;> simp at ht
    subst ht
    exact ⟨1, .vec .nil, by simp [flat, mapCons], .vec .nil⟩
  | @listCons o a s c v vs _ _ ih1 ih2 =>
    intro τ ht
    have ht0 := ht
    cases hto : typeOf E o <;> cases hta : typeOf E a <;> cases hts : typeOf E s <;> cases htc : typeOf E c <;>
      simp only [typeOf, hto, hta, hts, htc] at ht <;> try (simp at ht; done)
    rename_i to ta ts tc
    cases to <;> try (simp at ht; done)
    cases ts <;> try (simp at ht; done)
    cases tc <;> simp at ht
    subst ht
    obtain ⟨n1, x, e1, t1⟩ := ih1 ta hta
    obtain ⟨n2, tv2, e2, t2⟩ := ih2 _ ht0
    cases n2 with
    | zero => simp [flat] at e2
    | succ n2 =>
      simp only [flat] at e2
      obtain ⟨tv, etv, ttv⟩ := vec_cons_flat e1 t1 e2 t2
      exact ⟨n1 + n2 + 1, tv, by simp only [flat]; exact etv, ttv⟩
  | uint n => intro τ ht; simp [typeOf] at ht; subst ht; exact ⟨1, .uint n, by simp [flat], .uint n⟩
  | int i => intro τ ht; simp [typeOf] at ht; subst ht; exact ⟨1, .int i, by simp [flat], .int i⟩
  | float b => intro τ ht; simp [typeOf] at ht; subst ht; exact ⟨1, .flt b, by simp [flat], .flt b⟩

end Fcppt.C02
