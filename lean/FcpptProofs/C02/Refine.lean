import FcpptModel.Spec.C02
/-!
# C02 — the position-threading implementation model refines the position-free semantics
-/
set_option linter.unusedSimpArgs false
namespace Fcppt.C02

def absSk (s : List Nat) : MSkRes → SkRes
  | .ok p => .ok (s.drop p)
  | .err ft _ => .err ft

def absRes (s : List Nat) : MRes → Res
  | .ok v p => .ok v (s.drop p)
  | .err ft _ => .err ft

theorem drop_cases (s : List Nat) (pos : Nat) :
    (s[pos]? = none ∧ s.drop pos = []) ∨ (∃ c, s[pos]? = some c ∧ s.drop pos = c :: s.drop (pos + 1)) := by
  cases h : s[pos]? with
  | none =>
    left
    have : s.length ≤ pos := by simpa using h
    exact ⟨rfl, List.drop_eq_nil_of_le this⟩
  | some c =>
    right
    obtain ⟨hlt, hc⟩ := List.getElem?_eq_some_iff.mp h
    exact ⟨c, rfl, by rw [← hc]; exact List.drop_eq_getElem_cons hlt⟩

theorem skip_refines (s : List Nat) (f : Nat) (sk : Sk) (pos : Nat) :
    (M.skip s f sk pos).map (absSk s) = S.skip f sk (s.drop pos) := by
  induction f generalizing sk pos with
  | zero => simp [M.skip, S.skip]
  | succ f ih =>
    cases sk with
    | eps => simp [M.skip, S.skip, absSk]
    | cset cs =>
      rcases drop_cases s pos with ⟨h1, h2⟩ | ⟨c, h1, h2⟩
      · simp [M.skip, S.skip, absSk, h1, h2]
      · simp only [M.skip, S.skip, h1, h2]; split <;> simp [absSk]
    | lit d =>
      rcases drop_cases s pos with ⟨h1, h2⟩ | ⟨c, h1, h2⟩
      · simp [M.skip, S.skip, absSk, h1, h2]
      · simp only [M.skip, S.skip, h1, h2]; split <;> simp [absSk]
    | rep a =>
      simp only [M.skip, S.skip, ← ih a pos]
      rcases M.skip s f a pos with _ | ⟨p1⟩ | ⟨ft, p⟩
      · simp
      · simpa [absSk] using ih (.rep a) p1
      · cases ft <;> simp [absSk]
    | seq a b =>
      simp only [M.skip, S.skip, ← ih a pos]
      rcases M.skip s f a pos with _ | ⟨p1⟩ | ⟨ft, p⟩
      · simp
      · simpa [absSk] using ih b p1
      · simp [absSk]

theorem strLoop_refines (s : List Nat) (cs : List Nat) (pos : Nat) :
    absRes s (M.strLoop s cs pos) = S.strLoop cs (s.drop pos) := by
  induction cs generalizing pos with
  | nil => simp [M.strLoop, S.strLoop, absRes]
  | cons e es ih =>
    rcases drop_cases s pos with ⟨h1, h2⟩ | ⟨c, h1, h2⟩
    · simp [M.strLoop, S.strLoop, absRes, h1, h2]
    · simp only [M.strLoop, S.strLoop, h1, h2]
      split
      · exact ih (pos + 1)
      · simp [absRes]

theorem sugar_refines (s : List Nat) (p : P) (r : Option MRes) :
    (M.sugar p r).map (absRes s) = S.sugar p (r.map (absRes s)) := by
  rcases r with _ | ⟨v, q⟩ | ⟨ft, q⟩
  · simp [M.sugar, S.sugar]
  · simp only [M.sugar, S.sugar, Option.map, absRes]
    cases post p v <;> simp [absRes]
  · simp [M.sugar, S.sugar, absRes]

/-- **Refinement.** Whatever the fuel, grammar, parser, skipper, input and start position: the
observable outcome of the position-threading run (value + what is left of the input / failure +
fatal flag / out of fuel) is that of the position-free semantics on the remaining input. -/
theorem run_refines' (g : G) (s : List Nat) (f : Nat) (p : P) (sk : Sk) (pos : Nat) :
    (M.run g s f p sk pos).map (absRes s) = S.parse g f p sk (s.drop pos) := by
  induction f generalizing p sk pos with
  | zero => simp [M.run, S.parse]
  | succ f ih =>
    cases p with
    | eps => simp [M.run, S.parse, absRes]
    | fail => simp [M.run, S.parse, absRes]
    | any =>
      rcases drop_cases s pos with ⟨h1, h2⟩ | ⟨c, h1, h2⟩ <;> simp [M.run, S.parse, absRes, h1, h2]
    | lit d =>
      rcases drop_cases s pos with ⟨h1, h2⟩ | ⟨c, h1, h2⟩
      · simp [M.run, S.parse, absRes, h1, h2]
      · simp only [M.run, S.parse, h1, h2]; split <;> simp [absRes]
    | cset cs =>
      rcases drop_cases s pos with ⟨h1, h2⟩ | ⟨c, h1, h2⟩
      · simp [M.run, S.parse, absRes, h1, h2]
      · simp only [M.run, S.parse, h1, h2]; split <;> simp [absRes]
    | compl cs =>
      rcases drop_cases s pos with ⟨h1, h2⟩ | ⟨c, h1, h2⟩
      · simp [M.run, S.parse, absRes, h1, h2]
      · simp only [M.run, S.parse, h1, h2]; split <;> simp [absRes]
    | str cs => simp [M.run, S.parse, strLoop_refines]
    | seq a b =>
      simp only [M.run, S.parse, ← ih a sk pos]
      rcases M.run g s f a sk pos with _ | ⟨va, p1⟩ | ⟨ft, p⟩
      · simp
      · simp only [Option.map, absRes, ← skip_refines s f sk p1]
        rcases M.skip s f sk p1 with _ | ⟨p2⟩ | ⟨ft, p⟩
        · simp
        · simp only [absSk, ← ih b sk p2]
          rcases M.run g s f b sk p2 with _ | ⟨vb, p3⟩ | ⟨ft, p⟩ <;> simp [absRes]
        · simp [absSk, absRes]
      · simp [absRes]
    | alt a b =>
      simp only [M.run, S.parse, ← ih a sk pos]
      rcases M.run g s f a sk pos with _ | ⟨va, p1⟩ | ⟨ft, p⟩
      · simp
      · simp [absRes]
      · cases ft
        · simp only [Option.map, absRes, ← ih b sk pos]
          rcases M.run g s f b sk pos with _ | ⟨vb, p3⟩ | ⟨ft, p⟩ <;> simp [absRes]
        · simp [absRes]
    | rep a =>
      simp only [M.run, S.parse, ← ih a sk pos]
      rcases M.run g s f a sk pos with _ | ⟨va, p1⟩ | ⟨ft, p⟩
      · simp
      · simp only [Option.map, absRes, ← skip_refines s f sk p1]
        rcases M.skip s f sk p1 with _ | ⟨p2⟩ | ⟨ft, p⟩
        · simp
        · simp only [absSk, ← ih (.rep a) sk p2]
          rcases M.run g s f (.rep a) sk p2 with _ | ⟨vb, p3⟩ | ⟨ft, p⟩ <;> simp [absRes]
        · cases ft <;> simp [absSk, absRes]
      · cases ft <;> simp [absRes]
    | opt a =>
      simp only [M.run, S.parse, ← ih a sk pos]
      rcases M.run g s f a sk pos with _ | ⟨va, p1⟩ | ⟨ft, p⟩
      · simp
      · simp [absRes]
      · cases ft <;> simp [absRes]
    | not a =>
      simp only [M.run, S.parse, ← ih a sk pos]
      rcases M.run g s f a sk pos with _ | ⟨va, p1⟩ | ⟨ft, p⟩ <;> simp [absRes]
    | fatal a =>
      simp only [M.run, S.parse, ← ih a sk pos]
      rcases M.run g s f a sk pos with _ | ⟨va, p1⟩ | ⟨ft, p⟩ <;> simp [absRes]
    | lexeme a => simpa [M.run, S.parse] using ih a .eps pos
    | conv k a =>
      simp only [M.run, S.parse, ← ih a sk pos]
      rcases M.run g s f a sk pos with _ | ⟨va, p1⟩ | ⟨ft, p⟩ <;> simp [absRes]
    | convIf k a =>
      simp only [M.run, S.parse, ← ih a sk pos]
      rcases M.run g s f a sk pos with _ | ⟨va, p1⟩ | ⟨ft, p⟩
      · simp
      · simp only [Option.map, absRes]
        cases g.fnIf k va <;> simp [absRes]
      · simp [absRes]
    | ignore a =>
      simp only [M.run, S.parse, ← ih a sk pos]
      rcases M.run g s f a sk pos with _ | ⟨va, p1⟩ | ⟨ft, p⟩ <;> simp [absRes]
    | named a =>
      simp only [M.run, S.parse, ← ih a sk pos]
      rcases M.run g s f a sk pos with _ | ⟨va, p1⟩ | ⟨ft, p⟩ <;> simp [absRes]
    | ref i => simpa [M.run, S.parse] using ih (g.rules i) sk pos
    | map m a =>
      simp only [M.run, S.parse, ← ih a sk pos]
      rcases M.run g s f a sk pos with _ | ⟨va, p1⟩ | ⟨ft, p⟩ <;> simp [absRes]
    | plus a => simp only [M.run, S.parse, sugar_refines, ih]
    | sep a b => simp only [M.run, S.parse, sugar_refines, ih]
    | list o a b c => simp only [M.run, S.parse, sugar_refines, ih]
    | uint m => simp only [M.run, S.parse, sugar_refines, ih]
    | int m => simp only [M.run, S.parse, sugar_refines, ih]
    | float => simp only [M.run, S.parse, sugar_refines, ih]

theorem parseString_refines (g : G) (f : Nat) (p : P) (sk : Sk) (s : List Nat) :
    M.parseString g f p sk s = S.parseString g f p sk s := by
  have h0 := skip_refines s f sk 0
  simp only [List.drop_zero] at h0
  simp only [M.parseString, S.parseString, ← h0]
  rcases M.skip s f sk 0 with _ | ⟨p0⟩ | ⟨ft, q⟩
  · simp
  · simp only [Option.map, absSk, ← run_refines' g s f p sk p0]
    rcases M.run g s f p sk p0 with _ | ⟨v, p1⟩ | ⟨ft, q⟩ <;> simp [absRes]
  · simp [absSk]

end Fcppt.C02
