import FcpptModel.Spec.C02
/-!
# C02 — parsers consume a prefix; a non-nullable parser consumes at least one character
-/
set_option linter.unusedSimpArgs false
namespace Fcppt.C02

theorem skip_progress {sk : Sk} {inp : List Nat} {x : SkRes} (h : SkDerives sk inp x) :
    ∀ r, x = .ok r → r.length ≤ inp.length := by
  induction h with
  | eps => intro r hx; cases hx; exact Nat.le_refl _
  | csetOk => intro r hx; cases hx; simp
  | litOk => intro r hx; cases hx; simp
  | repStop => intro r hx; cases hx; exact Nat.le_refl _
  | repMore _ _ ih1 ih2 => intro r hx; exact Nat.le_trans (ih2 r hx) (ih1 _ rfl)
  | seqOk _ _ ih1 ih2 => intro r hx; exact Nat.le_trans (ih2 r hx) (ih1 _ rfl)
  | _ => intro r hx; cases hx

theorem postRes_ok {p : P} {x : Res} {v : Val} {rest : List Nat} (h : postRes p x = .ok v rest) :
    ∃ v', x = .ok v' rest := by
  cases x with
  | err ft => simp [postRes] at h
  | ok v' r =>
    simp only [postRes] at h
    cases hp : post p v' with
    | none => simp [hp] at h
    | some w => simp [hp] at h; exact ⟨v', by rw [h.2]⟩

theorem nullable_desugar {p : P} (hs : IsSugar p) : nullable (desugar p) = nullable p := by
  cases p <;> simp [IsSugar] at hs <;> simp [desugar, nullable, digits]

theorem progress {g : G} {p : P} {sk : Sk} {inp : List Nat} {x : Res} (h : Derives g p sk inp x) :
    ∀ v rest, x = .ok v rest →
      rest.length ≤ inp.length ∧ (nullable p = false → rest.length < inp.length) := by
  induction h with
  | sugar hs _ ih =>
    intro v rest hx
    obtain ⟨v', rfl⟩ := postRes_ok hx
    rw [← nullable_desugar hs]
    exact ih v' rest rfl
  | strOk sk cs r =>
    intro v rest hx; cases hx
    refine ⟨by simp, fun hn => ?_⟩
    have : cs ≠ [] := by intro h; simp [nullable, h] at hn
    have : 0 < cs.length := List.length_pos_iff.mpr this
    simp; omega
  | @seqOk pa pb _ _ _ _ _ _ _ h1 h2 h3 ih1 ih3 =>
    intro v rest hx; cases hx
    have a := ih1 _ _ rfl
    have b := skip_progress h2 _ rfl
    have c := ih3 _ _ rfl
    refine ⟨by omega, fun hn => ?_⟩
    simp [nullable] at hn
    by_cases ha : nullable pa = false
    · have := a.2 ha; omega
    · simp at ha; have := c.2 (hn ha); omega
  | altL _ ih =>
    intro v rest hx; cases hx
    have a := ih _ _ rfl
    exact ⟨a.1, fun hn => a.2 (by simp [nullable] at hn; exact hn.1)⟩
  | altR _ _ _ ih =>
    intro v rest hx; cases hx
    have a := ih _ _ rfl
    exact ⟨a.1, fun hn => a.2 (by simp [nullable] at hn; exact hn.2)⟩
  | repMore h1 h2 _ ih1 ih3 =>
    intro v rest hx; cases hx
    have a := ih1 _ _ rfl
    have b := skip_progress h2 _ rfl
    have c := ih3 _ _ rfl
    exact ⟨by omega, fun hn => by simp [nullable] at hn⟩
  | anyOk => intro v rest hx; cases hx; simp
  | litOk => intro v rest hx; cases hx; simp
  | csetOk => intro v rest hx; cases hx; simp
  | complOk => intro v rest hx; cases hx; simp
  | eps => intro v rest hx; cases hx; simp [nullable]
  | repStop => intro v rest hx; cases hx; simp [nullable]
  | repStopS => intro v rest hx; cases hx; simp [nullable]
  | optNone => intro v rest hx; cases hx; simp [nullable]
  | notOk => intro v rest hx; cases hx; simp [nullable]
  | optSome _ ih => intro v rest hx; cases hx; exact ⟨(ih _ _ rfl).1, by simp [nullable]⟩
  | fatalOk _ ih => intro v rest hx; cases hx; simpa [nullable] using ih _ _ rfl
  | lexeme _ ih => intro v rest hx; simpa [nullable] using ih _ _ hx
  | convOk _ ih => intro v rest hx; cases hx; simpa [nullable] using ih _ _ rfl
  | convIfOk _ _ ih => intro v rest hx; cases hx; simpa [nullable] using ih _ _ rfl
  | ignoreOk _ ih => intro v rest hx; cases hx; simpa [nullable] using ih _ _ rfl
  | namedOk _ ih => intro v rest hx; cases hx; simpa [nullable] using ih _ _ rfl
  | mapOk _ ih => intro v rest hx; cases hx; simpa [nullable] using ih _ _ rfl
  | ref _ ih => intro v rest hx; exact ⟨(ih _ _ hx).1, by simp [nullable]⟩
  | _ => intro v rest hx; cases hx

end Fcppt.C02
