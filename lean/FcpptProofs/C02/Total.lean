import FcpptProofs.C02.Progress
/-!
# C02 — termination: every well-formed non-recursive parser has an outcome on every input
-/
set_option linter.unusedSimpArgs false
set_option linter.unusedVariables false
namespace Fcppt.C02

theorem skip_progress_strict {sk : Sk} {inp : List Nat} {x : SkRes} (h : SkDerives sk inp x) :
    ∀ r, x = .ok r → skNullable sk = false → r.length < inp.length := by
  induction h with
  | csetOk => intro r hx _; cases hx; simp
  | litOk => intro r hx _; cases hx; simp
  | eps => intro r hx hn; simp [skNullable] at hn
  | repStop => intro r hx hn; simp [skNullable] at hn
  | repMore _ _ _ _ => intro r hx hn; simp [skNullable] at hn
  | @seqOk a b inp r1 x h1 h2 ih1 ih2 =>
    intro r hx hn; cases hx
    simp [skNullable] at hn
    have l1 := skip_progress h1 _ rfl
    have l2 := skip_progress h2 _ rfl
    by_cases ha : skNullable a = false
    · have := ih1 _ rfl ha; omega
    · simp at ha; have := ih2 _ rfl (hn ha); omega
  | _ => intro r hx; cases hx

theorem skip_total {sk : Sk} (hw : SkWF sk) : ∀ inp, ∃ x, SkDerives sk inp x := by
  induction sk with
  | eps => exact fun inp => ⟨_, .eps inp⟩
  | cset cs =>
    intro inp
    cases inp with
    | nil => exact ⟨_, .csetEof cs⟩
    | cons c r =>
      cases h : cs.contains c
      · exact ⟨_, .csetNo cs c r h⟩
      · exact ⟨_, .csetOk cs c r h⟩
  | lit d =>
    intro inp
    cases inp with
    | nil => exact ⟨_, .litEof d⟩
    | cons c r =>
      by_cases h : c = d
      · subst h; exact ⟨_, .litOk c r⟩
      · exact ⟨_, .litNo d c r h⟩
  | seq a b iha ihb =>
    intro inp
    obtain ⟨x, hx⟩ := iha hw.1 inp
    cases x with
    | err ft => exact ⟨_, .seqErr hx⟩
    | ok r1 => obtain ⟨y, hy⟩ := ihb hw.2 r1; exact ⟨_, .seqOk hx hy⟩
  | rep a iha =>
    intro inp
    induction hn : inp.length using Nat.strongRecOn generalizing inp with
    | ind n ih =>
      obtain ⟨x, hx⟩ := iha hw.1 inp
      cases x with
      | err ft => cases ft
                  · exact ⟨_, .repStop hx⟩
                  · exact ⟨_, .repFatal hx⟩
      | ok r1 =>
        have := skip_progress_strict hx _ rfl hw.2
        obtain ⟨y, hy⟩ := ih r1.length (by omega) r1 rfl
        exact ⟨_, .repMore hx hy⟩

def size : P → Nat
  | .seq a b => size a + size b + 1
  | .alt a b => size a + size b + 1
  | .rep a => size a + 1 | .opt a => size a + 1 | .not a => size a + 1 | .fatal a => size a + 1
  | .lexeme a => size a + 1 | .conv _ a => size a + 1 | .convIf _ a => size a + 1
  | .ignore a => size a + 1 | .named a => size a + 1 | .map _ a => size a + 1
  | .plus a => 2 * size a + 3
  | .sep a s => 2 * size a + size s + 5
  | .list o a s c => size o + 2 * size c + 2 * size a + size s + 9
  | .uint _ => 7 | .int _ => 10 | .float => 18
  | _ => 1

theorem size_desugar {p : P} (hs : IsSugar p) : size (desugar p) < size p := by
  cases p <;> simp [IsSugar] at hs <;> simp [desugar, size] <;> omega

theorem wf0_desugar {p : P} (hs : IsSugar p) (hw : WF0 p) : WF0 (desugar p) := by
  cases p <;> simp [IsSugar] at hs <;> simp_all [desugar, WF0, nullable, digits]

theorem parse_total (g : G) : ∀ n p, size p ≤ n → WF0 p → ∀ sk, SkWF sk → ∀ inp,
    ∃ x, Derives g p sk inp x := by
  intro n
  induction n with
  | zero => intro p hp; cases p <;> simp [size] at hp
  | succ n ih =>
    intro p hp hw sk hsk inp
    have sugarCase : IsSugar p → ∃ x, Derives g p sk inp x := by
      intro hs
      obtain ⟨x, hx⟩ := ih (desugar p) (by have := size_desugar hs; omega) (wf0_desugar hs hw) sk hsk inp
      exact ⟨_, .sugar hs hx⟩
    cases p with
    | eps => exact ⟨_, .eps sk inp⟩
    | fail => exact ⟨_, .fail sk inp⟩
    | any => cases inp with
      | nil => exact ⟨_, .anyEof sk⟩
      | cons c r => exact ⟨_, .anyOk sk c r⟩
    | lit d => cases inp with
      | nil => exact ⟨_, .litEof sk d⟩
      | cons c r =>
        by_cases h : c = d
        · subst h; exact ⟨_, .litOk sk c r⟩
        · exact ⟨_, .litNo sk d c r h⟩
    | cset cs => cases inp with
      | nil => exact ⟨_, .csetEof sk cs⟩
      | cons c r =>
        cases h : cs.contains c
        · exact ⟨_, .csetNo sk cs c r h⟩
        · exact ⟨_, .csetOk sk cs c r h⟩
    | compl cs => cases inp with
      | nil => exact ⟨_, .complEof sk cs⟩
      | cons c r =>
        cases h : cs.contains c
        · exact ⟨_, .complOk sk cs c r h⟩
        · exact ⟨_, .complNo sk cs c r h⟩
    | str cs =>
      by_cases h : cs <+: inp
      · obtain ⟨r, rfl⟩ := h; exact ⟨_, .strOk sk cs r⟩
      · exact ⟨_, .strNo sk cs inp h⟩
    | seq a b =>
      simp only [size] at hp
      obtain ⟨x, hx⟩ := ih a (by omega) hw.1 sk hsk inp
      cases x with
      | err ft => exact ⟨_, .seqErrL hx⟩
      | ok va r1 =>
        obtain ⟨y, hy⟩ := skip_total hsk r1
        cases y with
        | err ft => exact ⟨_, .seqErrS hx hy⟩
        | ok r2 =>
          obtain ⟨z, hz⟩ := ih b (by omega) hw.2 sk hsk r2
          cases z with
          | err ft => exact ⟨_, .seqErrR hx hy hz⟩
          | ok vb r3 => exact ⟨_, .seqOk hx hy hz⟩
    | alt a b =>
      simp only [size] at hp
      obtain ⟨x, hx⟩ := ih a (by omega) hw.1 sk hsk inp
      cases x with
      | ok v r => exact ⟨_, .altL hx⟩
      | err ft =>
        cases ft
        · obtain ⟨z, hz⟩ := ih b (by omega) hw.2 sk hsk inp
          cases z with
          | err ft => exact ⟨_, .altErr hx hz⟩
          | ok vb r3 => exact ⟨_, .altR hx hz⟩
        · exact ⟨_, .altFatal hx⟩
    | rep a =>
      simp only [size] at hp
      clear sugarCase
      induction hn : inp.length using Nat.strongRecOn generalizing inp with
      | ind m ihm =>
        obtain ⟨x, hx⟩ := ih a (by omega) hw.1 sk hsk inp
        cases x with
        | err ft => cases ft
                    · exact ⟨_, .repStop hx⟩
                    · exact ⟨_, .repFatal hx⟩
        | ok v r1 =>
          have l1 := (progress hx v r1 rfl).2 hw.2
          obtain ⟨y, hy⟩ := skip_total hsk r1
          cases y with
          | err ft => cases ft
                      · exact ⟨_, .repStopS hx hy⟩
                      · exact ⟨_, .repFatalS hx hy⟩
          | ok r2 =>
            have l2 := skip_progress hy _ rfl
            obtain ⟨z, hz⟩ := ihm r2.length (by omega) r2 rfl
            cases z with
            | err ft => exact ⟨_, .repMoreErr hx hy hz⟩
            | ok vs r3 => exact ⟨_, .repMore hx hy hz⟩
    | opt a =>
      simp only [size] at hp
      obtain ⟨x, hx⟩ := ih a (by omega) hw sk hsk inp
      cases x with
      | ok v r => exact ⟨_, .optSome hx⟩
      | err ft => cases ft
                  · exact ⟨_, .optNone hx⟩
                  · exact ⟨_, .optFatal hx⟩
    | not a =>
      simp only [size] at hp
      obtain ⟨x, hx⟩ := ih a (by omega) hw sk hsk inp
      cases x with
      | ok v r => exact ⟨_, .notNo hx⟩
      | err ft => exact ⟨_, .notOk hx⟩
    | fatal a =>
      simp only [size] at hp
      obtain ⟨x, hx⟩ := ih a (by omega) hw sk hsk inp
      cases x with
      | ok v r => exact ⟨_, .fatalOk hx⟩
      | err ft => exact ⟨_, .fatalErr hx⟩
    | lexeme a =>
      simp only [size] at hp
      obtain ⟨x, hx⟩ := ih a (by omega) hw .eps trivial inp
      exact ⟨_, .lexeme hx⟩
    | conv k a =>
      simp only [size] at hp
      obtain ⟨x, hx⟩ := ih a (by omega) hw sk hsk inp
      cases x with
      | ok v r => exact ⟨_, .convOk hx⟩
      | err ft => exact ⟨_, .convErr hx⟩
    | convIf k a =>
      simp only [size] at hp
      obtain ⟨x, hx⟩ := ih a (by omega) hw sk hsk inp
      cases x with
      | ok v r =>
        cases hf : g.fnIf k v with
        | ok v' => exact ⟨_, .convIfOk hx hf⟩
        | error ft => exact ⟨_, .convIfRej hx hf⟩
      | err ft => exact ⟨_, .convIfErr hx⟩
    | ignore a =>
      simp only [size] at hp
      obtain ⟨x, hx⟩ := ih a (by omega) hw sk hsk inp
      cases x with
      | ok v r => exact ⟨_, .ignoreOk hx⟩
      | err ft => exact ⟨_, .ignoreErr hx⟩
    | named a =>
      simp only [size] at hp
      obtain ⟨x, hx⟩ := ih a (by omega) hw sk hsk inp
      cases x with
      | ok v r => exact ⟨_, .namedOk hx⟩
      | err ft => exact ⟨_, .namedErr hx⟩
    | ref i => exact absurd hw (by simp [WF0])
    | map mm a =>
      simp only [size] at hp
      obtain ⟨x, hx⟩ := ih a (by omega) hw sk hsk inp
      cases x with
      | ok v r => exact ⟨_, .mapOk hx⟩
      | err ft => exact ⟨_, .mapErr hx⟩
    | plus a => exact sugarCase trivial
    | sep a b => exact sugarCase trivial
    | list o a b c => exact sugarCase trivial
    | uint m => exact sugarCase trivial
    | int m => exact sugarCase trivial
    | float => exact sugarCase trivial

end Fcppt.C02
