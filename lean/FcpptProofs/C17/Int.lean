import FcpptProofs.C17.Basic
/-!
# C17 — lemmas about the C integer operators and `strong_typedef`
-/
namespace Fcppt.C17

namespace IntTy

theorem inRange_iff (t : IntTy) (x : Int) : t.inRange x = true ↔ t.Repr x := by
  simp [inRange, Repr]

/-- signed arithmetic: the exact result when it is representable -/
theorem arith_signed_ok (t : IntTy) (hs : t.signed = true) (r : Int) (hr : t.Repr r) : t.arith r = .ok r := by
  have := (t.inRange_iff r).2 hr
  simp [arith, hs, this]
  rfl

/-- signed arithmetic: undefined behaviour (a fault) otherwise -/
theorem arith_signed_overflow (t : IntTy) (hs : t.signed = true) (r : Int) (hr : ¬ t.Repr r) :
    t.arith r = .error .signedOverflow := by
  have : t.inRange r = false := by
    rw [← Bool.not_eq_true, t.inRange_iff r]; exact hr
  simp [arith, hs, this]
  rfl

/-- unsigned arithmetic: the exact result modulo 2^bits, never a fault -/
theorem arith_unsigned (t : IntTy) (hs : t.signed = false) (r : Int) : t.arith r = .ok (r % (2 ^ t.bits : Int)) := by
  simp [arith, hs]
  rfl

theorem two_pow_pos (n : Nat) : (0 : Int) < 2 ^ n := Int.pow_pos (by decide)

/-- every successful arithmetic result is a value of the type -/
theorem arith_repr (t : IntTy) (r v : Int) (h : t.arith r = .ok v) : t.Repr v := by
  cases hs : t.signed with
  | true =>
    by_cases hr : t.Repr r
    · rw [arith_signed_ok t hs r hr] at h
      cases h; exact hr
    · rw [arith_signed_overflow t hs r hr] at h
      cases h
  | false =>
    rw [arith_unsigned t hs r] at h
    cases h
    have hp := two_pow_pos t.bits
    refine ⟨?_, ?_⟩
    · simp only [lo, hs]
      exact Int.emod_nonneg _ (Int.ne_of_gt hp)
    · simp only [hi, hs]
      have := Int.emod_lt_of_pos r hp
      simp only [Bool.false_eq_true, if_false]
      omega

/-! ### conversion to the type, compound assignment -/

theorem two_pow_cast (n : Nat) : (((2 ^ n : Nat) : Int)) = (2 : Int) ^ n := by
  simp

theorem half_double (t : IntTy) (hb : 0 < t.bits) : (2 : Int) ^ t.bits = 2 * 2 ^ (t.bits - 1) := by
  obtain ⟨k, hk⟩ : ∃ k, t.bits = k + 1 := ⟨t.bits - 1, by omega⟩
  rw [hk, Int.pow_succ]
  simp
  omega

/-- converting a value of the type to the type changes nothing -/
theorem conv_of_repr (t : IntTy) (hb : 0 < t.bits) (x : Int) (hx : t.Repr x) : t.conv x = x := by
  have hp := two_pow_pos t.bits
  have hd := half_double t hb
  unfold Repr lo hi at hx
  unfold conv
  cases hs : t.signed with
  | true =>
    simp only [hs, if_true] at hx ⊢
    apply Int.bmod_eq_of_le_mul_two
    · rw [two_pow_cast]; omega
    · rw [two_pow_cast]; omega
  | false =>
    simp only [hs, Bool.false_eq_true, if_false] at hx ⊢
    exact Int.emod_eq_of_lt hx.1 (by omega)

/-- the result of a conversion is a value of the type -/
theorem conv_repr (t : IntTy) (hb : 0 < t.bits) (x : Int) : t.Repr (t.conv x) := by
  have hp := two_pow_pos t.bits
  have hd := half_double t hb
  have hpn : 0 < 2 ^ t.bits := Nat.pow_pos (by decide)
  unfold Repr lo hi conv
  cases hs : t.signed with
  | true =>
    simp only [if_true]
    have h1 := @Int.le_bmod x (2 ^ t.bits) hpn
    have h2 := @Int.bmod_lt x (2 ^ t.bits) hpn
    rw [two_pow_cast] at h1 h2
    constructor <;> omega
  | false =>
    simp only [Bool.false_eq_true, if_false]
    have h1 := Int.emod_nonneg x (Int.ne_of_gt hp)
    have h2 := Int.emod_lt_of_pos x hp
    constructor <;> omega

/-- … and is congruent to the argument modulo 2^bits -/
theorem conv_congr (t : IntTy) (x : Int) : ∃ k : Int, t.conv x = x + k * 2 ^ t.bits := by
  unfold conv
  cases hs : t.signed with
  | true =>
    simp only [if_true]
    refine ⟨-(Int.bdiv x (2 ^ t.bits)), ?_⟩
    rw [Int.bmod_eq_self_sub_bdiv_mul, two_pow_cast]
    simp [Int.neg_mul, Int.sub_eq_add_neg]
  | false =>
    simp only [Bool.false_eq_true, if_false]
    refine ⟨-(x / 2 ^ t.bits), ?_⟩
    rw [Int.emod_def, Int.neg_mul, Int.mul_comm]
    omega

theorem promoted_wide (t : IntTy) (h : ¬ t.bits < 32) : t.promoted = t := by simp [promoted, h]
theorem promoted_narrow (t : IntTy) (h : t.bits < 32) : t.promoted = i32 := by simp [promoted, h]

/-- `int` and wider: the result of the operator is already a value of the type, the conversion is the identity -/
theorem arith_conv_wide (t : IntTy) (hb : 0 < t.bits) (r : Int) :
    (do let v ← t.arith r; pure (t.conv v) : M Int) = t.arith r := by
  cases h : t.arith r with
  | error e => rfl
  | ok v =>
    have := conv_of_repr t hb v (arith_repr t r v h)
    show (Except.ok (t.conv v) : M Int) = .ok v
    rw [this]

/-- bounds of a value of a type of at most 16 bits -/
theorem repr_narrow_bound (t : IntTy) (h16 : t.bits ≤ 16) (x : Int) (hx : t.Repr x) : -65536 < x ∧ x < 65536 := by
  have h1 : (2 : Int) ^ t.bits ≤ 2 ^ 16 := by
    have : (2 : Nat) ^ t.bits ≤ 2 ^ 16 := Nat.pow_le_pow_right (by decide) h16
    exact_mod_cast this
  have hp := two_pow_pos (t.bits - 1)
  have h2 : (2 : Int) ^ (t.bits - 1) ≤ 2 ^ 15 := by
    have : (2 : Nat) ^ (t.bits - 1) ≤ 2 ^ 15 := Nat.pow_le_pow_right (by decide) (by omega)
    exact_mod_cast this
  unfold Repr lo hi at hx
  have h3 : (2 : Int) ^ 16 = 65536 := by decide
  have h4 : (2 : Int) ^ 15 = 32768 := by decide
  cases hs : t.signed <;> simp only [hs, if_true, Bool.false_eq_true, if_false] at hx <;> omega

theorem i32_repr_iff (x : Int) : i32.Repr x ↔ -2147483648 ≤ x ∧ x ≤ 2147483647 := by
  unfold Repr lo hi i32
  have : (2 : Int) ^ (32 - 1) = 2147483648 := by decide
  simp only [if_true, this]
  omega

theorem i32_arith_ok (x : Int) (h : -2147483648 ≤ x ∧ x ≤ 2147483647) : i32.arith x = .ok x :=
  arith_signed_ok i32 rfl x ((i32_repr_iff x).2 h)

/-- every bit pattern denotes a value of the type -/
theorem ofBV_repr (t : IntTy) (v : BitVec t.bits) : t.Repr (t.ofBV v) := by
  unfold Repr lo hi ofBV
  cases hs : t.signed with
  | true =>
    simp only [if_true]
    exact ⟨BitVec.le_toInt v, BitVec.toInt_le⟩
  | false =>
    simp only [Bool.false_eq_true, if_false]
    have h := v.isLt
    have h' : ((v.toNat : Nat) : Int) < ((2 ^ t.bits : Nat) : Int) := Int.ofNat_lt.2 h
    rw [two_pow_cast] at h'
    constructor <;> omega

theorem bitwise_conv_wide (t : IntTy) (hb : 0 < t.bits) (v : BitVec t.bits) : t.conv (t.ofBV v) = t.ofBV v :=
  conv_of_repr t hb _ (ofBV_repr t v)

theorem bxor_self (t : IntTy) (a : Int) : t.bxor a a = 0 := by
  unfold bxor ofBV
  rw [BitVec.xor_self]
  cases t.signed <;> simp

theorem conv_zero (t : IntTy) : t.conv 0 = 0 := by
  unfold conv
  cases t.signed <;> simp

/-- |a|, |b| ≤ K → |a b| ≤ K² -/
theorem mul_bound (a b K : Int) (ha : -K ≤ a ∧ a ≤ K) (hb : -K ≤ b ∧ b ≤ K) : -(K * K) ≤ a * b ∧ a * b ≤ K * K := by
  have h1 : a.natAbs ≤ K.natAbs := by omega
  have h2 : b.natAbs ≤ K.natAbs := by omega
  have h3 : (a * b).natAbs ≤ (K * K).natAbs := by
    rw [Int.natAbs_mul, Int.natAbs_mul]
    exact Nat.mul_le_mul h1 h2
  have hK : 0 ≤ K := by omega
  have hKK : 0 ≤ K * K := Int.mul_nonneg hK hK
  omega

end IntTy

namespace ST

theorem ext' (a b : ST) (h : a.get = b.get) : a = b := by
  cases a; cases b; simp_all

theorem eq_iff (l r : ST) : ST.eq l r = true ↔ l = r := by
  constructor
  · intro h; exact ext' l r (by simpa [ST.eq] using h)
  · rintro rfl; simp [ST.eq]

theorem lt_strictTotal : StrictTotal ST.lt where
  irrefl a := by simp [ST.lt]
  trans a b c := by simp only [ST.lt, decide_eq_true_eq]; omega
  total a b := by
    simp only [ST.lt, decide_eq_true_eq]
    rcases Int.lt_trichotomy a.get b.get with h | h | h
    · exact Or.inl h
    · exact Or.inr (Or.inl (ext' a b h))
    · exact Or.inr (Or.inr h)

end ST
end Fcppt.C17
