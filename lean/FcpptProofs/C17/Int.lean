import FcpptProofs.C17.Basic
/-!
# C17 — lemmas about the C integer operators and `strong_typedef`
-/
namespace Fcppt.C17

namespace IntTy

theorem inRange_iff (t : IntTy) (x : Int) : t.inRange x = true ↔ t.Repr x := by
  simp [inRange, Repr]

/-- signed arithmetic: the exact result when it is representable -/
theorem arith_signed_ok (t : IntTy) (hs : t.signed = true) (r : Int) (hr : t.Repr r) : t.arith r = .ok r := by
  have := (t.inRange_iff r).2 hr
  simp [arith, hs, this]
  rfl

/-- signed arithmetic: undefined behaviour (a fault) otherwise -/
theorem arith_signed_overflow (t : IntTy) (hs : t.signed = true) (r : Int) (hr : ¬ t.Repr r) :
    t.arith r = .error .signedOverflow := by
  have : t.inRange r = false := by
    rw [← Bool.not_eq_true, t.inRange_iff r]; exact hr
  simp [arith, hs, this]
  rfl

/-- unsigned arithmetic: the exact result modulo 2^bits, never a fault -/
theorem arith_unsigned (t : IntTy) (hs : t.signed = false) (r : Int) : t.arith r = .ok (r % (2 ^ t.bits : Int)) := by
  simp [arith, hs]
  rfl

theorem two_pow_pos (n : Nat) : (0 : Int) < 2 ^ n := Int.pow_pos (by decide)

/-- every successful arithmetic result is a value of the type -/
theorem arith_repr (t : IntTy) (r v : Int) (h : t.arith r = .ok v) : t.Repr v := by
  cases hs : t.signed with
  | true =>
    by_cases hr : t.Repr r
    · rw [arith_signed_ok t hs r hr] at h
      cases h; exact hr
    · rw [arith_signed_overflow t hs r hr] at h
      cases h
  | false =>
    rw [arith_unsigned t hs r] at h
    cases h
    have hp := two_pow_pos t.bits
    refine ⟨?_, ?_⟩
    · simp only [lo, hs]
      exact Int.emod_nonneg _ (Int.ne_of_gt hp)
    · simp only [hi, hs]
      have := Int.emod_lt_of_pos r hp
      simp only [Bool.false_eq_true, if_false]
      omega

end IntTy

namespace ST

theorem ext' (a b : ST) (h : a.get = b.get) : a = b := by
  cases a; cases b; simp_all

theorem eq_iff (l r : ST) : ST.eq l r = true ↔ l = r := by
  constructor
  · intro h; exact ext' l r (by simpa [ST.eq] using h)
  · rintro rfl; simp [ST.eq]

theorem lt_strictTotal : StrictTotal ST.lt where
  irrefl a := by simp [ST.lt]
  trans a b c := by simp only [ST.lt, decide_eq_true_eq]; omega
  total a b := by
    simp only [ST.lt, decide_eq_true_eq]
    rcases Int.lt_trichotomy a.get b.get with h | h | h
    · exact Or.inl h
    · exact Or.inr (Or.inl (ext' a b h))
    · exact Or.inr (Or.inr h)

end ST
end Fcppt.C17
