import FcpptProofs.C17.Basic
/-!
# C17 — per-type lemmas (optional, either, variant, record, box, sphere, grid, tree, raw_vector, reference, shared_ptr)
-/
namespace Fcppt.C17
variable {α β : Type}

/-! ## optional -/

theorem Opt.eq_iff {eq : α → α → Bool} (he : LawfulEq eq) (a b : Option α) : Opt.eq eq a b = true ↔ a = b := by
  cases a <;> cases b <;> simp [Opt.eq, he _ _]

theorem Opt.lt_some_some (lt : α → α → Bool) (x y : α) : Opt.lt lt (some x) (some y) = lt x y := rfl
theorem Opt.lt_none_some (lt : α → α → Bool) (y : α) : Opt.lt lt none (some y) = true := rfl
theorem Opt.lt_none (lt : α → α → Bool) (a : Option α) : Opt.lt lt a none = false := by
  cases a <;> rfl

theorem Opt.lt_strictTotal {lt : α → α → Bool} (h : StrictTotal lt) : StrictTotal (Opt.lt lt) where
  irrefl a := by
    cases a with
    | none => rfl
    | some x => exact h.irrefl x
  trans a b c hab hbc := by
    cases a <;> cases b <;> cases c <;> simp_all [Opt.lt]
    exact h.trans _ _ _ hab hbc
  total a b := by
    cases a with
    | none => cases b <;> simp [Opt.lt]
    | some x =>
      cases b with
      | none => simp [Opt.lt]
      | some y =>
        rcases h.total x y with h1 | h1 | h1
        · exact Or.inl h1
        · exact Or.inr (Or.inl (by rw [h1]))
        · exact Or.inr (Or.inr h1)

/-! ## either -/

theorem Either.eq_iff {eqF : α → α → Bool} {eqS : β → β → Bool} (hF : LawfulEq eqF) (hS : LawfulEq eqS)
    (a b : Sum α β) : Either.eq eqF eqS a b = true ↔ a = b := by
  cases a <;> cases b <;> simp [Either.eq, hF _ _, hS _ _]

/-! ## variant -/

theorem Var.eq_iff {eq : α → α → Bool} (he : LawfulEq eq) (a b : Var α) : Var.eq eq a b = true ↔ a = b := by
  cases a with
  | mk i x =>
    cases b with
    | mk j y => simp [Var.eq, he x y]

theorem Var.lt_iff {lt : α → α → Bool} (a b : Var α) :
    Var.lt lt a b = true ↔ (Grid.natLt a.idx b.idx = true ∨ (a.idx = b.idx ∧ lt a.val b.val = true)) := by
  unfold Var.lt Grid.natLt
  by_cases h1 : a.idx < b.idx
  · simp [h1]
  · by_cases h2 : a.idx > b.idx
    · have : a.idx ≠ b.idx := by omega
      simp [h2, this]
    · have : a.idx = b.idx := by omega
      simp [this]

theorem Var.lt_strictTotal {lt : α → α → Bool} (h : StrictTotal lt) : StrictTotal (Var.lt lt) :=
  strictTotal_lexProd (Var.lt lt) Var.idx Var.val
    (fun a b h1 h2 => by cases a; cases b; simp_all) natLt_strictTotal h Var.lt_iff

/-- `variant::compare` with a comparer: false across alternatives, the comparer within one -/
theorem Var.compare_iff (c : α → α → Bool) (l r : Var α) :
    Var.compare c l r = true ↔ (l.idx = r.idx ∧ c l.val r.val = true) := by
  unfold Var.compare
  by_cases h : l.idx = r.idx <;> simp [h]

/-! ## record -/

theorem Rec.lookup_of_mem_labels (r : Rec α) (l : Nat) (h : l ∈ Rec.labels r) : ∃ x, List.lookup l r = some x := by
  induction r with
  | nil => simp [Rec.labels] at h
  | cons p ps ih =>
    obtain ⟨k, v⟩ := p
    by_cases hk : l = k
    · subst hk
      exact ⟨v, by simp [List.lookup]⟩
    · have : l ∈ Rec.labels ps := by
        simp only [Rec.labels, List.map_cons, List.mem_cons] at h
        rcases h with h | h
        · exact absurd h hk
        · exact h
      obtain ⟨x, hx⟩ := ih this
      refine ⟨x, ?_⟩
      have hb : (l == k) = false := by simpa using hk
      simp [List.lookup, hb, hx]

theorem Rec.eq_spec {eq : α → α → Bool} (he : LawfulEq eq) (r1 r2 : Rec α) (hq : Rec.equivalent r1 r2 = true) :
    ∃ b, Rec.eq eq r1 r2 = some b ∧ (b = true ↔ ∀ l ∈ Rec.labels r1, List.lookup l r1 = List.lookup l r2) := by
  unfold Rec.eq
  rw [if_pos hq]
  refine ⟨_, rfl, ?_⟩
  rw [List.all_eq_true]
  have hsub : ∀ l ∈ Rec.labels r1, l ∈ Rec.labels r2 := by
    intro l hl
    simp only [Rec.equivalent, Bool.and_eq_true, List.all_eq_true] at hq
    simpa using hq.1 l hl
  constructor
  · intro h l hl
    obtain ⟨x, hx⟩ := Rec.lookup_of_mem_labels r1 l hl
    obtain ⟨y, hy⟩ := Rec.lookup_of_mem_labels r2 l (hsub l hl)
    have := h l hl
    rw [hx, hy] at this ⊢
    simp only at this
    rw [(he x y).1 this]
  · intro h l hl
    obtain ⟨x, hx⟩ := Rec.lookup_of_mem_labels r1 l hl
    have h2 := h l hl
    rw [hx] at h2
    rw [hx, ← h2]
    exact (he x x).2 rfl

theorem Rec.eq_none {eq : α → α → Bool} (r1 r2 : Rec α) (hq : Rec.equivalent r1 r2 = false) :
    Rec.eq eq r1 r2 = none := by
  unfold Rec.eq
  simp [hq]

/-! ## heterogeneous products and sums -/

theorem Pair.eq_iff {β : Type} {eqA : α → α → Bool} {eqB : β → β → Bool} (hA : LawfulEq eqA) (hB : LawfulEq eqB) :
    LawfulEq (Pair.eq eqA eqB) := by
  intro a b
  cases a; cases b
  simp [Pair.eq, hA _ _, hB _ _]

theorem SumV.eq_iff {β : Type} {eqA : α → α → Bool} {eqB : β → β → Bool} (hA : LawfulEq eqA) (hB : LawfulEq eqB) :
    LawfulEq (SumV.eq eqA eqB) := by
  intro a b
  cases a <;> cases b <;> simp [SumV.eq, hA _ _, hB _ _]

theorem SumV.lt_strictTotal {β : Type} {ltA : α → α → Bool} {ltB : β → β → Bool} (hA : StrictTotal ltA)
    (hB : StrictTotal ltB) : StrictTotal (SumV.lt ltA ltB) where
  irrefl a := by cases a <;> simp [SumV.lt, hA.irrefl, hB.irrefl]
  trans a b c := by
    cases a <;> cases b <;> cases c <;> simp [SumV.lt]
    · exact hA.trans _ _ _
    · exact hB.trans _ _ _
  total a b := by
    cases a <;> cases b <;> simp [SumV.lt]
    · exact hA.total _ _
    · exact hB.total _ _

theorem SumV.compare_eq {β : Type} (eqA : α → α → Bool) (eqB : β → β → Bool) (a b : Sum α β) :
    SumV.compare eqA eqB a b = SumV.eq eqA eqB a b := by
  cases a <;> cases b <;> rfl

/-! ## box, sphere -/

theorem Box.ext' {n : Nat} (a b : Box α n) (h1 : a.min = b.min) (h2 : a.max = b.max) : a = b := by
  cases a; cases b; simp_all

/-- `max - min` together with `min` determines `max` when `-` can be undone -/
theorem Box.max_eq_of_size_eq {n : Nat} {sub : α → α → α} (hs : SubCancel sub) (a b : Box α n)
    (hmin : a.min = b.min) (hsize : a.size sub = b.size sub) : a.max = b.max := by
  apply Vector.ext
  intro i hi
  have := congrArg (fun v : Vector α n => v[i]) hsize
  simp only [Box.size, Vector.getElem_zipWith, hmin] at this
  exact hs _ _ _ this

theorem Box.eq_iff {n : Nat} {sub : α → α → α} {eq : α → α → Bool} (hs : SubCancel sub) (he : LawfulEq eq)
    (a b : Box α n) : Box.eq sub eq a b = true ↔ a = b := by
  constructor
  · intro h
    simp only [Box.eq, MVec.eq, Bool.and_eq_true, equalV_iff he] at h
    exact Box.ext' a b h.1 (Box.max_eq_of_size_eq hs a b h.1 h.2)
  · rintro rfl
    simp [Box.eq, MVec.eq, equalV_iff he]

theorem Box.lt_strictTotal {n : Nat} {sub : α → α → α} {lt : α → α → Bool} (hs : SubCancel sub) (h : StrictTotal lt) :
    StrictTotal (Box.lt (n := n) sub lt) :=
  strictTotal_lexProd (Box.lt sub lt) Box.pos (Box.size sub)
    (fun a b h1 h2 => Box.ext' a b h1 (Box.max_eq_of_size_eq hs a b h1 h2))
    (arrayLess_strictTotal h) (arrayLess_strictTotal h)
    (fun a b => pairLt_iff (arrayLess_strictTotal h) (a.pos, a.size sub) (b.pos, b.size sub))

/-- a box constructed from position and size has that position and that size -/
theorem Box.ofPosSize_spec {n : Nat} {add sub : α → α → α} (hadd : ∀ p s, sub (add p s) p = s) (p s : Vector α n) :
    (Box.ofPosSize add p s).pos = p ∧ (Box.ofPosSize add p s).size sub = s := by
  refine ⟨rfl, ?_⟩
  apply Vector.ext
  intro i hi
  simp [Box.size, Box.ofPosSize, Vector.getElem_zipWith, hadd]

theorem Sphere.eq_iff {n : Nat} {eq : α → α → Bool} (he : LawfulEq eq) (a b : Sphere α n) :
    Sphere.eq eq a b = true ↔ a = b := by
  cases a with
  | mk p s =>
    cases b with
    | mk q u => simp [Sphere.eq, MVec.eq, equalV_iff he, he s u]

/-! ## grid -/

theorem Grid.sizeEq_iff {n : Nat} (a b : Grid α n) : MVec.eq Grid.natEq a.size b.size = true ↔ a.size = b.size :=
  equalV_iff natEq_lawful _ _

theorem Grid.eq_spec {n : Nat} {eq : α → α → Bool} (he : LawfulEq eq) (a b : Grid α n) (ha : a.Wf) (hb : b.Wf) :
    ∃ r, Grid.eq eq a b = .ok r ∧ (r = true ↔ a = b) := by
  unfold Grid.eq
  by_cases hs : MVec.eq Grid.natEq a.size b.size = true
  · rw [if_pos hs]
    have hsz := (Grid.sizeEq_iff a b).1 hs
    have hlen : a.data.length = b.data.length := by rw [ha, hb, hsz]
    obtain ⟨r, hr, hiff⟩ := stdEqual3_same_length he a.data b.data hlen
    refine ⟨r, hr, ?_⟩
    rw [hiff]
    cases a; cases b
    simp_all
  · rw [if_neg hs]
    refine ⟨false, rfl, ?_⟩
    have hne : a.size ≠ b.size := fun e => hs ((Grid.sizeEq_iff a b).2 e)
    constructor
    · intro h; cases h
    · intro h; exact absurd (congrArg Grid.size h) hne

theorem Grid.lt_iff {n : Nat} {lt : α → α → Bool} (a b : Grid α n) :
    Grid.lt lt a b = true ↔
      (arrayLess Grid.natLt a.size b.size = true ∨ (a.size = b.size ∧ lexCompare lt a.data b.data = true)) := by
  unfold Grid.lt MVec.ne MVec.lt
  by_cases hs : MVec.eq Grid.natEq a.size b.size = true
  · have hsz := (Grid.sizeEq_iff a b).1 hs
    have hbb : MVec.eq Grid.natEq b.size b.size = true := (equalV_iff natEq_lawful _ _).2 rfl
    simp [hsz, hbb, (arrayLess_strictTotal natLt_strictTotal).irrefl]
  · have hne : a.size ≠ b.size := fun e => hs ((Grid.sizeEq_iff a b).2 e)
    simp [hs, hne]

theorem Grid.lt_strictTotal {n : Nat} {lt : α → α → Bool} (h : StrictTotal lt) : StrictTotal (Grid.lt (n := n) lt) :=
  strictTotal_lexProd (Grid.lt lt) Grid.size Grid.data
    (fun a b h1 h2 => by cases a; cases b; simp_all)
    (arrayLess_strictTotal natLt_strictTotal) (lexCompare_strictTotal h) Grid.lt_iff

/-! ## tree -/

mutual
theorem Tree.eq_iff {eq : α → α → Bool} (he : LawfulEq eq) : ∀ t u : Tree α, Tree.eq eq t u = true ↔ t = u
  | .node v cs, .node w ds => by
    rw [Tree.eq, Bool.and_eq_true, he v w, Tree.eqList_iff he cs ds]
    constructor
    · rintro ⟨rfl, rfl⟩; rfl
    · intro h; cases h; exact ⟨rfl, rfl⟩
theorem Tree.eqList_iff {eq : α → α → Bool} (he : LawfulEq eq) :
    ∀ ts us : List (Tree α), Tree.eqList eq ts us = true ↔ ts = us
  | [], [] => by simp [Tree.eqList]
  | c :: cs, d :: ds => by
    rw [Tree.eqList, Bool.and_eq_true, Tree.eq_iff he c d, Tree.eqList_iff he cs ds]
    constructor
    · rintro ⟨rfl, rfl⟩; rfl
    · intro h; cases h; exact ⟨rfl, rfl⟩
  | [], _ :: _ => by simp [Tree.eqList]
  | _ :: _, [] => by simp [Tree.eqList]
end

/-! ## raw_vector -/

theorem RawVec.eq_spec {eq : α → α → Bool} (he : LawfulEq eq) (l r : List α) :
    ∃ b, RawVec.eq eq l r = .ok b ∧ (b = true ↔ l = r) := by
  unfold RawVec.eq
  by_cases hs : l.length = r.length
  · simp only [hs, BEq.rfl, if_true]
    exact stdEqual3_same_length he l r hs
  · have : (l.length == r.length) = false := by simpa using hs
    rw [this]
    refine ⟨false, rfl, ?_⟩
    constructor
    · intro h; cases h
    · intro h; exact absurd (congrArg List.length h) hs

/-! ## reference, shared_ptr -/

theorem Ref.eq_iff (a b : Ref) : Ref.eq a b = true ↔ a = b := by
  cases a; cases b; simp [Ref.eq]

theorem Ref.lt_strictTotal : StrictTotal Ref.lt :=
  natLt_strictTotal.comap Ref.addr (fun a b h => by cases a; cases b; simp_all)

theorem SPtr.eq_iff (a b : SPtr) : SPtr.eq a b = true ↔ a.ptr = b.ptr := by
  simp [SPtr.eq]

end Fcppt.C17
