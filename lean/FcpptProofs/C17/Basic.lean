import FcpptModel.Spec.C17
/-!
# C17 — generic lemmas: order laws, `equalV`, `stdEqual3`, `lexCompare`, lexicographic products
-/
namespace Fcppt.C17
variable {α β γ : Type}

/-! ## laws -/

theorem LawfulEq.isEquivalence {eq : α → α → Bool} (h : LawfulEq eq) : IsEquivalence eq where
  refl a := (h a a).2 rfl
  symm a b hab := (h b a).2 ((h a b).1 hab).symm
  trans a b c hab hbc := (h a c).2 (((h a b).1 hab).trans ((h b c).1 hbc))

theorem LawfulEq.eq_false_iff {eq : α → α → Bool} (h : LawfulEq eq) (a b : α) : eq a b = false ↔ a ≠ b := by
  rw [← Bool.not_eq_true, h a b]

theorem StrictTotal.asymm {lt : α → α → Bool} (h : StrictTotal lt) {a b : α} (hab : lt a b = true) :
    lt b a = false := by
  cases hba : lt b a with
  | false => rfl
  | true =>
    have := h.trans a b a hab hba
    rw [h.irrefl] at this
    cases this

theorem StrictTotal.incomp_iff_eq {lt : α → α → Bool} (h : StrictTotal lt) (a b : α) : Incomp lt a b ↔ a = b := by
  constructor
  · rintro ⟨h1, h2⟩
    rcases h.total a b with h3 | h3 | h3
    · rw [h1] at h3; cases h3
    · exact h3
    · rw [h2] at h3; cases h3
  · rintro rfl
    exact ⟨h.irrefl a, h.irrefl a⟩

theorem StrictTotal.strictWeak {lt : α → α → Bool} (h : StrictTotal lt) : StrictWeak lt where
  irrefl := h.irrefl
  trans := h.trans
  incomp_trans a b c hab hbc := by
    have h1 := (h.incomp_iff_eq a b).1 hab
    have h2 := (h.incomp_iff_eq b c).1 hbc
    exact (h.incomp_iff_eq a c).2 (h1.trans h2)

/-- `!(b < a)` is `a < b ∨ a = b` for a strict total order -/
theorem StrictTotal.not_lt_iff {lt : α → α → Bool} (h : StrictTotal lt) (a b : α) :
    (!lt b a) = true ↔ (lt a b = true ∨ a = b) := by
  constructor
  · intro hn
    have hn' : lt b a = false := by simpa using hn
    rcases h.total a b with h3 | h3 | h3
    · exact Or.inl h3
    · exact Or.inr h3
    · rw [hn'] at h3; cases h3
  · rintro (h1 | rfl)
    · simp [h.asymm h1]
    · simp [h.irrefl]

theorem compatible_of {E : α → α → Prop} {lt : α → α → Bool} (he : ∀ a b, E a b ↔ a = b) (hl : StrictTotal lt) :
    Compatible E lt where
  incomp_of_eq a b hab := (hl.incomp_iff_eq a b).2 ((he a b).1 hab)
  eq_of_incomp a b hi := (he a b).2 ((hl.incomp_iff_eq a b).1 hi)
  congr_left a b c hab := by rw [(he a b).1 hab]
  congr_right a b c hab := by rw [(he a b).1 hab]

/-- the operators derived as in the headers (`b < a`, `!(b < a)`, `!(a < b)`) -/
theorem orderOps_of {lt : α → α → Bool} (hl : StrictTotal lt) :
    OrderOps lt (fun a b => lt b a) (fun a b => !lt b a) (fun a b => !lt a b) where
  gt_iff _ _ := Iff.rfl
  le_iff a b := hl.not_lt_iff a b
  ge_iff a b := by
    rw [hl.not_lt_iff b a]
    constructor
    · rintro (h | h)
      · exact Or.inl h
      · exact Or.inr h.symm
    · rintro (h | h)
      · exact Or.inl h
      · exact Or.inr h.symm

/-- order transported along an injective map -/
theorem StrictTotal.comap {lt : α → α → Bool} (h : StrictTotal lt) (f : γ → α)
    (inj : ∀ a b, f a = f b → a = b) : StrictTotal (fun a b => lt (f a) (f b)) where
  irrefl a := h.irrefl (f a)
  trans a b c := h.trans (f a) (f b) (f c)
  total a b := by
    rcases h.total (f a) (f b) with h1 | h1 | h1
    · exact Or.inl h1
    · exact Or.inr (Or.inl (inj a b h1))
    · exact Or.inr (Or.inr h1)

/-- lexicographic product: a relation that compares a first projection, then a second -/
theorem strictTotal_lexProd {ltA : α → α → Bool} {ltB : β → β → Bool} (lt : γ → γ → Bool)
    (f : γ → α) (g : γ → β) (inj : ∀ a b, f a = f b → g a = g b → a = b)
    (hA : StrictTotal ltA) (hB : StrictTotal ltB)
    (hlt : ∀ a b, lt a b = true ↔ (ltA (f a) (f b) = true ∨ (f a = f b ∧ ltB (g a) (g b) = true))) :
    StrictTotal lt where
  irrefl a := by
    rw [← Bool.not_eq_true, hlt]
    rintro (h | ⟨_, h⟩)
    · rw [hA.irrefl] at h; cases h
    · rw [hB.irrefl] at h; cases h
  trans a b c hab hbc := by
    rw [hlt] at hab hbc ⊢
    rcases hab with h1 | ⟨e1, h1⟩
    · rcases hbc with h2 | ⟨e2, _⟩
      · exact Or.inl (hA.trans _ _ _ h1 h2)
      · exact Or.inl (e2 ▸ h1)
    · rcases hbc with h2 | ⟨e2, h2⟩
      · exact Or.inl (e1 ▸ h2)
      · exact Or.inr ⟨e1.trans e2, hB.trans _ _ _ h1 h2⟩
  total a b := by
    rcases hA.total (f a) (f b) with h1 | h1 | h1
    · exact Or.inl ((hlt a b).2 (Or.inl h1))
    · rcases hB.total (g a) (g b) with h2 | h2 | h2
      · exact Or.inl ((hlt a b).2 (Or.inr ⟨h1, h2⟩))
      · exact Or.inr (Or.inl (inj a b h1 h2))
      · exact Or.inr (Or.inr ((hlt b a).2 (Or.inr ⟨h1.symm, h2⟩)))
    · exact Or.inr (Or.inr ((hlt b a).2 (Or.inl h1)))

/-- the shape `if a < b then true else if b < a then false else rest` -/
theorem threeWay_iff {lt : α → α → Bool} (h : StrictTotal lt) (x y : α) (rest : Bool) :
    (if lt x y = true then true else if lt y x = true then false else rest) = true ↔
      (lt x y = true ∨ (x = y ∧ rest = true)) := by
  by_cases h1 : lt x y = true
  · simp [h1]
  · by_cases h2 : lt y x = true
    · have hne : x ≠ y := by
        rintro rfl
        rw [h.irrefl] at h2; cases h2
      simp [h1, h2, hne]
    · have hxy : x = y := (h.incomp_iff_eq x y).1 ⟨by simpa using h1, by simpa using h2⟩
      subst hxy
      simp [h.irrefl]

theorem natLt_strictTotal : StrictTotal Grid.natLt where
  irrefl a := by simp [Grid.natLt]
  trans a b c := by simp only [Grid.natLt, decide_eq_true_eq]; omega
  total a b := by simp only [Grid.natLt, decide_eq_true_eq]; omega

theorem natEq_lawful : LawfulEq Grid.natEq := fun a b => by simp [Grid.natEq]

/-! ## `equalV` -/

theorem equalV_iff {n : Nat} {eq : α → α → Bool} (he : LawfulEq eq) (a b : Vector α n) :
    equalV eq a b = true ↔ a = b := by
  unfold equalV
  rw [List.all_eq_true]
  constructor
  · intro h
    apply Vector.ext
    intro i hi
    have := h ⟨i, hi⟩ (List.mem_finRange _)
    exact (he _ _).1 this
  · rintro rfl i _
    exact (he _ _).2 rfl

theorem equalV_lawful {n : Nat} {eq : α → α → Bool} (he : LawfulEq eq) : LawfulEq (equalV (n := n) eq) :=
  fun a b => equalV_iff he a b

/-! ## `stdEqual3` -/

/-- when the second range is at least as long: no fault, and the answer says whether the first range
equals the corresponding prefix of the second -/
theorem stdEqual3_ok {eq : α → α → Bool} (he : LawfulEq eq) :
    ∀ (a b : List α), a.length ≤ b.length →
      ∃ r, stdEqual3 eq a b = .ok r ∧ (r = true ↔ a = b.take a.length)
  | [], b, _ => ⟨true, rfl, by simp⟩
  | x :: xs, [], h => by simp at h
  | x :: xs, y :: ys, h => by
    have hl : xs.length ≤ ys.length := by simpa using h
    obtain ⟨r, hr, hiff⟩ := stdEqual3_ok he xs ys hl
    by_cases hxy : eq x y = true
    · refine ⟨r, by simp [stdEqual3, hxy, hr], ?_⟩
      rw [hiff, (he x y).1 hxy]
      simp
    · refine ⟨false, by simp [stdEqual3, hxy]; rfl, ?_⟩
      have : x ≠ y := fun e => hxy ((he x y).2 e)
      simp [this]

/-- ranges of the same length: the answer is equality -/
theorem stdEqual3_same_length {eq : α → α → Bool} (he : LawfulEq eq) (a b : List α) (h : a.length = b.length) :
    ∃ r, stdEqual3 eq a b = .ok r ∧ (r = true ↔ a = b) := by
  obtain ⟨r, hr, hiff⟩ := stdEqual3_ok he a b (by omega)
  refine ⟨r, hr, ?_⟩
  rw [hiff, h, List.take_length]

/-- the error branch: the second range is a proper prefix of the first → out-of-bounds read -/
theorem stdEqual3_oob {eq : α → α → Bool} (he : LawfulEq eq) :
    ∀ (b : List α) (x : α) (s : List α), stdEqual3 eq (b ++ x :: s) b = .error .oob
  | [], x, s => rfl
  | y :: ys, x, s => by
    have := stdEqual3_oob he ys x s
    simp [stdEqual3, (he y y).2 rfl, this]

/-! ## `lexCompare` -/

theorem lexCompare_cons_cons {lt : α → α → Bool} (h : StrictTotal lt) (x y : α) (xs ys : List α) :
    lexCompare lt (x :: xs) (y :: ys) = true ↔ (lt x y = true ∨ (x = y ∧ lexCompare lt xs ys = true)) := by
  rw [lexCompare]
  exact threeWay_iff h x y _

theorem lexCompare_irrefl {lt : α → α → Bool} (h : StrictTotal lt) : ∀ a : List α, lexCompare lt a a = false
  | [] => rfl
  | x :: xs => by
    rw [← Bool.not_eq_true, lexCompare_cons_cons h]
    rintro (h1 | ⟨_, h1⟩)
    · rw [h.irrefl] at h1; cases h1
    · rw [lexCompare_irrefl h xs] at h1; cases h1

theorem lexCompare_trans {lt : α → α → Bool} (h : StrictTotal lt) :
    ∀ a b c : List α, lexCompare lt a b = true → lexCompare lt b c = true → lexCompare lt a c = true
  | [], [], _, h1, _ => by simp [lexCompare] at h1
  | [], _ :: _, [], _, h2 => by simp [lexCompare] at h2
  | [], _ :: _, _ :: _, _, _ => rfl
  | _ :: _, [], _, h1, _ => by simp [lexCompare] at h1
  | _ :: _, _ :: _, [], _, h2 => by simp [lexCompare] at h2
  | x :: xs, y :: ys, z :: zs, h1, h2 => by
    rw [lexCompare_cons_cons h] at h1 h2 ⊢
    rcases h1 with h1 | ⟨e1, h1⟩
    · rcases h2 with h2 | ⟨e2, _⟩
      · exact Or.inl (h.trans _ _ _ h1 h2)
      · exact Or.inl (e2 ▸ h1)
    · rcases h2 with h2 | ⟨e2, h2⟩
      · exact Or.inl (e1 ▸ h2)
      · exact Or.inr ⟨e1.trans e2, lexCompare_trans h xs ys zs h1 h2⟩

theorem lexCompare_total {lt : α → α → Bool} (h : StrictTotal lt) :
    ∀ a b : List α, lexCompare lt a b = true ∨ a = b ∨ lexCompare lt b a = true
  | [], [] => Or.inr (Or.inl rfl)
  | [], _ :: _ => Or.inl rfl
  | _ :: _, [] => Or.inr (Or.inr rfl)
  | x :: xs, y :: ys => by
    rw [lexCompare_cons_cons h, lexCompare_cons_cons h]
    rcases h.total x y with h1 | h1 | h1
    · exact Or.inl (Or.inl h1)
    · rcases lexCompare_total h xs ys with h2 | h2 | h2
      · exact Or.inl (Or.inr ⟨h1, h2⟩)
      · exact Or.inr (Or.inl (by rw [h1, h2]))
      · exact Or.inr (Or.inr (Or.inr ⟨h1.symm, h2⟩))
    · exact Or.inr (Or.inr (Or.inl h1))

theorem lexCompare_strictTotal {lt : α → α → Bool} (h : StrictTotal lt) : StrictTotal (lexCompare lt) where
  irrefl := lexCompare_irrefl h
  trans := lexCompare_trans h
  total := lexCompare_total h

/-- `lexCompare` decides the declarative lexicographic order -/
theorem lexCompare_iff_lexLt {lt : α → α → Bool} (h : StrictTotal lt) :
    ∀ a b : List α, lexCompare lt a b = true ↔ LexLt lt a b := by
  intro a b
  constructor
  · intro hc
    induction a generalizing b with
    | nil =>
      cases b with
      | nil => simp [lexCompare] at hc
      | cons y ys => exact Or.inl ⟨y, ys, rfl⟩
    | cons x xs ih =>
      cases b with
      | nil => simp [lexCompare] at hc
      | cons y ys =>
        rw [lexCompare_cons_cons h] at hc
        rcases hc with h1 | ⟨rfl, h1⟩
        · exact Or.inr ⟨[], x, xs, y, ys, rfl, rfl, h1⟩
        · rcases ih ys h1 with ⟨y', t, e⟩ | ⟨p, x', s, y', t, e1, e2, hl⟩
          · exact Or.inl ⟨y', t, by rw [e]; rfl⟩
          · exact Or.inr ⟨x :: p, x', s, y', t, by rw [e1]; rfl, by rw [e2]; rfl, hl⟩
  · rintro (⟨y, t, rfl⟩ | ⟨p, x, s, y, t, rfl, rfl, hl⟩)
    · induction a with
      | nil => rfl
      | cons x xs ih =>
        show lexCompare lt (x :: xs) (x :: (xs ++ y :: t)) = true
        rw [lexCompare_cons_cons h]
        exact Or.inr ⟨rfl, ih⟩
    · induction p with
      | nil =>
        show lexCompare lt (x :: s) (y :: t) = true
        rw [lexCompare_cons_cons h]
        exact Or.inl hl
      | cons z p ih =>
        show lexCompare lt (z :: (p ++ x :: s)) (z :: (p ++ y :: t)) = true
        rw [lexCompare_cons_cons h]
        exact Or.inr ⟨rfl, ih⟩

/-! ## `arrayLess`, `pairLt` -/

theorem arrayLess_strictTotal {n : Nat} {lt : α → α → Bool} (h : StrictTotal lt) :
    StrictTotal (arrayLess (n := n) lt) :=
  (lexCompare_strictTotal h).comap (fun v : Vector α n => v.toList) (fun _ _ e => Vector.toList_inj.1 e)

theorem pairLt_iff {ltA : α → α → Bool} {ltB : β → β → Bool} (hA : StrictTotal ltA) (a b : α × β) :
    pairLt ltA ltB a b = true ↔ (ltA a.1 b.1 = true ∨ (a.1 = b.1 ∧ ltB a.2 b.2 = true)) := by
  unfold pairLt
  exact threeWay_iff hA a.1 b.1 _

theorem pairLt_strictTotal {ltA : α → α → Bool} {ltB : β → β → Bool} (hA : StrictTotal ltA) (hB : StrictTotal ltB) :
    StrictTotal (pairLt ltA ltB) :=
  strictTotal_lexProd (pairLt ltA ltB) Prod.fst Prod.snd (fun _ _ h1 h2 => Prod.ext h1 h2) hA hB (pairLt_iff hA)

end Fcppt.C17
