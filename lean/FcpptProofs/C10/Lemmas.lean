import FcpptModel.Model.C10
set_option linter.unusedSimpArgs false
/-!
Helper lemmas for C10: everything is reduced to the single observation `bit a j`
(bit `j % w` of word `j / w`), for which each operation has a one-line characterisation.
-/
namespace Fcppt.C10

variable {w : Nat}

/-- bit `j` of the word array (false outside the array) -/
def bit (a : Words w) (j : Nat) : Bool :=
  match a[j / w]? with
  | some x => x.getLsbD (j % w)
  | none => false

theorem mask_getLsbD (hw : 0 < w) (i k : Nat) (hk : k < w) :
    (mask w i).getLsbD k = decide (k = i % w) := by
  unfold mask
  rw [BitVec.getLsbD_shiftLeft]
  have hi : i % w < w := Nat.mod_lt _ hw
  by_cases h : k = i % w
  · subst h; simp [hk, hw]
  · simp only [hk, decide_true, Bool.true_and, h, decide_false]
    by_cases h2 : k < i % w
    · simp [h2]
    · have : k - i % w ≠ 0 := by omega
      simp [h2, BitVec.getLsbD_one, this]

theorem and_mask_ne_zero (hw : 0 < w) (x : BitVec w) (i : Nat) :
    ((x &&& mask w i) != 0#w) = x.getLsbD (i % w) := by
  have hi : i % w < w := Nat.mod_lt _ hw
  cases hb : x.getLsbD (i % w)
  · have : x &&& mask w i = 0#w := by
      apply BitVec.eq_of_getLsbD_eq
      intro k hk
      rw [BitVec.getLsbD_and, mask_getLsbD hw i k hk]
      by_cases h : k = i % w
      · subst h; simp [hb]
      · simp [h]
    simp [this]
  · have : x &&& mask w i ≠ 0#w := by
      intro h
      have := congrArg (·.getLsbD (i % w)) h
      simp [BitVec.getLsbD_and, mask_getLsbD hw i _ hi, hb] at this
    simp [this]

theorem get_eq_bit (hw : 0 < w) (a : Words w) (i : Nat) : get a i = bit a i := by
  unfold get bit
  cases a[i / w]? <;> simp [bitTest, and_mask_ne_zero hw]

theorem div_mod_eq {i j : Nat} (h1 : i / w = j / w) (h2 : i % w = j % w) : i = j := by
  rw [← Nat.div_add_mod i w, ← Nat.div_add_mod j w, h1, h2]

theorem bit_set (hw : 0 < w) (a : Words w) (i : Nat) (v : Bool) (hi : i / w < a.length) (j : Nat) :
    bit (set a i v) j = if j = i then v else bit a j := by
  unfold bit set
  rw [List.getElem?_modify]
  by_cases hji : j = i
  · subst hji
    have hm : j % w < w := Nat.mod_lt _ hw
    simp only [↓reduceIte, List.getElem?_eq_getElem hi, Option.map_some]
    cases v
    · simp [BitVec.getLsbD_and, BitVec.getLsbD_not, mask_getLsbD hw j _ hm, hm]
    · simp [BitVec.getLsbD_or, mask_getLsbD hw j _ hm]
  · simp only [hji, ↓reduceIte]
    by_cases hd : i / w = j / w
    · have hne : j % w ≠ i % w := fun h => hji (div_mod_eq hd.symm h)
      have hm : j % w < w := Nat.mod_lt _ hw
      simp only [hd, ↓reduceIte]
      cases a[j / w]? with
      | none => simp
      | some x =>
        have hmk : (mask w i).getLsbD (j % w) = false := by
          rw [mask_getLsbD hw i _ hm]; simp [hne]
        cases v
        · show (x &&& ~~~mask w i).getLsbD (j % w) = x.getLsbD (j % w)
          rw [BitVec.getLsbD_and, BitVec.getLsbD_not, hmk]; simp [hm]
        · show (x ||| mask w i).getLsbD (j % w) = x.getLsbD (j % w)
          rw [BitVec.getLsbD_or, hmk]; simp
    · simp [hd]

theorem length_set (a : Words w) (i : Nat) (v : Bool) : (set a i v).length = a.length := by
  simp [set]

theorem bit_zip (f : BitVec w → BitVec w → BitVec w) (g : Bool → Bool → Bool)
    (hfg : ∀ x y k, (f x y).getLsbD k = g (x.getLsbD k) (y.getLsbD k)) (hg : g false false = false)
    (a b : Words w) (hl : a.length = b.length) (j : Nat) :
    bit (List.zipWith f a b) j = g (bit a j) (bit b j) := by
  unfold bit
  rw [List.getElem?_zipWith]
  by_cases h : j / w < a.length
  · have h' : j / w < b.length := hl ▸ h
    simp [List.getElem?_eq_getElem h, List.getElem?_eq_getElem h', hfg]
  · have h' : ¬ j / w < b.length := hl ▸ h
    simp [List.getElem?_eq_none (Nat.le_of_not_lt h), List.getElem?_eq_none (Nat.le_of_not_lt h'), hg]

theorem bit_or (a b : Words w) (hl : a.length = b.length) (j : Nat) :
    bit (or a b) j = (bit a j || bit b j) :=
  bit_zip _ _ (fun _ _ _ => BitVec.getLsbD_or) rfl a b hl j

theorem bit_and (a b : Words w) (hl : a.length = b.length) (j : Nat) :
    bit (and a b) j = (bit a j && bit b j) :=
  bit_zip _ _ (fun _ _ _ => BitVec.getLsbD_and) rfl a b hl j

theorem bit_xor (a b : Words w) (hl : a.length = b.length) (j : Nat) :
    bit (xor a b) j = (bit a j ^^ bit b j) :=
  bit_zip _ (· ^^ ·) (fun _ _ _ => BitVec.getLsbD_xor) rfl a b hl j

theorem length_zip (f : BitVec w → BitVec w → BitVec w) (a b : Words w) (hl : a.length = b.length) :
    (List.zipWith f a b).length = a.length := by
  simp [hl]

theorem bit_null (n j : Nat) : bit (null n w) j = false := by
  unfold bit null
  rw [List.getElem?_replicate]
  by_cases h : j / w < nwords n w <;> simp [h]

theorem length_null (n : Nat) : (null n w).length = nwords n w := by simp [null]

/-- `(1 << r) - 1` has exactly the bits below `r` (for `r < w`). -/
theorem lastMask_getLsbD (r k : Nat) (hr : r < w) (hk : k < w) :
    (lastMask w r).getLsbD k = decide (k < r) := by
  unfold lastMask
  have h1 : (1#w <<< r) = BitVec.twoPow w r := by
    simp [BitVec.twoPow]
  rw [h1]
  have hlt : 2 ^ r < 2 ^ w := Nat.pow_lt_pow_right (by omega) hr
  have hpos : 0 < 2 ^ r := Nat.pow_pos (by omega)
  have h1w : 1 < 2 ^ w := by
    have : 2 ^ 0 < 2 ^ w := Nat.pow_lt_pow_right (by omega) (by omega)
    simpa using this
  have hnat : (BitVec.twoPow w r - 1#w).toNat = 2 ^ r - 1 := by
    rw [BitVec.toNat_sub, BitVec.toNat_twoPow, Nat.mod_eq_of_lt hlt, BitVec.toNat_ofNat,
      Nat.mod_eq_of_lt h1w]
    have : 2 ^ w - 1 + 2 ^ r = 2 ^ w + (2 ^ r - 1) := by omega
    rw [this, Nat.add_mod_left, Nat.mod_eq_of_lt (by omega)]
  rw [BitVec.getLsbD, hnat, Nat.testBit_two_pow_sub_one]

/-- number of words is enough for `n` bits and not more than needed -/
theorem nwords_spec (hw : 0 < w) (n : Nat) : n ≤ nwords n w * w ∧ (0 < n → (nwords n w - 1) * w < n) := by
  unfold nwords
  have h := Nat.div_add_mod (n + w - 1) w
  have hm := Nat.mod_lt (n + w - 1) hw
  generalize (n + w - 1) / w = q at *
  generalize (n + w - 1) % w = r at *
  constructor
  · rw [Nat.mul_comm q w]; omega
  · intro hn
    rcases q with _ | q
    · simp; exact hn
    · simp only [Nat.add_sub_cancel]
      have h1 : w * (q + 1) = w * q + w := by rw [Nat.mul_add, Nat.mul_one]
      rw [Nat.mul_comm q w]
      omega

theorem div_lt_nwords (hw : 0 < w) {n i : Nat} (hi : i < n) : i / w < nwords n w := by
  have := (nwords_spec hw n).1
  rw [Nat.div_lt_iff_lt_mul hw]; omega

end Fcppt.C10
