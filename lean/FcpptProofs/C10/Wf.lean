import FcpptProofs.C10.Lemmas
set_option linter.unusedSimpArgs false
/-!
Well-formedness (`Wf`): the array has `nwords n w` words and every bit at or above the enum
size is zero (`PadZero`).  It is established by every constructor and preserved by every
operation (including `~`), which is what makes `==` and `hash` depend on the denoted set only.
-/
namespace Fcppt.C10
variable {w : Nat}

structure Wf (n : Nat) (a : Words w) : Prop where
  len : a.length = nwords n w
  pad : ∀ j, n ≤ j → bit a j = false

theorem wf_null (n : Nat) : Wf n (null n w) := ⟨length_null n, fun j _ => bit_null n j⟩

theorem wf_set (hw : 0 < w) {n : Nat} {a : Words w} (h : Wf n a) {i : Nat} (hi : i < n) (v : Bool) :
    Wf n (set a i v) := by
  refine ⟨by rw [length_set, h.1], fun j hj => ?_⟩
  rw [bit_set hw a i v (h.1 ▸ div_lt_nwords hw hi)]
  have : j ≠ i := by omega
  simp [this, h.pad j hj]

theorem wf_or {n : Nat} {a b : Words w} (ha : Wf n a) (hb : Wf n b) : Wf n (or a b) := by
  have hl : a.length = b.length := by rw [ha.len, hb.len]
  exact ⟨by rw [or, length_zip _ a b hl, ha.len], fun j hj => by rw [bit_or a b hl, ha.pad j hj, hb.pad j hj]; rfl⟩

theorem wf_and {n : Nat} {a b : Words w} (ha : Wf n a) (hb : Wf n b) : Wf n (and a b) := by
  have hl : a.length = b.length := by rw [ha.len, hb.len]
  exact ⟨by rw [and, length_zip _ a b hl, ha.len], fun j hj => by rw [bit_and a b hl, ha.pad j hj, hb.pad j hj]; rfl⟩

theorem wf_xor {n : Nat} {a b : Words w} (ha : Wf n a) (hb : Wf n b) : Wf n (xor a b) := by
  have hl : a.length = b.length := by rw [ha.len, hb.len]
  exact ⟨by rw [xor, length_zip _ a b hl, ha.len], fun j hj => by rw [bit_xor a b hl, ha.pad j hj, hb.pad j hj]; rfl⟩

theorem length_not (n : Nat) (a : Words w) : (not n a).length = a.length := by
  unfold not; split <;> simp

/-- bit `j` of `~a`: the complement below the enum size, zero above it. -/
theorem bit_not_len (hw : 0 < w) {n : Nat} {a : Words w} (hlen : a.length = nwords n w) (j : Nat) :
    bit (not n a) j = (decide (j < n) && !bit a j) := by
  have h : a.length = nwords n w ∧ True := ⟨hlen, trivial⟩
  have hspec := nwords_spec hw n
  have hmw : j % w < w := Nat.mod_lt _ hw
  -- bit of the plain word-wise complement
  have hc : ∀ j, bit (a.map (~~~ ·)) j = (decide (j / w < nwords n w) && !bit a j) := by
    intro j
    unfold bit
    rw [List.getElem?_map]
    by_cases hl : j / w < a.length
    · have : j / w < nwords n w := h.1 ▸ hl
      simp [List.getElem?_eq_getElem hl, BitVec.getLsbD_not, Nat.mod_lt _ hw, this]
    · have : ¬ j / w < nwords n w := h.1 ▸ hl
      simp [List.getElem?_eq_none (Nat.le_of_not_lt hl), this]
  unfold not
  by_cases hr : n % w = 0
  · -- the enum fills the last word exactly: nwords * w = n
    simp only [hr, ne_eq, not_true_eq_false, ↓reduceIte]
    rw [hc]
    have hn : nwords n w * w = n := by
      have hk := Nat.div_add_mod n w
      rw [hr, Nat.add_zero, Nat.mul_comm] at hk
      rcases Nat.eq_zero_or_pos n with h0 | hpos
      · subst h0
        unfold nwords
        rw [Nat.zero_add, Nat.div_eq_of_lt (by omega), Nat.zero_mul]
      · have h1 := hspec.1
        have h2 := hspec.2 hpos
        generalize nwords n w = q at h1 h2 ⊢
        generalize n / w = k at hk
        subst hk
        have l1 : k ≤ q := Nat.le_of_mul_le_mul_right h1 hw
        have l2 : q - 1 < k := Nat.lt_of_mul_lt_mul_right h2
        have : q = k := by omega
        rw [this]
    have : (j / w < nwords n w) ↔ j < n := by
      rw [Nat.div_lt_iff_lt_mul hw, hn]
    simp [this]
  · simp only [ne_eq, hr, not_false_eq_true, ↓reduceIte]
    have hnpos : 0 < n := by
      rcases n with _ | n
      · simp at hr
      · omega
    have hlast := hspec.2 hnpos
    -- n = (nwords-1) * w + n % w
    have hnw : 0 < nwords n w := by
      have h2 := hspec.1
      rcases hq : nwords n w with _ | q
      · rw [hq] at h2; omega
      · omega
    have h3 : nwords n w * w = (nwords n w - 1) * w + w := by
      have : nwords n w = (nwords n w - 1) + 1 := by omega
      conv => lhs; rw [this, Nat.add_mul, Nat.one_mul]
    have hupper : n < (nwords n w - 1) * w + w := by
      rcases Nat.lt_or_ge n ((nwords n w - 1) * w + w) with hlt | hge
      · exact hlt
      · exfalso
        have h2 := hspec.1
        have : n = nwords n w * w := by omega
        rw [this] at hr
        simp at hr
    have hdecomp : n / w = nwords n w - 1 := by
      apply Nat.div_eq_of_lt_le
      · omega
      · rw [Nat.add_mul, Nat.one_mul]; omega
    unfold bit
    rw [List.getElem?_modify]
    by_cases hd : nwords n w - 1 = j / w
    · -- j is in the last word
      simp only [hd, ↓reduceIte]
      have hbm := hc j
      unfold bit at hbm
      have hjl : j / w < nwords n w := by
        rw [← hd]; omega
      have hjl' : j / w < (a.map (~~~ ·)).length := by simp [h.1, hjl]
      rw [List.getElem?_eq_getElem hjl'] at hbm ⊢
      simp only [Option.map_eq_map, Option.map_some, BitVec.getLsbD_and]
      have hbm' : (List.map (fun x : BitVec w => ~~~x) a)[j / w].getLsbD (j % w) = _ := hbm
      rw [hbm', lastMask_getLsbD _ _ (Nat.mod_lt _ hw) hmw]
      have hjn : j < n ↔ j % w < n % w := by
        have e1 := Nat.div_add_mod j w
        have e2 := Nat.div_add_mod n w
        rw [hdecomp, hd] at e2
        omega
      simp only [hjl, decide_true, Bool.true_and]
      by_cases hlt : j < n
      · simp [hlt, hjn.mp hlt]
      · have : ¬ j % w < n % w := fun hh => hlt (hjn.mpr hh)
        simp [hlt, this]
    · simp only [hd, ↓reduceIte]
      have hbm := hc j
      unfold bit at hbm
      have e : ((fun a => a) <$> (List.map (fun x : BitVec w => ~~~x) a)[j / w]?) = (List.map (fun x => ~~~x) a)[j / w]? := by
        cases (List.map (fun x : BitVec w => ~~~x) a)[j / w]? <;> rfl
      rw [e, hbm]
      -- j / w ≠ last word: either before (then j < n) or beyond the array
      by_cases hjl : j / w < nwords n w
      · have : j < n := by
          have hlt : j / w < nwords n w - 1 := by omega
          have e1 := Nat.div_add_mod j w
          have : (j / w + 1) * w ≤ (nwords n w - 1) * w := Nat.mul_le_mul_right _ hlt
          rw [Nat.add_mul, Nat.one_mul, Nat.mul_comm] at this
          omega
        simp [hjl, this]
      · have : ¬ j < n := by
          intro hjn
          exact hjl (div_lt_nwords hw hjn)
        simp [hjl, this]

theorem bit_not (hw : 0 < w) {n : Nat} {a : Words w} (h : Wf n a) (j : Nat) :
    bit (not n a) j = (decide (j < n) && !bit a j) := bit_not_len hw h.len j

/-- `~` yields a well-formed array from any array of the right length, dirty padding included. -/
theorem wf_not_len (hw : 0 < w) {n : Nat} {a : Words w} (h : a.length = nwords n w) : Wf n (not n a) := by
  refine ⟨by rw [length_not, h], fun j hj => ?_⟩
  rw [bit_not_len hw h]
  have : ¬ j < n := by omega
  simp [this]

theorem wf_not (hw : 0 < w) {n : Nat} {a : Words w} (h : Wf n a) : Wf n (not n a) := wf_not_len hw h.len

/-- Two arrays of the same length with the same bits are the same array. -/
theorem ext_bits (hw : 0 < w) {a b : Words w} (hl : a.length = b.length)
    (hall : ∀ j, bit a j = bit b j) : a = b := by
  apply List.ext_getElem hl
  intro k hk1 hk2
  apply BitVec.eq_of_getLsbD_eq
  intro t ht
  have := hall (k * w + t)
  unfold bit at this
  have e1 : (k * w + t) / w = k := by
    rw [Nat.mul_comm, Nat.mul_add_div hw, Nat.div_eq_of_lt ht, Nat.add_zero]
  have e2 : (k * w + t) % w = t := by
    rw [Nat.mul_comm, Nat.mul_add_mod, Nat.mod_eq_of_lt ht]
  rw [e1, e2, List.getElem?_eq_getElem hk1, List.getElem?_eq_getElem hk2] at this
  exact this

/-- bit `j` after `a.array()[k] = x` -/
theorem bit_poke (a : Words w) (k : Nat) (x : BitVec w) (hk : k < a.length) (j : Nat) :
    bit (poke a k x) j = if j / w = k then x.getLsbD (j % w) else bit a j := by
  unfold bit poke
  rw [List.getElem?_set]
  by_cases h : k = j / w
  · subst h; simp [hk]
  · have h' : ¬ j / w = k := fun e => h e.symm
    simp [h, h']

theorem wf_poke {n : Nat} {a : Words w} (h : Wf n a) {k : Nat} (hk : k < nwords n w) (x : BitVec w)
    (hx : ∀ j, n ≤ j → j / w = k → x.getLsbD (j % w) = false) : Wf n (poke a k x) := by
  refine ⟨by simp [poke, h.len], fun j hj => ?_⟩
  rw [bit_poke a k x (h.len ▸ hk)]
  by_cases e : j / w = k
  · simp [e, hx j hj e]
  · simp [e, h.pad j hj]

/-- Two well-formed arrays with the same bits below `n` are the same array. -/
theorem wf_ext (hw : 0 < w) {n : Nat} {a b : Words w} (ha : Wf n a) (hb : Wf n b)
    (h : ∀ i, i < n → bit a i = bit b i) : a = b := by
  have hall : ∀ j, bit a j = bit b j := by
    intro j
    by_cases hj : j < n
    · exact h j hj
    · rw [ha.pad j (by omega), hb.pad j (by omega)]
  apply List.ext_getElem (by rw [ha.len, hb.len])
  intro k hk1 hk2
  apply BitVec.eq_of_getLsbD_eq
  intro t ht
  have := hall (k * w + t)
  unfold bit at this
  have e1 : (k * w + t) / w = k := by
    rw [Nat.mul_comm, Nat.mul_add_div hw, Nat.div_eq_of_lt ht, Nat.add_zero]
  have e2 : (k * w + t) % w = t := by
    rw [Nat.mul_comm, Nat.mul_add_mod, Nat.mod_eq_of_lt ht]
  rw [e1, e2, List.getElem?_eq_getElem hk1, List.getElem?_eq_getElem hk2] at this
  exact this

end Fcppt.C10
