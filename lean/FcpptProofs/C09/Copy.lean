import FcpptProofs.C09.Basic
/-! # C09 — copy construction: fresh addresses, consistent links -/
namespace Fcppt.C09
open PT

theorem size_node (i v p ks) : (PT.node i v p ks).size = 1 + sizeL ks := by
  simp [PT.size, sizeL]

@[simp] theorem sizeL_nil : sizeL [] = 0 := rfl
@[simp] theorem sizeL_cons (k ks) : sizeL (k :: ks) = k.size + sizeL ks := by simp [sizeL]

theorem linkOK_setKids {t ks} : LinkOK (PT.setKids ks t) ↔ ∀ k ∈ ks, k.parent = some t.id ∧ LinkOK k := by
  cases t; simp [linkOK_node]

mutual
theorem cnt_copyT (i : Nat) : ∀ (t : PT) (n : Nat),
    cnt i (copyT n t) = if n ≤ i ∧ i < n + t.size then 1 else 0
  | .node j v p ks, n => by
    have h := cntL_copyLp i ks (n + 1) (some n)
    simp only [copyT, cnt_node, size_node, h]
    split <;> split <;> (try split) <;> omega
theorem cntL_copyLp (i : Nat) : ∀ (ks : List PT) (n : Nat) (p : Option Nat),
    cntL i (copyLp n p ks) = if n ≤ i ∧ i < n + sizeL ks then 1 else 0
  | [], n, p => by
    simp only [copyLp, cntL_nil]
    split
    · rename_i h; simp [sizeL] at h; omega
    · rfl
  | k :: ks, n, p => by
    have h1 := cnt_copyT i k n
    have h2 := cntL_copyLp i ks (n + k.size) p
    simp only [copyLp, cntL_cons, cnt_setParent, sizeL_cons, h1, h2]
    split <;> split <;> (try split) <;> omega
end

theorem copyT_id (n : Nat) (t : PT) : (copyT n t).id = n := by cases t; simp [copyT]
theorem copyT_parent (n : Nat) (t : PT) : (copyT n t).parent = none := by cases t; simp [copyT]

mutual
theorem linkOK_copyT : ∀ (t : PT) (n : Nat), LinkOK (copyT n t)
  | .node j v p ks, n => by
    simp only [copyT]
    exact linkOK_node.2 (linkOK_copyLp ks (n + 1) n)
theorem linkOK_copyLp : ∀ (ks : List PT) (n : Nat) (p : Nat),
    ∀ k ∈ copyLp n (some p) ks, k.parent = some p ∧ LinkOK k
  | [], n, p => by simp [copyLp]
  | k :: ks, n, p => by
    intro x hx
    simp only [copyLp, List.mem_cons] at hx
    rcases hx with rfl | hx
    · exact ⟨by simp, linkOK_setParent.2 (linkOK_copyT k n)⟩
    · exact linkOK_copyLp ks (n + k.size) p x hx
end

/-- the raw list copy (`child_list result(_children)`), whatever the elements' `parent_` is set to afterwards -/
theorem linkOK_copyLp_any : ∀ (ks : List PT) (n : Nat) (p : Option Nat), ∀ k ∈ copyLp n p ks, LinkOK k
  | [], n, p => by simp [copyLp]
  | k :: ks, n, p => by
    intro x hx
    simp only [copyLp, List.mem_cons] at hx
    rcases hx with rfl | hx
    · exact linkOK_setParent.2 (linkOK_copyT k n)
    · exact linkOK_copyLp_any ks (n + k.size) p x hx

end Fcppt.C09
