import FcpptProofs.C09.Refine
/-! # C09 — observers agree with the recursive reference computations -/
namespace Fcppt.C09
open PT

theorem size_pos (t : PT) : 1 ≤ t.size := by cases t; rw [size_node]; omega

theorem size_eq (t : PT) : t.size = 1 + sizeL t.kids := by cases t; exact size_node ..

theorem sizeL_append (ks ls : List PT) : sizeL (ks ++ ls) = sizeL ks + sizeL ls := by simp [sizeL]

/-! ## pre_order -/

def flatP (t : PT) : List Int := RT.flatten (abs t)

theorem flatP_eq (t : PT) : flatP t = t.val :: (t.kids.map flatP).flatten := by
  cases t; simp [flatP, RT.flatten, List.map_map, Function.comp_def]; rfl

theorem preLoop_eq : ∀ (f : Nat) (cur : PT) (st : List PT) (acc : List Int), cur.size + sizeL st ≤ f →
    preLoop f cur st acc = .ok (acc ++ flatP cur ++ (st.map flatP).flatten)
  | 0, cur, st, acc, h => by have := size_pos cur; omega
  | f + 1, .node i v p ks, st, acc, h => by
    rw [flatP_eq]
    rw [size_node] at h
    cases ks with
    | cons c rest =>
      simp only [preLoop, kids_node, val_node]
      rw [preLoop_eq f c (rest ++ st) _ (by simp only [sizeL_cons, sizeL_append] at h ⊢; omega)]
      simp
    | nil =>
      cases st with
      | nil => simp [preLoop]
      | cons t st' =>
        simp only [preLoop, kids_node, val_node]
        rw [preLoop_eq f t st' _ (by simp only [sizeL_cons, sizeL_nil] at h ⊢; omega)]
        simp

/-- the explicit-stack traversal yields the recursive pre-order sequence -/
theorem preOrder_eq (t : PT) : preOrder t = .ok (RT.flatten (abs t)) := by
  unfold preOrder
  rw [preLoop_eq t.size t [] [] (by simp)]
  simp [flatP]

/-! ## depth -/

theorem foldl_max_eq (l : List Nat) : ∀ a, l.foldl max a = max a (l.foldr max 0) := by
  induction l with
  | nil => intro a; simp
  | cons x xs ih => intro a; simp only [List.foldl_cons, List.foldr_cons, ih]; omega

theorem depth_eq : ∀ t : PT, depth t = RT.depth (abs t) :=
  PT.ind (fun i v p ks ih => by
    have e : ks.map depth = (ks.map abs).map RT.depth := by
      rw [List.map_map]; exact List.map_congr_left (fun k hk => ih k hk)
    simp only [depth, abs_node, RT.depth, foldl_max_eq, e]
    omega)

/-! ## comparison -/

mutual
theorem eqT_iff : ∀ (a b : PT), eqT a b = true ↔ abs a = abs b
  | .node _ v _ ks, .node _ w _ ls => by
    simp only [eqT, Bool.and_eq_true, beq_iff_eq, abs_node, RT.node.injEq, eqL_iff ks ls]
theorem eqL_iff : ∀ (ks ls : List PT), eqL ks ls = true ↔ ks.map abs = ls.map abs
  | [], [] => by simp [eqL]
  | [], _ :: _ => by simp [eqL]
  | _ :: _, [] => by simp [eqL]
  | k :: ks, l :: ls => by
    simp only [eqL, Bool.and_eq_true, eqT_iff k l, eqL_iff ks ls, List.map_cons, List.cons.injEq]
end

/-! ## map -/

mutual
theorem abs_mapT (f : Int → Int) : ∀ (t : PT) (n : Nat), abs (mapT f n t) = RT.map f (abs t)
  | .node j v p ks, n => by simp [mapT, RT.map, map_abs_mapLp f ks (n + 1) (some n), List.map_map, Function.comp_def]
theorem map_abs_mapLp (f : Int → Int) : ∀ (ks : List PT) (n : Nat) (p : Option Nat),
    (mapLp f n p ks).map abs = ks.map (fun k => RT.map f (abs k))
  | [], n, p => by simp [mapLp]
  | k :: ks, n, p => by simp [mapLp, abs_mapT f k n, map_abs_mapLp f ks (n + k.size) p]
end

theorem mapT_parent (f n t) : (mapT f n t).parent = none := by cases t; simp [mapT]

mutual
theorem linkOK_mapT (f : Int → Int) : ∀ (t : PT) (n : Nat), LinkOK (mapT f n t)
  | .node j v p ks, n => by
    simp only [mapT]
    exact linkOK_node.2 (linkOK_mapLp f ks (n + 1) n)
theorem linkOK_mapLp (f : Int → Int) : ∀ (ks : List PT) (n : Nat) (p : Nat),
    ∀ k ∈ mapLp f n (some p) ks, k.parent = some p ∧ LinkOK k
  | [], n, p => by simp [mapLp]
  | k :: ks, n, p => by
    intro x hx
    simp only [mapLp, List.mem_cons] at hx
    rcases hx with rfl | hx
    · exact ⟨by simp, linkOK_setParent.2 (linkOK_mapT f k n)⟩
    · exact linkOK_mapLp f ks (n + k.size) p x hx
end

end Fcppt.C09
