import FcpptProofs.C09.Refine
/-! # C09 — observers agree with the recursive reference computations -/
namespace Fcppt.C09
open PT

theorem size_pos (t : PT) : 1 ≤ t.size := by cases t; rw [size_node]; omega

theorem size_eq (t : PT) : t.size = 1 + sizeL t.kids := by cases t; exact size_node ..

theorem sizeL_append (ks ls : List PT) : sizeL (ks ++ ls) = sizeL ks + sizeL ls := by simp [sizeL]

/-! ## pre_order -/

/-- the sub-objects of `t` in recursive pre-order (`t` itself first) -/
def subs : PT → List PT
  | .node i v p ks => .node i v p ks :: (ks.map subs).flatten

theorem subs_eq (t : PT) : subs t = t :: (t.kids.map subs).flatten := by
  cases t; simp [subs]

theorem foldl_push (l st : List PT) : l.foldl (fun s e => e :: s) st = l.reverse ++ st := by
  induction l generalizing st with
  | nil => rfl
  | cons x xs ih => simp [ih]

/-- pushing `rbegin() … prev(rend())` leaves the children after the first on the stack, the second one on top -/
theorem pushRest_eq (c : PT) (rest st : List PT) : pushRest (c :: rest) st = rest ++ st := by
  simp [pushRest, foldl_push]

theorem preLoop_eq : ∀ (f : Nat) (cur : PT) (st : List PT) (acc : List PT), cur.size + sizeL st ≤ f →
    preLoop f cur st acc = .ok (acc ++ subs cur ++ (st.map subs).flatten)
  | 0, cur, st, acc, h => by have := size_pos cur; omega
  | f + 1, .node i v p ks, st, acc, h => by
    rw [subs_eq]
    rw [size_node] at h
    cases ks with
    | cons c rest =>
      simp only [preLoop, kids_node, pushRest_eq]
      rw [preLoop_eq f c (rest ++ st) _ (by simp only [sizeL_cons, sizeL_append] at h ⊢; omega)]
      simp
    | nil =>
      cases st with
      | nil => simp [preLoop]
      | cons t st' =>
        simp only [preLoop, kids_node]
        rw [preLoop_eq f t st' _ (by simp only [sizeL_cons, sizeL_nil] at h ⊢; omega)]
        simp

/-- the explicit-stack traversal visits exactly the sub-objects, in recursive pre-order -/
theorem preNodes_eq (t : PT) : preNodes t = .ok (subs t) := by
  unfold preNodes
  rw [preLoop_eq t.size t [] [] (by simp)]
  simp

theorem map_val_subs : ∀ t : PT, (subs t).map PT.val = RT.flatten (abs t) :=
  PT.ind (fun i v p ks ih => by
    simp only [subs, List.map_cons, val_node, abs_node, RT.flatten, List.map_flatten, List.map_map]
    congr 2
    exact List.map_congr_left (fun k hk => by simpa using ih k hk))

/-- the explicit-stack traversal yields the recursive pre-order sequence -/
theorem preOrder_eq (t : PT) : preOrder t = .ok (RT.flatten (abs t)) := by
  simp [preOrder, preNodes_eq, Except.map, map_val_subs]

/-! ## depth -/

theorem foldl_max_eq (l : List Nat) : ∀ a, l.foldl max a = max a (l.foldr max 0) := by
  induction l with
  | nil => intro a; simp
  | cons x xs ih => intro a; simp only [List.foldl_cons, List.foldr_cons, ih]; omega

theorem depth_eq : ∀ t : PT, depth t = RT.depth (abs t) :=
  PT.ind (fun i v p ks ih => by
    have e : ks.map depth = (ks.map abs).map RT.depth := by
      rw [List.map_map]; exact List.map_congr_left (fun k hk => ih k hk)
    simp only [depth, abs_node, RT.depth, foldl_max_eq, e]
    omega)

/-! ## comparison -/

mutual
theorem eqT_iff : ∀ (a b : PT), eqT a b = true ↔ abs a = abs b
  | .node _ v _ ks, .node _ w _ ls => by
    simp only [eqT, Bool.and_eq_true, beq_iff_eq, abs_node, RT.node.injEq, eqL_iff ks ls]
theorem eqL_iff : ∀ (ks ls : List PT), eqL ks ls = true ↔ ks.map abs = ls.map abs
  | [], [] => by simp [eqL]
  | [], _ :: _ => by simp [eqL]
  | _ :: _, [] => by simp [eqL]
  | k :: ks, l :: ls => by
    simp only [eqL, Bool.and_eq_true, eqT_iff k l, eqL_iff ks ls, List.map_cons, List.cons.injEq]
end

/-! ## map -/

mutual
theorem abs_mapT (f : Int → Int) : ∀ (t : PT) (n : Nat), abs (mapT f n t) = RT.map f (abs t)
  | .node j v p ks, n => by simp [mapT, RT.map, map_abs_mapLp f ks (n + 1) (some n), List.map_map, Function.comp_def]
theorem map_abs_mapLp (f : Int → Int) : ∀ (ks : List PT) (n : Nat) (p : Option Nat),
    (mapLp f n p ks).map abs = ks.map (fun k => RT.map f (abs k))
  | [], n, p => by simp [mapLp]
  | k :: ks, n, p => by simp [mapLp, abs_mapT f k n, map_abs_mapLp f ks (n + k.size) p]
end

theorem mapT_parent (f n t) : (mapT f n t).parent = none := by cases t; simp [mapT]

mutual
theorem linkOK_mapT (f : Int → Int) : ∀ (t : PT) (n : Nat), LinkOK (mapT f n t)
  | .node j v p ks, n => by
    simp only [mapT]
    exact linkOK_node.2 (linkOK_mapLp f ks (n + 1) n)
theorem linkOK_mapLp (f : Int → Int) : ∀ (ks : List PT) (n : Nat) (p : Nat),
    ∀ k ∈ mapLp f n (some p) ks, k.parent = some p ∧ LinkOK k
  | [], n, p => by simp [mapLp]
  | k :: ks, n, p => by
    intro x hx
    simp only [mapLp, List.mem_cons] at hx
    rcases hx with rfl | hx
    · exact ⟨by simp, linkOK_setParent.2 (linkOK_mapT f k n)⟩
    · exact linkOK_mapLp f ks (n + k.size) p x hx
end

end Fcppt.C09
