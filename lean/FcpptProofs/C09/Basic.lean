import FcpptModel.Model.C09
/-!
# C09 — basic lemmas: induction principle, address counting, path read/write, link predicate
-/
namespace Fcppt.C09
open PT

theorem PT.ind {P : PT → Prop} (h : ∀ i v p ks, (∀ k ∈ ks, P k) → P (.node i v p ks)) : ∀ t, P t
  | .node i v p ks => h i v p ks (fun k hk => by
      have := List.sizeOf_lt_of_mem hk
      exact PT.ind h k)
termination_by t => sizeOf t
decreasing_by simp; omega

/-- how many objects of the tree have address `i` -/
def cnt (i : Nat) : PT → Nat
  | .node j _ _ ks => (if i = j then 1 else 0) + (ks.map (cnt i)).sum

def cntL (i : Nat) (ks : List PT) : Nat := (ks.map (cnt i)).sum

theorem cnt_node (i j v p ks) : cnt i (.node j v p ks) = (if i = j then 1 else 0) + cntL i ks := by
  simp [cnt, cntL]

theorem cnt_eq (i : Nat) (t : PT) : cnt i t = (if i = t.id then 1 else 0) + cntL i t.kids := by
  cases t; exact cnt_node ..

@[simp] theorem cntL_nil (i) : cntL i [] = 0 := rfl
@[simp] theorem cntL_cons (i k ks) : cntL i (k :: ks) = cnt i k + cntL i ks := by simp [cntL]
@[simp] theorem cntL_append (i ks ls) : cntL i (ks ++ ls) = cntL i ks + cntL i ls := by simp [cntL]

theorem cnt_le_cntL {i k} {ks : List PT} (h : k ∈ ks) : cnt i k ≤ cntL i ks := by
  induction ks with
  | nil => cases h
  | cons x xs ih =>
    simp only [cntL_cons]
    rcases List.mem_cons.1 h with rfl | h
    · omega
    · have := ih h; omega

theorem cntL_perm {i} {ks ls : List PT} (h : ks.Perm ls) : cntL i ks = cntL i ls :=
  List.Perm.sum_nat (h.map _)

@[simp] theorem cnt_setParent (i p t) : cnt i (PT.setParent p t) = cnt i t := by
  cases t; simp [cnt_node]
@[simp] theorem cnt_setVal (i v t) : cnt i (PT.setVal v t) = cnt i t := by
  cases t; simp [cnt_node]
theorem cnt_setKids (i ks t) : cnt i (PT.setKids ks t) = (if i = t.id then 1 else 0) + cntL i ks := by
  cases t; exact cnt_node ..

@[simp] theorem cntL_reparent (i p ks) : cntL i (reparent p ks) = cntL i ks := by
  induction ks with
  | nil => rfl
  | cons k ks ih => simp only [reparent, List.map_cons, cntL_cons, cnt_setParent] at ih ⊢; omega

theorem cntL_set {i j} {ks : List PT} {k x} (h : ks[j]? = some k) :
    cntL i (ks.set j x) + cnt i k = cntL i ks + cnt i x := by
  induction ks generalizing j with
  | nil => simp at h
  | cons y ys ih =>
    cases j with
    | zero => simp at h; subst h; simp; omega
    | succ j => simp at h; have := ih h; simp; omega

theorem cntL_getElem {i} {j : Nat} {ks : List PT} {k} (h : ks[j]? = some k) : cnt i k ≤ cntL i ks :=
  cnt_le_cntL (List.mem_of_getElem? h)

theorem cntL_insertIdx {i n} {ks : List PT} {x} (h : n ≤ ks.length) :
    cntL i (ks.insertIdx n x) = cntL i ks + cnt i x := by
  rw [cntL_perm (List.perm_insertIdx x ks h)]; simp; omega

theorem cntL_eraseIdx {i n} {ks : List PT} {c} (h : ks[n]? = some c) :
    cntL i (ks.eraseIdx n) + cnt i c = cntL i ks := by
  induction ks generalizing n with
  | nil => simp at h
  | cons y ys ih =>
    cases n with
    | zero => simp at h; subst h; simp; omega
    | succ n => simp at h; have := ih h; simp; omega

theorem cntL_take_drop_le (i a b) (ks : List PT) (h : a ≤ b) :
    cntL i (ks.take a ++ ks.drop b) ≤ cntL i ks := by
  have h1 : cntL i ks = cntL i (ks.take a) + cntL i (ks.drop a) := by
    rw [← cntL_append, List.take_append_drop]
  have h2 : cntL i (ks.drop a) = cntL i ((ks.drop a).take (b - a)) + cntL i ((ks.drop a).drop (b - a)) := by
    rw [← cntL_append, List.take_append_drop]
  have h3 : (ks.drop a).drop (b - a) = ks.drop b := by
    rw [List.drop_drop]; congr 1; omega
  rw [h3] at h2
  simp only [cntL_append]; omega

theorem cntL_sort (i ks) : cntL i (sortKids ks) = cntL i ks :=
  cntL_perm (List.mergeSort_perm _ _)

/-! ## reading and writing at a path -/

theorem cnt_putT {i new} : ∀ {q t s}, getT q t = some s → cnt i (putT new q t) + cnt i s = cnt i t + cnt i new
  | [], t, s, h => by simp [getT] at h; subst h; simp [putT]; omega
  | j :: q, .node n v p ks, s, h => by
    simp only [getT, kids_node] at h
    cases hk : ks[j]? with
    | none => simp [hk] at h
    | some k =>
      simp only [hk] at h
      have ih := cnt_putT (i := i) (new := new) h
      have hs := cntL_set (i := i) (x := putT new q k) hk
      simp only [putT, hk, cnt_node]
      omega

theorem cntL_putF {i new} : ∀ {a F s}, getF a F = some s → cntL i (putF new a F) + cnt i s = cntL i F + cnt i new
  | [], F, s, h => by simp [getF] at h
  | r :: q, F, s, h => by
    simp only [getF] at h
    cases ht : F[r]? with
    | none => simp [ht] at h
    | some t =>
      simp only [ht] at h
      have h1 := cnt_putT (i := i) (new := new) h
      have h2 := cntL_set (i := i) (x := putT new q t) ht
      simp only [putF, ht]
      omega

theorem getT_putT_same {new} : ∀ {q t s}, getT q t = some s → getT q (putT new q t) = some new
  | [], t, s, _ => by simp [getT, putT]
  | j :: q, .node n v p ks, s, h => by
    simp only [getT, kids_node] at h
    cases hk : ks[j]? with
    | none => simp [hk] at h
    | some k =>
      simp only [hk] at h
      obtain ⟨hj, rfl⟩ := List.getElem?_eq_some_iff.1 hk
      simp [putT, hk, getT, hj, getT_putT_same h]

theorem getF_putF_same {new} : ∀ {a F s}, getF a F = some s → getF a (putF new a F) = some new
  | [], F, s, h => by simp [getF] at h
  | r :: q, F, s, h => by
    simp only [getF] at h
    cases ht : F[r]? with
    | none => simp [ht] at h
    | some t =>
      simp only [ht] at h
      obtain ⟨hr, rfl⟩ := List.getElem?_eq_some_iff.1 ht
      simp [putF, ht, getF, hr, getT_putT_same h]

theorem getT_putT_disj {new} : ∀ {a b : Path} {t}, isPrefix a b = false → isPrefix b a = false →
    getT b (putT new a t) = getT b t
  | [], b, t, h1, _ => by simp [isPrefix] at h1
  | _ :: _, [], t, _, h2 => by simp [isPrefix] at h2
  | x :: a, y :: b, .node n v p ks, h1, h2 => by
    simp only [putT]
    cases hk : ks[x]? with
    | none => rfl
    | some k =>
      simp only [getT, kids_node]
      by_cases hxy : x = y
      · subst hxy
        obtain ⟨hx, rfl⟩ := List.getElem?_eq_some_iff.1 hk
        simp [isPrefix] at h1 h2
        simp [hx, getT_putT_disj (new := new) (t := ks[x]) h1 h2]
      · rw [List.getElem?_set_ne hxy]

theorem getF_putF_disj {new} : ∀ {a b : Path} {F}, isPrefix a b = false → isPrefix b a = false →
    getF b (putF new a F) = getF b F
  | [], b, F, h1, _ => by simp [isPrefix] at h1
  | _ :: _, [], F, _, h2 => by simp [isPrefix] at h2
  | x :: a, y :: b, F, h1, h2 => by
    simp only [putF]
    cases ht : F[x]? with
    | none => rfl
    | some t =>
      simp only [getF]
      by_cases hxy : x = y
      · subst hxy
        obtain ⟨hx, rfl⟩ := List.getElem?_eq_some_iff.1 ht
        simp [isPrefix] at h1 h2
        simp [hx, getT_putT_disj (new := new) (t := F[x]) h1 h2]
      · rw [List.getElem?_set_ne hxy]

theorem putF_length (new : PT) (a : Path) (F : List PT) : (putF new a F).length = F.length := by
  cases a with
  | nil => rfl
  | cons r q => simp only [putF]; cases F[r]? <;> simp

/-! ## the link predicate -/

/-- every object below `t` names its owner in `parent_` (nothing is said about `t.parent` itself) -/
inductive LinkOK : PT → Prop
  | mk (i v p ks) : (∀ k ∈ ks, PT.parent k = some i) → (∀ k ∈ ks, LinkOK k) → LinkOK (.node i v p ks)

theorem linkOK_node {i v p ks} : LinkOK (.node i v p ks) ↔ ∀ k ∈ ks, k.parent = some i ∧ LinkOK k :=
  ⟨fun h => by cases h with | mk _ _ _ _ h1 h2 => exact fun k hk => ⟨h1 k hk, h2 k hk⟩,
   fun h => LinkOK.mk i v p ks (fun k hk => (h k hk).1) (fun k hk => (h k hk).2)⟩

theorem linkOK_iff (t : PT) : LinkOK t ↔ ∀ k ∈ t.kids, k.parent = some t.id ∧ LinkOK k := by
  cases t; simp [linkOK_node]

theorem linkOK_leaf (i v p) : LinkOK (.node i v p []) := linkOK_node.2 (by simp)

@[simp] theorem linkOK_setParent {p t} : LinkOK (PT.setParent p t) ↔ LinkOK t := by
  cases t; simp [linkOK_node]
@[simp] theorem linkOK_setVal {v t} : LinkOK (PT.setVal v t) ↔ LinkOK t := by
  cases t; simp [linkOK_node]

/-- re-parenting loop: afterwards the list may be hung below `self` -/
theorem linkOK_reparent {self ks} (h : ∀ k ∈ ks, LinkOK k) :
    ∀ k ∈ reparent self ks, k.parent = some self ∧ LinkOK k := by
  intro k hk
  simp only [reparent, List.mem_map] at hk
  obtain ⟨k0, hk0, rfl⟩ := hk
  exact ⟨by simp, linkOK_setParent.2 (h _ hk0)⟩

theorem LinkOK.kids {t} (h : LinkOK t) : ∀ k ∈ t.kids, LinkOK k :=
  fun k hk => ((linkOK_iff t).1 h k hk).2

theorem linkOK_getT : ∀ {q t s}, LinkOK t → getT q t = some s → LinkOK s
  | [], t, s, h, hg => by simp [getT] at hg; subst hg; exact h
  | j :: q, t, s, h, hg => by
    simp only [getT] at hg
    cases hk : t.kids[j]? with
    | none => simp [hk] at hg
    | some k =>
      simp only [hk] at hg
      exact linkOK_getT (h.kids k (List.mem_of_getElem? hk)) hg

theorem mem_set_iff {α} {l : List α} {j : Nat} {x y : α} (h : y ∈ l.set j x) : y = x ∨ y ∈ l := by
  rcases List.mem_or_eq_of_mem_set h with h | h
  · exact Or.inr h
  · exact Or.inl h

theorem putT_id_parent {new} : ∀ {q t s}, getT q t = some s → new.id = s.id → new.parent = s.parent →
    (putT new q t).id = t.id ∧ (putT new q t).parent = t.parent
  | [], t, s, h, h1, h2 => by simp [getT] at h; subst h; simp [putT, h1, h2]
  | j :: q, .node n v p ks, s, h, _, _ => by
    simp only [putT]; cases ks[j]? <;> simp

theorem linkOK_putT {new} : ∀ {q t s}, LinkOK t → getT q t = some s → new.id = s.id → new.parent = s.parent →
    LinkOK new → LinkOK (putT new q t)
  | [], t, s, _, _, _, _, hn => by simpa [putT] using hn
  | j :: q, .node n v p ks, s, h, hg, h1, h2, hn => by
    simp only [getT, kids_node] at hg
    cases hk : ks[j]? with
    | none => simp [hk] at hg
    | some k =>
      simp only [hk] at hg
      simp only [putT, hk]
      rw [linkOK_node] at h ⊢
      intro y hy
      rcases mem_set_iff hy with rfl | hy
      · have hk' := h k (List.mem_of_getElem? hk)
        have := putT_id_parent (new := new) hg h1 h2
        exact ⟨by rw [this.2]; exact hk'.1, linkOK_putT hk'.2 hg h1 h2 hn⟩
      · exact h y hy

/-- all roots have `parent_ == nullptr` and consistent links below -/
def Roots (F : List PT) : Prop := ∀ r ∈ F, r.parent = none ∧ LinkOK r

theorem roots_getF : ∀ {a F s}, Roots F → getF a F = some s → LinkOK s
  | [], F, s, _, h => by simp [getF] at h
  | r :: q, F, s, hr, h => by
    simp only [getF] at h
    cases ht : F[r]? with
    | none => simp [ht] at h
    | some t =>
      simp only [ht] at h
      exact linkOK_getT (hr t (List.mem_of_getElem? ht)).2 h

theorem roots_putF {new} : ∀ {a F s}, Roots F → getF a F = some s → new.id = s.id → new.parent = s.parent →
    LinkOK new → Roots (putF new a F)
  | [], F, s, _, h, _, _, _ => by simp [getF] at h
  | r :: q, F, s, hr, h, h1, h2, hn => by
    simp only [getF] at h
    cases ht : F[r]? with
    | none => simp [ht] at h
    | some t =>
      simp only [ht] at h
      simp only [putF, ht]
      intro y hy
      rcases mem_set_iff hy with rfl | hy
      · have ht' := hr t (List.mem_of_getElem? ht)
        have := putT_id_parent (new := new) h h1 h2
        exact ⟨by rw [this.2]; exact ht'.1, linkOK_putT ht'.2 h h1 h2 hn⟩
      · exact hr y hy

theorem roots_append {F G} (h1 : Roots F) (h2 : Roots G) : Roots (F ++ G) := by
  intro r hr
  rcases List.mem_append.1 hr with h | h
  · exact h1 r h
  · exact h2 r h

/-- The invariant of the property: addresses are unique and were all handed out already (`< next`),
roots have no parent, every child's `parent_` is the address of the object that lists it. -/
structure Inv (s : St) : Prop where
  uniq : ∀ i, cntL i s.forest ≤ 1
  fresh : ∀ i, s.next ≤ i → cntL i s.forest = 0
  roots : Roots s.forest

end Fcppt.C09
