import FcpptProofs.C09.Refine
/-! # C09 — `sort()` / `sort(Predicate)`: a stable sort of the child list that keeps the child objects themselves -/
namespace Fcppt.C09
open PT

/-- what `std::list::sort` requires of the comparison: a strict weak ordering -/
structure StrictWeak (lt : Int → Int → Bool) : Prop where
  asymm : ∀ a b, lt a b = true → lt b a = false
  negTrans : ∀ a b c, lt a b = false → lt b c = false → lt a c = false

/-- "`x` may stay in front of `y`" -/
def leBy (lt : Int → Int → Bool) (x y : PT) : Bool := !lt y.val x.val

theorem sortKidsBy_def (lt) (ks : List PT) : sortKidsBy lt ks = ks.mergeSort (leBy lt) := rfl

theorem leBy_trans {lt} (h : StrictWeak lt) (a b c : PT) : leBy lt a b = true → leBy lt b c = true → leBy lt a c = true := by
  simp only [leBy, Bool.not_eq_true']
  exact fun h1 h2 => h.negTrans _ _ _ h2 h1

theorem leBy_total {lt} (h : StrictWeak lt) (a b : PT) : (leBy lt a b || leBy lt b a) = true := by
  simp only [leBy, Bool.or_eq_true, Bool.not_eq_true']
  cases hba : lt b.val a.val with
  | false => exact Or.inl rfl
  | true => exact Or.inr (h.asymm _ _ hba)

/-- the sorted list consists of exactly the same child objects (same addresses, same `parent_`, same sub-trees) -/
theorem sortKidsBy_perm (lt) (ks : List PT) : (sortKidsBy lt ks).Perm ks := List.mergeSort_perm _ _

theorem sortKidsBy_sorted {lt} (h : StrictWeak lt) (ks : List PT) :
    (sortKidsBy lt ks).Pairwise (fun x y => lt y.val x.val = false) := by
  have := List.pairwise_mergeSort (le := leBy lt) (leBy_trans h) (leBy_total h) ks
  simpa [leBy, sortKidsBy_def] using this

/-- stability: a pair that already stands in an admissible order keeps its order -/
theorem sortKidsBy_stable_pair {lt} (h : StrictWeak lt) {ks : List PT} {x y : PT}
    (hxy : lt y.val x.val = false) (hs : [x, y].Sublist ks) : [x, y].Sublist (sortKidsBy lt ks) :=
  List.pair_sublist_mergeSort (le := leBy lt) (leBy_trans h) (leBy_total h) (by simp [leBy, hxy]) hs

/-- stability, list form: a group of children that is pairwise admissibly ordered (for instance all children of one
equivalence class of the predicate) appears in the result in its original order, as the same sub-sequence -/
theorem sortKidsBy_stable {lt} (h : StrictWeak lt) (ks : List PT) (c : PT → Bool)
    (hc : (ks.filter c).Pairwise (fun x y => lt y.val x.val = false)) :
    (sortKidsBy lt ks).filter c = ks.filter c := by
  have hsub : (ks.filter c).Sublist (sortKidsBy lt ks) :=
    List.sublist_mergeSort (le := leBy lt) (leBy_trans h) (leBy_total h)
      (by simpa [leBy] using hc) List.filter_sublist
  have h1 : ((ks.filter c).filter c).Sublist ((sortKidsBy lt ks).filter c) := hsub.filter c
  simp only [List.filter_filter, Bool.and_self] at h1
  have hlen : ((sortKidsBy lt ks).filter c).length = (ks.filter c).length :=
    ((sortKidsBy_perm lt ks).filter c).length_eq
  exact (h1.eq_of_length hlen.symm).symm

/-- all children whose value is equivalent to `v` under the predicate keep their relative order -/
theorem sortKidsBy_stable_class {lt} (h : StrictWeak lt) (ks : List PT) (v : Int) :
    (sortKidsBy lt ks).filter (fun x => !lt x.val v && !lt v x.val) = ks.filter (fun x => !lt x.val v && !lt v x.val) := by
  apply sortKidsBy_stable h
  -- every two members of the class are equivalent
  refine List.pairwise_of_forall_mem_list (fun x hx y hy => ?_)
  simp only [List.mem_filter, Bool.and_eq_true, Bool.not_eq_true'] at hx hy
  exact h.negTrans _ _ _ hy.2.1 hx.2.2

/-- membership in the equivalence class of `v` -/
def eqv (lt : Int → Int → Bool) (v : Int) (x : PT) : Bool := !lt x.val v && !lt v x.val

/-- Permutation + ordered + stable determine the result: two ordered arrangements of the same children that keep every
equivalence class in the same order are equal.  (So the three theorems above specify `sort` completely, whatever algorithm
`std::list::sort` uses.) -/
theorem sorted_stable_unique {lt} (h : StrictWeak lt) : ∀ (l1 l2 : List PT), l1.Perm l2 →
    l1.Pairwise (fun x y => lt y.val x.val = false) → l2.Pairwise (fun x y => lt y.val x.val = false) →
    (∀ v, l1.filter (eqv lt v) = l2.filter (eqv lt v)) → l1 = l2
  | [], l2, hp, _, _, _ => by simpa using hp.symm.eq_nil
  | x :: l1, [], hp, _, _, _ => by simpa using hp.eq_nil
  | x :: l1, y :: l2, hp, h1, h2, hf => by
    have hirr : ∀ a, lt a a = false := fun a => by
      cases haa : lt a a with
      | false => rfl
      | true => exact (h.asymm a a haa).symm.trans haa |>.symm ▸ rfl
    -- x and y are equivalent: each is minimal in its list and occurs in the other
    have hyx : lt y.val x.val = false := by
      have : y ∈ x :: l1 := hp.symm.mem_iff.1 (List.mem_cons_self)
      rcases List.mem_cons.1 this with rfl | hm
      · exact hirr _
      · exact (List.pairwise_cons.1 h1).1 y hm
    have hxy : lt x.val y.val = false := by
      have : x ∈ y :: l2 := hp.mem_iff.1 (List.mem_cons_self)
      rcases List.mem_cons.1 this with rfl | hm
      · exact hirr _
      · exact (List.pairwise_cons.1 h2).1 x hm
    -- so both head the class of x in their list, and the class lists are equal
    have hx : eqv lt x.val x = true := by simp [eqv, hirr]
    have hy : eqv lt x.val y = true := by simp [eqv, hyx, hxy]
    have e := hf x.val
    simp only [List.filter_cons, hx, hy, if_true, List.cons.injEq] at e
    obtain ⟨rfl, -⟩ := e
    have hp' : l1.Perm l2 := List.Perm.cons_inv hp
    have ht : ∀ v, l1.filter (eqv lt v) = l2.filter (eqv lt v) := by
      intro v
      have e := hf v
      simp only [List.filter_cons] at e
      split at e
      · exact (List.cons.inj e).2
      · exact e
    rw [sorted_stable_unique h l1 l2 hp' (List.pairwise_cons.1 h1).2 (List.pairwise_cons.1 h2).2 ht]

/-- the result of `sort(Predicate)` is the only ordered, stable arrangement of the children -/
theorem sortKidsBy_unique {lt} (h : StrictWeak lt) (ks l : List PT) (hp : l.Perm ks)
    (hs : l.Pairwise (fun x y => lt y.val x.val = false)) (hst : ∀ v, l.filter (eqv lt v) = ks.filter (eqv lt v)) :
    l = sortKidsBy lt ks :=
  sorted_stable_unique h l (sortKidsBy lt ks) (hp.trans (sortKidsBy_perm lt ks).symm) hs (sortKidsBy_sorted h ks)
    (fun v => (hst v).trans (sortKidsBy_stable_class h ks v).symm)

/-- a sorted list is left alone -/
theorem sortKidsBy_of_sorted {lt} (ks : List PT) (hs : ks.Pairwise (fun x y => lt y.val x.val = false)) :
    sortKidsBy lt ks = ks :=
  List.mergeSort_of_pairwise (le := leBy lt) (by simpa [leBy] using hs)

/-- sorting twice is sorting once -/
theorem sortKidsBy_idem {lt} (h : StrictWeak lt) (ks : List PT) : sortKidsBy lt (sortKidsBy lt ks) = sortKidsBy lt ks :=
  sortKidsBy_of_sorted _ (sortKidsBy_sorted h ks)

/-- `sort()` is `sort(Predicate)` with `<` -/
theorem sortKids_eq_sortKidsBy (ks : List PT) : sortKids ks = sortKidsBy (predOf 0) ks := by
  unfold sortKids sortKidsBy
  congr 1
  funext x y
  by_cases hxy : x.val ≤ y.val
  · have : ¬ y.val < x.val := by omega
    simp [predOf, hxy, this]
  · have : y.val < x.val := by omega
    simp [predOf, hxy, this]

theorem strictWeak_of_key (key : Int → Int) : StrictWeak (fun a b => decide (key a < key b)) where
  asymm a b := by simp only [decide_eq_true_eq, decide_eq_false_iff_not]; omega
  negTrans a b c := by simp only [decide_eq_false_iff_not]; omega

/-- every predicate the harness passes is a strict weak ordering -/
theorem predOf_strictWeak : ∀ k, StrictWeak (predOf k)
  | 0 => strictWeak_of_key id
  | 1 => by
    have := strictWeak_of_key (fun a => -a)
    refine ⟨fun a b => ?_, fun a b c => ?_⟩
    · have := this.asymm a b; simp only [predOf, decide_eq_true_eq, decide_eq_false_iff_not] at *; omega
    · have := this.negTrans a b c; simp only [predOf, decide_eq_false_iff_not] at *; omega
  | 2 => strictWeak_of_key (fun a => a % 3)
  | _ + 3 => by
    refine ⟨fun a b => ?_, fun a b c => ?_⟩
    · simp only [predOf, decide_eq_true_eq, decide_eq_false_iff_not]; omega
    · simp only [predOf, decide_eq_false_iff_not]; omega

end Fcppt.C09
