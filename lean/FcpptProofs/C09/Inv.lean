import FcpptProofs.C09.Copy
/-! # C09 — every operation preserves the invariant -/
namespace Fcppt.C09
open PT

theorem bind_ok {α β} {x : Except Fault α} {f : α → Except Fault β} {y : β} :
    (x >>= f) = .ok y ↔ ∃ a, x = .ok a ∧ f a = .ok y := by
  cases x <;> simp [bind, Except.bind]

theorem nodeAt_ok {F p t} : nodeAt F p = .ok t ↔ getF p F = some t := by
  unfold nodeAt; cases getF p F <;> simp

theorem optE_ok {α} {o : Option α} {a : α} : optE o = .ok a ↔ o = some a := by
  cases o <;> simp [optE]

theorem kidsOK {F a t} (hr : Roots F) (hg : getF a F = some t) :
    ∀ k ∈ t.kids, k.parent = some t.id ∧ LinkOK k :=
  (linkOK_iff t).1 (roots_getF hr hg)

theorem roots_put_setKids {F a t ks} (hr : Roots F) (hg : getF a F = some t)
    (h : ∀ k ∈ ks, k.parent = some t.id ∧ LinkOK k) : Roots (putF (t.setKids ks) a F) :=
  roots_putF hr hg (by simp) (by simp) (linkOK_setKids.2 h)

theorem ite_le_one (c : Prop) [Decidable c] : (if c then 1 else 0) ≤ 1 := by split <;> omega

/-- `moveCtor`: the new object -/
theorem cnt_moveCtor_fst (i n t) : cnt i (moveCtor n t).1 = (if i = n then 1 else 0) + cntL i t.kids := by
  simp [moveCtor, cnt_node]

theorem linkOK_moveCtor_fst {n t} (h : LinkOK t) : LinkOK (moveCtor n t).1 := by
  simp only [moveCtor]
  exact linkOK_node.2 (linkOK_reparent h.kids)

theorem moveCtor_fst_parent (n t) : (moveCtor n t).1.parent = none := rfl

theorem Pos.insIdx_le {pos : Pos} {len i} (h : pos.insIdx len = some i) : i ≤ len := by
  cases pos <;> simp [Pos.insIdx] at h <;> omega

theorem inv_new {s v} (h : Inv s) : Inv ⟨s.forest ++ [mkLeaf s.next v], s.next + 1⟩ where
  uniq i := by
    have h1 := h.uniq i; have h2 := h.fresh i
    simp only [cntL_append, cntL_cons, cntL_nil, mkLeaf, cnt_node]
    split <;> omega
  fresh i hi := by
    have h2 := h.fresh i
    simp only [cntL_append, cntL_cons, cntL_nil, mkLeaf, cnt_node] at hi ⊢
    split <;> omega
  roots := roots_append h.roots (by intro r hr; simp at hr; subst hr; exact ⟨rfl, linkOK_leaf _ _ _⟩)

theorem inv_del {s r} (h : Inv s) (hr : r < s.forest.length) : Inv ⟨s.forest.eraseIdx r, s.next⟩ := by
  have hc : s.forest[r]? = some s.forest[r] := List.getElem?_eq_getElem hr
  refine ⟨fun i => ?_, fun i hi => ?_, fun x hx => h.roots x (List.mem_of_mem_eraseIdx hx)⟩
  · have := cntL_eraseIdx (i := i) hc; have := h.uniq i; dsimp only; omega
  · have := cntL_eraseIdx (i := i) hc; have := h.fresh i hi; dsimp only; omega

/-- Writing back an object whose own address and parent link are unchanged.  Only the links and the
freshness bound of the heap before the write are needed, so the lemma also applies to intermediate heaps. -/
theorem inv_put {F : List PT} {a : Path} {t new : PT} {n' : Nat} (hr : Roots F)
    (hg : getF a F = some t) (hid : new.id = t.id) (hpar : new.parent = t.parent) (hl : LinkOK new)
    (hA : ∀ i, cntL i F + cntL i new.kids ≤ 1 + cntL i t.kids)
    (hB : ∀ i, n' ≤ i → cntL i F + cntL i new.kids ≤ cntL i t.kids) : Inv ⟨putF new a F, n'⟩ where
  uniq i := by
    have e := cntL_putF (i := i) (new := new) hg
    rw [cnt_eq i new, cnt_eq i t, hid] at e
    have := hA i
    dsimp only; omega
  fresh i hi := by
    have e := cntL_putF (i := i) (new := new) hg
    rw [cnt_eq i new, cnt_eq i t, hid] at e
    have := hB i hi
    dsimp only; omega
  roots := roots_putF hr hg hid hpar hl

theorem inv_setVal {s a t v} (h : Inv s) (hg : getF a s.forest = some t) :
    Inv ⟨putF (t.setVal v) a s.forest, s.next⟩ :=
  inv_put h.roots hg (by simp) (by simp) (linkOK_setVal.2 (roots_getF h.roots hg))
    (fun i => by have := h.uniq i; simp; omega) (fun i hi => by have := h.fresh i hi; simp; omega)

theorem mem_take_drop {α} {l : List α} {i j : Nat} {x : α} (h : x ∈ l.take i ++ l.drop j) : x ∈ l := by
  rcases List.mem_append.1 h with h | h
  · exact List.mem_of_mem_take h
  · exact List.mem_of_mem_drop h

theorem step_inv {s s' : St} {op : Op} (h : Inv s) (hguard : op.guard = true) (hs : step s op = .ok s') : Inv s' := by
  cases op with
  | new v => simp only [step, Except.ok.injEq] at hs; subst hs; exact inv_new h
  | del r =>
    simp only [step] at hs
    split at hs
    · simp only [Except.ok.injEq] at hs; subst hs; exact inv_del h ‹_›
    · cases hs
  | setVal a v =>
    simp only [step, bind_ok, nodeAt_ok] at hs
    obtain ⟨t, hg, hs⟩ := hs
    simp only [Except.ok.injEq] at hs; subst hs
    exact inv_setVal h hg
  | insV a pos v =>
    simp only [step, bind_ok, nodeAt_ok, optE_ok] at hs
    obtain ⟨t, hg, i, hi, hs⟩ := hs
    simp only [Except.ok.injEq] at hs; subst hs
    have hle := Pos.insIdx_le hi
    have hko := kidsOK h.roots hg
    refine inv_put h.roots hg (by simp) (by simp) (linkOK_setKids.2 ?_) (fun j => ?_) (fun j hj => ?_)
    · intro k hk
      rcases (List.mem_insertIdx hle).1 hk with rfl | hk
      · exact ⟨by simp, linkOK_setParent.2 (linkOK_moveCtor_fst (linkOK_leaf _ _ _))⟩
      · exact hko k hk
    · have := h.uniq j; have := h.fresh j
      simp only [kids_setKids, cntL_insertIdx hle, cnt_setParent, cnt_moveCtor_fst, mkLeaf, kids_node, cntL_nil]
      split <;> omega
    · have := h.fresh j (by omega)
      simp only [kids_setKids, cntL_insertIdx hle, cnt_setParent, cnt_moveCtor_fst, mkLeaf, kids_node, cntL_nil]
      rw [if_neg (by omega)]; omega
  | insT a pos b =>
    simp only [step, bind_ok, nodeAt_ok, optE_ok] at hs
    obtain ⟨tb, hgb, t, hg, i, hi, hs⟩ := hs
    simp only [Except.ok.injEq] at hs; subst hs
    have hle := Pos.insIdx_le hi
    have hr1 : Roots (putF (moveCtor s.next tb).2 b s.forest) :=
      roots_putF h.roots hgb (by simp [moveCtor]) (by simp [moveCtor]) (by simpa [moveCtor] using linkOK_setKids.2 (by simp))
    have e1 : ∀ j, cntL j (putF (moveCtor s.next tb).2 b s.forest) + cntL j tb.kids = cntL j s.forest := by
      intro j
      have e := cntL_putF (i := j) (new := (moveCtor s.next tb).2) hgb
      simp only [moveCtor, cnt_setKids, cntL_nil] at e
      rw [cnt_eq j tb] at e
      simp only [moveCtor]; omega
    have hko := kidsOK hr1 hg
    have hlb := roots_getF h.roots hgb
    refine inv_put hr1 hg (by simp) (by simp) (linkOK_setKids.2 ?_) (fun j => ?_) (fun j hj => ?_)
    · intro k hk
      rcases (List.mem_insertIdx hle).1 hk with rfl | hk
      · exact ⟨by simp, linkOK_setParent.2 (linkOK_moveCtor_fst hlb)⟩
      · exact hko k hk
    · have := h.uniq j; have := h.fresh j; have := e1 j
      simp only [kids_setKids, cntL_insertIdx hle, cnt_setParent, cnt_moveCtor_fst]
      split <;> omega
    · have := h.fresh j (by omega); have := e1 j
      simp only [kids_setKids, cntL_insertIdx hle, cnt_setParent, cnt_moveCtor_fst]
      rw [if_neg (by omega)]; omega
  | pop a pos keep =>
    simp only [step, bind_ok, nodeAt_ok, optE_ok] at hs
    obtain ⟨t, hg, oi, hoi, hs⟩ := hs
    cases oi with
    | none => simp only [Except.ok.injEq] at hs; subst hs; exact h
    | some i =>
      simp only [bind_ok, optE_ok] at hs
      obtain ⟨c, hc, hs⟩ := hs
      have hko := kidsOK h.roots hg
      have hcm : c ∈ t.kids := List.mem_of_getElem? hc
      have e0 : ∀ j, cntL j (t.kids.eraseIdx i) + cnt j c = cntL j t.kids := fun j => cntL_eraseIdx hc
      have hI : Inv ⟨putF (t.setKids (t.kids.eraseIdx i)) a s.forest, s.next + 1⟩ := by
        refine inv_put h.roots hg (by simp) (by simp) (linkOK_setKids.2 ?_) (fun j => ?_) (fun j hj => ?_)
        · exact fun k hk => hko k (List.mem_of_mem_eraseIdx hk)
        · have := h.uniq j; have := e0 j; simp only [kids_setKids]; omega
        · have := h.fresh j (by omega); have := e0 j; simp only [kids_setKids]; omega
      have e1 : ∀ j, cntL j (putF (t.setKids (t.kids.eraseIdx i)) a s.forest) + cnt j c = cntL j s.forest := by
        intro j
        have e := cntL_putF (i := j) (new := t.setKids (t.kids.eraseIdx i)) hg
        rw [cnt_setKids, cnt_eq j t] at e
        have := e0 j; omega
      split at hs
      · simp only [Except.ok.injEq] at hs; subst hs
        refine ⟨fun j => ?_, fun j hj => ?_, roots_append hI.roots ?_⟩
        · have := h.uniq j; have := h.fresh j; have := e1 j; have := cnt_eq j c
          simp only [cntL_append, cntL_cons, cntL_nil, moveCtor, cnt_node, setParent_node, kids_node, cntL_reparent]
          split <;> omega
        · dsimp only at hj
          have := h.fresh j (by omega); have := e1 j; have := cnt_eq j c
          simp only [cntL_append, cntL_cons, cntL_nil, moveCtor, cnt_node, setParent_node, kids_node, cntL_reparent]
          rw [if_neg (by omega)]; omega
        · intro r hr
          simp only [List.mem_singleton] at hr; subst hr
          exact ⟨rfl, linkOK_moveCtor_fst (linkOK_setParent.2 (linkOK_moveCtor_fst (hko c hcm).2))⟩
      · simp only [Except.ok.injEq] at hs; subst hs
        exact hI
  | erase a i =>
    simp only [step, bind_ok, nodeAt_ok] at hs
    obtain ⟨t, hg, hs⟩ := hs
    split at hs
    · simp only [Except.ok.injEq] at hs; subst hs
      have hko := kidsOK h.roots hg
      refine inv_put h.roots hg (by simp) (by simp) (linkOK_setKids.2 fun k hk => hko k (mem_take_drop hk))
        (fun j => ?_) (fun j hj => ?_)
      · have := h.uniq j; have := cntL_take_drop_le j i (i + 1) t.kids (by omega); simp only [kids_setKids]; omega
      · have := h.fresh j hj; have := cntL_take_drop_le j i (i + 1) t.kids (by omega); simp only [kids_setKids]; omega
    · cases hs
  | eraseRange a i k =>
    simp only [step, bind_ok, nodeAt_ok] at hs
    obtain ⟨t, hg, hs⟩ := hs
    split at hs
    · rename_i hik
      simp only [Except.ok.injEq] at hs; subst hs
      have hko := kidsOK h.roots hg
      refine inv_put h.roots hg (by simp) (by simp) (linkOK_setKids.2 fun k hk => hko k (mem_take_drop hk))
        (fun j => ?_) (fun j hj => ?_)
      · have := h.uniq j; have := cntL_take_drop_le j i k t.kids hik.1; simp only [kids_setKids]; omega
      · have := h.fresh j hj; have := cntL_take_drop_le j i k t.kids hik.1; simp only [kids_setKids]; omega
    · cases hs
  | clear a =>
    simp only [step, bind_ok, nodeAt_ok] at hs
    obtain ⟨t, hg, hs⟩ := hs
    simp only [Except.ok.injEq] at hs; subst hs
    refine inv_put h.roots hg (by simp) (by simp) (linkOK_setKids.2 (by simp)) (fun j => ?_) (fun j hj => ?_)
    · have := h.uniq j; simp only [kids_setKids, cntL_nil]; omega
    · have := h.fresh j hj; simp only [kids_setKids, cntL_nil]; omega
  | sort a =>
    simp only [step, bind_ok, nodeAt_ok] at hs
    obtain ⟨t, hg, hs⟩ := hs
    simp only [Except.ok.injEq] at hs; subst hs
    have hko := kidsOK h.roots hg
    refine inv_put h.roots hg (by simp) (by simp)
      (linkOK_setKids.2 fun k hk => hko k ((List.mergeSort_perm _ _).mem_iff.1 hk)) (fun j => ?_) (fun j hj => ?_)
    · have := h.uniq j; simp only [kids_setKids, cntL_sort]; omega
    · have := h.fresh j hj; simp only [kids_setKids, cntL_sort]; omega
  | swap a b =>
    simp only [step, bind_ok, nodeAt_ok] at hs
    obtain ⟨ta, hga, tb, hgb, tb1, hgb1, hs⟩ := hs
    simp only [Except.ok.injEq] at hs; subst hs
    have hla := roots_getF h.roots hga
    have hlb := roots_getF h.roots hgb
    have hr1 : Roots (putF (.node ta.id tb.val ta.parent (reparent ta.id tb.kids)) a s.forest) :=
      roots_putF h.roots hga rfl rfl (linkOK_node.2 (linkOK_reparent hlb.kids))
    have e1 : ∀ j, cntL j (putF (.node ta.id tb.val ta.parent (reparent ta.id tb.kids)) a s.forest) + cntL j ta.kids
        = cntL j s.forest + cntL j tb.kids := by
      intro j
      have e := cntL_putF (i := j) (new := .node ta.id tb.val ta.parent (reparent ta.id tb.kids)) hga
      rw [cnt_node, cnt_eq j ta, cntL_reparent] at e; omega
    have hkids : ∀ j, cntL j tb1.kids = cntL j tb.kids := by
      intro j
      simp only [Op.guard, Bool.or_eq_true, beq_iff_eq, Bool.and_eq_true, Bool.not_eq_true'] at hguard
      rcases hguard with rfl | ⟨h1, h2⟩
      · rw [getF_putF_same hga] at hgb1
        rw [hga] at hgb
        cases hgb1; cases hgb; simp
      · rw [getF_putF_disj h1 h2, hgb] at hgb1
        cases hgb1; rfl
    refine inv_put hr1 hgb1 rfl rfl (linkOK_node.2 (linkOK_reparent hla.kids)) (fun j => ?_) (fun j hj => ?_)
    · have := h.uniq j; have := e1 j; have := hkids j
      simp only [kids_node, cntL_reparent]; omega
    · have := h.fresh j hj; have := e1 j; have := hkids j
      simp only [kids_node, cntL_reparent]; omega
  | copyCtor b =>
    simp only [step, bind_ok, nodeAt_ok] at hs
    obtain ⟨t, hg, hs⟩ := hs
    simp only [Except.ok.injEq] at hs; subst hs
    refine ⟨fun j => ?_, fun j hj => ?_, roots_append h.roots ?_⟩
    · have := h.uniq j; have := h.fresh j
      simp only [cntL_append, cntL_cons, cntL_nil, cnt_copyT]
      split <;> omega
    · dsimp only at hj
      have := h.fresh j (by omega)
      simp only [cntL_append, cntL_cons, cntL_nil, cnt_copyT]
      rw [if_neg (by omega)]; omega
    · intro r hr
      simp only [List.mem_singleton] at hr; subst hr
      exact ⟨copyT_parent _ _, linkOK_copyT _ _⟩
  | moveCtor b =>
    simp only [step, bind_ok, nodeAt_ok] at hs
    obtain ⟨t, hg, hs⟩ := hs
    simp only [Except.ok.injEq] at hs; subst hs
    have hr1 : Roots (putF (moveCtor s.next t).2 b s.forest) :=
      roots_putF h.roots hg (by simp [moveCtor]) (by simp [moveCtor]) (by simpa [moveCtor] using linkOK_setKids.2 (by simp))
    have e1 : ∀ j, cntL j (putF (moveCtor s.next t).2 b s.forest) + cntL j t.kids = cntL j s.forest := by
      intro j
      have e := cntL_putF (i := j) (new := (moveCtor s.next t).2) hg
      simp only [moveCtor, cnt_setKids, cntL_nil] at e
      rw [cnt_eq j t] at e
      simp only [moveCtor]; omega
    refine ⟨fun j => ?_, fun j hj => ?_, roots_append hr1 ?_⟩
    · have := h.uniq j; have := h.fresh j; have := e1 j
      simp only [cntL_append, cntL_cons, cntL_nil, cnt_moveCtor_fst]
      split <;> omega
    · dsimp only at hj
      have := h.fresh j (by omega); have := e1 j
      simp only [cntL_append, cntL_cons, cntL_nil, cnt_moveCtor_fst]
      rw [if_neg (by omega)]; omega
    · intro r hr
      simp only [List.mem_singleton] at hr; subst hr
      exact ⟨rfl, linkOK_moveCtor_fst (roots_getF h.roots hg)⟩
  | copyAssign a b =>
    simp only [step] at hs
    split at hs
    · simp only [bind_ok, nodeAt_ok] at hs
      obtain ⟨_, _, hs⟩ := hs
      simp only [Except.ok.injEq] at hs; subst hs; exact h
    · simp only [bind_ok, nodeAt_ok] at hs
      obtain ⟨ta, hga, tb, hgb, tb1, hgb1, ta1, hga1, hs⟩ := hs
      simp only [Except.ok.injEq] at hs; subst hs
      have h1 := inv_setVal (v := tb.val) h hga
      refine inv_put h1.roots hga1 (by simp) (by simp) (linkOK_setKids.2 (linkOK_copyLp _ _ _)) (fun j => ?_) (fun j hj => ?_)
      · have := h1.uniq j; have := h1.fresh j
        simp only [kids_setKids, copyL, cntL_copyLp] at *
        split <;> omega
      · have := h1.fresh j (by dsimp only; omega)
        simp only [kids_setKids, copyL, cntL_copyLp] at *
        rw [if_neg (by omega)]; omega
  | moveAssign a b =>
    simp only [step, bind_ok, nodeAt_ok] at hs
    obtain ⟨ta, hga, tb, hgb, tb1, hgb1, ta2, hga2, hs⟩ := hs
    simp only [Except.ok.injEq] at hs; subst hs
    have h1 := inv_setVal (v := tb.val) h hga
    have hlb1 := roots_getF h1.roots hgb1
    have h2 : Inv ⟨putF (tb1.setKids []) b (putF (ta.setVal tb.val) a s.forest), s.next⟩ :=
      inv_put h1.roots hgb1 (by simp) (by simp) (linkOK_setKids.2 (by simp))
        (fun j => by have := h1.uniq j; simp only [kids_setKids, cntL_nil] at *; omega)
        (fun j hj => by have := h1.fresh j hj; simp only [kids_setKids, cntL_nil] at *; omega)
    have e2 : ∀ j, cntL j (putF (tb1.setKids []) b (putF (ta.setVal tb.val) a s.forest)) + cntL j tb1.kids
        = cntL j (putF (ta.setVal tb.val) a s.forest) := by
      intro j
      have e := cntL_putF (i := j) (new := tb1.setKids []) hgb1
      rw [cnt_setKids, cnt_eq j tb1, cntL_nil] at e; omega
    refine inv_put h2.roots hga2 (by simp) (by simp) (linkOK_setKids.2 (linkOK_reparent hlb1.kids)) (fun j => ?_) (fun j hj => ?_)
    · have := h1.uniq j; have := e2 j
      simp only [kids_setKids, cntL_reparent] at *; omega
    · have := h1.fresh j hj; have := e2 j
      simp only [kids_setKids, cntL_reparent] at *; omega

  | sortBy a k =>
    simp only [step, bind_ok, nodeAt_ok] at hs
    obtain ⟨t, hg, hs⟩ := hs
    simp only [Except.ok.injEq] at hs; subst hs
    have hko := kidsOK h.roots hg
    have hp : (sortKidsBy (predOf k) t.kids).Perm t.kids := List.mergeSort_perm _ _
    refine inv_put h.roots hg (by simp) (by simp)
      (linkOK_setKids.2 fun k hk => hko k (hp.mem_iff.1 hk)) (fun j => ?_) (fun j hj => ?_)
    · have := h.uniq j; simp only [kids_setKids, cntL_perm hp]; omega
    · have := h.fresh j hj; simp only [kids_setKids, cntL_perm hp]; omega
  | mkFrom b v =>
    simp only [step, bind_ok, nodeAt_ok] at hs
    obtain ⟨t, hg, hs⟩ := hs
    simp only [Except.ok.injEq] at hs; subst hs
    refine ⟨fun j => ?_, fun j hj => ?_, roots_append h.roots ?_⟩
    · have := h.uniq j; have := h.fresh j
      simp only [cntL_append, cntL_cons, cntL_nil, cnt_node, cntL_reparent, cntL_copyLp]
      split <;> split <;> omega
    · dsimp only at hj
      have := h.fresh j (by omega)
      simp only [cntL_append, cntL_cons, cntL_nil, cnt_node, cntL_reparent, cntL_copyLp]
      rw [if_neg (by omega), if_neg (by omega)]; omega
    · intro r hr
      simp only [List.mem_singleton] at hr; subst hr
      exact ⟨rfl, linkOK_node.2 (linkOK_reparent (linkOK_copyLp_any _ _ _))⟩

end Fcppt.C09
