import FcpptProofs.C09.ToRoot
/-! # C09 — the child list seen through `front()/back()`, `begin()/end()`, `rbegin()/rend()`, `size()/empty()`;
the objects visited by the traversals -/
namespace Fcppt.C09
open PT

theorem front_abs (t : PT) : (front t).map abs = RT.front (abs t) := by
  simp [front, RT.front, List.head?_map]

theorem back_abs (t : PT) : (back t).map abs = RT.back (abs t) := by
  simp [back, RT.back, List.getLast?_map]

theorem front_eq_none_iff (t : PT) : front t = none ↔ emptyK t = true := by
  simp [front, emptyK, List.head?_eq_none_iff]

theorem back_eq_none_iff (t : PT) : back t = none ↔ emptyK t = true := by
  simp [back, emptyK, List.getLast?_eq_none_iff]

theorem front_eq_getElem (t : PT) : front t = t.kids[0]? := by simp [front, List.head?_eq_getElem?]

theorem back_eq_getElem (t : PT) : back t = t.kids[sizeK t - 1]? := by
  simp [back, sizeK, List.getLast?_eq_getElem?]

theorem emptyK_iff (t : PT) : emptyK t = true ↔ sizeK t = 0 := by
  simp [emptyK, sizeK, List.isEmpty_iff]

theorem rev_eq (t : PT) : rev t = (fwd t).reverse := rfl
theorem sizeK_eq (t : PT) : sizeK t = (fwd t).length := rfl
theorem fwd_abs (t : PT) : (fwd t).map abs = (abs t).kids := by simp [fwd]
theorem rev_abs (t : PT) : (rev t).map abs = (abs t).kids.reverse := by simp [rev, List.map_reverse]

/-- the `j`-th position of `begin() … end()` on the node at path `p` is the object at path `p ++ [j]` -/
theorem fwd_getElem {F : List PT} {r : Nat} {q : Path} {t : PT} (h : getF (r :: q) F = some t) (j : Nat) :
    (fwd t)[j]? = getF (r :: (q ++ [j])) F := by
  rw [getF_snoc, h]; rfl

/-- the `j`-th position of `rbegin() … rend()` is the child `size() - 1 - j` -/
theorem rev_getElem (t : PT) (j : Nat) (hj : j < sizeK t) : (rev t)[j]? = (fwd t)[sizeK t - 1 - j]? := by
  simp only [rev, fwd, sizeK] at *
  rw [List.getElem?_reverse hj]

/-! ## the objects the pre-order traversal visits -/

theorem mem_subs_self (t : PT) : t ∈ subs t := by rw [subs_eq]; simp

theorem mem_subs_of_getT : ∀ {q : Path} {t x : PT}, getT q t = some x → x ∈ subs t
  | [], t, x, h => by simp only [getT, Option.some.injEq] at h; subst h; exact mem_subs_self _
  | j :: q, t, x, h => by
    simp only [getT] at h
    cases hk : t.kids[j]? with
    | none => simp [hk] at h
    | some k =>
      simp only [hk] at h
      rw [subs_eq]
      refine List.mem_cons_of_mem _ (List.mem_flatten.2 ⟨subs k, ?_, mem_subs_of_getT h⟩)
      exact List.mem_map.2 ⟨k, List.mem_of_getElem? hk, rfl⟩

theorem getT_of_mem_subs : ∀ (t : PT) {x : PT}, x ∈ subs t → ∃ q, getT q t = some x :=
  PT.ind (fun i v p ks ih x hx => by
    simp only [subs, List.mem_cons, List.mem_flatten, List.mem_map] at hx
    rcases hx with rfl | ⟨_, ⟨k, hk, rfl⟩, hxk⟩
    · exact ⟨[], rfl⟩
    · obtain ⟨q, hq⟩ := ih k hk hxk
      obtain ⟨j, hj⟩ := List.mem_iff_getElem?.1 hk
      exact ⟨j :: q, by simp [getT, hj, hq]⟩)

/-- the traversal visits exactly the sub-objects of the tree … -/
theorem mem_subs_iff (t x : PT) : x ∈ subs t ↔ ∃ q, getT q t = some x :=
  ⟨getT_of_mem_subs t, fun ⟨_, h⟩ => mem_subs_of_getT h⟩

/-- … each one once (as many as the tree has nodes) -/
theorem length_subs : ∀ t : PT, (subs t).length = t.size :=
  PT.ind (fun i v p ks ih => by
    have e : (ks.map subs).map List.length = ks.map PT.size := by
      rw [List.map_map]; exact List.map_congr_left (fun k hk => by simpa using ih k hk)
    simp only [subs, List.length_cons, List.length_flatten, e, PT.size]
    omega)

/-- the number of visited objects under the abstraction: the node count of the rose tree -/
theorem size_abs : ∀ t : PT, (abs t).size = t.size :=
  PT.ind (fun i v p ks ih => by
    have e : (ks.map abs).map RT.size = ks.map PT.size := by
      rw [List.map_map]; exact List.map_congr_left (fun k hk => by simpa using ih k hk)
    simp [RT.size, PT.size, e])

end Fcppt.C09
