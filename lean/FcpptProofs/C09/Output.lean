import FcpptProofs.C09.Members
import Std.Data.String.ToInt
/-! # C09 — `operator<<` (`output.hpp`, `detail/print.hpp`): the printed form determines the tree -/
namespace Fcppt.C09
open PT

theorem RT.ind {P : RT → Prop} (h : ∀ v ks, (∀ k ∈ ks, P k) → P (.node v ks)) : ∀ t, P t
  | .node v ks => h v ks (fun k hk => by
      have := List.sizeOf_lt_of_mem hk
      exact RT.ind h k)
termination_by t => sizeOf t
decreasing_by simp; omega

/-- the model's printing routine prints the denoted rose tree -/
theorem printT_eq : ∀ (t : PT) (d : Nat), printT d t = RT.lines d (abs t) :=
  PT.ind (fun i v p ks ih d => by
    simp only [printT, abs_node, RT.lines, List.map_map]
    congr 2
    exact List.map_congr_left (fun k hk => by simpa using ih k hk (d + 1)))

/-- the lines of the children of a node printed at indentation `d` -/
def kidLines (d : Nat) (ks : List RT) : List (Nat × Int) := (ks.map (RT.lines (d + 1))).flatten

theorem RT.lines_node (d v ks) : RT.lines d (.node v ks) = (d, v) :: kidLines d ks := by
  simp [RT.lines, kidLines]

@[simp] theorem kidLines_nil (d) : kidLines d [] = [] := rfl
@[simp] theorem kidLines_cons (d k ks) : kidLines d (k :: ks) = RT.lines (d + 1) k ++ kidLines d ks := by
  simp [kidLines]

/-- what follows a printed sub-tree of indentation `d` starts with a line of indentation `≤ d` (or nothing follows) -/
def LowHead (d : Nat) (r : List (Nat × Int)) : Prop := ∀ x, r.head? = some x → x.1 ≤ d

theorem lowHead_nil (d) : LowHead d [] := by intro x h; simp at h

theorem lowHead_kidLines {d r} (h : LowHead d r) (ks : List RT) : LowHead (d + 1) (kidLines d ks ++ r) := by
  cases ks with
  | nil => intro x hx; have := h x (by simpa using hx); omega
  | cons k ks =>
    cases k with
    | node v ls =>
      intro x hx
      simp only [kidLines_cons, RT.lines_node, List.cons_append, List.head?_cons, Option.some.injEq] at hx
      subst hx; exact Nat.le_refl _

theorem not_lowHead_lines {d : Nat} (k : RT) (rest : List (Nat × Int)) : ¬ LowHead d (RT.lines (d + 1) k ++ rest) := by
  cases k with
  | node v ls =>
    intro h
    have := h (d + 1, v) (by simp [RT.lines_node])
    simp only at this
    omega

theorem lines_inj_aux : ∀ (a : RT) (d : Nat) (b : RT) (r1 r2 : List (Nat × Int)), LowHead d r1 → LowHead d r2 →
    RT.lines d a ++ r1 = RT.lines d b ++ r2 → a = b ∧ r1 = r2 :=
  RT.ind (fun v ks ih d b r1 r2 h1 h2 he => by
    cases b with
    | node w ls =>
      simp only [RT.lines_node, List.cons_append, List.cons.injEq, Prod.mk.injEq, true_and] at he
      obtain ⟨rfl, he⟩ := he
      suffices hk : ks = ls ∧ r1 = r2 by exact ⟨by rw [hk.1], hk.2⟩
      clear v
      induction ks generalizing ls with
      | nil =>
        cases ls with
        | nil => exact ⟨rfl, by simpa using he⟩
        | cons l ls =>
          exfalso
          simp only [kidLines_nil, List.nil_append, kidLines_cons, List.append_assoc] at he
          exact not_lowHead_lines l _ (he ▸ h1)
      | cons k ks ihl =>
        cases ls with
        | nil =>
          exfalso
          simp only [kidLines_nil, List.nil_append, kidLines_cons, List.append_assoc] at he
          exact not_lowHead_lines k _ (he ▸ h2)
        | cons l ls =>
          simp only [kidLines_cons, List.append_assoc] at he
          obtain ⟨rfl, he'⟩ := ih k (List.mem_cons_self) (d + 1) l _ _ (lowHead_kidLines h1 ks) (lowHead_kidLines h2 ls) he
          obtain ⟨rfl, hr⟩ := ihl (fun k' hk' => ih k' (List.mem_cons_of_mem _ hk')) ls he'
          exact ⟨rfl, hr⟩)

/-- the indented line sequence determines the tree -/
theorem lines_injective (d : Nat) (a b : RT) (h : RT.lines d a = RT.lines d b) : a = b :=
  (lines_inj_aux a d b [] [] (lowHead_nil d) (lowHead_nil d) (by simpa using h)).1

/-- the values in the printed lines are the pre-order sequence -/
theorem lines_values : ∀ (t : RT) (d : Nat), (RT.lines d t).map Prod.snd = RT.flatten t :=
  RT.ind (fun v ks ih d => by
    simp only [RT.lines, RT.flatten, List.map_cons, List.map_flatten, List.map_map]
    congr 2
    exact List.map_congr_left (fun k hk => by simpa using ih k hk (d + 1)))

/-! ## from lines to characters -/

/-- `show` stands for the stream's formatting of a value: it never produces the two separator characters -/
def renderLineW (shw : Int → List Char) (tab nl : Char) (l : Nat × Int) : List Char := List.replicate l.1 tab ++ shw l.2 ++ [nl]
def renderW (shw : Int → List Char) (tab nl : Char) (ls : List (Nat × Int)) : List Char := (ls.map (renderLineW shw tab nl)).flatten

theorem render_eq_renderW (tab nl : Char) (ls : List (Nat × Int)) :
    render tab nl ls = renderW (fun v => (toString v).toList) tab nl ls := rfl

theorem replicate_append_inj {tab : Char} : ∀ (d1 d2 : Nat) (x1 x2 : List Char),
    (∀ c, x1.head? = some c → c ≠ tab) → (∀ c, x2.head? = some c → c ≠ tab) → x1 ≠ [] → x2 ≠ [] →
    List.replicate d1 tab ++ x1 = List.replicate d2 tab ++ x2 → d1 = d2 ∧ x1 = x2
  | 0, 0, x1, x2, _, _, _, _, h => ⟨rfl, by simpa using h⟩
  | 0, d2 + 1, x1, x2, h1, _, n1, _, h => by
    exfalso
    simp only [List.replicate_zero, List.nil_append, List.replicate_succ, List.cons_append] at h
    subst h; exact h1 tab (by simp) rfl
  | d1 + 1, 0, x1, x2, _, h2, _, n2, h => by
    exfalso
    simp only [List.replicate_zero, List.nil_append, List.replicate_succ, List.cons_append] at h
    subst h; exact h2 tab (by simp) rfl
  | d1 + 1, d2 + 1, x1, x2, h1, h2, n1, n2, h => by
    simp only [List.replicate_succ, List.cons_append, List.cons.injEq, true_and] at h
    obtain ⟨e, hx⟩ := replicate_append_inj d1 d2 x1 x2 h1 h2 n1 n2 h
    exact ⟨by omega, hx⟩

theorem append_sep_inj {nl : Char} : ∀ (s1 s2 r1 r2 : List Char), nl ∉ s1 → nl ∉ s2 →
    s1 ++ nl :: r1 = s2 ++ nl :: r2 → s1 = s2 ∧ r1 = r2
  | [], [], r1, r2, _, _, h => ⟨rfl, by simpa using h⟩
  | [], c :: s2, r1, r2, _, n2, h => by
    simp only [List.nil_append, List.cons_append, List.cons.injEq] at h
    exact absurd h.1 (fun e => n2 (by simp [e]))
  | c :: s1, [], r1, r2, n1, _, h => by
    simp only [List.nil_append, List.cons_append, List.cons.injEq] at h
    exact absurd h.1 (fun e => n1 (by simp [← e]))
  | c :: s1, c' :: s2, r1, r2, n1, n2, h => by
    simp only [List.cons_append, List.cons.injEq] at h
    obtain ⟨e, hr⟩ := append_sep_inj s1 s2 r1 r2 (fun m => n1 (List.mem_cons_of_mem _ m)) (fun m => n2 (List.mem_cons_of_mem _ m)) h.2
    exact ⟨by rw [h.1, e], hr⟩

/-- the character stream determines the line sequence, provided the value formatter is injective and never emits a separator -/
theorem renderW_injective {shw : Int → List Char} {tab nl : Char} (hne : tab ≠ nl)
    (hinj : ∀ a b, shw a = shw b → a = b) (hsep : ∀ v, tab ∉ shw v ∧ nl ∉ shw v) :
    ∀ (l1 l2 : List (Nat × Int)), renderW shw tab nl l1 = renderW shw tab nl l2 → l1 = l2
  | [], [], _ => rfl
  | [], x :: l2, h => by
    have := congrArg List.length h
    simp [renderW, renderLineW] at this
  | x :: l1, [], h => by
    have := congrArg List.length h
    simp [renderW, renderLineW] at this
  | (d1, v1) :: l1, (d2, v2) :: l2, h => by
    simp only [renderW, List.map_cons, List.flatten_cons, renderLineW, List.append_assoc] at h
    have hd : ∀ (v : Int) (R : List Char) c, (shw v ++ ([nl] ++ R)).head? = some c → c ≠ tab := by
      intro v R c hc e
      subst e
      cases hs : shw v with
      | nil => rw [hs] at hc; simp at hc; exact hne hc.symm
      | cons c' s' =>
        rw [hs] at hc; simp at hc; subst hc
        exact (hsep v).1 (by simp [hs])
    obtain ⟨rfl, hx⟩ := replicate_append_inj d1 d2 _ _ (hd v1 _) (hd v2 _) (by simp) (by simp) h
    simp only [List.singleton_append] at hx
    obtain ⟨hs, hr⟩ := append_sep_inj _ _ _ _ (hsep v1).2 (hsep v2).2 hx
    have := hinj _ _ hs
    subst this
    rw [renderW_injective hne hinj hsep l1 l2 hr]

/-- a character that decimal formatting of an `int` never produces -/
def IsSep (c : Char) : Prop := c.isDigit = false ∧ c ≠ '-'

theorem mem_toString_int {v : Int} {c : Char} (h : c ∈ (toString v).toList) : c.isDigit = true ∨ c = '-' := by
  rw [Int.toString_eq_repr, Int.repr_eq_if] at h
  split at h
  · left
    rw [Nat.toList_repr] at h
    exact Nat.isDigit_of_mem_toDigits (by omega) (by omega) h
  · simp only [String.toList_append, List.mem_append, Nat.toList_repr] at h
    rcases h with h | h
    · right; simpa using h
    · left; exact Nat.isDigit_of_mem_toDigits (by omega) (by omega) h

theorem not_mem_toString_int {v : Int} {c : Char} (hc : IsSep c) : c ∉ (toString v).toList := by
  intro h
  rcases mem_toString_int h with h | h
  · rw [hc.1] at h; cases h
  · exact hc.2 h

theorem toString_int_injective (a b : Int) (h : (toString a).toList = (toString b).toList) : a = b := by
  rw [String.toList_inj, Int.toString_eq_repr, Int.toString_eq_repr] at h
  exact Int.repr_injective h

/-- the characters written by `operator<<` determine the line sequence -/
theorem render_injective {tab nl : Char} (hne : tab ≠ nl) (ht : IsSep tab) (hn : IsSep nl) (l1 l2 : List (Nat × Int))
    (h : render tab nl l1 = render tab nl l2) : l1 = l2 :=
  renderW_injective hne toString_int_injective (fun _ => ⟨not_mem_toString_int ht, not_mem_toString_int hn⟩) l1 l2 h

theorem isSep_tab : IsSep '\t' := ⟨by rfl, by simp⟩
theorem isSep_newline : IsSep '\n' := ⟨by rfl, by simp⟩

end Fcppt.C09
