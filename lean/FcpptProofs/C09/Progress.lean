import FcpptProofs.C09.Inv
/-! # C09 — progress: an operation whose operands exist and whose indices are in range (and that is not the excluded
self-ownership misuse) never faults in the model -/
namespace Fcppt.C09
open PT

/-- the operands exist and the positions are in range -/
def Op.valid (F : List PT) : Op → Prop
  | .new _ => True
  | .del r => r < F.length
  | .setVal a _ => ∃ t, getF a F = some t
  | .insV a pos _ => ∃ t i, getF a F = some t ∧ pos.insIdx t.kids.length = some i
  | .insT a pos b => ∃ t tb i, getF a F = some t ∧ getF b F = some tb ∧ pos.insIdx t.kids.length = some i
  | .pop a pos _ => ∃ t oi, getF a F = some t ∧ pos.popIdx t.kids.length = some oi
  | .erase a i => ∃ t, getF a F = some t ∧ i < t.kids.length
  | .eraseRange a i j => ∃ t, getF a F = some t ∧ i ≤ j ∧ j ≤ t.kids.length
  | .clear a => ∃ t, getF a F = some t
  | .sort a => ∃ t, getF a F = some t
  | .sortBy a _ => ∃ t, getF a F = some t
  | .swap a b => ∃ ta tb, getF a F = some ta ∧ getF b F = some tb
  | .copyCtor b => ∃ t, getF b F = some t
  | .moveCtor b => ∃ t, getF b F = some t
  | .mkFrom b _ => ∃ t, getF b F = some t
  | .copyAssign a b => ∃ ta tb, getF a F = some ta ∧ getF b F = some tb
  | .moveAssign a b => ∃ ta tb, getF a F = some ta ∧ getF b F = some tb

/-- a write at `b` leaves an object that is not below (or at) `b` in place: same address, value, `parent_`, number of children -/
theorem getT_putT_not_below {new : PT} : ∀ {a b : Path} {t0 t : PT}, isPrefix b a = false → getT a t0 = some t →
    ∃ t', getT a (putT new b t0) = some t' ∧ t'.kids.length = t.kids.length ∧ t'.val = t.val ∧ t'.id = t.id ∧ t'.parent = t.parent
  | _, [], _, _, h, _ => by simp [isPrefix] at h
  | [], y :: b, .node n v p ks, t, _, hg => by
    simp only [getT, Option.some.injEq] at hg; subst hg
    simp only [putT]
    cases ks[y]? with
    | none => exact ⟨_, rfl, rfl, rfl, rfl, rfl⟩
    | some k => exact ⟨_, rfl, by simp, rfl, rfl, rfl⟩
  | x :: a, y :: b, .node n v p ks, t, h, hg => by
    simp only [getT, kids_node] at hg
    cases hx : ks[x]? with
    | none => simp [hx] at hg
    | some kx =>
      simp only [hx] at hg
      simp only [putT]
      cases hy : ks[y]? with
      | none => exact ⟨t, by simp [getT, hx, hg], rfl, rfl, rfl, rfl⟩
      | some ky =>
        by_cases hxy : y = x
        · subst hxy
          rw [hx] at hy; cases hy
          simp only [isPrefix, beq_self_eq_true, Bool.true_and] at h
          obtain ⟨t', h1, h2⟩ := getT_putT_not_below (new := new) h hg
          have hlt : y < ks.length := (List.getElem?_eq_some_iff.1 hx).1
          exact ⟨t', by simp [getT, hlt, h1], h2⟩
        · exact ⟨t, by simp [getT, List.getElem?_set_ne hxy, hx, hg], rfl, rfl, rfl, rfl⟩

theorem getF_putF_not_below {new : PT} : ∀ {a b : Path} {F : List PT} {t : PT}, isPrefix b a = false → getF a F = some t →
    ∃ t', getF a (putF new b F) = some t' ∧ t'.kids.length = t.kids.length ∧ t'.val = t.val ∧ t'.id = t.id ∧ t'.parent = t.parent
  | _, [], _, _, h, _ => by simp [isPrefix] at h
  | [], _ :: _, _, _, _, hg => by simp [getF] at hg
  | x :: a, y :: b, F, t, h, hg => by
    simp only [getF] at hg
    cases hx : F[x]? with
    | none => simp [hx] at hg
    | some tx =>
      simp only [hx] at hg
      simp only [putF]
      cases hy : F[y]? with
      | none => exact ⟨t, by simp [getF, hx, hg], rfl, rfl, rfl, rfl⟩
      | some ty =>
        by_cases hxy : y = x
        · subst hxy
          rw [hx] at hy; cases hy
          simp only [isPrefix, beq_self_eq_true, Bool.true_and] at h
          obtain ⟨t', h1, h2⟩ := getT_putT_not_below (new := new) h hg
          have hlt : y < F.length := (List.getElem?_eq_some_iff.1 hx).1
          exact ⟨t', by simp [getF, hlt, h1], h2⟩
        · exact ⟨t, by simp [getF, List.getElem?_set_ne hxy, hx, hg], rfl, rfl, rfl, rfl⟩

/-- overwriting the value of the object at `a` keeps every object of the heap in place -/
theorem getT_putT_setVal {v : Int} : ∀ {p a : Path} {t0 t x : PT}, getT a t0 = some t → getT p t0 = some x →
    ∃ x', getT p (putT (t.setVal v) a t0) = some x' ∧ x'.kids.length = x.kids.length ∧ x'.id = x.id
  | p, [], t0, t, x, ha, hp => by
    simp only [getT, Option.some.injEq] at ha; subst ha
    simp only [putT]
    cases p with
    | nil => simp only [getT, Option.some.injEq] at hp; subst hp; exact ⟨_, rfl, by simp, by simp⟩
    | cons j q => exact ⟨x, by simpa [getT] using hp, rfl, rfl⟩
  | [], y :: b, .node n w pp ks, t, x, ha, hp => by
    simp only [getT, Option.some.injEq] at hp; subst hp
    simp only [putT]
    cases ks[y]? with
    | none => exact ⟨_, rfl, rfl, rfl⟩
    | some k => exact ⟨_, rfl, by simp, rfl⟩
  | j :: q, y :: b, .node n w pp ks, t, x, ha, hp => by
    simp only [getT, kids_node] at ha hp
    cases hy : ks[y]? with
    | none => simp [hy] at ha
    | some ky =>
      simp only [hy] at ha
      cases hj : ks[j]? with
      | none => simp [hj] at hp
      | some kj =>
        simp only [hj] at hp
        simp only [putT, hy]
        by_cases hjy : y = j
        · subst hjy
          rw [hy] at hj; cases hj
          obtain ⟨x', h1, h2⟩ := getT_putT_setVal (v := v) ha hp
          have hlt : y < ks.length := (List.getElem?_eq_some_iff.1 hy).1
          exact ⟨x', by simp [getT, hlt, h1], h2⟩
        · exact ⟨x, by simp [getT, List.getElem?_set_ne hjy, hj, hp], rfl, rfl⟩

theorem getF_putF_setVal {v : Int} {p a : Path} {F : List PT} {t x : PT} (ha : getF a F = some t) (hp : getF p F = some x) :
    ∃ x', getF p (putF (t.setVal v) a F) = some x' ∧ x'.kids.length = x.kids.length ∧ x'.id = x.id := by
  cases a with
  | nil => simp [getF] at ha
  | cons r b =>
    cases p with
    | nil => simp [getF] at hp
    | cons j q =>
      simp only [getF] at ha hp
      cases hr : F[r]? with
      | none => simp [hr] at ha
      | some tr =>
        simp only [hr] at ha
        cases hj : F[j]? with
        | none => simp [hj] at hp
        | some tj =>
          simp only [hj] at hp
          simp only [putF, hr]
          by_cases hjr : r = j
          · subst hjr
            rw [hr] at hj; cases hj
            obtain ⟨x', h1, h2⟩ := getT_putT_setVal (v := v) ha hp
            have hlt : r < F.length := (List.getElem?_eq_some_iff.1 hr).1
            exact ⟨x', by simp [getF, hlt, h1], h2⟩
          · exact ⟨x, by simp [getF, List.getElem?_set_ne hjr, hj, hp], rfl, rfl⟩

theorem isPrefix_refl : ∀ p : Path, isPrefix p p = true
  | [] => rfl
  | x :: p => by simp [isPrefix, isPrefix_refl p]

theorem ex_ok {α} {x : Except Fault α} (h : x.isOk = true) : ∃ a, x = .ok a := by
  cases x <;> simp [Except.isOk, Except.toBool] at h ⊢

/-- **Progress.**  A valid operation that is not the excluded misuse succeeds. -/
theorem step_progress {s : St} {op : Op} (hg : op.guard = true) (hv : op.valid s.forest) : ∃ s', step s op = .ok s' := by
  cases op with
  | new v => exact ⟨_, rfl⟩
  | del r => simp only [Op.valid] at hv; exact ex_ok (by simp [step, hv, Except.isOk, Except.toBool])
  | setVal a v =>
    obtain ⟨t, ht⟩ := hv
    exact ex_ok (by simp [step, nodeAt, ht, bind, Except.bind, Except.isOk, Except.toBool])
  | insV a pos v =>
    obtain ⟨t, i, ht, hi⟩ := hv
    exact ex_ok (by simp [step, nodeAt, ht, hi, optE, bind, Except.bind, Except.isOk, Except.toBool])
  | insT a pos b =>
    obtain ⟨t, tb, i, ht, htb, hi⟩ := hv
    simp only [Op.guard, Bool.not_eq_true'] at hg
    obtain ⟨t', h1, h2, -⟩ := getF_putF_not_below (new := (moveCtor s.next tb).2) hg ht
    exact ex_ok (by simp [step, nodeAt, htb, h1, h2, hi, optE, bind, Except.bind, Except.isOk, Except.toBool])
  | pop a pos keep =>
    obtain ⟨t, oi, ht, hoi⟩ := hv
    cases oi with
    | none => exact ex_ok (by simp [step, nodeAt, ht, hoi, optE, bind, Except.bind, Except.isOk, Except.toBool])
    | some i =>
      have hlt : i < t.kids.length := by
        cases pos <;> simp only [Pos.popIdx] at hoi <;> split at hoi <;> simp at hoi <;> omega
      have hc : t.kids[i]? = some t.kids[i] := List.getElem?_eq_getElem hlt
      cases keep <;> exact ex_ok (by simp [step, nodeAt, ht, hoi, hc, optE, bind, Except.bind, Except.isOk, Except.toBool])
  | erase a i =>
    obtain ⟨t, ht, hi⟩ := hv
    exact ex_ok (by simp [step, nodeAt, ht, hi, bind, Except.bind, Except.isOk, Except.toBool])
  | eraseRange a i j =>
    obtain ⟨t, ht, hi⟩ := hv
    exact ex_ok (by simp [step, nodeAt, ht, hi, bind, Except.bind, Except.isOk, Except.toBool])
  | clear a =>
    obtain ⟨t, ht⟩ := hv
    exact ex_ok (by simp [step, nodeAt, ht, bind, Except.bind, Except.isOk, Except.toBool])
  | sort a =>
    obtain ⟨t, ht⟩ := hv
    exact ex_ok (by simp [step, nodeAt, ht, bind, Except.bind, Except.isOk, Except.toBool])
  | sortBy a k =>
    obtain ⟨t, ht⟩ := hv
    exact ex_ok (by simp [step, nodeAt, ht, bind, Except.bind, Except.isOk, Except.toBool])
  | swap a b =>
    obtain ⟨ta, tb, hta, htb⟩ := hv
    simp only [Op.guard, Bool.or_eq_true, beq_iff_eq, Bool.and_eq_true, Bool.not_eq_true'] at hg
    have : ∃ tb1, getF b (putF (.node ta.id tb.val ta.parent (reparent ta.id tb.kids)) a s.forest) = some tb1 := by
      rcases hg with rfl | ⟨h1, _⟩
      · exact ⟨_, getF_putF_same hta⟩
      · obtain ⟨t', h, -⟩ := getF_putF_not_below (new := .node ta.id tb.val ta.parent (reparent ta.id tb.kids)) h1 htb
        exact ⟨t', h⟩
    obtain ⟨tb1, h1⟩ := this
    exact ex_ok (by simp [step, nodeAt, hta, htb, h1, bind, Except.bind, Except.isOk, Except.toBool])
  | copyCtor b =>
    obtain ⟨t, ht⟩ := hv
    exact ex_ok (by simp [step, nodeAt, ht, bind, Except.bind, Except.isOk, Except.toBool])
  | moveCtor b =>
    obtain ⟨t, ht⟩ := hv
    exact ex_ok (by simp [step, nodeAt, ht, moveCtor, bind, Except.bind, Except.isOk, Except.toBool])
  | mkFrom b v =>
    obtain ⟨t, ht⟩ := hv
    exact ex_ok (by simp [step, nodeAt, ht, bind, Except.bind, Except.isOk, Except.toBool])
  | copyAssign a b =>
    obtain ⟨ta, tb, hta, htb⟩ := hv
    by_cases hab : a = b
    · exact ex_ok (by simp [step, hab, nodeAt, htb, bind, Except.bind, Except.isOk, Except.toBool])
    · obtain ⟨tb1, h1, -⟩ := getF_putF_setVal (v := tb.val) hta htb
      obtain ⟨ta1, h2, -⟩ := getF_putF_setVal (v := tb.val) hta hta
      exact ex_ok (by simp [step, hab, nodeAt, hta, htb, h1, h2, bind, Except.bind, Except.isOk, Except.toBool])
  | moveAssign a b =>
    obtain ⟨ta, tb, hta, htb⟩ := hv
    simp only [Op.guard, Bool.or_eq_true, beq_iff_eq, Bool.not_eq_true'] at hg
    obtain ⟨tb1, h1, -⟩ := getF_putF_setVal (v := tb.val) hta htb
    obtain ⟨ta1, h2, -⟩ := getF_putF_setVal (v := tb.val) hta hta
    have : ∃ ta2, getF a (putF (tb1.setKids []) b (putF (ta.setVal tb.val) a s.forest)) = some ta2 := by
      rcases hg with rfl | hg
      · exact ⟨_, getF_putF_same h1⟩
      · obtain ⟨t', h, -⟩ := getF_putF_not_below (new := tb1.setKids []) hg h2
        exact ⟨t', h⟩
    obtain ⟨ta2, h3⟩ := this
    exact ex_ok (by simp [step, nodeAt, hta, htb, h1, h3, bind, Except.bind, Except.isOk, Except.toBool])

/-- conversely, an operation that succeeds was valid: `Op.valid` is exactly the precondition of `step` (for guarded operations) -/
theorem putT_getT : ∀ {q : Path} {t x : PT}, getT q t = some x → putT x q t = t
  | [], t, x, h => by simp only [getT, Option.some.injEq] at h; subst h; rfl
  | j :: q, .node n v p ks, x, h => by
    simp only [getT, kids_node] at h
    cases hk : ks[j]? with
    | none => simp [hk] at h
    | some k =>
      simp only [hk] at h
      obtain ⟨hlt, rfl⟩ := List.getElem?_eq_some_iff.1 hk
      simp only [putT, hk, putT_getT h, List.set_getElem_self]

theorem putT_putT_same {x y : PT} : ∀ {q : Path} {t s : PT}, getT q t = some s → putT y q (putT x q t) = putT y q t
  | [], t, s, _ => rfl
  | j :: q, .node n v p ks, s, h => by
    simp only [getT, kids_node] at h
    cases hk : ks[j]? with
    | none => simp [hk] at h
    | some k =>
      simp only [hk] at h
      obtain ⟨hlt, rfl⟩ := List.getElem?_eq_some_iff.1 hk
      simp [putT, hlt, putT_putT_same h]

theorem putF_getF {a : Path} {F : List PT} {x : PT} (h : getF a F = some x) : putF x a F = F := by
  cases a with
  | nil => rfl
  | cons r q =>
    simp only [getF] at h
    cases ht : F[r]? with
    | none => simp [ht] at h
    | some t =>
      simp only [ht] at h
      obtain ⟨hlt, rfl⟩ := List.getElem?_eq_some_iff.1 ht
      simp only [putF, ht, putT_getT h, List.set_getElem_self]

theorem putF_putF_same {x y : PT} {a : Path} {F : List PT} {s : PT} (h : getF a F = some s) :
    putF y a (putF x a F) = putF y a F := by
  cases a with
  | nil => rfl
  | cons r q =>
    simp only [getF] at h
    cases ht : F[r]? with
    | none => simp [ht] at h
    | some t =>
      simp only [ht] at h
      obtain ⟨hlt, rfl⟩ := List.getElem?_eq_some_iff.1 ht
      simp [putF, hlt, putT_putT_same h]

theorem valid_of_step_ok {s s' : St} {op : Op} (hguard : op.guard = true) (hs : step s op = .ok s') : op.valid s.forest := by
  cases op with
  | new v => trivial
  | del r =>
    simp only [step] at hs
    split at hs
    · assumption
    · cases hs
  | setVal a v =>
    simp only [step, bind_ok, nodeAt_ok] at hs
    obtain ⟨t, hg, -⟩ := hs; exact ⟨t, hg⟩
  | insV a pos v =>
    simp only [step, bind_ok, nodeAt_ok, optE_ok] at hs
    obtain ⟨t, hg, i, hi, -⟩ := hs; exact ⟨t, i, hg, hi⟩
  | insT a pos b =>
    simp only [step, bind_ok, nodeAt_ok, optE_ok] at hs
    obtain ⟨tb, hgb, t, hg, i, hi, -⟩ := hs
    -- the receiver is read after the source was emptied; writing the source back shows it was there before, with as many children
    simp only [Op.guard, Bool.not_eq_true'] at hguard
    obtain ⟨t0, h0, hl, -⟩ := getF_putF_not_below (new := tb) hguard hg
    rw [putF_putF_same hgb, putF_getF hgb] at h0
    exact ⟨t0, tb, i, h0, hgb, by rw [hl]; exact hi⟩
  | pop a pos keep =>
    simp only [step, bind_ok, nodeAt_ok, optE_ok] at hs
    obtain ⟨t, hg, oi, hoi, -⟩ := hs; exact ⟨t, oi, hg, hoi⟩
  | erase a i =>
    simp only [step, bind_ok, nodeAt_ok] at hs
    obtain ⟨t, hg, hs⟩ := hs
    split at hs
    · exact ⟨t, hg, ‹_›⟩
    · cases hs
  | eraseRange a i j =>
    simp only [step, bind_ok, nodeAt_ok] at hs
    obtain ⟨t, hg, hs⟩ := hs
    split at hs
    · exact ⟨t, hg, ‹_›⟩
    · cases hs
  | clear a =>
    simp only [step, bind_ok, nodeAt_ok] at hs
    obtain ⟨t, hg, -⟩ := hs; exact ⟨t, hg⟩
  | sort a =>
    simp only [step, bind_ok, nodeAt_ok] at hs
    obtain ⟨t, hg, -⟩ := hs; exact ⟨t, hg⟩
  | sortBy a k =>
    simp only [step, bind_ok, nodeAt_ok] at hs
    obtain ⟨t, hg, -⟩ := hs; exact ⟨t, hg⟩
  | swap a b =>
    simp only [step, bind_ok, nodeAt_ok] at hs
    obtain ⟨ta, hga, tb, hgb, -⟩ := hs; exact ⟨ta, tb, hga, hgb⟩
  | copyCtor b =>
    simp only [step, bind_ok, nodeAt_ok] at hs
    obtain ⟨t, hg, -⟩ := hs; exact ⟨t, hg⟩
  | moveCtor b =>
    simp only [step, bind_ok, nodeAt_ok] at hs
    obtain ⟨t, hg, -⟩ := hs; exact ⟨t, hg⟩
  | mkFrom b v =>
    simp only [step, bind_ok, nodeAt_ok] at hs
    obtain ⟨t, hg, -⟩ := hs; exact ⟨t, hg⟩
  | copyAssign a b =>
    simp only [step] at hs
    split at hs
    · simp only [bind_ok, nodeAt_ok] at hs
      obtain ⟨t, hg, -⟩ := hs
      rename_i hab; subst hab
      exact ⟨t, t, hg, hg⟩
    · simp only [bind_ok, nodeAt_ok] at hs
      obtain ⟨ta, hga, tb, hgb, -⟩ := hs; exact ⟨ta, tb, hga, hgb⟩
  | moveAssign a b =>
    simp only [step, bind_ok, nodeAt_ok] at hs
    obtain ⟨ta, hga, tb, hgb, -⟩ := hs; exact ⟨ta, tb, hga, hgb⟩

end Fcppt.C09
