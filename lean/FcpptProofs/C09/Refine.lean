import FcpptProofs.C09.Inv
/-! # C09 — refinement: the pointer-level heap denotes a forest of rose trees -/
namespace Fcppt.C09
open PT

/-- forget addresses and parent links -/
def abs : PT → RT
  | .node _ v _ ks => .node v (ks.map abs)

def absF (F : List PT) : List RT := F.map abs

@[simp] theorem abs_node (i v p ks) : abs (.node i v p ks) = .node v (ks.map abs) := by simp [abs]
@[simp] theorem abs_val (t : PT) : (abs t).val = t.val := by cases t; simp
@[simp] theorem abs_kids (t : PT) : (abs t).kids = t.kids.map abs := by cases t; simp
@[simp] theorem abs_setParent (p t) : abs (PT.setParent p t) = abs t := by cases t; simp
theorem abs_setVal (v t) : abs (PT.setVal v t) = .node v (t.kids.map abs) := by cases t; simp
theorem abs_setKids (ks t) : abs (PT.setKids ks t) = .node t.val (ks.map abs) := by cases t; simp
theorem abs_eta (t : PT) : abs t = .node t.val (t.kids.map abs) := by cases t; simp
@[simp] theorem map_abs_reparent (p ks) : (reparent p ks).map abs = ks.map abs := by
  simp [reparent, List.map_map, Function.comp_def]

theorem abs_getT : ∀ (q : Path) (t : PT), RT.getT q (abs t) = (getT q t).map abs
  | [], t => by simp [RT.getT, getT]
  | j :: q, t => by
    simp only [RT.getT, getT, abs_kids, List.getElem?_map]
    cases t.kids[j]? with
    | none => rfl
    | some k => simp [abs_getT q k]

theorem abs_putT (new : PT) : ∀ (q : Path) (t : PT), abs (putT new q t) = RT.putT (abs new) q (abs t)
  | [], t => by simp [RT.putT, putT]
  | j :: q, .node n v p ks => by
    simp only [putT, abs_node, RT.putT, List.getElem?_map]
    cases ks[j]? with
    | none => simp
    | some k => simp [abs_putT new q k, List.map_set]

theorem abs_getF (a : Path) (F : List PT) : RT.getF a (absF F) = (getF a F).map abs := by
  cases a with
  | nil => rfl
  | cons r q =>
    simp only [RT.getF, getF, absF, List.getElem?_map]
    cases F[r]? with
    | none => rfl
    | some t => simp [abs_getT]

theorem abs_putF (new : PT) (a : Path) (F : List PT) : absF (putF new a F) = RT.putF (abs new) a (absF F) := by
  cases a with
  | nil => rfl
  | cons r q =>
    simp only [RT.putF, putF, absF, List.getElem?_map]
    cases F[r]? with
    | none => rfl
    | some t => simp [abs_putT, List.map_set]

theorem map_eraseIdx' {α β} (f : α → β) : ∀ (l : List α) (i : Nat), (l.eraseIdx i).map f = (l.map f).eraseIdx i
  | [], _ => by simp
  | x :: l, 0 => by simp
  | x :: l, i + 1 => by simp [map_eraseIdx' f l i]

theorem map_insertIdx' {α β} (f : α → β) (x : α) : ∀ (l : List α) (i : Nat),
    (l.insertIdx i x).map f = (l.map f).insertIdx i (f x)
  | l, 0 => by simp
  | [], i + 1 => by simp
  | y :: l, i + 1 => by simp [List.insertIdx_succ_cons, map_insertIdx' f x l i]

theorem absF_append (F G) : absF (F ++ G) = absF F ++ absF G := by simp [absF]

mutual
theorem abs_copyT : ∀ (t : PT) (n : Nat), abs (copyT n t) = abs t
  | .node j v p ks, n => by simp [copyT, map_abs_copyLp ks (n + 1) (some n)]
theorem map_abs_copyLp : ∀ (ks : List PT) (n : Nat) (p : Option Nat), (copyLp n p ks).map abs = ks.map abs
  | [], n, p => by simp [copyLp]
  | k :: ks, n, p => by simp [copyLp, abs_copyT k n, map_abs_copyLp ks (n + k.size) p]
end

theorem map_abs_sortKids (ks : List PT) : (sortKids ks).map abs = RT.sortKids (ks.map abs) := by
  unfold sortKids RT.sortKids
  exact List.map_mergeSort (by intro a _ b _; simp)

theorem map_abs_sortKidsBy (lt : Int → Int → Bool) (ks : List PT) :
    (sortKidsBy lt ks).map abs = RT.sortKidsBy lt (ks.map abs) := by
  unfold sortKidsBy RT.sortKidsBy
  exact List.map_mergeSort (by intro a _ b _; simp)

theorem abs_moveCtor_fst (n t) : abs (moveCtor n t).1 = abs t := by
  cases t; simp [moveCtor]

theorem abs_moveCtor_snd (n t) : abs (moveCtor n t).2 = .node t.val [] := by
  cases t; simp [moveCtor]

/-- Every operation on the heap is the corresponding operation on the forest of rose trees it denotes. -/
theorem step_refines {s s' : St} {op : Op} (hs : step s op = .ok s') :
    RT.step (absF s.forest) op = some (absF s'.forest) := by
  cases op with
  | new v => simp only [step, Except.ok.injEq] at hs; subst hs; simp [RT.step, absF, mkLeaf]
  | del r =>
    simp only [step] at hs
    split at hs
    · simp only [Except.ok.injEq] at hs; subst hs
      simp [RT.step, absF, *, map_eraseIdx']
    · cases hs
  | setVal a v =>
    simp only [step, bind_ok, nodeAt_ok] at hs
    obtain ⟨t, hg, hs⟩ := hs
    simp only [Except.ok.injEq] at hs; subst hs
    simp [RT.step, abs_getF, hg, abs_putF, abs_setVal]
  | insV a pos v =>
    simp only [step, bind_ok, nodeAt_ok, optE_ok] at hs
    obtain ⟨t, hg, i, hi, hs⟩ := hs
    simp only [Except.ok.injEq] at hs; subst hs
    simp [RT.step, abs_getF, hg, abs_putF, abs_setKids, hi, map_insertIdx', abs_moveCtor_fst, mkLeaf]
  | insT a pos b =>
    simp only [step, bind_ok, nodeAt_ok, optE_ok] at hs
    obtain ⟨tb, hgb, t, hg, i, hi, hs⟩ := hs
    simp only [Except.ok.injEq] at hs; subst hs
    have hg' : RT.getF a (RT.putF (.node tb.val []) b (absF s.forest)) = some (abs t) := by
      rw [← abs_moveCtor_snd s.next tb, ← abs_putF, abs_getF, hg]; rfl
    simp [RT.step, abs_getF, hgb, hg', abs_putF, abs_setKids, hi, map_insertIdx', abs_moveCtor_fst, abs_moveCtor_snd]
  | pop a pos keep =>
    simp only [step, bind_ok, nodeAt_ok, optE_ok] at hs
    obtain ⟨t, hg, oi, hoi, hs⟩ := hs
    cases oi with
    | none =>
      simp only [Except.ok.injEq] at hs; subst hs
      simp [RT.step, abs_getF, hg, hoi]
    | some i =>
      simp only [bind_ok, optE_ok] at hs
      obtain ⟨c, hc, hs⟩ := hs
      split at hs <;> (simp only [Except.ok.injEq] at hs; subst hs)
      · simp [RT.step, abs_getF, hg, hoi, hc, abs_putF, abs_setKids, map_eraseIdx', absF_append, *,
          abs_moveCtor_fst]
        simp [absF, abs_moveCtor_fst]
      · simp [RT.step, abs_getF, hg, hoi, hc, abs_putF, abs_setKids, map_eraseIdx', *]
  | erase a i =>
    simp only [step, bind_ok, nodeAt_ok] at hs
    obtain ⟨t, hg, hs⟩ := hs
    split at hs
    · simp only [Except.ok.injEq] at hs; subst hs
      simp [RT.step, abs_getF, hg, abs_putF, abs_setKids, *]
    · cases hs
  | eraseRange a i k =>
    simp only [step, bind_ok, nodeAt_ok] at hs
    obtain ⟨t, hg, hs⟩ := hs
    split at hs
    · simp only [Except.ok.injEq] at hs; subst hs
      simp [RT.step, abs_getF, hg, abs_putF, abs_setKids, *]
    · cases hs
  | clear a =>
    simp only [step, bind_ok, nodeAt_ok] at hs
    obtain ⟨t, hg, hs⟩ := hs
    simp only [Except.ok.injEq] at hs; subst hs
    simp [RT.step, abs_getF, hg, abs_putF, abs_setKids]
  | sort a =>
    simp only [step, bind_ok, nodeAt_ok] at hs
    obtain ⟨t, hg, hs⟩ := hs
    simp only [Except.ok.injEq] at hs; subst hs
    simp [RT.step, abs_getF, hg, abs_putF, abs_setKids, map_abs_sortKids]
  | swap a b =>
    simp only [step, bind_ok, nodeAt_ok] at hs
    obtain ⟨ta, hga, tb, hgb, tb1, hgb1, hs⟩ := hs
    simp only [Except.ok.injEq] at hs; subst hs
    have e1 : abs (.node ta.id tb.val ta.parent (reparent ta.id tb.kids)) = abs tb := by
      rw [abs_eta tb]; simp
    have hg' : RT.getF b (RT.putF (abs tb) a (absF s.forest)) = some (abs tb1) := by
      rw [← e1, ← abs_putF, abs_getF, hgb1]; rfl
    have e2 : abs (.node tb1.id ta.val tb1.parent (reparent tb1.id ta.kids)) = abs ta := by
      rw [abs_eta ta]; simp
    simp only [RT.step, abs_getF, hga, hgb, Option.map_some, Option.bind_eq_bind, Option.bind_some, hg']
    rw [abs_putF, abs_putF, e1, e2]
  | copyCtor b =>
    simp only [step, bind_ok, nodeAt_ok] at hs
    obtain ⟨t, hg, hs⟩ := hs
    simp only [Except.ok.injEq] at hs; subst hs
    simp only [RT.step, abs_getF, hg, Option.map_some, Option.bind_eq_bind, Option.bind_some, absF_append]
    simp [absF, abs_copyT]
  | moveCtor b =>
    simp only [step, bind_ok, nodeAt_ok] at hs
    obtain ⟨t, hg, hs⟩ := hs
    simp only [Except.ok.injEq] at hs; subst hs
    simp only [RT.step, abs_getF, hg, Option.map_some, Option.bind_eq_bind, Option.bind_some, absF_append, abs_putF,
      abs_moveCtor_snd, abs_val]
    simp [absF, abs_moveCtor_fst]
  | copyAssign a b =>
    simp only [step] at hs
    split at hs
    · simp only [bind_ok, nodeAt_ok] at hs
      obtain ⟨t, hg, hs⟩ := hs
      simp only [Except.ok.injEq] at hs; subst hs
      rename_i hab; subst hab
      simp [RT.step, abs_getF, hg]
    · simp only [bind_ok, nodeAt_ok] at hs
      obtain ⟨ta, hga, tb, hgb, tb1, hgb1, ta1, hga1, hs⟩ := hs
      simp only [Except.ok.injEq] at hs; subst hs
      have e1 : abs (ta.setVal tb.val) = .node tb.val (ta.kids.map abs) := abs_setVal _ _
      have hb' : RT.getF b (RT.putF (.node tb.val (ta.kids.map abs)) a (absF s.forest)) = some (abs tb1) := by
        rw [← e1, ← abs_putF, abs_getF, hgb1]; rfl
      have ha' : RT.getF a (RT.putF (.node tb.val (ta.kids.map abs)) a (absF s.forest)) = some (abs ta1) := by
        rw [← e1, ← abs_putF, abs_getF, hga1]; rfl
      simp only [RT.step, if_neg ‹_›, abs_getF, hga, hgb, Option.map_some, Option.bind_eq_bind, Option.bind_some,
        abs_val, abs_kids, hb', ha']
      rw [abs_putF, abs_putF, e1, abs_setKids]
      simp [copyL, map_abs_copyLp]
  | moveAssign a b =>
    simp only [step, bind_ok, nodeAt_ok] at hs
    obtain ⟨ta, hga, tb, hgb, tb1, hgb1, ta2, hga2, hs⟩ := hs
    simp only [Except.ok.injEq] at hs; subst hs
    have e1 : abs (ta.setVal tb.val) = .node tb.val (ta.kids.map abs) := abs_setVal _ _
    have hb' : RT.getF b (RT.putF (.node tb.val (ta.kids.map abs)) a (absF s.forest)) = some (abs tb1) := by
      rw [← e1, ← abs_putF, abs_getF, hgb1]; rfl
    have e2 : abs (tb1.setKids []) = .node tb1.val [] := by rw [abs_setKids]; rfl
    have ha' : RT.getF a (RT.putF (.node tb1.val []) b (RT.putF (.node tb.val (ta.kids.map abs)) a (absF s.forest)))
        = some (abs ta2) := by
      rw [← e1, ← e2, ← abs_putF, ← abs_putF, abs_getF, hga2]; rfl
    simp only [RT.step, abs_getF, hga, hgb, Option.map_some, Option.bind_eq_bind, Option.bind_some,
      abs_val, abs_kids, hb', ha']
    rw [abs_putF, abs_putF, abs_putF, e1, e2, abs_setKids]
    simp
  | sortBy a k =>
    simp only [step, bind_ok, nodeAt_ok] at hs
    obtain ⟨t, hg, hs⟩ := hs
    simp only [Except.ok.injEq] at hs; subst hs
    simp [RT.step, abs_getF, hg, abs_putF, abs_setKids, map_abs_sortKidsBy]
  | mkFrom b v =>
    simp only [step, bind_ok, nodeAt_ok] at hs
    obtain ⟨t, hg, hs⟩ := hs
    simp only [Except.ok.injEq] at hs; subst hs
    simp only [RT.step, abs_getF, hg, Option.map_some, Option.bind_eq_bind, Option.bind_some, absF_append]
    simp [absF, map_abs_copyLp]

end Fcppt.C09
