import FcpptProofs.C09.Pointer
/-! # C09 — to_root / level follow the parent links up the path; child_position -/
namespace Fcppt.C09
open PT

theorem getT_snoc : ∀ (q : Path) (j : Nat) (t : PT), getT (q ++ [j]) t = (getT q t).bind (fun n => n.kids[j]?)
  | [], j, t => by
    simp only [List.nil_append, getT, Option.bind_some]
    cases t.kids[j]? <;> rfl
  | i :: q, j, t => by
    simp only [List.cons_append, getT]
    cases t.kids[i]? with
    | none => rfl
    | some k => exact getT_snoc q j k

theorem getF_snoc (r : Nat) (q : Path) (j : Nat) (F : List PT) :
    getF (r :: (q ++ [j])) F = (getF (r :: q) F).bind (fun n => n.kids[j]?) := by
  simp only [getF]
  cases F[r]? with
  | none => rfl
  | some t => exact getT_snoc q j t

theorem RT.valsAlongT_snoc : ∀ (q : Path) (j : Nat) (t x : RT), RT.getT (q ++ [j]) t = some x →
    RT.valsAlongT (q ++ [j]) t = RT.valsAlongT q t ++ [x.val]
  | [], j, t, x, h => by
    simp only [List.nil_append, RT.getT] at h
    cases hk : t.kids[j]? with
    | none => simp [hk] at h
    | some k =>
      simp only [hk, Option.some.injEq] at h; subst h
      simp [RT.valsAlongT, hk]
  | i :: q, j, t, x, h => by
    simp only [List.cons_append, RT.getT] at h
    cases hk : t.kids[i]? with
    | none => simp [hk] at h
    | some k =>
      simp only [hk] at h
      simp [RT.valsAlongT, hk, RT.valsAlongT_snoc q j k x h]

theorem RT.valsAlongF_snoc (r : Nat) (q : Path) (j : Nat) (F : List RT) (x : RT)
    (h : RT.getF (r :: (q ++ [j])) F = some x) :
    RT.valsAlongF (r :: (q ++ [j])) F = RT.valsAlongF (r :: q) F ++ [x.val] := by
  simp only [RT.getF] at h
  simp only [RT.valsAlongF]
  cases ht : F[r]? with
  | none => simp [ht] at h
  | some t =>
    simp only [ht] at h
    exact RT.valsAlongT_snoc q j t x h

theorem size_le_sizeL {k : PT} {ks : List PT} (h : k ∈ ks) : k.size ≤ sizeL ks := by
  induction ks with
  | nil => cases h
  | cons y ys ih =>
    simp only [sizeL_cons]
    rcases List.mem_cons.1 h with rfl | h
    · omega
    · have := ih h; omega

theorem getT_length_le : ∀ {q : Path} {t x : PT}, getT q t = some x → q.length + x.size ≤ t.size
  | [], t, x, h => by simp only [getT, Option.some.injEq] at h; subst h; simp
  | j :: q, t, x, h => by
    simp only [getT] at h
    cases hk : t.kids[j]? with
    | none => simp [hk] at h
    | some k =>
      simp only [hk] at h
      have := getT_length_le h
      have := size_le_sizeL (List.mem_of_getElem? hk)
      rw [size_eq t]; simp only [List.length_cons]; omega

theorem getF_length_le {r : Nat} {q : Path} {F : List PT} {x : PT} (h : getF (r :: q) F = some x) :
    q.length + 1 ≤ sizeL F := by
  simp only [getF] at h
  cases ht : F[r]? with
  | none => simp [ht] at h
  | some t =>
    simp only [ht] at h
    have := getT_length_le h
    have := size_le_sizeL (List.mem_of_getElem? ht)
    have := size_pos x
    omega

/-- the objects met on the way from the root of `t` down the path, root first -/
def nodesAlongT : Path → PT → List PT
  | [], t => [t]
  | j :: q, t => t :: (match t.kids[j]? with
    | some k => nodesAlongT q k
    | none => [])

def nodesAlongF : Path → List PT → List PT
  | [], _ => []
  | r :: q, F => match F[r]? with
    | some t => nodesAlongT q t
    | none => []

theorem nodesAlongT_snoc : ∀ (q : Path) (j : Nat) (t x : PT), getT (q ++ [j]) t = some x →
    nodesAlongT (q ++ [j]) t = nodesAlongT q t ++ [x]
  | [], j, t, x, h => by
    simp only [List.nil_append, getT] at h
    cases hk : t.kids[j]? with
    | none => simp [hk] at h
    | some k =>
      simp only [hk, Option.some.injEq] at h; subst h
      simp [nodesAlongT, hk]
  | i :: q, j, t, x, h => by
    simp only [List.cons_append, getT] at h
    cases hk : t.kids[i]? with
    | none => simp [hk] at h
    | some k =>
      simp only [hk] at h
      simp [nodesAlongT, hk, nodesAlongT_snoc q j k x h]

theorem nodesAlongF_snoc (r : Nat) (q : Path) (j : Nat) (F : List PT) (x : PT)
    (h : getF (r :: (q ++ [j])) F = some x) :
    nodesAlongF (r :: (q ++ [j])) F = nodesAlongF (r :: q) F ++ [x] := by
  simp only [getF] at h
  simp only [nodesAlongF]
  cases ht : F[r]? with
  | none => simp [ht] at h
  | some t =>
    simp only [ht] at h
    exact nodesAlongT_snoc q j t x h

theorem map_val_nodesAlongT : ∀ (q : Path) (t : PT), (nodesAlongT q t).map PT.val = RT.valsAlongT q (abs t)
  | [], t => by simp [nodesAlongT, RT.valsAlongT]
  | j :: q, t => by
    simp only [nodesAlongT, RT.valsAlongT, List.map_cons, abs_val, abs_kids, List.getElem?_map]
    cases t.kids[j]? with
    | none => simp
    | some k => simp [map_val_nodesAlongT q k]

theorem map_val_nodesAlongF (p : Path) (F : List PT) : (nodesAlongF p F).map PT.val = RT.valsAlongF p (absF F) := by
  cases p with
  | nil => rfl
  | cons r q =>
    simp only [nodesAlongF, RT.valsAlongF, absF, List.getElem?_map]
    cases F[r]? with
    | none => simp
    | some t => simp [map_val_nodesAlongT]

/-- the `k`-th object on the way down is the object at the prefix of length `k + 1` of the path -/
theorem nodesAlongT_getElem : ∀ (q : Path) (t x : PT), getT q t = some x → ∀ k, k ≤ q.length →
    (nodesAlongT q t)[k]? = getT (q.take k) t
  | [], t, x, _, k, hk => by
    have : k = 0 := by simpa using hk
    subst this; simp [nodesAlongT, getT]
  | j :: q, t, x, h, 0, _ => by simp [nodesAlongT, getT]
  | j :: q, t, x, h, k + 1, hk => by
    simp only [getT] at h
    cases hj : t.kids[j]? with
    | none => simp [hj] at h
    | some c =>
      simp only [hj] at h
      simp only [nodesAlongT, hj, List.getElem?_cons_succ, List.take_succ_cons, getT]
      exact nodesAlongT_getElem q c x h k (by simpa using hk)

theorem nodesAlongT_length : ∀ (q : Path) (t x : PT), getT q t = some x → (nodesAlongT q t).length = q.length + 1
  | [], t, x, _ => by simp [nodesAlongT]
  | j :: q, t, x, h => by
    simp only [getT] at h
    cases hk : t.kids[j]? with
    | none => simp [hk] at h
    | some k =>
      simp only [hk] at h
      simp [nodesAlongT, hk, nodesAlongT_length q k x h]

theorem toRootLoop_eq {F : List PT} (hu : ∀ i, cntL i F ≤ 1) (hr : Roots F) :
    ∀ (n : Nat) (q : Path) (r : Nat) (x : PT) (acc : List PT) (f : Nat), q.length = n →
      getF (r :: q) F = some x → q.length + 1 ≤ f →
      toRootLoop F f x acc = .ok (acc ++ (nodesAlongF (r :: q) F).reverse)
  | 0, q, r, x, acc, f, hn, hg, hf => by
    have hq : q = [] := List.eq_nil_of_length_eq_zero hn
    subst hq
    obtain ⟨f', rfl⟩ : ∃ f', f = f' + 1 := ⟨f - 1, by simp at hf; omega⟩
    have hg' := hg
    simp only [getF] at hg
    cases ht : F[r]? with
    | none => simp [ht] at hg
    | some t =>
      simp only [ht, getT, Option.some.injEq] at hg; subst hg
      have hp := (hr t (List.mem_of_getElem? ht)).1
      simp [toRootLoop, hp, nodesAlongF, ht, nodesAlongT]
  | n + 1, q, r, x, acc, f, hn, hg, hf => by
    rcases List.eq_nil_or_concat q with rfl | ⟨q', j, rfl⟩
    · simp at hn
    · simp only [List.concat_eq_append] at hn hg hf ⊢
      obtain ⟨f', rfl⟩ : ∃ f', f = f' + 1 := ⟨f - 1, by omega⟩
      have hgs := hg
      rw [getF_snoc] at hgs
      cases ho : getF (r :: q') F with
      | none => simp [ho] at hgs
      | some o =>
        simp only [ho, Option.bind_some] at hgs
        have hxp := (kidsOK hr ho x (List.mem_of_getElem? hgs)).1
        have hfind := findF_of_get hu ho
        rw [nodesAlongF_snoc r q' j F x hg]
        simp only [List.length_append, List.length_cons, List.length_nil] at hn hf
        have ih := toRootLoop_eq hu hr n q' r o (acc ++ [x]) f' (by omega) ho (by omega)
        simp [toRootLoop, hxp, hfind, ih]

/-- `to_root` from the node at path `p` visits that object, then the objects at the shorter and shorter prefixes of `p` -/
theorem toRootNodes_eq {F : List PT} (hu : ∀ i, cntL i F ≤ 1) (hr : Roots F) {p : Path} {x : PT}
    (hg : getF p F = some x) : toRootNodes F x = .ok (nodesAlongF p F).reverse := by
  cases p with
  | nil => simp [getF] at hg
  | cons r q =>
    have := getF_length_le hg
    unfold toRootNodes
    rw [toRootLoop_eq hu hr q.length q r x [] _ rfl hg (by omega)]
    simp

/-- `to_root` from the node at path `p`: its value, then the values of its ancestors up to the root -/
theorem toRoot_eq {F : List PT} (hu : ∀ i, cntL i F ≤ 1) (hr : Roots F) {p : Path} {x : PT}
    (hg : getF p F = some x) : toRoot F x = .ok (RT.ancestors p (absF F)) := by
  simp [toRoot, toRootNodes_eq hu hr hg, Except.map, RT.ancestors, ← map_val_nodesAlongF]

theorem RT.valsAlongT_length : ∀ (q : Path) (t x : RT), RT.getT q t = some x → (RT.valsAlongT q t).length = q.length + 1
  | [], t, x, _ => by simp [RT.valsAlongT]
  | j :: q, t, x, h => by
    simp only [RT.getT] at h
    cases hk : t.kids[j]? with
    | none => simp [hk] at h
    | some k =>
      simp only [hk] at h
      simp [RT.valsAlongT, hk, RT.valsAlongT_length q k x h]

theorem level_eq {F : List PT} (hu : ∀ i, cntL i F ≤ 1) (hr : Roots F) {p : Path} {x : PT}
    (hg : getF p F = some x) : level F x = .ok (RT.level p) := by
  unfold level
  rw [toRoot_eq hu hr hg]
  cases p with
  | nil => simp [getF] at hg
  | cons r q =>
    have hx : RT.getF (r :: q) (absF F) = some (abs x) := by rw [abs_getF, hg]; rfl
    simp only [RT.getF] at hx
    cases ht : (absF F)[r]? with
    | none => simp [ht] at hx
    | some t =>
      simp only [ht] at hx
      simp [Except.map, RT.ancestors, RT.valsAlongF, ht, RT.valsAlongT_length q t _ hx, RT.level]

/-! ## child_position -/

theorem findIdx_at {α} {pr : α → Bool} : ∀ {ks : List α} {j : Nat} {k : α}, ks[j]? = some k → pr k = true →
    (∀ j' k', j' ≠ j → ks[j']? = some k' → pr k' = false) → ks.findIdx? pr = some j
  | [], j, k, h, _, _ => by simp at h
  | y :: ys, 0, k, h, hp, _ => by simp at h; subst h; simp [List.findIdx?_cons, hp]
  | y :: ys, j + 1, k, h, hp, ho => by
    simp at h
    have hy : pr y = false := ho 0 y (by omega) (by simp)
    have := findIdx_at h hp (fun j' k' hne hk' => ho (j' + 1) k' (by omega) (by simpa using hk'))
    simp [List.findIdx?_cons, hy, this]

theorem RT.childPos_snoc (p : Path) (j : Nat) : RT.childPos p (p ++ [j]) = some j := by
  simp [RT.childPos]

theorem RT.childPos_eq_some {p c : Path} {j : Nat} (h : RT.childPos p c = some j) : c = p ++ [j] := by
  unfold RT.childPos at h
  rcases List.eq_nil_or_concat c with rfl | ⟨c', b, rfl⟩
  · simp at h
  · simp only [List.concat_eq_append, List.getLast?_concat, List.dropLast_concat] at h ⊢
    split at h
    · simp only [Option.some.injEq] at h; subst h; rename_i e; rw [e]
    · cases h

/-- `child_position(parent, child)` finds the child by address exactly when the child's path extends the parent's -/
theorem childPosition_eq {F : List PT} (hu : ∀ i, cntL i F ≤ 1) {p c : Path} {P C : PT}
    (hp : getF p F = some P) (hc : getF c F = some C) : childPosition P C = RT.childPos p c := by
  cases p with
  | nil => simp [getF] at hp
  | cons r q =>
  cases hcp : RT.childPos (r :: q) c with
  | some j =>
    have := RT.childPos_eq_some hcp; subst this
    rw [List.cons_append, getF_snoc, hp, Option.bind_some] at hc
    unfold childPosition
    refine findIdx_at hc (by simp) (fun j' k' hj hk' => ?_)
    have hkc : getF (r :: (q ++ [j'])) F = some k' := by rw [getF_snoc, hp]; exact hk'
    have hC : getF (r :: (q ++ [j])) F = some C := by rw [getF_snoc, hp]; exact hc
    apply Bool.eq_false_iff.2
    intro he
    have := getF_inj hu hkc hC (by simpa using he)
    simp at this; omega
  | none =>
    unfold childPosition
    rw [List.findIdx?_eq_none_iff]
    intro k hk
    apply Bool.eq_false_iff.2
    intro he
    obtain ⟨j, hkj⟩ := List.mem_iff_getElem?.1 hk
    have hkc : getF (r :: (q ++ [j])) F = some k := by rw [getF_snoc, hp]; exact hkj
    have := getF_inj hu hkc hc (by simpa using he)
    subst this
    rw [← List.cons_append, RT.childPos_snoc] at hcp
    cases hcp

end Fcppt.C09
