import FcpptProofs.C09.Observers
/-! # C09 — pointer chasing: unique addresses identify objects; to_root, level, child_position -/
namespace Fcppt.C09
open PT

/-! ## addresses identify paths -/

theorem cnt_pos_of_getT : ∀ {q : Path} {t x : PT}, getT q t = some x → 1 ≤ cnt x.id t
  | [], t, x, h => by
    simp only [getT, Option.some.injEq] at h; subst h
    rw [cnt_eq]; simp
  | j :: q, t, x, h => by
    simp only [getT] at h
    cases hk : t.kids[j]? with
    | none => simp [hk] at h
    | some k =>
      simp only [hk] at h
      have := cnt_pos_of_getT h
      have := cntL_getElem (i := x.id) hk
      rw [cnt_eq x.id t]; omega

theorem cnt_getT_le {i} : ∀ {q : Path} {t x : PT}, getT q t = some x → cnt i x ≤ cnt i t
  | [], t, x, h => by simp only [getT, Option.some.injEq] at h; subst h; omega
  | j :: q, t, x, h => by
    simp only [getT] at h
    cases hk : t.kids[j]? with
    | none => simp [hk] at h
    | some k =>
      simp only [hk] at h
      have := cnt_getT_le (i := i) h
      have := cntL_getElem (i := i) hk
      rw [cnt_eq i t]; omega

theorem cnt_getF_le {i} {a : Path} {F : List PT} {x : PT} (h : getF a F = some x) : cnt i x ≤ cntL i F := by
  cases a with
  | nil => simp [getF] at h
  | cons r q =>
    simp only [getF] at h
    cases ht : F[r]? with
    | none => simp [ht] at h
    | some t =>
      simp only [ht] at h
      have := cnt_getT_le (i := i) h
      have := cntL_getElem (i := i) ht
      omega

theorem cntL_two {i} : ∀ {ks : List PT} {j1 j2 : Nat} {k1 k2 : PT}, ks[j1]? = some k1 → ks[j2]? = some k2 → j1 ≠ j2 →
    cnt i k1 + cnt i k2 ≤ cntL i ks
  | [], j1, _, _, _, h, _, _ => by simp at h
  | y :: ys, 0, 0, _, _, _, _, hne => by omega
  | y :: ys, 0, j2 + 1, k1, k2, h1, h2, _ => by
    simp at h1 h2; subst h1
    have := cntL_getElem (i := i) h2
    simp; omega
  | y :: ys, j1 + 1, 0, k1, k2, h1, h2, _ => by
    simp at h1 h2; subst h2
    have := cntL_getElem (i := i) h1
    simp; omega
  | y :: ys, j1 + 1, j2 + 1, k1, k2, h1, h2, hne => by
    simp at h1 h2
    have := cntL_two (i := i) h1 h2 (by omega)
    simp; omega

theorem getT_inj : ∀ {q1 q2 : Path} {t x y : PT}, (∀ i, cnt i t ≤ 1) → getT q1 t = some x → getT q2 t = some y →
    x.id = y.id → q1 = q2
  | [], [], _, _, _, _, _, _, _ => rfl
  | [], j :: q2, t, x, y, hu, h1, h2, he => by
    simp only [getT, Option.some.injEq] at h1; subst h1
    simp only [getT] at h2
    cases hk : t.kids[j]? with
    | none => simp [hk] at h2
    | some k =>
      simp only [hk] at h2
      have := cnt_pos_of_getT h2
      have := cntL_getElem (i := y.id) hk
      have := hu y.id
      rw [cnt_eq y.id t, if_pos he.symm] at this
      omega
  | j :: q1, [], t, x, y, hu, h1, h2, he => by
    simp only [getT, Option.some.injEq] at h2; subst h2
    simp only [getT] at h1
    cases hk : t.kids[j]? with
    | none => simp [hk] at h1
    | some k =>
      simp only [hk] at h1
      have := cnt_pos_of_getT h1
      have := cntL_getElem (i := x.id) hk
      have := hu x.id
      rw [cnt_eq x.id t, if_pos he] at this
      omega
  | j1 :: q1, j2 :: q2, t, x, y, hu, h1, h2, he => by
    simp only [getT] at h1 h2
    cases hk1 : t.kids[j1]? with
    | none => simp [hk1] at h1
    | some k1 =>
      cases hk2 : t.kids[j2]? with
      | none => simp [hk2] at h2
      | some k2 =>
        simp only [hk1] at h1
        simp only [hk2] at h2
        have p1 := cnt_pos_of_getT h1
        have p2 := cnt_pos_of_getT h2
        have hut := hu x.id
        rw [cnt_eq x.id t] at hut
        by_cases hj : j1 = j2
        · subst hj
          rw [hk1] at hk2; cases hk2
          have hu' : ∀ i, cnt i k1 ≤ 1 := fun i => by
            have := cntL_getElem (i := i) hk1; have := hu i; rw [cnt_eq i t] at this; omega
          rw [getT_inj hu' h1 h2 he]
        · have := cntL_two (i := x.id) hk1 hk2 hj
          rw [he] at p1 this hut
          omega

theorem getF_inj {p1 p2 : Path} {F : List PT} {x y : PT} (hu : ∀ i, cntL i F ≤ 1)
    (h1 : getF p1 F = some x) (h2 : getF p2 F = some y) (he : x.id = y.id) : p1 = p2 := by
  cases p1 with
  | nil => simp [getF] at h1
  | cons r1 q1 =>
    cases p2 with
    | nil => simp [getF] at h2
    | cons r2 q2 =>
      simp only [getF] at h1 h2
      cases ht1 : F[r1]? with
      | none => simp [ht1] at h1
      | some t1 =>
        cases ht2 : F[r2]? with
        | none => simp [ht2] at h2
        | some t2 =>
          simp only [ht1] at h1
          simp only [ht2] at h2
          have p1 := cnt_getT_le (i := x.id) h1
          have p2 := cnt_getT_le (i := x.id) h2
          have q1' := cnt_eq x.id x
          have q2' := cnt_eq x.id y
          rw [if_pos rfl] at q1'
          rw [if_pos he] at q2'
          by_cases hj : r1 = r2
          · subst hj
            rw [ht1] at ht2; cases ht2
            have hu' : ∀ i, cnt i t1 ≤ 1 := fun i => by
              have := cntL_getElem (i := i) ht1; have := hu i; omega
            rw [getT_inj hu' h1 h2 he]
          · have := cntL_two (i := x.id) ht1 ht2 hj
            have := hu x.id
            omega

/-! ## dereferencing an address -/

theorem findSome_at {α β} {g : α → Option β} {x : β} : ∀ {ks : List α} {j : Nat} {k : α}, ks[j]? = some k → g k = some x →
    (∀ j' k', j' ≠ j → ks[j']? = some k' → g k' = none) → (ks.map g).findSome? (fun o => o) = some x
  | [], j, k, h, _, _ => by simp at h
  | y :: ys, 0, k, h, hg, _ => by simp at h; subst h; simp [List.findSome?_cons, hg]
  | y :: ys, j + 1, k, h, hg, ho => by
    simp at h
    have hy : g y = none := ho 0 y (by omega) (by simp)
    simp only [List.map_cons, List.findSome?_cons, hy]
    exact findSome_at h hg (fun j' k' hne hk' => ho (j' + 1) k' (by omega) (by simpa using hk'))

theorem findT_none : ∀ (t : PT) (i : Nat), cnt i t = 0 → findT i t = none :=
  PT.ind (fun n v p ks ih i h => by
    rw [cnt_node] at h
    have hne : i ≠ n := by intro e; rw [if_pos e] at h; omega
    rw [findT, if_neg hne]
    simp only [List.findSome?_eq_none_iff, List.mem_map]
    rintro o ⟨k, hk, rfl⟩
    have := cnt_le_cntL (i := i) hk
    exact ih k hk i (by omega))

theorem findT_self (t : PT) : findT t.id t = some t := by
  cases t; simp [findT]

theorem findT_of_get : ∀ {q : Path} {t x : PT}, (∀ i, cnt i t ≤ 1) → getT q t = some x → findT x.id t = some x
  | [], t, x, _, h => by simp only [getT, Option.some.injEq] at h; subst h; exact findT_self _
  | j :: q, .node n v p ks, x, hu, h => by
    simp only [getT, kids_node] at h
    cases hk : ks[j]? with
    | none => simp [hk] at h
    | some k =>
      simp only [hk] at h
      have p1 := cnt_pos_of_getT h
      have hut := hu x.id
      rw [cnt_node] at hut
      have := cntL_getElem (i := x.id) hk
      have hne : x.id ≠ n := by intro e; rw [if_pos e] at hut; omega
      rw [findT, if_neg hne]
      have hu' : ∀ i, cnt i k ≤ 1 := fun i => by
        have := cntL_getElem (i := i) hk; have := hu i; rw [cnt_node] at this; omega
      refine findSome_at hk (findT_of_get hu' h) (fun j' k' hj hk' => findT_none k' _ ?_)
      have := cntL_two (i := x.id) hk' hk hj
      omega

theorem findF_of_get {a : Path} {F : List PT} {x : PT} (hu : ∀ i, cntL i F ≤ 1) (h : getF a F = some x) :
    findF x.id F = some x := by
  cases a with
  | nil => simp [getF] at h
  | cons r q =>
    simp only [getF] at h
    cases ht : F[r]? with
    | none => simp [ht] at h
    | some t =>
      simp only [ht] at h
      have p1 := cnt_getT_le (i := x.id) h
      have p2 := cnt_eq x.id x
      rw [if_pos rfl] at p2
      have hu' : ∀ i, cnt i t ≤ 1 := fun i => by
        have := cntL_getElem (i := i) ht; have := hu i; omega
      refine findSome_at ht (findT_of_get hu' h) (fun j' k' hj hk' => findT_none k' _ ?_)
      have := cntL_two (i := x.id) hk' ht hj
      have := hu x.id
      omega

end Fcppt.C09
