import FcpptProofs.C14.Matrix
/-!
# C14 — lemmas about the member operators (objects in memory, aliasing)
-/
namespace Fcppt.C14.Lemma

/-! ## addresses -/

theorem addr_val {len n : Nat} (r : Ref len n) (i : Fin n) : (r.addr i).val = r.base + i.val := by
  induction r with
  | static base h => rfl
  | buffer ptr h => rfl
  | rowView impl offset h ih => simp only [Ref.addr, Ref.base, ih]; omega

theorem addr_injective {len n : Nat} (r : Ref len n) : Function.Injective r.addr := by
  intro i j h
  have := congrArg Fin.val h
  rw [addr_val, addr_val] at this
  exact Fin.ext (by omega)

theorem addr_ne_iff {len n m : Nat} (l : Ref len n) (r : Ref len m) (i : Fin n) (j : Fin m) :
    l.addr i ≠ r.addr j ↔ l.base + i.val ≠ r.base + j.val := by
  rw [Ne, Fin.ext_iff, addr_val, addr_val]

/-- reading an object's value component-wise is reading the cells -/
theorem get_load {len n : Nat} (mem : Mem len) (r : Ref len n) (i : Fin n) : (r.load mem).get i = r.read mem i := by
  induction r with
  | static base h => simp [Ref.load, Ref.read, Ref.addr]
  | buffer ptr h => simp [Ref.load, Ref.read, Ref.addr]
  | rowView impl offset h ih => simp only [Ref.load, Storage.get, ih]; rfl

/-! ## the loop -/

theorem loop_succ {σ : Type} (n : Nat) (body : Fin (n + 1) → σ → σ) (s : σ) :
    loop (n + 1) body s = body (Fin.last n) (loop n (fun i => body i.castSucc) s) := by
  simp [loop, Fin.foldl_succ_last]

/-- a loop that at step `i` writes `op (cell w i) (cell rd i)` into the cell `w i`: if the written cells are distinct and no
    cell is read (as `rd i`) after it was written by an earlier step, every written cell gets the value computed from the
    *initial* memory, and every other cell keeps its value -/
theorem loop_set {len : Nat} (op : Int → Int → Int) : ∀ (n : Nat) (w rd : Fin n → Fin len) (mem : Mem len),
    Function.Injective w → (∀ i j : Fin n, j.val < i.val → w j ≠ rd i) →
    (∀ i, (loop n (fun i m => m.set (w i) (op m[w i] m[rd i])) mem)[w i] = op mem[w i] mem[rd i]) ∧
    (∀ a : Fin len, (∀ i, w i ≠ a) → (loop n (fun i m => m.set (w i) (op m[w i] m[rd i])) mem)[a] = mem[a])
  | 0, _, _, mem, _, _ => ⟨fun i => i.elim0, fun _ _ => by simp [loop]⟩
  | n + 1, w, rd, mem, hw, hc => by
    have ih := loop_set op n (fun i => w i.castSucc) (fun i => rd i.castSucc) mem
      (fun i j h => Fin.castSucc_injective _ (hw h)) (fun i j h => hc i.castSucc j.castSucc h)
    obtain ⟨ihE, ihF⟩ := ih
    have hlast_w : (loop n (fun i m => m.set (w i.castSucc) (op m[w i.castSucc] m[rd i.castSucc])) mem)[w (Fin.last n)] = mem[w (Fin.last n)] :=
      ihF _ fun i h => by have := hw h; simp [Fin.ext_iff] at this; omega
    have hlast_r : (loop n (fun i m => m.set (w i.castSucc) (op m[w i.castSucc] m[rd i.castSucc])) mem)[rd (Fin.last n)] = mem[rd (Fin.last n)] :=
      ihF _ fun i => hc (Fin.last n) i.castSucc (by simp)
    rw [loop_succ]
    refine ⟨fun i => ?_, fun a ha => ?_⟩
    · rcases Fin.eq_castSucc_or_eq_last i with ⟨k, rfl⟩ | rfl
      · have hne : (w (Fin.last n)).val ≠ (w k.castSucc).val := by
          intro h; have := hw (Fin.ext h); simp [Fin.ext_iff] at this; omega
        simp only [Fin.getElem_fin] at ihE ⊢
        rw [Vector.getElem_set_ne _ _ hne]
        exact ihE k
      · simp only [Fin.getElem_fin] at hlast_w hlast_r ⊢
        rw [Vector.getElem_set_self, hlast_w, hlast_r]
    · have hne : (w (Fin.last n)).val ≠ a.val := fun h => ha (Fin.last n) (Fin.ext h)
      simp only [Fin.getElem_fin] at ihF ⊢
      rw [Vector.getElem_set_ne _ _ hne]
      exact ihF a fun i => ha i.castSucc

/-- a loop whose step `i` changes at most the cell `w i` leaves every other cell alone -/
theorem loop_frame {len : Nat} : ∀ (n : Nat) (w : Fin n → Fin len) (body : Fin n → Mem len → Mem len),
    (∀ i m (a : Fin len), w i ≠ a → (body i m)[a] = m[a]) → ∀ (mem : Mem len) (a : Fin len), (∀ i, w i ≠ a) → (loop n body mem)[a] = mem[a]
  | 0, _, _, _, mem, _, _ => by simp [loop]
  | n + 1, w, body, hb, mem, a, ha => by
    rw [loop_succ, hb _ _ _ (ha (Fin.last n))]
    exact loop_frame n (fun i => w i.castSucc) (fun i => body i.castSucc) (fun i m a h => hb i.castSucc m a h) mem a fun i => ha i.castSucc

theorem set_frame {len : Nat} (m : Mem len) (l a : Fin len) (x : Int) (h : l ≠ a) : (m.set l x)[a] = m[a] := by
  simp only [Fin.getElem_fin]
  exact Vector.getElem_set_ne _ _ fun e => h (Fin.ext e)

/-! ## `member_operator` -/

/-- the frame of `member_operator` needs no assumption on the operands -/
theorem memberOperator_frame {len n : Nat} (op : Int → Int → Int) (f : Fin len → Fin len → Mem len → Mem len)
    (hf : ∀ l r m, f l r m = m.set l (op m[l] m[r])) (left right : Ref len n) (mem : Mem len) (a : Fin len) (ha : left.Outside a) :
    (memberOperator f left right mem)[a] = mem[a] :=
  loop_frame n left.addr _ (fun i m a h => by rw [hf]; exact set_frame _ _ _ _ h) mem a ha

theorem memberOperator_elem {len n : Nat} (op : Int → Int → Int) (f : Fin len → Fin len → Mem len → Mem len)
    (hf : ∀ l r m, f l r m = m.set l (op m[l] m[r])) (left right : Ref len n) (mem : Mem len) (h : NoClobber left right) :
    (∀ i, left.read (memberOperator f left right mem) i = op (left.read mem i) (right.read mem i)) ∧
    (∀ a, left.Outside a → (memberOperator f left right mem)[a] = mem[a]) := by
  have := loop_set op n left.addr right.addr mem (addr_injective left) h
  simp only [memberOperator, hf, Ref.read]
  exact this

theorem noClobber_self {len n : Nat} (v : Ref len n) : NoClobber v v :=
  fun i j h e => by have := addr_injective v e; omega

theorem noClobber_iff {len n : Nat} (l r : Ref len n) : NoClobber l r ↔ (l.base ≤ r.base ∨ r.base + n ≤ l.base) := by
  constructor
  · intro h
    by_cases h1 : l.base ≤ r.base
    · exact Or.inl h1
    · right
      by_contra h2
      have hd : l.base - r.base < n := by omega
      have h0 : 0 < n := by omega
      exact (addr_ne_iff l r ⟨0, h0⟩ ⟨l.base - r.base, hd⟩).1 (h ⟨l.base - r.base, hd⟩ ⟨0, h0⟩ (by simp; omega)) (by simp; omega)
  · intro h i j hji
    rw [addr_ne_iff]
    have := i.isLt
    omega

theorem multiplyScalar_spec {len n : Nat} (v : Ref len n) (k : Int) (mem : Mem len) :
    (∀ i, v.read (multiplyScalar v k mem) i = v.read mem i * k) ∧ (∀ a, v.Outside a → (multiplyScalar v k mem)[a] = mem[a]) := by
  have := loop_set (fun x _ => x * k) n v.addr v.addr mem (addr_injective v) (noClobber_self v)
  simp only [multiplyScalar, Ref.read, Ref.write]
  exact this

theorem assign_spec {len n : Nat} (dest src : Ref len n) (mem : Mem len) (h : NoClobber dest src) :
    (∀ i, dest.read (assign dest src mem) i = src.read mem i) ∧ (∀ a, dest.Outside a → (assign dest src mem)[a] = mem[a]) := by
  have := loop_set (fun _ y => y) n dest.addr src.addr mem (addr_injective dest) h
  simp only [assign, Ref.read, Ref.write]
  exact this

/-- writing the values `a[i]` that were read beforehand -/
theorem loop_write_const {len : Nat} : ∀ (n : Nat) (w : Fin n → Fin len) (val : Fin n → Int) (mem : Mem len), Function.Injective w →
    (∀ i, (loop n (fun i m => m.set (w i) (val i)) mem)[w i] = val i) ∧
    (∀ a : Fin len, (∀ i, w i ≠ a) → (loop n (fun i m => m.set (w i) (val i)) mem)[a] = mem[a])
  | 0, _, _, mem, _ => ⟨fun i => i.elim0, fun _ _ => by simp [loop]⟩
  | n + 1, w, val, mem, hw => by
    obtain ⟨ihE, ihF⟩ := loop_write_const n (fun i => w i.castSucc) (fun i => val i.castSucc) mem (fun i j h => Fin.castSucc_injective _ (hw h))
    rw [loop_succ]
    refine ⟨fun i => ?_, fun a ha => ?_⟩
    · rcases Fin.eq_castSucc_or_eq_last i with ⟨k, rfl⟩ | rfl
      · have hne : (w (Fin.last n)).val ≠ (w k.castSucc).val := by
          intro h; have := hw (Fin.ext h); simp [Fin.ext_iff] at this; omega
        simp only [Fin.getElem_fin] at ihE ⊢
        rw [Vector.getElem_set_ne _ _ hne]
        exact ihE k
      · simp only [Fin.getElem_fin]
        rw [Vector.getElem_set_self]
    · have hne : (w (Fin.last n)).val ≠ a.val := fun h => ha (Fin.last n) (Fin.ext h)
      simp only [Fin.getElem_fin] at ihF ⊢
      rw [Vector.getElem_set_ne _ _ hne]
      exact ihF a fun i => ha i.castSucc

/-! ## rows of a matrix in memory -/

theorem load_atRC {len r c : Nat} (m : MatRef len r c) (mem : Mem len) (i : Fin r) (j : Fin c) :
    (m.load mem).atRC i j = m.s.read mem ⟨i.val * c + j.val, index_lt i j⟩ := by
  rw [atRC_eq_entry]; simp [Mat.entry, MatRef.load, get_load]

theorem base_atR {len r c : Nat} (m : MatRef len r c) (i : Fin r) : (m.atR i).base = m.s.base + i.val * c := rfl

theorem rows_disjoint {len r c : Nat} (m : MatRef len r c) {i i' : Fin r} (h : i' ≠ i) (j k : Fin c) :
    (m.atR i).addr k ≠ (m.atR i').addr j := by
  rw [addr_ne_iff, base_atR, base_atR]
  have hj := j.isLt; have hk := k.isLt
  rcases Nat.lt_or_gt_of_ne (fun e => h (Fin.ext e)) with hlt | hgt
  · have : (i'.val + 1) * c ≤ i.val * c := Nat.mul_le_mul_right c hlt
    rw [Nat.succ_mul] at this; omega
  · have : (i.val + 1) * c ≤ i'.val * c := Nat.mul_le_mul_right c hgt
    rw [Nat.succ_mul] at this; omega

theorem noClobber_rows {len r c : Nat} (m : MatRef len r c) (i j : Fin r) : NoClobber (m.atR i) (m.atR j) := by
  rw [noClobber_iff, base_atR, base_atR]
  rcases Nat.lt_or_ge j.val i.val with h | h
  · right
    have : (j.val + 1) * c ≤ i.val * c := Nat.mul_le_mul_right c h
    rw [Nat.succ_mul] at this; omega
  · left
    have : i.val * c ≤ j.val * c := Nat.mul_le_mul_right c h
    omega

end Fcppt.C14.Lemma
