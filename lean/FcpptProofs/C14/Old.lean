import FcpptProofs.C14.Access
/-!
# C14 — the determinant before fix 88691c8 (`determinant of the empty matrix is one`)

The generic overload folded over the empty range for `N == 0` and returned the start value 0.
`oldDet` / `oldAdjugate` transcribe that code; `Props/C14.lean` refutes the property for it on a 1×1 matrix.
-/
namespace Fcppt.C14

def Mat.oldDet : {n : Nat} → Mat n n → Int
  | 0, _ => fold (n := 0) 0 fun _ sum => sum
  | 1, m => m.atRC 0 0
  | n + 2, m =>
    fold (n := n + 2) 0 fun row sum =>
      sum + coeff row.val * m.atRC row 0 * Mat.oldDet (m.deleteRowAndColumn row.val 0)

def Mat.oldAdjugate : {n : Nat} → Mat n n → Mat n n
  | 0, _ => Mat.init fun rw _ => rw.elim0
  | _ + 1, m => Mat.init fun rw cl => coeff (rw.val + cl.val) * (m.deleteRowAndColumn cl.val rw.val).oldDet

/-- a 1×1 static matrix -/
def Mat.single (x : Int) : Mat 1 1 := ⟨fromArray #v[x]⟩

/-! ## seeded regression C14-1: `multiply_scalar` taking the factor by `const &` and capturing it by reference

`void multiply_scalar(Storage &_value, typename Storage::value_type const &_mult)` with `[&_value, &_mult]`:
the factor is read from memory in every step of the loop, so a factor that is a component of the object
(`v *= v.x()`) changes half-way.  `Props/C14.lean` refutes "`*=` is the free `*`" for this variant. -/
def multiplyScalarByRef {len n : Nat} (value : Ref len n) (mult : Scalar len) (mem : Mem len) : Mem len :=
  loop n (fun i mem => value.write mem i (value.read mem i * mult.read mem)) mem

end Fcppt.C14
