import FcpptProofs.C14.Access
/-!
# C14 — the determinant before fix 88691c8 (`determinant of the empty matrix is one`)

The generic overload folded over the empty range for `N == 0` and returned the start value 0.
`oldDet` / `oldAdjugate` transcribe that code; `Props/C14.lean` refutes the property for it on a 1×1 matrix.
-/
namespace Fcppt.C14

def Mat.oldDet : {n : Nat} → Mat n n → Int
  | 0, _ => fold (n := 0) 0 fun _ sum => sum
  | 1, m => m.atRC 0 0
  | n + 2, m =>
    fold (n := n + 2) 0 fun row sum =>
      sum + coeff row.val * m.atRC row 0 * Mat.oldDet (m.deleteRowAndColumn row.val 0)

def Mat.oldAdjugate : {n : Nat} → Mat n n → Mat n n
  | 0, _ => Mat.init fun rw _ => rw.elim0
  | _ + 1, m => Mat.init fun rw cl => coeff (rw.val + cl.val) * (m.deleteRowAndColumn cl.val rw.val).oldDet

/-- a 1×1 static matrix -/
def Mat.single (x : Int) : Mat 1 1 := ⟨fromArray #v[x]⟩

end Fcppt.C14
