import FcpptProofs.C14.Matrix
import FcpptProofs.C14.Vector
/-!
# C14 — rows, run-time access, row constructor, builders, comparison of matrices
-/
namespace Fcppt.C14.Lemma
open Matrix

theorem get_atR {r c : Nat} (m : Mat r c) (i : Fin r) (j : Fin c) : (m.atR i).get j = m.entry i j := by
  simp [Mat.atR, Mat.entry]

theorem toFun_atR {r c : Nat} (m : Mat r c) (i : Fin r) : (m.atR i).toFun = m.toMatrix i := by
  ext j; simp [Mat.atRC]

theorem Mat.getUnsafe_ok {r c : Nat} (m : Mat r c) (j : Nat) (h : j < r) : m.getUnsafe j = .ok (m.atR ⟨j, h⟩) := by
  simp [Mat.getUnsafe, h]
theorem Mat.getUnsafe_oob {r c : Nat} (m : Mat r c) (j : Nat) (h : r ≤ j) : m.getUnsafe j = .error .oob := by
  simp [Mat.getUnsafe, Nat.not_lt.mpr h]

theorem atRC_ofRows {r c : Nat} (rows : Fin r → Vec c) (i : Fin r) (j : Fin c) : (Mat.ofRows rows).atRC i j = (rows i).get j := by
  rw [atRC_eq_entry]
  simp only [Mat.entry, Mat.ofRows, get_fromArray, Fin.getElem_fin, Vector.getElem_ofFn, atI_eq]
  have h1 : (⟨(i.val * c + j.val) / c, abs_row_lt ⟨i.val * c + j.val, index_lt i j⟩⟩ : Fin r) = i := by ext; simp [index_div]
  have h2 : (⟨(i.val * c + j.val) % c, abs_col_lt ⟨i.val * c + j.val, index_lt i j⟩⟩ : Fin c) = j := by ext; simp [Nat.mod_eq_of_lt j.isLt]
  rw [h1, h2]

/-- rebuilding a matrix from copies of its rows gives the same matrix -/
theorem toMatrix_ofRows_atR {r c : Nat} (m : Mat r c) :
    (Mat.ofRows fun i => fromArray (toArray (m.atR i))).toMatrix = m.toMatrix := by
  ext i j
  rw [Mat.toMatrix_apply, atRC_ofRows]
  simp [Mat.atRC]

theorem Mat.isStatic_translation (tx ty tz : Int) : (Mat.translation tx ty tz).IsStatic := by
  unfold Mat.translation; exact Mat.isStatic_ofRows _
theorem Mat.isStatic_scaling (sx sy sz : Int) : (Mat.scaling sx sy sz).IsStatic := by
  unfold Mat.scaling; exact Mat.isStatic_ofRows _

theorem toMatrix_translation (tx ty tz : Int) :
    (Mat.translation tx ty tz).toMatrix = !![1, 0, 0, tx; 0, 1, 0, ty; 0, 0, 1, tz; 0, 0, 0, 1] := by
  ext i j
  fin_cases i <;> fin_cases j <;> simp [Mat.translation, atRC_ofRows, row]

theorem toMatrix_scaling (sx sy sz : Int) :
    (Mat.scaling sx sy sz).toMatrix = !![sx, 0, 0, 0; 0, sy, 0, 0; 0, 0, sz, 0; 0, 0, 0, 1] := by
  ext i j
  fin_cases i <;> fin_cases j <;> simp [Mat.scaling, atRC_ofRows, row]

theorem toMatrix_scaling_diagonal (sx sy sz : Int) :
    (Mat.scaling sx sy sz).toMatrix = Matrix.diagonal ![sx, sy, sz, 1] := by
  rw [toMatrix_scaling]
  ext i j
  fin_cases i <;> fin_cases j <;> simp

theorem Mat.eq_iff {r c : Nat} (a b : Mat r c) : a.eq b = true ↔ a.toMatrix = b.toMatrix := by
  rw [Mat.eq, arrayEqual_iff]
  constructor
  · intro h; ext i j; simp [atRC_eq_entry, Mat.entry, h]
  · intro h k
    have hk := congrFun (congrFun h ⟨k.val / c, abs_row_lt k⟩) ⟨k.val % c, abs_col_lt k⟩
    simp only [Mat.toMatrix_apply, atRC_eq_entry, Mat.entry] at hk
    have e : (⟨k.val / c * c + k.val % c, index_lt ⟨k.val / c, abs_row_lt k⟩ ⟨k.val % c, abs_col_lt k⟩⟩ : Fin (r * c)) = k := by
      ext; simp [Nat.div_add_mod']
    rwa [e] at hk

end Fcppt.C14.Lemma
