import FcpptProofs.C14.Basic
/-!
# C14 — the matrix model denotes Mathlib's matrix operations
-/
namespace Fcppt.C14.Lemma
open Matrix

/-! ## static results -/

theorem Mat.isStatic_add {r c : Nat} (a b : Mat r c) : (a.add b).IsStatic := ⟨_, rfl⟩
theorem Mat.isStatic_sub {r c : Nat} (a b : Mat r c) : (a.sub b).IsStatic := ⟨_, rfl⟩
theorem Mat.isStatic_smulR {r c : Nat} (a : Mat r c) (k : Int) : (a.smulR k).IsStatic := ⟨_, rfl⟩
theorem Mat.isStatic_smulL {r c : Nat} (k : Int) (a : Mat r c) : (Mat.smulL k a).IsStatic := ⟨_, rfl⟩
theorem Mat.isStatic_mul {m n p : Nat} (a : Mat m n) (b : Mat n p) : (a.mul b).IsStatic := ⟨_, rfl⟩
theorem Mat.isStatic_transpose {r c : Nat} (a : Mat r c) : a.transpose.IsStatic := ⟨_, rfl⟩
theorem Mat.isStatic_identity (n : Nat) : (Mat.identity n).IsStatic := ⟨_, rfl⟩
theorem Mat.isStatic_deleteRowAndColumn {r c : Nat} (dr dc : Nat) (a : Mat (r + 1) (c + 1)) :
    (a.deleteRowAndColumn dr dc).IsStatic := ⟨_, rfl⟩
theorem Mat.isStatic_adjugate : ∀ {n : Nat} (a : Mat n n), a.adjugate.IsStatic
  | 0, _ => ⟨_, rfl⟩
  | _ + 1, _ => ⟨_, rfl⟩
theorem Mat.isStatic_structureCast {r c : Nat} (conv : Int → Int) (a : Mat r c) : (a.structureCast conv).IsStatic := ⟨_, rfl⟩
theorem Mat.isStatic_ofRows {r c : Nat} (rows : Fin r → Vec c) : (Mat.ofRows rows).IsStatic := ⟨_, rfl⟩

/-! ## component-wise operations -/

theorem toMatrix_add {r c : Nat} (a b : Mat r c) : (a.add b).toMatrix = a.toMatrix + b.toMatrix := by
  ext i j; simp [atRC_eq_entry, Mat.entry, Mat.add]

theorem toMatrix_sub {r c : Nat} (a b : Mat r c) : (a.sub b).toMatrix = a.toMatrix - b.toMatrix := by
  ext i j; simp [atRC_eq_entry, Mat.entry, Mat.sub]

theorem toMatrix_smulR {r c : Nat} (a : Mat r c) (k : Int) : (a.smulR k).toMatrix = k • a.toMatrix := by
  ext i j; simp [atRC_eq_entry, Mat.entry, Mat.smulR, mul_comm]

theorem toMatrix_smulL {r c : Nat} (k : Int) (a : Mat r c) : (Mat.smulL k a).toMatrix = k • a.toMatrix := by
  ext i j; simp [atRC_eq_entry, Mat.entry, Mat.smulL]

theorem toMatrix_structureCast {r c : Nat} (conv : Int → Int) (a : Mat r c) :
    (a.structureCast conv).toMatrix = a.toMatrix.map conv := by
  ext i j; simp [atRC_eq_entry, Mat.entry, Mat.structureCast, structureCast]

/-! ## product, matrix·vector, transpose, identity -/

theorem toMatrix_mul {m n p : Nat} (a : Mat m n) (b : Mat n p) : (a.mul b).toMatrix = a.toMatrix * b.toMatrix := by
  ext i j
  simp [Mat.mul, fold_add_eq_sum, Matrix.mul_apply]

theorem toFun_mulVec {r c : Nat} (a : Mat r c) (v : Vec c) : (a.mulVec v).toFun = a.toMatrix.mulVec v.toFun := by
  ext i
  simp [Mat.mulVec, fold_add_eq_sum, Matrix.mulVec, dotProduct]

theorem toMatrix_transpose {r c : Nat} (a : Mat r c) : a.transpose.toMatrix = a.toMatrixᵀ := by
  ext i j; simp [Mat.transpose]

theorem toMatrix_identity (n : Nat) : (Mat.identity n).toMatrix = 1 := by
  ext i j
  simp [Mat.identity, Matrix.one_apply, Fin.ext_iff]

/-! ## determinant and adjugate -/

theorem coeff_eq (k : Nat) : coeff k = (-1) ^ k := by
  unfold coeff
  split
  · rename_i h; rw [Even.neg_one_pow (Nat.even_iff.mpr h)]
  · rename_i h; rw [Odd.neg_one_pow (Nat.odd_iff.mpr (by omega))]

theorem deletedIndex_succAbove {n : Nat} (p : Fin (n + 1)) (i : Fin n) :
    deletedIndex i.val p.val = (p.succAbove i).val := by
  unfold deletedIndex Fin.succAbove
  split
  · rename_i h
    have : ¬ (i.castSucc < p) := by simp [Fin.lt_def]; omega
    simp [this]
  · rename_i h
    have : i.castSucc < p := by simp [Fin.lt_def]; omega
    simp [this]

theorem toMatrix_deleteRowAndColumn {r c : Nat} (dr : Fin (r + 1)) (dc : Fin (c + 1)) (a : Mat (r + 1) (c + 1)) :
    (a.deleteRowAndColumn dr.val dc.val).toMatrix = a.toMatrix.submatrix dr.succAbove dc.succAbove := by
  ext i j
  simp only [Mat.deleteRowAndColumn, Mat.toMatrix_apply, atRC_init, Matrix.submatrix_apply]
  congr 1 <;> ext <;> simp [deletedIndex_succAbove]

/-- the Laplace expansion of `detail/determinant.hpp` computes Mathlib's determinant, for every size -/
theorem det_eq : ∀ {n : Nat} (a : Mat n n), a.det = a.toMatrix.det
  | 0, a => by simp [Mat.det]
  | 1, a => by simp [Mat.det, Matrix.det_unique]
  | n + 2, a => by
    rw [Mat.det, fold_add_eq_sum, Matrix.det_succ_column_zero]
    refine Finset.sum_congr rfl fun i _ => ?_
    have h0 : ((0 : Fin (n + 2)).val) = 0 := rfl
    rw [det_eq (a.deleteRowAndColumn i.val 0), ← h0, toMatrix_deleteRowAndColumn i 0 a, coeff_eq, Fin.succAbove_zero]
    simp

/-- `matrix::adjugate` computes Mathlib's adjugate, for every size -/
theorem adjugate_eq : ∀ {n : Nat} (a : Mat n n), a.adjugate.toMatrix = a.toMatrix.adjugate
  | 0, a => by ext i; exact i.elim0
  | n + 1, a => by
    ext i j
    rw [Matrix.adjugate_fin_succ_eq_det_submatrix]
    simp only [Mat.adjugate, Mat.toMatrix_apply, atRC_init]
    rw [det_eq, toMatrix_deleteRowAndColumn j i a, coeff_eq, add_comm]

end Fcppt.C14.Lemma
