import Mathlib.LinearAlgebra.CrossProduct
import FcpptProofs.C14.Basic
/-!
# C14 — vector / dim operations are the component-wise operations on `Fin n → ℤ`
-/
namespace Fcppt.C14.Lemma
open Matrix

theorem isStatic_neg {n : Nat} (v : Vec n) : (neg v).IsStatic := ⟨_, rfl⟩
theorem isStatic_add {n : Nat} (l r : Vec n) : (add l r).IsStatic := ⟨_, rfl⟩
theorem isStatic_sub {n : Nat} (l r : Vec n) : (sub l r).IsStatic := ⟨_, rfl⟩
theorem isStatic_mul {n : Nat} (l r : Vec n) : (mul l r).IsStatic := ⟨_, rfl⟩
theorem isStatic_smulR {n : Nat} (l : Vec n) (k : Int) : (smulR l k).IsStatic := ⟨_, rfl⟩
theorem isStatic_smulL {n : Nat} (k : Int) (r : Vec n) : (smulL k r).IsStatic := ⟨_, rfl⟩
theorem isStatic_cross (l r : Vec 3) : (cross l r).IsStatic := ⟨_, rfl⟩
theorem isStatic_mulVec {r c : Nat} (a : Mat r c) (v : Vec c) : (a.mulVec v).IsStatic := ⟨_, rfl⟩

theorem toFun_neg {n : Nat} (v : Vec n) : (neg v).toFun = -v.toFun := by ext i; simp [neg]
theorem toFun_add {n : Nat} (l r : Vec n) : (add l r).toFun = l.toFun + r.toFun := by ext i; simp [add]
theorem toFun_sub {n : Nat} (l r : Vec n) : (sub l r).toFun = l.toFun - r.toFun := by ext i; simp [sub]
theorem toFun_mul {n : Nat} (l r : Vec n) : (mul l r).toFun = l.toFun * r.toFun := by ext i; simp [mul]
theorem toFun_smulR {n : Nat} (l : Vec n) (k : Int) : (smulR l k).toFun = k • l.toFun := by ext i; simp [smulR, mul_comm]
theorem toFun_smulL {n : Nat} (k : Int) (r : Vec n) : (smulL k r).toFun = k • r.toFun := by ext i; simp [smulL]

/-! ## division (`math::div` + `sequence`) -/

theorem sequence_eq_some {n : Nat} (a : Vector (Option Int) n) (v : Vec n) :
    sequence a = some v ↔ v.IsStatic ∧ ∀ i : Fin n, a[i] = some (v.get i) := by
  unfold sequence
  split
  · rename_i h
    constructor
    · intro hv
      have hv := (Option.some.inj hv).symm
      subst hv
      exact ⟨isStatic_fromArray _, fun i => by simp⟩
    · rintro ⟨hs, hv⟩
      congr 1
      refine Storage.ext_static (isStatic_fromArray _) hs fun i => ?_
      have := hv i
      simp only [Fin.getElem_fin] at this
      simp [this]
  · rename_i h
    constructor
    · intro hv; cases hv
    · rintro ⟨_, hv⟩
      exact absurd (fun i => by rw [hv i]; rfl) h

theorem sequence_eq_none {n : Nat} (a : Vector (Option Int) n) : sequence a = none ↔ ∃ i : Fin n, a[i] = none := by
  unfold sequence
  split
  · rename_i h
    simp only [reduceCtorEq, false_iff, not_exists]
    intro i hi
    have := h i
    rw [hi] at this
    cases this
  · rename_i h
    simp only [true_iff]
    by_contra hcon
    apply h
    intro i
    cases hai : a[i] with
    | none => exact absurd ⟨i, hai⟩ hcon
    | some _ => rfl

theorem div_eq_some (a b q : Int) : div a b = some q ↔ b ≠ 0 ∧ q = Int.tdiv a b := by
  unfold div; split <;> simp_all [eq_comm]

theorem div_eq_none (a b : Int) : div a b = none ↔ b = 0 := by
  unfold div; split <;> simp_all

theorem divV_eq_some {n : Nat} (l r v : Vec n) :
    divV l r = some v ↔ v.IsStatic ∧ ∀ i, r.get i ≠ 0 ∧ v.get i = Int.tdiv (l.get i) (r.get i) := by
  simp [divV, sequence_eq_some, div_eq_some]

theorem divV_eq_none {n : Nat} (l r : Vec n) : divV l r = none ↔ ∃ i, r.get i = 0 := by
  simp [divV, sequence_eq_none, div_eq_none]

theorem divS_eq_some {n : Nat} (l v : Vec n) (k : Int) :
    divS l k = some v ↔ v.IsStatic ∧ ∀ i, k ≠ 0 ∧ v.get i = Int.tdiv (l.get i) k := by
  simp [divS, sequence_eq_some, div_eq_some]

theorem divS_eq_none {n : Nat} (l : Vec n) (k : Int) : divS l k = none ↔ 0 < n ∧ k = 0 := by
  simp only [divS, sequence_eq_none, div_eq_none, Fin.getElem_fin, Vector.getElem_ofFn, exists_const_iff]
  constructor
  · rintro ⟨⟨i⟩, h⟩; exact ⟨by have := i.isLt; omega, h⟩
  · rintro ⟨hn, h⟩; exact ⟨⟨⟨0, hn⟩⟩, h⟩

/-! ## dot, length_square, cross -/

theorem dot_eq {n : Nat} (l r : Vec n) : dot l r = l.toFun ⬝ᵥ r.toFun := by
  simp [dot, fold_add_eq_sum, dotProduct]

theorem lengthSquare_eq {n : Nat} (v : Vec n) : lengthSquare v = v.toFun ⬝ᵥ v.toFun := dot_eq v v

theorem toFun_cross (l r : Vec 3) : (cross l r).toFun = crossProduct l.toFun r.toFun := by
  ext i
  rw [cross_apply]
  fin_cases i <;> simp [cross, x, y, z, fromArray]

/-! ## casts, builders of vectors -/

theorem get_narrowCast {n m : Nat} (h : m < n) (src : Vec n) (i : Fin m) :
    (narrowCast h src).get i = src.get ⟨i.val, Nat.lt_trans i.isLt h⟩ := by
  simp [narrowCast]

theorem get_pushBack {n : Nat} (src : Vec n) (value : Int) (i : Fin (n + 1)) :
    (pushBack src value).get i = if h : i.val < n then src.get ⟨i.val, h⟩ else value := by
  simp only [pushBack, get_fromArray, atI_eq, Fin.getElem_fin]
  split
  · rename_i h; simp [h]
  · rename_i h; simp [Vector.getElem_push, h]

theorem get_structureCast {n : Nat} (conv : Int → Int) (src : Storage n) (i : Fin n) :
    (structureCast conv src).get i = conv (src.get i) := by
  simp [structureCast]

theorem get_null {n : Nat} (i : Fin n) : (null n).get i = 0 := by simp [null]
theorem get_fill {n : Nat} (value : Int) (i : Fin n) : (fill n value).get i = value := by simp [fill]

theorem getUnsafe_ok {n : Nat} (v : Vec n) (i : Nat) (h : i < n) : getUnsafe v i = .ok (v.get ⟨i, h⟩) := by
  simp [getUnsafe, h]
theorem getUnsafe_oob {n : Nat} (v : Vec n) (i : Nat) (h : n ≤ i) : getUnsafe v i = .error .oob := by
  simp [getUnsafe, Nat.not_lt.mpr h]

/-! ## comparison -/

theorem arrayEqual_iff {n : Nat} (a b : Storage n) : arrayEqual a b = true ↔ ∀ i, a.get i = b.get i := by
  simp [arrayEqual, allOf_iff]

theorem toList_toArray {n : Nat} (s : Storage n) : (toArray s).toList = s.toList := by
  simp [toArray, Storage.toList, Vector.toList_ofFn, List.ofFn_eq_map]

theorem length_toList {n : Nat} (s : Storage n) : s.toList.length = n := by simp [Storage.toList]

theorem getElem_toList {n : Nat} (s : Storage n) (k : Nat) (h : k < s.toList.length) :
    s.toList[k] = s.get ⟨k, by simpa [Storage.toList] using h⟩ := by
  simp [Storage.toList]

theorem toList_eq_iff {n : Nat} (a b : Storage n) : a.toList = b.toList ↔ ∀ i, a.get i = b.get i := by
  constructor
  · intro h i
    have h1 : i.val < a.toList.length := by simp [length_toList]
    have h2 : i.val < b.toList.length := by simp [length_toList]
    have : a.toList[i.val] = b.toList[i.val] := by simp [h]
    simpa [getElem_toList] using this
  · intro h
    apply List.ext_getElem (by simp [length_toList])
    intro k h1 h2
    simp [getElem_toList, h]

/-- `std::lexicographical_compare` is the strict lexicographic order of lists -/
theorem lexLt_iff_lt : ∀ (l₁ l₂ : List Int), lexLt l₁ l₂ = true ↔ l₁ < l₂
  | [], [] => by simp [lexLt]
  | [], _ :: _ => by simp [lexLt]
  | _ :: _, [] => by simp [lexLt]
  | x :: xs, y :: ys => by
    rw [lexLt, List.cons_lt_cons_iff]
    by_cases h1 : x < y
    · simp [h1]
    · by_cases h2 : y < x
      · have : x ≠ y := by omega
        simp [h1, h2, this]
      · have : x = y := by omega
        simp [this, lexLt_iff_lt xs ys]

/-- on equally long lists: the first differing position decides -/
theorem lexLt_iff_first_diff : ∀ (l₁ l₂ : List Int), l₁.length = l₂.length →
    (lexLt l₁ l₂ = true ↔ ∃ k, ∃ h1 : k < l₁.length, ∃ h2 : k < l₂.length,
      (∀ j (hj : j < k), l₁[j]'(by omega) = l₂[j]'(by omega)) ∧ l₁[k] < l₂[k])
  | [], [], _ => by simp [lexLt]
  | [], _ :: _, h => by simp at h
  | _ :: _, [], h => by simp at h
  | x :: xs, y :: ys, h => by
    have hl : xs.length = ys.length := by simpa using h
    rw [lexLt]
    by_cases h1 : x < y
    · simp only [h1, if_true, true_iff]
      exact ⟨0, by simp, by simp, by simp, by simpa using h1⟩
    · by_cases h2 : y < x
      · simp only [h1, h2, if_false, if_true, Bool.false_eq_true, false_iff]
        rintro ⟨k, hk1, hk2, hpre, hlt⟩
        cases k with
        | zero => simp at hlt; omega
        | succ k => have := hpre 0 (by omega); simp at this; omega
      · have hxy : x = y := by omega
        subst hxy
        simp only [h1, if_false, lexLt_iff_first_diff xs ys hl]
        constructor
        · rintro ⟨k, hk1, hk2, hpre, hlt⟩
          refine ⟨k + 1, by simp; omega, by simp; omega, ?_, by simpa using hlt⟩
          intro j hj
          cases j with
          | zero => simp
          | succ j => simpa using hpre j (by omega)
        · rintro ⟨k, hk1, hk2, hpre, hlt⟩
          cases k with
          | zero => simp at hlt
          | succ k =>
            refine ⟨k, by simp at hk1; omega, by simp at hk2; omega, ?_, by simpa using hlt⟩
            intro j hj
            simpa using hpre (j + 1) (by omega)

theorem arrayLess_iff_lt {n : Nat} (a b : Storage n) : arrayLess a b = true ↔ a.toList < b.toList := by
  simp [arrayLess, toList_toArray, lexLt_iff_lt]

theorem arrayLess_iff_lexLt {n : Nat} (a b : Storage n) : arrayLess a b = true ↔ LexLt a.get b.get := by
  rw [arrayLess, toList_toArray, toList_toArray,
    lexLt_iff_first_diff _ _ (by simp [length_toList])]
  constructor
  · rintro ⟨k, hk1, hk2, hpre, hlt⟩
    have hk : k < n := by simpa [length_toList] using hk1
    refine ⟨⟨k, hk⟩, ?_, by simpa [getElem_toList] using hlt⟩
    intro j hj
    have := hpre j.val hj
    simpa [getElem_toList] using this
  · rintro ⟨k, hpre, hlt⟩
    refine ⟨k.val, by simp [length_toList], by simp [length_toList], ?_, by simpa [getElem_toList] using hlt⟩
    intro j hj
    have := hpre ⟨j, by omega⟩ hj
    simpa [getElem_toList] using this

end Fcppt.C14.Lemma
