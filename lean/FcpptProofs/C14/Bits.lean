import FcpptProofs.C14.Basic
/-!
# C14 — `bit_strings<T, N>()` enumerates the binary digits: vector number `k` has component `i` = bit `i` of `k`
-/
namespace Fcppt.C14.Lemma

theorem getElem_setAt {n : Nat} (v : Vector Int n) (i : Fin n) (x : Int) (j : Nat) (hj : j < n) :
    (setAt v i x)[j] = if i.val = j then x else v[j] := by
  simp [setAt, Vector.getElem_set]

theorem bitOf_lt {k i : Nat} (h : k < 2 ^ i) : bitOf k i = 0 := by
  simp [bitOf, Nat.testBit_lt_two_pow h]

theorem bitStringsAux_spec {n : Nat} : ∀ (k : Nat) (hk : k < n) (v : Vector Int n),
    (bitStringsAux k hk v).length = 2 ^ (k + 1) ∧
    ∀ (idx : Nat) (hidx : idx < (bitStringsAux k hk v).length) (i : Nat) (hi : i < n),
      ((bitStringsAux k hk v)[idx])[i] = if i ≤ k then bitOf idx i else v[i]
  | 0, hk, v => by
    refine ⟨by simp [bitStringsAux], ?_⟩
    intro idx hidx i hi
    simp only [bitStringsAux, List.length_cons, List.length_nil] at hidx
    have : idx = 0 ∨ idx = 1 := by omega
    rcases this with rfl | rfl
    · by_cases h0 : i = 0
      · subst h0; simp [bitStringsAux, getElem_setAt, bitOf]
      · have : ¬ (i ≤ 0) := by omega
        simp [bitStringsAux, getElem_setAt, this, Ne.symm h0]
    · by_cases h0 : i = 0
      · subst h0; simp [bitStringsAux, getElem_setAt, bitOf]
      · have : ¬ (i ≤ 0) := by omega
        simp [bitStringsAux, getElem_setAt, this, Ne.symm h0]
  | k + 1, hk, v => by
    have ih0 := bitStringsAux_spec k (Nat.lt_of_succ_lt hk) (setAt v ⟨k + 1, hk⟩ 0)
    have ih1 := bitStringsAux_spec k (Nat.lt_of_succ_lt hk) (setAt (setAt v ⟨k + 1, hk⟩ 0) ⟨k + 1, hk⟩ 1)
    have hlen : (bitStringsAux (k + 1) hk v).length = 2 ^ (k + 1 + 1) := by
      simp only [bitStringsAux, List.length_append, ih0.1, ih1.1]; ring
    refine ⟨hlen, ?_⟩
    intro idx hidx i hi
    have happ : bitStringsAux (k + 1) hk v =
        bitStringsAux k (Nat.lt_of_succ_lt hk) (setAt v ⟨k + 1, hk⟩ 0) ++
          bitStringsAux k (Nat.lt_of_succ_lt hk) (setAt (setAt v ⟨k + 1, hk⟩ 0) ⟨k + 1, hk⟩ 1) := rfl
    have hget : (bitStringsAux (k + 1) hk v)[idx] =
        (bitStringsAux k (Nat.lt_of_succ_lt hk) (setAt v ⟨k + 1, hk⟩ 0) ++
          bitStringsAux k (Nat.lt_of_succ_lt hk) (setAt (setAt v ⟨k + 1, hk⟩ 0) ⟨k + 1, hk⟩ 1))[idx]'(happ ▸ hidx) := by
      simp only [happ]
    rw [hget, List.getElem_append]
    split
    · rename_i hlt
      rw [ih0.2 idx hlt i hi]
      have hidx0 : idx < 2 ^ (k + 1) := by rw [← ih0.1]; exact hlt
      by_cases h1 : i ≤ k
      · have : i ≤ k + 1 := by omega
        simp [h1, this]
      · by_cases h2 : i = k + 1
        · subst h2; simp [getElem_setAt, bitOf_lt hidx0]
        · have : ¬ (i ≤ k + 1) := by omega
          have h3 : ¬ (k + 1 = i) := by omega
          simp [h1, this, getElem_setAt, h3]
    · rename_i hge
      rw [ih0.1] at hge
      have hidx1 : idx - 2 ^ (k + 1) < 2 ^ (k + 1) := by rw [hlen] at hidx; rw [pow_succ] at hidx; omega
      have hsplit : idx = 2 ^ (k + 1) + (idx - 2 ^ (k + 1)) := by omega
      simp only [ih0.1]
      rw [ih1.2 (idx - 2 ^ (k + 1)) (by rw [ih1.1]; exact hidx1) i hi]
      by_cases h1 : i ≤ k
      · have : i ≤ k + 1 := by omega
        simp only [h1, this, if_true]
        conv_rhs => rw [hsplit]
        simp [bitOf, Nat.testBit_two_pow_add_gt (show i < k + 1 by omega)]
      · by_cases h2 : i = k + 1
        · subst h2
          simp only [h1, if_false, le_refl, if_true, getElem_setAt, if_true]
          conv_rhs => rw [hsplit]
          simp [bitOf, Nat.testBit_two_pow_add_eq, Nat.testBit_lt_two_pow hidx1]
        · have : ¬ (i ≤ k + 1) := by omega
          have h3 : ¬ (k + 1 = i) := by omega
          simp [h1, this, getElem_setAt, h3]

theorem length_bitStrings (n : Nat) : (bitStrings n).length = 2 ^ (n + 1) := by
  simp [bitStrings, (bitStringsAux_spec n (Nat.lt_succ_self n) _).1]

theorem get_bitStrings (n : Nat) (k : Nat) (hk : k < (bitStrings n).length) (i : Fin (n + 1)) :
    ((bitStrings n)[k]).get i = bitOf k i.val := by
  have h := (bitStringsAux_spec n (Nat.lt_succ_self n) (Vector.ofFn fun _ => 0)).2 k
    (by simpa [bitStrings] using hk) i.val i.isLt
  have hi : i.val ≤ n := Nat.le_of_lt_succ i.isLt
  simp only [hi, if_true] at h
  simp [bitStrings, h]

end Fcppt.C14.Lemma
