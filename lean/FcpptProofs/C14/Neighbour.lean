import FcpptProofs.C14.Access
import FcpptModel.Model.C14.Neighbour
/-!
# C14 — lemmas about the neighbouring API (`Model/C14/Neighbour.lean`)
-/
namespace Fcppt.C14

/-- `Σ_j |a_ij|` -/
def Mat.rowAbsSum {r c : Nat} (m : Mat r c) (i : Fin r) : ℤ := ∑ j, |m.toMatrix i j|

end Fcppt.C14

namespace Fcppt.C14.Lemma

theorem fold_mul_eq_prod {n : Nat} (g : Fin n → ℤ) : fold (n := n) 1 (fun i value => value * g i) = ∏ i, g i := by
  unfold fold
  induction n with
  | zero => simp
  | succ k ih => rw [Fin.foldl_succ_last, Fin.prod_univ_castSucc, ← ih]

theorem contents_eq_prod {n : Nat} (d : Vec n) : contents d = ∏ i, d.get i := fold_mul_eq_prod _

theorem isQuadratic_iff {n : Nat} (d : Vec (n + 1)) : isQuadratic d = true ↔ ∀ i, d.get i = d.get 0 := by
  simp only [isQuadratic, allOf_iff, atI_eq, beq_iff_eq]
  rfl

@[simp] theorem get_toDifferent {n : Nat} (s : Vec n) (i : Fin n) : (toDifferent s).get i = s.get i := by simp [toDifferent]

@[simp] theorem get_unit (n axis : Nat) (i : Fin n) : (unit n axis).get i = if i.val = axis then 1 else 0 := by simp [unit]

theorem foldl_max {n : Nat} (s0 : ℤ) (g : Fin n → ℤ) :
    (s0 ≤ Fin.foldl n (fun s i => max s (g i)) s0) ∧ (∀ i, g i ≤ Fin.foldl n (fun s i => max s (g i)) s0) ∧
    (Fin.foldl n (fun s i => max s (g i)) s0 = s0 ∨ ∃ i, Fin.foldl n (fun s i => max s (g i)) s0 = g i) := by
  induction n with
  | zero => exact ⟨by simp, fun i => i.elim0, Or.inl (by simp)⟩
  | succ k ih =>
    rw [Fin.foldl_succ_last]
    obtain ⟨h0, hle, hex⟩ := ih (fun i => g i.castSucc)
    refine ⟨le_trans h0 (le_max_left _ _), fun i => ?_, ?_⟩
    · rcases Fin.eq_castSucc_or_eq_last i with ⟨j, rfl⟩ | rfl
      · exact le_trans (hle j) (le_max_left _ _)
      · exact le_max_right _ _
    · rcases max_cases (Fin.foldl k (fun s i => max s (g i.castSucc)) s0) (g (Fin.last k)) with ⟨he, _⟩ | ⟨he, _⟩
      · rw [he]
        rcases hex with h | ⟨j, hj⟩
        · exact Or.inl h
        · exact Or.inr ⟨j.castSucc, hj⟩
      · exact Or.inr ⟨Fin.last k, he⟩

/-- a fold with `max` over `g` starting at `s0` is an upper bound of `s0` and all `g i`, and is one of them -/
theorem fold_max {n : Nat} (s0 : ℤ) (g : Fin n → ℤ) :
    (s0 ≤ fold (n := n) s0 (fun i mx => max mx (g i))) ∧ (∀ i, g i ≤ fold (n := n) s0 (fun i mx => max mx (g i))) ∧
    (fold (n := n) s0 (fun i mx => max mx (g i)) = s0 ∨ ∃ i, fold (n := n) s0 (fun i mx => max mx (g i)) = g i) :=
  foldl_max s0 g

theorem rowAbsSum_eq {r c : Nat} (m : Mat r c) (i : Fin r) :
    fold (n := c) 0 (fun col s => s + ((m.atRC i col).natAbs : ℤ)) = m.rowAbsSum i := by
  rw [fold_add_eq_sum]
  simp [Mat.rowAbsSum]

theorem infinityNorm_eq_fold {r c : Nat} (m : Mat r c) :
    m.infinityNorm = fold (n := r) longMin (fun row mx => max mx (m.rowAbsSum row)) := by
  simp only [Mat.infinityNorm, rowAbsSum_eq]

theorem rowAbsSum_nonneg {r c : Nat} (m : Mat r c) (i : Fin r) : 0 ≤ m.rowAbsSum i :=
  Finset.sum_nonneg fun _ _ => abs_nonneg _

end Fcppt.C14.Lemma
