import FcpptProofs.C14.Access
import FcpptModel.Model.C14.Neighbour
import Mathlib.Data.Rat.Floor
/-!
# C14 — lemmas about the neighbouring API (`Model/C14/Neighbour.lean`)
-/
namespace Fcppt.C14

/-- `Σ_j |a_ij|` -/
def Mat.rowAbsSum {r c : Nat} (m : Mat r c) (i : Fin r) : ℤ := ∑ j, |m.toMatrix i j|

end Fcppt.C14

namespace Fcppt.C14.Lemma

theorem fold_mul_eq_prod {n : Nat} (g : Fin n → ℤ) : fold (n := n) 1 (fun i value => value * g i) = ∏ i, g i := by
  unfold fold
  induction n with
  | zero => simp
  | succ k ih => rw [Fin.foldl_succ_last, Fin.prod_univ_castSucc, ← ih]

theorem contents_eq_prod {n : Nat} (d : Vec n) : contents d = ∏ i, d.get i := fold_mul_eq_prod _

theorem isQuadratic_iff {n : Nat} (d : Vec (n + 1)) : isQuadratic d = true ↔ ∀ i, d.get i = d.get 0 := by
  simp only [isQuadratic, allOf_iff, atI_eq, beq_iff_eq]
  rfl

@[simp] theorem get_toDifferent {n : Nat} (s : Vec n) (i : Fin n) : (toDifferent s).get i = s.get i := by simp [toDifferent]

@[simp] theorem get_unit (n axis : Nat) (i : Fin n) : (unit n axis).get i = if i.val = axis then 1 else 0 := by simp [unit]

theorem foldl_max {n : Nat} (s0 : ℤ) (g : Fin n → ℤ) :
    (s0 ≤ Fin.foldl n (fun s i => max s (g i)) s0) ∧ (∀ i, g i ≤ Fin.foldl n (fun s i => max s (g i)) s0) ∧
    (Fin.foldl n (fun s i => max s (g i)) s0 = s0 ∨ ∃ i, Fin.foldl n (fun s i => max s (g i)) s0 = g i) := by
  induction n with
  | zero => exact ⟨by simp, fun i => i.elim0, Or.inl (by simp)⟩
  | succ k ih =>
    rw [Fin.foldl_succ_last]
    obtain ⟨h0, hle, hex⟩ := ih (fun i => g i.castSucc)
    refine ⟨le_trans h0 (le_max_left _ _), fun i => ?_, ?_⟩
    · rcases Fin.eq_castSucc_or_eq_last i with ⟨j, rfl⟩ | rfl
      · exact le_trans (hle j) (le_max_left _ _)
      · exact le_max_right _ _
    · rcases max_cases (Fin.foldl k (fun s i => max s (g i.castSucc)) s0) (g (Fin.last k)) with ⟨he, _⟩ | ⟨he, _⟩
      · rw [he]
        rcases hex with h | ⟨j, hj⟩
        · exact Or.inl h
        · exact Or.inr ⟨j.castSucc, hj⟩
      · exact Or.inr ⟨Fin.last k, he⟩

/-- a fold with `max` over `g` starting at `s0` is an upper bound of `s0` and all `g i`, and is one of them -/
theorem fold_max {n : Nat} (s0 : ℤ) (g : Fin n → ℤ) :
    (s0 ≤ fold (n := n) s0 (fun i mx => max mx (g i))) ∧ (∀ i, g i ≤ fold (n := n) s0 (fun i mx => max mx (g i))) ∧
    (fold (n := n) s0 (fun i mx => max mx (g i)) = s0 ∨ ∃ i, fold (n := n) s0 (fun i mx => max mx (g i)) = g i) :=
  foldl_max s0 g

theorem rowAbsSum_eq {r c : Nat} (m : Mat r c) (i : Fin r) :
    fold (n := c) 0 (fun col s => s + ((m.atRC i col).natAbs : ℤ)) = m.rowAbsSum i := by
  rw [fold_add_eq_sum]
  simp [Mat.rowAbsSum]

theorem infinityNorm_eq_fold {r c : Nat} (m : Mat r c) :
    m.infinityNorm = fold (n := r) longMin (fun row mx => max mx (m.rowAbsSum row)) := by
  simp only [Mat.infinityNorm, rowAbsSum_eq]

theorem rowAbsSum_nonneg {r c : Nat} (m : Mat r c) (i : Fin r) : 0 ≤ m.rowAbsSum i :=
  Finset.sum_nonneg fun _ _ => abs_nonneg _

/-! ## `mod`, `ceil_div_signed` -/

theorem mod_eq_some (a b r : Int) : mod a b = some r ↔ b ≠ 0 ∧ r = Int.tmod a b := by
  unfold mod; split <;> simp_all [eq_comm]

theorem mod_eq_none (a b : Int) : mod a b = none ↔ b = 0 := by
  unfold mod; split <;> simp_all

theorem modV_eq_some {n : Nat} (v0 v1 w : Vec n) :
    modV v0 v1 = some w ↔ w.IsStatic ∧ ∀ i, v1.get i ≠ 0 ∧ w.get i = Int.tmod (v0.get i) (v1.get i) := by
  simp [modV, sequence_eq_some, mod_eq_some]

theorem modV_eq_none {n : Nat} (v0 v1 : Vec n) : modV v0 v1 = none ↔ ∃ i, v1.get i = 0 := by
  simp [modV, sequence_eq_none, mod_eq_none]

theorem modS_eq_some {n : Nat} (v w : Vec n) (d : Int) :
    modS v d = some w ↔ w.IsStatic ∧ ∀ i, d ≠ 0 ∧ w.get i = Int.tmod (v.get i) d := by
  simp [modS, sequence_eq_some, mod_eq_some]

theorem modS_eq_none {n : Nat} (v : Vec n) (d : Int) : modS v d = none ↔ 0 < n ∧ d = 0 := by
  simp only [modS, sequence_eq_none, mod_eq_none, Fin.getElem_fin, Vector.getElem_ofFn, exists_const_iff]
  constructor
  · rintro ⟨⟨i⟩, h⟩; exact ⟨by have := i.isLt; omega, h⟩
  · rintro ⟨hn, h⟩; exact ⟨⟨⟨0, hn⟩⟩, h⟩

theorem ceilDivSigned_eq_none (a b : Int) : ceilDivSigned a b = none ↔ b = 0 := by
  unfold ceilDivSigned; split <;> simp_all

/-- the result is the ceiling of the exact quotient: `(q - 1) * b < a ≤ q * b` for a positive, `q * b ≤ a < (q - 1) * b` for a negative divisor -/
theorem ceilDivSigned_bounds (a b q : Int) (h : ceilDivSigned a b = some q) :
    b ≠ 0 ∧ (0 < b → (q - 1) * b < a ∧ a ≤ q * b) ∧ (b < 0 → q * b ≤ a ∧ a < (q - 1) * b) := by
  unfold ceilDivSigned at h
  split at h
  · rename_i hb
    have hq := (Option.some.inj h).symm
    have hdm := Int.tmod_add_tdiv_mul a b
    refine ⟨hb, fun hpos => ?_, fun hneg => ?_⟩
    · have h1 := Int.tmod_lt_of_pos a hpos
      have h2 := Int.lt_tmod_of_pos a hpos
      subst hq
      split
      · rename_i hc
        have : 0 < a.tmod b := by
          rcases hc with ⟨hne, hs⟩
          have : ¬ (a.tmod b < 0) := by simpa [not_lt.2 (le_of_lt hpos)] using hs
          omega
        rw [Int.sub_mul, Int.add_mul]
        generalize a.tdiv b * b = t at *
        omega
      · rename_i hc
        have : a.tmod b ≤ 0 := by
          by_contra hgt
          apply hc
          refine ⟨by omega, ?_⟩
          simp [not_lt.2 (le_of_lt hpos)]
          omega
        rw [Int.sub_mul]
        generalize a.tdiv b * b = t at *
        omega
    · have hpos' : 0 < -b := by omega
      have h1 := Int.tmod_lt_of_pos a hpos'
      have h2 := Int.lt_tmod_of_pos a hpos'
      rw [Int.tmod_neg] at h1 h2
      subst hq
      split
      · rename_i hc
        have : a.tmod b < 0 := by
          rcases hc with ⟨_, hs⟩
          simpa [hneg] using hs
        rw [Int.sub_mul, Int.add_mul]
        generalize a.tdiv b * b = t at *
        omega
      · rename_i hc
        have : 0 ≤ a.tmod b := by
          by_contra hlt
          apply hc
          refine ⟨by omega, ?_⟩
          simp [hneg]
          omega
        rw [Int.sub_mul]
        generalize a.tdiv b * b = t at *
        omega
  · cases h

theorem ceilDivSigned_eq_ceil (a b q : Int) (h : ceilDivSigned a b = some q) : q = ⌈(a : ℚ) / b⌉ := by
  obtain ⟨hb, hp, hn⟩ := ceilDivSigned_bounds a b q h
  symm
  rw [Int.ceil_eq_iff]
  rcases lt_or_gt_of_ne hb with hlt | hgt
  · obtain ⟨h1, h2⟩ := hn hlt
    have hbq : (b : ℚ) < 0 := by exact_mod_cast hlt
    constructor
    · rw [lt_div_iff_of_neg hbq]; exact_mod_cast h2
    · rw [div_le_iff_of_neg hbq]; exact_mod_cast h1
  · obtain ⟨h1, h2⟩ := hp hgt
    have hbq : (0 : ℚ) < b := by exact_mod_cast hgt
    constructor
    · rw [lt_div_iff₀ hbq]; exact_mod_cast h1
    · rw [div_le_iff₀ hbq]; exact_mod_cast h2

end Fcppt.C14.Lemma
