import Mathlib.LinearAlgebra.Matrix.Adjugate
import FcpptModel.Spec.C14
/-!
# C14 — denotation of the storage model and the basic access lemmas

`Storage.toFun` : a vector / dim denotes its component function `Fin n → ℤ`;
`Mat.toMatrix`  : a matrix denotes Mathlib's `Matrix (Fin r) (Fin c) ℤ`, read through `at_r_c`.
-/
namespace Fcppt.C14

/-- the vector (dim) a storage denotes -/
def Storage.toFun {n : Nat} (s : Storage n) : Fin n → ℤ := s.get

/-- the matrix a model matrix denotes: entry `(i, j)` is `at_r_c<i, j>` -/
def Mat.toMatrix {r c : Nat} (m : Mat r c) : Matrix (Fin r) (Fin c) ℤ := Matrix.of fun i j => m.atRC i j

/-- a storage produced by `from_array` (every result type `static_<…>`) -/
def Storage.IsStatic {n : Nat} (s : Storage n) : Prop := ∃ a, s = Storage.static a

/-- a matrix whose storage is static (every result type `static_<T, R, C>`) -/
def Mat.IsStatic {r c : Nat} (m : Mat r c) : Prop := m.s.IsStatic

end Fcppt.C14

namespace Fcppt.C14.Lemma

@[simp] theorem Mat.toMatrix_apply {r c : Nat} (m : Mat r c) (i : Fin r) (j : Fin c) : m.toMatrix i j = m.atRC i j := rfl
@[simp] theorem Storage.toFun_apply {n : Nat} (s : Storage n) (i : Fin n) : s.toFun i = s.get i := rfl

/-! ## storage access -/

@[simp] theorem get_static {n : Nat} (a : Vector Int n) (i : Fin n) : (Storage.static a).get i = a[i] := rfl
@[simp] theorem get_buffer {n len : Nat} (buf : Vector Int len) (off : Nat) (h : off + n ≤ len) (i : Fin n) :
    (Storage.buffer len buf off h : Storage n).get i = buf[off + i.val]'(by have := i.isLt; omega) := rfl
@[simp] theorem get_rowView {n m : Nat} (impl : Storage m) (off : Nat) (h : off + n ≤ m) (i : Fin n) :
    (Storage.rowView impl off h : Storage n).get i = impl.get ⟨off + i.val, by have := i.isLt; omega⟩ := rfl

@[simp] theorem get_fromArray {n : Nat} (a : Vector Int n) (i : Fin n) : (fromArray a).get i = a[i] := rfl
@[simp] theorem get_init {n : Nat} (f : Fin n → Int) (i : Fin n) : (init f).get i = f i := by simp [init]
@[simp] theorem getElem_toArray {n : Nat} (s : Storage n) (i : Nat) (h : i < n) : (toArray s)[i] = s.get ⟨i, h⟩ := by
  simp [toArray]
@[simp] theorem get_map {n : Nat} (f : Int → Int) (s : Storage n) (i : Fin n) : (map f s).get i = f (s.get i) := by
  simp [map]
@[simp] theorem get_binaryMap {n : Nat} (f : Int → Int → Int) (s t : Storage n) (i : Fin n) :
    (binaryMap f s t).get i = f (s.get i) (t.get i) := by
  simp [binaryMap]

@[simp] theorem atI_eq {n : Nat} (v : Vec n) (i : Fin n) : atI v i = v.get i := rfl


theorem isStatic_fromArray {n : Nat} (a : Vector Int n) : (fromArray a).IsStatic := ⟨a, rfl⟩
theorem isStatic_init {n : Nat} (f : Fin n → Int) : (init f).IsStatic := ⟨_, rfl⟩
theorem isStatic_map {n : Nat} (f : Int → Int) (s : Storage n) : (map f s).IsStatic := ⟨_, rfl⟩
theorem isStatic_binaryMap {n : Nat} (f : Int → Int → Int) (s t : Storage n) : (binaryMap f s t).IsStatic := ⟨_, rfl⟩

/-- two static storages with the same components are the same object -/
theorem Storage.ext_static {n : Nat} {s t : Storage n} (hs : s.IsStatic) (ht : t.IsStatic)
    (h : ∀ i, s.get i = t.get i) : s = t := by
  obtain ⟨a, rfl⟩ := hs
  obtain ⟨b, rfl⟩ := ht
  congr 1
  ext i hi
  exact h ⟨i, hi⟩

/-! ## matrix access -/

theorem atRC_eq_entry {r c : Nat} (m : Mat r c) (i : Fin r) (j : Fin c) : m.atRC i j = m.entry i j := by
  simp [Mat.atRC, Mat.atR, Mat.entry]

theorem index_div {c : Nat} (i : Nat) (j : Fin c) : (i * c + j.val) / c = i := by
  have hc : 0 < c := Nat.pos_of_ne_zero fun h => by have := j.isLt; omega
  rw [Nat.add_comm, Nat.add_mul_div_right _ _ hc, Nat.div_eq_of_lt j.isLt, Nat.zero_add]

theorem index_mod {c : Nat} (i : Nat) (j : Fin c) : (i * c + j.val) % c = j.val := by
  rw [Nat.add_comm, Nat.add_mul_mod_self_right, Nat.mod_eq_of_lt j.isLt]

/-- `matrix::init` with `index_absolute` and `at_r_c` with the row-view offset are inverse to each other -/
@[simp] theorem atRC_init {r c : Nat} (f : Fin r → Fin c → Int) (i : Fin r) (j : Fin c) : (Mat.init f).atRC i j = f i j := by
  rw [atRC_eq_entry]
  simp only [Mat.entry, Mat.init, get_init]
  congr 1 <;> ext <;> simp [index_div, Nat.mod_eq_of_lt j.isLt]

@[simp] theorem toMatrix_init {r c : Nat} (f : Fin r → Fin c → Int) : (Mat.init f).toMatrix = Matrix.of f := by
  ext i j; simp


theorem Mat.isStatic_init {r c : Nat} (f : Fin r → Fin c → Int) : (Mat.init f).IsStatic := ⟨_, rfl⟩

/-- two static matrices that denote the same `Matrix` are the same object -/
theorem Mat.ext_static {r c : Nat} {a b : Mat r c} (ha : a.IsStatic) (hb : b.IsStatic) (h : a.toMatrix = b.toMatrix) : a = b := by
  cases a with | mk sa => cases b with | mk sb =>
  congr 1
  refine Storage.ext_static ha hb fun k => ?_
  have hc : 0 < c := Nat.pos_of_ne_zero fun h0 => by have := k.isLt; simp [h0] at this
  have := congrFun (congrFun h ⟨k.val / c, abs_row_lt k⟩) ⟨k.val % c, abs_col_lt k⟩
  simp only [Mat.toMatrix_apply, atRC_eq_entry, Mat.entry] at this
  have hk : (⟨k.val / c * c + k.val % c, index_lt ⟨k.val / c, abs_row_lt k⟩ ⟨k.val % c, abs_col_lt k⟩⟩ : Fin (r * c)) = k := by
    ext; simp [Nat.div_add_mod']
  rwa [hk] at this

/-! ## folds -/

theorem fold_add_eq_sum {n : Nat} (g : Fin n → ℤ) : fold (n := n) 0 (fun i sum => sum + g i) = ∑ i, g i := by
  unfold fold
  induction n with
  | zero => simp
  | succ k ih =>
    rw [Fin.foldl_succ_last, Fin.sum_univ_castSucc, ← ih]

theorem allOf_iff {n : Nat} (f : Fin n → Bool) : allOf f = true ↔ ∀ i, f i = true := by
  simp [allOf]

end Fcppt.C14.Lemma
