import FcpptModel.Spec.C20
import FcpptProofs.C20.Lemmas
/-!
# C20 — scripts over several distribution objects and variates: the fcppt side simulates the std side
-/
namespace Fcppt.C20
variable {β δ γ : Type}

theorem map_upd {α α' : Type} (f : α → α') (m : Nat → Option α) (i : Nat) (v : Option α) :
    (fun n => (upd m i v n).map f) = upd (fun n => (m n).map f) i (v.map f) := by
  funext n
  unfold upd
  split <;> rfl

theorem erase_setDist (s : ObjsF δ) (i : Nat) (d : Basic δ) :
    ObjsF.erase { s with dist := upd s.dist i (some d) } = { s.erase with dist := upd s.erase.dist i (some d.dist) } := by
  unfold ObjsF.erase
  congr 1
  funext n
  simp only [upd]
  split <;> rfl

theorem erase_setVar (s : ObjsF δ) (k : Nat) (v : Variate δ × Bool) :
    ObjsF.erase { s with var := upd s.var k (some v) } = { s.erase with var := upd s.erase.var k (some (v.1.distribution.dist, v.2)) } := by
  unfold ObjsF.erase
  congr 1
  funext n
  simp only [upd]
  split <;> rfl

theorem erase_dist (s : ObjsF δ) (i : Nat) : s.erase.dist i = (s.dist i).map (·.dist) := rfl
theorem erase_var (s : ObjsF δ) (k : Nat) : s.erase.var k = (s.var k).map (fun v => (v.1.distribution.dist, v.2)) := rfl

theorem stepF_erase (D : StdDist β δ) (out : δ → String) (ty : Ty) (G : Gen γ) (a : Act β) (s : ObjsF δ) (g : γ × γ) :
    (stepF D out ty (basicPseudo G) a s g).map (fun r => (r.1, r.2.1.erase, r.2.2)) =
      (stepS D out G a s.erase g).map (fun r => (r.1.map (Ev.map (decorate ty)), r.2.1, r.2.2)) := by
  cases a with
  | newP i p => simp [stepF, stepS, Except.map, erase_setDist, Basic.ctor, Param2.convertFrom]
  | new2 i t1 t2 => simp [stepF, stepS, Except.map, erase_setDist, Basic.ctor2, Param2.convertFrom]
  | copy i j assign =>
    simp only [stepF, stepS, erase_dist]
    cases hj : s.dist j <;> cases hi : s.dist i <;> cases assign <;> simp [Except.map, erase_setDist]
  | swap i j =>
    simp only [stepF, stepS, erase_dist]
    cases hj : s.dist j <;> cases hi : s.dist i <;> simp [Except.map, ObjsF.erase, map_upd]
  | draw i w =>
    simp only [stepF, stepS, erase_dist]
    cases hi : s.dist i <;> simp [Except.map, erase_setDist, Basic.draw, Basic.makeResult, Ev.map, basicPseudo]
  | reset i =>
    simp only [stepF, stepS, erase_dist]
    cases hi : s.dist i <;> simp [Except.map, erase_setDist, Basic.reset]
  | setParam i p =>
    simp only [stepF, stepS, erase_dist]
    cases hi : s.dist i <;> simp [Except.map, erase_setDist, Basic.setParam, Param2.convertFrom]
  | eq i j =>
    simp only [stepF, stepS, erase_dist]
    cases hj : s.dist j <;> cases hi : s.dist i <;> simp [Except.map, Basic.eq, Ev.map]
  | look i =>
    simp only [stepF, stepS, erase_dist]
    cases hi : s.dist i <;> simp [Except.map, Basic.min, Basic.max, Basic.makeResult, Ev.map]
  | varD k i w =>
    simp only [stepF, stepS, erase_dist]
    cases hi : s.dist i <;> simp [Except.map, erase_setVar, Variate.ctor]
  | varP k p w => simp [stepF, stepS, Except.map, erase_setVar, Variate.ctorParam, Basic.ctor, Param2.convertFrom]
  | varCopy k l assign =>
    simp only [stepF, stepS, erase_var]
    cases hl : s.var l <;> cases hk : s.var k <;> cases assign <;> simp [Except.map, erase_setVar]
  | vdraw k =>
    simp only [stepF, stepS, erase_var]
    cases hk : s.var k <;> simp [Except.map, erase_setVar, Variate.draw, Basic.draw, Basic.makeResult, Ev.map, basicPseudo]
  | raw w => simp [stepF, stepS, Except.map, Ev.map, basicPseudo]

theorem runScriptF_erase (D : StdDist β δ) (out : δ → String) (ty : Ty) (G : Gen γ) :
    ∀ (acts : List (Act β)) (s : ObjsF δ) (g : γ × γ),
      (runScriptF D out ty (basicPseudo G) acts s g).map (fun r => (r.1, r.2.1.erase, r.2.2)) =
        (runScriptS D out G acts s.erase g).map (fun r => (r.1.map (Ev.map (decorate ty)), r.2.1, r.2.2)) := by
  intro acts
  induction acts with
  | nil => intro s g; simp [runScriptF, runScriptS, Except.map]
  | cons a as ih =>
    intro s g
    have h := stepF_erase D out ty G a s g
    simp only [runScriptF, runScriptS]
    cases hF : stepF D out ty (basicPseudo G) a s g with
    | error f =>
      rw [hF] at h
      cases hS : stepS D out G a s.erase g with
      | error f' => rw [hS] at h; simp [Except.map] at h ⊢; exact h
      | ok r' => rw [hS] at h; simp [Except.map] at h
    | ok r =>
      rw [hF] at h
      cases hS : stepS D out G a s.erase g with
      | error f' => rw [hS] at h; simp [Except.map] at h
      | ok r' =>
        rw [hS] at h
        simp only [Except.map, Except.ok.injEq, Prod.mk.injEq] at h
        obtain ⟨h1, h2, h3⟩ := h
        have ih' := ih r.2.1 r.2.2
        simp only []
        rw [← h2, ← h3]
        cases hF2 : runScriptF D out ty (basicPseudo G) as r.2.1 r.2.2 with
        | error f =>
          rw [hF2] at ih'
          cases hS2 : runScriptS D out G as r.2.1.erase r.2.2 with
          | error f' => rw [hS2] at ih'; simp [Except.map] at ih' ⊢; exact ih'
          | ok q' => rw [hS2] at ih'; simp [Except.map] at ih'
        | ok q =>
          rw [hF2] at ih'
          cases hS2 : runScriptS D out G as r.2.1.erase r.2.2 with
          | error f' => rw [hS2] at ih'; simp [Except.map] at ih'
          | ok q' =>
            rw [hS2] at ih'
            simp only [Except.map, Except.ok.injEq, Prod.mk.injEq] at ih' ⊢
            obtain ⟨i1, i2, i3⟩ := ih'
            exact ⟨by rw [h1, i1, List.map_append], i2, i3⟩

theorem ObjsF.erase_inj (s t : ObjsF δ) (h : s.erase = t.erase) : s = t := by
  cases s with
  | mk sd sv =>
    cases t with
    | mk td tv =>
      simp only [ObjsF.erase, ObjsS.mk.injEq] at h
      obtain ⟨h1, h2⟩ := h
      congr 1
      · funext n
        have := congrFun h1 n
        cases hs : sd n <;> cases ht : td n <;> simp_all
        rename_i a b
        cases a; cases b; simp_all
      · funext n
        have := congrFun h2 n
        cases hs : sv n <;> cases ht : tv n <;> simp_all
        rename_i a b
        obtain ⟨⟨⟨ad⟩⟩, aw⟩ := a
        obtain ⟨⟨⟨bd⟩⟩, bw⟩ := b
        simp_all

end Fcppt.C20
