import FcpptModel.Spec.C20
import FcpptProofs.C20.Lemmas
import FcpptProofs.C20.Script
/-!
# C20 — programs over several objects stay inside the requested intervals; container programs never index out of bounds
-/
namespace Fcppt.C20

variable {δ γ : Type}
/-- the table of requested intervals describes the objects: each existing object holds exactly its interval
(as the wrapped distribution's parameters), and the interval is non-empty -/
structure Tracks (D : StdDist Int δ) (s : ObjsF δ) (b : Bnds) : Prop where
  dist : ∀ i, b.dist i = (s.dist i).map (fun d => D.param d.dist)
  var : ∀ k, b.var k = (s.var k).map (fun v => D.param v.1.distribution.dist)
  distLe : ∀ i q, b.dist i = some q → q.1 ≤ q.2
  varLe : ∀ k q, b.var k = some q → q.1 ≤ q.2

theorem upd_same {α : Type} (f : Nat → Option α) (i : Nat) (v : Option α) : upd f i v i = v := by simp [upd]
theorem upd_other {α : Type} (f : Nat → Option α) (i n : Nat) (v : Option α) (h : n ≠ i) : upd f i v n = f n := by simp [upd, h]

theorem Tracks.setDist {D : StdDist Int δ} {s : ObjsF δ} {b : Bnds} (h : Tracks D s b) (i : Nat) (d : Basic δ)
    (q : Int × Int) (hq : D.param d.dist = q) (hle : q.1 ≤ q.2) :
    Tracks D { s with dist := upd s.dist i (some d) } { b with dist := upd b.dist i (some q) } := by
  refine ⟨fun n => ?_, h.var, fun n q' hq' => ?_, h.varLe⟩
  · by_cases hn : n = i
    · subst hn; simp [upd_same, hq]
    · simp only [upd_other _ _ _ _ hn]; exact h.dist n
  · by_cases hn : n = i
    · subst hn; simp only [upd_same, Option.some.injEq] at hq'; subst hq'; exact hle
    · simp only [upd_other _ _ _ _ hn] at hq'; exact h.distLe n q' hq'

theorem Tracks.setVar {D : StdDist Int δ} {s : ObjsF δ} {b : Bnds} (h : Tracks D s b) (k : Nat) (v : Variate δ × Bool)
    (q : Int × Int) (hq : D.param v.1.distribution.dist = q) (hle : q.1 ≤ q.2) :
    Tracks D { s with var := upd s.var k (some v) } { b with var := upd b.var k (some q) } := by
  refine ⟨h.dist, fun n => ?_, h.distLe, fun n q' hq' => ?_⟩
  · by_cases hn : n = k
    · subst hn; simp [upd_same, hq]
    · simp only [upd_other _ _ _ _ hn]; exact h.var n
  · by_cases hn : n = k
    · subst hn; simp only [upd_same, Option.some.injEq] at hq'; subst hq'; exact hle
    · simp only [upd_other _ _ _ _ hn] at hq'; exact h.varLe n q' hq'

theorem Tracks.distOf {D : StdDist Int δ} {s : ObjsF δ} {b : Bnds} (h : Tracks D s b) {i : Nat} {d : Basic δ}
    (hd : s.dist i = some d) : b.dist i = some (D.param d.dist) ∧ (D.param d.dist).1 ≤ (D.param d.dist).2 := by
  have := h.dist i
  rw [hd] at this
  exact ⟨this, h.distLe i _ this⟩

theorem Tracks.varOf {D : StdDist Int δ} {s : ObjsF δ} {b : Bnds} (h : Tracks D s b) {k : Nat} {v : Variate δ × Bool}
    (hv : s.var k = some v) :
    b.var k = some (D.param v.1.distribution.dist) ∧ (D.param v.1.distribution.dist).1 ≤ (D.param v.1.distribution.dist).2 := by
  have := h.var k
  rw [hv] at this
  exact ⟨this, h.varLe k _ this⟩

theorem stepF_within {D : StdDist Int δ} (hU : D.UniformInt) (out : δ → String) (ty : Ty) (G : Gen γ)
    (a : Act Int) (s : ObjsF δ) (g : γ × γ) (b : Bnds) (r : List (Ev (DVal Int) Int) × ObjsF δ × (γ × γ))
    (hr : stepF D out ty G a s g = .ok r) (ht : Tracks D s b) (hv : ActValid a) :
    EvsWithin r.1 (boundsStep a b).1 ∧ Tracks D r.2.1 (boundsStep a b).2 := by
  cases a with
  | newP i p =>
    simp only [stepF, Except.ok.injEq] at hr; subst hr
    exact ⟨trivial, ht.setDist i _ _ (by simp [Basic.ctor, Param2.convertFrom, pq, hU.toLawful.param_ofParam]) hv⟩
  | new2 i t1 t2 =>
    simp only [stepF, Except.ok.injEq] at hr; subst hr
    exact ⟨trivial, ht.setDist i _ _ (by simp [Basic.ctor2, Param2.convertFrom, hU.toLawful.param_ofParam]) hv⟩
  | copy i j assign =>
    simp only [stepF] at hr
    cases hj : s.dist j with
    | none => rw [hj] at hr; simp at hr
    | some d =>
      rw [hj] at hr
      split at hr
      · rename_i h1 h2
        simp only [Except.ok.injEq] at hr; subst hr
        simp only [Option.some.injEq] at h1; subst h1
        obtain ⟨hb, hle⟩ := ht.distOf hj
        simp only [boundsStep, hb]
        exact ⟨trivial, ht.setDist i _ _ rfl hle⟩
      · simp at hr
  | swap i j =>
    simp only [stepF] at hr
    cases hi : s.dist i with
    | none => rw [hi] at hr; simp at hr
    | some di =>
      cases hj : s.dist j with
      | none => rw [hi, hj] at hr; simp at hr
      | some dj =>
        rw [hi, hj] at hr
        simp only [Except.ok.injEq] at hr; subst hr
        obtain ⟨hbi, hlei⟩ := ht.distOf hi
        obtain ⟨hbj, hlej⟩ := ht.distOf hj
        simp only [boundsStep, hbi, hbj]
        exact ⟨trivial, (ht.setDist i dj _ rfl hlej).setDist j di _ rfl hlei⟩
  | draw i w =>
    simp only [stepF] at hr
    cases hi : s.dist i with
    | none => rw [hi] at hr; simp at hr
    | some d =>
      rw [hi] at hr
      simp only [Except.ok.injEq] at hr; subst hr
      obtain ⟨hb, hle⟩ := ht.distOf hi
      have hm := hU.draw_mem G d.dist (pick w g) hle
      have hp := hU.toLawful.param_draw G d.dist (pick w g)
      simp only [boundsStep, hb]
      refine ⟨⟨?_, trivial⟩, ?_⟩
      · simpa [Basic.draw, Basic.makeResult, undecorate_decorate'] using hm
      · have := ht.setDist i (Basic.draw D ty G d (pick w g)).2.1 (D.param d.dist) (by simp [Basic.draw, hp]) hle
        have hbb : ({ b with dist := upd b.dist i (some (D.param d.dist)) } : Bnds) = b := by
          cases b with
          | mk bd bv =>
            simp only [Bnds.mk.injEq, and_true]
            funext n
            by_cases hn : n = i
            · subst hn; simp [upd_same]; exact hb.symm
            · simp [upd_other _ _ _ _ hn]
        rw [hbb] at this
        exact this
  | reset i =>
    simp only [stepF] at hr
    cases hi : s.dist i with
    | none => rw [hi] at hr; simp at hr
    | some d =>
      rw [hi] at hr
      simp only [Except.ok.injEq] at hr; subst hr
      obtain ⟨hb, hle⟩ := ht.distOf hi
      have := ht.setDist i (Basic.reset D d) (D.param d.dist) (by simp [Basic.reset, hU.toLawful.param_reset]) hle
      have hbb : ({ b with dist := upd b.dist i (some (D.param d.dist)) } : Bnds) = b := by
        cases b with
        | mk bd bv =>
          simp only [Bnds.mk.injEq, and_true]
          funext n
          by_cases hn : n = i
          · subst hn; simp [upd_same]; exact hb.symm
          · simp [upd_other _ _ _ _ hn]
      rw [hbb] at this
      exact ⟨trivial, this⟩
  | setParam i p =>
    simp only [stepF] at hr
    cases hi : s.dist i with
    | none => rw [hi] at hr; simp at hr
    | some d =>
      rw [hi] at hr
      simp only [Except.ok.injEq] at hr; subst hr
      exact ⟨trivial, ht.setDist i _ _ (by simp [Basic.setParam, Param2.convertFrom, pq, hU.toLawful.param_setParam]) hv⟩
  | eq i j =>
    simp only [stepF] at hr
    cases hi : s.dist i with
    | none => rw [hi] at hr; simp at hr
    | some di =>
      cases hj : s.dist j with
      | none => rw [hi, hj] at hr; simp at hr
      | some dj =>
        rw [hi, hj] at hr
        simp only [Except.ok.injEq] at hr; subst hr
        exact ⟨trivial, ht⟩
  | look i =>
    simp only [stepF] at hr
    cases hi : s.dist i with
    | none => rw [hi] at hr; simp at hr
    | some d =>
      rw [hi] at hr
      simp only [Except.ok.injEq] at hr; subst hr
      obtain ⟨hb, _⟩ := ht.distOf hi
      simp only [boundsStep, hb]
      exact ⟨⟨⟨rfl, by simp [Basic.min, Basic.makeResult, undecorate_decorate', hU.min_eq],
        by simp [Basic.max, Basic.makeResult, undecorate_decorate', hU.max_eq]⟩, trivial⟩, ht⟩
  | varD k i w =>
    simp only [stepF] at hr
    cases hi : s.dist i with
    | none => rw [hi] at hr; simp at hr
    | some d =>
      rw [hi] at hr
      simp only [Except.ok.injEq] at hr; subst hr
      obtain ⟨hb, hle⟩ := ht.distOf hi
      simp only [boundsStep, hb]
      exact ⟨trivial, ht.setVar k (Variate.ctor d, w) _ rfl hle⟩
  | varP k p w =>
    simp only [stepF, Except.ok.injEq] at hr; subst hr
    exact ⟨trivial, ht.setVar k _ _ (by simp [Variate.ctorParam, Basic.ctor, Param2.convertFrom, pq, hU.toLawful.param_ofParam]) hv⟩
  | varCopy k l assign =>
    simp only [stepF] at hr
    cases hl : s.var l with
    | none => rw [hl] at hr; simp at hr
    | some v =>
      rw [hl] at hr
      split at hr
      · rename_i h1 h2
        simp only [Except.ok.injEq] at hr; subst hr
        simp only [Option.some.injEq] at h1; subst h1
        obtain ⟨hb, hle⟩ := ht.varOf hl
        simp only [boundsStep, hb]
        exact ⟨trivial, ht.setVar k _ _ rfl hle⟩
      · simp at hr
  | vdraw k =>
    simp only [stepF] at hr
    cases hk : s.var k with
    | none => rw [hk] at hr; simp at hr
    | some v =>
      rw [hk] at hr
      simp only [Except.ok.injEq] at hr; subst hr
      obtain ⟨hb, hle⟩ := ht.varOf hk
      have hm := hU.draw_mem G v.1.distribution.dist (pick v.2 g) hle
      have hp := hU.toLawful.param_draw G v.1.distribution.dist (pick v.2 g)
      simp only [boundsStep, hb]
      refine ⟨⟨?_, trivial⟩, ?_⟩
      · simpa [Variate.draw, Basic.draw, Basic.makeResult, undecorate_decorate'] using hm
      · have := ht.setVar k ((Variate.draw D ty G v.1 (pick v.2 g)).2.1, v.2) (D.param v.1.distribution.dist)
          (by simp [Variate.draw, Basic.draw, hp]) hle
        have hbb : ({ b with var := upd b.var k (some (D.param v.1.distribution.dist)) } : Bnds) = b := by
          cases b with
          | mk bd bv =>
            simp only [Bnds.mk.injEq, true_and]
            funext n
            by_cases hn : n = k
            · subst hn; simp [upd_same]; exact hb.symm
            · simp [upd_other _ _ _ _ hn]
        rw [hbb] at this
        exact this
  | raw w =>
    simp only [stepF, Except.ok.injEq] at hr; subst hr
    exact ⟨trivial, ht⟩

theorem EvsWithin.append : ∀ (e1 : List (Ev (DVal Int) Int)) (q1 : List (Option (Int × Int))) e2 q2,
    EvsWithin e1 q1 → EvsWithin e2 q2 → EvsWithin (e1 ++ e2) (q1 ++ q2)
  | [], [], _, _, _, h2 => h2
  | [], _ :: _, _, _, h1, _ => by simp [EvsWithin] at h1
  | e :: es, [], _, _, h1, _ => by cases e <;> simp [EvsWithin] at h1
  | e :: es, q :: qs, e2, q2, h1, h2 => by
    cases e <;> cases q <;> simp only [EvsWithin, List.cons_append] at h1 ⊢
    all_goals first
      | exact ⟨h1.1, EvsWithin.append es qs e2 q2 h1.2 h2⟩
      | exact EvsWithin.append es qs e2 q2 h1 h2

theorem runScriptF_within {D : StdDist Int δ} (hU : D.UniformInt) (out : δ → String) (ty : Ty) (G : Gen γ) :
    ∀ (acts : List (Act Int)) (s : ObjsF δ) (g : γ × γ) (b : Bnds) (r : List (Ev (DVal Int) Int) × ObjsF δ × (γ × γ)),
      runScriptF D out ty G acts s g = .ok r → Tracks D s b → (∀ a ∈ acts, ActValid a) →
      EvsWithin r.1 (boundsScript acts b) ∧ Tracks D r.2.1 (acts.foldl (fun b a => (boundsStep a b).2) b) := by
  intro acts
  induction acts with
  | nil =>
    intro s g b r hr ht _
    simp only [runScriptF, Except.ok.injEq] at hr; subst hr
    exact ⟨trivial, ht⟩
  | cons a as ih =>
    intro s g b r hr ht hv
    simp only [runScriptF] at hr
    cases h1 : stepF D out ty G a s g with
    | error f => rw [h1] at hr; simp at hr
    | ok r1 =>
      rw [h1] at hr
      simp only at hr
      cases h2 : runScriptF D out ty G as r1.2.1 r1.2.2 with
      | error f => rw [h2] at hr; simp at hr
      | ok r2 =>
        rw [h2] at hr
        simp only [Except.ok.injEq] at hr; subst hr
        obtain ⟨w1, t1⟩ := stepF_within hU out ty G a s g b r1 h1 ht (hv a (List.mem_cons_self ..))
        obtain ⟨w2, t2⟩ := ih r1.2.1 r1.2.2 _ r2 h2 t1 (fun a' ha' => hv a' (List.mem_cons_of_mem _ ha'))
        exact ⟨EvsWithin.append _ _ _ _ w1 w2, t2⟩

theorem tracks_empty (D : StdDist Int δ) : Tracks D ObjsF.empty Bnds.empty :=
  ⟨fun _ => rfl, fun _ => rfl, fun _ _ h => by simp [Bnds.empty] at h, fun _ _ h => by simp [Bnds.empty] at h⟩

/-! ## containers -/

section containers
variable {α : Type}

/-! ## programs over several `uniform_container`s on one container -/

/-- invariant: the container keeps its size `n`; every wrapper's index distribution holds an interval inside `[0, n)` -/
structure CInv (D : StdDist Int δ) (n : Nat) (c : List α) (s : Nat → Option (Basic δ)) : Prop where
  len : c.length = n
  slots : ∀ i d, s i = some d →
    0 ≤ (D.param d.dist).1 ∧ (D.param d.dist).1 ≤ (D.param d.dist).2 ∧ (D.param d.dist).2 < n

theorem CInv.upd {D : StdDist Int δ} {n : Nat} {c : List α} {s : Nat → Option (Basic δ)} (h : CInv D n c s) (i : Nat)
    (d : Basic δ) (hd : 0 ≤ (D.param d.dist).1 ∧ (D.param d.dist).1 ≤ (D.param d.dist).2 ∧ (D.param d.dist).2 < n) :
    CInv D n c (upd s i (some d)) := by
  refine ⟨h.len, fun j d' hj => ?_⟩
  by_cases hji : j = i
  · subst hji; simp only [Fcppt.C20.upd, if_true, Option.some.injEq] at hj; subst hj; exact hd
  · simp only [Fcppt.C20.upd, hji, if_false] at hj; exact h.slots j d' hj

theorem CInv.setList {D : StdDist Int δ} {n : Nat} {c : List α} {s : Nat → Option (Basic δ)} (h : CInv D n c s) (pos : Nat) (x : α) :
    CInv D n (c.set pos x) s := ⟨by simp [h.len], h.slots⟩

/-- a draw from a wrapper that satisfies the invariant: valid index, the element at that index, parameters unchanged -/
theorem cdraw_ok {D : StdDist Int δ} (hU : D.UniformInt) (G : Gen γ) (n : Nat) (c : List α) (hlen : c.length = n) (d : Basic δ)
    (hd : 0 ≤ (D.param d.dist).1 ∧ (D.param d.dist).1 ≤ (D.param d.dist).2 ∧ (D.param d.dist).2 < n) (g : γ) :
    ∃ e i d' g', UniformContainer.draw D G ⟨c, d⟩ g = .ok ((e, i), ⟨c, d'⟩, g') ∧ i < n ∧ c[i]? = some e ∧
      D.param d'.dist = D.param d.dist := by
  have hm := hU.draw_mem G d.dist g hd.2.1
  have hpd := hU.toLawful.param_draw G d.dist g
  have hi : (D.draw G d.dist g).1.toNat < c.length := by omega
  refine ⟨c[(D.draw G d.dist g).1.toNat], (D.draw G d.dist g).1.toNat, ⟨(D.draw G d.dist g).2.1⟩, (D.draw G d.dist g).2.2, ?_,
    by omega, List.getElem?_eq_getElem hi, hpd⟩
  simp only [UniformContainer.draw, Basic.draw, Basic.makeResult, decorate, undecorate]
  rw [if_neg (by omega)]
  simp [List.getElem?_eq_getElem hi]

theorem cstep_safe {D : StdDist Int δ} (hU : D.UniformInt) (G : Gen γ) (n : Nat) (a : CAct α) (c : List α)
    (s : Nat → Option (Basic δ)) (g : γ) (hinv : CInv D n c s) (hv : CActValid n a) :
    cstep D G a c s g = .error .emptyDeref ∨
      ∃ r, cstep D G a c s g = .ok r ∧ CInv D n r.2.1 r.2.2.1 ∧ ∀ ev ∈ r.1, CEvOk n c ev := by
  cases a with
  | make i =>
    right
    simp only [cstep, makeUniformContainer, makeUniformIndices_eq]
    by_cases hc : c = []
    · subst hc
      refine ⟨_, by simp; rfl, ⟨hinv.len, fun j d hj => ?_⟩, by simp [CEvOk]⟩
      by_cases hji : j = i
      · subst hji; simp [upd] at hj
      · simp only [upd, hji, if_false] at hj; exact hinv.slots j d hj
    · have hpos : 0 < c.length := List.length_pos_iff.mpr hc
      simp only [hc, if_false, Option.map]
      refine ⟨_, rfl, hinv.upd i _ ?_, ?_⟩
      · simp only [UniformContainer.ctor, Basic.ctor, Param2.convertFrom, undecorate, hU.toLawful.param_ofParam]
        have := hinv.len
        rw [Int.ofNat_eq_natCast]
        omega
      · intro ev hev
        simp only [List.mem_singleton] at hev
        subst hev
        simp [CEvOk, hc]
  | ctor i p =>
    right
    refine ⟨_, rfl, hinv.upd i _ ?_, by simp⟩
    simp only [UniformContainer.ctor, Basic.ctor, Param2.convertFrom, hU.toLawful.param_ofParam]
    exact hv
  | copy i j assign =>
    simp only [cstep]
    cases hj : s j with
    | none => left; simp
    | some d =>
      cases hcond : (if assign = true then (s i).isSome else true) with
      | false => left; simp
      | true => right; exact ⟨_, rfl, hinv.upd i d (hinv.slots j d hj), by simp⟩
  | draw i =>
    simp only [cstep]
    cases hi : s i with
    | none => left; rfl
    | some d =>
      right
      obtain ⟨e, idx, d', g', hd, hlt, he, hp⟩ := cdraw_ok hU G n c hinv.len d (hinv.slots i d hi) g
      refine ⟨([.elem e idx], c, upd s i (some d'), g'), by simp only [hd], hinv.upd i d' (by rw [hp]; exact hinv.slots i d hi), ?_⟩
      intro ev hev
      simp only [List.mem_singleton] at hev
      subst hev
      exact ⟨hlt, he⟩
  | write pos x =>
    right
    simp only [cstep]
    have : pos < c.length := by rw [hinv.len]; exact hv
    rw [if_pos this]
    exact ⟨_, rfl, hinv.setList pos x, by simp⟩
  | drawWrite i x =>
    simp only [cstep]
    cases hi : s i with
    | none => left; rfl
    | some d =>
      right
      obtain ⟨e, idx, d', g', hd, hlt, he, hp⟩ := cdraw_ok hU G n c hinv.len d (hinv.slots i d hi) g
      refine ⟨([.elem e idx], c.set idx x, upd s i (some d'), g'), by simp only [hd],
        (hinv.setList idx x).upd i d' (by rw [hp]; exact hinv.slots i d hi), ?_⟩
      intro ev hev
      simp only [List.mem_singleton] at hev
      subst hev
      exact ⟨hlt, he⟩
  | raw =>
    right
    refine ⟨_, rfl, hinv, ?_⟩
    intro ev hev
    simp only [List.mem_singleton] at hev
    subst hev
    trivial

theorem runCScript_safe {D : StdDist Int δ} (hU : D.UniformInt) (G : Gen γ) (n : Nat) :
    ∀ (acts : List (CAct α)) (c : List α) (s : Nat → Option (Basic δ)) (g : γ), CInv D n c s → (∀ a ∈ acts, CActValid n a) →
      runCScript D G acts c s g = .error .emptyDeref ∨
        ∃ r, runCScript D G acts c s g = .ok r ∧ CInv D n r.2.1 r.2.2.1 ∧ ∀ ev ∈ r.1, CEv.idxLt n ev := by
  intro acts
  induction acts with
  | nil => intro c s g hinv _; right; exact ⟨_, rfl, hinv, by simp⟩
  | cons a as ih =>
    intro c s g hinv hv
    simp only [runCScript]
    rcases cstep_safe hU G n a c s g hinv (hv a (List.mem_cons_self ..)) with h | ⟨r, hr, hinv', hev⟩
    · left; rw [h]
    · rw [hr]
      simp only
      rcases ih r.2.1 r.2.2.1 r.2.2.2 hinv' (fun a' ha' => hv a' (List.mem_cons_of_mem _ ha')) with h | ⟨rs, hrs, hinv'', hevs⟩
      · left; rw [h]
      · right
        rw [hrs]
        refine ⟨_, rfl, hinv'', fun ev hev' => ?_⟩
        simp only [List.mem_append] at hev'
        rcases hev' with h1 | h2
        · have := hev ev h1
          cases ev with
          | made b => trivial
          | elem e idx => exact this.1
          | raw n => trivial
        · exact hevs ev h2

end containers

end Fcppt.C20
