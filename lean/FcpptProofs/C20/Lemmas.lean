import FcpptModel.Spec.C20
/-!
# C20 — helper lemmas (type_iso, draws of the bare standard distribution, container invariant)
-/
namespace Fcppt.C20
variable {β δ γ : Type}

/-! ## type_iso -/

theorem undecorate_decorate' (t : Ty) (x : β) : undecorate (decorate t x) = x := by
  induction t with
  | base => rfl
  | strong t ih => simpa [decorate, undecorate] using ih
  | enum => rfl

theorem decorate_hasTy' (t : Ty) (x : β) : (decorate t x).HasTy t := by
  induction t with
  | base => trivial
  | strong t ih => simpa [decorate, DVal.HasTy] using ih
  | enum => trivial

theorem decorate_undecorate' : ∀ (v : DVal β) (t : Ty), v.HasTy t → decorate t (undecorate v) = v
  | .base _, .base, _ => rfl
  | .enum _, .enum, _ => rfl
  | .strong v, .strong t, h => by
    have := decorate_undecorate' v t (by simpa [DVal.HasTy] using h)
    simp [decorate, undecorate, this]
  | .base _, .strong _, h => by simp [DVal.HasTy] at h
  | .base _, .enum, h => by simp [DVal.HasTy] at h
  | .enum _, .base, h => by simp [DVal.HasTy] at h
  | .enum _, .strong _, h => by simp [DVal.HasTy] at h
  | .strong _, .base, h => by simp [DVal.HasTy] at h
  | .strong _, .enum, h => by simp [DVal.HasTy] at h

theorem decorate_injective (t : Ty) {x y : β} (h : decorate t x = decorate t y) : x = y := by
  have := congrArg undecorate h
  simpa [undecorate_decorate'] using this

/-! ## the bare standard distribution -/

theorem stdDraws_param {D : StdDist β δ} (hL : D.Lawful) (G : Gen γ) :
    ∀ n d g, D.param (stdDraws D G n d g).2.1 = D.param d := by
  intro n
  induction n with
  | zero => intro d g; rfl
  | succ n ih =>
    intro d g
    simp only [stdDraws]
    rw [ih, hL.param_draw]

theorem stdDraws_length (D : StdDist β δ) (G : Gen γ) :
    ∀ n d g, (stdDraws D G n d g).1.length = n := by
  intro n
  induction n with
  | zero => intro d g; rfl
  | succ n ih => intro d g; simp [stdDraws, ih]

theorem stdDraws_mem {D : StdDist Int δ} (hU : D.UniformInt) (G : Gen γ) :
    ∀ n d g, (D.param d).1 ≤ (D.param d).2 →
      ∀ x ∈ (stdDraws D G n d g).1, (D.param d).1 ≤ x ∧ x ≤ (D.param d).2 := by
  intro n
  induction n with
  | zero => intro d g _ x hx; simp [stdDraws] at hx
  | succ n ih =>
    intro d g hab x hx
    simp only [stdDraws, List.mem_cons] at hx
    rcases hx with rfl | hx
    · exact hU.draw_mem G d g hab
    · have hp := hU.toLawful.param_draw G d g
      have := ih (D.draw G d g).2.1 (D.draw G d g).2.2 (by rw [hp]; exact hab) x hx
      rwa [hp] at this

/-! ## fcppt draws in terms of the bare ones -/

theorem variate_draws_eq (D : StdDist β δ) (ty : Ty) (G : Gen γ) :
    ∀ n (v : Variate δ) g,
      Variate.draws D ty G n v g =
        (((stdDraws D G n v.distribution.dist g).1.map (decorate ty)),
          ⟨⟨(stdDraws D G n v.distribution.dist g).2.1⟩⟩,
          (stdDraws D G n v.distribution.dist g).2.2) := by
  intro n
  induction n with
  | zero => intro v g; rfl
  | succ n ih =>
    intro v g
    simp only [Variate.draws, stdDraws, Variate.draw, Basic.draw, Basic.makeResult, ih, List.map_cons]

theorem runF_eq (D : StdDist β δ) (ty : Ty) (G : Gen γ) :
    ∀ (ops : List (Op β)) (b : Basic δ) g,
      runF D ty G ops b g =
        (((runS D G ops b.dist g).1.map (decorate ty)), ⟨(runS D G ops b.dist g).2.1⟩, (runS D G ops b.dist g).2.2) := by
  intro ops
  induction ops with
  | nil => intro b g; rfl
  | cons o ops ih =>
    intro b g
    cases o with
    | draw => simp only [runF, runS, Basic.draw, Basic.makeResult, ih, List.map_cons]
    | reset => simp only [runF, runS, Basic.reset, ih]
    | setParam p => simp only [runF, runS, Basic.setParam, Param2.convertFrom, ih]

/-! ## containers -/

theorem makeUniformIndices_eq {α : Type} (c : List α) :
    makeUniformIndices c = if c = [] then none else some ⟨.base 0, .base (Int.ofNat (c.length - 1))⟩ := by
  cases c <;> simp [makeUniformIndices]

/-- invariant of a `uniform_container` built by the factory: the wrapped distribution holds `[0, size-1]` -/
def UniformContainer.Inv {α : Type} (D : StdDist Int δ) (c : List α) (u : UniformContainer α δ) : Prop :=
  u.container = c ∧ D.param u.distribution.dist = (0, Int.ofNat (c.length - 1))

theorem container_draw_ok {α : Type} {D : StdDist Int δ} (hU : D.UniformInt) (G : Gen γ) (c : List α) (hc : c ≠ [])
    (u : UniformContainer α δ) (hu : UniformContainer.Inv D c u) (g : γ) :
    ∃ e i u' g', UniformContainer.draw D G u g = .ok ((e, i), u', g') ∧ i < c.length ∧ c[i]? = some e ∧
      UniformContainer.Inv D c u' := by
  obtain ⟨h1, h2⟩ := hu
  have hlen : 0 < c.length := List.length_pos_iff.mpr hc
  have hab : (D.param u.distribution.dist).1 ≤ (D.param u.distribution.dist).2 := by
    rw [h2]; simp
  have hm := hU.draw_mem G u.distribution.dist g hab
  rw [h2] at hm
  simp only at hm
  obtain ⟨hlo, hhi⟩ := hm
  rw [Int.ofNat_eq_natCast] at hhi
  have hpd := hU.toLawful.param_draw G u.distribution.dist g
  have hi : (D.draw G u.distribution.dist g).1.toNat < c.length := by omega
  refine ⟨c[(D.draw G u.distribution.dist g).1.toNat], (D.draw G u.distribution.dist g).1.toNat,
    ⟨c, ⟨(D.draw G u.distribution.dist g).2.1⟩⟩, (D.draw G u.distribution.dist g).2.2, ?_, hi, ?_, ?_⟩
  · simp only [UniformContainer.draw, Basic.draw, Basic.makeResult, decorate, undecorate, h1]
    rw [if_neg (by omega)]
    simp [List.getElem?_eq_getElem hi]
  · exact List.getElem?_eq_getElem hi
  · exact ⟨rfl, by rw [hpd, h2]⟩

theorem container_draws_ok {α : Type} {D : StdDist Int δ} (hU : D.UniformInt) (G : Gen γ) (c : List α) (hc : c ≠ []) :
    ∀ n (u : UniformContainer α δ), UniformContainer.Inv D c u → ∀ g,
      ∃ r, UniformContainer.draws D G n u g = .ok r ∧ r.1.length = n ∧
        ∀ ei ∈ r.1, ei.2 < c.length ∧ c[ei.2]? = some ei.1 := by
  intro n
  induction n with
  | zero => intro u _ g; exact ⟨([], u, g), rfl, rfl, by simp⟩
  | succ n ih =>
    intro u hu g
    obtain ⟨e, i, u', g', hd, hi, he, hu'⟩ := container_draw_ok hU G c hc u hu g
    obtain ⟨r, hr, hl, hall⟩ := ih u' hu' g'
    refine ⟨((e, i) :: r.1, r.2.1, r.2.2), ?_, by simp [hl], ?_⟩
    · simp only [UniformContainer.draws, hd, hr]
    · intro ei hei
      simp only [List.mem_cons] at hei
      rcases hei with rfl | hei
      · exact ⟨hi, he⟩
      · exact hall ei hei

end Fcppt.C20
