import FcpptModel.Spec.C18
/-! Lemmas about the fixed-width integer layer and the `int_iterator` loop. -/
namespace Fcppt.C18
open Spec

theorem two_pow_split {n : Nat} (h : 1 ≤ n) : (2 : Int) ^ n = 2 * 2 ^ (n - 1) := by
  obtain ⟨k, rfl⟩ : ∃ k, n = k + 1 := ⟨n - 1, by omega⟩
  simp [Int.pow_succ, Int.mul_comm]

theorem two_pow_pos (n : Nat) : (0 : Int) < 2 ^ n := Int.pow_pos (by decide)

namespace IntTy

theorem lo_le_hi (t : IntTy) : t.lo ≤ t.hi := by
  have := two_pow_pos t.bits
  have := two_pow_pos (t.bits - 1)
  unfold lo hi; split <;> omega

theorem lo_nonpos (t : IntTy) : t.lo ≤ 0 := by
  have := two_pow_pos (t.bits - 1)
  unfold lo; split <;> omega

theorem hi_nonneg (t : IntTy) : 0 ≤ t.hi := by
  have := two_pow_pos t.bits
  have := two_pow_pos (t.bits - 1)
  unfold hi; split <;> omega

/-- the number of values of the type -/
theorem card (t : IntTy) (hb : 1 ≤ t.bits) : t.hi - t.lo + 1 = 2 ^ t.bits := by
  have := two_pow_split hb
  unfold lo hi; split <;> omega

/-- a value of the type converts to itself -/
theorem wrap_of_inRange (t : IntTy) (hb : 1 ≤ t.bits) {x : Int} (hx : t.InRange x) : t.wrap x = x := by
  have hs := two_pow_split hb
  have hp := two_pow_pos (t.bits - 1)
  obtain ⟨h1, h2⟩ := hx
  unfold wrap
  cases hsg : t.signed
  · -- unsigned
    simp [lo, hi, hsg] at h1 h2
    have : x % 2 ^ t.bits = x := Int.emod_eq_of_lt h1 (by omega)
    simp [this]
  · simp [lo, hi, hsg] at h1 h2
    by_cases hx0 : 0 ≤ x
    · have : x % 2 ^ t.bits = x := Int.emod_eq_of_lt hx0 (by omega)
      simp only [this, Bool.true_and, decide_eq_true_eq]
      rw [if_neg (by omega)]
    · have : x % 2 ^ t.bits = x + 2 ^ t.bits := by
        rw [← Int.add_emod_right x (2 ^ t.bits)]
        exact Int.emod_eq_of_lt (by omega) (by omega)
      simp only [this, Bool.true_and, decide_eq_true_eq]
      rw [if_pos (by omega)]; omega

/-- conversion is reduction modulo `2^bits`: the result is in range and congruent -/
theorem wrap_inRange (t : IntTy) (hb : 1 ≤ t.bits) (x : Int) : t.InRange (t.wrap x) := by
  have hs := two_pow_split hb
  have hp := two_pow_pos (t.bits - 1)
  have h0 := Int.emod_nonneg x (Int.ne_of_gt (two_pow_pos t.bits))
  have h1 := Int.emod_lt_of_pos x (two_pow_pos t.bits)
  unfold wrap InRange lo hi
  cases hsg : t.signed
  · simp; omega
  · simp only [Bool.true_and, decide_eq_true_eq, if_true]
    split <;> omega

end IntTy

theorem incr_ok (t : IntTy) (hb : 1 ≤ t.bits) {v : Int} (hv : t.lo ≤ v) (h : v + 1 ≤ t.hi) : incr t v = .ok (v + 1) := by
  unfold incr
  rw [IntTy.wrap_of_inRange t hb ⟨by omega, h⟩]
  have : ¬ t.hi < v + 1 := by omega
  simp [this]

theorem pred_ok (t : IntTy) (hb : 1 ≤ t.bits) {v : Int} (hv : v ≤ t.hi) (h : t.lo ≤ v - 1) : pred t v = .ok (v - 1) := by
  unfold pred
  rw [IntTy.wrap_of_inRange t hb ⟨h, by omega⟩]
  have : ¬ v - 1 < t.lo := by omega
  simp [this]

/-! ### the documented sequence -/

theorem length_iota (b : Int) (n : Nat) : (iota b n).length = n := by
  induction n generalizing b with
  | zero => rfl
  | succ n ih => simp [iota, ih]

theorem mem_iota {b : Int} {n : Nat} {x : Int} : x ∈ iota b n ↔ b ≤ x ∧ x < b + n := by
  induction n generalizing b with
  | zero => simp [iota]
  | succ n ih => simp [iota, ih]; omega

theorem getElem?_iota (b : Int) (n i : Nat) (h : i < n) : (iota b n)[i]? = some (b + i) := by
  induction n generalizing b i with
  | zero => omega
  | succ n ih =>
    cases i with
    | zero => simp [iota]
    | succ i => simp only [iota, List.getElem?_cons_succ]; rw [ih (b + 1) i (by omega)]; congr 1; omega

theorem iota_eq_map_range (b : Int) (n : Nat) : iota b n = (List.range n).map (fun (i : Nat) => b + (i : Int)) := by
  apply List.ext_getElem?
  intro i
  by_cases h : i < n
  · rw [getElem?_iota b n i h]; simp [h]
  · have h1 : (iota b n).length ≤ i := by rw [length_iota]; omega
    rw [List.getElem?_eq_none h1, List.getElem?_eq_none (by simp; omega)]

theorem pairwise_iota (b : Int) (n : Nat) : (iota b n).Pairwise (· < ·) := by
  induction n generalizing b with
  | zero => simp [iota]
  | succ n ih =>
    simp only [iota, List.pairwise_cons]
    refine ⟨fun x hx => ?_, ih _⟩
    have := mem_iota.1 hx; omega

theorem nodup_iota (b : Int) (n : Nat) : (iota b n).Nodup :=
  (pairwise_iota b n).imp (fun h => Int.ne_of_lt h)

theorem intLoop_succ (t : IntTy) (end_ : Int) (f : Nat) (v : Int) :
    intLoop t end_ (f + 1) v =
      if v = end_ then .ok []
      else match incr t v with
        | .error e => .error e
        | .ok v' => match intLoop t end_ f v' with
          | .error e => .error e
          | .ok r => .ok (v :: r) := rfl

/-- the loop `for (it = b; it != b+n; ++it)` of an `int_iterator` over any integer type yields `b, …, b+n-1`
whenever the end value `b+n` is a value of the type; `n + 1` units of fuel suffice. -/
theorem intLoop_spec (t : IntTy) (hb : 1 ≤ t.bits) (n : Nat) (b : Int) (hlo : t.lo ≤ b) (hhi : b + n ≤ t.hi) (f : Nat) :
    intLoop t (b + n) (f + n + 1) b = .ok (iota b n) := by
  induction n generalizing b with
  | zero => simp [intLoop_succ, iota]
  | succ n ih =>
    have hne : ¬ b = b + ((n + 1 : Nat) : Int) := by omega
    have hinc := incr_ok t hb hlo (show b + 1 ≤ t.hi by omega)
    have h := ih (b + 1) (by omega) (by omega)
    have e1 : b + 1 + (n : Int) = b + ((n + 1 : Nat) : Int) := by omega
    rw [e1] at h
    rw [show f + (n + 1) + 1 = (f + n + 1) + 1 by omega, intLoop_succ, if_neg hne, hinc]
    simp only [h, iota]

/-- with too little fuel the loop reports `fuel` (the harness prints `overrun`) — it never returns a wrong list -/
theorem intLoop_fuel (t : IntTy) (hb : 1 ≤ t.bits) (n : Nat) (b : Int) (hlo : t.lo ≤ b) (hhi : b + n ≤ t.hi) (f : Nat) (hf : f ≤ n) :
    intLoop t (b + n) f b = .error .fuel := by
  induction f generalizing b n with
  | zero => simp [intLoop]
  | succ f ih =>
    obtain ⟨m, rfl⟩ : ∃ m, n = m + 1 := ⟨n - 1, by omega⟩
    have hne : ¬ b = b + ((m + 1 : Nat) : Int) := by omega
    have hinc := incr_ok t hb hlo (show b + 1 ≤ t.hi by omega)
    have h := ih m (b + 1) (by omega) (by omega) (by omega)
    have e1 : b + 1 + (m : Int) = b + ((m + 1 : Nat) : Int) := by omega
    rw [e1] at h
    rw [intLoop_succ, if_neg hne, hinc]
    simp only [h]

end Fcppt.C18
