import FcpptProofs.C18.Spiral
/-! The closed-form ring sequence covers the Manhattan diamond exactly once, ring by ring. -/
namespace Fcppt.C18
open Spec

/-- the quarter of the plane (relative to the centre) that side `seg` of every ring lies in -/
def quadrant (seg : Nat) (dx dy : Int) : Prop :=
  match seg with
  | 0 => dx < 0 ∧ dy ≤ 0
  | 1 => dx ≤ 0 ∧ 0 < dy
  | 2 => 0 < dx ∧ 0 ≤ dy
  | _ => 0 ≤ dx ∧ dy < 0

theorem mem_sidePts (c p : Pos) (d seg : Nat) (hs : seg ≤ 3) :
    p ∈ sidePts c d seg 1 d ↔ quadrant seg (p.x - c.x) (p.y - c.y) ∧ manhattan p c = d := by
  simp only [sidePts, List.mem_map, List.mem_range'_1]
  constructor
  · rintro ⟨t, ⟨h1, h2⟩, rfl⟩
    match seg, hs with
    | 0, _ => simp [posOf, quadrant, manhattan, Pos.add_def]; omega
    | 1, _ => simp [posOf, quadrant, manhattan, Pos.add_def]; omega
    | 2, _ => simp [posOf, quadrant, manhattan, Pos.add_def]; omega
    | 3, _ => simp [posOf, quadrant, manhattan, Pos.add_def]; omega
  · rintro ⟨hq, hm⟩
    cases p with | mk px py =>
    cases c with | mk cx cy =>
    simp only [manhattan] at hm
    match seg, hs with
    | 0, _ =>
      simp only [quadrant] at hq
      refine ⟨(px - cx).natAbs, by omega, ?_⟩
      simp [posOf, Pos.add_def]; omega
    | 1, _ =>
      simp only [quadrant] at hq
      refine ⟨(py - cy).natAbs, by omega, ?_⟩
      simp [posOf, Pos.add_def]; omega
    | 2, _ =>
      simp only [quadrant] at hq
      refine ⟨(px - cx).natAbs, by omega, ?_⟩
      simp [posOf, Pos.add_def]; omega
    | 3, _ =>
      simp only [quadrant] at hq
      refine ⟨(py - cy).natAbs, by omega, ?_⟩
      simp [posOf, Pos.add_def]; omega

theorem mem_ring (c p : Pos) (d : Nat) (hd : 1 ≤ d) : p ∈ ring c d ↔ manhattan p c = d := by
  simp only [ring, List.mem_append, mem_sidePts c p d _ (by omega : (0:Nat) ≤ 3), mem_sidePts c p d _ (by omega : (1:Nat) ≤ 3),
    mem_sidePts c p d _ (by omega : (2:Nat) ≤ 3), mem_sidePts c p d _ (by omega : (3:Nat) ≤ 3), quadrant]
  constructor
  · rintro (h | h | h | h) <;> exact h.2
  · intro hm
    simp only [manhattan] at hm ⊢
    omega

theorem mem_rings (c p : Pos) (D : Nat) : p ∈ rings c D ↔ 1 ≤ manhattan p c ∧ manhattan p c ≤ D := by
  induction D with
  | zero => simp [rings]; omega
  | succ k ih => simp only [rings, List.mem_append, ih, mem_ring c p (k + 1) (by omega)]; omega

theorem manhattan_eq_zero (p c : Pos) : manhattan p c = 0 ↔ p = c := by
  cases p; cases c; simp [manhattan]; omega

theorem mem_spiral' (c p : Pos) (D : Nat) : p ∈ spiral c D ↔ manhattan p c ≤ D := by
  simp only [spiral, List.mem_cons, mem_rings]
  by_cases h : p = c
  · subst h; simp [(manhattan_eq_zero p p).2 rfl]
  · have : manhattan p c ≠ 0 := fun h0 => h ((manhattan_eq_zero p c).1 h0)
    simp only [h, false_or]; omega

theorem nodup_sidePts (c : Pos) (d seg t n : Nat) : (sidePts c d seg t n).Nodup := by
  unfold sidePts
  rw [List.Nodup, List.pairwise_map]
  refine (List.pairwise_lt_range' (s := t) (n := n)).imp ?_
  intro a b hab
  cases c
  match seg with
  | 0 => simp [posOf, Pos.add_def]; omega
  | 1 => simp [posOf, Pos.add_def]; omega
  | 2 => simp [posOf, Pos.add_def]; omega
  | k + 3 => simp [posOf, Pos.add_def]; omega

theorem nodup_ring (c : Pos) (d : Nat) : (ring c d).Nodup := by
  simp only [ring, List.nodup_append, nodup_sidePts, List.mem_append, true_and]
  and_intros
  all_goals
    intro a ha b hb hab
    subst hab
    simp only [mem_sidePts c a d _ (by omega : (0:Nat) ≤ 3), mem_sidePts c a d _ (by omega : (1:Nat) ≤ 3),
      mem_sidePts c a d _ (by omega : (2:Nat) ≤ 3), mem_sidePts c a d _ (by omega : (3:Nat) ≤ 3), quadrant] at ha hb
    omega

theorem nodup_rings (c : Pos) (D : Nat) : (rings c D).Nodup := by
  induction D with
  | zero => simp [rings]
  | succ k ih =>
    simp only [rings, List.nodup_append, ih, nodup_ring, true_and]
    intro a ha b hb hab
    subst hab
    rw [mem_rings] at ha
    rw [mem_ring c a (k + 1) (by omega)] at hb
    omega

theorem nodup_spiral' (c : Pos) (D : Nat) : (spiral c D).Nodup := by
  simp only [spiral, List.nodup_cons, nodup_rings, and_true, mem_rings]
  have := (manhattan_eq_zero c c).2 rfl
  omega

theorem sorted_rings (c : Pos) (D : Nat) : (rings c D).Pairwise (fun p q => manhattan p c ≤ manhattan q c) := by
  induction D with
  | zero => simp [rings]
  | succ k ih =>
    simp only [rings, List.pairwise_append, ih, true_and]
    refine ⟨?_, ?_⟩
    · -- inside one ring all distances are equal
      rw [List.pairwise_iff_forall_sublist]
      intro a b hab
      have ha := hab.subset (List.mem_cons_self)
      have hb := hab.subset (List.mem_cons_of_mem _ List.mem_cons_self)
      rw [mem_ring c _ (k + 1) (by omega)] at ha hb
      omega
    · intro a ha b hb
      rw [mem_rings] at ha
      rw [mem_ring c b (k + 1) (by omega)] at hb
      omega

theorem sorted_spiral' (c : Pos) (D : Nat) : (spiral c D).Pairwise (fun p q => manhattan p c ≤ manhattan q c) := by
  simp only [spiral, List.pairwise_cons, sorted_rings, and_true]
  intro a _
  have := (manhattan_eq_zero c c).2 rfl
  omega

theorem length_sidePts (c : Pos) (d seg t n : Nat) : (sidePts c d seg t n).length = n := by simp [sidePts]

theorem length_rings (c : Pos) (D : Nat) : (rings c D).length = ringsLen D := by
  induction D with
  | zero => rfl
  | succ k ih => simp [rings, ringsLen, ring, length_sidePts, ih]; omega

theorem ringsLen_eq (D : Nat) : ringsLen D = 2 * D * (D + 1) := by
  induction D with
  | zero => rfl
  | succ k ih => simp only [ringsLen, ih]; simp only [Nat.mul_add, Nat.add_mul]; omega

/-- the `end()` position lies on ring `D+1`, so it is not met before rings `0..D` are complete -/
theorem avoids_end (c : Pos) (D : Nat) : Avoids c ⟨c.x - 1, c.y - D⟩ D := by
  intro d seg t hd h1 ht
  cases c
  match seg with
  | 0 => simp [posOf, Pos.add_def]; omega
  | 1 => simp [posOf, Pos.add_def]; omega
  | 2 => simp [posOf, Pos.add_def]; omega
  | k + 3 => simp [posOf, Pos.add_def]; omega

end Fcppt.C18
