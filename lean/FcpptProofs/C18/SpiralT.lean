import FcpptModel.Spec.C18
import FcpptProofs.C18.IntTy
import FcpptProofs.C18.Spiral
import FcpptProofs.C18.Diamond
import FcpptProofs.C18.Base
/-! The spiral iterator in the arithmetic of its coordinate type: as long as the box of radius `D + 1` around the origin
fits into the type, every operation of `increment` stays in range and the typed loop is the mathematical one. -/
namespace Fcppt.C18
open Spec

theorem addT_ok (t : IntTy) (hb : 1 ≤ t.bits) {a b : Int} (h : t.InRange (a + b)) : addT t a b = .ok (a + b) := by
  unfold addT
  rw [IntTy.wrap_of_inRange t hb h]
  simp [h]

theorem addT_overflow (t : IntTy) (htr : t.trapping = true) {a b : Int} (h : ¬ t.InRange (a + b)) :
    addT t a b = .error .signedOverflow := by
  unfold addT; simp [htr, h]

/-- a radius that fits on both sides of some coordinate is itself a value of the type -/
theorem IntTy.radius_le_hi (t : IntTy) (hb : 1 ≤ t.bits) {a m : Int} (h1 : t.lo ≤ a - m) (h2 : a + m ≤ t.hi) : m ≤ t.hi := by
  have hs := two_pow_split hb
  have hp := two_pow_pos (t.bits - 1)
  unfold IntTy.lo at h1; unfold IntTy.hi at h2 ⊢
  cases hsg : t.signed <;> simp [hsg] at h1 h2 ⊢ <;> omega

/-- one `increment` in the coordinate type equals the mathematical one when the neighbourhood of the current position and the
two counters are in range -/
theorem incrementT_ok (t : IntTy) (hb : 1 ≤ t.bits) (s : Spiral)
    (hdx : s.dir.x = 1 ∨ s.dir.x = -1) (hdy : s.dir.y = 1 ∨ s.dir.y = -1)
    (hx : t.lo ≤ s.cur.x - 1 ∧ s.cur.x + 1 ≤ t.hi) (hy : t.lo ≤ s.cur.y - 1 ∧ s.cur.y + 1 ≤ t.hi)
    (hcd : 0 ≤ s.curDist ∧ s.curDist + 1 ≤ t.hi) (hst : 0 ≤ s.step ∧ s.step + 1 ≤ t.hi) :
    s.incrementT t = .ok s.increment := by
  have hlo := t.lo_nonpos
  have r1 : t.InRange (s.curDist + 1) := ⟨by omega, hcd.2⟩
  have r2 : t.InRange (s.cur.y + -1) := ⟨by omega, by omega⟩
  have r3 : t.InRange (s.step + 1) := ⟨by omega, hst.2⟩
  have r4 : t.InRange ((0 : Int) + 1) := ⟨by omega, by omega⟩
  cases s with | mk cur md cd dir st =>
  cases cur with | mk cx cy =>
  cases dir with | mk dx dy =>
  simp only at hdx hdy hx hy hcd hst r1 r2 r3
  unfold Spiral.incrementT Spiral.increment
  by_cases hs : st = cd
  · subst hs
    simp only [if_true]
    by_cases hd : (⟨dy, -dx⟩ : Pos) = ⟨-1, 1⟩
    · simp only [hd, if_true]
      rw [addT_ok t hb r1, addT_ok t hb r2]
      simp only []
      rw [addT_ok t hb r4, addT_ok t hb (a := cx) (b := -1) ⟨by omega, by omega⟩,
        addT_ok t hb (a := cy + -1) (b := 1) ⟨by omega, by omega⟩]
      simp [Pos.add_def] <;> omega
    · simp only [hd, if_false]
      rw [addT_ok t hb r4]
      have hx' : t.InRange (cx + dy) := by rcases hdy with h | h <;> (rw [h]; exact ⟨by omega, by omega⟩)
      have hy' : t.InRange (cy + -dx) := by rcases hdx with h | h <;> (rw [h]; exact ⟨by omega, by omega⟩)
      rw [addT_ok t hb hx', addT_ok t hb hy']
      simp [Pos.add_def]
  · simp only [hs, if_false]
    have hx' : t.InRange (cx + dx) := by rcases hdx with h | h <;> (rw [h]; exact ⟨by omega, by omega⟩)
    have hy' : t.InRange (cy + dy) := by rcases hdy with h | h <;> (rw [h]; exact ⟨by omega, by omega⟩)
    rw [addT_ok t hb r3, addT_ok t hb hx', addT_ok t hb hy']
    simp [Pos.add_def]

theorem spiralLoopT_succ (t : IntTy) (e : Pos) (f : Nat) (s : Spiral) :
    spiralLoopT t e (f + 1) s =
      if s.cur = e then .ok []
      else match s.incrementT t with
        | .error err => .error err
        | .ok s' => match spiralLoopT t e f s' with
          | .error err => .error err
          | .ok r => .ok (s.cur :: r) := rfl

/-- the positions of the list are the positions of the successive iterator states, and the state after them sits on `end()` -/
theorem spiralLoop_states (e : Pos) (fuel : Nat) (s : Spiral) (l : List Pos) (h : spiralLoop e fuel s = .ok l) :
    (∀ k, k < l.length → l[k]? = some (iter Spiral.increment k s).cur) ∧ (iter Spiral.increment l.length s).cur = e := by
  induction fuel generalizing s l with
  | zero => simp [spiralLoop] at h
  | succ f ih =>
    rw [spiralLoop_succ] at h
    by_cases he : s.cur = e
    · rw [if_pos he] at h
      cases h
      exact ⟨fun k hk => by simp at hk, by simpa [iter] using he⟩
    · rw [if_neg he] at h
      cases hr : spiralLoop e f s.increment with
      | error err => simp [hr, prepend] at h
      | ok r =>
        simp only [hr, prepend, List.singleton_append, Except.ok.injEq] at h
        subst h
        obtain ⟨h1, h2⟩ := ih s.increment r hr
        refine ⟨fun k hk => ?_, by simpa [iter] using h2⟩
        cases k with
        | zero => simp [iter]
        | succ k => simpa [iter] using h1 k (by simpa using hk)

/-- transfer: if every step along the way is safe in the type, the typed loop returns the same list -/
theorem spiralLoopT_eq (t : IntTy) (e : Pos) (fuel : Nat) (s : Spiral) (l : List Pos) (h : spiralLoop e fuel s = .ok l)
    (hsafe : ∀ k, k < l.length → (iter Spiral.increment k s).incrementT t = .ok (iter Spiral.increment k s).increment) :
    spiralLoopT t e fuel s = .ok l := by
  induction fuel generalizing s l with
  | zero => simp [spiralLoop] at h
  | succ f ih =>
    rw [spiralLoop_succ] at h
    rw [spiralLoopT_succ]
    by_cases he : s.cur = e
    · rw [if_pos he] at h ⊢; exact h
    · rw [if_neg he] at h ⊢
      cases hr : spiralLoop e f s.increment with
      | error err => simp [hr, prepend] at h
      | ok r =>
        simp only [hr, prepend, List.singleton_append, Except.ok.injEq] at h
        subst h
        have h0 := hsafe 0 (by simp)
        simp only [iter] at h0
        rw [h0]
        have := ih s.increment r hr (fun k hk => by simpa [iter] using hsafe (k + 1) (by simpa using hk))
        simp only [this]

/-- every state reached from the initial one is a `(ring, side, step)` state -/
theorem reach_conc (c : Pos) (md : Int) (k : Nat) :
    ∃ d seg tt, iter Spiral.increment k (Spiral.init c md) = conc c md d seg tt ∧ seg ≤ 3 ∧ tt ≤ d ∧ (d = 0 → seg = 3) ∧ (1 ≤ d → 1 ≤ tt) := by
  induction k with
  | zero => exact ⟨0, 3, 0, by simp [iter, init_eq_conc], by omega, by omega, by omega, by omega⟩
  | succ k ih =>
    obtain ⟨d, seg, tt, hst, h3, htd, h0, h1⟩ := ih
    rw [Cyc.iter_succ_outer, hst]
    by_cases hlt : tt < d
    · exact ⟨d, seg, tt + 1, incr_lt c md d seg tt hlt, h3, by omega, by omega, by omega⟩
    · have : tt = d := by omega
      subst this
      by_cases hs : seg < 3
      · exact ⟨tt, seg + 1, 1, incr_turn c md tt seg hs, by omega, by omega, by omega, by omega⟩
      · have : seg = 3 := by omega
        subst this
        exact ⟨tt + 1, 0, 1, incr_ring c md tt, by omega, by omega, by omega, by omega⟩

theorem manhattan_posOf (c : Pos) (d seg tt : Nat) (h3 : seg ≤ 3) (h1 : 1 ≤ tt) (htd : tt ≤ d) :
    manhattan (c + posOf d seg tt) c = d := by
  cases c
  match seg, h3 with
  | 0, _ => simp [posOf, manhattan, Pos.add_def]; omega
  | 1, _ => simp [posOf, manhattan, Pos.add_def]; omega
  | 2, _ => simp [posOf, manhattan, Pos.add_def]; omega
  | 3, _ => simp [posOf, manhattan, Pos.add_def]; omega

theorem posOf_bounds (d seg tt : Nat) (htd : tt ≤ d) :
    -(d : Int) ≤ (posOf d seg tt).x ∧ (posOf d seg tt).x ≤ d ∧ -(d : Int) ≤ (posOf d seg tt).y ∧ (posOf d seg tt).y ≤ d := by
  match seg with
  | 0 => simp [posOf]; omega
  | 1 => simp [posOf]; omega
  | 2 => simp [posOf]; omega
  | k + 3 => simp [posOf]; omega

theorem dirOf_unit (seg : Nat) : ((dirOf seg).x = 1 ∨ (dirOf seg).x = -1) ∧ ((dirOf seg).y = 1 ∨ (dirOf seg).y = -1) := by
  match seg with
  | 0 => simp [dirOf]
  | 1 => simp [dirOf]
  | 2 => simp [dirOf]
  | k + 3 => simp [dirOf]

/-- a `(ring d, side, step)` state with `d ≤ D` increments safely when the box of radius `D + 1` fits -/
theorem incrementT_conc (t : IntTy) (hb : 1 ≤ t.bits) (c : Pos) (md : Int) (D d seg tt : Nat) (hd : d ≤ D) (htd : tt ≤ d)
    (hx : t.lo ≤ c.x - (D + 1) ∧ c.x + (D + 1) ≤ t.hi) (hy : t.lo ≤ c.y - (D + 1) ∧ c.y + (D + 1) ≤ t.hi) :
    (conc c md d seg tt).incrementT t = .ok (conc c md d seg tt).increment := by
  have hm : ((D : Int) + 1) ≤ t.hi := IntTy.radius_le_hi t hb hx.1 hx.2
  obtain ⟨b1, b2, b3, b4⟩ := posOf_bounds d seg tt htd
  obtain ⟨u1, u2⟩ := dirOf_unit seg
  apply incrementT_ok t hb
  · exact u1
  · exact u2
  · cases c; simp [conc, Pos.add_def] at *; omega
  · cases c; simp [conc, Pos.add_def] at *; omega
  · simp [conc]; omega
  · simp [conc]; omega

end Fcppt.C18
