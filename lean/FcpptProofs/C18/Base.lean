import FcpptModel.Spec.C18
import FcpptProofs.C18.IntTy
import FcpptProofs.C18.Cyclic
/-! Lemmas for the operations inherited from `iterator::base` (comparison, post-increment, swap), the `int_iterator` loop
without the clamp of `int_range`, and the cyclic iterator outside its precondition. -/
namespace Fcppt.C18
open Spec

/-- converting `hi + 1` back to a type whose arithmetic does not trap gives `lo` -/
theorem IntTy.wrap_hi_succ (t : IntTy) (hb : 1 ≤ t.bits) : t.wrap (t.hi + 1) = t.lo := by
  have hs := two_pow_split hb
  have hp := two_pow_pos (t.bits - 1)
  unfold IntTy.wrap IntTy.hi IntTy.lo
  cases hsg : t.signed
  · simp
  · have : ((2 : Int) ^ (t.bits - 1) - 1 + 1) % 2 ^ t.bits = 2 ^ (t.bits - 1) := by
      rw [show (2 : Int) ^ (t.bits - 1) - 1 + 1 = 2 ^ (t.bits - 1) by omega]
      exact Int.emod_eq_of_lt (by omega) (by omega)
    simp only [if_true, this, Bool.true_and, decide_eq_true_eq]
    rw [if_pos (by omega)]; omega

theorem incr_hi_wraps (t : IntTy) (hb : 1 ≤ t.bits) (htr : t.trapping = false) : incr t t.hi = .ok t.lo := by
  unfold incr; simp [htr, IntTy.wrap_hi_succ t hb]

theorem incr_hi_traps (t : IntTy) (htr : t.trapping = true) : incr t t.hi = .error .signedOverflow := by
  unfold incr; simp [htr]; omega

def prependI (l : List Int) : M (List Int) → M (List Int)
  | .ok r => .ok (l ++ r)
  | .error e => .error e

/-- `n` steps of the loop that do not meet the end value -/
theorem intLoop_prefix (t : IntTy) (hb : 1 ≤ t.bits) (e : Int) (n : Nat) (b : Int) (hlo : t.lo ≤ b) (hhi : b + n ≤ t.hi)
    (hne : ∀ x, b ≤ x → x < b + n → x ≠ e) (f : Nat) :
    intLoop t e (f + n) b = prependI (iota b n) (intLoop t e f (b + n)) := by
  induction n generalizing b with
  | zero =>
    simp only [iota, Nat.add_zero]
    rw [show b + ((0 : Nat) : Int) = b by simp]
    cases intLoop t e f b <;> rfl
  | succ n ih =>
    have h0 : ¬ b = e := hne b (Int.le_refl _) (by omega)
    have hinc := incr_ok t hb hlo (show b + 1 ≤ t.hi by omega)
    have h := ih (b + 1) (by omega) (by omega) (fun x h1 h2 => hne x (by omega) (by omega))
    rw [show b + 1 + (n : Int) = b + ((n + 1 : Nat) : Int) by omega] at h
    rw [show f + (n + 1) = (f + n) + 1 by omega, intLoop_succ, if_neg h0, hinc]
    simp only [h, iota]
    cases intLoop t e f (b + ((n + 1 : Nat) : Int)) <;> rfl

namespace Cyc

theorem iter_succ_outer {α : Type} (f : α → α) (k : Nat) (a : α) : iter f (k + 1) a = f (iter f k a) := by
  induction k generalizing a with
  | zero => rfl
  | succ k ih => rw [iter, ih (f a)]; rfl

/-- right of (or at) the end of the boundary `++` only moves further right -/
theorem iter_increment_escapes (c : Cyc) (h : c.second ≤ c.it) (k : Nat) :
    iter increment k c = { c with it := c.it + k } := by
  induction k generalizing c with
  | zero => cases c; simp [iter]
  | succ k ih =>
    have h1 : ¬ c.it + 1 = c.second := by omega
    have hinc : c.increment = { c with it := c.it + 1 } := by unfold increment; simp [h1]
    rw [iter, hinc, ih _ (by simp; omega)]
    simp; omega

/-- left of a non-empty boundary `++` walks up to its first position -/
theorem iter_increment_enters (c : Cyc) (hlt : c.first < c.second) (k : Nat) (hk : c.it + k ≤ c.first) :
    iter increment k c = { c with it := c.it + k } := by
  induction k generalizing c with
  | zero => cases c; simp [iter]
  | succ k ih =>
    have h1 : ¬ c.it + 1 = c.second := by omega
    have hinc : c.increment = { c with it := c.it + 1 } := by unfold increment; simp [h1]
    rw [iter, hinc, ih _ (by simpa using hlt) (by simp; omega)]
    simp; omega

end Cyc
end Fcppt.C18
