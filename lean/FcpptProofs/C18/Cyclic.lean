import FcpptModel.Spec.C18
/-! Lemmas about the cyclic iterator: closed forms of `advance`, `increment`, `decrement` in Euclidean `%`. -/
namespace Fcppt.C18
open Spec

/-- C++'s truncating remainder followed by the `diff < 0 ? diff + size : diff` correction is the Euclidean remainder -/
theorem tmod_fix (a size : Int) (hs : 0 < size) :
    (if a.tmod size < 0 then a.tmod size + size else a.tmod size) = a % size := by
  have h0 := Int.emod_nonneg a (Int.ne_of_gt hs)
  have h1 := Int.emod_lt_of_pos a hs
  rw [Int.tmod_eq_emod]
  have hn : ((size.natAbs : Nat) : Int) = size := by omega
  by_cases h : 0 ≤ a ∨ size ∣ a
  · simp only [h, if_true]
    rw [if_neg (by simp; omega)]; simp
  · simp only [h, if_false, hn]
    rw [if_pos (by omega)]; omega

namespace Cyc

/-- the iterator points inside its boundary -/
def Inside (c : Cyc) : Prop := c.first ≤ c.it ∧ c.it < c.second

/-- the iterator at offset `o` of the same boundary -/
def atOffset (c : Cyc) (o : Int) : Cyc := { c with it := c.first + o }

theorem advance_eq (c : Cyc) (n : Int) (h : c.first < c.second) :
    c.advance n = .ok (c.atOffset ((c.it - c.first + n) % (c.second - c.first))) := by
  unfold advance atOffset
  have hs : 0 < c.second - c.first := by omega
  simp only [if_neg (Int.ne_of_gt hs)]
  rw [tmod_fix _ _ hs]

theorem increment_eq (c : Cyc) (h : c.Inside) :
    c.increment = c.atOffset ((c.it - c.first + 1) % (c.second - c.first)) := by
  obtain ⟨h1, h2⟩ := h
  unfold increment atOffset
  by_cases he : c.it + 1 = c.second
  · have : c.it - c.first + 1 = c.second - c.first := by omega
    simp only [he, if_true, this, Int.emod_self]; simp
  · have : (c.it - c.first + 1) % (c.second - c.first) = c.it - c.first + 1 := Int.emod_eq_of_lt (by omega) (by omega)
    simp only [he, if_false, this]
    congr 1; omega

theorem decrement_eq (c : Cyc) (h : c.Inside) :
    c.decrement = c.atOffset ((c.it - c.first - 1) % (c.second - c.first)) := by
  obtain ⟨h1, h2⟩ := h
  unfold decrement atOffset
  by_cases he : c.it = c.first
  · have : (c.it - c.first - 1) % (c.second - c.first) = c.second - c.first - 1 := by
      rw [← Int.add_emod_right (c.it - c.first - 1) (c.second - c.first),
        show c.it - c.first - 1 + (c.second - c.first) = c.second - c.first - 1 by omega]
      exact Int.emod_eq_of_lt (by omega) (by omega)
    simp only [he, if_true]
    rw [he] at this
    rw [this]; congr 1; omega
  · have : (c.it - c.first - 1) % (c.second - c.first) = c.it - c.first - 1 := Int.emod_eq_of_lt (by omega) (by omega)
    simp only [he, if_false, this]
    congr 1; omega

theorem atOffset_inside (c : Cyc) (a : Int) (h : c.first < c.second) : (c.atOffset (a % (c.second - c.first))).Inside := by
  have hs : 0 < c.second - c.first := by omega
  have h0 := Int.emod_nonneg a (Int.ne_of_gt hs)
  have h1 := Int.emod_lt_of_pos a hs
  simp only [Inside, atOffset]; omega

theorem iter_increment_eq (c : Cyc) (h : c.Inside) (k : Nat) :
    iter increment k c = c.atOffset ((c.it - c.first + k) % (c.second - c.first)) := by
  have hlt : c.first < c.second := by have := h.1; have := h.2; omega
  induction k generalizing c with
  | zero =>
    simp only [iter, atOffset]
    have : (c.it - c.first + ((0 : Nat) : Int)) % (c.second - c.first) = c.it - c.first := by
      rw [show c.it - c.first + ((0 : Nat) : Int) = c.it - c.first by simp]
      exact Int.emod_eq_of_lt (by have := h.1; omega) (by have := h.2; omega)
    rw [this]
    cases c; simp; omega
  | succ k ih =>
    simp only [iter]
    rw [increment_eq c h]
    have hin := atOffset_inside c (c.it - c.first + 1) hlt
    rw [ih _ hin (by simpa [atOffset] using hlt)]
    simp only [atOffset]
    congr 2
    rw [show c.first + (c.it - c.first + 1) % (c.second - c.first) - c.first = (c.it - c.first + 1) % (c.second - c.first) by omega,
      Int.emod_add_emod]
    congr 1; omega

theorem iter_decrement_eq (c : Cyc) (h : c.Inside) (k : Nat) :
    iter decrement k c = c.atOffset ((c.it - c.first - k) % (c.second - c.first)) := by
  have hlt : c.first < c.second := by have := h.1; have := h.2; omega
  induction k generalizing c with
  | zero =>
    simp only [iter, atOffset]
    have : (c.it - c.first - ((0 : Nat) : Int)) % (c.second - c.first) = c.it - c.first := by
      rw [show c.it - c.first - ((0 : Nat) : Int) = c.it - c.first by simp]
      exact Int.emod_eq_of_lt (by have := h.1; omega) (by have := h.2; omega)
    rw [this]
    cases c; simp; omega
  | succ k ih =>
    simp only [iter]
    rw [decrement_eq c h]
    have hin := atOffset_inside c (c.it - c.first - 1) hlt
    rw [ih _ hin (by simpa [atOffset] using hlt)]
    simp only [atOffset]
    congr 2
    rw [show c.first + (c.it - c.first - 1) % (c.second - c.first) - c.first - (k : Int)
          = (c.it - c.first - 1) % (c.second - c.first) + (-(k : Int)) by omega, Int.emod_add_emod]
    congr 1; omega

/-- every operation moves by its displacement modulo the boundary length -/
theorem apply_eq (c : Cyc) (h : c.Inside) (o : CycOp) :
    c.apply o = .ok (c.atOffset ((c.it - c.first + cycNet [o]) % (c.second - c.first))) := by
  have hlt : c.first < c.second := by have := h.1; have := h.2; omega
  cases o with
  | inc => simp only [apply, increment_eq c h, cycNet]; first | rfl | (congr 3; omega)
  | dec => simp only [apply, decrement_eq c h, cycNet]; first | rfl | (congr 3; omega)
  | adv n => simp only [apply, advance_eq c n hlt, cycNet]; first | rfl | (congr 3; omega)
  | sub n => simp only [apply, advance_eq c (-n) hlt, cycNet]; first | rfl | (congr 3; omega)

theorem run_eq (c : Cyc) (h : c.Inside) (ops : List CycOp) :
    c.run ops = .ok (c.atOffset ((c.it - c.first + cycNet ops) % (c.second - c.first))) := by
  have hlt : c.first < c.second := by have := h.1; have := h.2; omega
  induction ops generalizing c with
  | nil =>
    simp only [run, cycNet, atOffset]
    rw [show c.it - c.first + 0 = c.it - c.first by omega,
      Int.emod_eq_of_lt (by have := h.1; omega) (by have := h.2; omega)]
    cases c; simp; omega
  | cons o os ih =>
    simp only [run, apply_eq c h o]
    have hin := atOffset_inside c (c.it - c.first + cycNet [o]) hlt
    rw [ih _ hin (by simpa [atOffset] using hlt)]
    simp only [atOffset]
    have key : c.it - c.first + cycNet [o] + cycNet os = c.it - c.first + cycNet (o :: os) := by
      cases o <;> simp [cycNet] <;> omega
    rw [show c.first + (c.it - c.first + cycNet [o]) % (c.second - c.first) - c.first
          = (c.it - c.first + cycNet [o]) % (c.second - c.first) by omega, Int.emod_add_emod, key]

end Cyc
end Fcppt.C18
