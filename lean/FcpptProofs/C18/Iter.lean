import FcpptModel.Spec.C18
/-! The range-for loop over an `iterator::range` into a container. -/
namespace Fcppt.C18
open Spec

theorem iterLoop_succ {α : Type} (c : List α) (end_ f i : Nat) :
    iterLoop c end_ (f + 1) i =
      if i = end_ then .ok []
      else match c[i]? with
        | none => .error .oob
        | some a => match iterLoop c end_ f (i + 1) with
          | .error e => .error e
          | .ok r => .ok (a :: r) := rfl

theorem iterLoop_spec {α : Type} (c : List α) (n i : Nat) (h : i + n ≤ c.length) (f : Nat) :
    iterLoop c (i + n) (f + n + 1) i = .ok ((c.drop i).take n) := by
  induction n generalizing i with
  | zero => simp [iterLoop_succ]
  | succ n ih =>
    have hi : i < c.length := by omega
    have hne : ¬ i = i + (n + 1) := by omega
    have h1 := ih (i + 1) (by omega)
    rw [show i + 1 + n = i + (n + 1) by omega] at h1
    rw [show f + (n + 1) + 1 = (f + n + 1) + 1 by omega, iterLoop_succ, if_neg hne, List.getElem?_eq_getElem hi]
    simp only [h1]
    rw [List.drop_eq_getElem_cons hi, List.take_succ_cons]

/-- an iterator range that reaches past the container is an out-of-bounds access, not a wrong list -/
theorem iterLoop_oob {α : Type} (c : List α) (j : Nat) (hj : c.length < j) (f : Nat) (n i : Nat) (hi : i + n = c.length) (hf : n < f) :
    iterLoop c j f i = .error .oob := by
  induction n generalizing i f with
  | zero =>
    obtain ⟨g, rfl⟩ : ∃ g, f = g + 1 := ⟨f - 1, by omega⟩
    have hne : ¬ i = j := by omega
    rw [iterLoop_succ, if_neg hne, List.getElem?_eq_none (by omega)]
  | succ n ih =>
    obtain ⟨g, rfl⟩ : ∃ g, f = g + 1 := ⟨f - 1, by omega⟩
    have hne : ¬ i = j := by omega
    have hlt : i < c.length := by omega
    rw [iterLoop_succ, if_neg hne, List.getElem?_eq_getElem hlt]
    simp only [ih g (i + 1) (by omega) (by omega)]

end Fcppt.C18
