import FcpptModel.Spec.C18
/-! Simulation of the spiral iterator's state machine by `(ring d, side seg, step t)` (DESIGN.md A.5) and the
run of the range loop side by side, ring by ring. -/
namespace Fcppt.C18
open Spec

theorem Pos.add_def (a b : Pos) : a + b = ⟨a.x + b.x, a.y + b.y⟩ := rfl

/-- direction of travel along side `seg` -/
def dirOf : Nat → Pos
  | 0 => ⟨-1, 1⟩
  | 1 => ⟨1, 1⟩
  | 2 => ⟨1, -1⟩
  | _ => ⟨-1, -1⟩

/-- the iterator state at step `t` of side `seg` of ring `d` around `c` -/
def conc (c : Pos) (md : Int) (d seg t : Nat) : Spiral := ⟨c + posOf d seg t, md, d, dirOf seg, t⟩

theorem init_eq_conc (c : Pos) (md : Int) : Spiral.init c md = conc c md 0 3 0 := by
  cases c; simp [Spiral.init, conc, posOf, dirOf, Pos.add_def]

/-- inside a side: one more step in the same direction -/
theorem incr_lt (c : Pos) (md : Int) (d seg t : Nat) (h : t < d) :
    (conc c md d seg t).increment = conc c md d seg (t + 1) := by
  have hne : ¬ ((t : Int) = (d : Int)) := by omega
  unfold Spiral.increment conc
  simp only [hne, if_false]
  match seg with
  | 0 => simp [posOf, dirOf, Pos.add_def]; omega
  | 1 => simp [posOf, dirOf, Pos.add_def]; omega
  | 2 => simp [posOf, dirOf, Pos.add_def]; omega
  | k + 3 => simp [posOf, dirOf, Pos.add_def]; omega

/-- end of side 0, 1, 2: turn -/
theorem incr_turn (c : Pos) (md : Int) (d seg : Nat) (h : seg < 3) :
    (conc c md d seg d).increment = conc c md d (seg + 1) 1 := by
  unfold Spiral.increment conc
  match seg, h with
  | 0, _ => simp [posOf, dirOf, Pos.add_def]; omega
  | 1, _ => simp [posOf, dirOf, Pos.add_def]; omega
  | 2, _ => simp [posOf, dirOf, Pos.add_def]; omega

/-- end of side 3: the ring is complete, step down and start ring `d+1` -/
theorem incr_ring (c : Pos) (md : Int) (d : Nat) :
    (conc c md d 3 d).increment = conc c md (d + 1) 0 1 := by
  unfold Spiral.increment conc
  simp [posOf, dirOf, Pos.add_def]; omega

/-! ### the loop -/

def prepend (l : List Pos) : M (List Pos) → M (List Pos)
  | .ok r => .ok (l ++ r)
  | .error e => .error e

theorem prepend_prepend (l₁ l₂ : List Pos) (x : M (List Pos)) : prepend l₁ (prepend l₂ x) = prepend (l₁ ++ l₂) x := by
  cases x <;> simp [prepend]

theorem spiralLoop_succ (e : Pos) (f : Nat) (s : Spiral) :
    spiralLoop e (f + 1) s = if s.cur = e then .ok [] else prepend [s.cur] (spiralLoop e f s.increment) := by
  rw [spiralLoop]
  split
  · rfl
  · cases spiralLoop e f s.increment <;> rfl

/-- the end position is not met on any ring `≤ D` -/
def Avoids (c e : Pos) (D : Nat) : Prop :=
  ∀ d seg t, d ≤ D → 1 ≤ t → t ≤ d → c + posOf d seg t ≠ e

theorem sidePts_succ (c : Pos) (d seg t n : Nat) :
    sidePts c d seg t (n + 1) = (c + posOf d seg t) :: sidePts c d seg (t + 1) n := by
  simp [sidePts, List.range'_succ]

/-- the rest of one side: from step `t` to step `d` -/
theorem loop_side (c e : Pos) (md : Int) (D d seg : Nat) (hd : d ≤ D) (hav : Avoids c e D) (f n t : Nat)
    (ht : t + n = d) (h1 : 1 ≤ t) :
    spiralLoop e (f + n + 1) (conc c md d seg t) =
      prepend (sidePts c d seg t (n + 1)) (spiralLoop e f (conc c md d seg d).increment) := by
  induction n generalizing t with
  | zero =>
    have : t = d := by omega
    subst this
    have hne : ¬ (conc c md t seg t).cur = e := hav t seg t hd h1 (Nat.le_refl _)
    rw [spiralLoop_succ, if_neg hne]
    simp [sidePts, conc]
  | succ n ih =>
    have hne : ¬ (conc c md d seg t).cur = e := hav d seg t hd h1 (by omega)
    rw [show f + (n + 1) + 1 = (f + n + 1) + 1 by omega, spiralLoop_succ, if_neg hne, incr_lt c md d seg t (by omega),
      ih (t + 1) (by omega) (by omega), prepend_prepend, sidePts_succ c d seg t (n + 1)]
    simp [conc]

/-- one whole side -/
theorem loop_side_full (c e : Pos) (md : Int) (D d seg : Nat) (hd : d ≤ D) (h1 : 1 ≤ d) (hav : Avoids c e D) (f : Nat) :
    spiralLoop e (f + d) (conc c md d seg 1) =
      prepend (sidePts c d seg 1 d) (spiralLoop e f (conc c md d seg d).increment) := by
  have := loop_side c e md D d seg hd hav f (d - 1) 1 (by omega) (Nat.le_refl _)
  rw [show f + (d - 1) + 1 = f + d by omega, show d - 1 + 1 = d by omega] at this
  exact this

/-- one whole ring -/
theorem loop_ring (c e : Pos) (md : Int) (D d : Nat) (hd : d ≤ D) (h1 : 1 ≤ d) (hav : Avoids c e D) (f : Nat) :
    spiralLoop e (f + 4 * d) (conc c md d 0 1) = prepend (ring c d) (spiralLoop e f (conc c md (d + 1) 0 1)) := by
  rw [show f + 4 * d = (f + d + d + d) + d by omega,
    loop_side_full c e md D d 0 hd h1 hav, incr_turn c md d 0 (by omega),
    loop_side_full c e md D d 1 hd h1 hav, incr_turn c md d 1 (by omega),
    loop_side_full c e md D d 2 hd h1 hav, incr_turn c md d 2 (by omega),
    loop_side_full c e md D d 3 hd h1 hav, incr_ring c md d]
  simp only [prepend_prepend, ring]

/-- rings `1 .. D'` -/
theorem loop_rings (c e : Pos) (md : Int) (D : Nat) (hav : Avoids c e D) (D' : Nat) (hD : D' ≤ D) (f : Nat) :
    spiralLoop e (f + ringsLen D') (conc c md 1 0 1) = prepend (rings c D') (spiralLoop e f (conc c md (D' + 1) 0 1)) := by
  induction D' generalizing f with
  | zero => cases h : spiralLoop e f (conc c md 1 0 1) <;> simp [ringsLen, rings, prepend, h]
  | succ k ih =>
    rw [show f + ringsLen (k + 1) = (f + 4 * (k + 1)) + ringsLen k by simp [ringsLen]; omega,
      ih (by omega), loop_ring c e md D (k + 1) hD (by omega) hav, prepend_prepend]
    rfl

end Fcppt.C18
