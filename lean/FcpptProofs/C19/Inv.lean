import FcpptProofs.C19.Tree
/-! The invariant of the context tree over a history of calls. -/
namespace Fcppt.C19

theorem levelOf_nil (root : Level) (loc : Loc) : levelOf root [] loc = root := rfl

theorem levelOf_cons (root : Level) (s : Loc × Level) (ss : List (Loc × Level)) (loc : Loc) :
    levelOf root (s :: ss) loc = levelOf (if s.1.isPrefixOf loc then s.2 else root) ss loc := rfl

theorem levelOf_append (root : Level) (sets : List (Loc × Level)) (L : Loc) (v : Level) (loc : Loc) :
    levelOf root (sets ++ [(L, v)]) loc = if L.isPrefixOf loc then v else levelOf root sets loc := by
  simp [levelOf, List.foldl_append]

theorem isPrefixOf_trans {a b c : Loc} (h1 : a.isPrefixOf b = true) (h2 : b.isPrefixOf c = true) :
    a.isPrefixOf c = true := by
  rw [List.isPrefixOf_iff_prefix] at *
  exact h1.trans h2

/-- only the sets on prefixes matter -/
theorem levelOf_congr_prefix (root : Level) (sets : List (Loc × Level)) (loc Q : Loc)
    (hQ : Q.isPrefixOf loc = true)
    (h : ∀ s ∈ sets, s.1.isPrefixOf loc = true → s.1.isPrefixOf Q = true) :
    levelOf root sets loc = levelOf root sets Q := by
  induction sets generalizing root with
  | nil => rfl
  | cons s ss ih =>
    rw [levelOf_cons, levelOf_cons]
    have hc : s.1.isPrefixOf loc = s.1.isPrefixOf Q := by
      cases h1 : s.1.isPrefixOf loc with
      | true => exact (h s (by simp) h1).symm
      | false =>
        cases h2 : s.1.isPrefixOf Q with
        | false => rfl
        | true => rw [isPrefixOf_trans h2 hQ] at h1; exact h1.symm
    rw [hc]
    exact ih _ (fun s' hs' => h s' (by simp [hs']))

theorem convertLevel_le {v : Level} (hv : Level.Valid v) : convertLevel v ≤ levelCount := by
  cases v with
  | none => simp [convertLevel]
  | some l => have := hv l rfl; simp [convertLevel]; omega

theorem fromInt_convertLevel {v : Level} (hv : Level.Valid v) : fromInt (convertLevel v) = v := by
  cases v with
  | none => simp [convertLevel, fromInt]
  | some l => have := hv l rfl; simp [convertLevel, fromInt, this]

theorem levelOf_valid {root : Level} {sets : List (Loc × Level)} (hr : Level.Valid root)
    (hs : ∀ s ∈ sets, Level.Valid s.2) (loc : Loc) : Level.Valid (levelOf root sets loc) := by
  induction sets generalizing root with
  | nil => exact hr
  | cons s ss ih =>
    rw [levelOf_cons]
    apply ih
    · split
      · exact hs s (by simp)
      · exact hr
    · exact fun s' h' => hs s' (by simp [h'])

/-- every existing node holds the level the spec assigns to its location, and every location that
was ever the target of a `set` exists (so no `set` ever concerned a still-missing descendant) -/
structure Inv (root : Level) (sets : List (Loc × Level)) (t : Tree) : Prop where
  bounded : Bounded t
  level : ∀ P l, lvlAt t P = some l → l = convertLevel (levelOf root sets P)
  targets : ∀ s ∈ sets, (lvlAt t s.1).isSome = true

theorem Inv.init {root : Level} (hr : Level.Valid root) : Inv root [] (mkRoot root) := by
  refine ⟨bounded_leaf _ (convertLevel_le hr), ?_, by simp⟩
  intro P l h
  unfold mkRoot at h
  rw [lvlAt_leaf] at h
  split at h
  · simp at h; simp [levelOf_nil, h]
  · simp at h

theorem Inv.getInt {root : Level} {sets : List (Loc × Level)} {t : Tree} (hi : Inv root sets t) (loc : Loc) :
    getInt t loc = convertLevel (levelOf root sets loc) := by
  obtain ⟨Q, hq1, hq2, hq3⟩ := getInt_deepest t loc
  rw [hi.level Q _ hq2]
  congr 1
  symm
  apply levelOf_congr_prefix _ _ _ _ hq1
  intro s hs hp
  exact hq3 s.1 hp (hi.targets s hs)

theorem isSome_lvlAt_ensure {t : Tree} (hb : Bounded t) (L P : Loc) (h : (lvlAt t P).isSome = true) :
    (lvlAt (ensure t L) P).isSome = true := by
  rw [lvlAt_ensure t L P hb]; split <;> simp [h]

theorem isSome_lvlAt_ensure_self {t : Tree} (hb : Bounded t) (L : Loc) : (lvlAt (ensure t L) L).isSome = true := by
  rw [lvlAt_ensure t L L hb]; simp

theorem isPrefixOf_self (L : Loc) : L.isPrefixOf L = true := by
  rw [List.isPrefixOf_iff_prefix]; exact List.prefix_refl L

/-- object creation / `find_location` preserve the invariant -/
theorem Inv.ensure {root : Level} {sets : List (Loc × Level)} {t : Tree} (hi : Inv root sets t) (L : Loc) :
    Inv root sets (ensure t L) := by
  refine ⟨?_, ?_, ?_⟩
  · intro P l h
    rw [lvlAt_ensure t L P hi.bounded] at h
    split at h
    · simp at h; subst h
      obtain ⟨Q, _, hq2, _⟩ := getInt_deepest t P
      exact hi.bounded Q _ hq2
    · exact hi.bounded P l h
  · intro P l h
    rw [lvlAt_ensure t L P hi.bounded] at h
    split at h
    · simp at h; subst h; exact hi.getInt P
    · exact hi.level P l h
  · intro s hs
    exact isSome_lvlAt_ensure hi.bounded L s.1 (hi.targets s hs)

theorem lvlAt_ctxSet {t : Tree} (hb : Bounded t) (L : Loc) (v : Level) (P : Loc) :
    lvlAt (ctxSet t L v) P =
      if L.isPrefixOf P then (if (lvlAt t P).isSome ∨ P = L then some (convertLevel v) else none)
      else if P.isPrefixOf L then some (getInt t P) else lvlAt t P := by
  unfold ctxSet
  rw [lvlAt_updateAt_setAll, lvlAt_ensure t L P hb]
  by_cases h1 : L.isPrefixOf P = true
  · simp only [h1, if_true]
    by_cases h2 : P.isPrefixOf L = true
    · have : P = L := by
        rw [List.isPrefixOf_iff_prefix] at h1 h2
        exact List.IsPrefix.eq_of_length_le h2 h1.length_le
      subst this; simp [isPrefixOf_self]
    · have hne : P ≠ L := fun e => h2 (e ▸ isPrefixOf_self P)
      simp only [h2, hne, or_false]
      cases lvlAt t P <;> simp
  · simp [h1]

/-- `context::set` preserves the invariant, with the new call appended to the history -/
theorem Inv.set {root : Level} {sets : List (Loc × Level)} {t : Tree} (hi : Inv root sets t) (L : Loc)
    {v : Level} (hv : Level.Valid v) : Inv root (sets ++ [(L, v)]) (ctxSet t L v) := by
  refine ⟨?_, ?_, ?_⟩
  · intro P l h
    rw [lvlAt_ctxSet hi.bounded] at h
    split at h
    · split at h
      · simp at h; subst h; exact convertLevel_le hv
      · simp at h
    · split at h
      · simp at h; subst h
        obtain ⟨Q, _, hq2, _⟩ := getInt_deepest t P
        exact hi.bounded Q _ hq2
      · exact hi.bounded P l h
  · intro P l h
    rw [lvlAt_ctxSet hi.bounded] at h
    rw [levelOf_append]
    split at h
    · rename_i h1
      split at h
      · simp at h; simp [h1, h]
      · simp at h
    · rename_i h1
      simp only [h1]
      split at h
      · simp at h; subst h; simpa using hi.getInt P
      · simpa using hi.level P l h
  · intro s hs
    rw [lvlAt_ctxSet hi.bounded]
    simp only [List.mem_append, List.mem_singleton] at hs
    rcases hs with hs | rfl
    · have := hi.targets s hs
      split
      · simp [this]
      · split <;> simp [this]
    · simp [isPrefixOf_self]

end Fcppt.C19
