import FcpptProofs.C19.Inv
/-! The invariant over whole histories (`run`), and the formatter chain. -/
namespace Fcppt.C19

/-- state invariant after a history whose `set` calls are `sets` -/
structure SInv (root : Level) (sets : List (Loc × Level)) (s : State) : Prop where
  inv : Inv root sets s.tree
  objs : ∀ o ∈ s.objs, (lvlAt s.tree o.node).isSome = true
  len : s.fmts.length = s.objs.length
  fmt : ∀ (i : Nat) (o : Obj) (f : OptFn), s.objs[i]? = some o → s.fmts[i]? = some f → o.fmt = chain f (treeFormatter (toRootNames o.node))

theorem SInv.init_ok {root : Level} (hr : Level.Valid root) : SInv root [] (State.init root) :=
  ⟨Inv.init hr, by simp [State.init], rfl, by simp [State.init]⟩

theorem SInv.addObj {root : Level} {sets : List (Loc × Level)} {s : State} (h : SInv root sets s)
    (base : Tree) (hbase : Inv root sets base) (hmono : ∀ P, (lvlAt s.tree P).isSome = true → (lvlAt base P).isSome = true)
    (node : Loc) (name : String) (f : OptFn) :
    SInv root sets (s.add (objAtNode base node name f) s.objs s.fmts f) := by
  have hb := hbase.bounded
  refine ⟨?_, ?_, ?_, ?_⟩
  · exact hbase.ensure _
  · intro o ho
    simp only [State.add, objAtNode, List.mem_append, List.mem_singleton] at ho ⊢
    rcases ho with ho | rfl
    · exact isSome_lvlAt_ensure hb _ _ (hmono _ (h.objs o ho))
    · exact isSome_lvlAt_ensure_self hb _
  · simp [State.add, h.len]
  · intro i o g hi hg
    simp only [State.add] at hi hg
    by_cases hlt : i < s.objs.length
    · rw [List.getElem?_append_left hlt] at hi
      rw [List.getElem?_append_left (h.len ▸ hlt)] at hg
      exact h.fmt i o g hi hg
    · have hge : s.objs.length ≤ i := Nat.le_of_not_lt hlt
      rw [List.getElem?_append_right hge] at hi
      rw [List.getElem?_append_right (h.len ▸ hge)] at hg
      rw [h.len] at hg
      cases hk : i - s.objs.length with
      | zero => simp [hk] at hi hg; subst hi hg; rfl
      | succ k => simp [hk] at hi

theorem SInv.step_ok {root : Level} {sets : List (Loc × Level)} {s : State} (h : SInv root sets s) (op : Op)
    (hv : op.Valid) : SInv root (sets ++ setsOf [op]) (step s op) := by
  cases op with
  | set loc lvl =>
    simp only [setsOf, step]
    refine ⟨h.inv.set loc hv, ?_, h.len, h.fmt⟩
    intro o ho
    have := h.objs o ho
    simp only
    rw [lvlAt_ctxSet h.inv.bounded]
    split
    · simp [this]
    · split <;> simp [this]
  | objRoot name f =>
    simpa [setsOf, step, objRoot] using h.addObj s.tree h.inv (fun _ hP => hP) [] name f
  | objAt loc name f =>
    simpa [setsOf, step, objAt] using
      h.addObj (ensure s.tree loc) (h.inv.ensure loc) (fun P hP => isSome_lvlAt_ensure h.inv.bounded loc P hP) loc name f
  | objChild i name f =>
    simp only [setsOf, step, List.append_nil]
    cases hp : s.objs[i]? with
    | none => simpa using h
    | some p => simpa [objChild] using h.addObj s.tree h.inv (fun _ hP => hP) p.node name f

theorem setsOf_cons (op : Op) (ops : List Op) : setsOf (op :: ops) = setsOf [op] ++ setsOf ops := by
  cases op <;> simp [setsOf]

theorem SInv.foldl_ok {root : Level} (ops : List Op) (hv : ∀ op ∈ ops, op.Valid) {sets : List (Loc × Level)} {s : State}
    (h : SInv root sets s) : SInv root (sets ++ setsOf ops) (ops.foldl step s) := by
  induction ops generalizing sets s with
  | nil => simpa [setsOf] using h
  | cons op ops ih =>
    rw [setsOf_cons, ← List.append_assoc, List.foldl_cons]
    exact ih (fun o ho => hv o (by simp [ho])) (h.step_ok op (hv op (by simp)))

theorem SInv.run_ok {root : Level} (hr : Level.Valid root) (ops : List Op) (hv : ∀ op ∈ ops, op.Valid) :
    SInv root (setsOf ops) (run root ops) := by
  simpa [Fcppt.C19.run] using SInv.foldl_ok ops hv (SInv.init_ok hr)

theorem setsOf_valid {ops : List Op} (hv : ∀ op ∈ ops, op.Valid) : ∀ s ∈ setsOf ops, Level.Valid s.2 := by
  induction ops with
  | nil => simp [setsOf]
  | cons op ops ih =>
    intro s hs
    rw [setsOf_cons] at hs
    rcases List.mem_append.mp hs with h1 | h2
    · cases op with
      | set loc lvl => simp [setsOf] at h1; subst h1; exact hv (.set loc lvl) (by simp)
      | objRoot => simp [setsOf] at h1
      | objAt => simp [setsOf] at h1
      | objChild => simp [setsOf] at h1
    · exact ih (fun o ho => hv o (by simp [ho])) s h2

/-! ### formatter chain -/

/-- applying an optional formatter (`from(f, identity)`) -/
def applyOpt (f : OptFn) (s : String) : String := (f.getD id) s

theorem applyOpt_chain (a b : OptFn) (s : String) : applyOpt (chain a b) s = applyOpt a (applyOpt b s) := by
  cases a <;> cases b <;> rfl

theorem applyOpt_treeFormatter_foldl (names : List String) (st : OptFn) (s : String) :
    applyOpt (names.foldl (fun st name => if name.isEmpty then st else chain (some (prefixFn name)) st) st) s =
      names.foldl (fun acc name => if name.isEmpty then acc else name ++ ": " ++ acc) (applyOpt st s) := by
  induction names generalizing st with
  | nil => rfl
  | cons n ns ih =>
    simp only [List.foldl_cons]
    rw [ih]
    congr 1
    by_cases hn : n.isEmpty = true
    · simp [hn]
    · simp only [hn, Bool.false_eq_true, if_false]
      rw [applyOpt_chain]; rfl

theorem applyOpt_treeFormatter (p : Loc) (s : String) :
    applyOpt (treeFormatter (toRootNames p)) s = prefixText p s := by
  unfold treeFormatter toRootNames prefixText
  rw [applyOpt_treeFormatter_foldl, List.foldl_append, List.foldl_reverse]
  simp [applyOpt]

theorem streamLog_eq (own f : OptFn) (p : Loc) (msg : String) :
    streamLog own (chain f (treeFormatter (toRootNames p))) msg = specText f own p msg := by
  unfold streamLog specText
  show applyOpt (chain (chain f _) own) msg = _
  rw [applyOpt_chain, applyOpt_chain, applyOpt_treeFormatter]
  rfl

end Fcppt.C19
