import FcpptModel.Model.C19.Conc
import FcpptProofs.C19.Inv
/-! Invariants of the interleaving model. -/
namespace Fcppt.C19.Conc
open Fcppt.C19

/-! ### tree lemmas for single-node stores and the pre-order work list -/

theorem setLvl_name (v : Nat) (t : Tree) : (setLvl v t).name = t.name := by cases t; rfl

theorem lvlAt_setLvl (v : Nat) (t : Tree) (P : Loc) :
    lvlAt (setLvl v t) P = if P = [] then some v else lvlAt t P := by
  obtain ⟨n, l, ks⟩ := t
  cases P with
  | nil => rfl
  | cons y ys => simp [setLvl, lvlAt_cons]

theorem lvlAt_storeAt (v : Nat) (t : Tree) (Q P : Loc) :
    lvlAt (storeAt t Q v) P = if P = Q then (lvlAt t P).map (fun _ => v) else lvlAt t P := by
  unfold storeAt
  induction Q generalizing t P with
  | nil =>
    simp only [updateAt, lvlAt_setLvl]
    by_cases h : P = []
    · subst h; simp [lvlAt_nil]
    · simp [h]
  | cons x xs ih =>
    obtain ⟨n, l, ks⟩ := t
    have hname : ∀ c : Tree, (updateAt c xs (setLvl v)).name = c.name :=
      fun c => updateAt_name c xs _ (setLvl_name v)
    cases P with
    | nil => simp [updateAt, lvlAt_nil]
    | cons y ys =>
      simp only [updateAt, lvlAt_cons, Tree.kids_node]
      by_cases hyx : y = x
      · subst hyx
        rw [findChild_modifyFirst_same _ _ _ hname]
        cases hc : findChild ks y with
        | none => simp
        | some c =>
          simp only [Option.map_some, Option.bind_some, ih c ys]
          by_cases h2 : ys = xs <;> simp [h2]
      · rw [findChild_modifyFirst_other _ _ _ _ hname hyx]
        simp [hyx]

theorem isSome_lvlAt_storeAt (v : Nat) (t : Tree) (Q P : Loc) :
    (lvlAt (storeAt t Q v) P).isSome = (lvlAt t P).isSome := by
  rw [lvlAt_storeAt]; split <;> simp

theorem preOrder_node (n : String) (l : Nat) (ks : List Tree) :
    preOrder (.node n l ks) = [] :: (ks.map (fun k => (preOrder k).map (k.name :: ·))).flatten := by
  simp [preOrder]

theorem findChild_mem {ks : List Tree} {x : String} {c : Tree} (h : findChild ks x = some c) : c ∈ ks := by
  unfold findChild at h
  exact List.mem_of_find?_eq_some h

/-- the pre-order traversal reaches every node of the subtree -/
theorem mem_preOrder (t : Tree) (R : Loc) (h : (nodeAt t R).isSome = true) : R ∈ preOrder t := by
  induction R generalizing t with
  | nil => obtain ⟨n, l, ks⟩ := t; rw [preOrder_node]; simp
  | cons y ys ih =>
    obtain ⟨n, l, ks⟩ := t
    rw [preOrder_node]
    simp only [nodeAt, Tree.kids_node] at h
    cases hc : findChild ks y with
    | none => simp [hc] at h
    | some c =>
      simp only [hc, Option.bind_some] at h
      apply List.mem_cons_of_mem
      rw [List.mem_flatten]
      refine ⟨(preOrder c).map (c.name :: ·), ?_, ?_⟩
      · exact List.mem_map.mpr ⟨c, findChild_mem hc, rfl⟩
      · rw [findChild_name hc]
        exact List.mem_map.mpr ⟨ys, ih c h, rfl⟩

theorem nodeAt_append (t : Tree) (L R : Loc) : nodeAt t (L ++ R) = (nodeAt t L).bind (fun s => nodeAt s R) := by
  induction L generalizing t with
  | nil => simp [nodeAt]
  | cons x xs ih =>
    simp only [List.cons_append, nodeAt]
    cases findChild t.kids x <;> simp [ih]

theorem isSome_lvlAt_iff (t : Tree) (P : Loc) : (lvlAt t P).isSome = (nodeAt t P).isSome := by
  unfold lvlAt; simp

/-- the work list of `set` contains every existing node below the location -/
theorem mem_todoOf (t : Tree) (L P : Loc) (hp : L.isPrefixOf P = true) (he : (lvlAt t P).isSome = true) :
    P ∈ todoOf t L := by
  rw [List.isPrefixOf_iff_prefix] at hp
  obtain ⟨R, rfl⟩ := hp
  rw [isSome_lvlAt_iff, nodeAt_append] at he
  unfold todoOf
  cases hn : nodeAt t L with
  | none => simp [hn] at he
  | some sub =>
    simp only [hn, Option.bind_some] at he
    exact List.mem_map.mpr ⟨R, mem_preOrder sub R he, rfl⟩

theorem todoOf_sub (t : Tree) (L : Loc) : ∀ q ∈ todoOf t L, L.isPrefixOf q = true := by
  intro q hq
  unfold todoOf at hq
  cases hn : nodeAt t L with
  | none => simp [hn] at hq
  | some sub =>
    simp only [hn] at hq
    obtain ⟨r, _, rfl⟩ := List.mem_map.mp hq
    rw [List.isPrefixOf_iff_prefix]; exact List.prefix_append L r

theorem lvlAt_deepest (t : Tree) (l : Loc) : lvlAt t (deepest t l) = some (getInt t l) := by
  induction l generalizing t with
  | nil => simp [deepest, lvlAt_nil, getInt_nil]
  | cons x xs ih =>
    rw [getInt_cons]
    simp only [deepest]
    cases hc : findChild t.kids x with
    | none => simp [lvlAt_nil]
    | some c => simp [lvlAt_cons, hc, ih c]

/-- existence is prefix-closed -/
theorem deepest_isPrefix (t : Tree) (loc : Loc) : (deepest t loc).isPrefixOf loc = true := by
  induction loc generalizing t with
  | nil => simp [deepest]
  | cons x xs ih =>
    unfold deepest
    cases h : findChild t.kids x with
    | none => simp
    | some c => simp [ih c]

theorem isSome_lvlAt_take (t : Tree) (l : Loc) (k : Nat) (h : (lvlAt t l).isSome = true) :
    (lvlAt t (l.take k)).isSome = true := by
  induction l generalizing t k with
  | nil => simpa using h
  | cons x xs ih =>
    cases k with
    | zero => simp [lvlAt_nil]
    | succ k =>
      simp only [List.take_succ_cons, lvlAt_cons] at h ⊢
      cases hc : findChild t.kids x with
      | none => simp [hc] at h
      | some c => simp only [hc, Option.bind_some] at h ⊢; exact ih c k h

/-! ### mutual exclusion -/

/-- a thread is inside a critical section exactly when it owns the mutex -/
def Excl (s : Sys) : Prop := ∀ j, (s.ph j).holds = true ↔ s.holder = some j

theorem upd_same {α : Type} (f : Tid → α) (i : Tid) (a : α) : upd f i a i = a := by simp [upd]
theorem upd_other {α : Type} (f : Tid → α) {i j : Tid} (a : α) (h : j ≠ i) : upd f i a j = f j := by simp [upd, h]

theorem Call.locked_holds (c : Call) : c.locked.holds = true := by cases c <;> rfl

theorem Excl.step {s s' : Sys} {i : Tid} {acc : List Access} (he : Excl s) (st : Step s i acc s') : Excl s' := by
  have key_keep : ∀ (ph' : Phase), (s.ph i).holds = ph'.holds →
      Excl { s with ph := upd s.ph i ph' } := by
    intro ph' hh j
    by_cases hj : j = i
    · subst hj; simp only [upd_same]; rw [← hh]; exact he j
    · simp only [upd_other _ _ hj]; exact he j
  have key_rel : ∀ (ph' : Phase) (tr : Tree) (dn : List (Loc × Level)), (s.ph i).holds = true → ph'.holds = false →
      Excl { s with tree := tr, done := dn, holder := none, ph := upd s.ph i ph' } := by
    intro ph' tr dn hh hn j
    have hi := (he i).mp hh
    by_cases hj : j = i
    · subst hj; simp [upd_same, hn]
    · simp only [upd_other _ _ hj]
      have := he j
      rw [hi] at this
      constructor
      · intro h; have := this.mp h; simp at this; exact absurd this.symm hj
      · intro h; simp at h
  cases st with
  | call c hi hv => exact key_keep _ (by rw [hi]; rfl)
  | acquire c hi hfree =>
    intro j
    by_cases hj : j = i
    · subst hj; simp [upd_same, Call.locked_holds]
    · simp only [upd_other _ _ hj]
      have := he j
      rw [hfree] at this
      constructor
      · intro h; have := this.mp h; simp at this
      · intro h; simp at h; exact absurd h.symm hj
  | setFind l v hi => exact fun j => (key_keep (.setStore l v _) (by rw [hi]; rfl)) j
  | setStore l v q todo hi => exact fun j => (key_keep (.setStore l v todo) (by rw [hi]; rfl)) j
  | setDone l v hi => exact key_rel .idle _ _ (by rw [hi]; rfl) rfl
  | getRead l hi => exact key_keep _ (by rw [hi]; rfl)
  | createFind l hi => exact fun j => (key_keep (.unlock (.format l)) (by rw [hi]; rfl)) j
  | unlock after hi hna =>
    exact key_rel after _ _ (by rw [hi]; rfl) (by rcases hna with rfl | ⟨l, rfl⟩ <;> rfl)
  | format l hi => exact fun j => (key_keep .idle (by rw [hi]; rfl)) j
  | load p val hi ho hl => exact he

theorem Excl.init (root : Level) : Excl (Sys.init root) := by
  intro j; simp [Sys.init, Phase.holds]


/-! ### the data invariant -/

/-- the tree while thread is inside the store loop of `set l v` with `todo` still to be stored -/
structure Mid (root : Level) (done : List (Loc × Level)) (l : Loc) (v : Level) (todo : List Loc) (t : Tree) : Prop where
  bounded : Bounded t
  valid : Level.Valid v
  targets : ∀ s ∈ done ++ [(l, v)], (lvlAt t s.1).isSome = true
  sub : ∀ q ∈ todo, l.isPrefixOf q = true
  level : ∀ P x, lvlAt t P = some x →
    x = convertLevel (levelOf root done P) ∨ (l.isPrefixOf P = true ∧ x = convertLevel v)
  stored : ∀ P x, lvlAt t P = some x → l.isPrefixOf P = true → P ∉ todo → x = convertLevel v

def NoStore (s : Sys) : Prop := ∀ j l v todo, s.ph j ≠ .setStore l v todo

structure DInv (root : Level) (s : Sys) : Prop where
  excl : Excl s
  quiet : NoStore s → Inv root s.done s.tree
  mid : ∀ j l v todo, s.ph j = .setStore l v todo → Mid root s.done l v todo s.tree
  valid : ∀ j l v, (s.ph j = .wantLock (.set l v) ∨ s.ph j = .setFind l v) → Level.Valid v
  objs : ∀ j p, p ∈ s.objs j → (lvlAt s.tree p).isSome = true
  fmtp : ∀ j l, (s.ph j = .format l ∨ s.ph j = .unlock (.format l)) → (lvlAt s.tree l).isSome = true
  doneValid : ∀ s' ∈ s.done, Level.Valid s'.2

theorem DInv.bounded {root : Level} {s : Sys} (h : DInv root s) : Bounded s.tree := by
  by_cases hn : NoStore s
  · exact (h.quiet hn).bounded
  · unfold NoStore at hn
    have hex : ∃ j l v todo, s.ph j = .setStore l v todo := by
      apply Classical.byContradiction
      intro hne
      exact hn (fun j l v todo hj => hne ⟨j, l, v, todo, hj⟩)
    obtain ⟨j, l, v, todo, hj⟩ := hex
    exact (h.mid j l v todo hj).bounded

/-- while thread `i` owns the mutex and is not itself in the store loop, nobody is -/
theorem DInv.noStore_of_holder {root : Level} {s : Sys} (h : DInv root s) {i : Tid}
    (hh : (s.ph i).holds = true) (hi : ∀ l v todo, s.ph i ≠ .setStore l v todo) : NoStore s := by
  intro j l v todo hj
  have h1 := (h.excl i).mp hh
  have h2 := (h.excl j).mp (by rw [hj]; rfl)
  rw [h1] at h2
  have : i = j := by simpa using h2
  subst this
  exact hi l v todo hj

theorem DInv.init {root : Level} (hr : Level.Valid root) : DInv root (Sys.init root) := by
  refine ⟨Excl.init root, fun _ => Inv.init hr, ?_, ?_, ?_, ?_, ?_⟩ <;> simp [Sys.init]

/-- phases of threads other than `i` are untouched; used to transfer the per-thread clauses -/
theorem DInv.step {root : Level} {s s' : Sys} {i : Tid} {acc : List Access} (h : DInv root s) (st : Step s i acc s') :
    DInv root s' := by
  have hex := h.excl.step st
  -- a step that changes neither tree nor history and moves thread `i` between phases that are not store phases
  have keep : ∀ (ph' : Phase) (ob : Tid → List Loc),
      (∀ l v todo, s.ph i ≠ .setStore l v todo) → (∀ l v todo, ph' ≠ .setStore l v todo) →
      (∀ l v, (ph' = .wantLock (.set l v) ∨ ph' = .setFind l v) → Level.Valid v) →
      (∀ l, (ph' = .format l ∨ ph' = .unlock (.format l)) → (lvlAt s.tree l).isSome = true) →
      (∀ j p, p ∈ ob j → (lvlAt s.tree p).isSome = true) →
      ∀ hd, Excl { s with holder := hd, ph := upd s.ph i ph', objs := ob } →
      DInv root { s with holder := hd, ph := upd s.ph i ph', objs := ob } := by
    intro ph' ob hold hnew hval hfmt hobj hd hexcl
    refine ⟨hexcl, ?_, ?_, ?_, hobj, ?_, h.doneValid⟩
    · intro hn
      apply h.quiet
      intro j l v todo hj
      by_cases hji : j = i
      · subst hji; exact hold l v todo hj
      · exact hn j l v todo (by simpa [upd_other _ _ hji] using hj)
    · intro j l v todo hj
      by_cases hji : j = i
      · subst hji; simp only [upd_same] at hj; exact absurd hj (hnew l v todo)
      · simp only [upd_other _ _ hji] at hj; exact h.mid j l v todo hj
    · intro j l v hj
      by_cases hji : j = i
      · subst hji; simp only [upd_same] at hj; exact hval l v hj
      · simp only [upd_other _ _ hji] at hj; exact h.valid j l v hj
    · intro j l hj
      by_cases hji : j = i
      · subst hji; simp only [upd_same] at hj; exact hfmt l hj
      · simp only [upd_other _ _ hji] at hj; exact h.fmtp j l hj
  cases st with
  | call c hi hv =>
    refine keep (.wantLock c) s.objs (by simp [hi]) (by simp) ?_ (by simp) h.objs s.holder hex
    intro l v hc
    rcases hc with hc | hc
    · injection hc with hc; exact hv l v hc
    · simp at hc
  | acquire c hi hfree =>
    refine keep c.locked s.objs (by simp [hi]) (by cases c <;> simp [Call.locked]) ?_ (by cases c <;> simp [Call.locked]) h.objs (some i) hex
    intro l v hc
    cases c with
    | set l' v' =>
      simp [Call.locked] at hc
      obtain ⟨h1, h2⟩ := hc
      subst h1 h2
      exact h.valid i _ _ (Or.inl hi)
    | get l' => simp [Call.locked] at hc
    | create l' => simp [Call.locked] at hc
  | getRead l hi =>
    exact keep (.unlock .idle) s.objs (by simp [hi]) (by simp) (by simp) (by simp) h.objs s.holder hex
  | unlock after hi hna =>
    refine keep after s.objs (by simp [hi]) ?_ ?_ ?_ h.objs none hex
    · intro l v todo ha; rw [ha] at hna; simp at hna
    · intro l v ha
      rcases ha with ha | ha <;> (rw [ha] at hna; simp at hna)
    · intro l ha
      rcases ha with ha | ha
      · exact h.fmtp i l (Or.inr (by rw [hi, ha]))
      · rw [ha] at hna; simp at hna
  | format l hi =>
    refine keep .idle (upd s.objs i (s.objs i ++ [l])) (by simp [hi]) (by simp) (by simp) (by simp) ?_ s.holder hex
    intro j p hp
    by_cases hji : j = i
    · subst hji
      simp only [upd_same, List.mem_append, List.mem_singleton] at hp
      rcases hp with hp | rfl
      · exact h.objs j p hp
      · exact h.fmtp j p (Or.inl hi)
    · simp only [upd_other _ _ hji] at hp; exact h.objs j p hp
  | load p val hi ho hl => exact h
  | createFind l hi =>
    have hns : NoStore s := h.noStore_of_holder (i := i) (by rw [hi]; rfl) (by simp [hi])
    have hinv := h.quiet hns
    have hb := hinv.bounded
    refine ⟨hex, fun _ => hinv.ensure l, ?_, ?_, ?_, ?_, h.doneValid⟩
    · intro j l' v todo hj
      by_cases hji : j = i
      · subst hji; simp [upd_same] at hj
      · simp only [upd_other _ _ hji] at hj; exact absurd hj (hns j l' v todo)
    · intro j l' v hj
      by_cases hji : j = i
      · subst hji; simp [upd_same] at hj
      · simp only [upd_other _ _ hji] at hj; exact h.valid j l' v hj
    · intro j p hp; exact isSome_lvlAt_ensure hb l p (h.objs j p hp)
    · intro j l' hj
      by_cases hji : j = i
      · subst hji
        simp only [upd_same] at hj
        rcases hj with hj | hj
        · simp at hj
        · injection hj with hj; injection hj with hj; subst hj
          exact isSome_lvlAt_ensure_self hb l
      · simp only [upd_other _ _ hji] at hj
        exact isSome_lvlAt_ensure hb l l' (h.fmtp j l' hj)
  | setFind l v hi =>
    have hns : NoStore s := h.noStore_of_holder (i := i) (by rw [hi]; rfl) (by simp [hi])
    have hinv := h.quiet hns
    have hb := hinv.bounded
    have hinv' := hinv.ensure l
    have hval : Level.Valid v := h.valid i l v (Or.inr hi)
    refine ⟨hex, ?_, ?_, ?_, ?_, ?_, h.doneValid⟩
    · intro hn; exact absurd (by simp [upd_same]) (hn i l v (todoOf (ensure s.tree l) l))
    · intro j l' v' todo hj
      by_cases hji : j = i
      · subst hji
        simp only [upd_same] at hj
        injection hj with h1 h2 h3
        subst h1 h2 h3
        refine ⟨hinv'.bounded, hval, ?_, todoOf_sub _ _, ?_, ?_⟩
        · intro s' hs'
          simp only [List.mem_append, List.mem_singleton] at hs'
          rcases hs' with hs' | rfl
          · exact hinv'.targets s' hs'
          · exact isSome_lvlAt_ensure_self hb l
        · intro P x hP; exact Or.inl (hinv'.level P x hP)
        · intro P x hP hpre hnot
          exact absurd (mem_todoOf _ _ _ hpre (by simp [hP])) hnot
      · simp only [upd_other _ _ hji] at hj; exact absurd hj (hns j l' v' todo)
    · intro j l' v' hj
      by_cases hji : j = i
      · subst hji; simp [upd_same] at hj
      · simp only [upd_other _ _ hji] at hj; exact h.valid j l' v' hj
    · intro j p hp; exact isSome_lvlAt_ensure hb l p (h.objs j p hp)
    · intro j l' hj
      by_cases hji : j = i
      · subst hji; simp [upd_same] at hj
      · simp only [upd_other _ _ hji] at hj
        exact isSome_lvlAt_ensure hb l l' (h.fmtp j l' hj)
  | setStore l v q todo hi =>
    have hm := h.mid i l v (q :: todo) hi
    have others : ∀ j, j ≠ i → ∀ l' v' todo', s.ph j ≠ .setStore l' v' todo' := by
      intro j hji l' v' todo' hj
      have h1 := (h.excl i).mp (by rw [hi]; rfl)
      have h2 := (h.excl j).mp (by rw [hj]; rfl)
      rw [h1] at h2
      exact hji (by simpa using h2.symm)
    refine ⟨hex, ?_, ?_, ?_, ?_, ?_, h.doneValid⟩
    · intro hn; exact absurd (by simp [upd_same]) (hn i l v todo)
    · intro j l' v' todo' hj
      by_cases hji : j = i
      · subst hji
        simp only [upd_same] at hj
        injection hj with h1 h2 h3
        subst h1 h2 h3
        refine ⟨?_, hm.valid, ?_, fun q' hq' => hm.sub q' (by simp [hq']), ?_, ?_⟩
        · intro P x hP
          rw [lvlAt_storeAt] at hP
          split at hP
          · cases hl : lvlAt s.tree P with
            | none => simp [hl] at hP
            | some y => simp [hl] at hP; subst hP; exact convertLevel_le hm.valid
          · exact hm.bounded P x hP
        · intro s' hs'; rw [isSome_lvlAt_storeAt]; exact hm.targets s' hs'
        · intro P x hP
          rw [lvlAt_storeAt] at hP
          split at hP
          · rename_i hPq
            cases hl : lvlAt s.tree P with
            | none => simp [hl] at hP
            | some y =>
              simp [hl] at hP; subst hP
              exact Or.inr ⟨hPq ▸ hm.sub q (by simp), rfl⟩
          · exact hm.level P x hP
        · intro P x hP hpre hnot
          rw [lvlAt_storeAt] at hP
          split at hP
          · cases hl : lvlAt s.tree P with
            | none => simp [hl] at hP
            | some y => simp [hl] at hP; exact hP.symm
          · rename_i hPq
            exact hm.stored P x hP hpre (by simp [hPq, hnot])
      · simp only [upd_other _ _ hji] at hj; exact absurd hj (others j hji l' v' todo')
    · intro j l' v' hj
      by_cases hji : j = i
      · subst hji; simp [upd_same] at hj
      · simp only [upd_other _ _ hji] at hj; exact h.valid j l' v' hj
    · intro j p hp; rw [isSome_lvlAt_storeAt]; exact h.objs j p hp
    · intro j l' hj
      by_cases hji : j = i
      · subst hji; simp [upd_same] at hj
      · simp only [upd_other _ _ hji] at hj
        rw [isSome_lvlAt_storeAt]; exact h.fmtp j l' hj
  | setDone l v hi =>
    have hm := h.mid i l v [] hi
    have others : ∀ j, j ≠ i → ∀ l' v' todo', s.ph j ≠ .setStore l' v' todo' := by
      intro j hji l' v' todo' hj
      have h1 := (h.excl i).mp (by rw [hi]; rfl)
      have h2 := (h.excl j).mp (by rw [hj]; rfl)
      rw [h1] at h2
      exact hji (by simpa using h2.symm)
    refine ⟨hex, ?_, ?_, ?_, h.objs, ?_, ?_⟩
    rotate_right
    · intro s' hs'
      simp only [List.mem_append, List.mem_singleton] at hs'
      rcases hs' with hs' | rfl
      · exact h.doneValid s' hs'
      · exact hm.valid
    · intro _
      refine ⟨hm.bounded, ?_, hm.targets⟩
      intro P x hP
      rw [levelOf_append]
      by_cases hpre : l.isPrefixOf P = true
      · simp only [hpre, if_true]; exact hm.stored P x hP hpre (by simp)
      · simp only [hpre]
        rcases hm.level P x hP with h1 | ⟨h1, _⟩
        · simpa using h1
        · exact absurd h1 hpre
    · intro j l' v' todo' hj
      by_cases hji : j = i
      · subst hji; simp [upd_same] at hj
      · simp only [upd_other _ _ hji] at hj; exact absurd hj (others j hji l' v' todo')
    · intro j l' v' hj
      by_cases hji : j = i
      · subst hji; simp [upd_same] at hj
      · simp only [upd_other _ _ hji] at hj; exact h.valid j l' v' hj
    · intro j l' hj
      by_cases hji : j = i
      · subst hji; simp [upd_same] at hj
      · simp only [upd_other _ _ hji] at hj; exact h.fmtp j l' hj

theorem DInv.of_reachable {root : Level} (hr : Level.Valid root) {s : Sys} (h : Reachable root s) : DInv root s := by
  induction h with
  | init => exact DInv.init hr
  | step _ st ih => exact ih.step st

end Fcppt.C19.Conc
