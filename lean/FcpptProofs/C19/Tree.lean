import FcpptModel.Spec.C19
/-! Lemmas about the context tree: what `ensure`, `updateAt`, `setAll` do to the partial map
`lvlAt t : Loc → Option Nat` (existence and stored level of the node at a location). -/
namespace Fcppt.C19

@[simp] theorem Tree.name_node (n l ks) : (Tree.node n l ks).name = n := rfl
@[simp] theorem Tree.lvl_node (n l ks) : (Tree.node n l ks).lvl = l := rfl
@[simp] theorem Tree.kids_node (n l ks) : (Tree.node n l ks).kids = ks := rfl

theorem findChild_nil (x : String) : findChild [] x = none := rfl

theorem findChild_cons (c : Tree) (cs : List Tree) (x : String) :
    findChild (c :: cs) x = if c.name = x then some c else findChild cs x := by
  unfold findChild
  rw [List.find?_cons]
  by_cases h : c.name = x
  · simp [h]
  · have hb : (c.name == x) = false := by simpa using h
    simp [hb, h]

theorem findChild_name {ks : List Tree} {x : String} {c : Tree} (h : findChild ks x = some c) : c.name = x := by
  unfold findChild at h
  have := List.find?_some h
  simpa using this

theorem findChild_modifyFirst_same (ks : List Tree) (x : String) (f : Tree → Tree)
    (hf : ∀ c, (f c).name = c.name) :
    findChild (modifyFirst ks x f) x = (findChild ks x).map f := by
  induction ks with
  | nil => rfl
  | cons c cs ih =>
    unfold modifyFirst
    by_cases h : c.name = x
    · simp [h, findChild_cons, hf]
    · simp [h, findChild_cons, ih]

theorem findChild_modifyFirst_other (ks : List Tree) (x y : String) (f : Tree → Tree)
    (hf : ∀ c, (f c).name = c.name) (hxy : y ≠ x) :
    findChild (modifyFirst ks x f) y = findChild ks y := by
  induction ks with
  | nil => rfl
  | cons c cs ih =>
    unfold modifyFirst
    by_cases h : c.name = x
    · have hxy' : ¬ x = y := fun e => hxy e.symm
      simp [h, findChild_cons, hf, hxy']
    · simp [h, findChild_cons, ih]

theorem findChild_append_one (ks : List Tree) (c : Tree) (y : String) :
    findChild (ks ++ [c]) y = match findChild ks y with
      | some d => some d
      | none => if c.name = y then some c else none := by
  induction ks with
  | nil => simp [findChild_cons, findChild_nil]
  | cons d ds ih =>
    simp only [List.cons_append, findChild_cons]
    by_cases h : d.name = y
    · simp [h]
    · simp [h, ih]

theorem lvlAt_nil (t : Tree) : lvlAt t [] = some t.lvl := rfl

theorem lvlAt_cons (t : Tree) (y : String) (ys : Loc) :
    lvlAt t (y :: ys) = (findChild t.kids y).bind (fun c => lvlAt c ys) := by
  unfold lvlAt
  simp only [nodeAt]
  cases findChild t.kids y <;> simp

theorem getInt_nil (t : Tree) : getInt t [] = t.lvl := by simp [getInt]

theorem getInt_cons (t : Tree) (x : String) (xs : Loc) :
    getInt t (x :: xs) = match findChild t.kids x with
      | none => t.lvl
      | some c => getInt c xs := by
  cases h : findChild t.kids x <;> simp [getInt, h]


/-! ### names are never changed -/

theorem ensure_name (t : Tree) (L : Loc) : (ensure t L).name = t.name := by
  cases L with
  | nil => cases t; rfl
  | cons x xs =>
    obtain ⟨n, l, ks⟩ := t
    simp only [ensure]
    cases findChild ks x <;> rfl

theorem updateAt_name (t : Tree) (L : Loc) (f : Tree → Tree) (hf : ∀ c, (f c).name = c.name) :
    (updateAt t L f).name = t.name := by
  cases L with
  | nil => cases t; simp [updateAt, hf]
  | cons x xs => obtain ⟨n, l, ks⟩ := t; simp [updateAt]

theorem setAll_node (v : Nat) (n : String) (l : Nat) (ks : List Tree) :
    setAll v (.node n l ks) = .node n v (ks.map (setAll v)) := by
  simp [setAll]

theorem setAll_name (v : Nat) (t : Tree) : (setAll v t).name = t.name := by
  obtain ⟨n, l, ks⟩ := t
  rw [setAll_node]; rfl

/-! ### all stored levels are at most `levelCount` (what `convert_level` produces) -/

def Bounded (t : Tree) : Prop := ∀ P l, lvlAt t P = some l → l ≤ levelCount

theorem Bounded.child {t : Tree} (hb : Bounded t) {x : String} {c : Tree} (h : findChild t.kids x = some c) :
    Bounded c := by
  intro P l hl
  apply hb (x :: P) l
  rw [lvlAt_cons, h]; exact hl

theorem convert_fromInt {l : Nat} (h : l ≤ levelCount) : convertLevel (fromInt l) = l := by
  unfold fromInt
  by_cases h' : l < levelCount
  · simp [h', convertLevel]
  · simp [h', convertLevel]; omega

theorem lvlAt_leaf (n : String) (l : Nat) (P : Loc) :
    lvlAt (.node n l []) P = if P = [] then some l else none := by
  cases P with
  | nil => rfl
  | cons y ys => simp [lvlAt_cons, findChild_nil]

theorem getInt_leaf (n : String) (l : Nat) (P : Loc) : getInt (.node n l []) P = l := by
  cases P with
  | nil => rfl
  | cons y ys => simp [getInt_cons, findChild_nil]

theorem bounded_leaf (n : String) {l : Nat} (h : l ≤ levelCount) : Bounded (.node n l []) := by
  intro P l' hl
  rw [lvlAt_leaf] at hl
  split at hl <;> simp_all

/-- the level of an existing node is what `get` reports for it -/
theorem getInt_of_lvlAt {t : Tree} {P : Loc} {l : Nat} (h : lvlAt t P = some l) : getInt t P = l := by
  induction P generalizing t with
  | nil => simpa [lvlAt_nil, getInt_nil] using h
  | cons y ys ih =>
    rw [lvlAt_cons] at h
    rw [getInt_cons]
    cases hc : findChild t.kids y with
    | none => simp [hc] at h
    | some c => simp [hc] at h ⊢; exact ih h

/-- **`find_location_impl`**: existing nodes keep their level; the missing nodes on the path are created
with the level `get` reports for them (that of the deepest existing ancestor). -/
theorem lvlAt_ensure (t : Tree) (L P : Loc) (hb : Bounded t) :
    lvlAt (ensure t L) P = if P.isPrefixOf L then some (getInt t P) else lvlAt t P := by
  induction L generalizing t P with
  | nil =>
    cases P with
    | nil => simp [ensure, lvlAt_nil, getInt_nil]
    | cons y ys => simp [ensure]
  | cons x xs ih =>
    obtain ⟨n, l, ks⟩ := t
    cases P with
    | nil =>
      simp only [ensure]
      cases findChild ks x <;> simp [lvlAt_nil, getInt_nil]
    | cons y ys =>
      have hname : ∀ c : Tree, (ensure c xs).name = c.name := fun c => ensure_name c xs
      simp only [ensure]
      cases hc : findChild ks x with
      | some c =>
        simp only [lvlAt_cons, Tree.kids_node, getInt_cons]
        by_cases hyx : y = x
        · subst hyx
          rw [findChild_modifyFirst_same _ _ _ hname, hc]
          simp only [Option.map_some, Option.bind_some]
          rw [ih c ys (hb.child (t := .node n l ks) hc)]
          simp
        · rw [findChild_modifyFirst_other _ _ _ _ hname hyx]
          simp [hyx]
      | none =>
        simp only [lvlAt_cons, Tree.kids_node, getInt_cons, findChild_append_one]
        by_cases hyx : y = x
        · subst hyx
          have hl : l ≤ levelCount := hb [] l rfl
          simp only [hc, ensure_name, newChild, Tree.name_node, if_true, Option.bind_some]
          rw [ih _ ys (bounded_leaf _ (by rw [convert_fromInt hl]; exact hl))]
          simp [getInt_leaf, lvlAt_leaf, convert_fromInt hl]
          by_cases h2 : ys = []
          · subst h2; simp
          · simp [h2]
        · have hxy : ¬ x = y := fun e => hyx e.symm
          cases hd : findChild ks y <;> simp [hyx, hxy, ensure_name, newChild]


theorem findChild_map_setAll (v : Nat) (ks : List Tree) (y : String) :
    findChild (ks.map (setAll v)) y = (findChild ks y).map (setAll v) := by
  induction ks with
  | nil => rfl
  | cons c cs ih => simp only [List.map_cons, findChild_cons, setAll_name]; split <;> simp [ih]

/-- **pre-order update**: every node of the subtree gets the new level, no node appears or disappears -/
theorem lvlAt_setAll (v : Nat) (t : Tree) (P : Loc) : lvlAt (setAll v t) P = (lvlAt t P).map (fun _ => v) := by
  induction P generalizing t with
  | nil => obtain ⟨n, l, ks⟩ := t; rw [setAll_node]; rfl
  | cons y ys ih =>
    obtain ⟨n, l, ks⟩ := t
    rw [setAll_node]
    simp only [lvlAt_cons, Tree.kids_node, findChild_map_setAll]
    cases findChild ks y <;> simp [ih]

/-- update through a reference: only locations below `L` are affected -/
theorem lvlAt_updateAt_setAll (v : Nat) (t : Tree) (L P : Loc) :
    lvlAt (updateAt t L (setAll v)) P = if L.isPrefixOf P then (lvlAt t P).map (fun _ => v) else lvlAt t P := by
  induction L generalizing t P with
  | nil => simp [updateAt, lvlAt_setAll]
  | cons x xs ih =>
    obtain ⟨n, l, ks⟩ := t
    have hname : ∀ c : Tree, (updateAt c xs (setAll v)).name = c.name :=
      fun c => updateAt_name c xs _ (setAll_name v)
    cases P with
    | nil => simp [updateAt, lvlAt_nil]
    | cons y ys =>
      simp only [updateAt, lvlAt_cons, Tree.kids_node]
      by_cases hyx : y = x
      · subst hyx
        rw [findChild_modifyFirst_same _ _ _ hname]
        cases hc : findChild ks y with
        | none => simp
        | some c => simp [ih c ys]
      · have hxy : ¬ x = y := fun e => hyx e.symm
        rw [findChild_modifyFirst_other _ _ _ _ hname hyx]
        simp [hxy]

/-- `get` reports the level of the deepest existing node on the path; every existing prefix of the
path is a prefix of that node's location -/
theorem getInt_deepest (t : Tree) (loc : Loc) :
    ∃ Q : Loc, Q.isPrefixOf loc = true ∧ lvlAt t Q = some (getInt t loc) ∧
      ∀ Q' : Loc, Q'.isPrefixOf loc = true → (lvlAt t Q').isSome = true → Q'.isPrefixOf Q = true := by
  induction loc generalizing t with
  | nil =>
    refine ⟨[], by simp, by simp [lvlAt_nil, getInt_nil], ?_⟩
    intro Q' h _; simpa using h
  | cons x xs ih =>
    rw [getInt_cons]
    cases hc : findChild t.kids x with
    | none =>
      refine ⟨[], by simp, by simp [lvlAt_nil], ?_⟩
      intro Q' h1 h2
      cases Q' with
      | nil => simp
      | cons y q =>
        simp at h1
        obtain ⟨rfl, _⟩ := h1
        simp [lvlAt_cons, hc] at h2
    | some c =>
      obtain ⟨Q, hq1, hq2, hq3⟩ := ih c
      refine ⟨x :: Q, by simpa using hq1, by simpa [lvlAt_cons, hc] using hq2, ?_⟩
      intro Q' h1 h2
      cases Q' with
      | nil => simp
      | cons y q =>
        simp at h1
        obtain ⟨rfl, h1⟩ := h1
        simp [lvlAt_cons, hc] at h2
        simpa using hq3 q (by simpa using h1) h2

end Fcppt.C19
