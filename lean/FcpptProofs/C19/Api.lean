import FcpptModel.Spec.C19
import FcpptProofs.C19.Hist
/-! Lemmas about the parts of libs/log outside the context tree: locations, level names, formatter algebra. -/
namespace Fcppt.C19

theorem setsOf_append (a b : List Op) : setsOf (a ++ b) = setsOf a ++ setsOf b := by
  induction a with
  | nil => simp [setsOf]
  | cons op ops ih => rw [List.cons_append, setsOf_cons, setsOf_cons op ops, ih, List.append_assoc]

theorem levelFromString_levelName' (l : Nat) (h : l < levelCount) : levelFromString (levelName l) = some l := by
  have : l = 0 ∨ l = 1 ∨ l = 2 ∨ l = 3 ∨ l = 4 ∨ l = 5 := by unfold levelCount at h; omega
  rcases this with rfl | rfl | rfl | rfl | rfl | rfl <;> decide

theorem levelFromString_some' (s : String) (l : Nat) (h : levelFromString s = some l) : l < levelCount ∧ levelName l = s := by
  unfold levelFromString at h
  simp only at h
  split at h
  · rename_i hlt
    injection h with h
    subst h
    refine ⟨by simpa [levelNames] using hlt, ?_⟩
    have := List.findIdx_getElem (w := hlt)
    simp only [levelNames, List.getElem_map, List.getElem_range, beq_iff_eq] at this
    exact this
  · cases h

/-- the fold of `location::string` with an arbitrary start text -/
theorem locString_foldl (l : Loc) (st : String) :
    l.foldl (fun st e => e ++ "::" ++ st) st = l.foldl (fun st e => e ++ "::" ++ st) "" ++ st := by
  induction l generalizing st with
  | nil => simp
  | cons x xs ih =>
    simp only [List.foldl_cons]
    rw [ih (x ++ "::" ++ st), ih (x ++ "::" ++ "")]
    simp [String.append_assoc]

theorem chain_isSome (a b : OptFn) : (chain a b).isSome = (a.isSome || b.isSome) := by
  cases a <;> cases b <;> rfl

end Fcppt.C19
