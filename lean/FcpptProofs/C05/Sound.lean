import FcpptProofs.C05.Registry
import FcpptProofs.C05.Step
import FcpptModel.Spec.C05
set_option linter.unusedSimpArgs false
set_option linter.unusedVariables false
/-!
# C05 lemmas — a safe program run on well-formed arguments satisfies every conservation predicate
-/
namespace Fcppt.C05

/-- the observation of running program `p` on the arguments of `inp` -/
def runOn (inp : Input) (p : List Instr) : Outcome :=
  observe (inp.args.map (·.1)) (inp.args.map (·.2)) (run p (St.init (inp.args.map (·.2))))

theorem outcome_eq (o : Op) (inp : Input) : outcome o inp = runOn inp (prog o inp) := rfl

/-! ## identities -/

theorem ids_lt (inp : Input) (h : idsOk inp = true) (x : Nat) (hx : x ∈ allIds inp) : x < 100 := by
  simp only [idsOk, Bool.and_eq_true, List.all_eq_true, decide_eq_true_eq] at h
  exact h.2 x hx

theorem ids_nodup (inp : Input) (h : idsOk inp = true) : (allIds inp).Nodup := by
  simp only [idsOk, Bool.and_eq_true, decide_eq_true_eq] at h
  exact h.1

theorem mem_allIds (inp : Input) (a : Nat) (x : Nat) (h : x ∈ inp.ids a) : x ∈ allIds inp := by
  unfold Input.ids at h
  cases ha : inp.args[a]? with
  | none => simp [ha] at h
  | some u =>
    simp only [ha] at h
    exact List.mem_flatMap.2 ⟨u, List.mem_of_getElem? ha, h⟩

theorem count_two (l : List (Cat × List Nat)) (a a' : Nat) (h : a ≠ a') (u v : Cat × List Nat)
    (hu : l[a]? = some u) (hv : l[a']? = some v) (x : Nat) (hxu : x ∈ u.2) (hxv : x ∈ v.2) :
    2 ≤ (l.flatMap (·.2)).count x := by
  induction l generalizing a a' with
  | nil => simp at hu
  | cons y ys ih =>
    simp only [List.flatMap_cons, List.count_append]
    cases a with
    | zero =>
      cases a' with
      | zero => exact absurd rfl h
      | succ a' =>
        simp at hu hv; subst hu
        have h1 : 1 ≤ y.2.count x := List.count_pos_iff.2 hxu
        have h2 : 1 ≤ (ys.flatMap (·.2)).count x :=
          List.count_pos_iff.2 (List.mem_flatMap.2 ⟨v, List.mem_of_getElem? hv, hxv⟩)
        omega
    | succ a =>
      cases a' with
      | zero =>
        simp at hu hv; subst hv
        have h1 : 1 ≤ y.2.count x := List.count_pos_iff.2 hxv
        have h2 : 1 ≤ (ys.flatMap (·.2)).count x :=
          List.count_pos_iff.2 (List.mem_flatMap.2 ⟨u, List.mem_of_getElem? hu, hxu⟩)
        omega
      | succ a' =>
        simp at hu hv
        have := ih a a' (fun e => h (by rw [e])) hu hv
        omega

theorem ids_disjoint (inp : Input) (h : idsOk inp = true) (a a' : Nat) (hne : a ≠ a') (x : Nat)
    (hx : x ∈ inp.ids a) (hx' : x ∈ inp.ids a') : False := by
  unfold Input.ids at hx hx'
  cases ha : inp.args[a]? with
  | none => simp [ha] at hx
  | some u =>
    cases ha' : inp.args[a']? with
    | none => simp [ha'] at hx'
    | some v =>
      simp only [ha] at hx
      simp only [ha'] at hx'
      have h2 := count_two inp.args a a' hne u v ha ha' x hx hx'
      have h1 := List.nodup_iff_count.1 (ids_nodup inp h) x
      unfold allIds at h1
      omega

/-! ## the initial state -/

theorem init_args (inp : Input) (a : Nat) :
    (St.init (inp.args.map (·.2))).args[a]? = (inp.args[a]?).map fun u => mkArg u.2 := by
  simp only [St.init, List.map_map, List.getElem?_map]
  cases inp.args[a]? <;> rfl

theorem init_arg_of_cat (inp : Input) (a : Nat) (c : Cat) (h : inp.cat a = some c) :
    (St.init (inp.args.map (·.2))).args[a]? = some (mkArg (inp.ids a)) := by
  rw [init_args]
  unfold Input.cat at h
  unfold Input.ids
  cases ha : inp.args[a]? with
  | none => simp [ha] at h
  | some u => simp

theorem mem_mkArg (ids : List Nat) (s : Slot) (h : s ∈ mkArg ids) : s.id ∈ ids ∧ s.st = .live ∧ s.orig = true := by
  simp only [mkArg, List.mem_map] at h
  obtain ⟨x, hx, rfl⟩ := h
  exact ⟨hx, rfl, rfl⟩

theorem countP_mkArg_live (x : Nat) (ids : List Nat) : (mkArg ids).countP (isLiveId x) = ids.count x := by
  induction ids with
  | nil => rfl
  | cons y ys ih =>
    simp only [mkArg, List.map_cons, List.countP_cons, List.count_cons] at ih ⊢
    rw [ih]
    simp [isLiveId, Slot.isLive]

theorem countP_mkArg_orig (x : Nat) (ids : List Nat) : (mkArg ids).countP (isOrigId x) = ids.count x := by
  induction ids with
  | nil => rfl
  | cons y ys ih =>
    simp only [mkArg, List.map_cons, List.countP_cons, List.count_cons] at ih ⊢
    rw [ih]
    simp [isOrigId, Slot.isLive]

theorem argsCnt_init (f : Slot → Bool) (g : List Nat → Nat) (hf : ∀ ids, (mkArg ids).countP f = g ids)
    (args : List (List Nat)) : argsCnt f (args.map mkArg) = (args.map g).sum := by
  induction args with
  | nil => rfl
  | cons y ys ih =>
    simp only [argsCnt, List.map_cons, List.sum_cons] at ih ⊢
    rw [ih, hf]

theorem init_phi (inp : Input) (x : Nat) : (St.init (inp.args.map (·.2))).phi x = (allIds inp).count x := by
  simp only [St.phi, St.live, St.init, List.countP_nil, List.count_nil, Nat.add_zero]
  rw [argsCnt_init _ (·.count x) (countP_mkArg_live x)]
  simp [allIds, List.count_flatMap, Function.comp_def]

theorem init_liveOrig (inp : Input) (x : Nat) : (St.init (inp.args.map (·.2))).liveOrig x = (allIds inp).count x := by
  simp only [St.liveOrig, St.init]
  rw [argsCnt_init _ (·.count x) (countP_mkArg_orig x)]
  simp [allIds, List.count_flatMap, Function.comp_def]

theorem count_allIds (inp : Input) (h : idsOk inp = true) (x : Nat) (hx : x ∈ allIds inp) : (allIds inp).count x = 1 := by
  have h1 := List.nodup_iff_count.1 (ids_nodup inp h) x
  have h2 : 1 ≤ (allIds inp).count x := List.count_pos_iff.2 hx
  omega

/-! ## observation -/

theorem runOn_catOf (inp : Input) (p : List Instr) (a : Nat) : (runOn inp p).catOf a = inp.cat a := by
  simp [runOn, observe, Outcome.catOf, Input.cat]

theorem runOn_insOf (inp : Input) (p : List Instr) (a : Nat) : (runOn inp p).insOf a = inp.ids a := by
  simp only [runOn, observe, Outcome.insOf, Input.ids, List.getElem?_map]
  cases inp.args[a]? <;> rfl

theorem runOn_inputs (inp : Input) (p : List Instr) : (runOn inp p).inputs = allIds inp := by
  simp [runOn, observe, Outcome.inputs, allIds, List.flatMap_def]

theorem countP_present_obs (x : Nat) (l : List Slot) :
    ((present l).map fun s => (s.id, s.isLive)).countP (fun s => s.2 && s.1 == x) = l.countP (isLiveId x) := by
  rw [List.countP_map]
  have : ((fun s : Nat × Bool => s.2 && s.1 == x) ∘ fun s : Slot => (s.id, s.isLive)) = isLiveId x := by
    funext s; rfl
  rw [this]
  exact countP_filter_present _ (isLiveId_ne_gone x) l

theorem runOn_liveCount (inp : Input) (p : List Instr) (x : Nat) :
    (runOn inp p).liveCount x = (run p (St.init (inp.args.map (·.2)))).live x := by
  simp only [runOn, observe, Outcome.liveCount, St.live, argsCnt, List.map_map]
  rw [countP_present_obs]
  congr 2
  apply List.map_congr_left
  intro l _
  exact countP_present_obs x l

/-! ## soundness of safe programs -/

variable {inp : Input} {p : List Instr}

theorem safe_fresh (hs : Safe inp p) : ∀ ins ∈ p, ∀ v, ins.freshId = some v → 100 ≤ v :=
  fun ins hi => (hs.ok ins hi).fresh

/-- nothing is read after a move, nothing outside the arguments is accessed -/
theorem safe_quiet (hs : Safe inp p) :
    (run p (St.init (inp.args.map (·.2)))).ram = [] ∧ (run p (St.init (inp.args.map (·.2)))).oob = [] := by
  have hsz : ∀ a, (match (inp.args.map (·.2))[a]? with | some l => l.length | none => 0) = inp.size a := by
    intro a
    simp only [Input.size, Input.ids, List.getElem?_map]
    cases inp.args[a]? <;> rfl
  refine run_alive p (alive_init _) hs.clean ?_ ?_
  · intro x hx a i hu
    have hb := (hs.ok x hx).bounds a i hu
    rw [← hsz a] at hb
    exact ⟨hb, fun h => h⟩
  · intro x hx a hn
    simpa using (hs.ok x hx).exists_ a hn

theorem safe_cp (hs : Safe inp p) :
    ∀ y ∈ (run p (St.init (inp.args.map (·.2)))).cp, ∃ a, IsLvCr (inp.cat a) ∧ y ∈ inp.ids a := by
  intro y hy
  rcases run_cp inp.cat p _ (fun x hx => (hs.ok x hx).copies) (fun x hx => (hs.ok x hx).writes) y hy with h | ⟨a, l, s, ha, hl, hs', hid⟩
  · cases h
  · refine ⟨a, ha, ?_⟩
    obtain ⟨c, hc⟩ : ∃ c, inp.cat a = some c := by
      rcases ha with h | h <;> exact ⟨_, h⟩
    rw [init_arg_of_cat inp a c hc] at hl
    cases hl
    rw [← hid]; exact (mem_mkArg _ _ hs').1

theorem safe_noCopyOfRvalue (hi : idsOk inp = true) (hs : Safe inp p) : (runOn inp p).NoCopyOfRvalue := by
  intro a ha x hx hcp
  rw [runOn_catOf] at ha
  rw [runOn_insOf] at hx
  obtain ⟨b, hb, hxb⟩ := safe_cp hs x hcp
  have hne : a ≠ b := by
    rintro rfl
    rw [ha] at hb
    rcases hb with h | h <;> cases h
  exact ids_disjoint inp hi a b hne x hx hxb

theorem safe_movedAtMostOnce (hi : idsOk inp = true) (hs : Safe inp p) : (runOn inp p).MovedAtMostOnce := by
  intro x hx
  rw [runOn_inputs] at hx
  have hd := (run_ineq x (ids_lt inp hi x hx) p (safe_fresh hs) (St.init (inp.args.map (·.2)))).d
  rw [(safe_quiet hs).1, init_liveOrig, count_allIds inp hi x hx] at hd
  have h0 : (St.init (inp.args.map (·.2))).mv.count x = 0 := rfl
  have h1 : (St.init (inp.args.map (·.2))).ram.count x = 0 := rfl
  show (run p (St.init (inp.args.map (·.2)))).mv.count x ≤ 1
  simp only [List.count_nil] at hd
  omega

theorem safe_noReadAfterMove (hs : Safe inp p) : (runOn inp p).NoReadAfterMove := (safe_quiet hs).1

theorem safe_lvalueUnchanged (hs : Safe inp p) : (runOn inp p).LvalueUnchanged := by
  intro a c hc hlv
  rw [runOn_catOf] at hc
  rw [runOn_insOf]
  have hun := run_args_untouched p (St.init (inp.args.map (·.2))) a
    (fun x hx hw => (hs.ok x hx).writes a hw (by rw [hc]; rcases hlv with rfl | rfl; exact Or.inl rfl; exact Or.inr rfl))
  rw [init_arg_of_cat inp a c hc] at hun
  simp only [runOn, observe, List.getElem?_map, hun, Option.map_some]
  congr 1
  simp [present, mkArg, Slot.isLive, List.filter_eq_self.2]

theorem safe_atMostOnce (hi : idsOk inp = true) (hs : Safe inp p) : (runOn inp p).AtMostOnce := by
  intro x hx
  rw [runOn_inputs] at hx
  have he := (run_ineq x (ids_lt inp hi x hx) p (safe_fresh hs) (St.init (inp.args.map (·.2)))).e1
  rw [init_phi, count_allIds inp hi x hx] at he
  rw [runOn_liveCount]
  have h0 : (St.init (inp.args.map (·.2))).cp.count x = 0 := rfl
  simp only [St.phi] at he
  show _ ≤ 1 + (run p (St.init (inp.args.map (·.2)))).cp.count x
  omega

theorem safe_conserved (hi : idsOk inp = true) (hs : Safe inp p) : (runOn inp p).Conserved := by
  intro x hx
  rw [runOn_inputs] at hx
  have h := run_ineq x (ids_lt inp hi x hx) p (safe_fresh hs) (St.init (inp.args.map (·.2)))
  have he1 := h.e1
  have he2 := h.e2
  rw [init_phi, count_allIds inp hi x hx] at he1 he2
  rw [(safe_quiet hs).1] at he2
  rw [runOn_liveCount]
  have h0 : (St.init (inp.args.map (·.2))).cp.count x = 0 := rfl
  have h1 : (St.init (inp.args.map (·.2))).ram.count x = 0 := rfl
  simp only [St.phi, List.count_nil] at he1 he2
  show _ + (run p (St.init (inp.args.map (·.2)))).lost.count x = 1 + (run p (St.init (inp.args.map (·.2)))).cp.count x
  omega

/-- on the all-rvalue path nothing is copied: the instantiation with a move-only element type exists -/
theorem safe_acceptsMoveOnly (hs : Safe inp p) (hall : (runOn inp p).AllRvalue) : (runOn inp p).cp = [] := by
  apply List.eq_nil_iff_forall_not_mem.2
  intro y hy
  obtain ⟨a, ha, _⟩ := safe_cp hs y hy
  obtain ⟨c, hc⟩ : ∃ c, inp.cat a = some c := by
    rcases ha with h | h <;> exact ⟨_, h⟩
  have hmem : c ∈ (runOn inp p).cats := by
    have : (runOn inp p).cats[a]? = some c := by rw [← hc]; exact runOn_catOf inp p a
    exact List.mem_of_getElem? this
  rw [hc] at ha
  rcases hall c hmem with rfl | rfl <;> rcases ha with h | h <;> cases h

end Fcppt.C05
