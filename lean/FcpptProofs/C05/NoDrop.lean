import FcpptProofs.C05.KeepsReg
set_option linter.unusedSimpArgs false
set_option linter.unusedVariables false
/-!
# C05 lemmas — a program that never sends a value to `drop` destroys no live value
-/
namespace Fcppt.C05

/-- the instruction sends nothing to `drop`, and an argument it puts values into exists -/
def Instr.KeepsValues (x : Instr) (nargs : Nat) : Prop :=
  ∀ d, x.dest = some d → d ≠ .drop ∧ ∀ a, d = .arg a → a < nargs

theorem put_lost_of_keeps (st : St) (d : Dest) (vs : List Slot) (h : d ≠ .drop ∧ ∀ a, d = .arg a → a < st.args.length) :
    (put st d vs).lost = st.lost := by
  unfold put
  cases d with
  | res => rfl
  | drop => exact absurd rfl h.1
  | arg a => simp [h.2 a rfl]

theorem step_args_length (st : St) (x : Instr) : (step st x).args.length = st.args.length := by
  cases x with
  | xfer a i m d =>
    cases m <;> simp only [step] <;> split <;> simp [noteOob, put_args_length, setSlot_length, noteRam_args]
  | derive a i k d => simp only [step]; split <;> simp [noteOob, put_args_length, noteRam_args]
  | read a i => simp only [step]; split <;> simp [noteOob, noteRam_args]
  | shift a i => simp only [step]; split <;> simp [noteOob, noteRam_args]
  | steal a d => simp only [step]; split <;> simp [noteOob, put_args_length]
  | pop a i d => simp only [step]; split <;> simp [noteOob, put_args_length, setSlot_length, noteRam_args]
  | swap a i j => simp only [step]; split <;> simp [noteOob, setSlot_length, noteRam_args]
  | fresh v d => simp only [step]; simp [put_args_length]

theorem step_lost_of_keeps (st : St) (x : Instr) (h : x.KeepsValues st.args.length) : (step st x).lost = st.lost := by
  cases x with
  | xfer a i m d =>
    have hd := h d rfl
    cases m <;> simp only [step] <;> split
    · rfl
    · rw [put_lost_of_keeps _ _ _ (by simpa [setSlot_length, noteRam_args] using hd)]; simp
    · rfl
    · rw [put_lost_of_keeps _ _ _ (by simpa [noteRam_args] using hd)]; simp
  | derive a i k d =>
    have hd := h d rfl
    simp only [step]; split
    · rfl
    · rw [put_lost_of_keeps _ _ _ (by simpa [noteRam_args] using hd)]; simp
  | read a i => simp only [step]; split <;> simp [noteOob]
  | shift a i => simp only [step]; split <;> simp [noteOob]
  | steal a d =>
    have hd := h d rfl
    simp only [step]; split
    · rfl
    · rw [put_lost_of_keeps _ _ _ (by simpa using hd)]
  | pop a i d =>
    have hd := h d rfl
    simp only [step]; split
    · rfl
    · rw [put_lost_of_keeps _ _ _ (by simpa [setSlot_length, noteRam_args] using hd)]; simp
  | swap a i j => simp only [step]; split <;> simp [noteOob]
  | fresh v d =>
    have hd := h d rfl
    simp only [step]
    rw [put_lost_of_keeps _ _ _ hd]

theorem run_lost_of_keeps (p : List Instr) (st : St) (h : ∀ x ∈ p, x.KeepsValues st.args.length) : (run p st).lost = st.lost := by
  induction p generalizing st with
  | nil => rfl
  | cons y ys ih =>
    simp only [run, List.foldl_cons]
    have := ih (step st y) (by rw [step_args_length]; exact fun z hz => h z (by simp [hz]))
    simp only [run] at this
    rw [this, step_lost_of_keeps st y (h y (by simp))]

/-- a safe program without a `drop` destination destroys no live value -/
theorem safe_nothing_lost {inp : Input} {p : List Instr} (hs : Safe inp p) (hd : ∀ x ∈ p, x.dest ≠ some .drop) :
    (runOn inp p).lost = [] := by
  show (run p (St.init (inp.args.map (·.2)))).lost = []
  rw [run_lost_of_keeps]
  · rfl
  · intro x hx d hxd
    refine ⟨fun e => hd x hx (e ▸ hxd), fun a ha => ?_⟩
    have : x.needsArg a := by
      subst ha
      cases x <;> simp [Instr.dest] at hxd <;> subst hxd <;> simp [Instr.needsArg]
    simpa [St.init] using (hs.ok x hx).exists_ a this

def NoDropP (p : List Instr) : Prop := ∀ x ∈ p, x.dest ≠ some .drop

theorem noDrop_of_allToRes {p : List Instr} (h : AllToRes p) : NoDropP p := by
  intro x hx e
  have := h x hx _ e
  cases this

theorem noDrop_map {α : Type} (l : List α) (f : α → Instr) (h : ∀ i, (f i).dest ≠ some .drop) : NoDropP (l.map f) := by
  intro x hx
  obtain ⟨i, _, rfl⟩ := List.mem_map.1 hx
  exact h i

theorem noDrop_ite {c : Prop} [Decidable c] {p q : List Instr} (hp : NoDropP p) (hq : NoDropP q) : NoDropP (if c then p else q) := by
  split <;> assumption

theorem noDrop_nil : NoDropP [] := fun x hx => absurd hx List.not_mem_nil

theorem noDrop_append {p q : List Instr} (hp : NoDropP p) (hq : NoDropP q) : NoDropP (p ++ q) :=
  fun x hx => (List.mem_append.1 hx).elim (hp x) (hq x)

theorem noDrop_cons {x : Instr} {q : List Instr} (hx : x.dest ≠ some .drop) (hq : NoDropP q) : NoDropP (x :: q) :=
  fun y hy => (List.mem_cons.1 hy).elim (fun e => e ▸ hx) (hq y)

theorem noDrop_xferAll_arg (a n : Nat) (m : Mode) (b : Nat) : NoDropP (xferAll a n m (.arg b)) :=
  noDrop_map _ _ (fun i e => by cases e)

theorem noDrop_freshRange_arg (n b : Nat) : NoDropP (freshRange n (.arg b)) :=
  noDrop_map _ _ (fun i e => by cases e)

/-- closes `NoDropP (prog o inp)` goals: everything that goes to the result, or into an argument -/
macro "no_drop" : tactic =>
  `(tactic| repeat' (first
      | exact noDrop_nil | exact noDrop_xferAll_arg _ _ _ _ | exact noDrop_freshRange_arg _ _
      | (refine noDrop_of_allToRes ?_; all_to_res; done)
      | exact noDrop_map _ _ (fun i e => by cases e)
      | apply noDrop_append | apply noDrop_ite | apply noDrop_cons (fun e => by cases e)))

theorem prog_noDrop (o : Op) (inp : Input) (h : drops o = false) : NoDropP (prog o inp) := by
  cases o <;> simp only [drops, Bool.true_eq_false] at h <;> simp only [prog] <;>
    first
    | (refine noDrop_of_allToRes ?_; all_to_res; done)
    | (no_drop; done)
    | skip
  case eithSequence => split <;> (refine noDrop_of_allToRes ?_; all_to_res)
  case gridResize =>
    apply noDrop_map
    intro k e
    unfold gridCell at e
    split at e <;> cases e

end Fcppt.C05
